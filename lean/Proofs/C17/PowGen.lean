import Proofs.C17.Pow
namespace Btc.Pow
open Btc Btc.Py

/-- the number a compact form (exponent byte `e`, 24-bit significand field `s`) denotes, sign bit masked off -/
def cval (e s : Nat) : Nat :=
  if e < 3 then (s % 8388608) / 256 ^ (3 - e) else (s % 8388608) * 256 ^ (e - 3)

theorem slice1 (x0 x1 x2 x3 : UInt8) : slice [x0, x1, x2, x3] (some 1) none = [x1, x2, x3] := by
  simp [slice, normIdx]

theorem index0 (x0 : UInt8) (r : Bytes) : index (x0 :: r) 0 = .ok (x0.toNat : Int) := by
  simp [index]

theorem value_from_bits_eq (x0 x1 x2 x3 : UInt8) :
    Gen.Pow.value_from_bits [x0, x1, x2, x3] = .ok ((cval x0.toNat (ofBE [x1, x2, x3]) : Nat) : Int) := by
  unfold Gen.Pow.value_from_bits
  simp only [slice1, index0, fromBytesBE, Gen.Pow.SIGNIFICAND_MASK, bind, Except.bind, pure, Except.pure]
  have hm : (8388607 : Int) = ((8388607 : Nat) : Int) := rfl
  rw [hm, land_nat, and_mask23]
  unfold cval
  by_cases h : x0.toNat < 3
  · have h' : ((x0.toNat : Nat) : Int) < 3 := by omega
    simp only [h, h', if_true]
    have : (8 * (3 - (x0.toNat : Int))) = ((8 * (3 - x0.toNat) : Nat) : Int) := by omega
    rw [this, shr_nat, pow256]
  · have h' : ¬ ((x0.toNat : Nat) : Int) < 3 := by omega
    simp only [h, h', if_false]
    have : (8 * ((x0.toNat : Int) - 3)) = ((8 * (x0.toNat - 3) : Nat) : Int) := by omega
    rw [this, shl_nat, pow256]

theorem bytesFromOctets4 (x0 x1 x2 x3 : UInt8) :
    bytesFromOctets [x0, x1, x2, x3] (some 4) = .ok [x0, x1, x2, x3] := by
  simp [bytesFromOctets]

theorem bytesFromOctets_bad (b : Bytes) (k : Nat) (h : b.length ≠ k) :
    bytesFromOctets b (some (k : Int)) = .error .value := by
  unfold bytesFromOctets
  have : ¬ ((b.length : Int) = (k : Int)) := by omega
  simp [this]

theorem toBytesBE_ok (v k : Nat) (h : v < 256 ^ k) : toBytesBE (v : Int) (k : Int) = .ok (beBytes k v) := by
  unfold toBytesBE
  have h1 : ¬ ((v : Int) < 0 ∨ (k : Int) < 0) := by omega
  simp only [h1, if_false, Int.toNat_natCast]
  have h2 : ¬ (v ≥ 256 ^ k) := by omega
  simp [h2]

def U256 : Nat := 115792089237316195423570985008687907853269984665640564039457584007913129639936

theorem U256_eq : U256 = 256 ^ 32 := by norm_num [U256]

theorem target_from_bits_eq (x0 x1 x2 x3 : UInt8) :
    Gen.Pow.target_from_bits [x0, x1, x2, x3] =
      if cval x0.toNat (ofBE [x1, x2, x3]) ≥ U256 then .error .value
      else .ok (beBytes 32 (cval x0.toNat (ofBE [x1, x2, x3]))) := by
  unfold Gen.Pow.target_from_bits
  simp only [bytesFromOctets4, value_from_bits_eq, bind, Except.bind, Gen.Pow.TARGET_SIZE]
  generalize cval x0.toNat (ofBE [x1, x2, x3]) = v
  by_cases h : v ≥ U256
  · have h' : (v : Int) ≥ 115792089237316195423570985008687907853269984665640564039457584007913129639936 := by
      unfold U256 at h; omega
    simp only [h, h', if_true]
    rfl
  · have h' : ¬ (v : Int) ≥ 115792089237316195423570985008687907853269984665640564039457584007913129639936 := by
      unfold U256 at h; omega
    simp only [h, h', if_false]
    have : (32 : Int) = ((32 : Nat) : Int) := rfl
    rw [this, toBytesBE_ok v 32 (by rw [← U256_eq]; omega)]

theorem target_from_bits_bad (b : Bytes) (h : b.length ≠ 4) : Gen.Pow.target_from_bits b = .error .value := by
  unfold Gen.Pow.target_from_bits
  have : (4 : Int) = ((4 : Nat) : Int) := rfl
  rw [this, bytesFromOctets_bad b 4 h]
  rfl

theorem is_negative_bits_eq (x0 x1 x2 x3 : UInt8) :
    Gen.Pow.is_negative_bits [x0, x1, x2, x3] =
      .ok (decide (ofBE [x1, x2, x3] / 8388608 % 2 = 1 ∧ cval x0.toNat (ofBE [x1, x2, x3]) ≠ 0)) := by
  unfold Gen.Pow.is_negative_bits
  simp only [bytesFromOctets4, slice1, value_from_bits_eq, fromBytesBE, bind, Except.bind, pure, Except.pure,
    Gen.Pow.SIGNIFICAND_SIGN_BIT]
  have hm : (8388608 : Int) = ((8388608 : Nat) : Int) := rfl
  rw [hm, land_nat, and_bit23]
  generalize cval x0.toNat (ofBE [x1, x2, x3]) = v
  generalize ofBE [x1, x2, x3] = s
  have hc : (decide (((8388608 * (s / 8388608 % 2) : Nat) : Int) ≠ 0)) = decide (s / 8388608 % 2 = 1) :=
    decide_eq_decide.mpr (by omega)
  rw [hc]
  by_cases h : s / 8388608 % 2 = 1
  · simp [h]
  · simp [h]

theorem is_negative_bits_bad (b : Bytes) (h : b.length ≠ 4) : Gen.Pow.is_negative_bits b = .error .value := by
  unfold Gen.Pow.is_negative_bits
  have : (4 : Int) = ((4 : Nat) : Int) := rfl
  rw [this, bytesFromOctets_bad b 4 h]
  rfl

/-! ### Core's SetCompact on `n = e·2^24 + s` -/

theorem cval_small (e s : Nat) (he : e ≤ 3) : cval e s < 8388608 := by
  unfold cval
  split
  · exact Nat.lt_of_le_of_lt (Nat.div_le_self _ _) (Nat.mod_lt _ (by omega))
  · have : e = 3 := by omega
    subst this; simp; omega

theorem ovf_iff (e w : Nat) (hw : w < 8388608) (he : 3 < e) :
    (w ≠ 0 ∧ (e > 34 ∨ (w > 255 ∧ e > 33) ∨ (w > 65535 ∧ e > 32))) ↔ w * 256 ^ (e - 3) ≥ U256 := by
  rw [U256_eq]
  by_cases h32 : e ≤ 32
  · have h1 : (256 : Nat) ^ (e - 3) ≤ 256 ^ 29 := Nat.pow_le_pow_right (by omega) (by omega)
    have h2 : w * 256 ^ (e - 3) ≤ w * 256 ^ 29 := Nat.mul_le_mul_left _ h1
    constructor
    · intro ⟨_, h⟩; omega
    · intro h
      have : w * 256 ^ 29 < 256 ^ 32 := by norm_num; omega
      omega
  · by_cases h33 : e = 33
    · subst h33; norm_num; omega
    · by_cases h34 : e = 34
      · subst h34; norm_num; omega
      · have h1 : (256 : Nat) ^ 32 ≤ 256 ^ (e - 3) := Nat.pow_le_pow_right (by omega) (by omega)
        constructor
        · intro ⟨h0, _⟩
          have : 1 * 256 ^ (e - 3) ≤ w * 256 ^ (e - 3) := Nat.mul_le_mul_right _ (by omega)
          omega
        · intro h
          refine ⟨?_, by omega⟩
          intro h0; subst h0
          have : (0 : Nat) < 256 ^ 32 := by positivity
          omega

theorem setCompact_eq (e s : Nat) (he : e < 256) (hs : s < 16777216) :
    CorePow.setCompact (e * 16777216 + s) =
      { value := cval e s % U256
        negative := decide (s / 8388608 % 2 = 1 ∧ cval e s ≠ 0)
        overflow := decide (cval e s ≥ U256) } := by
  have hsize : (e * 16777216 + s) >>> 24 = e := by
    rw [Nat.shiftRight_eq_div_pow]; norm_num; omega
  have hword : (e * 16777216 + s) &&& 0x007fffff = s % 8388608 := by
    rw [and_mask23]; omega
  have hsign : (e * 16777216 + s) &&& 0x00800000 = 8388608 * (s / 8388608 % 2) := by
    rw [and_bit23]; omega
  unfold CorePow.setCompact
  simp only [hsize, hword, hsign]
  have hU : CorePow.U256 = U256 := by norm_num [CorePow.U256, U256]
  rw [hU]
  by_cases h3 : e ≤ 3
  · have hc := cval_small e s h3
    have hcv : (s % 8388608) >>> (8 * (3 - e)) = cval e s := by
      unfold cval
      rw [Nat.shiftRight_eq_div_pow, ← pow256]
      by_cases h : e < 3
      · simp [h]
      · have : e = 3 := by omega
        subst this; simp
    simp only [h3, if_true, hcv]
    have h1 : cval e s % U256 = cval e s := Nat.mod_eq_of_lt (by unfold U256; omega)
    have h2 : ¬ cval e s ≥ U256 := by unfold U256; omega
    have e34 : ¬ e > 34 := by omega
    have e33 : ¬ e > 33 := by omega
    have e32 : ¬ e > 32 := by omega
    rw [h1]
    congr 1
    · by_cases hb : s / 8388608 % 2 = 1 <;> by_cases hz : cval e s = 0 <;> simp [hb, hz] <;> omega
    · simp [h2, e34, e33, e32]
  · have hcv : cval e s = (s % 8388608) * 256 ^ (e - 3) := by
      unfold cval
      have : ¬ e < 3 := by omega
      simp [this]
    simp only [h3, if_false]
    rw [Nat.shiftLeft_eq, ← pow256, ← hcv]
    have hw : s % 8388608 < 8388608 := Nat.mod_lt _ (by omega)
    have hov := ovf_iff e (s % 8388608) hw (by omega)
    rw [← hcv] at hov
    have hz : (s % 8388608 = 0) ↔ cval e s = 0 := by
      rw [hcv]
      constructor
      · intro h; rw [h]; simp
      · intro h
        have : (0 : Nat) < 256 ^ (e - 3) := by positivity
        rcases Nat.mul_eq_zero.mp h with h | h
        · exact h
        · omega
    congr 1
    · by_cases hb : s / 8388608 % 2 = 1 <;> by_cases hz' : cval e s = 0 <;> simp [hb, hz', hz] <;> omega
    · by_cases ho : cval e s ≥ U256
      · have := hov.mpr ho
        simp only [ho, decide_true]
        obtain ⟨a, b⟩ := this
        simp [a]
        omega
      · have hn : ¬ (s % 8388608 ≠ 0 ∧ (e > 34 ∨ (s % 8388608 > 255 ∧ e > 33) ∨ (s % 8388608 > 65535 ∧ e > 32))) :=
          fun h => ho (hov.mp h)
        simp only [ho, decide_false]
        by_cases hw0 : s % 8388608 = 0
        · simp [hw0]
        · simp [hw0]
          have : ¬ (e > 34 ∨ (s % 8388608 > 255 ∧ e > 33) ∨ (s % 8388608 > 65535 ∧ e > 32)) := fun h => hn ⟨hw0, h⟩
          omega

theorem len4 (b : Bytes) (h : b.length = 4) : ∃ x0 x1 x2 x3, b = [x0, x1, x2, x3] := by
  match b, h with
  | [x0, x1, x2, x3], _ => exact ⟨x0, x1, x2, x3, rfl⟩

theorem ofBE4 (x0 x1 x2 x3 : UInt8) :
    ofBE [x0, x1, x2, x3] = x0.toNat * 16777216 + ofBE [x1, x2, x3] ∧ ofBE [x1, x2, x3] < 16777216 := by
  constructor
  · rw [ofBE_cons]; simp
  · have := ofBE_lt [x1, x2, x3]
    simpa using this

/-- generated `target_from_bits` / `is_negative_bits` against Core's `SetCompact`, on four bytes -/
theorem target_from_bits_core4 (x0 x1 x2 x3 : UInt8) :
    Gen.Pow.target_from_bits [x0, x1, x2, x3] =
      if (CorePow.setCompact (ofBE [x0, x1, x2, x3])).overflow then .error .value
      else .ok (beBytes 32 (CorePow.setCompact (ofBE [x0, x1, x2, x3])).value) := by
  obtain ⟨h1, h2⟩ := ofBE4 x0 x1 x2 x3
  rw [target_from_bits_eq, h1, setCompact_eq _ _ x0.toNat_lt h2]
  by_cases h : cval x0.toNat (ofBE [x1, x2, x3]) ≥ U256
  · simp [h]
  · have : cval x0.toNat (ofBE [x1, x2, x3]) % U256 = cval x0.toNat (ofBE [x1, x2, x3]) :=
      Nat.mod_eq_of_lt (by omega)
    simp [h, this]

theorem is_negative_bits_core4 (x0 x1 x2 x3 : UInt8) :
    Gen.Pow.is_negative_bits [x0, x1, x2, x3] = .ok (CorePow.setCompact (ofBE [x0, x1, x2, x3])).negative := by
  obtain ⟨h1, h2⟩ := ofBE4 x0 x1 x2 x3
  rw [is_negative_bits_eq, h1, setCompact_eq _ _ x0.toNat_lt h2]

end Btc.Pow
