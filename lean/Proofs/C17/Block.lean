import Model.C17.Block
import Proofs.C17.Merkle
import Proofs.C17.PowNext
import Proofs.C17.PowGen
namespace Btc.Block
open Btc Btc.Merkle

variable {α : Type}

/-- `assert_valid_merkle_root` passes exactly when the header root is the tree's root over the txids
    and the tree is not flagged mutated -/
theorem assertMerkleRoot_ok_iff [DecidableEq α] (h : α → α → α) (hr : α) (txids : List α) :
    assertMerkleRoot h hr txids = .ok () ↔ rootAndMutated h txids = some (hr, false) := by
  unfold assertMerkleRoot
  cases hrm : rootAndMutated h txids with
  | none => simp
  | some p =>
    obtain ⟨r, m⟩ := p
    by_cases h1 : r = hr
    · subst h1
      cases m <;> simp
    · simp [h1]

/-- a header root commits to the transaction list (given their number): two lists of the same length
    valid under the same header root are equal, or a collision of the node hash is exhibited -/
theorem root_commits [DecidableEq α] (h : α → α → α) (hr : α) (txids txids' : List α)
    (hlen : txids.length = txids'.length)
    (h1 : assertMerkleRoot h hr txids = .ok ()) (h2 : assertMerkleRoot h hr txids' = .ok ()) :
    txids = txids' ∨ ∃ a b c d, (a, b) ≠ (c, d) ∧ h a b = h c d := by
  rw [assertMerkleRoot_ok_iff] at h1 h2
  by_cases hc : ∃ a b c d, (a, b) ≠ (c, d) ∧ h a b = h c d
  · exact Or.inr hc
  · left
    apply List.ext_getElem? 
    intro i
    cases hx : txids[i]? with
    | none =>
      have : txids.length ≤ i := List.getElem?_eq_none_iff.mp hx
      exact (List.getElem?_eq_none_iff.mpr (by omega)).symm
    | some x =>
      have hi : i < txids'.length := by
        have := (List.getElem?_eq_some_iff.mp hx).1; omega
      have hy : txids'[i]? = some txids'[i] := List.getElem?_eq_getElem hi
      have hv := branch_complete_unmutated h txids' i txids'[i] hr hy h2
      have hl := branch_length_eq h h txids'.length txids' txids i i (Nat.le_refl _) hlen.symm
      rcases branch_sound_tree h txids i x txids'[i] hr _ hx h1 hl hv with e | c
      · rw [hy, e]
      · exact absurd c hc

/-- a valid block gives every transaction a verifying merkle proof against the header root -/
theorem valid_root_proves_every_tx [DecidableEq α] (h : α → α → α) (hr : α) (txids : List α) (i : Nat) (x : α)
    (hv : assertMerkleRoot h hr txids = .ok ()) (hx : txids[i]? = some x) :
    rootFromBranch h x (branch h txids i) i = .ok hr :=
  branch_complete_unmutated h txids i x hr hx ((assertMerkleRoot_ok_iff h hr txids).mp hv)

/-- `assert_valid_witness_commitment` passes on a segwit block exactly when the last commitment output of
    the coinbase is `H(witness_root ‖ nonce)` for the single 32-byte coinbase witness item `nonce`, where
    `witness_root` is the tree over (32 zero bytes, wtxid₁, wtxid₂, …). -/
theorem assertWitnessCommitment_ok_iff (H : Bytes → Bytes) (outs witness wtxids : List Bytes) :
    assertWitnessCommitment H true outs witness wtxids = .ok () ↔
      ∃ c nonce r m, witnessCommitment outs = some c ∧ witness = [nonce] ∧ nonce.length = 32 ∧
        rootAndMutated (fun a b => H (a ++ b)) (zero32 :: wtxids) = some (r, m) ∧ H (r ++ nonce) = c := by
  unfold assertWitnessCommitment
  simp only [Bool.not_true, Bool.false_eq_true, if_false]
  cases hc : witnessCommitment outs with
  | none => simp
  | some c =>
    match witness with
    | [] => simp
    | [nonce] =>
      by_cases hn : nonce.length = 32
      · cases hrm : rootAndMutated (fun a b => H (a ++ b)) (zero32 :: wtxids) with
        | none => simp [hn]
        | some p =>
          obtain ⟨r, m⟩ := p
          by_cases he : H (r ++ nonce) = c
          · simp [hn, he]
          · have he' : ¬ c = H (r ++ nonce) := fun e => he e.symm
            simp [hn, he, he']
      · simp [hn]
    | _ :: _ :: _ => simp

/-- a non-segwit block has nothing to commit to -/
theorem assertWitnessCommitment_legacy (H : Bytes → Bytes) (outs witness wtxids : List Bytes) :
    assertWitnessCommitment H false outs witness wtxids = .ok () := by
  simp [assertWitnessCommitment]

/-! ### chain work -/

theorem block_work_bad_length (b : Bytes) (h : b.length ≠ 4) : Gen.Pow.block_work b = .error .value := by
  unfold Gen.Pow.block_work
  rw [Btc.Pow.target_from_bits_bad b h]
  rfl

/-- `block_work` on any byte string: Core's `GetBlockProof` when that is non-zero, a ValueError otherwise -/
theorem block_work_total (b : Bytes) :
    Gen.Pow.block_work b =
      if b.length = 4 ∧ CorePow.getBlockProof (ofBE b) ≠ 0 then .ok ((CorePow.getBlockProof (ofBE b) : Nat) : Int)
      else .error .value := by
  by_cases h4 : b.length = 4
  · obtain ⟨x0, x1, x2, x3, rfl⟩ := Btc.Pow.len4 b h4
    have hv := Btc.Pow.setCompact_value_lt x0 x1 x2 x3
    rw [Btc.Pow.block_work_formula4, Btc.Pow.getBlockProof_eq _ (by norm_num at hv ⊢; exact hv)]
    generalize (CorePow.setCompact (ofBE [x0, x1, x2, x3])).negative = N at *
    generalize (CorePow.setCompact (ofBE [x0, x1, x2, x3])).overflow = O at *
    generalize (CorePow.setCompact (ofBE [x0, x1, x2, x3])).value = V at *
    cases O
    · by_cases h0 : V = 0
      · simp [h0]
      · have : 2 ^ 256 / (V + 1) ≠ 0 := by
          have : V + 1 ≤ 2 ^ 256 := by norm_num at hv ⊢; omega
          exact Nat.ne_of_gt (Nat.div_pos this (by omega))
        cases N
        · simp [h0, this]
          norm_num at hv
          omega
        · simp [h0]
    · simp
  · rw [block_work_bad_length b h4]
    simp [h4]

/-- T8 (`chain_work`): the sum of Core's block proofs, whenever every header would be credited work by
    Core; a ValueError as soon as one would not (wrong width, negative, overflowing or zero target). -/
theorem chainWork_eq : ∀ bs : List Bytes,
    chainWork bs =
      if ∀ b ∈ bs, b.length = 4 ∧ CorePow.getBlockProof (ofBE b) ≠ 0
      then .ok (((bs.map fun b => CorePow.getBlockProof (ofBE b)).sum : Nat) : Int)
      else .error .value
  | [] => by simp [chainWork]
  | b :: rest => by
    rw [chainWork, block_work_total, chainWork_eq rest]
    by_cases hb : b.length = 4 ∧ CorePow.getBlockProof (ofBE b) ≠ 0
    · by_cases hr : ∀ b ∈ rest, b.length = 4 ∧ CorePow.getBlockProof (ofBE b) ≠ 0
      · have : ∀ c ∈ b :: rest, c.length = 4 ∧ CorePow.getBlockProof (ofBE c) ≠ 0 := by
          intro c hc
          rcases List.mem_cons.mp hc with e | m
          · rw [e]; exact hb
          · exact hr c m
        rw [if_pos hb, if_pos hr, if_pos this]
        simp only [bind, Except.bind, pure, Except.pure, List.map_cons, List.sum_cons]
        norm_cast
      · have : ¬ ∀ c ∈ b :: rest, c.length = 4 ∧ CorePow.getBlockProof (ofBE c) ≠ 0 :=
          fun h => hr fun c hc => h c (List.mem_cons_of_mem _ hc)
        rw [if_pos hb, if_neg hr, if_neg this]
        rfl
    · have : ¬ ∀ c ∈ b :: rest, c.length = 4 ∧ CorePow.getBlockProof (ofBE c) ≠ 0 :=
        fun h => hb (h b (by simp))
      rw [if_neg hb, if_neg this]
      rfl

section ValidPow
open Btc.Py Btc.Pow

theorem assertValidPow_ok_iff (bits limitBits hash : Bytes) (hb : bits.length = 4) (hl : limitBits.length = 4) :
    assertValidPow bits limitBits hash = .ok () ↔
      (CorePow.setCompact (ofBE bits)).negative = false ∧ (CorePow.setCompact (ofBE bits)).overflow = false ∧
      (CorePow.setCompact (ofBE bits)).value ≠ 0 ∧ (CorePow.setCompact (ofBE limitBits)).overflow = false ∧
      (CorePow.setCompact (ofBE bits)).value ≤ (CorePow.setCompact (ofBE limitBits)).value ∧
      ofBE hash ≤ (CorePow.setCompact (ofBE bits)).value := by
  obtain ⟨x0, x1, x2, x3, rfl⟩ := len4 bits hb
  obtain ⟨y0, y1, y2, y3, rfl⟩ := len4 limitBits hl
  have hv := setCompact_value_lt x0 x1 x2 x3
  have hw := setCompact_value_lt y0 y1 y2 y3
  unfold assertValidPow
  rw [is_negative_bits_core4, target_from_bits_core4, target_from_bits_core4]
  generalize CorePow.setCompact (ofBE [x0, x1, x2, x3]) = r at *
  generalize CorePow.setCompact (ofBE [y0, y1, y2, y3]) = l at *
  obtain ⟨rv, rn, ro⟩ := r
  obtain ⟨lv, ln, lo⟩ := l
  simp only at hv hw ⊢
  cases rn
  · cases ro
    · simp only [Bool.false_eq_true, if_false, ofBE_beBytes, Nat.mod_eq_of_lt hv, true_and]
      by_cases h0 : rv = 0
      · simp [h0]
      · simp only [h0, if_false, ne_eq, not_false_eq_true, true_and]
        cases lo
        · simp only [Bool.false_eq_true, if_false, ofBE_beBytes, Nat.mod_eq_of_lt hw, true_and]
          by_cases ha : rv > lv
          · simp only [ha, if_true]
            constructor
            · intro h; cases h
            · rintro ⟨h, _⟩; omega
          · simp only [ha, if_false]
            by_cases hh : ofBE hash > rv
            · simp only [hh, if_true]
              constructor
              · intro h; cases h
              · rintro ⟨_, h⟩; omega
            · simp only [hh, if_false, true_iff]
              omega
        · simp
    · simp
  · simp

end ValidPow

end Btc.Block
