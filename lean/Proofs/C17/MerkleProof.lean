import Proofs.C17.Merkle
import Model.C17.MerkleProof
/-! byte-level statements about the EXECUTED verifier (`rootFromBranchBytesChecked`, `proofVerify`) -/
namespace Btc.Merkle

/-- the checked byte-level loop answers `.ok` only after it has seen every sibling, each 32 bytes wide -/
theorem checkedLoop_ok_widths (H : Bytes → Bytes) (isTx : Bytes → Bool) : ∀ (br : List Bytes) (r out : Bytes) (i : Nat),
    rootFromBranchBytesCheckedLoop H isTx r br i = .ok out → ∀ s ∈ br, s.length = 32 := by
  intro br
  induction br with
  | nil => intro r out i _ s hs; cases hs
  | cons s bs ih =>
    intro r out i hv t ht
    unfold rootFromBranchBytesCheckedLoop at hv
    by_cases hs : s.length = 32
    · simp only [hs, ne_eq, not_true_eq_false, if_false] at hv
      rcases List.mem_cons.mp ht with rfl | ht'
      · exact hs
      · by_cases hodd : i % 2 = 1
        · simp only [hodd, if_true] at hv
          split at hv
          · cases hv
          · split at hv
            · cases hv
            · exact ih _ _ _ hv t ht'
        · simp only [hodd, if_false] at hv
          split at hv
          · cases hv
          · exact ih _ _ _ hv t ht'
    · simp [hs] at hv

/-- `merkle_root_from_branch(…, check_inner_node)` at byte level, exactly: accepted iff the index is not
    negative, leaf and every sibling are 32 bytes, the plain verifier recomputes `r`, and no 64-byte pair hashed
    on the way up is refused by the callback. -/
theorem checkedBytes_ok_iff (H : Bytes → Bytes) (isTx : Bytes → Bool) (leaf : Bytes) (br : List Bytes) (index : Int)
    (r : Bytes) :
    rootFromBranchBytesChecked H isTx leaf br index = .ok r ↔
      0 ≤ index ∧ leaf.length = 32 ∧ (∀ s ∈ br, s.length = 32) ∧
      rootFromBranch (fun a b => H (a ++ b)) leaf br index.toNat = .ok r ∧
      ∀ p ∈ pathPairs (fun a b => H (a ++ b)) leaf br index.toNat, isTx (p.1 ++ p.2) = false := by
  unfold rootFromBranchBytesChecked
  by_cases hneg : index < 0
  · simp only [hneg, if_true]
    constructor
    · intro h; cases h
    · rintro ⟨h0, _⟩; omega
  · simp only [hneg, if_false]
    by_cases hl : leaf.length = 32
    · simp only [hl, ne_eq, not_true_eq_false, if_false, true_and]
      constructor
      · intro hv
        have hall := checkedLoop_ok_widths H isTx br leaf r index.toNat hv
        rw [rootFromBranchBytesCheckedLoop_eq H isTx br leaf _ hall, checked_ok_iff] at hv
        exact ⟨by omega, hall, hv.1, hv.2⟩
      · rintro ⟨_, hall, hp, hno⟩
        rw [rootFromBranchBytesCheckedLoop_eq H isTx br leaf _ hall, checked_ok_iff]
        exact ⟨hp, hno⟩
    · simp only [hl, ne_eq, not_false_eq_true, if_true]
      constructor
      · intro h; cases h
      · rintro ⟨_, h32, _⟩; exact h32.elim

variable {α : Type}

/-- every node of the next level is a hash -/
theorem nextLevel_mem (h : α → α → α) : ∀ (l : List α) (y : α), y ∈ nextLevel h l → ∃ a b, y = h a b
  | [], y, hy => by simp [nextLevel] at hy
  | [a], y, hy => by simp [nextLevel] at hy; exact ⟨a, a, hy⟩
  | a :: b :: rest, y, hy => by
    simp only [nextLevel, List.mem_cons] at hy
    rcases hy with rfl | hy
    · exact ⟨a, b, rfl⟩
    · exact nextLevel_mem h rest y hy

/-- a predicate closed under the node hash and true of every leaf is true of every sibling of a branch -/
theorem branch_inv (h : α → α → α) (P : α → Prop) (hP : ∀ a b, P (h a b)) : ∀ (n : Nat) (l : List α) (i : Nat),
    l.length ≤ n → (∀ y ∈ l, P y) → ∀ s ∈ branch h l i, P s := by
  intro n
  induction n with
  | zero =>
    intro l i hl _ s hs
    have : l = [] := List.eq_nil_of_length_eq_zero (by omega)
    subst this; simp [branch] at hs
  | succ k ih =>
    intro l i hl hall s hs
    match l, hl, hall, hs with
    | [], _, _, hs => simp [branch] at hs
    | [a], _, _, hs => simp [branch] at hs
    | a :: b :: rest, hl, hall, hs =>
      rw [branch] at hs
      rcases List.mem_cons.mp hs with rfl | hs'
      · unfold sibling
        cases h1 : (a :: b :: rest)[sibIdx i]? with
        | some v => exact hall v (List.mem_of_getElem? h1)
        | none =>
          cases h2 : (a :: b :: rest)[i]? with
          | some v => exact hall v (List.mem_of_getElem? h2)
          | none => exact hall a (by simp)
      · have hnl := nextLevel_length h (a :: b :: rest)
        refine ih (nextLevel h (a :: b :: rest)) (i / 2) (by simp only [List.length_cons] at hnl hl ⊢; omega) ?_ s hs'
        intro y hy
        obtain ⟨a', b', rfl⟩ := nextLevel_mem h _ y hy
        exact hP a' b'

/-- …and of what the verifier returns -/
theorem rootFromBranch_inv [DecidableEq α] (h : α → α → α) (P : α → Prop) (hP : ∀ a b, P (h a b)) :
    ∀ (br : List α) (x r : α) (i : Nat), P x → rootFromBranch h x br i = .ok r → P r := by
  intro br
  induction br with
  | nil =>
    intro x r i hx hv
    simp only [rootFromBranch] at hv
    split at hv
    · cases hv
    · cases hv; exact hx
  | cons s bs ih =>
    intro x r i _ hv
    simp only [rootFromBranch] at hv
    by_cases hodd : i % 2 = 1
    · simp only [hodd, if_true] at hv
      split at hv
      · cases hv
      · exact ih _ _ _ (hP _ _) hv
    · simp only [hodd, if_false] at hv
      exact ih _ _ _ (hP _ _) hv

/-- completeness of the EXECUTED verifier: `verify(prove(txs, i)) = True`.  For a hash with 32-byte output, a tree of
    32-byte leaves that is not flagged mutated, the leaf at `i` with its branch (`branch`, display order = reversed)
    is accepted against the root — provided no 64-byte pair on that path is itself refused by the inner-node
    callback (an honest tree whose inner node parses as a transaction IS refused: that is the CVE-2017-12842 rule). -/
theorem proofVerify_complete (H : Bytes → Bytes) (hH : ∀ b, (H b).length = 32) (isTx : Bytes → Bool)
    (l : List Bytes) (i : Nat) (x root : Bytes) (hw : ∀ y ∈ l, y.length = 32)
    (hx : l[i]? = some x) (hr : rootAndMutated (fun a b => H (a ++ b)) l = some (root, false))
    (hno : ∀ p ∈ pathPairs (fun a b => H (a ++ b)) x (branch (fun a b => H (a ++ b)) l i) i, isTx (p.1 ++ p.2) = false) :
    proofVerify H isTx x.reverse ((branch (fun a b => H (a ++ b)) l i).map List.reverse) (i : Int) root.reverse = true := by
  have hx32 : x.length = 32 := hw x (List.mem_of_getElem? hx)
  have hbr : ∀ s ∈ branch (fun a b => H (a ++ b)) l i, s.length = 32 :=
    branch_inv _ (fun b => b.length = 32) (fun a b => hH _) l.length l i (Nat.le_refl _) hw
  have hplain := branch_complete_unmutated (fun a b => H (a ++ b)) l i x root hx hr
  have hroot : root.length = 32 :=
    rootFromBranch_inv _ (fun b => b.length = 32) (fun a b => hH _) _ x root i hx32 hplain
  have hok : rootFromBranchBytesChecked H isTx x (branch (fun a b => H (a ++ b)) l i) (i : Int) = .ok root :=
    (checkedBytes_ok_iff H isTx x _ (i : Int) root).mpr ⟨by omega, hx32, hbr, by simpa using hplain, by simpa using hno⟩
  unfold proofVerify
  have hmm : List.map List.reverse (List.map List.reverse (branch (fun a b => H (a ++ b)) l i)) =
      branch (fun a b => H (a ++ b)) l i := by
    rw [List.map_map]
    have : (List.reverse ∘ List.reverse : Bytes → Bytes) = id := by funext b; simp
    rw [this, List.map_id]
  rw [List.reverse_reverse, hmm, hok]
  simp only [List.length_reverse, hroot, hx32, beq_self_eq_true, Bool.true_and, Bool.and_true, List.all_eq_true]
  intro s hs
  obtain ⟨t, ht, rfl⟩ := List.mem_map.mp hs
  simp [hbr t ht]

end Btc.Merkle
