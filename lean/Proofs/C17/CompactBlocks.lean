import Model.C17.CompactBlocks
import Mathlib.Data.List.Perm.Basic
namespace Btc.CompactBlocks

/-- what the walk knows about one short id -/
inductive Status | unseen | unique (w : Nat) | collided
  deriving DecidableEq, Repr

def trans : Status → Nat → Status
  | .unseen, w => .unique w
  | .unique w0, w => if w0 ≠ w then .collided else .unique w0
  | .collided, _ => .collided

def abs (st : St) (sid : Nat) : Status :=
  if st.collided.contains sid then .collided
  else match st.wtxidOf.lookup sid with
    | none => .unseen
    | some w => .unique w

def render : Status → Slot
  | .unique w => .pool w
  | _ => .missing

/-- the wtxids of the pool entries carrying short id `sid`, in pool order -/
def ws (sid : Nat) (pool : List (Nat × Nat)) : List Nat := (pool.filter (·.1 == sid)).map (·.2)

/-- distinct short ids at distinct positions -/
def Good (P : List (Nat × Nat)) : Prop := P.Pairwise (fun a b => a.1 ≠ b.1 ∧ a.2 ≠ b.2)

theorem lookup_of_mem : ∀ (P : List (Nat × Nat)) (s p : Nat), Good P → (s, p) ∈ P → P.lookup s = some p
  | [], _, _, _, h => by simp at h
  | (a, b) :: rest, s, p, hg, h => by
    have hg' := List.pairwise_cons.mp hg
    rcases List.mem_cons.mp h with h1 | h1
    · cases h1; simp [List.lookup]
    · have hne : a ≠ s := (hg'.1 (s, p) h1).1
      have : (s == a) = false := by simp; exact fun h => hne h.symm
      simp only [List.lookup, this]
      exact lookup_of_mem rest s p hg'.2 h1

theorem mem_of_lookup : ∀ (P : List (Nat × Nat)) (s p : Nat), P.lookup s = some p → (s, p) ∈ P
  | [], _, _, h => by simp [List.lookup] at h
  | (a, b) :: rest, s, p, h => by
    by_cases hs : s = a
    · subst hs; simp [List.lookup] at h; subst h; simp
    · have : (s == a) = false := by simp [hs]
      simp only [List.lookup, this] at h
      exact List.mem_cons_of_mem _ (mem_of_lookup rest s p h)

theorem pos_inj : ∀ (P : List (Nat × Nat)) (s1 s2 p : Nat), Good P → (s1, p) ∈ P → (s2, p) ∈ P → s1 = s2
  | [], _, _, _, _, h, _ => by simp at h
  | (a, b) :: rest, s1, s2, p, hg, h1, h2 => by
    have hg' := List.pairwise_cons.mp hg
    rcases List.mem_cons.mp h1 with e1 | m1 <;> rcases List.mem_cons.mp h2 with e2 | m2
    · cases e1; cases e2; rfl
    · cases e1; exact absurd rfl (hg'.1 _ m2).2
    · cases e2; exact absurd rfl (hg'.1 _ m1).2
    · exact pos_inj rest s1 s2 p hg'.2 m1 m2

/-- one pool transaction moves the status of its own short id by `trans`, and of no other -/
theorem abs_step (P : List (Nat × Nat)) (st : St) (s w sid : Nat) :
    abs (step P st (s, w)) sid =
      if (P.lookup s).isSome ∧ sid = s then trans (abs st sid) w else abs st sid := by
  unfold step
  simp only []
  cases hl : P.lookup s with
  | none => simp
  | some pos =>
    simp only [Option.isSome_some, true_and]
    by_cases hs : sid = s
    · subst hs
      simp only [if_true]
      by_cases hc : st.collided.contains sid = true
      · have hmc : sid ∈ st.collided := by simpa using hc
        simp [abs, hc, hmc, trans]
      · have hmc : sid ∉ st.collided := by simpa using hc
        simp only [hc, Bool.false_eq_true, if_false]
        cases hw : st.wtxidOf.lookup sid with
        | none => simp [abs, hc, hmc, hw, trans, List.lookup]
        | some w0 =>
          by_cases hne : w0 ≠ w
          · simp [abs, hc, hmc, hw, trans, hne]
          · simp [abs, hc, hmc, hw, trans, hne]
    · simp only [hs, if_false]
      have hb : (sid == s) = false := by simp [hs]
      by_cases hc : st.collided.contains s = true
      · have hmc : s ∈ st.collided := by simpa using hc
        simp [hmc]
      · have hmc : s ∉ st.collided := by simpa using hc
        simp only [hc, Bool.false_eq_true, if_false]
        cases hw : st.wtxidOf.lookup s with
        | none => simp [abs, List.lookup, hb]
        | some w0 =>
          by_cases hne : w0 ≠ w
          · simp [abs, hne, List.contains_cons, hb, hs]
          · simp [hne]

/-- slots invariant: every short id's position shows its status; other positions are never written -/
structure Inv (P : List (Nat × Nat)) (slots0 : List Slot) (st : St) : Prop where
  len : st.slots.length = slots0.length
  shown : ∀ s p, (s, p) ∈ P → st.slots[p]? = some (render (abs st s))
  other : ∀ j, (∀ s, (s, j) ∉ P) → st.slots[j]? = slots0[j]?

theorem inv_step (P : List (Nat × Nat)) (slots0 : List Slot) (hg : Good P)
    (hlt : ∀ s p, (s, p) ∈ P → p < slots0.length) (st : St) (tx : Nat × Nat)
    (hi : Inv P slots0 st) : Inv P slots0 (step P st tx) := by
  obtain ⟨s, w⟩ := tx
  have habs := abs_step P st s w
  cases hl : P.lookup s with
  | none =>
    have : step P st (s, w) = st := by simp [step, hl]
    rw [this]; exact hi
  | some pos =>
    have hmem : (s, pos) ∈ P := mem_of_lookup P s pos hl
    have hpos : pos < st.slots.length := by rw [hi.len]; exact hlt s pos hmem
    simp only [hl, Option.isSome_some, true_and] at habs
    -- the slots after the step: either unchanged or written at `pos` with the new status of `s`
    have hslots : (step P st (s, w)).slots = st.slots ∨
        (step P st (s, w)).slots = st.slots.set pos (render (abs (step P st (s, w)) s)) := by
      have hs := habs s
      simp only [if_true] at hs
      rw [hs]
      unfold step
      simp only [hl]
      by_cases hc : st.collided.contains s = true
      · have hmc : s ∈ st.collided := by simpa using hc
        left; simp [hmc]
      · have hmc : s ∉ st.collided := by simpa using hc
        simp only [hc, Bool.false_eq_true, if_false]
        cases hw : st.wtxidOf.lookup s with
        | none => right; simp [abs, hc, hmc, hw, trans, render]
        | some w0 =>
          by_cases hne : w0 ≠ w
          · right; simp [abs, hc, hmc, hw, trans, render, hne]
          · left; simp [hne]
    refine ⟨?_, ?_, ?_⟩
    · rcases hslots with h | h <;> rw [h] <;> simp [hi.len]
    · intro s' p hm
      by_cases hs : s' = s
      · subst hs
        have hp : p = pos := by
          have := lookup_of_mem P s' p hg hm
          rw [hl] at this; cases this; rfl
        subst hp
        rcases hslots with h | h
        · -- unchanged slots: the status of s did not change its rendering
          rw [h, hi.shown s' p hm]
          have hs := habs s'
          simp only [if_true] at hs
          -- unchanged only when collided already, or same wtxid again
          unfold step at h
          simp only [hl] at h
          by_cases hc : st.collided.contains s' = true
          · have hmc : s' ∈ st.collided := by simpa using hc
            rw [hs]; simp [abs, hc, hmc, trans]
          · have hmc : s' ∉ st.collided := by simpa using hc
            simp only [hc, Bool.false_eq_true, if_false] at h
            cases hw : st.wtxidOf.lookup s' with
            | none =>
              rw [hs]
              simp only [hw] at h
              -- written in this case: the set list equals the old one only if the slot already showed it
              have h2 := congrArg (fun l => l[p]?) h
              simp only [List.getElem?_set_self hpos] at h2
              rw [hi.shown s' p hm] at h2
              simp [abs, hc, hmc, hw, trans, render] at h2 ⊢
            | some w0 =>
              rw [hs]
              by_cases hne : w0 ≠ w
              · simp only [hw] at h
                rw [if_pos hne] at h
                have h2 := congrArg (fun l => l[p]?) h
                simp only [List.getElem?_set_self hpos] at h2
                rw [hi.shown s' p hm] at h2
                simp [abs, hc, hmc, hw, render] at h2
              · simp [abs, hc, hmc, hw, trans, hne]
        · rw [h, List.getElem?_set_self hpos]
      · have hpne : p ≠ pos := fun e => hs (pos_inj P s' s p hg hm (e ▸ hmem))
        have ha := habs s'
        simp only [hs, if_false] at ha
        rw [ha]
        rcases hslots with h | h
        · rw [h]; exact hi.shown s' p hm
        · rw [h, List.getElem?_set_ne (Ne.symm hpne)]; exact hi.shown s' p hm
    · intro j hj
      have hjne : j ≠ pos := fun e => hj s (e ▸ hmem)
      rcases hslots with h | h
      · rw [h]; exact hi.other j hj
      · rw [h, List.getElem?_set_ne (Ne.symm hjne)]; exact hi.other j hj

theorem ws_cons (sid s w : Nat) (pool : List (Nat × Nat)) :
    ws sid ((s, w) :: pool) = if s = sid then w :: ws sid pool else ws sid pool := by
  unfold ws
  by_cases h : s = sid
  · simp [h, List.filter_cons]
  · have : (s == sid) = false := by simp [h]
    simp [h, List.filter_cons, this]

theorem fold_inv (P : List (Nat × Nat)) (slots0 : List Slot) (hg : Good P)
    (hlt : ∀ s p, (s, p) ∈ P → p < slots0.length) : ∀ (pool : List (Nat × Nat)) (st : St),
    Inv P slots0 st →
    Inv P slots0 (pool.foldl (step P) st) ∧
      ∀ s p, (s, p) ∈ P → abs (pool.foldl (step P) st) s = (ws s pool).foldl trans (abs st s)
  | [], st, hi => ⟨hi, fun _ _ _ => rfl⟩
  | (s, w) :: pool, st, hi => by
    have hi' := inv_step P slots0 hg hlt st (s, w) hi
    obtain ⟨h1, h2⟩ := fold_inv P slots0 hg hlt pool (step P st (s, w)) hi'
    refine ⟨h1, ?_⟩
    intro s' p hm
    simp only [List.foldl_cons]
    rw [h2 s' p hm, abs_step, ws_cons]
    by_cases hs : s = s'
    · subst hs
      have : (P.lookup s).isSome := by rw [lookup_of_mem P s p hg hm]; rfl
      simp [this]
    · have : ¬ ((P.lookup s).isSome ∧ s' = s) := fun h => hs h.2.symm
      rw [if_neg this, if_neg hs]

/-! ### what the status is after the whole pool -/

theorem fold_collided (l : List Nat) : l.foldl trans .collided = .collided := by
  induction l with
  | nil => rfl
  | cons x xs ih => simpa [trans] using ih

theorem fold_unique (w : Nat) : ∀ l : List Nat,
    l.foldl trans (.unique w) = if ∀ x ∈ l, x = w then .unique w else .collided
  | [] => by simp
  | x :: xs => by
    by_cases hx : w ≠ x
    · have : ¬ ∀ y ∈ x :: xs, y = w := fun h => hx (h x (by simp)).symm
      simp only [List.foldl_cons, trans, hx, if_true, fold_collided, this, if_false, ne_eq, not_false_eq_true]
    · have hx' : x = w := by omega
      subst hx'
      simp only [List.foldl_cons, trans, ne_eq, not_true_eq_false, if_false, fold_unique x xs]
      simp

/-- T6 (status): after the pool, a short id is `unique w` iff the pool holds it and every pool entry
    with it has wtxid `w`; `unseen` iff no pool entry has it; `collided` otherwise. -/
theorem fold_unseen (l : List Nat) :
    l.foldl trans .unseen = match l with
      | [] => .unseen
      | w :: rest => if ∀ x ∈ rest, x = w then .unique w else .collided := by
  cases l with
  | nil => rfl
  | cons w rest => simp [trans, fold_unique]

/-! ### the top level -/

theorem nodup_of_hasDup : ∀ l : List Nat, hasDup l = false → l.Nodup
  | [], _ => List.nodup_nil
  | a :: rest, h => by
    simp only [hasDup, Bool.or_eq_false_iff] at h
    refine List.nodup_cons.mpr ⟨?_, nodup_of_hasDup rest h.2⟩
    intro hm
    have : rest.contains a = true := by simpa using hm
    rw [this] at h; exact absurd h.1 (by simp)

theorem good_zip : ∀ (a b : List Nat), a.Nodup → b.Nodup → Good (a.zip b)
  | [], _, _, _ => by simp [Good]
  | _ :: _, [], _, _ => by simp [Good]
  | x :: xs, y :: ys, ha, hb => by
    have ha' := List.nodup_cons.mp ha
    have hb' := List.nodup_cons.mp hb
    simp only [List.zip_cons_cons, Good]
    refine List.pairwise_cons.mpr ⟨?_, good_zip xs ys ha'.2 hb'.2⟩
    rintro ⟨u, v⟩ hm
    have := List.of_mem_zip hm
    refine ⟨fun e => ha'.1 ?_, fun e => hb'.1 ?_⟩
    · have e' : x = u := e
      rw [e']; exact this.1
    · have e' : y = v := e
      rw [e']; exact this.2

/-- the free positions: those the prefilled transactions left, in order -/
def freePos (pre : List Nat) (count : Nat) : List Nat := (List.range count).filter fun i => !pre.contains i

theorem freePos_nodup (pre : List Nat) (count : Nat) : (freePos pre count).Nodup :=
  (List.nodup_range).sublist List.filter_sublist

theorem mem_freePos (pre : List Nat) (count j : Nat) : j ∈ freePos pre count ↔ j < count ∧ j ∉ pre := by
  simp [freePos]

/-- what a slot shows given the wtxids the pool holds under its short id -/
def slotOf : List Nat → Slot
  | [] => .missing
  | w :: rest => if ∀ x ∈ rest, x = w then .pool w else .missing

def slots0 (pre : List Nat) (count : Nat) : List Slot :=
  (List.range count).map fun i => if pre.contains i then Slot.prefilled else Slot.missing

theorem reconstruct_ok (pre sids : List Nat) (pool : List (Nat × Nat)) (slots : List Slot)
    (h : reconstruct pre sids pool = .ok slots) :
    hasDup sids = false ∧
    slots = (pool.foldl (step (sids.zip (freePos pre (sids.length + pre.length))))
              ⟨slots0 pre (sids.length + pre.length), [], []⟩).slots := by
  unfold reconstruct at h
  simp only [] at h
  split at h
  · cases h
  split at h
  · cases h
  split at h
  · cases h
  rename_i hc hp hd
  cases h
  exact ⟨by simpa using hd, rfl⟩

/-- T6 (characterisation): `reconstruct` keeps the prefilled positions, and fills the position of a short
    id with a pool transaction iff the pool holds that short id under exactly one wtxid (any number of
    copies, any order); no match or two distinct wtxids leave it missing. -/
theorem reconstruct_slots (pre sids : List Nat) (pool : List (Nat × Nat)) (slots : List Slot)
    (h : reconstruct pre sids pool = .ok slots) :
    slots.length = sids.length + pre.length ∧
    (∀ j, j < sids.length + pre.length → j ∈ pre → slots[j]? = some .prefilled) ∧
    (∀ s p, (s, p) ∈ sids.zip (freePos pre (sids.length + pre.length)) → slots[p]? = some (slotOf (ws s pool))) := by
  obtain ⟨hd, hslots⟩ := reconstruct_ok pre sids pool slots h
  subst hslots
  generalize sids.length + pre.length = count
  have hnd : sids.Nodup := nodup_of_hasDup sids hd
  have hP : Good (sids.zip (freePos pre count)) := good_zip _ _ hnd (freePos_nodup pre count)
  have hlt : ∀ s p, (s, p) ∈ sids.zip (freePos pre count) → p < (slots0 pre count).length := by
    intro s p hm
    have := ((mem_freePos pre count p).mp (List.of_mem_zip hm).2).1
    simpa [slots0] using this
  have hinv0 : Inv (sids.zip (freePos pre count)) (slots0 pre count) ⟨slots0 pre count, [], []⟩ := by
    refine ⟨rfl, ?_, fun _ _ => rfl⟩
    intro s p hm
    have hf := (mem_freePos pre count p).mp (List.of_mem_zip hm).2
    simp [slots0, abs, render, hf.1, hf.2]
  obtain ⟨hI, hA⟩ := fold_inv _ (slots0 pre count) hP hlt pool _ hinv0
  refine ⟨by rw [hI.len]; simp [slots0], ?_, ?_⟩
  · intro j hj hjp
    have hno : ∀ s, (s, j) ∉ sids.zip (freePos pre count) := by
      intro s hm
      exact ((mem_freePos pre count j).mp (List.of_mem_zip hm).2).2 hjp
    rw [hI.other j hno]
    simp [slots0, hj, hjp]
  · intro s p hm
    rw [hI.shown s p hm, hA s p hm]
    have : abs ⟨slots0 pre count, [], []⟩ s = .unseen := by simp [abs]
    rw [this, fold_unseen]
    cases ws s pool with
    | nil => rfl
    | cons w rest =>
      simp only [slotOf]
      split <;> rfl

/-! ### fill ∘ reconstruct -/

theorem fill_eq : ∀ (slots : List Slot) (blk : List Nat), slots.length = blk.length →
    (∀ (j w b : Nat), slots[j]? = some (Slot.pool w) → blk[j]? = some b → w = b) → fill slots blk = blk
  | [], [], _, _ => rfl
  | [], _ :: _, hl, _ => by simp at hl
  | _ :: _, [], hl, _ => by simp at hl
  | sl :: slots, b :: blk, hl, h => by
    have ih := fill_eq slots blk (by simpa using hl) (fun j w b' h1 h2 => h (j + 1) w b' (by simpa using h1) (by simpa using h2))
    unfold fill at ih ⊢
    simp only [List.zip_cons_cons, List.map_cons, ih, List.cons.injEq, and_true]
    cases sl with
    | «prefilled» => rfl
    | missing => rfl
    | pool w => exact h 0 w b (by simp) (by simp)

theorem mem_zip_map (f : Nat → Nat) : ∀ (l : List Nat) (j : Nat), j ∈ l → (f j, j) ∈ (l.map f).zip l
  | [], _, h => by simp at h
  | a :: rest, j, h => by
    rcases List.mem_cons.mp h with e | m
    · subst e; simp
    · simp only [List.map_cons, List.zip_cons_cons]
      exact List.mem_cons_of_mem _ (mem_zip_map f rest j m)

theorem ws_map (sid : Nat → Nat) (s : Nat) : ∀ pool : List Nat,
    ws s (pool.map fun w => (sid w, w)) = pool.filter (fun w => sid w == s)
  | [] => rfl
  | w :: rest => by
    have ih := ws_map sid s rest
    simp only [List.map_cons, ws_cons, ih, List.filter_cons]
    by_cases h : sid w = s <;> simp [h]

/-- T6 (`fill ∘ reconstruct`): a block `blk` (as wtxids) announced with the prefilled positions `pre` and
    the short ids `sid` of the rest, reconstructed against ANY pool (any order, duplicates, unrelated
    transactions) in which no transaction shares a needed short id with a different needed transaction:
    every needed transaction the pool holds is placed, nothing wrong is placed, and filling the missing
    positions gives back exactly the block.  `sid` is any function (BIP152: `siphash(k0,k1,·) & 2^48-1`). -/
theorem reconstruct_fill (sid : Nat → Nat) (blk pre pool : List Nat) (slots : List Slot)
    (hcount : (freePos pre blk.length).length + pre.length = blk.length)
    (hcoll : ∀ w ∈ pool, ∀ j ∈ freePos pre blk.length, ∀ b, blk[j]? = some b → sid w = sid b → w = b)
    (h : reconstruct pre ((freePos pre blk.length).map fun j => sid (blk.getD j 0))
          (pool.map fun w => (sid w, w)) = .ok slots) :
    fill slots blk = blk ∧
    (∀ j ∈ freePos pre blk.length, ∀ b, blk[j]? = some b → b ∈ pool → slots[j]? = some (Slot.pool b)) ∧
    (∀ j ∈ freePos pre blk.length, ∀ b, blk[j]? = some b → b ∉ pool → slots[j]? = some Slot.missing) := by
  obtain ⟨hlen, hpre, hfree⟩ := reconstruct_slots _ _ _ _ h
  simp only [List.length_map, hcount] at hlen hpre hfree
  -- the slot of a free position
  have hslot : ∀ j ∈ freePos pre blk.length, ∀ b, blk[j]? = some b →
      slots[j]? = some (slotOf (pool.filter fun w => sid w == sid b)) := by
    intro j hj b hb
    have hm := mem_zip_map (fun j => sid (blk.getD j 0)) _ j hj
    have := hfree _ j hm
    rw [ws_map] at this
    have hd : blk.getD j 0 = b := by simp [List.getD, hb]
    simp only [hd] at this
    exact this
  -- everything the pool holds under a needed short id is the needed transaction
  have hall : ∀ j ∈ freePos pre blk.length, ∀ b, blk[j]? = some b →
      ∀ x ∈ pool.filter (fun w => sid w == sid b), x = b := by
    intro j hj b hb x hx
    have hx' := List.mem_filter.mp hx
    exact hcoll x hx'.1 j hj b hb (by simpa using hx'.2)
  refine ⟨?_, ?_, ?_⟩
  · apply fill_eq slots blk hlen
    intro j w b hs hb
    have hjlt : j < blk.length := (List.getElem?_eq_some_iff.mp hb).1
    by_cases hjp : j ∈ pre
    · rw [hpre j hjlt hjp] at hs; cases hs
    · have hj : j ∈ freePos pre blk.length := (mem_freePos pre blk.length j).mpr ⟨hjlt, hjp⟩
      rw [hslot j hj b hb] at hs
      have ha := hall j hj b hb
      cases hf : pool.filter (fun w => sid w == sid b) with
      | nil => rw [hf] at hs; simp [slotOf] at hs
      | cons x rest =>
        rw [hf] at hs ha
        simp only [slotOf] at hs
        split at hs
        · simp only [Option.some.injEq, Slot.pool.injEq] at hs
          rw [← hs]; exact ha x (by simp)
        · cases hs
  · intro j hj b hb hbp
    rw [hslot j hj b hb]
    have ha := hall j hj b hb
    have hmem : b ∈ pool.filter (fun w => sid w == sid b) := List.mem_filter.mpr ⟨hbp, by simp⟩
    cases hf : pool.filter (fun w => sid w == sid b) with
    | nil => rw [hf] at hmem; simp at hmem
    | cons x rest =>
      rw [hf] at ha
      have hx : x = b := ha x (by simp)
      subst hx
      have : ∀ y ∈ rest, y = x := fun y hy => ha y (by simp [hy])
      simp only [slotOf, if_pos this]
  · intro j hj b hb hbp
    rw [hslot j hj b hb]
    have ha := hall j hj b hb
    cases hf : pool.filter (fun w => sid w == sid b) with
    | nil => rfl
    | cons x rest =>
      exfalso
      rw [hf] at ha
      have hx : x = b := ha x (by simp)
      have : x ∈ pool := (List.mem_filter.mp (by rw [hf]; simp : x ∈ pool.filter (fun w => sid w == sid b))).1
      exact hbp (hx ▸ this)

/-! ### `PartialBlock.fill` itself -/

theorem missing_count : ∀ (slots : List Slot) (blk : List Nat),
    ((partialView slots blk).filter Option.isNone).length = (missingOf slots blk).length
  | [], _ => by simp [partialView, missingOf]
  | _ :: _, [] => by simp [partialView, missingOf]
  | .pool w :: r, b :: bs => by simp [partialView, missingOf, missing_count r bs]
  | .prefilled :: r, b :: bs => by simp [partialView, missingOf, missing_count r bs]
  | .missing :: r, b :: bs => by simp [partialView, missingOf, missing_count r bs]

theorem fillGo_view : ∀ (slots : List Slot) (blk : List Nat), slots.length = blk.length →
    fillGo (partialView slots blk) (missingOf slots blk) = fill slots blk
  | [], [], _ => rfl
  | [], _ :: _, h => by simp at h
  | _ :: _, [], h => by simp at h
  | .pool w :: r, b :: bs, h => by
    have ih := fillGo_view r bs (by simpa using h)
    unfold fill at ih ⊢
    simp only [partialView, missingOf, fillGo, List.zip_cons_cons, List.map_cons, ih]
  | .prefilled :: r, b :: bs, h => by
    have ih := fillGo_view r bs (by simpa using h)
    unfold fill at ih ⊢
    simp only [partialView, missingOf, fillGo, List.zip_cons_cons, List.map_cons, ih]
  | .missing :: r, b :: bs, h => by
    have ih := fillGo_view r bs (by simpa using h)
    unfold fill at ih ⊢
    simp only [partialView, missingOf, fillGo, List.zip_cons_cons, List.map_cons, ih]

/-- T6 on `PartialBlock.fill` as the code has it: the partial block `reconstruct` returns, filled with the
    block's transactions at the missing positions (a `blocktxn` answer), is accepted (the count is right)
    and IS the block -- under the hypotheses of `reconstruct_fill`. -/
theorem fillP_reconstruct (sid : Nat → Nat) (blk pre pool : List Nat) (slots : List Slot)
    (hcount : (freePos pre blk.length).length + pre.length = blk.length)
    (hcoll : ∀ w ∈ pool, ∀ j ∈ freePos pre blk.length, ∀ b, blk[j]? = some b → sid w = sid b → w = b)
    (h : reconstruct pre ((freePos pre blk.length).map fun j => sid (blk.getD j 0))
          (pool.map fun w => (sid w, w)) = .ok slots) :
    fillP (partialView slots blk) (missingOf slots blk) = .ok blk := by
  have hlen : slots.length = blk.length := by
    have := (reconstruct_slots _ _ _ _ h).1
    simpa [hcount] using this
  have hf := (reconstruct_fill sid blk pre pool slots hcount hcoll h).1
  unfold fillP
  rw [missing_count, if_neg (by simp), fillGo_view slots blk hlen, hf]

/-! ### the whole exchange: announce, reconstruct, ask for the missing, fill -/

theorem compactOf_eq (sid : Nat → Nat) (blk pre : List Nat) :
    compactOf sid blk pre = (freePos pre blk.length).map fun j => sid (blk.getD j 0) := rfl

theorem increasing_bound : ∀ (pre : List Nat) (n : Nat), increasing pre = true →
    (match pre.getLast? with | some l => decide (l < n) | none => true) = true →
    pre.Nodup ∧ ∀ x ∈ pre, x < n
  | [], _, _, _ => by simp
  | [a], n, _, h => by simpa using h
  | a :: b :: rest, n, hi, hl => by
    simp only [increasing, Bool.and_eq_true, decide_eq_true_eq] at hi
    have hl' : (match (b :: rest).getLast? with | some l => decide (l < n) | none => true) = true := by
      simpa [List.getLast?_cons_cons] using hl
    obtain ⟨hnd, hb⟩ := increasing_bound (b :: rest) n hi.2 hl'
    -- a is below everything after it
    have hlt : ∀ (l : List Nat) (c : Nat), increasing (c :: l) = true → ∀ x ∈ l, c < x := by
      intro l
      induction l with
      | nil => intro c _ x hx; cases hx
      | cons d l ih =>
        intro c hc x hx
        simp only [increasing, Bool.and_eq_true, decide_eq_true_eq] at hc
        rcases List.mem_cons.mp hx with rfl | hx'
        · exact hc.1
        · exact Nat.lt_trans hc.1 (ih d hc.2 x hx')
    have ha : ∀ x ∈ b :: rest, a < x := hlt (b :: rest) a (by simp [increasing, hi.1, hi.2])
    refine ⟨List.nodup_cons.mpr ⟨fun hm => Nat.lt_irrefl a (ha a hm), hnd⟩, ?_⟩
    intro x hx
    rcases List.mem_cons.mp hx with rfl | hx'
    · exact Nat.lt_trans (ha b (by simp)) (hb b (by simp))
    · exact hb x hx'

/-- valid prefilled positions leave exactly `count - len(prefilled)` positions for the short ids -/
theorem freePos_count (pre : List Nat) (n : Nat) (hnd : pre.Nodup) (hb : ∀ x ∈ pre, x < n) :
    (freePos pre n).length + pre.length = n := by
  have hperm : ((List.range n).filter fun i => pre.contains i).Perm pre := by
    apply (List.perm_ext_iff_of_nodup (List.nodup_range.sublist List.filter_sublist) hnd).mpr
    intro a
    simp only [List.mem_filter, List.mem_range, List.contains_iff_mem]
    exact ⟨fun h => h.2, fun h => ⟨hb a h, h⟩⟩
  have hsplit := List.length_eq_length_filter_add (l := List.range n) (fun i => pre.contains i)
  unfold freePos
  rw [List.length_range] at hsplit
  have hl := hperm.length_eq
  have : (List.filter (fun i => !pre.contains i) (List.range n)) =
      List.filter (fun x => !(fun i => pre.contains i) x) (List.range n) := rfl
  omega

theorem reconstruct_dup_iff (pre sids : List Nat) (pool : List (Nat × Nat)) :
    reconstruct pre sids pool = .error .dupShortIds ↔
      sids.length + pre.length ≠ 0 ∧ positionsOk pre (sids.length + pre.length) = true ∧ hasDup sids = true := by
  unfold reconstruct
  simp only []
  by_cases h0 : sids.length + pre.length = 0
  · simp [h0]
  · simp only [h0, if_false]
    cases hp : positionsOk pre (sids.length + pre.length)
    · simp
    · simp only [Bool.not_true, Bool.false_eq_true, if_false]
      cases hd : hasDup sids
      · simp
      · simpa using h0

theorem reconstruct_is_ok (pre sids : List Nat) (pool : List (Nat × Nat)) (h0 : sids.length + pre.length ≠ 0)
    (hp : positionsOk pre (sids.length + pre.length) = true) (hd : hasDup sids = false) :
    ∃ slots, reconstruct pre sids pool = .ok slots := by
  unfold reconstruct
  simp only [h0, if_false, hp, Bool.not_true, Bool.false_eq_true, hd]
  exact ⟨_, rfl⟩

/-- `fill ∘ reconstruct` under the WEAK collision hypothesis: a pool transaction may share a needed short id with a
    different needed transaction as long as the pool holds the needed one as well (the collision is then seen and the
    position asked for); only a stranger standing ALONE under a needed short id is excluded. -/
theorem reconstruct_fill_weak (sid : Nat → Nat) (blk pre pool : List Nat) (slots : List Slot)
    (hcount : (freePos pre blk.length).length + pre.length = blk.length)
    (hcoll : ∀ w ∈ pool, ∀ j ∈ freePos pre blk.length, ∀ b, blk[j]? = some b → sid w = sid b → w = b ∨ b ∈ pool)
    (h : reconstruct pre ((freePos pre blk.length).map fun j => sid (blk.getD j 0))
          (pool.map fun w => (sid w, w)) = .ok slots) :
    slots.length = blk.length ∧ fill slots blk = blk := by
  obtain ⟨hlen, hpre, hfree⟩ := reconstruct_slots _ _ _ _ h
  simp only [List.length_map, hcount] at hlen hpre hfree
  refine ⟨hlen, ?_⟩
  apply fill_eq slots blk hlen
  intro j w b hs hb
  have hjlt : j < blk.length := (List.getElem?_eq_some_iff.mp hb).1
  by_cases hjp : j ∈ pre
  · rw [hpre j hjlt hjp] at hs; cases hs
  · have hj : j ∈ freePos pre blk.length := (mem_freePos pre blk.length j).mpr ⟨hjlt, hjp⟩
    have hm := mem_zip_map (fun j => sid (blk.getD j 0)) _ j hj
    have hsl := hfree _ j hm
    rw [ws_map] at hsl
    have hd : blk.getD j 0 = b := by simp [List.getD, hb]
    simp only [hd] at hsl
    rw [hsl] at hs
    cases hf : pool.filter (fun w => sid w == sid b) with
    | nil => rw [hf] at hs; simp [slotOf] at hs
    | cons x rest =>
      rw [hf] at hs
      simp only [slotOf] at hs
      split at hs
      · rename_i hall
        simp only [Option.some.injEq, Slot.pool.injEq] at hs
        subst hs
        have hx : x ∈ pool.filter (fun w => sid w == sid b) := by rw [hf]; simp
        have hx' := List.mem_filter.mp hx
        rcases hcoll x hx'.1 j hj b hb (by simpa using hx'.2) with e | hbp
        · exact e
        · have hbm : b ∈ pool.filter (fun w => sid w == sid b) := List.mem_filter.mpr ⟨hbp, by simp⟩
          rw [hf] at hbm
          rcases List.mem_cons.mp hbm with e | hr
          · exact e.symm
          · exact (hall b hr).symm
      · cases hs

theorem missingIndexes_view : ∀ (slots : List Slot) (blk : List Nat) (i : Nat), slots.length = blk.length →
    (missingIndexes (partialView slots blk) i).map (fun j => (List.replicate i 0 ++ blk).getD j 0) = missingOf slots blk
  | [], [], _, _ => rfl
  | [], _ :: _, _, h => by simp at h
  | _ :: _, [], _, h => by simp at h
  | sl :: r, b :: bs, i, h => by
    have ih := missingIndexes_view r bs (i + 1) (by simpa using h)
    have hshift : (List.replicate (i + 1) 0 ++ bs) = List.replicate i 0 ++ 0 :: bs := by
      rw [List.replicate_succ', List.append_assoc]; rfl
    -- positions ≥ i + 1 do not see the element at i
    have hagree : ∀ j ∈ missingIndexes (partialView r bs) (i + 1),
        (List.replicate i 0 ++ b :: bs).getD j 0 = (List.replicate (i + 1) 0 ++ bs).getD j 0 := by
      have hge : ∀ (p : List (Option Nat)) (k : Nat), ∀ j ∈ missingIndexes p k, k ≤ j := by
        intro p
        induction p with
        | nil => intro k j hj; cases hj
        | cons o p ihp =>
          intro k j hj
          cases o with
          | none =>
            simp only [missingIndexes, List.mem_cons] at hj
            rcases hj with rfl | hj
            · exact Nat.le_refl _
            · exact Nat.le_of_succ_le (ihp _ _ hj)
          | some _ =>
            simp only [missingIndexes] at hj
            exact Nat.le_of_succ_le (ihp _ _ hj)
      intro j hj
      have hji := hge _ _ j hj
      rw [hshift]
      simp only [List.getD_eq_getElem?_getD]
      rw [List.getElem?_append_right (by simp; omega), List.getElem?_append_right (by simp; omega)]
      simp only [List.length_replicate]
      have : j - i = (j - i - 1) + 1 := by omega
      rw [this]; simp
    cases sl with
    | pool w =>
      simp only [partialView, missingIndexes, missingOf]
      rw [← ih]
      exact List.map_congr_left hagree
    | «prefilled» =>
      simp only [partialView, missingIndexes, missingOf]
      rw [← ih]
      exact List.map_congr_left hagree
    | missing =>
      simp only [partialView, missingIndexes, missingOf, List.map_cons]
      rw [← ih]
      congr 1
      · simp [List.getD_eq_getElem?_getD]
      · exact List.map_congr_left hagree

/-- T6, the whole exchange: a block announced with valid prefilled positions whose own short ids are distinct, received
    by a node with ANY pool satisfying the weak collision hypothesis, comes back as exactly the block. -/
theorem roundTrip_ok (sid : Nat → Nat) (blk pre pool : List Nat) (hne : blk ≠ [])
    (hpos : positionsOk pre blk.length = true) (hnd : hasDup (compactOf sid blk pre) = false)
    (hcoll : ∀ w ∈ pool, ∀ j ∈ freePos pre blk.length, ∀ b, blk[j]? = some b → sid w = sid b → w = b ∨ b ∈ pool) :
    ∃ missing, roundTrip sid blk pre pool = .ok (missing, blk) := by
  have hp := hpos
  unfold positionsOk at hp
  simp only [Bool.and_eq_true] at hp
  obtain ⟨hnodup, hbound⟩ := increasing_bound pre blk.length hp.1 hp.2
  have hcount := freePos_count pre blk.length hnodup hbound
  have hlen : (compactOf sid blk pre).length + pre.length = blk.length := by
    rw [compactOf_eq, List.length_map]; exact hcount
  have h0 : (compactOf sid blk pre).length + pre.length ≠ 0 := by
    rw [hlen]; intro h; exact hne (List.eq_nil_of_length_eq_zero h)
  obtain ⟨slots, hrec⟩ := reconstruct_is_ok pre (compactOf sid blk pre) (pool.map fun w => (sid w, w)) h0
    (by rw [hlen]; exact hpos) hnd
  obtain ⟨hsl, hfill⟩ := reconstruct_fill_weak sid blk pre pool slots hcount hcoll (by rw [← compactOf_eq]; exact hrec)
  unfold roundTrip
  simp only [hrec]
  have hmi := missingIndexes_view slots blk 0 hsl
  simp only [List.replicate_zero, List.nil_append] at hmi
  rw [hmi]
  have : fillP (partialView slots blk) (missingOf slots blk) = .ok blk := by
    unfold fillP
    rw [missing_count, if_neg (by simp), fillGo_view slots blk hsl, hfill]
  rw [this]
  exact ⟨_, rfl⟩

/-- …and a block two of whose announced short ids coincide is refused (`short ids are not unique: re-request the
    block`), whatever the pool. -/
theorem roundTrip_refuses_collision (sid : Nat → Nat) (blk pre pool : List Nat) (hne : blk ≠ [])
    (hpos : positionsOk pre blk.length = true) (hd : hasDup (compactOf sid blk pre) = true) :
    roundTrip sid blk pre pool = .error (.reconstruct .dupShortIds) := by
  have hp := hpos
  unfold positionsOk at hp
  simp only [Bool.and_eq_true] at hp
  obtain ⟨hnodup, hbound⟩ := increasing_bound pre blk.length hp.1 hp.2
  have hlen : (compactOf sid blk pre).length + pre.length = blk.length := by
    rw [compactOf_eq, List.length_map]; exact freePos_count pre blk.length hnodup hbound
  have := (reconstruct_dup_iff pre (compactOf sid blk pre) (pool.map fun w => (sid w, w))).mpr
    ⟨by rw [hlen]; intro h; exact hne (List.eq_nil_of_length_eq_zero h), by rw [hlen]; exact hpos, hd⟩
  unfold roundTrip
  simp only [this]

end Btc.CompactBlocks
