import Proofs.C11.Combine
import Proofs.C11.Roles
/-! Full order-independence: the final identifier re-check of `combine` is passed by every order. -/
namespace Btc.C11

theorem norm_false (s : Slot) : norm false s = s := by
  cases s with
  | scalar v => cases v <;> simp [norm]
  | dict m => rfl

/-- what the identifier reads of a slot does not tell a falsy value from an absent one -/
theorem norm_reads {a b : Slot} (h : norm true a = norm true b) :
    a.falsy = b.falsy ∧ a.bytesD = b.bytesD ∧ a.int?.getD 0 = b.int?.getD 0 := by
  cases a with
  | dict ma =>
    cases b with
    | dict mb => simp [norm] at h; subst h; exact ⟨rfl, rfl, rfl⟩
    | scalar vb => cases vb <;> simp [norm] at h <;> split at h <;> cases h
  | scalar va =>
    cases b with
    | dict mb => cases va <;> simp [norm] at h <;> split at h <;> cases h
    | scalar vb =>
      cases va with
      | none =>
        cases vb with
        | none => exact ⟨rfl, rfl, rfl⟩
        | some w =>
          simp [norm] at h
          cases w <;> simp_all [Slot.falsy, Val.falsy, Slot.bytesD, Slot.int?]
      | some v =>
        cases vb with
        | none =>
          simp [norm] at h
          cases v <;> simp_all [Slot.falsy, Val.falsy, Slot.bytesD, Slot.int?]
        | some w =>
          simp only [norm, Bool.true_and] at h
          by_cases hv : v.falsy = true <;> by_cases hw : w.falsy = true
          · cases v <;> cases w <;> simp_all [Slot.falsy, Val.falsy, Slot.bytesD, Slot.int?]
          · simp [hv, hw] at h
          · simp [hv, hw] at h
          · simp [hv, hw] at h; subst h; exact ⟨rfl, rfl, rfl⟩

/-- the identifier fields that are read only through `falsy`, `or 0`, or as bytes -/
def WeakName (n : String) : Bool :=
  n == "output_index" || n == "amount" || n == "sp_v0_info" || n == "script_pub_key"

def SlotRel (l : Loc) (a b : Slot) : Prop := a = b ∨ (WeakName l.name = true ∧ norm true a = norm true b)

theorem SlotRel.exact {l : Loc} {a b : Slot} (h : SlotRel l a b) (hw : WeakName l.name = false) : a = b := by
  rcases h with h | ⟨h, _⟩
  · exact h
  · rw [hw] at h; cases h

theorem SlotRel.reads {l : Loc} {a b : Slot} (h : SlotRel l a b) :
    a.falsy = b.falsy ∧ a.bytesD = b.bytesD ∧ a.int?.getD 0 = b.int?.getD 0 := by
  rcases h with h | ⟨_, h⟩
  · subst h; exact ⟨rfl, rfl, rfl⟩
  · exact norm_reads h

/-- two psbts whose identifier fields agree as far as the identifier can see are of one transaction -/
theorem unsignedTx_congr_weak {p q : Psbt} (hi : p.nIn = q.nIn) (ho : p.nOut = q.nOut)
    (h : ∀ l, IdLoc l → SlotRel l (p.slot l) (q.slot l)) (b : Bool) : unsignedTx p b = unsignedTx q b := by
  have ex : ∀ (s : Sec) (i : Nat) (n : String), IdLoc ⟨s, i, n⟩ → WeakName n = false →
      p.slot ⟨s, i, n⟩ = q.slot ⟨s, i, n⟩ := fun s i n hl hw => (h ⟨s, i, n⟩ hl).exact hw
  have hreq : requiredOf p = requiredOf q := by
    unfold requiredOf
    rw [hi]
    apply List.map_congr_left
    intro i _
    rw [ex .inp i "required_height_lock_time" (by simp [IdLoc]) (by decide),
        ex .inp i "required_time_lock_time" (by simp [IdLoc]) (by decide)]
  have hlt : lockTime p = lockTime q := by
    unfold lockTime
    rw [hreq, ex .glob 0 "fallback_lock_time" (by simp [IdLoc]) (by decide)]
  have hin : (List.range p.nIn).map (txIn p b) = (List.range q.nIn).map (txIn q b) := by
    rw [hi]
    apply List.map_congr_left
    intro i _
    unfold txIn
    rw [ex .inp i "previous_tx_id" (by simp [IdLoc]) (by decide),
        (h ⟨.inp, i, "output_index"⟩ (by simp [IdLoc])).reads.2.2,
        ex .inp i "sequence" (by simp [IdLoc]) (by decide)]
  have hout : (List.range p.nOut).map (txOut p b) = (List.range q.nOut).map (txOut q b) := by
    rw [ho]
    apply List.map_congr_left
    intro i _
    unfold txOut
    simp only
    rw [(h ⟨.out, i, "sp_v0_info"⟩ (by simp [IdLoc])).reads.1, (h ⟨.out, i, "sp_v0_info"⟩ (by simp [IdLoc])).reads.2.1,
        (h ⟨.out, i, "amount"⟩ (by simp [IdLoc])).reads.2.2,
        (h ⟨.out, i, "script_pub_key"⟩ (by simp [IdLoc])).reads.2.1]
  unfold unsignedTx
  rw [hlt, hin, hout, ex .glob 0 "tx_version" (by simp [IdLoc]) (by decide)]

/-- TABLE OBLIGATION (identifier fields): none is settled by the bit rule; one that `combine` does not
    merge is in the generated identifier reads; one that is merged under the truthiness presence test
    is read by the identifier only through `falsy` / `or 0` / as bytes. -/
def idLocOK (s : Sec) (n : String) : Bool :=
  match lookupRule (callsOf s) n with
  | some .modifiable => false
  | none => (idReadsOf s).contains n
  | some _ => !(tAt ⟨s, 0, n⟩) || WeakName n

def idLocs : List (Sec × String) :=
  [(.glob, "tx_version"), (.glob, "fallback_lock_time"), (.inp, "previous_tx_id"), (.inp, "output_index"),
   (.inp, "sequence"), (.inp, "required_height_lock_time"), (.inp, "required_time_lock_time"),
   (.out, "amount"), (.out, "script_pub_key"), (.out, "sp_v0_info")]

def idLocTable : Bool := idLocs.all fun x => idLocOK x.1 x.2

theorem idLoc_mem {l : Loc} (h : IdLoc l) : (l.sec, l.name) ∈ idLocs := by
  obtain ⟨s, i, n⟩ := l
  rcases h with ⟨hs, _, hn | hn⟩ | ⟨hs, hn | hn | hn | hn | hn⟩ | ⟨hs, hn | hn | hn⟩ <;>
    simp only at hs hn <;> subst hs <;> subst hn <;> simp [idLocs]

theorem tAt_idx (s : Sec) (i : Nat) (n : String) : tAt ⟨s, i, n⟩ = tAt ⟨s, 0, n⟩ := rfl

theorem postCheck_ident {v : Nat} {id0 : UTx} {x : Except Err Psbt} {r : Psbt} (h : postCheck v id0 x = .ok r)
    (hf : Gen.Combine.combineRechecksIdentity = true) : identOf v r = .ok id0 := by
  cases x with
  | error e => cases h
  | ok q =>
    simp only [postCheck, hf, Bool.true_and] at h
    split at h
    · cases h
    · rename_i hne
      cases h
      simpa using hne

/-- `combine_eq`, needing the identifier of the fold only if the source re-checks it -/
theorem combine_eq' (hU : universeCovered = true) (hC : callsAreFields = true)
    (hM : modifiableIsAssigned = true) {v : Nat} {id0 : UTx} {p0 : Psbt} {rest : List Psbt}
    (hc : Checks v id0 (p0 :: rest)) (h : Compatible (p0 :: rest))
    (hpost : Gen.Combine.combineRechecksIdentity = true →
      identOf v (rest.foldl step (baseOf p0 rest)) = .ok id0) :
    combine (p0 :: rest) = .ok (rest.foldl step (baseOf p0 rest)) := by
  rw [combine_of_checks hc, combineFold_eq rest _ (fun pre p suf e => no_conflict hU hC hM h e)]
  simp only [postCheck]
  cases hf : Gen.Combine.combineRechecksIdentity with
  | false => simp
  | true => simp [hpost hf]

/-- at every field the identifier reads, two orders of compatible operands fold to slots the
    identifier cannot tell apart. -/
theorem fold_slotRel (hU : universeCovered = true) (hC : callsAreFields = true)
    (hM : modifiableIsAssigned = true) (hT : idLocTable = true)
    {p0 p0' : Psbt} {rest rest' : List Psbt} (hc : Compatible (p0 :: rest))
    (hp : (p0 :: rest).Perm (p0' :: rest')) (l : Loc) (hl : IdLoc l) :
    SlotRel l ((rest'.foldl step (baseOf p0' rest')).slot l) ((rest.foldl step (baseOf p0 rest)).slot l) := by
  have hok : idLocOK l.sec l.name = true := List.all_eq_true.mp hT (l.sec, l.name) (idLoc_mem hl)
  have hMod : ruleAt modLoc = some .modifiable := by simpa [modifiableIsAssigned] using hM
  rw [foldl_step_slot, foldl_step_slot]
  unfold idLocOK at hok
  cases hr : ruleAt l with
  | none =>
    have hr' : lookupRule (callsOf l.sec) l.name = none := hr
    rw [hr'] at hok
    have hne : l ≠ modLoc := by intro c; rw [c, hMod] at hr; cases hr
    rw [foldl_keep (Or.inl hr), foldl_keep (Or.inl hr), baseOf_slot hne, baseOf_slot hne]
    exact Or.inl (hc.idAgree l hok hr p0' (hp.mem_iff.mpr (by simp)) p0 (by simp))
  | some r =>
    have hr' : lookupRule (callsOf l.sec) l.name = some r := hr
    rw [hr'] at hok
    have hm : r ≠ .modifiable := by intro c; subst c; simp at hok
    have hne : l ≠ modLoc := by intro c; rw [c, hMod] at hr; cases hr; exact hm rfl
    rw [baseOf_slot hne, baseOf_slot hne, mergeAt_rule hr]
    have hall := slotsOK_of_compatible hU hC hc hr hm
    rw [List.map_cons] at hall
    have hn := fold_perm hall (s0' := p0'.slot l) (l' := rest'.map (·.slot l))
      (by rw [← List.map_cons (f := fun q : Psbt => q.slot l), ← List.map_cons (f := fun q : Psbt => q.slot l)]
          exact hp.map _)
    have htl : tAt l = tAt ⟨l.sec, 0, l.name⟩ := rfl
    have hok2 : (!(tAt l) || WeakName l.name) = true := by
      rw [htl]
      cases r <;> first | exact absurd rfl hm | exact hok
    cases ht : tAt l with
    | false => rw [ht, norm_false, norm_false] at hn; exact Or.inl hn.symm
    | true =>
      rw [ht] at hn hok2
      exact Or.inr ⟨by simpa using hok2, hn.symm⟩

end Btc.C11
