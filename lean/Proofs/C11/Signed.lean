import Model.C11.Signed
import Proofs.C11.Dict
import Proofs.C11.Roles
/-! What an accepted answer of a signer is: the request plus added signatures that verify. -/
namespace Btc.C11

/-- TABLE OBLIGATION (about the SOURCE): the signatures the two `_assert_*_sigs_verify` look at and the fields
    `assert_signed` counts as "signed" are the same three signature fields, they are exactly what the Signer
    stores to, `new_signers` attributes every signature field, and a finalized input is told by the two final
    scripts. -/
def signedTableCheck : Bool :=
  Gen.Combine.verifiedSigFields.all (Gen.Combine.signatureFields.contains ·)
  && Gen.Combine.signInWrites.all (Gen.Combine.verifiedSigFields.contains ·)
  && Gen.Combine.verifiedSigFields.all (Gen.Combine.signInWrites.contains ·)
  && Gen.Combine.signedIfAny.all (Gen.Combine.verifiedSigFields.contains ·)
  && Gen.Combine.verifiedSigFields.all (Gen.Combine.signedIfAny.contains ·)
  && Gen.Combine.signatureFields.all (Gen.Combine.newSignersFields.contains ·)
  && Gen.Combine.newSignersFields.all (Gen.Combine.signatureFields.contains ·)
  && Gen.Combine.finalizedIfAny == ["final_script_sig", "final_script_witness"]
  && Gen.Combine.finalizedIfAny.all (fun n => !Gen.Combine.signatureFields.contains n)

theorem dlookup_isSome_of_mem {m : Dict} {k : Nat} {v : Val} (h : (k, v) ∈ m) : (dlookup m k).isSome = true := by
  induction m with
  | nil => cases h
  | cons e rest ih =>
    obtain ⟨k', v'⟩ := e
    simp only [dlookup]
    split
    · rfl
    · rename_i hne
      rcases List.mem_cons.mp h with heq | hmem
      · cases heq; exact absurd rfl hne
      · exact ih hmem

/-- an answer identical to the request adds nothing -/
theorem addedEntries_self (s : Slot) : addedEntries s s = [] := by
  cases s with
  | dict m =>
    simp only [addedEntries, List.filter_eq_nil_iff]
    intro kv hkv
    have := dlookup_isSome_of_mem (k := kv.1) (v := kv.2) hkv
    cases hd : dlookup m kv.1 <;> simp_all
  | scalar o =>
    cases o with
    | none => simp [addedEntries, Slot.falsy, sigEntries]
    | some v =>
      simp only [addedEntries, Slot.falsy, sigEntries]
      by_cases hv : v.falsy = true <;> simp [hv]

/-- every entry of the answer's map is an entry of the request, unchanged, or an added one -/
theorem entry_kept_or_added {was now : Dict} (hs : Sorted now) (h : addedOnly (.dict was) (.dict now) = true)
    {k : Nat} {v : Val} (hm : (k, v) ∈ now) :
    dlookup was k = some v ∨ (k, v) ∈ addedEntries (.dict was) (.dict now) := by
  cases hw : dlookup was k with
  | none => exact Or.inr (by simp [addedEntries, hm, hw])
  | some v' =>
    left
    have h1 : dlookup now k = some v' := addedOnly_dict h (mem_of_dlookup hw)
    have h2 : dlookup now k = some v := dlookup_of_mem hs hm
    rw [h1] at h2; cases h2; rfl

theorem sigsVerify_some {V : SigOracle} {req ret : Psbt} {i : Nat} (h : sigsVerify V (some req) ret i = true)
    {n : String} (hn : n ∈ Gen.Combine.verifiedSigFields) {kv : Nat × Val}
    (hkv : kv ∈ addedEntries (req.slot (sigLocOf i n)) (ret.slot (sigLocOf i n))) : V ret i n kv.1 kv.2 = true := by
  have := List.all_eq_true.mp h n hn
  exact List.all_eq_true.mp this kv hkv

theorem sigsVerify_none {V : SigOracle} {p : Psbt} {i : Nat} (h : sigsVerify V none p i = true)
    {n : String} (hn : n ∈ Gen.Combine.verifiedSigFields) {kv : Nat × Val}
    (hkv : kv ∈ sigEntries (p.slot (sigLocOf i n))) : V p i n kv.1 kv.2 = true := by
  have := List.all_eq_true.mp h n hn
  exact List.all_eq_true.mp this kv hkv

/-! ### new_signers -/

theorem mem_insertNat {n x : Nat} {l : List Nat} : x ∈ insertNat n l ↔ x = n ∨ x ∈ l := by
  induction l with
  | nil => simp [insertNat]
  | cons m rest ih =>
    simp only [insertNat]
    split
    · simp
    · split
      · rename_i h; subst h; simp
      · simp only [List.mem_cons, ih]
        constructor
        · rintro (h | h | h) <;> simp [h]
        · rintro (h | h | h) <;> simp [h]

theorem attributeTo_sound {O : OriginOracle} {ret : Psbt} {i : Nat} {n : String} (es : List (Nat × Val)) :
    ∀ {acc s : List Nat}, attributeTo O ret i n es acc = some s →
      ∀ f, f ∈ s → f ∈ acc ∨ ∃ kv ∈ es, O ret i n kv.1 = some f := by
  induction es with
  | nil => intro acc s h f hf; cases h; exact Or.inl hf
  | cons kv rest ih =>
    intro acc s h f hf
    simp only [attributeTo] at h
    split at h
    · cases h
    · rename_i g hg
      rcases ih h f hf with h1 | ⟨kv', hm, ho⟩
      · rcases mem_insertNat.mp h1 with rfl | h2
        · exact Or.inr ⟨kv, by simp, hg⟩
        · exact Or.inl h2
      · exact Or.inr ⟨kv', by simp [hm], ho⟩

theorem signersOfInput_sound {O : OriginOracle} {req ret : Psbt} {i : Nat} (names : List String) :
    ∀ {acc s : List Nat}, signersOfInput O req ret i names acc = some s →
      ∀ f, f ∈ s → f ∈ acc ∨ ∃ n ∈ names, ∃ kv ∈ addedEntries (req.slot (sigLocOf i n)) (ret.slot (sigLocOf i n)),
        O ret i n kv.1 = some f := by
  induction names with
  | nil => intro acc s h f hf; cases h; exact Or.inl hf
  | cons n rest ih =>
    intro acc s h f hf
    simp only [signersOfInput] at h
    split at h
    · cases h
    · rename_i acc' ha
      rcases ih h f hf with h1 | ⟨n', hn', kv, hkv, ho⟩
      · rcases attributeTo_sound _ ha f h1 with h2 | ⟨kv, hkv, ho⟩
        · exact Or.inl h2
        · exact Or.inr ⟨n, by simp, kv, hkv, ho⟩
      · exact Or.inr ⟨n', by simp [hn'], kv, hkv, ho⟩

theorem signersOfInputs_sound {O : OriginOracle} {req ret : Psbt} (is : List Nat) :
    ∀ {acc s : List Nat}, signersOfInputs O req ret is acc = some s →
      ∀ f, f ∈ s → f ∈ acc ∨ ∃ i ∈ is, ∃ n ∈ Gen.Combine.newSignersFields,
        ∃ kv ∈ addedEntries (req.slot (sigLocOf i n)) (ret.slot (sigLocOf i n)), O ret i n kv.1 = some f := by
  induction is with
  | nil => intro acc s h f hf; cases h; exact Or.inl hf
  | cons i rest ih =>
    intro acc s h f hf
    simp only [signersOfInputs] at h
    split at h
    · cases h
    · rename_i acc' ha
      rcases ih h f hf with h1 | ⟨i', hi', r⟩
      · rcases signersOfInput_sound _ ha f h1 with h2 | r
        · exact Or.inl h2
        · exact Or.inr ⟨i, by simp, r⟩
      · exact Or.inr ⟨i', by simp [hi'], r⟩

theorem attributeTo_nil {O : OriginOracle} {ret : Psbt} {i : Nat} {n : String} (acc : List Nat) :
    attributeTo O ret i n [] acc = some acc := rfl

theorem signersOfInput_self {O : OriginOracle} {p : Psbt} {i : Nat} (names : List String) (acc : List Nat) :
    signersOfInput O p p i names acc = some acc := by
  induction names with
  | nil => rfl
  | cons n rest ih => simp only [signersOfInput, addedEntries_self, attributeTo]; exact ih

theorem signersOfInputs_self {O : OriginOracle} {p : Psbt} (is : List Nat) (acc : List Nat) :
    signersOfInputs O p p is acc = some acc := by
  induction is with
  | nil => rfl
  | cons i rest ih => simp only [signersOfInputs, signersOfInput_self]; exact ih

end Btc.C11
