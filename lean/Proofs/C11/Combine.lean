import Proofs.C11.Fold
/-! `combine` on whole PSBTs: reduction to the per-slot fold; the table obligations. -/
namespace Btc.C11

def lookupField : List FieldSpec → String → Option FieldSpec
  | [], _ => none
  | f :: rest, n => if n = f.name then some f else lookupField rest n

/-- the dataclass field a location names (none: not a field of that section's dataclass) -/
def specAt (l : Loc) : Option FieldSpec := lookupField (fieldsOf l.sec) l.name

/-- the presence test `serialize` applies at a location: `true` = truthiness -/
def tAt (l : Loc) : Bool :=
  match specAt l with
  | some f => f.presence == .truthy
  | none => false

def kindOf : Slot → Kind
  | .scalar _ => .scalar
  | .dict _ => .dict

def ruleOK : Rule → Kind → Presence → Bool
  | .truthy, _, .truthy => true
  | .notNone, .scalar, .notNone => true
  | .musig, .dict, _ => true
  | _, _, _ => false

def secs : List Sec := [.glob, .inp, .out]

/-- TABLE OBLIGATION 1 (about the generated tables, i.e. about the source): every field `serialize`
    can emit is either merged by `combine` with the rule that fits its shape and its presence test,
    or is one of the fields the identifier is computed from. -/
def universeCovered : Bool :=
  secs.all fun s => (fieldsOf s).all fun f =>
    match lookupRule (callsOf s) f.name with
    | some .modifiable => true
    | some r => ruleOK r f.kind f.presence
    | none => f.presence == .never || (idReadsOf s).contains f.name

/-- TABLE OBLIGATION 2: every merge call names a dataclass field. -/
def callsAreFields : Bool :=
  secs.all fun s => (callsOf s).all fun c => (lookupField (fieldsOf s) c.1).isSome

theorem lookupField_some {fs : List FieldSpec} {n : String} {f : FieldSpec} (h : lookupField fs n = some f) :
    f ∈ fs ∧ f.name = n := by
  induction fs with
  | nil => cases h
  | cons g rest ih =>
    simp only [lookupField] at h
    split at h
    · cases h; rename_i hn; exact ⟨by simp, hn.symm⟩
    · have := ih h; exact ⟨by simp [this.1], this.2⟩

theorem lookupRule_some {cs : List (String × Rule)} {n : String} {r : Rule} (h : lookupRule cs n = some r) :
    (n, r) ∈ cs := by
  induction cs with
  | nil => cases h
  | cons c rest ih =>
    obtain ⟨m, q⟩ := c
    simp only [lookupRule] at h
    split at h
    · cases h; rename_i hn; subst hn; simp
    · simp [ih h]

theorem sec_mem (s : Sec) : s ∈ secs := by cases s <;> simp [secs]

/-- a well-formed operand: dicts are key-sorted, every slot has the shape its dataclass field has. -/
structure Operand (p : Psbt) : Prop where
  canon : ∀ l, Canon (p.slot l)
  kinded : ∀ l f, specAt l = some f → kindOf (p.slot l) = f.kind

/-- operands that do not conflict (the property's own proviso). -/
structure Compatible (ps : List Psbt) : Prop where
  wf : ∀ p ∈ ps, Operand p
  compat : ∀ l, ∀ a ∈ ps, ∀ b ∈ ps, Compat (tAt l) (a.slot l) (b.slot l)
  /-- the fields that identify the transaction and are not merged (outpoint, amount, script) -/
  idAgree : ∀ l, (idReadsOf l.sec).contains l.name = true → ruleAt l = none →
    ∀ a ∈ ps, ∀ b ∈ ps, a.slot l = b.slot l

theorem Compatible.perm {ps ps' : List Psbt} (h : Compatible ps) (p : ps.Perm ps') : Compatible ps' :=
  ⟨fun a ha => h.wf a (p.mem_iff.mpr ha),
   fun l a ha b hb => h.compat l a (p.mem_iff.mpr ha) b (p.mem_iff.mpr hb),
   fun l hi hl a ha b hb => h.idAgree l hi hl a (p.mem_iff.mpr ha) b (p.mem_iff.mpr hb)⟩

theorem kindOf_sameKind {a b : Slot} (h : kindOf a = kindOf b) : SameKind a b := by
  cases a <;> cases b <;> first | trivial | cases h

/-- the slots of compatible operands at a merged location satisfy the fold's hypotheses — this is
    where the two table obligations are used. -/
theorem slotsOK_of_compatible (hU : universeCovered = true) (hC : callsAreFields = true)
    {ps : List Psbt} (h : Compatible ps) {l : Loc} {r : Rule} (hr : ruleAt l = some r)
    (hm : r ≠ .modifiable) :
    SlotsOK r (tAt l) (ps.map (·.slot l)) := by
  have hmem := lookupRule_some hr
  have hfield : (lookupField (fieldsOf l.sec) l.name).isSome = true := by
    have := (List.all_eq_true.mp ((List.all_eq_true.mp hC) l.sec (sec_mem _))) (l.name, r) hmem
    exact this
  obtain ⟨f, hf⟩ := Option.isSome_iff_exists.mp hfield
  have hspec : specAt l = some f := hf
  obtain ⟨hfm, hfn⟩ := lookupField_some hf
  have hcov := (List.all_eq_true.mp ((List.all_eq_true.mp hU) l.sec (sec_mem _))) f hfm
  rw [hfn] at hcov
  have hr' : lookupRule (callsOf l.sec) l.name = some r := hr
  rw [hr'] at hcov
  have hok : ruleOK r f.kind f.presence = true := by
    cases r <;> first | exact hcov | exact absurd rfl hm
  have hfits : ∀ p ∈ ps, Fits r (tAt l) (p.slot l) := by
    intro p hp
    have hk := (h.wf p hp).kinded l f hspec
    unfold tAt; rw [hspec]
    cases r with
    | modifiable => exact absurd rfl hm
    | truthy =>
      cases hp' : f.presence <;> cases hk' : f.kind <;> simp [ruleOK, hp', hk'] at hok <;> simp [Fits, hp']
    | notNone =>
      cases hp' : f.presence <;> cases hk' : f.kind <;> simp [ruleOK, hp', hk'] at hok
      simp only [Fits]
      refine ⟨by simp [hp'], ?_⟩
      rw [hk'] at hk
      cases hs : p.slot l with
      | scalar _ => trivial
      | dict _ => rw [hs] at hk; cases hk
    | musig =>
      cases hk' : f.kind <;> simp [ruleOK, hk'] at hok
      simp only [Fits]
      rw [hk'] at hk
      cases hs : p.slot l with
      | dict _ => trivial
      | scalar _ => rw [hs] at hk; cases hk
  refine ⟨?_, ?_, ?_, ?_⟩
  · intro a ha
    obtain ⟨p, hp, rfl⟩ := List.mem_map.mp ha
    exact (h.wf p hp).canon l
  · intro a ha
    obtain ⟨p, hp, rfl⟩ := List.mem_map.mp ha
    exact hfits p hp
  · intro a ha b hb
    obtain ⟨p, hp, rfl⟩ := List.mem_map.mp ha
    obtain ⟨q, hq, rfl⟩ := List.mem_map.mp hb
    exact kindOf_sameKind (by rw [(h.wf p hp).kinded l f hspec, (h.wf q hq).kinded l f hspec])
  · intro a ha b hb
    obtain ⟨p, hp, rfl⟩ := List.mem_map.mp ha
    obtain ⟨q, hq, rfl⟩ := List.mem_map.mp hb
    exact h.compat l p hp q hq

/-! ### the fold on whole psbts, slot by slot -/

theorem foldl_step_slot (ps : List Psbt) (base : Psbt) (l : Loc) :
    (ps.foldl step base).slot l = (ps.map (·.slot l)).foldl (mergeAt l) (base.slot l) := by
  induction ps generalizing base with
  | nil => rfl
  | cons p rest ih => simp only [List.foldl_cons, List.map_cons]; rw [ih]; rfl

theorem foldl_step_hdr (ps : List Psbt) (base : Psbt) :
    (ps.foldl step base).version = base.version ∧ (ps.foldl step base).nIn = base.nIn ∧
    (ps.foldl step base).nOut = base.nOut := by
  induction ps generalizing base with
  | nil => exact ⟨rfl, rfl, rfl⟩
  | cons p rest ih => simp only [List.foldl_cons]; exact ih (step base p)

theorem combineFold_eq (rest : List Psbt) : ∀ (base : Psbt),
    (∀ pre p suf, rest = pre ++ p :: suf → conflict (pre.foldl step base) p = false) →
    combineFold base rest = .ok (rest.foldl step base) := by
  induction rest with
  | nil => intro base _; rfl
  | cons p rest ih =>
    intro base h
    have h0 := h [] p rest rfl
    simp only [List.foldl_nil] at h0
    simp only [combineFold, h0, Bool.false_eq_true, if_false, List.foldl_cons]
    apply ih
    intro pre q suf e
    have := h (p :: pre) q suf (by rw [e]; rfl)
    simpa using this

theorem combineFold_ok (rest : List Psbt) : ∀ (base r : Psbt), combineFold base rest = .ok r →
    r = rest.foldl step base := by
  induction rest with
  | nil => intro base r h; cases h; rfl
  | cons p rest ih =>
    intro base r h
    simp only [combineFold] at h
    split at h
    · cases h
    · exact ih _ _ h

/-- the psbt the operands are folded into: the first one, its tx_modifiable already settled -/
def baseOf (p0 : Psbt) (rest : List Psbt) : Psbt :=
  setSlot p0 modLoc (modSlot (combinedModifiable ((p0 :: rest).map fun p => (p.slot modLoc).nat?)))

/-- what `combine` checks before merging anything -/
def Checks (v : Nat) (id0 : UTx) (ps : List Psbt) : Prop :=
  ∀ p ∈ ps, p.version = v ∧ identOf v p = .ok id0

theorem combine_of_checks {v : Nat} {id0 : UTx} {p0 : Psbt} {rest : List Psbt}
    (h : Checks v id0 (p0 :: rest)) :
    combine (p0 :: rest) = postCheck v id0 (combineFold (baseOf p0 rest) rest) := by
  have hv : p0.version = v := (h p0 (by simp)).1
  have h1 : rest.any (fun p => p.version != p0.version) = false := by
    rw [List.any_eq_false]
    intro p hp
    simp [(h p (by simp [hp])).1, hv]
  have h2 : identOf p0.version p0 = .ok id0 := by rw [hv]; exact (h p0 (by simp)).2
  have h3 : rest.any (fun p => identOf p0.version p != .ok id0) = false := by
    rw [List.any_eq_false]
    intro p hp
    simp [hv, (h p (by simp [hp])).2]
  simp only [combine, h1, Bool.false_eq_true, if_false, h2, h3]
  rw [hv]
  rfl

theorem postCheck_ok {v : Nat} {id0 : UTx} {x : Except Err Psbt} {r : Psbt} (h : postCheck v id0 x = .ok r) :
    x = .ok r := by
  cases x with
  | error e => cases h
  | ok q =>
    simp only [postCheck] at h
    split at h
    · cases h
    · cases h; rfl

theorem checks_of_combine_ok {p0 : Psbt} {rest : List Psbt} {r : Psbt} (h : combine (p0 :: rest) = .ok r) :
    ∃ id0, Checks p0.version id0 (p0 :: rest) := by
  simp only [combine] at h
  split at h
  · cases h
  · rename_i h1
    split at h
    · cases h
    · rename_i id0 h2
      split at h
      · cases h
      · rename_i h3
        refine ⟨id0, ?_⟩
        intro p hp
        simp at hp
        rcases hp with rfl | hp
        · exact ⟨rfl, h2⟩
        · have a : p.version = p0.version := by
            have := h1; simp at this; exact this p hp
          have b : identOf p0.version p = .ok id0 := by
            have := h3; simp at this; exact this p hp
          exact ⟨a, b⟩

/-- whatever `combine` returns is the first operand (tx_modifiable settled) with every slot folded. -/
theorem combine_ok_fold {p0 : Psbt} {rest : List Psbt} {r : Psbt} (h : combine (p0 :: rest) = .ok r) :
    r = rest.foldl step (baseOf p0 rest) := by
  obtain ⟨id0, hck⟩ := checks_of_combine_ok h
  rw [combine_of_checks hck] at h
  exact combineFold_ok _ _ _ (postCheck_ok h)

/-- TABLE OBLIGATION 3: `tx_modifiable` is the field settled by `_combined_tx_modifiable`. -/
def modifiableIsAssigned : Bool := ruleAt modLoc == some .modifiable

theorem mergeAt_keep {l : Loc} (h : ruleAt l = none ∨ ruleAt l = some .modifiable) (a b : Slot) :
    mergeAt l a b = a := by
  unfold mergeAt
  rcases h with h | h <;> rw [h] <;> rfl

theorem foldl_keep {l : Loc} (h : ruleAt l = none ∨ ruleAt l = some .modifiable) (xs : List Slot) (a : Slot) :
    xs.foldl (mergeAt l) a = a := by
  induction xs generalizing a with
  | nil => rfl
  | cons x rest ih => simp only [List.foldl_cons, mergeAt_keep h]; exact ih a

theorem mergeAt_rule {l : Loc} {r : Rule} (h : ruleAt l = some r) : mergeAt l = mergeRule r := by
  funext a b; unfold mergeAt; rw [h]

theorem baseOf_slot {p0 : Psbt} {rest : List Psbt} {l : Loc} (h : l ≠ modLoc) :
    (baseOf p0 rest).slot l = p0.slot l := by
  simp [baseOf, setSlot, h]

theorem musigConflict_scalar (v : Option Val) (b : Slot) : musigConflict (.scalar v) b = false := rfl

/-- compatible operands are never refused by the participants check, whatever has been merged so far. -/
theorem no_conflict (hU : universeCovered = true) (hC : callsAreFields = true)
    (hM : modifiableIsAssigned = true) {p0 : Psbt} {rest : List Psbt} (h : Compatible (p0 :: rest))
    {pre : List Psbt} {p : Psbt} {suf : List Psbt} (e : rest = pre ++ p :: suf) :
    conflict (pre.foldl step (baseOf p0 rest)) p = false := by
  unfold conflict
  rw [List.any_eq_false]
  intro l _
  rw [foldl_step_slot]
  have hp : p ∈ p0 :: rest := by rw [e]; simp
  have hsub : ∀ q ∈ p0 :: pre, q ∈ p0 :: rest := by
    intro q hq; rw [e]; simp at hq ⊢; rcases hq with hq | hq <;> simp [hq]
  have hMod : ruleAt modLoc = some .modifiable := by simpa [modifiableIsAssigned] using hM
  cases hr : ruleAt l with
  | none =>
    rw [foldl_keep (Or.inl hr)]
    have hl : l ≠ modLoc := by intro c; rw [c, hMod] at hr; cases hr
    rw [baseOf_slot hl, Bool.not_eq_true]
    exact musigConflict_false ((h.wf p hp).canon l) (h.compat l p0 (by simp) p hp)
  | some r =>
    by_cases hm : r = .modifiable
    · subst hm
      rw [foldl_keep (Or.inr hr), Bool.not_eq_true]
      by_cases hl : l = modLoc
      · subst hl; simp [baseOf, setSlot, modSlot, musigConflict_scalar]
      · rw [baseOf_slot hl]
        exact musigConflict_false ((h.wf p hp).canon l) (h.compat l p0 (by simp) p hp)
    · have hl : l ≠ modLoc := by intro c; rw [c, hMod] at hr; cases hr; exact hm rfl
      rw [baseOf_slot hl, mergeAt_rule hr, Bool.not_eq_true]
      have hall := slotsOK_of_compatible hU hC h hr hm
      have hpre : SlotsOK r (tAt l) (p0.slot l :: pre.map (·.slot l)) := by
        have hmem : ∀ a, a ∈ p0.slot l :: pre.map (·.slot l) → a ∈ (p0 :: rest).map (·.slot l) := by
          intro a ha
          rw [← List.map_cons (f := fun q : Psbt => q.slot l)] at ha
          obtain ⟨q, hq, rfl⟩ := List.mem_map.mp ha
          exact List.mem_map.mpr ⟨q, hsub q hq, rfl⟩
        exact ⟨fun a ha => hall.canon a (hmem a ha), fun a ha => hall.fits a (hmem a ha),
               fun a ha b hb => hall.kind a (hmem a ha) b (hmem b hb),
               fun a ha b hb => hall.compat a (hmem a ha) b (hmem b hb)⟩
      obtain ⟨_, _, d⟩ := fold_den hpre
      apply musigConflict_false ((h.wf p hp).canon l) (t := tAt l)
      intro k v w hv hw
      obtain ⟨s, hs, hsv⟩ := (d k v).mp hv
      rw [← List.map_cons (f := fun q : Psbt => q.slot l)] at hs
      obtain ⟨q, hq, rfl⟩ := List.mem_map.mp hs
      exact h.compat l q (hsub q hq) p hp k v w hsv hw

/-- `combine` on compatible operands that pass its checks, before and after: the first operand,
    every slot folded. -/
theorem combine_eq (hU : universeCovered = true) (hC : callsAreFields = true)
    (hM : modifiableIsAssigned = true) {v : Nat} {id0 : UTx} {p0 : Psbt} {rest : List Psbt}
    (hc : Checks v id0 (p0 :: rest)) (h : Compatible (p0 :: rest))
    (hpost : identOf v (rest.foldl step (baseOf p0 rest)) = .ok id0) :
    combine (p0 :: rest) = .ok (rest.foldl step (baseOf p0 rest)) := by
  rw [combine_of_checks hc, combineFold_eq rest _ (fun pre p suf e => no_conflict hU hC hM h e)]
  simp [postCheck, hpost]

end Btc.C11
