import Model.C11.Combine
/-! `_combined_tx_modifiable`: order-independence and the direction of every bit. -/
namespace Btc.C11

theorem foldl_and_perm {l l' : List (Option Nat)} (p : l.Perm l') (a : Nat) :
    l.foldl (fun a v => a &&& v.getD 0) a = l'.foldl (fun a v => a &&& v.getD 0) a := by
  induction p generalizing a with
  | nil => rfl
  | cons x _ ih => simp only [List.foldl_cons]; exact ih _
  | swap x y l =>
    simp only [List.foldl_cons]
    congr 1
    rw [Nat.and_assoc, Nat.and_assoc, Nat.and_comm (y.getD 0)]
  | trans _ _ ih1 ih2 => rw [ih1, ih2]

theorem foldl_or_perm {l l' : List Nat} (p : l.Perm l') (a : Nat) :
    l.foldl (· ||| ·) a = l'.foldl (· ||| ·) a := by
  induction p generalizing a with
  | nil => rfl
  | cons x _ ih => simp only [List.foldl_cons]; exact ih _
  | swap x y l =>
    simp only [List.foldl_cons]
    congr 1
    rw [Nat.or_assoc, Nat.or_assoc, Nat.or_comm y]
  | trans _ _ ih1 ih2 => rw [ih1, ih2]

/-- the flags of the combined psbt do not depend on the order of the operands. -/
theorem combinedModifiable_perm {l l' : List (Option Nat)} (p : l.Perm l') :
    combinedModifiable l = combinedModifiable l' := by
  unfold combinedModifiable
  have pf : (l.filterMap id).Perm (l'.filterMap id) := p.filterMap id
  have he : (l.filterMap id).isEmpty = (l'.filterMap id).isEmpty := by
    have := pf.length_eq
    cases h1 : l.filterMap id <;> cases h2 : l'.filterMap id <;> simp_all
  simp only [he, foldl_and_perm p, foldl_or_perm pf]

def pairFlags (a b : Nat) : Nat := (((255 &&& a) &&& b) &&& 3) ||| (((0 ||| a) ||| b) &&& 252)

theorem combinedModifiable_pair (a b : Nat) :
    combinedModifiable [some a, some b] =
      some ((((255 &&& a) &&& b) &&& modBits) ||| (((0 ||| a) ||| b) &&& (0xFF ^^^ modBits))) := rfl

theorem combinedModifiable_pair' (a b : Nat) : combinedModifiable [some a, some b] = some (pairFlags a b) := by
  rw [combinedModifiable_pair]; rfl

theorem pair_mod_left (a b : Nat) : (pairFlags a b &&& 3) &&& a = pairFlags a b &&& 3 := by
  unfold pairFlags
  apply Nat.eq_of_testBit_eq
  intro i
  simp only [Nat.testBit_and, Nat.testBit_or, Nat.zero_or]
  have hxy : (Nat.testBit 3 i && Nat.testBit 252 i) = false := by
    rw [← Nat.testBit_and]; simp
  generalize Nat.testBit 3 i = x at *
  generalize Nat.testBit 252 i = y at *
  generalize Nat.testBit 255 i = c at *
  generalize Nat.testBit a i = p at *
  generalize Nat.testBit b i = q at *
  cases x <;> cases y <;> cases c <;> cases p <;> cases q <;> simp_all

theorem pair_mod_right (a b : Nat) : (pairFlags a b &&& 3) &&& b = pairFlags a b &&& 3 := by
  unfold pairFlags
  apply Nat.eq_of_testBit_eq
  intro i
  simp only [Nat.testBit_and, Nat.testBit_or, Nat.zero_or]
  have hxy : (Nat.testBit 3 i && Nat.testBit 252 i) = false := by
    rw [← Nat.testBit_and]; simp
  generalize Nat.testBit 3 i = x at *
  generalize Nat.testBit 252 i = y at *
  generalize Nat.testBit 255 i = c at *
  generalize Nat.testBit a i = p at *
  generalize Nat.testBit b i = q at *
  cases x <;> cases y <;> cases c <;> cases p <;> cases q <;> simp_all

theorem pair_other_left (a b : Nat) : (a &&& 252) &&& pairFlags a b = a &&& 252 := by
  unfold pairFlags
  apply Nat.eq_of_testBit_eq
  intro i
  simp only [Nat.testBit_and, Nat.testBit_or, Nat.zero_or]
  have hxy : (Nat.testBit 3 i && Nat.testBit 252 i) = false := by
    rw [← Nat.testBit_and]; simp
  generalize Nat.testBit 3 i = x at *
  generalize Nat.testBit 252 i = y at *
  generalize Nat.testBit 255 i = c at *
  generalize Nat.testBit a i = p at *
  generalize Nat.testBit b i = q at *
  cases x <;> cases y <;> cases c <;> cases p <;> cases q <;> simp_all

theorem pair_other_right (a b : Nat) : (b &&& 252) &&& pairFlags a b = b &&& 252 := by
  unfold pairFlags
  apply Nat.eq_of_testBit_eq
  intro i
  simp only [Nat.testBit_and, Nat.testBit_or, Nat.zero_or]
  have hxy : (Nat.testBit 3 i && Nat.testBit 252 i) = false := by
    rw [← Nat.testBit_and]; simp
  generalize Nat.testBit 3 i = x at *
  generalize Nat.testBit 252 i = y at *
  generalize Nat.testBit 255 i = c at *
  generalize Nat.testBit a i = p at *
  generalize Nat.testBit b i = q at *
  cases x <;> cases y <;> cases c <;> cases p <;> cases q <;> simp_all

theorem modBits_eq : modBits = 3 ∧ (0xFF ^^^ modBits) = 252 := by decide

/-- an absent field counts as "nothing may be modified": the modifiable bits go, the others stay. -/
theorem modifiable_absent : ∀ a < 256,
    combinedModifiable [some a, none] = some (a &&& (0xFF ^^^ modBits)) ∧
    combinedModifiable [none, some a] = some (a &&& (0xFF ^^^ modBits)) ∧
    combinedModifiable [none, none] = none := by
  decide +kernel

end Btc.C11
