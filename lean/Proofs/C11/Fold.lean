import Proofs.C11.Merge
/-! The fold of one slot over a list of compatible operands: what it keeps, and that it does not
depend on the order. -/
namespace Btc.C11

/-- hypotheses on the operands' slots at one location -/
structure SlotsOK (r : Rule) (t : Bool) (l : List Slot) : Prop where
  canon : ∀ a ∈ l, Canon a
  fits : ∀ a ∈ l, Fits r t a
  kind : ∀ a ∈ l, ∀ b ∈ l, SameKind a b
  compat : ∀ a ∈ l, ∀ b ∈ l, Compat t a b

theorem SlotsOK.perm {r : Rule} {t : Bool} {l l' : List Slot} (h : SlotsOK r t l) (p : l.Perm l') :
    SlotsOK r t l' :=
  ⟨fun a ha => h.canon a (p.mem_iff.mpr ha), fun a ha => h.fits a (p.mem_iff.mpr ha),
   fun a ha b hb => h.kind a (p.mem_iff.mpr ha) b (p.mem_iff.mpr hb),
   fun a ha b hb => h.compat a (p.mem_iff.mpr ha) b (p.mem_iff.mpr hb)⟩

theorem or_some_iff {a b : Option Val} {v : Val} (hc : ∀ x y, a = some x → b = some y → x = y) :
    a.or b = some v ↔ (a = some v ∨ b = some v) := by
  cases a with
  | none => simp
  | some x =>
    cases b with
    | none => simp
    | some y =>
      have := hc x y rfl rfl
      subst this
      simp

theorem fold_inv {r : Rule} {t : Bool} (l : List Slot) : ∀ (s0 : Slot), Canon s0 → Fits r t s0 →
    (∀ a ∈ l, Canon a ∧ SameKind s0 a ∧ Compat t s0 a) → (∀ a ∈ l, ∀ b ∈ l, Compat t a b) →
    Canon (l.foldl (mergeRule r) s0) ∧ SameKind (l.foldl (mergeRule r) s0) s0 ∧
    ∀ k v, den t (l.foldl (mergeRule r) s0) k = some v ↔
      (den t s0 k = some v ∨ ∃ s ∈ l, den t s k = some v) := by
  induction l with
  | nil => intro s0 hc _ _ _; exact ⟨hc, sameKind_refl _, by simp⟩
  | cons x rest ih =>
    intro s0 hc hf h1 h2
    obtain ⟨hxc, hxk, hxcompat⟩ := h1 x (by simp)
    have hden : ∀ k v, den t (mergeRule r s0 x) k = some v ↔ (den t s0 k = some v ∨ den t x k = some v) := by
      intro k v
      rw [den_merge hf hxk hc hxc hxcompat]
      exact or_some_iff (fun a b ha hb => hxcompat k a b ha hb)
    have hk' : SameKind (mergeRule r s0 x) s0 := sameKind_merge hxk
    obtain ⟨c, k, d⟩ := ih (mergeRule r s0 x) (canon_merge hc hxc) (fits_merge hf hxk)
      (fun a ha => by
        obtain ⟨ac, ak, acompat⟩ := h1 a (by simp [ha])
        refine ⟨ac, sameKind_trans hk' ak, ?_⟩
        intro q v w hv hw
        rcases (hden q v).mp hv with hv | hv
        · exact acompat q v w hv hw
        · exact h2 x (by simp) a (by simp [ha]) q v w hv hw)
      (fun a ha b hb => h2 a (by simp [ha]) b (by simp [hb]))
    refine ⟨c, sameKind_trans k hk', ?_⟩
    intro q v
    simp only [List.foldl_cons]
    rw [d q v, hden q v]
    constructor
    · rintro (( h | h ) | ⟨s, hs, h⟩)
      · exact Or.inl h
      · exact Or.inr ⟨x, by simp, h⟩
      · exact Or.inr ⟨s, by simp [hs], h⟩
    · rintro (h | ⟨s, hs, h⟩)
      · exact Or.inl (Or.inl h)
      · simp at hs
        rcases hs with hs | hs
        · subst hs; exact Or.inl (Or.inr h)
        · exact Or.inr ⟨s, hs, h⟩

/-- what the fold of a slot over compatible operands holds: exactly the pairs of the operands. -/
theorem fold_den {r : Rule} {t : Bool} {s0 : Slot} {l : List Slot} (h : SlotsOK r t (s0 :: l)) :
    Canon (l.foldl (mergeRule r) s0) ∧ SameKind (l.foldl (mergeRule r) s0) s0 ∧
    ∀ k v, den t (l.foldl (mergeRule r) s0) k = some v ↔ ∃ s ∈ s0 :: l, den t s k = some v := by
  obtain ⟨c, k, d⟩ := fold_inv (r := r) (t := t) l s0 (h.canon s0 (by simp)) (h.fits s0 (by simp))
    (fun a ha => ⟨h.canon a (by simp [ha]), h.kind s0 (by simp) a (by simp [ha]),
      h.compat s0 (by simp) a (by simp [ha])⟩)
    (fun a ha b hb => h.compat a (by simp [ha]) b (by simp [hb]))
  refine ⟨c, k, ?_⟩
  intro q v
  rw [d q v]
  simp

/-- order-independence, at one slot. -/
theorem fold_perm {r : Rule} {t : Bool} {s0 s0' : Slot} {l l' : List Slot}
    (h : SlotsOK r t (s0 :: l)) (p : (s0 :: l).Perm (s0' :: l')) :
    norm t (l.foldl (mergeRule r) s0) = norm t (l'.foldl (mergeRule r) s0') := by
  have h' := h.perm p
  obtain ⟨c, k, d⟩ := fold_den h
  obtain ⟨c', k', d'⟩ := fold_den h'
  apply norm_ext _ c c'
  · intro q
    apply Option.ext
    intro v
    rw [d q v, d' q v]
    constructor
    · rintro ⟨s, hs, e⟩; exact ⟨s, p.mem_iff.mp hs, e⟩
    · rintro ⟨s, hs, e⟩; exact ⟨s, p.mem_iff.mpr hs, e⟩
  · have : SameKind s0 s0' := h.kind s0 (by simp) s0' (p.mem_iff.mpr (by simp))
    exact sameKind_trans k (sameKind_trans this (sameKind_symm k'))

theorem fold_self (r : Rule) {s : Slot} (hs : Canon s) (n : Nat) :
    (List.replicate n s).foldl (mergeRule r) s = s := by
  induction n with
  | zero => rfl
  | succ n ih => simp [List.replicate_succ, merge_self r hs, ih]

end Btc.C11
