import Proofs.C11.Bracket
import Proofs.C11.Modifiable
/-! A nested combine IS the flat one: tx_modifiable of the nesting, the error class, the equation. -/
namespace Btc.C11

theorem foldl_and_zero (l : List (Option Nat)) : l.foldl (fun a v => a &&& v.getD 0) 0 = 0 := by
  induction l with
  | nil => rfl
  | cons x xs ih => simp only [List.foldl_cons, Nat.zero_and]; exact ih

theorem foldl_and_allNone : ∀ (l : List (Option Nat)) (a : Nat), l ≠ [] → l.filterMap id = [] →
    l.foldl (fun a v => a &&& v.getD 0) a = 0 := by
  intro l a hne hf
  cases l with
  | nil => exact absurd rfl hne
  | cons x xs =>
    cases x with
    | some n => simp at hf
    | none =>
      simp only [List.foldl_cons, Option.getD_none, Nat.and_zero]
      exact foldl_and_zero xs

theorem foldl_and_low {x y : Nat} (h : x &&& 3 = y &&& 3) (l : List (Option Nat)) :
    (l.foldl (fun a v => a &&& v.getD 0) x) &&& 3 = (l.foldl (fun a v => a &&& v.getD 0) y) &&& 3 := by
  induction l generalizing x y with
  | nil => exact h
  | cons v vs ih =>
    simp only [List.foldl_cons]
    apply ih
    rw [Nat.and_assoc, Nat.and_comm (v.getD 0), ← Nat.and_assoc, h, Nat.and_assoc, Nat.and_comm 3, ← Nat.and_assoc]

theorem foldl_or_high {x y : Nat} (h : x &&& 252 = y &&& 252) (l : List Nat) :
    (l.foldl (· ||| ·) x) &&& 252 = (l.foldl (· ||| ·) y) &&& 252 := by
  induction l generalizing x y with
  | nil => exact h
  | cons v vs ih =>
    simp only [List.foldl_cons]
    apply ih
    rw [Nat.and_or_distrib_right, h, ← Nat.and_or_distrib_right]

theorem flags_low (a o : Nat) : (255 &&& ((a &&& 3) ||| (o &&& 252))) &&& 3 = a &&& 3 := by
  apply Nat.eq_of_testBit_eq
  intro i
  simp only [Nat.testBit_and, Nat.testBit_or]
  have hxy : (Nat.testBit 3 i && Nat.testBit 252 i) = false := by
    rw [← Nat.testBit_and]; simp
  have hxc : (Nat.testBit 3 i && !Nat.testBit 255 i) = false := by
    have : (3 &&& 255 : Nat) = 3 := by decide
    have h := congrArg (fun n => Nat.testBit n i) this
    simp only [Nat.testBit_and] at h
    generalize Nat.testBit 3 i = x at *
    generalize Nat.testBit 255 i = c at *
    cases x <;> cases c <;> simp_all
  generalize Nat.testBit 3 i = x at *
  generalize Nat.testBit 252 i = y at *
  generalize Nat.testBit 255 i = c at *
  generalize Nat.testBit a i = p at *
  generalize Nat.testBit o i = q at *
  cases x <;> cases y <;> cases c <;> cases p <;> cases q <;> simp_all

theorem flags_high (a o : Nat) : (0 ||| ((a &&& 3) ||| (o &&& 252))) &&& 252 = o &&& 252 := by
  apply Nat.eq_of_testBit_eq
  intro i
  simp only [Nat.testBit_and, Nat.testBit_or, Nat.zero_or]
  have hxy : (Nat.testBit 3 i && Nat.testBit 252 i) = false := by
    rw [← Nat.testBit_and]; simp
  generalize Nat.testBit 3 i = x at *
  generalize Nat.testBit 252 i = y at *
  generalize Nat.testBit a i = p at *
  generalize Nat.testBit o i = q at *
  cases x <;> cases y <;> cases p <;> cases q <;> simp_all

/-- `_combined_tx_modifiable` of a nesting: the flags of (the combined flags of A) and B are the flags of A and B. -/
theorem combinedModifiable_nest (A B : List (Option Nat)) (hA : A ≠ []) :
    combinedModifiable (combinedModifiable A :: B) = combinedModifiable (A ++ B) := by
  obtain ⟨e1, _⟩ := modBits_eq
  have e2 : (255 ^^^ 3 : Nat) = 252 := by decide
  unfold combinedModifiable
  simp only [e1, e2]
  cases hfa : A.filterMap id with
  | nil =>
    simp only [List.isEmpty_nil, if_true, List.filterMap_cons, id, List.filterMap_append, hfa, List.nil_append,
      List.foldl_cons, List.foldl_append, Option.getD_none, Nat.and_zero]
    rw [foldl_and_allNone A _ hA hfa]
  | cons f fs =>
    simp only [List.isEmpty_cons, Bool.false_eq_true, if_false, List.filterMap_cons, id, List.filterMap_append,
      hfa, List.cons_append, List.foldl_cons, List.foldl_append, Option.getD_some]
    congr 1
    congr 1
    · exact foldl_and_low (flags_low _ _) B
    · exact foldl_or_high (flags_high _ _) (B.filterMap id)

theorem modSlot_nat (o : Option Nat) : (modSlot o).nat? = o := by
  cases o <;> simp [modSlot, Slot.nat?, Slot.int?]

/-- what `combine` leaves in tx_modifiable: `_combined_tx_modifiable` of all the operands' flags -/
theorem combine_mod_slot (hM : modifiableIsAssigned = true) {p0 r : Psbt} {rest : List Psbt}
    (h : combine (p0 :: rest) = .ok r) :
    r.slot modLoc = modSlot (combinedModifiable ((p0 :: rest).map fun p => (p.slot modLoc).nat?)) := by
  have hMod : ruleAt modLoc = some .modifiable := by simpa [modifiableIsAssigned] using hM
  rw [combine_ok_fold h, foldl_step_slot, foldl_keep (Or.inr hMod)]
  simp [baseOf, setSlot]

theorem lockTimeOf_error {r : List (Option Int × Option Int)} {f : Option Int} {e : Err}
    (h : lockTimeOf r f = .error e) : e = .value := by
  unfold lockTimeOf at h
  simp only at h
  split at h
  · cases h
  · split at h
    · cases h
    · split at h
      · cases h
      · cases h; rfl

theorem identOf_error {v : Nat} {p : Psbt} {e : Err} (h : identOf v p = .error e) : e = .value := by
  unfold identOf unsignedTx at h
  split at h
  · rename_i e' he
    cases h
    exact lockTimeOf_error he
  · cases h

theorem combineFold_error (l : List Psbt) : ∀ {b : Psbt} {e : Err}, combineFold b l = .error e → e = .value := by
  induction l with
  | nil => intro b e h; cases h
  | cons p rest ih =>
    intro b e h
    simp only [combineFold] at h
    split at h
    · cases h; rfl
    · exact ih h

/-- every refusal of a non-empty `combine` is a BTClibValueError -/
theorem combine_error_value {p0 : Psbt} {rest : List Psbt} {e : Err} (h : combine (p0 :: rest) = .error e) :
    e = .value := by
  unfold combine at h
  simp only at h
  split at h
  · cases h; rfl
  · split at h
    · rename_i e' he
      cases h
      exact identOf_error he
    · split at h
      · cases h; rfl
      · rename_i id0 _ _
        generalize hx : combineFold _ rest = x at h
        cases x with
        | error e' =>
          simp only [postCheck] at h
          cases h
          exact combineFold_error rest hx
        | ok y =>
          simp only [postCheck] at h
          split at h
          · cases h; rfl
          · cases h

theorem psbt_ext {a b : Psbt} (hv : a.version = b.version) (hi : a.nIn = b.nIn) (ho : a.nOut = b.nOut)
    (hs : ∀ l, a.slot l = b.slot l) : a = b := by
  cases a; cases b
  simp only at hv hi ho hs
  subst hv; subst hi; subst ho
  congr 1
  funext l
  exact hs l

/-- THE EQUATION: once the inner combine is accepted, combining its result with further operands IS combining
    everything at once — same acceptance, same refusal, same psbt (tx_modifiable included). -/
theorem combine_nested_eq (hM : modifiableIsAssigned = true) (hF : Gen.Combine.combineRechecksIdentity = true)
    {p0 r : Psbt} {rest : List Psbt} (h1 : combine (p0 :: rest) = .ok r) (l2 : List Psbt) :
    combine (r :: l2) = combine (p0 :: (rest ++ l2)) := by
  cases h2 : combine (r :: l2) with
  | ok s =>
    obtain ⟨s', h3, hoff⟩ := flat_accepted hM hF h1 h2
    rw [h3]
    congr 1
    refine psbt_ext hoff.ver hoff.nin hoff.nout ?_
    intro l
    by_cases hl : l = modLoc
    · subst hl
      rw [combine_mod_slot hM h2, combine_mod_slot hM h3]
      congr 1
      have hr : (r.slot modLoc).nat? = combinedModifiable ((p0 :: rest).map fun p => (p.slot modLoc).nat?) := by
        rw [combine_mod_slot hM h1, modSlot_nat]
      rw [List.map_cons, hr, ← List.cons_append, List.map_append]
      exact combinedModifiable_nest _ _ (by simp)
    · exact hoff.slots l hl
  | error e =>
    cases h3 : combine (p0 :: (rest ++ l2)) with
    | ok s' =>
      obtain ⟨s, hs, _⟩ := nested_accepted hM hF h1 h3
      rw [hs] at h2; cases h2
    | error e' => rw [combine_error_value h2, combine_error_value h3]

end Btc.C11
