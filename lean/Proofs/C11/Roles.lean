import Model.C11.Roles
/-! Roles other than the Combiner: what identifies the transaction, what a signer's answer may touch. -/
namespace Btc.C11

/-- the locations the model's `unsignedTx` reads -/
def IdLoc (l : Loc) : Prop :=
  (l.sec = .glob ∧ l.idx = 0 ∧ (l.name = "tx_version" ∨ l.name = "fallback_lock_time")) ∨
  (l.sec = .inp ∧ (l.name = "previous_tx_id" ∨ l.name = "output_index" ∨ l.name = "sequence" ∨
      l.name = "required_height_lock_time" ∨ l.name = "required_time_lock_time")) ∨
  (l.sec = .out ∧ (l.name = "amount" ∨ l.name = "script_pub_key" ∨ l.name = "sp_v0_info"))

/-- two psbts that agree wherever the identifier reads are of one unsigned transaction. -/
theorem unsignedTx_congr {p q : Psbt} (hi : p.nIn = q.nIn) (ho : p.nOut = q.nOut)
    (h : ∀ l, IdLoc l → p.slot l = q.slot l) (b : Bool) : unsignedTx p b = unsignedTx q b := by
  have hreq : requiredOf p = requiredOf q := by
    unfold requiredOf
    rw [hi]
    apply List.map_congr_left
    intro i _
    rw [h ⟨.inp, i, "required_height_lock_time"⟩ (by simp [IdLoc]),
        h ⟨.inp, i, "required_time_lock_time"⟩ (by simp [IdLoc])]
  have hlt : lockTime p = lockTime q := by
    unfold lockTime
    rw [hreq, h ⟨.glob, 0, "fallback_lock_time"⟩ (by simp [IdLoc])]
  have hin : (List.range p.nIn).map (txIn p b) = (List.range q.nIn).map (txIn q b) := by
    rw [hi]
    apply List.map_congr_left
    intro i _
    unfold txIn
    rw [h ⟨.inp, i, "previous_tx_id"⟩ (by simp [IdLoc]), h ⟨.inp, i, "output_index"⟩ (by simp [IdLoc]),
        h ⟨.inp, i, "sequence"⟩ (by simp [IdLoc])]
  have hout : (List.range p.nOut).map (txOut p b) = (List.range q.nOut).map (txOut q b) := by
    rw [ho]
    apply List.map_congr_left
    intro i _
    unfold txOut
    rw [h ⟨.out, i, "sp_v0_info"⟩ (by simp [IdLoc]), h ⟨.out, i, "amount"⟩ (by simp [IdLoc]),
        h ⟨.out, i, "script_pub_key"⟩ (by simp [IdLoc])]
  unfold unsignedTx
  rw [hlt, hin, hout, h ⟨.glob, 0, "tx_version"⟩ (by simp [IdLoc])]

/-- TABLE OBLIGATION (roles): everything the model's identifier reads is in the generated list of
    fields the SOURCE's identifier reads, and no Signer / Finalizer store goes to one of those. -/
def rolesTableCheck : Bool :=
  ["tx_version", "fallback_lock_time"].all (Gen.Combine.globIdReads.contains ·)
  && ["previous_tx_id", "output_index", "sequence", "required_height_lock_time", "required_time_lock_time"].all
      (Gen.Combine.inIdReads.contains ·)
  && ["amount", "script_pub_key", "sp_v0_info"].all (Gen.Combine.outIdReads.contains ·)
  && Gen.Combine.globIdReads.length == 2 && Gen.Combine.inIdReads.length == 5 && Gen.Combine.outIdReads.length == 3
  && Gen.Combine.signInWrites.all (Gen.Combine.signatureFields.contains ·)
  && Gen.Combine.signInWrites.all (fun n => !Gen.Combine.inIdReads.contains n)
  && Gen.Combine.finInWrites.all (fun n => !Gen.Combine.inIdReads.contains n)
  && Gen.Combine.signGlobWrites.isEmpty && Gen.Combine.finGlobWrites.isEmpty
  && Gen.Combine.v2InWrites.isEmpty && Gen.Combine.v2GlobWrites == ["version"]
  && Gen.Combine.signatureFields.all (fun n => (lookupRule Gen.Combine.inCalls n).isSome)
  -- every global field is compared by assert_signatures_only: one by one, or inside the transaction, or by the bit rule
  && Gen.Combine.globFields.all (fun f => Gen.Combine.sigOnlyGlobals.contains f.name || f.name == "tx_version" || f.name == "tx_modifiable")

theorem mapUnchanged_sound {sec : Sec} {i : Nat} {req ret : Psbt} (h : mapUnchanged sec i req ret = true)
    {f : FieldSpec} (hf : f ∈ fieldsOf sec) :
    (¬ (sec = .inp ∧ Gen.Combine.signatureFields.contains f.name = true) →
        ret.slot ⟨sec, i, f.name⟩ = req.slot ⟨sec, i, f.name⟩) ∧
    ((sec = .inp ∧ Gen.Combine.signatureFields.contains f.name = true) →
        addedOnly (req.slot ⟨sec, i, f.name⟩) (ret.slot ⟨sec, i, f.name⟩) = true) := by
  have := List.all_eq_true.mp h f hf
  constructor
  · intro hn
    by_cases hs : sec = .inp
    · have hc : Gen.Combine.signatureFields.contains f.name = false := by
        cases hh : Gen.Combine.signatureFields.contains f.name
        · rfl
        · exact absurd ⟨hs, hh⟩ hn
      simp only [hs, hc] at this
      simp at this
      rw [hs]; exact this.symm
    · have hb : (sec == Sec.inp) = false := by cases sec <;> simp_all
      simp only [hb] at this
      simp at this
      exact this.symm
  · rintro ⟨hs, hc⟩
    subst hs
    simp only [beq_self_eq_true, Bool.true_and, hc, if_true] at this
    exact this

/-- a signature map that only gained entries keeps every entry it had. -/
theorem addedOnly_dict {was now : Dict} (h : addedOnly (.dict was) (.dict now) = true) {k : Nat} {v : Val}
    (hm : (k, v) ∈ was) : dlookup now k = some v := by
  have := List.all_eq_true.mp h (k, v) hm
  simpa using this

end Btc.C11

namespace Btc.C11

theorem filter_const_none (n : Nat) (f : Nat → Option Int × Option Int) (h : ∀ i, f i = (none, none)) :
    ((List.range n).map f).filter (fun p => !(p.1.isNone && p.2.isNone)) = [] := by
  rw [List.filter_eq_nil_iff]
  intro a ha
  obtain ⟨i, _, rfl⟩ := List.mem_map.mp ha
  simp [h i]

/-- `to_v0` writes the computed lock time where version 0 keeps it, so the transaction is the same one. -/
theorem toV0_tx {p q : Psbt} (h : toV0 p = .ok q) (b : Bool) : unsignedTx q b = unsignedTx p b := by
  unfold toV0 at h
  cases hl : lockTime p with
  | error e => rw [hl] at h; cases h
  | ok lt =>
    rw [hl] at h
    cases h
    have hreq : ∀ i, ((v0Slot p lt ⟨Sec.inp, i, "required_height_lock_time"⟩).int?,
        (v0Slot p lt ⟨Sec.inp, i, "required_time_lock_time"⟩).int?) = ((none : Option Int), (none : Option Int)) := by
      intro i
      simp [v0Slot, fallbackLoc, modLoc, isRequiredLock, Slot.int?]
    have hlock : lockTime { p with version := Gen.Combine.PSBT_V0, slot := v0Slot p lt } = .ok lt := by
      unfold lockTime lockTimeOf requiredOf
      simp only
      rw [filter_const_none _ _ hreq]
      simp [v0Slot, fallbackLoc, Slot.int?]
    have e1 : ∀ i, txIn { p with version := Gen.Combine.PSBT_V0, slot := v0Slot p lt } b i = txIn p b i := by
      intro i; simp [txIn, v0Slot, fallbackLoc, modLoc, isRequiredLock]
    have e2 : ∀ i, txOut { p with version := Gen.Combine.PSBT_V0, slot := v0Slot p lt } b i = txOut p b i := by
      intro i; simp [txOut, v0Slot, fallbackLoc, modLoc, isRequiredLock]
    have e3 : v0Slot p lt ⟨Sec.glob, 0, "tx_version"⟩ = p.slot ⟨Sec.glob, 0, "tx_version"⟩ := by
      simp [v0Slot, fallbackLoc, modLoc, isRequiredLock]
    unfold unsignedTx
    rw [hlock, hl]
    simp only [e3]
    congr 2
    all_goals first
      | exact List.map_congr_left (fun i _ => e1 i)
      | exact List.map_congr_left (fun i _ => e2 i)

end Btc.C11
