import Proofs.C11.Perm
/-! A nested combine is accepted exactly when the inner one and the flat one are. -/
namespace Btc.C11

/-- two psbts that differ at most in the (scalar) tx_modifiable slot -/
structure OffMod (a b : Psbt) : Prop where
  ver : a.version = b.version
  nin : a.nIn = b.nIn
  nout : a.nOut = b.nOut
  slots : ∀ l, l ≠ modLoc → a.slot l = b.slot l
  sa : IsScalar (a.slot modLoc)
  sb : IsScalar (b.slot modLoc)

theorem OffMod.trans {a b c : Psbt} (h1 : OffMod a b) (h2 : OffMod b c) : OffMod a c :=
  ⟨h1.ver.trans h2.ver, h1.nin.trans h2.nin, h1.nout.trans h2.nout,
   fun l hl => (h1.slots l hl).trans (h2.slots l hl), h1.sa, h2.sb⟩

theorem OffMod.symm {a b : Psbt} (h : OffMod a b) : OffMod b a :=
  ⟨h.ver.symm, h.nin.symm, h.nout.symm, fun l hl => (h.slots l hl).symm, h.sb, h.sa⟩

theorem musigConflict_isScalar {s : Slot} (h : IsScalar s) (t : Slot) : musigConflict s t = false := by
  cases s with
  | scalar _ => rfl
  | dict _ => cases h

theorem conflict_offMod {a b : Psbt} (h : OffMod a b) (p : Psbt) : conflict a p = conflict b p := by
  unfold conflict
  have hl : locsWith a .musig = locsWith b .musig := by unfold locsWith; rw [h.nin, h.nout]
  rw [hl]
  congr 1
  funext l
  by_cases hm : l = modLoc
  · subst hm
    rw [musigConflict_isScalar h.sa, musigConflict_isScalar h.sb]
  · rw [h.slots l hm]

theorem step_offMod (hMod : ruleAt modLoc = some .modifiable) {a b : Psbt} (h : OffMod a b) (p : Psbt) :
    OffMod (step a p) (step b p) := by
  refine ⟨h.ver, h.nin, h.nout, ?_, ?_, ?_⟩
  · intro l hl
    simp only [step]
    rw [h.slots l hl]
  · simp only [step]; rw [mergeAt_keep (Or.inr hMod)]; exact h.sa
  · simp only [step]; rw [mergeAt_keep (Or.inr hMod)]; exact h.sb

theorem foldl_step_offMod (hMod : ruleAt modLoc = some .modifiable) (l : List Psbt) :
    ∀ {a b : Psbt}, OffMod a b → OffMod (l.foldl step a) (l.foldl step b) := by
  induction l with
  | nil => intro a b h; exact h
  | cons p rest ih => intro a b h; exact ih (step_offMod hMod h p)

theorem combineFold_offMod (hMod : ruleAt modLoc = some .modifiable) (l : List Psbt) :
    ∀ {a b x : Psbt}, OffMod a b → combineFold a l = .ok x → ∃ y, combineFold b l = .ok y ∧ OffMod x y := by
  induction l with
  | nil => intro a b x h hx; cases hx; exact ⟨b, rfl, h⟩
  | cons p rest ih =>
    intro a b x h hx
    simp only [combineFold] at hx ⊢
    rw [← conflict_offMod h p]
    split at hx
    · cases hx
    · rename_i hc
      simp only [hc]
      exact ih (step_offMod hMod h p) hx

theorem combineFold_append (l1 : List Psbt) : ∀ (b : Psbt) (l2 : List Psbt),
    combineFold b (l1 ++ l2) = match combineFold b l1 with
      | .ok m => combineFold m l2
      | .error e => .error e := by
  induction l1 with
  | nil => intro b l2; rfl
  | cons p rest ih =>
    intro b l2
    simp only [List.cons_append, combineFold]
    split
    · rfl
    · exact ih _ _

theorem idLoc_ne_modLoc {l : Loc} (h : IdLoc l) : l ≠ modLoc := by
  intro c
  subst c
  rcases h with ⟨_, _, hn | hn⟩ | ⟨hs, _⟩ | ⟨hs, _⟩
  · exact absurd hn (by decide)
  · exact absurd hn (by decide)
  · exact absurd hs (by decide)
  · exact absurd hs (by decide)

theorem ident_offMod {a b : Psbt} (h : OffMod a b) (v : Nat) : identOf v a = identOf v b := by
  unfold identOf
  exact unsignedTx_congr h.nin h.nout (fun l hl => h.slots l (idLoc_ne_modLoc hl)) _

theorem baseOf_offMod (p0 : Psbt) (l1 l2 : List Psbt) : OffMod (baseOf p0 l1) (baseOf p0 l2) := by
  refine ⟨rfl, rfl, rfl, ?_, ?_, ?_⟩
  · intro l hl; simp [baseOf, setSlot, hl]
  · simp [baseOf, setSlot, modSlot, IsScalar]
  · simp [baseOf, setSlot, modSlot, IsScalar]

theorem baseOf_offMod_self {r : Psbt} (hr : IsScalar (r.slot modLoc)) (l2 : List Psbt) : OffMod r (baseOf r l2) := by
  refine ⟨rfl, rfl, rfl, ?_, hr, ?_⟩
  · intro l hl; simp [baseOf, setSlot, hl]
  · simp [baseOf, setSlot, modSlot, IsScalar]

/-- THE CHARACTERISATION: if the inner combine and the flat combine are accepted, so is the outer one,
    and it gives the flat result everywhere but (possibly) in tx_modifiable. -/
theorem nested_accepted (hM : modifiableIsAssigned = true) (hF : Gen.Combine.combineRechecksIdentity = true)
    {p0 r s' : Psbt} {rest l2 : List Psbt}
    (h1 : combine (p0 :: rest) = .ok r) (h3 : combine (p0 :: (rest ++ l2)) = .ok s') :
    ∃ s, combine (r :: l2) = .ok s ∧ OffMod s' s := by
  have hMod : ruleAt modLoc = some .modifiable := by simpa [modifiableIsAssigned] using hM
  obtain ⟨id1, c1⟩ := checks_of_combine_ok h1
  obtain ⟨id3, c3⟩ := checks_of_combine_ok h3
  have hid : id1 = id3 := by
    have a := (c1 p0 (by simp)).2
    have b := (c3 p0 (by simp)).2
    rw [a] at b; cases b; rfl
  subst hid
  have hr := combine_ok_fold h1
  have hrv : r.version = p0.version := by rw [hr]; exact (foldl_step_hdr _ _).1
  have hrid : identOf p0.version r = .ok id1 := by
    rw [combine_of_checks c1] at h1
    exact postCheck_ident h1 hF
  -- the checks of the outer combine
  have c2 : Checks p0.version id1 (r :: l2) := by
    intro p hp
    simp at hp
    rcases hp with rfl | hp
    · exact ⟨hrv, hrid⟩
    · exact c3 p (by simp [hp])
  -- the flat fold, split after `rest`
  rw [combine_of_checks c3] at h3
  have hs'id := postCheck_ident h3 hF
  have h3f := postCheck_ok h3
  rw [combineFold_append] at h3f
  cases hm : combineFold (baseOf p0 (rest ++ l2)) rest with
  | error e => rw [hm] at h3f; cases h3f
  | ok m =>
    rw [hm] at h3f
    have hm' := combineFold_ok _ _ _ hm
    have hrs : IsScalar (r.slot modLoc) := by
      rw [hr, foldl_step_slot, foldl_keep (Or.inr hMod)]
      simp [baseOf, setSlot, modSlot, IsScalar]
    have hrel : OffMod m (baseOf r l2) := by
      rw [hm', hr]
      exact (foldl_step_offMod hMod rest (baseOf_offMod p0 (rest ++ l2) rest)).trans
        (by rw [← hr]; exact baseOf_offMod_self hrs l2)
    obtain ⟨y, hy, hxy⟩ := combineFold_offMod hMod l2 hrel h3f
    refine ⟨y, ?_, hxy⟩
    rw [combine_of_checks c2, hy]
    simp only [postCheck, hF, Bool.true_and]
    rw [← ident_offMod hxy, hs'id]
    simp

/-- and conversely: inner and outer accepted, then the flat combine is accepted too. -/
theorem flat_accepted (hM : modifiableIsAssigned = true) (hF : Gen.Combine.combineRechecksIdentity = true)
    {p0 r s : Psbt} {rest l2 : List Psbt}
    (h1 : combine (p0 :: rest) = .ok r) (h2 : combine (r :: l2) = .ok s) :
    ∃ s', combine (p0 :: (rest ++ l2)) = .ok s' ∧ OffMod s s' := by
  have hMod : ruleAt modLoc = some .modifiable := by simpa [modifiableIsAssigned] using hM
  obtain ⟨id1, c1⟩ := checks_of_combine_ok h1
  obtain ⟨id2, c2⟩ := checks_of_combine_ok h2
  have hr := combine_ok_fold h1
  have hrv : r.version = p0.version := by rw [hr]; exact (foldl_step_hdr _ _).1
  have hrid : identOf p0.version r = .ok id1 := by
    have h1' := h1
    rw [combine_of_checks c1] at h1'
    exact postCheck_ident h1' hF
  have hid : id2 = id1 := by
    have a := (c2 r (by simp)).2
    rw [hrv, hrid] at a; cases a; rfl
  subst hid
  have c3 : Checks p0.version id2 (p0 :: (rest ++ l2)) := by
    intro p hp
    simp at hp
    rcases hp with rfl | hp | hp
    · exact c1 p (by simp)
    · exact c1 p (by simp [hp])
    · have := c2 p (by simp [hp]); rw [hrv] at this; exact this
  have h1f : combineFold (baseOf p0 rest) rest = .ok r := by
    rw [combine_of_checks c1] at h1; exact postCheck_ok h1
  rw [combine_of_checks c2] at h2
  have hsid := postCheck_ident h2 hF
  have h2f := postCheck_ok h2
  obtain ⟨m, hm, hrm⟩ := combineFold_offMod hMod rest (baseOf_offMod p0 rest (rest ++ l2)) h1f
  have hrs : IsScalar (r.slot modLoc) := by
    rw [hr, foldl_step_slot, foldl_keep (Or.inr hMod)]
    simp [baseOf, setSlot, modSlot, IsScalar]
  obtain ⟨y, hy, hsy⟩ := combineFold_offMod hMod l2 ((baseOf_offMod_self hrs l2).symm.trans hrm) h2f
  refine ⟨y, ?_, hsy⟩
  rw [combine_of_checks c3, combineFold_append, hm]
  simp only [hy, postCheck, hF, Bool.true_and]
  rw [← ident_offMod hsy, ← hrv, hsid]
  simp

end Btc.C11
