import Model.C11.Combine
/-! Key-sorted association lists: `dinsert`, `dupdate`, extensionality. -/
namespace Btc.C11

def Sorted (m : Dict) : Prop := m.Pairwise (fun a b => a.1 < b.1)

theorem sorted_nil : Sorted [] := List.Pairwise.nil

theorem sorted_cons {k : Nat} {v : Val} {r : Dict} :
    Sorted ((k, v) :: r) ↔ (∀ e ∈ r, k < e.1) ∧ Sorted r := by
  unfold Sorted; rw [List.pairwise_cons]

theorem dlookup_none_of_lt {r : Dict} {q : Nat} (h : ∀ e ∈ r, q < e.1) : dlookup r q = none := by
  induction r with
  | nil => rfl
  | cons e r ih =>
    obtain ⟨k, v⟩ := e
    have hk : q < k := h (k, v) (by simp)
    have : q ≠ k := by omega
    simp only [dlookup, this, if_false]
    exact ih (fun e he => h e (by simp [he]))

theorem dlookup_tail_none {k : Nat} {v : Val} {r : Dict} (h : Sorted ((k, v) :: r)) {q : Nat} (hq : q ≤ k) :
    dlookup r q = none := by
  rw [sorted_cons] at h
  exact dlookup_none_of_lt (fun e he => by have := h.1 e he; omega)

theorem dlookup_dinsert (k : Nat) (v : Val) (m : Dict) (q : Nat) :
    dlookup (dinsert k v m) q = if q = k then some v else dlookup m q := by
  induction m with
  | nil => simp [dinsert, dlookup]
  | cons e r ih =>
    obtain ⟨k', v'⟩ := e
    unfold dinsert
    split
    · simp [dlookup]
    · split
      · rename_i h1 h2
        subst h2
        by_cases hq : q = k <;> simp [dlookup, hq]
      · rename_i h1 h2
        simp only [dlookup, ih]
        by_cases hq : q = k'
        · have : q ≠ k := by omega
          simp [hq, this]
          intro h; omega
        · simp [hq]

theorem mem_dinsert {k : Nat} {v : Val} {m : Dict} {e : Nat × Val} (h : e ∈ dinsert k v m) :
    e = (k, v) ∨ e ∈ m := by
  induction m with
  | nil => simp [dinsert] at h; exact Or.inl h
  | cons e' r ih =>
    obtain ⟨k', v'⟩ := e'
    unfold dinsert at h
    split at h
    · simp at h; rcases h with h | h | h <;> simp [h]
    · split at h
      · simp at h; rcases h with h | h <;> simp [h]
      · simp at h
        rcases h with h | h
        · simp [h]
        · rcases ih h with h | h <;> simp [h]

theorem sorted_dinsert {k : Nat} {v : Val} {m : Dict} (h : Sorted m) : Sorted (dinsert k v m) := by
  induction m with
  | nil => simp [dinsert, Sorted]
  | cons e r ih =>
    obtain ⟨k', v'⟩ := e
    have h' := sorted_cons.mp h
    unfold dinsert
    split
    · rename_i hlt
      rw [sorted_cons]
      refine ⟨?_, h⟩
      intro e he
      simp at he
      rcases he with he | he
      · simp [he]; exact hlt
      · have := h'.1 e he; omega
    · split
      · rename_i h1 h2
        subst h2
        rw [sorted_cons]; exact h'
      · rename_i h1 h2
        rw [sorted_cons]
        refine ⟨?_, ih h'.2⟩
        intro e he
        rcases mem_dinsert he with he | he
        · simp [he]; omega
        · exact h'.1 e he

theorem sorted_dupdate {a : Dict} (b : Dict) (h : Sorted a) : Sorted (dupdate a b) := by
  induction b generalizing a with
  | nil => exact h
  | cons e r ih =>
    obtain ⟨k, v⟩ := e
    exact ih (sorted_dinsert h)

theorem dlookup_dupdate {a b : Dict} (hb : Sorted b) (q : Nat) :
    dlookup (dupdate a b) q = (dlookup b q).or (dlookup a q) := by
  induction b generalizing a with
  | nil => simp [dupdate, dlookup]
  | cons e r ih =>
    obtain ⟨k, v⟩ := e
    have h' := sorted_cons.mp hb
    simp only [dupdate]
    rw [ih h'.2, dlookup_dinsert]
    by_cases hq : q = k
    · subst hq
      have : dlookup r q = none := dlookup_tail_none hb (Nat.le_refl _)
      simp [this, dlookup]
    · simp [hq, dlookup]

theorem dict_ext {a b : Dict} (ha : Sorted a) (hb : Sorted b) (h : ∀ q, dlookup a q = dlookup b q) : a = b := by
  induction a generalizing b with
  | nil =>
    cases b with
    | nil => rfl
    | cons e r =>
      obtain ⟨k, v⟩ := e
      have := h k
      simp [dlookup] at this
  | cons e r ih =>
    obtain ⟨k1, v1⟩ := e
    cases b with
    | nil =>
      have := h k1
      simp [dlookup] at this
    | cons e2 r2 =>
      obtain ⟨k2, v2⟩ := e2
      have hk : k1 = k2 := by
        rcases Nat.lt_trichotomy k1 k2 with hlt | heq | hgt
        · have h1 := h k1
          have : k1 ≠ k2 := by omega
          simp only [dlookup, if_true, this, if_false] at h1
          rw [dlookup_tail_none hb (by omega)] at h1
          cases h1
        · exact heq
        · have h1 := h k2
          have : k2 ≠ k1 := by omega
          simp only [dlookup, if_true, this, if_false] at h1
          rw [dlookup_tail_none ha (by omega)] at h1
          cases h1
      subst hk
      have hv : v1 = v2 := by
        have h1 := h k1
        simp [dlookup] at h1
        exact h1
      subst hv
      have : r = r2 := by
        apply ih (sorted_cons.mp ha).2 (sorted_cons.mp hb).2
        intro q
        by_cases hq : q = k1
        · subst hq
          rw [dlookup_tail_none ha (Nat.le_refl _), dlookup_tail_none hb (Nat.le_refl _)]
        · have h1 := h q
          simpa [dlookup, hq] using h1
      rw [this]

theorem dlookup_of_mem {m : Dict} (h : Sorted m) {k : Nat} {v : Val} (hm : (k, v) ∈ m) : dlookup m k = some v := by
  induction m with
  | nil => cases hm
  | cons e r ih =>
    obtain ⟨k', v'⟩ := e
    simp at hm
    rcases hm with ⟨h1, h2⟩ | hm
    · subst h1; subst h2; simp [dlookup]
    · have h' := sorted_cons.mp h
      have : k' < k := h'.1 (k, v) hm
      have hne : k ≠ k' := by omega
      simp only [dlookup, hne, if_false]
      exact ih h'.2 hm

theorem mem_of_dlookup {m : Dict} {k : Nat} {v : Val} (h : dlookup m k = some v) : (k, v) ∈ m := by
  induction m with
  | nil => cases h
  | cons e r ih =>
    obtain ⟨k', v'⟩ := e
    simp only [dlookup] at h
    split at h
    · rename_i hk; subst hk; cases h; simp
    · simp [ih h]

end Btc.C11
