import Model.C11.Wire
import Proofs.C11.Roles
/-! The version 0 wire form keeps the transaction; parse ∘ serialize and to_v0 ∘ to_v2 are the identity on
psbts shaped as a version 0 psbt is. -/
namespace Btc.C11

/-- TABLE OBLIGATION (version 0 wire form, i.e. about the SOURCE): the fields the model's `readV0` fills from the
    transaction are exactly the generated ones (`_read_tx_in`, `_read_tx_out`, `_settle_globals`); they are
    version-2-only and read by the identifier; and EVERY version-2-only field is either one of them or one
    `assert_valid` refuses in a version 0 psbt — so a valid version 0 psbt loses nothing when its maps are written
    without the BIP370 fields.  A version-2-only field added to a map and neither folded into the transaction nor
    refused breaks this. -/
def wireTableCheck : Bool :=
  Gen.Combine.globV0Tx == ["fallback_lock_time", "tx_version"]
  && Gen.Combine.inV0Tx == ["output_index", "previous_tx_id", "sequence"]
  && Gen.Combine.outV0Tx == ["amount", "script_pub_key"]
  && Gen.Combine.globV0Tx.all (Gen.Combine.globIdReads.contains ·)
  && Gen.Combine.inV0Tx.all (Gen.Combine.inIdReads.contains ·)
  && Gen.Combine.outV0Tx.all (Gen.Combine.outIdReads.contains ·)
  && Gen.Combine.globFields.all (fun f => !f.v2only || Gen.Combine.globV0Tx.contains f.name || Gen.Combine.globV0Refused.contains f.name)
  && Gen.Combine.inFields.all (fun f => !f.v2only || Gen.Combine.inV0Tx.contains f.name || Gen.Combine.inV0Refused.contains f.name)
  && Gen.Combine.outFields.all (fun f => !f.v2only || Gen.Combine.outV0Tx.contains f.name || Gen.Combine.outV0Refused.contains f.name)
  && Gen.Combine.globV0Tx.all (fun n => Gen.Combine.globFields.any fun f => f.name == n && f.v2only)
  && Gen.Combine.inV0Tx.all (fun n => Gen.Combine.inFields.any fun f => f.name == n && f.v2only)
  && Gen.Combine.outV0Tx.all (fun n => Gen.Combine.outFields.any fun f => f.name == n && f.v2only)
  -- what `to_v0` stores to is the fallback, the version, and fields version 0 refuses
  && Gen.Combine.v0InWrites.all (Gen.Combine.inV0Refused.contains ·)
  && Gen.Combine.v0GlobWrites.all (fun n => n == "version" || n == "fallback_lock_time" || Gen.Combine.globV0Refused.contains n)

theorem v2Only_in (i : Nat) (n : String) (h : (Gen.Combine.inFields.any fun f => f.name == n && f.v2only) = true) :
    v2Only ⟨.inp, i, n⟩ = true := h
theorem v2Only_out (i : Nat) (n : String) (h : (Gen.Combine.outFields.any fun f => f.name == n && f.v2only) = true) :
    v2Only ⟨.out, i, n⟩ = true := h
theorem v2Only_glob (i : Nat) (n : String) (h : (Gen.Combine.globFields.any fun f => f.name == n && f.v2only) = true) :
    v2Only ⟨.glob, i, n⟩ = true := h

theorem v2_prev (i : Nat) : v2Only ⟨.inp, i, "previous_tx_id"⟩ = true := v2Only_in i _ (by decide)
theorem v2_oidx (i : Nat) : v2Only ⟨.inp, i, "output_index"⟩ = true := v2Only_in i _ (by decide)
theorem v2_seq (i : Nat) : v2Only ⟨.inp, i, "sequence"⟩ = true := v2Only_in i _ (by decide)
theorem v2_rh (i : Nat) : v2Only ⟨.inp, i, "required_height_lock_time"⟩ = true := v2Only_in i _ (by decide)
theorem v2_rt (i : Nat) : v2Only ⟨.inp, i, "required_time_lock_time"⟩ = true := v2Only_in i _ (by decide)
theorem v2_amount (i : Nat) : v2Only ⟨.out, i, "amount"⟩ = true := v2Only_out i _ (by decide)
theorem v2_spk (i : Nat) : v2Only ⟨.out, i, "script_pub_key"⟩ = true := v2Only_out i _ (by decide)
theorem v2_info (i : Nat) : v2Only ⟨.out, i, "sp_v0_info"⟩ = true := v2Only_out i _ (by decide)
theorem v2_txv (i : Nat) : v2Only ⟨.glob, i, "tx_version"⟩ = true := v2Only_glob i _ (by decide)
theorem v2_fb (i : Nat) : v2Only ⟨.glob, i, "fallback_lock_time"⟩ = true := v2Only_glob i _ (by decide)

theorem dflt_in (i : Nat) (n : String) : dfltSlot ⟨.inp, i, n⟩ = dfltSlot ⟨.inp, 0, n⟩ := rfl
theorem dflt_out (i : Nat) (n : String) : dfltSlot ⟨.out, i, n⟩ = dfltSlot ⟨.out, 0, n⟩ := rfl

theorem readV0_in (w : WireV0) {i : Nat} (hi : i < w.tx.vin.length) :
    (readV0 w).slot ⟨.inp, i, "previous_tx_id"⟩ = (w.tx.vin[i]).1 ∧
    (readV0 w).slot ⟨.inp, i, "output_index"⟩ = intSlot (w.tx.vin[i]).2.1 ∧
    (readV0 w).slot ⟨.inp, i, "sequence"⟩ = intSlot (w.tx.vin[i]).2.2 ∧
    (readV0 w).slot ⟨.inp, i, "required_height_lock_time"⟩ = .scalar none ∧
    (readV0 w).slot ⟨.inp, i, "required_time_lock_time"⟩ = .scalar none := by
  have d1 : dfltSlot ⟨.inp, 0, "required_height_lock_time"⟩ = .scalar none := by decide
  have d2 : dfltSlot ⟨.inp, 0, "required_time_lock_time"⟩ = .scalar none := by decide
  refine ⟨?_, ?_, ?_, ?_, ?_⟩ <;>
    simp [readV0, v2_prev, v2_oidx, v2_seq, v2_rh, v2_rt, List.getElem?_eq_getElem hi, dflt_in i, d1, d2]

theorem readV0_in_none (w : WireV0) (i : Nat) :
    (readV0 w).slot ⟨.inp, i, "required_height_lock_time"⟩ = .scalar none ∧
    (readV0 w).slot ⟨.inp, i, "required_time_lock_time"⟩ = .scalar none := by
  have d1 : dfltSlot ⟨.inp, 0, "required_height_lock_time"⟩ = .scalar none := by decide
  have d2 : dfltSlot ⟨.inp, 0, "required_time_lock_time"⟩ = .scalar none := by decide
  constructor <;>
  · simp only [readV0, v2_rh, v2_rt, Bool.not_true, Bool.false_eq_true, if_false]
    cases w.tx.vin[i]? <;> simp [dflt_in i, d1, d2]

theorem readV0_out (w : WireV0) {i : Nat} (hi : i < w.tx.vout.length) :
    (readV0 w).slot ⟨.out, i, "amount"⟩ = intSlot (w.tx.vout[i]).1 ∧
    (readV0 w).slot ⟨.out, i, "script_pub_key"⟩ = .scalar (some (.bytes (w.tx.vout[i]).2)) ∧
    (readV0 w).slot ⟨.out, i, "sp_v0_info"⟩ = .scalar (some (.bytes [])) := by
  have d1 : dfltSlot ⟨.out, 0, "sp_v0_info"⟩ = .scalar (some (.bytes [])) := by decide
  refine ⟨?_, ?_, ?_⟩ <;>
    simp [readV0, v2_amount, v2_spk, v2_info, List.getElem?_eq_getElem hi, dflt_out i, d1]

theorem readV0_glob (w : WireV0) :
    (readV0 w).slot ⟨.glob, 0, "tx_version"⟩ = w.tx.txVersion ∧
    (readV0 w).slot ⟨.glob, 0, "fallback_lock_time"⟩ = intSlot w.tx.lockTime := by
  constructor <;> simp [readV0, v2_txv, v2_fb]

theorem lockTime_readV0 (w : WireV0) : lockTime (readV0 w) = .ok w.tx.lockTime := by
  unfold lockTime lockTimeOf requiredOf
  simp only
  rw [filter_const_none _ _ (fun i => by rw [(readV0_in_none w i).1, (readV0_in_none w i).2]; rfl)]
  simp [(readV0_glob w).2, intSlot, Slot.int?]

/-- parse: whatever transaction the wire carries IS the unsigned transaction of the psbt read from it. -/
theorem readV0_tx (w : WireV0) : unsignedTx (readV0 w) false = .ok w.tx := by
  unfold unsignedTx
  rw [lockTime_readV0]
  simp only [(readV0_glob w).1]
  have hin : (List.range (readV0 w).nIn).map (txIn (readV0 w) false) = w.tx.vin := by
    apply List.ext_getElem
    · simp [readV0]
    · intro i h1 h2
      simp only [List.getElem_map, List.getElem_range]
      obtain ⟨a, b, c, _, _⟩ := readV0_in w h2
      simp [txIn, a, b, c, intSlot, Slot.int?]
  have hout : (List.range (readV0 w).nOut).map (txOut (readV0 w) false) = w.tx.vout := by
    apply List.ext_getElem
    · simp [readV0]
    · intro i h1 h2
      simp only [List.getElem_map, List.getElem_range]
      obtain ⟨a, b, _⟩ := readV0_out w h2
      simp [txOut, a, b, intSlot, Slot.int?, Slot.bytesD]
  rw [hin, hout]

theorem writeV0_tx {p : Psbt} {w : WireV0} (h : writeV0 p = .ok w) : unsignedTx p false = .ok w.tx := by
  unfold writeV0 at h
  split at h
  · cases h
  · rename_i tx htx; cases h; exact htx

theorem utx_fields {p : Psbt} {b : Bool} {u : UTx} (h : unsignedTx p b = .ok u) :
    u.txVersion = p.slot ⟨.glob, 0, "tx_version"⟩ ∧ lockTime p = .ok u.lockTime ∧
    u.vin = (List.range p.nIn).map (txIn p b) ∧ u.vout = (List.range p.nOut).map (txOut p b) := by
  unfold unsignedTx at h
  split at h
  · cases h
  · rename_i lt hlt; cases h; exact ⟨rfl, hlt, rfl, rfl⟩

/-- the identifier's transaction survives the wire too, for a psbt with no silent-payment output (which version 0
    refuses): serialize as version 0, parse, and `unique_id`'s transaction is the one it was. -/
theorem wire_ident {p : Psbt} {w : WireV0} (h : writeV0 p = .ok w)
    (hsp : ∀ i, i < p.nOut → (p.slot ⟨.out, i, "sp_v0_info"⟩).falsy = true) :
    unsignedTx (readV0 w) true = unsignedTx p true := by
  obtain ⟨hv, hl, hvin, hvout⟩ := utx_fields (writeV0_tx h)
  have hnin : (readV0 w).nIn = p.nIn := by simp [readV0, hvin]
  have hnout : (readV0 w).nOut = p.nOut := by simp [readV0, hvout]
  unfold unsignedTx
  rw [lockTime_readV0, hl]
  simp only [(readV0_glob w).1, hv, hnin, hnout]
  congr 2
  · apply List.map_congr_left
    intro i hi
    have hi' : i < w.tx.vin.length := by rw [hvin]; simpa using hi
    obtain ⟨a, b, _, _, _⟩ := readV0_in w hi'
    have e : w.tx.vin[i] = txIn p false i := by simp [hvin]
    simp [txIn, a, b, e, intSlot, Slot.int?]
  · apply List.map_congr_left
    intro i hi
    have hi' : i < w.tx.vout.length := by rw [hvout]; simpa using hi
    obtain ⟨a, b, c⟩ := readV0_out w hi'
    have e : w.tx.vout[i] = txOut p false i := by simp [hvout]
    have hf := hsp i (by simpa using hi)
    have hc : (Slot.scalar (some (Val.bytes []))).falsy = true := rfl
    simp [txOut, a, b, c, e, hc, hf, intSlot, Slot.int?, Slot.bytesD]

/-- the same psbt, as far as its own maps go (a `Psbt` of the model also answers for locations outside them) -/
structure Same (a b : Psbt) : Prop where
  ver : a.version = b.version
  nin : a.nIn = b.nIn
  nout : a.nOut = b.nOut
  slots : ∀ l, InRange b l → a.slot l = b.slot l

/-- shaped as `Psbt.parse` / `Psbt.from_tx` leave a version 0 psbt: the transaction's fields hold values (the
    sequence and the lock time always — `_read_tx_in`, `_settle_globals`), every other version-2-only field holds
    its default (`assert_valid` refuses anything else in version 0: `wireTableCheck`). -/
structure V0Shaped (p : Psbt) : Prop where
  ver : p.version = Gen.Combine.PSBT_V0
  fallback : ∃ n, p.slot fallbackLoc = intSlot n
  oidx : ∀ i, i < p.nIn → ∃ n, p.slot ⟨.inp, i, "output_index"⟩ = intSlot n
  seq : ∀ i, i < p.nIn → ∃ n, p.slot ⟨.inp, i, "sequence"⟩ = intSlot n
  amount : ∀ i, i < p.nOut → ∃ n, p.slot ⟨.out, i, "amount"⟩ = intSlot n
  spk : ∀ i, i < p.nOut → ∃ b, p.slot ⟨.out, i, "script_pub_key"⟩ = .scalar (some (.bytes b))
  rest : ∀ l, InRange p l → v2Only l = true → txField l = false → p.slot l = dfltSlot l

theorem V0Shaped.required {p : Psbt} (h : V0Shaped p) (i : Nat) (hi : i < p.nIn) :
    p.slot ⟨.inp, i, "required_height_lock_time"⟩ = .scalar none ∧
    p.slot ⟨.inp, i, "required_time_lock_time"⟩ = .scalar none := by
  have d1 : dfltSlot ⟨.inp, 0, "required_height_lock_time"⟩ = .scalar none := by decide
  have d2 : dfltSlot ⟨.inp, 0, "required_time_lock_time"⟩ = .scalar none := by decide
  exact ⟨by rw [h.rest ⟨.inp, i, "required_height_lock_time"⟩ hi (v2_rh i) rfl, dflt_in, d1],
    by rw [h.rest ⟨.inp, i, "required_time_lock_time"⟩ hi (v2_rt i) rfl, dflt_in, d2]⟩

theorem V0Shaped.lock {p : Psbt} (h : V0Shaped p) {n : Int} (hn : p.slot fallbackLoc = intSlot n) :
    lockTime p = .ok n := by
  unfold lockTime lockTimeOf requiredOf
  simp only
  have : (List.range p.nIn).map (fun i => ((p.slot ⟨.inp, i, "required_height_lock_time"⟩).int?,
      (p.slot ⟨.inp, i, "required_time_lock_time"⟩).int?)) = (List.range p.nIn).map (fun _ => (none, none)) := by
    apply List.map_congr_left
    intro i hi
    rw [(h.required i (List.mem_range.mp hi)).1, (h.required i (List.mem_range.mp hi)).2]; rfl
  rw [this, filter_const_none _ _ (fun _ => rfl)]
  have hn' : p.slot ⟨.glob, 0, "fallback_lock_time"⟩ = intSlot n := hn
  simp [hn', intSlot, Slot.int?]

/-- parse ∘ serialize, as version 0, is the identity on a psbt shaped as a version 0 psbt is. -/
theorem wire_roundtrip {p : Psbt} (hp : V0Shaped p) {w : WireV0} (h : writeV0 p = .ok w) : Same (readV0 w) p := by
  obtain ⟨hv, hl, hvin, hvout⟩ := utx_fields (writeV0_tx h)
  have hw : ∀ l, w.slot l = if v2Only l then .scalar none else p.slot l := by
    unfold writeV0 at h
    split at h
    · cases h
    · cases h; intro l; rfl
  obtain ⟨n, hn⟩ := hp.fallback
  have hlt : w.tx.lockTime = n := by
    have := hp.lock hn
    rw [hl] at this; cases this; rfl
  refine ⟨hp.ver.symm, by simp [readV0, hvin], by simp [readV0, hvout], ?_⟩
  intro l hr
  cases hv2 : v2Only l with
  | false => simp [readV0, hv2, hw l]
  | true =>
    obtain ⟨sec, idx, name⟩ := l
    cases sec with
    | glob =>
      have hidx : idx = 0 := hr
      subst hidx
      by_cases h1 : name = "tx_version"
      · subst h1; rw [(readV0_glob w).1, hv]
      · by_cases h2 : name = "fallback_lock_time"
        · subst h2; rw [(readV0_glob w).2, hlt]; exact hn.symm
        · have htf : txField ⟨.glob, 0, name⟩ = false := by simp [txField, h1, h2]
          simp [readV0, hv2, h1, h2, hp.rest _ hr hv2 htf]
    | inp =>
      have hi : idx < p.nIn := hr
      have hi' : idx < w.tx.vin.length := by rw [hvin]; simpa using hi
      have e : w.tx.vin[idx] = txIn p false idx := by simp [hvin]
      obtain ⟨a, b, c, _, _⟩ := readV0_in w hi'
      by_cases h1 : name = "previous_tx_id"
      · subst h1; rw [a, e]; rfl
      · by_cases h2 : name = "output_index"
        · subst h2; obtain ⟨m, hm⟩ := hp.oidx idx hi
          rw [b, e, hm]; simp [txIn, hm, intSlot, Slot.int?]
        · by_cases h3 : name = "sequence"
          · subst h3; obtain ⟨m, hm⟩ := hp.seq idx hi
            rw [c, e, hm]; simp [txIn, hm, intSlot, Slot.int?]
          · have htf : txField ⟨.inp, idx, name⟩ = false := by simp [txField, h1, h2, h3]
            simp [readV0, hv2, h1, h2, h3, List.getElem?_eq_getElem hi', hp.rest _ hr hv2 htf]
    | out =>
      have hi : idx < p.nOut := hr
      have hi' : idx < w.tx.vout.length := by rw [hvout]; simpa using hi
      have e : w.tx.vout[idx] = txOut p false idx := by simp [hvout]
      obtain ⟨a, b, _⟩ := readV0_out w hi'
      by_cases h1 : name = "amount"
      · subst h1; obtain ⟨m, hm⟩ := hp.amount idx hi
        rw [a, e, hm]; simp [txOut, hm, intSlot, Slot.int?]
      · by_cases h2 : name = "script_pub_key"
        · subst h2; obtain ⟨m, hm⟩ := hp.spk idx hi
          rw [b, e, hm]; simp [txOut, hm, Slot.bytesD]
        · have htf : txField ⟨.out, idx, name⟩ = false := by simp [txField, h1, h2]
          simp [readV0, hv2, h1, h2, List.getElem?_eq_getElem hi', hp.rest _ hr hv2 htf]

/-- `to_v0 ∘ to_v2` is the identity on a psbt shaped as a version 0 psbt is. -/
theorem toV0_toV2 {p : Psbt} (hp : V0Shaped p) : ∃ q, toV0 (toV2 p) = .ok q ∧ Same q p := by
  obtain ⟨n, hn⟩ := hp.fallback
  have hl : lockTime (toV2 p) = .ok n := hp.lock hn
  refine ⟨{ toV2 p with version := Gen.Combine.PSBT_V0, slot := v0Slot (toV2 p) n }, by unfold toV0; rw [hl],
    ⟨hp.ver.symm, rfl, rfl, ?_⟩⟩
  intro l hr
  show v0Slot (toV2 p) n l = p.slot l
  unfold v0Slot
  by_cases h1 : l = fallbackLoc
  · rw [if_pos h1, h1]; exact hn.symm
  · rw [if_neg h1]
    by_cases h2 : l = modLoc
    · rw [if_pos h2, h2]
      have d : dfltSlot modLoc = .scalar none := by decide
      rw [hp.rest modLoc rfl (by decide) (by decide), d]
    · rw [if_neg h2]
      cases h3 : isRequiredLock l with
      | false => simp [toV2]
      | true =>
        obtain ⟨sec, idx, name⟩ := l
        simp only [isRequiredLock, Bool.and_eq_true, Bool.or_eq_true, beq_iff_eq] at h3
        obtain ⟨hs, hname⟩ := h3
        subst hs
        have hi : idx < p.nIn := hr
        rcases hname with rfl | rfl
        · simp [(hp.required idx hi).2]
        · simp [(hp.required idx hi).1]

/-! a concrete psbt shaped as `parse` leaves a version 0 psbt (non-vacuity of `V0Shaped`) -/
def exV0 : Psbt :=
  ⟨0, 1, 1, fun l =>
    if txField l then
      (if l.name = "previous_tx_id" then .scalar (some (.bytes [1]))
       else if l.name = "script_pub_key" then .scalar (some (.bytes [0x51]))
       else intSlot 7)
    else dfltSlot l⟩

theorem exV0_shaped : V0Shaped exV0 := by
  refine ⟨rfl, ⟨7, rfl⟩, fun i _ => ⟨7, rfl⟩, fun i _ => ⟨7, rfl⟩, fun i _ => ⟨7, rfl⟩, fun i _ => ⟨[0x51], rfl⟩, ?_⟩
  intro l _ _ ht
  simp [exV0, ht]

end Btc.C11
