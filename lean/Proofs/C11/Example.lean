import Proofs.C11.Combine
/-! Concrete operands: two signers' copies of one version 2 psbt, and the three psbts whose combine is
accepted at once and refused half way (finding combine.locktime-partition.grouping). -/
namespace Btc.C11

def dflt (l : Loc) : Slot :=
  match specAt l with
  | some f => (match f.kind with | .dict => .dict [] | .scalar => .scalar none)
  | none => .scalar none

def sigLoc : Loc := ⟨.inp, 0, "partial_sigs"⟩

def exA : Psbt := ⟨2, 1, 0, fun l => if l = sigLoc then .dict [(1, .bytes [1])] else dflt l⟩
def exB : Psbt := ⟨2, 1, 0, fun l => if l = sigLoc then .dict [(2, .bytes [2])] else dflt l⟩

theorem canon_dflt (l : Loc) : Canon (dflt l) := by
  unfold dflt
  split
  · split
    · exact sorted_nil
    · trivial
  · trivial

theorem kinded_dflt (l : Loc) (f : FieldSpec) (h : specAt l = some f) : kindOf (dflt l) = f.kind := by
  unfold dflt
  rw [h]
  cases hk : f.kind <;> simp [hk, kindOf]

theorem specAt_sigLoc : specAt sigLoc = some ⟨"partial_sigs", .dict, .truthy, false⟩ := by decide

theorem operand_ex (k : Nat) (b : Bytes) :
    Operand ⟨2, 1, 0, fun l => if l = sigLoc then .dict [(k, .bytes b)] else dflt l⟩ := by
  constructor
  · intro l
    by_cases h : l = sigLoc
    · simp only [h, if_true]; simp [Canon, Sorted]
    · simp only [h, if_false]; exact canon_dflt l
  · intro l f hf
    by_cases h : l = sigLoc
    · subst h
      rw [specAt_sigLoc] at hf
      cases hf
      simp [kindOf]
    · simp only [h, if_false]; exact kinded_dflt l f hf

theorem compat_self (t : Bool) (s : Slot) : Compat t s s := by
  intro k v w h1 h2; rw [h1] at h2; cases h2; rfl

theorem compat_ex (t : Bool) : Compat t (.dict [(1, .bytes [1])]) (.dict [(2, .bytes [2])]) := by
  intro k v w h1 h2
  simp only [den_dict, dlookup] at h1 h2
  split at h1 <;> split at h2 <;> simp_all

theorem example_compatible : Compatible [exA, exB] := by
  have hr : ruleAt sigLoc = some .truthy := by decide
  refine ⟨?_, ?_, ?_⟩
  · intro p hp
    simp at hp
    rcases hp with rfl | rfl
    · exact operand_ex 1 [1]
    · exact operand_ex 2 [2]
  · intro l a ha b hb
    simp at ha hb
    by_cases h : l = sigLoc
    · rcases ha with rfl | rfl <;> rcases hb with rfl | rfl <;> simp only [exA, exB, h, if_true]
      · exact compat_self _ _
      · exact compat_ex _
      · exact compat_symm (compat_ex _)
      · exact compat_self _ _
    · rcases ha with rfl | rfl <;> rcases hb with rfl | rfl <;> simp only [exA, exB, h, if_false] <;>
        exact compat_self _ _
  · intro l _ hn a ha b hb
    have h : l ≠ sigLoc := by intro c; rw [c, hr] at hn; cases hn
    simp at ha hb
    rcases ha with rfl | rfl <;> rcases hb with rfl | rfl <;> simp [exA, exB, h]

/-! the three psbts of one transaction (lock time T) of the finding -/
def lockT : Int := 1700000000

def lockPsbt (req : List (Option Int × Option Int)) : Psbt :=
  ⟨2, 3, 0, fun l =>
    if l.sec = .inp ∧ l.name = "required_height_lock_time" then .scalar ((req[l.idx]?.bind (·.1)).map .int)
    else if l.sec = .inp ∧ l.name = "required_time_lock_time" then .scalar ((req[l.idx]?.bind (·.2)).map .int)
    else .scalar none⟩

def lkA := lockPsbt [(some 50, some lockT), (none, some lockT), (none, none)]
def lkB := lockPsbt [(none, some lockT), (some 50, some lockT), (none, none)]
def lkC := lockPsbt [(none, some lockT), (none, some lockT), (none, some lockT)]

end Btc.C11
