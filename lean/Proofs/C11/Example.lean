import Proofs.C11.Combine
/-! Concrete operands: two signers' copies of one version 2 psbt, and the three psbts whose combine is
accepted at once and refused half way (finding combine.locktime-partition.grouping). -/
namespace Btc.C11

def dflt (l : Loc) : Slot :=
  match specAt l with
  | some f => (match f.kind with | .dict => .dict [] | .scalar => .scalar none)
  | none => .scalar none

def sigLoc : Loc := ⟨.inp, 0, "partial_sigs"⟩

def exA : Psbt := ⟨2, 1, 0, fun l => if l = sigLoc then .dict [(1, .bytes [1])] else dflt l⟩
def exB : Psbt := ⟨2, 1, 0, fun l => if l = sigLoc then .dict [(2, .bytes [2])] else dflt l⟩
/-- exA's copy with exB's signature added: a signer's answer to the request exA -/
def exAB : Psbt := ⟨2, 1, 0, fun l => if l = sigLoc then .dict [(1, .bytes [1]), (2, .bytes [2])] else dflt l⟩

theorem canon_dflt (l : Loc) : Canon (dflt l) := by
  unfold dflt
  split
  · split
    · exact sorted_nil
    · trivial
  · trivial

theorem kinded_dflt (l : Loc) (f : FieldSpec) (h : specAt l = some f) : kindOf (dflt l) = f.kind := by
  unfold dflt
  rw [h]
  cases hk : f.kind <;> simp [hk, kindOf]

theorem specAt_sigLoc : specAt sigLoc = some ⟨"partial_sigs", .dict, .truthy, false⟩ := by decide

theorem operand_ex (k : Nat) (b : Bytes) :
    Operand ⟨2, 1, 0, fun l => if l = sigLoc then .dict [(k, .bytes b)] else dflt l⟩ := by
  constructor
  · intro l
    by_cases h : l = sigLoc
    · simp only [h, if_true]; simp [Canon, Sorted]
    · simp only [h, if_false]; exact canon_dflt l
  · intro l f hf
    by_cases h : l = sigLoc
    · subst h
      rw [specAt_sigLoc] at hf
      cases hf
      simp [kindOf]
    · simp only [h, if_false]; exact kinded_dflt l f hf

theorem compat_self (t : Bool) (s : Slot) : Compat t s s := by
  intro k v w h1 h2; rw [h1] at h2; cases h2; rfl

theorem compat_ex (t : Bool) : Compat t (.dict [(1, .bytes [1])]) (.dict [(2, .bytes [2])]) := by
  intro k v w h1 h2
  simp only [den_dict, dlookup] at h1 h2
  split at h1 <;> split at h2 <;> simp_all

theorem example_compatible : Compatible [exA, exB] := by
  have hr : ruleAt sigLoc = some .truthy := by decide
  refine ⟨?_, ?_, ?_⟩
  · intro p hp
    simp at hp
    rcases hp with rfl | rfl
    · exact operand_ex 1 [1]
    · exact operand_ex 2 [2]
  · intro l a ha b hb
    simp at ha hb
    by_cases h : l = sigLoc
    · rcases ha with rfl | rfl <;> rcases hb with rfl | rfl <;> simp only [exA, exB, h, if_true]
      · exact compat_self _ _
      · exact compat_ex _
      · exact compat_symm (compat_ex _)
      · exact compat_self _ _
    · rcases ha with rfl | rfl <;> rcases hb with rfl | rfl <;> simp only [exA, exB, h, if_false] <;>
        exact compat_self _ _
  · intro l _ hn a ha b hb
    have h : l ≠ sigLoc := by intro c; rw [c, hr] at hn; cases hn
    simp at ha hb
    rcases ha with rfl | rfl <;> rcases hb with rfl | rfl <;> simp [exA, exB, h]

/-! the three psbts of one transaction (lock time T) of finding combine.locktime-partition.grouping:
well-kinded (every other field holds its dataclass default) and `Compatible` -/
def lockT : Int := 1700000000

def heightLoc (l : Loc) : Bool := l.sec == .inp && l.name == "required_height_lock_time"
def timeLoc (l : Loc) : Bool := l.sec == .inp && l.name == "required_time_lock_time"

def lockSlot (req : List (Option Int × Option Int)) (l : Loc) : Slot :=
  if heightLoc l then .scalar ((req[l.idx]?.bind (·.1)).map .int)
  else if timeLoc l then .scalar ((req[l.idx]?.bind (·.2)).map .int)
  else dflt l

def lockPsbt (req : List (Option Int × Option Int)) : Psbt := ⟨2, 3, 0, lockSlot req⟩

def lkA := lockPsbt [(some 50, some lockT), (none, some lockT), (none, none)]
def lkB := lockPsbt [(none, some lockT), (some 50, some lockT), (none, none)]
def lkC := lockPsbt [(none, some lockT), (none, some lockT), (none, some lockT)]

def fieldOK (a b : Option Int) : Bool := a.isNone || b.isNone || a == b

/-- two requirement lists never state two different values for one input -/
def reqOK (r1 r2 : List (Option Int × Option Int)) : Bool :=
  (List.range (max r1.length r2.length)).all fun i =>
    fieldOK (r1[i]?.bind (·.1)) (r2[i]?.bind (·.1)) && fieldOK (r1[i]?.bind (·.2)) (r2[i]?.bind (·.2))

theorem compat_scalar {t : Bool} {a b : Option Val} (h : a = none ∨ b = none ∨ a = b) :
    Compat t (.scalar a) (.scalar b) := by
  rcases h with h | h | h
  · subst h; intro k v w h1; simp [den, norm] at h1
  · subst h; intro k v w _ h2; simp [den, norm] at h2
  · subst h; exact compat_self _ _

theorem fieldOK_map {a b : Option Int} (h : fieldOK a b = true) :
    a.map Val.int = none ∨ b.map Val.int = none ∨ a.map Val.int = b.map Val.int := by
  cases a <;> cases b <;> simp_all [fieldOK]

theorem reqOK_at {r1 r2 : List (Option Int × Option Int)} (h : reqOK r1 r2 = true) (i : Nat) :
    fieldOK (r1[i]?.bind (·.1)) (r2[i]?.bind (·.1)) = true ∧ fieldOK (r1[i]?.bind (·.2)) (r2[i]?.bind (·.2)) = true := by
  by_cases hi : i < max r1.length r2.length
  · have := List.all_eq_true.mp h i (List.mem_range.mpr hi)
    simpa using this
  · have h1 : r1[i]? = none := List.getElem?_eq_none (by omega)
    have h2 : r2[i]? = none := List.getElem?_eq_none (by omega)
    simp [h1, h2, fieldOK]

theorem lockSlot_compat {r1 r2 : List (Option Int × Option Int)} (h : reqOK r1 r2 = true) (t : Bool) (l : Loc) :
    Compat t (lockSlot r1 l) (lockSlot r2 l) := by
  unfold lockSlot
  split
  · exact compat_scalar (fieldOK_map (reqOK_at h l.idx).1)
  · split
    · exact compat_scalar (fieldOK_map (reqOK_at h l.idx).2)
    · exact compat_self _ _

theorem specAt_height (l : Loc) (h : heightLoc l = true) :
    specAt l = some ⟨"required_height_lock_time", .scalar, .notNone, true⟩ := by
  obtain ⟨s, i, n⟩ := l
  simp [heightLoc] at h
  obtain ⟨hs, hn⟩ := h
  subst hs; subst hn
  show lookupField (fieldsOf .inp) "required_height_lock_time" = _
  decide

theorem specAt_time (l : Loc) (h : timeLoc l = true) :
    specAt l = some ⟨"required_time_lock_time", .scalar, .notNone, true⟩ := by
  obtain ⟨s, i, n⟩ := l
  simp [timeLoc] at h
  obtain ⟨hs, hn⟩ := h
  subst hs; subst hn
  show lookupField (fieldsOf .inp) "required_time_lock_time" = _
  decide

theorem ruleAt_lock (l : Loc) (h : heightLoc l = true ∨ timeLoc l = true) : ruleAt l = some .notNone := by
  obtain ⟨s, i, n⟩ := l
  rcases h with h | h
  · simp [heightLoc] at h; obtain ⟨hs, hn⟩ := h; subst hs; subst hn
    show lookupRule (callsOf .inp) "required_height_lock_time" = _; decide
  · simp [timeLoc] at h; obtain ⟨hs, hn⟩ := h; subst hs; subst hn
    show lookupRule (callsOf .inp) "required_time_lock_time" = _; decide

theorem operand_lock (req : List (Option Int × Option Int)) : Operand (lockPsbt req) := by
  constructor
  · intro l
    show Canon (lockSlot req l)
    unfold lockSlot
    split
    · trivial
    · split
      · trivial
      · exact canon_dflt l
  · intro l f hf
    show kindOf (lockSlot req l) = f.kind
    unfold lockSlot
    split
    · rename_i h; rw [specAt_height l h] at hf; cases hf; rfl
    · split
      · rename_i h; rw [specAt_time l h] at hf; cases hf; rfl
      · exact kinded_dflt l f hf

theorem lock_compatible : Compatible [lkA, lkB, lkC] := by
  refine ⟨?_, ?_, ?_⟩
  · intro p hp
    simp at hp
    rcases hp with rfl | rfl | rfl <;> exact operand_lock _
  · intro l a ha b hb
    simp at ha hb
    rcases ha with rfl | rfl | rfl <;> rcases hb with rfl | rfl | rfl <;>
      exact lockSlot_compat (by decide) _ l
  · intro l _ hn a ha b hb
    have h1 : heightLoc l = false := by
      cases h : heightLoc l
      · rfl
      · rw [ruleAt_lock l (Or.inl h)] at hn; cases hn
    have h2 : timeLoc l = false := by
      cases h : timeLoc l
      · rfl
      · rw [ruleAt_lock l (Or.inr h)] at hn; cases hn
    simp at ha hb
    rcases ha with rfl | rfl | rfl <;> rcases hb with rfl | rfl | rfl <;>
      simp [lkA, lkB, lkC, lockPsbt, lockSlot, h1, h2]

end Btc.C11
