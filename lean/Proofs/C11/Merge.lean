import Proofs.C11.Dict
/-! Slot-level algebra of the three merge rules: what a merge keeps (`den`), when. -/
namespace Btc.C11

/-- a slot as `serialize` sees it: under the truthiness presence test (`t = true`) a falsy scalar is
    an absent one; under the `is not None` test (`t = false`) the slot is what it is. -/
def norm (t : Bool) : Slot → Slot
  | .scalar (some v) => if t && v.falsy then .scalar none else .scalar (some v)
  | s => s

/-- the key-value pairs of a slot (a scalar is one pair, under every key). -/
def den (t : Bool) (s : Slot) (k : Nat) : Option Val :=
  match norm t s with
  | .scalar v => v
  | .dict m => dlookup m k

def Canon : Slot → Prop
  | .dict m => Sorted m
  | _ => True

def SameKind : Slot → Slot → Prop
  | .scalar _, .scalar _ => True
  | .dict _, .dict _ => True
  | _, _ => False

def IsDict : Slot → Prop
  | .dict _ => True
  | _ => False

def IsScalar : Slot → Prop
  | .scalar _ => True
  | _ => False

/-- two slots do not conflict: where both hold a value (under one key), it is the same value. -/
def Compat (t : Bool) (a b : Slot) : Prop := ∀ k v w, den t a k = some v → den t b k = some w → v = w

/-- rule `r` is the right one for a field whose presence test is `t` and whose slots look like `a`. -/
def Fits (r : Rule) (t : Bool) (a : Slot) : Prop :=
  match r with
  | .truthy => t = true
  | .notNone => t = false ∧ IsScalar a
  | .musig => IsDict a
  | .modifiable => False

theorem sameKind_refl (a : Slot) : SameKind a a := by cases a <;> trivial
theorem sameKind_symm {a b : Slot} (h : SameKind a b) : SameKind b a := by
  cases a <;> cases b <;> first | trivial | cases h
theorem sameKind_trans {a b c : Slot} (h : SameKind a b) (h2 : SameKind b c) : SameKind a c := by
  cases a <;> cases b <;> cases c <;> first | trivial | cases h | cases h2

theorem compat_symm {t : Bool} {a b : Slot} (h : Compat t a b) : Compat t b a :=
  fun k v w h1 h2 => (h k w v h2 h1).symm

theorem den_falsy {s : Slot} (h : s.falsy = true) (k : Nat) : den true s k = none := by
  cases s with
  | scalar v =>
    cases v with
    | none => rfl
    | some v => simp [Slot.falsy] at h; simp [den, norm, h]
  | dict m =>
    simp [Slot.falsy] at h
    subst h
    rfl

theorem den_dict (t : Bool) (m : Dict) (k : Nat) : den t (.dict m) k = dlookup m k := rfl

theorem den_truthy_scalar {v : Val} (h : v.falsy = false) (t : Bool) (k : Nat) :
    den t (.scalar (some v)) k = some v := by
  simp [den, norm, h]

theorem den_none (t : Bool) (k : Nat) : den t (.scalar none) k = none := rfl

/-- the central fact: a fitting merge of two compatible slots keeps the pairs of both. -/
theorem den_merge {r : Rule} {t : Bool} {a b : Slot} (hf : Fits r t a) (hk : SameKind a b)
    (ha : Canon a) (hb : Canon b) (hc : Compat t a b) (k : Nat) :
    den t (mergeRule r a b) k = (den t a k).or (den t b k) := by
  cases r with
  | modifiable => cases hf
  | truthy =>
    have ht : t = true := hf
    subst ht
    simp only [mergeRule, mergeTruthy]
    by_cases hbf : b.falsy = true
    · simp [hbf, den_falsy hbf]
    · by_cases haf : a.falsy = true
      · simp [hbf, haf, den_falsy haf]
      · simp only [hbf, haf]
        cases a with
        | scalar va =>
          cases b with
          | dict _ => cases hk
          | scalar vb =>
            cases va with
            | none => simp [Slot.falsy] at haf
            | some va =>
              simp [Slot.falsy] at haf
              simp [den_truthy_scalar haf]
        | dict ma =>
          cases b with
          | scalar _ => cases hk
          | dict mb =>
            simp only [Bool.false_eq_true, if_false, den_dict]
            rw [dlookup_dupdate hb]
            cases h1 : dlookup ma k with
            | none => simp
            | some va =>
              cases h2 : dlookup mb k with
              | none => simp
              | some vb =>
                have := hc k va vb (by rw [den_dict]; exact h1) (by rw [den_dict]; exact h2)
                simp [this]
  | notNone =>
    obtain ⟨ht, hs⟩ := hf
    subst ht
    cases a with
    | dict _ => cases hs
    | scalar va =>
      cases b with
      | dict _ => cases hk
      | scalar vb =>
        cases va <;> cases vb <;> simp [mergeRule, mergeNotNone, Slot.isNone, den, norm]
  | musig =>
    cases a with
    | scalar _ => cases hf
    | dict ma =>
      cases b with
      | scalar _ => cases hk
      | dict mb =>
        simp only [mergeRule, mergeMusig, den_dict]
        rw [dlookup_dupdate hb]
        cases h1 : dlookup ma k with
        | none => simp
        | some va =>
          cases h2 : dlookup mb k with
          | none => simp
          | some vb =>
            have := hc k va vb (by rw [den_dict]; exact h1) (by rw [den_dict]; exact h2)
            simp [this]

theorem canon_merge {r : Rule} {a b : Slot} (ha : Canon a) (hb : Canon b) : Canon (mergeRule r a b) := by
  cases r with
  | modifiable => exact ha
  | truthy =>
    simp only [mergeRule, mergeTruthy]
    split
    · exact ha
    · split
      · exact hb
      · split
        · exact sorted_dupdate _ ha
        · exact ha
  | notNone =>
    simp only [mergeRule, mergeNotNone]
    split
    · exact ha
    · split
      · exact hb
      · exact ha
  | musig =>
    simp only [mergeRule, mergeMusig]
    split
    · exact sorted_dupdate _ ha
    · exact ha

theorem sameKind_merge {r : Rule} {a b : Slot} (hk : SameKind a b) : SameKind (mergeRule r a b) a := by
  cases a <;> cases b <;> first | cases hk | skip
  all_goals
    cases r <;> simp only [mergeRule, mergeTruthy, mergeNotNone, mergeMusig] <;>
      (repeat' split) <;> trivial

theorem fits_merge {r : Rule} {t : Bool} {a b : Slot} (hf : Fits r t a) (hk : SameKind a b) :
    Fits r t (mergeRule r a b) := by
  have := sameKind_merge (r := r) hk
  cases r with
  | modifiable => cases hf
  | truthy => exact hf
  | notNone =>
    refine ⟨hf.1, ?_⟩
    have hs := hf.2
    cases a with
    | dict _ => cases hs
    | scalar _ =>
      cases h : mergeRule Rule.notNone (Slot.scalar _) b with
      | scalar _ => trivial
      | dict _ => rw [h] at this; cases this
  | musig =>
    cases a with
    | scalar _ => cases hf
    | dict _ =>
      cases h : mergeRule Rule.musig (Slot.dict _) b with
      | dict _ => trivial
      | scalar _ => rw [h] at this; cases this

/-- a slot is determined, up to `norm`, by its pairs. -/
theorem norm_ext {t : Bool} {a b : Slot} (hk : SameKind a b) (ha : Canon a) (hb : Canon b)
    (h : ∀ k, den t a k = den t b k) : norm t a = norm t b := by
  cases a with
  | scalar va =>
    cases b with
    | dict _ => cases hk
    | scalar vb =>
      have h0 := h 0
      unfold den at h0
      cases h1 : norm t (.scalar va) with
      | dict _ => cases va <;> simp [norm] at h1 <;> split at h1 <;> cases h1
      | scalar x =>
        cases h2 : norm t (.scalar vb) with
        | dict _ => cases vb <;> simp [norm] at h2 <;> split at h2 <;> cases h2
        | scalar y =>
          rw [h1, h2] at h0
          simp at h0
          rw [h0]
  | dict ma =>
    cases b with
    | scalar _ => cases hk
    | dict mb =>
      simp only [norm]
      congr
      exact dict_ext ha hb (fun q => by have := h q; simpa [den_dict] using this)

/-- merging a slot into itself changes nothing. -/
theorem merge_self (r : Rule) {a : Slot} (ha : Canon a) : mergeRule r a a = a := by
  cases r with
  | modifiable => rfl
  | notNone => simp only [mergeRule, mergeNotNone]; split <;> (try split) <;> rfl
  | truthy =>
    cases a with
    | scalar v =>
      simp only [mergeRule, mergeTruthy]
      split <;> rfl
    | dict m =>
      simp only [mergeRule, mergeTruthy]
      split
      · rfl
      · congr
        apply dict_ext (sorted_dupdate _ ha) ha
        intro q
        rw [dlookup_dupdate ha]
        cases dlookup m q <;> simp
  | musig =>
    cases a with
    | scalar _ => rfl
    | dict m =>
      simp only [mergeRule, mergeMusig]
      congr
      apply dict_ext (sorted_dupdate _ ha) ha
      intro q
      rw [dlookup_dupdate ha]
      cases dlookup m q <;> simp

/-- no refusal between compatible participant maps. -/
theorem musigConflict_false {t : Bool} {a b : Slot} (hb : Canon b) (hc : Compat t a b) :
    musigConflict a b = false := by
  cases a with
  | scalar _ => rfl
  | dict ma =>
    cases b with
    | scalar _ => rfl
    | dict mb =>
      simp only [musigConflict]
      rw [List.any_eq_false]
      intro kv hkv
      obtain ⟨k, v⟩ := kv
      cases h : dlookup ma k with
      | none => simp
      | some o =>
        have := hc k o v (by rw [den_dict]; exact h) (by rw [den_dict]; exact dlookup_of_mem hb hkv)
        simp [this]

end Btc.C11
