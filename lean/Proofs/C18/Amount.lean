import Model.C18.Amount
import Proofs.C18.Fee
/-! Decimal model: normalisation keeps the value; scaling lemmas -/
namespace Btc.C18
open Btc Btc.Py

/-- `scaled` / `absLe` without the zero short-circuit (which only avoids building 10^huge) -/
def scaledRaw (k : Nat) (coeff : Nat) (exp : Int) : Option Nat :=
  let e := exp + k
  if e ≥ 0 then some (coeff * 10 ^ e.toNat)
  else
    let d := 10 ^ (-e).toNat
    if coeff % d = 0 then some (coeff / d) else none
def absLeRaw (coeff : Nat) (exp : Int) (m : Nat) : Bool :=
  if exp ≥ 0 then coeff * 10 ^ exp.toNat ≤ m else coeff ≤ m * 10 ^ (-exp).toNat

theorem scaled_eq_raw (k c : Nat) (e : Int) : scaled k c e = scaledRaw k c e := by
  unfold scaled scaledRaw
  by_cases hc : c = 0
  · subst hc; simp
  · simp [hc]

theorem absLe_eq_raw (c : Nat) (e : Int) (m : Nat) : absLe c e m = absLeRaw c e m := by
  unfold absLe absLeRaw
  by_cases hc : c = 0
  · subst hc; simp
  · simp [hc]

theorem stripZeros_spec (fuel : Nat) : ∀ (c : Nat) (e : Int), c ≠ 0 →
    ∃ k : Nat, c = (stripZeros fuel c e).1 * 10 ^ k ∧ (stripZeros fuel c e).2 = e + k := by
  induction fuel with
  | zero => intro c e _; exact ⟨0, by simp [stripZeros], by simp [stripZeros]⟩
  | succ f ih =>
    intro c e hc
    unfold stripZeros
    simp only [hc, if_false]
    by_cases h10 : c % 10 = 0
    · simp only [h10, if_true]
      have hc' : c / 10 ≠ 0 := by omega
      obtain ⟨k, h1, h2⟩ := ih (c / 10) (e + 1) hc'
      refine ⟨k + 1, ?_, by rw [h2]; omega⟩
      have : c = c / 10 * 10 := by omega
      rw [Nat.pow_succ, ← Nat.mul_assoc, ← h1]; exact this
    · simp only [h10, if_false]
      exact ⟨0, by simp, by simp⟩

theorem stripZeros_zero (fuel : Nat) (e : Int) : stripZeros (fuel + 1) 0 e = (0, 0) := by
  simp [stripZeros]

theorem normalize_spec (c : Nat) (e : Int) :
    (c = 0 ∧ normalize c e = (0, 0)) ∨
    (c ≠ 0 ∧ ∃ k : Nat, c = (normalize c e).1 * 10 ^ k ∧ (normalize c e).2 = e + k) := by
  by_cases hc : c = 0
  · subst hc; exact Or.inl ⟨rfl, stripZeros_zero 0 e⟩
  · exact Or.inr ⟨hc, stripZeros_spec (c + 1) c e hc⟩

/-- scaling a normalised `n·10^-k` back by `10^k` gives `n` -/
theorem scaled_normalize (k n : Nat) :
    scaled k (normalize n (-(k : Int))).1 (normalize n (-(k : Int))).2 = some n := by
  rcases normalize_spec n (-(k : Int)) with ⟨h0, hn⟩ | ⟨_, j, h1, h2⟩
  · subst h0; rw [hn]; simp [scaled]
  · rw [scaled_eq_raw]; unfold scaledRaw
    rw [h2]
    have : (-(k : Int) + (j : Int) + (k : Int)) = (j : Int) := by omega
    simp only [this]
    have hj : ((j : Int) ≥ 0) := by omega
    simp only [hj, if_true, Int.toNat_natCast]
    rw [← h1]

/-- |normalised n·10^-k| ≤ m whenever n ≤ m·10^k -/
theorem absLe_normalize (k n m : Nat) (h : n ≤ m * 10 ^ k) :
    absLe (normalize n (-(k : Int))).1 (normalize n (-(k : Int))).2 m = true := by
  rcases normalize_spec n (-(k : Int)) with ⟨h0, hn⟩ | ⟨_, j, h1, h2⟩
  · rw [hn]; simp [absLe]
  · rw [absLe_eq_raw]; unfold absLeRaw
    rw [h2]
    generalize (normalize n (-(k : Int))).1 = c at h1
    have p10 : ∀ a : Nat, 0 < 10 ^ a := fun a => Nat.pow_pos (by omega)
    by_cases hjk : (-(k : Int) + (j : Int)) ≥ 0
    · simp only [hjk, if_true, decide_eq_true_eq]
      obtain ⟨d, hd⟩ : ∃ d : Nat, j = k + d := ⟨j - k, by omega⟩
      have e1 : (-(k : Int) + (j : Int)).toNat = d := by omega
      rw [e1]
      -- c·10^d·10^k = n ≤ m·10^k
      have : c * 10 ^ d * 10 ^ k ≤ m * 10 ^ k := by
        rw [Nat.mul_assoc, ← Nat.pow_add, Nat.add_comm d k, ← hd, ← h1]; exact h
      exact Nat.le_of_mul_le_mul_right this (p10 k)
    · simp only [hjk, if_false, decide_eq_true_eq]
      obtain ⟨d, hd⟩ : ∃ d : Nat, k = j + d := ⟨k - j, by omega⟩
      have e1 : (-(-(k : Int) + (j : Int))).toNat = d := by omega
      rw [e1]
      -- c·10^j = n ≤ m·10^k = m·10^d·10^j
      have : c * 10 ^ j ≤ m * 10 ^ d * 10 ^ j := by
        rw [Nat.mul_assoc, ← Nat.pow_add, Nat.add_comm d j, ← hd, ← h1]; exact h
      exact Nat.le_of_mul_le_mul_right this (p10 j)

/-- what `scaled` says: value·10^k = n, exactly -/
theorem scaled_some (k c : Nat) (e : Int) (n : Nat) (h : scaled k c e = some n) :
    (0 ≤ e + k ∧ n = c * 10 ^ (e + k).toNat) ∨ (e + k < 0 ∧ c = n * 10 ^ (-(e + k)).toNat) := by
  rw [scaled_eq_raw] at h; unfold scaledRaw at h
  by_cases he : e + (k : Int) ≥ 0
  · simp only [he, if_true] at h
    exact Or.inl ⟨he, by cases h; rfl⟩
  · simp only [he, if_false] at h
    by_cases hm : c % 10 ^ (-(e + (k : Int))).toNat = 0
    · simp only [hm, if_true] at h
      refine Or.inr ⟨by omega, ?_⟩
      cases h
      have := Nat.div_add_mod c (10 ^ (-(e + (k : Int))).toNat)
      rw [hm, Nat.add_zero, Nat.mul_comm] at this
      exact this.symm
    · simp [hm] at h

/-- a value within ±m whose 10^k-multiple is the whole number n has n ≤ m·10^k -/
theorem scaled_le (k c : Nat) (e : Int) (n m : Nat) (hs : scaled k c e = some n)
    (ha : absLe c e m = true) : n ≤ m * 10 ^ k := by
  have p10 : ∀ a : Nat, 0 < 10 ^ a := fun a => Nat.pow_pos (by omega)
  rw [absLe_eq_raw] at ha; unfold absLeRaw at ha
  rcases scaled_some k c e n hs with ⟨h0, hn⟩ | ⟨h0, hc⟩
  · by_cases he : e ≥ 0
    · simp only [he, if_true, decide_eq_true_eq] at ha
      obtain ⟨a, rfl⟩ := Int.eq_ofNat_of_zero_le he
      have : ((a : Int) + (k : Int)).toNat = a + k := by omega
      rw [this, Nat.pow_add, ← Nat.mul_assoc] at hn
      rw [hn]
      simp only [Int.toNat_natCast] at ha
      exact Nat.mul_le_mul_right _ ha
    · simp only [he, if_false, decide_eq_true_eq] at ha
      obtain ⟨a, ha'⟩ : ∃ a : Nat, e = -(a : Int) := ⟨(-e).toNat, by omega⟩
      subst ha'
      have e1 : (-(-(a : Int))).toNat = a := by omega
      rw [e1] at ha
      obtain ⟨d, hd⟩ : ∃ d : Nat, k = a + d := ⟨k - a, by omega⟩
      have e2 : (-(a : Int) + (k : Int)).toNat = d := by omega
      rw [e2] at hn
      rw [hn, hd, Nat.pow_add, ← Nat.mul_assoc]
      exact Nat.mul_le_mul_right _ ha
  · have he : ¬ e ≥ 0 := by omega
    simp only [he, if_false, decide_eq_true_eq] at ha
    obtain ⟨a, ha'⟩ : ∃ a : Nat, e = -(a : Int) := ⟨(-e).toNat, by omega⟩
    subst ha'
    have e1 : (-(-(a : Int))).toNat = a := by omega
    rw [e1] at ha
    obtain ⟨d, hd⟩ : ∃ d : Nat, a = k + d := ⟨a - k, by omega⟩
    have e2 : (-(-(a : Int) + (k : Int))).toNat = d := by omega
    rw [e2] at hc
    -- n·10^d = c ≤ m·10^a = m·10^k·10^d
    have : n * 10 ^ d ≤ m * 10 ^ k * 10 ^ d := by
      rw [← hc, Nat.mul_assoc, ← Nat.pow_add, ← hd]; exact ha
    exact Nat.le_of_mul_le_mul_right this (p10 d)

theorem decDigitsAux_le (fuel : Nat) : ∀ (n m : Nat), n < 10 ^ m → decDigitsAux fuel n ≤ m := by
  induction fuel with
  | zero => intro n m _; simp [decDigitsAux]
  | succ f ih =>
    intro n m h
    unfold decDigitsAux
    split
    · omega
    · cases m with
      | zero => simp at h; omega
      | succ m =>
        have : n / 10 < 10 ^ m := by rw [Nat.pow_succ] at h; omega
        have := ih (n / 10) m this
        omega

theorem decDigitsAux_ge (fuel : Nat) : ∀ (n m : Nat), n ≤ fuel → 10 ^ m ≤ n → m + 1 ≤ decDigitsAux fuel n := by
  induction fuel with
  | zero =>
    intro n m h1 h2
    have : 0 < 10 ^ m := Nat.pow_pos (by omega)
    omega
  | succ f ih =>
    intro n m h1 h2
    have hp : 0 < 10 ^ m := Nat.pow_pos (by omega)
    unfold decDigitsAux
    have hn : n ≠ 0 := by omega
    simp only [hn, if_false]
    cases m with
    | zero => omega
    | succ m =>
      have h3 : 10 ^ m ≤ n / 10 := by rw [Nat.pow_succ] at h2; omega
      have := ih (n / 10) m (by omega) h3
      omega

theorem decDigits_le (n m : Nat) (h : n < 10 ^ m) : decDigits n ≤ m := decDigitsAux_le n n m h
theorem decDigits_ge (n m : Nat) (h : 10 ^ m ≤ n) : m + 1 ≤ decDigits n :=
  decDigitsAux_ge n n m (Nat.le_refl n) h

/-- where the leading digit of the normalised k·10^-3 sits: at most 10^15 exactly when k < 10^19 -/
theorem adjusted_satsPerVbyte (k : Nat) (hk : k ≠ 0) :
    (normalize k (-3)).1 ≠ 0 ∧ -3 ≤ adjusted (normalize k (-3)).1 (normalize k (-3)).2 ∧
    (k < 10 ^ 19 → adjusted (normalize k (-3)).1 (normalize k (-3)).2 ≤ 15) ∧
    (10 ^ 19 ≤ k → adjusted (normalize k (-3)).1 (normalize k (-3)).2 > 15) := by
  have p10 : ∀ a : Nat, 0 < 10 ^ a := fun a => Nat.pow_pos (by omega)
  rcases normalize_spec k (-3) with ⟨h0, _⟩ | ⟨_, j, h1, h2⟩
  · exact absurd h0 hk
  · generalize (normalize k (-3)).1 = c at *
    generalize (normalize k (-3)).2 = e at *
    have hc : c ≠ 0 := by
      intro h; subst h; simp at h1; exact hk h1
    have hd1 : 1 ≤ decDigits c := decDigits_ge c 0 (by simp; omega)
    unfold adjusted
    refine ⟨hc, by omega, ?_, ?_⟩
    · intro hlt
      by_cases hj : j ≤ 19
      · obtain ⟨d, hd⟩ : ∃ d : Nat, 19 = d + j := ⟨19 - j, by omega⟩
        have : c * 10 ^ j < 10 ^ d * 10 ^ j := by rw [← Nat.pow_add, ← hd, ← h1]; exact hlt
        have hcd : c < 10 ^ d := Nat.lt_of_mul_lt_mul_right this
        have := decDigits_le c d hcd
        omega
      · have h19 : (10 : Nat) ^ 19 ≤ 10 ^ j := Nat.pow_le_pow_right (by omega) (by omega)
        have : 10 ^ j ≤ c * 10 ^ j := Nat.le_mul_of_pos_left _ (by omega)
        omega
    · intro hge
      by_cases hj : j ≤ 19
      · obtain ⟨d, hd⟩ : ∃ d : Nat, 19 = d + j := ⟨19 - j, by omega⟩
        have : 10 ^ d * 10 ^ j ≤ c * 10 ^ j := by rw [← Nat.pow_add, ← hd, ← h1]; exact hge
        have hcd : 10 ^ d ≤ c := Nat.le_of_mul_le_mul_right this (p10 j)
        have := decDigits_ge c d hcd
        omega
      · omega

end Btc.C18
