import Model.Common.PyFloat
import Generated.Fee
/-! `math.ceil(w / 4)` (float division) is the integer ceiling for every w below 2^53. -/
namespace Btc.C18
open Btc Btc.Py Btc.PyFloat

theorem natBitLengthAux_le (fuel : Nat) : ∀ (n k : Nat), n < 2 ^ k → natBitLengthAux fuel n ≤ k := by
  induction fuel with
  | zero => intro n k _; simp [natBitLengthAux]
  | succ f ih =>
    intro n k h
    unfold natBitLengthAux
    split
    · omega
    · rename_i hn
      cases k with
      | zero => simp at h; omega
      | succ k =>
        have : n / 2 < 2 ^ k := by
          rw [Nat.pow_succ] at h; omega
        have := ih (n / 2) k this
        omega

theorem natBitLength_le (n k : Nat) (h : n < 2 ^ k) : natBitLength n ≤ k :=
  natBitLengthAux_le n n k h

theorem round53_small (n : Nat) (h : n < 2 ^ 53) : round53 n = n := by
  unfold round53; simp [h]

/-- below 2^53 the float computation is exact -/
theorem ceilTrueDivPow2_exact (w : Nat) (h : w < 2 ^ 53) :
    ceilTrueDivPow2 (w : Int) 2 = .ok (((w + 3) / 4 : Nat) : Int) := by
  unfold ceilTrueDivPow2
  simp only [Int.natAbs_natCast, round53_small w h]
  have hb : ¬ natBitLength w > 1024 + 2 := by
    have := natBitLength_le w 53 h; omega
  have hn : ¬ ((w : Int) < 0) := by omega
  simp only [hb, hn, if_false]
  congr 1

end Btc.C18
