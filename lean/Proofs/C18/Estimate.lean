import Model.C18.PsbtSize
import Proofs.C18.Fee
/-! estimate ≥ actual: monotonicity of every size function in the sizes of the pushed elements -/
namespace Btc.C18
open Btc Btc.Script Btc.Spend

/-- element sizes `a` are covered by `e`: same number of elements, each no larger -/
def covers : List Nat → List Nat → Prop
  | [], [] => True
  | a :: as, e :: es => a ≤ e ∧ covers as es
  | _, _ => False

/-- input `a` = (script_sig size, witness element sizes) is covered by the estimate `e` -/
def coversIn (a e : Nat × List Nat) : Prop := a.1 ≤ e.1 ∧ covers a.2 e.2

def coversIns : List (Nat × List Nat) → List (Nat × List Nat) → Prop
  | [], [] => True
  | a :: as, e :: es => coversIn a e ∧ coversIns as es
  | _, _ => False

/-- bytes of a push of n bytes -/
def pushLen (n : Nat) : Nat := n + (if n < 76 then 1 else if n < 256 then 2 else if n < 65536 then 3 else 5)

theorem leBytes_length : ∀ (k n : Nat), (leBytes k n).length = k
  | 0, _ => rfl
  | k + 1, n => by simp [leBytes, leBytes_length k]

theorem pushData_length (d : Bytes) : (pushData d).length = pushLen d.length := by
  unfold pushData pushLen
  split
  · simp
  · split
    · simp
    · split
      · simp; omega
      · simp; omega

theorem pushLen_mono {a b : Nat} (h : a ≤ b) : pushLen a ≤ pushLen b := by
  unfold pushLen; split <;> split <;> (try split) <;> (try split) <;> (try split) <;> (try split) <;> omega

theorem serializePushes_length (ds : List Bytes) :
    (serializePushes ds).length = (ds.map fun d => pushLen d.length).sum := by
  unfold serializePushes
  induction ds with
  | nil => rfl
  | cons d t ih => simp [List.flatMap_cons, pushData_length, ih]

theorem sum_pushLen_covers : ∀ (a e : List Nat), covers a e →
    (a.map pushLen).sum ≤ (e.map pushLen).sum
  | [], [], _ => by simp
  | a :: as, e :: es, h => by
    have := sum_pushLen_covers as es h.2
    have := pushLen_mono h.1
    simp; omega
  | [], _ :: _, h => by cases h
  | _ :: _, [], h => by cases h

theorem cs_mono {a b : Nat} (h : a ≤ b) : cs a ≤ cs b := by
  unfold cs Core.sizeOfCompactSize
  split <;> split <;> (try split) <;> (try split) <;> (try split) <;> (try split) <;> omega

theorem covers_length : ∀ (a e : List Nat), covers a e → a.length = e.length
  | [], [], _ => rfl
  | _ :: as, _ :: es, h => by simp [covers_length as es h.2]
  | [], _ :: _, h => by cases h
  | _ :: _, [], h => by cases h

theorem covers_sum : ∀ (a e : List Nat), covers a e →
    (a.map fun n => cs n + n).sum ≤ (e.map fun n => cs n + n).sum
  | [], [], _ => by simp
  | a :: as, e :: es, h => by
    have := covers_sum as es h.2
    have := cs_mono h.1
    have := h.1
    simp; omega
  | [], _ :: _, h => by cases h
  | _ :: _, [], h => by cases h

theorem witnessSize_mono (a e : List Nat) (h : covers a e) : witnessSize a ≤ witnessSize e := by
  unfold witnessSize
  rw [covers_length a e h]
  have := covers_sum a e h
  omega

theorem txInSize_mono {a e : Nat} (h : a ≤ e) : txInSize a ≤ txInSize e := by
  unfold txInSize; have := cs_mono h; omega

theorem covers_isEmpty (a e : List Nat) (h : covers a e) : a.isEmpty = e.isEmpty := by
  cases a <;> cases e <;> simp_all [covers]

theorem coversIns_facts : ∀ (a e : List (Nat × List Nat)), coversIns a e →
    a.length = e.length ∧ (a.any fun i => !i.2.isEmpty) = (e.any fun i => !i.2.isEmpty) ∧
    (a.map fun i => txInSize i.1).sum ≤ (e.map fun i => txInSize i.1).sum ∧
    (a.map fun i => witnessSize i.2).sum ≤ (e.map fun i => witnessSize i.2).sum
  | [], [], _ => by simp
  | a :: as, e :: es, h => by
    obtain ⟨h1, h2, h3, h4⟩ := coversIns_facts as es h.2
    have e1 := covers_isEmpty a.2 e.2 h.1.2
    have m1 := txInSize_mono h.1.1
    have m2 := witnessSize_mono a.2 e.2 h.1.2
    refine ⟨by simp [h1], by simp [h2, e1], by simp; omega, by simp; omega⟩
  | [], _ :: _, h => by cases h
  | _ :: _, [], h => by cases h

/-- `Tx._serialized_size` is monotone in the input sizes -/
theorem txSize_mono (w : Bool) (a e : List (Nat × List Nat)) (nOut outs : Nat) (h : coversIns a e) :
    txSize w a nOut outs ≤ txSize w e nOut outs := by
  obtain ⟨h1, h2, h3, h4⟩ := coversIns_facts a e h
  unfold txSize
  rw [h1, h2]
  cases w <;> simp
  · omega
  · split <;> omega

end Btc.C18

namespace Btc.C18
open Btc Btc.Script Btc.Spend

theorem zeros_length (n : Nat) : (zeros n).length = n := by simp [zeros]

theorem map_zeros_length (sizes : List Nat) : (sizes.map zeros).map List.length = sizes := by
  induction sizes with
  | nil => rfl
  | cons a t ih => simp [zeros_length, ih]

/-- pushes of actual elements, then a common tail, are no longer than pushes of placeholders of covering sizes -/
theorem pushes_cover (act : List Bytes) (sizes : List Nat) (tail : List Bytes)
    (h : covers (act.map List.length) sizes) :
    (serializePushes (act ++ tail)).length ≤ (serializePushes (sizes.map zeros ++ tail)).length := by
  rw [serializePushes_length, serializePushes_length, List.map_append, List.map_append, List.sum_append, List.sum_append]
  have e1 : (act.map fun d => pushLen d.length) = (act.map List.length).map pushLen := by simp [List.map_map]
  have e2 : ((sizes.map zeros).map fun d => pushLen d.length) = sizes.map pushLen := by
    have := map_zeros_length sizes
    calc ((sizes.map zeros).map fun d => pushLen d.length)
        = ((sizes.map zeros).map List.length).map pushLen := by simp [List.map_map]
      _ = sizes.map pushLen := by rw [this]
  rw [e1, e2]
  have := sum_pushLen_covers _ _ h
  omega

theorem covers_replicate : ∀ (sigs : List Bytes) (n : Nat), (∀ s ∈ sigs, s.length ≤ n) →
    covers (sigs.map List.length) (List.replicate sigs.length n)
  | [], _, _ => trivial
  | s :: t, n, h => by
    refine ⟨h s (by simp), ?_⟩
    exact covers_replicate t n fun x hx => h x (by simp [hx])

theorem covers_append : ∀ (a e a' e' : List Nat), covers a e → covers a' e' → covers (a ++ a') (e ++ e')
  | [], [], _, _, _, h => h
  | _ :: as, _ :: es, a', e', h, h' => ⟨h.1, covers_append as es a' e' h.2 h'⟩
  | [], _ :: _, _, _, h, _ => by cases h
  | _ :: _, [], _, _, h, _ => by cases h

theorem covers_refl : ∀ (a : List Nat), covers a a
  | [] => trivial
  | _ :: t => ⟨Nat.le_refl _, covers_refl t⟩

end Btc.C18
