import Model.C18.PsbtSize
import Proofs.C18.Fee
/-! estimate ≥ actual: monotonicity of every size function in the sizes of the pushed elements -/
namespace Btc.C18
open Btc Btc.Script Btc.Spend

/-- element sizes `a` are covered by `e`: same number of elements, each no larger -/
def covers : List Nat → List Nat → Prop
  | [], [] => True
  | a :: as, e :: es => a ≤ e ∧ covers as es
  | _, _ => False

/-- input `a` = (script_sig size, witness element sizes) is covered by the estimate `e` -/
def coversIn (a e : Nat × List Nat) : Prop := a.1 ≤ e.1 ∧ covers a.2 e.2

def coversIns : List (Nat × List Nat) → List (Nat × List Nat) → Prop
  | [], [] => True
  | a :: as, e :: es => coversIn a e ∧ coversIns as es
  | _, _ => False

/-- bytes of a push of n bytes -/
def pushLen (n : Nat) : Nat := n + (if n < 76 then 1 else if n < 256 then 2 else if n < 65536 then 3 else 5)

theorem leBytes_length : ∀ (k n : Nat), (leBytes k n).length = k
  | 0, _ => rfl
  | k + 1, n => by simp [leBytes, leBytes_length k]

theorem pushData_length (d : Bytes) : (pushData d).length = pushLen d.length := by
  unfold pushData pushLen
  split
  · simp
  · split
    · simp
    · split
      · simp; omega
      · simp; omega

theorem pushLen_mono {a b : Nat} (h : a ≤ b) : pushLen a ≤ pushLen b := by
  unfold pushLen; split <;> split <;> (try split) <;> (try split) <;> (try split) <;> (try split) <;> omega

theorem serializePushes_length (ds : List Bytes) :
    (serializePushes ds).length = (ds.map fun d => pushLen d.length).sum := by
  unfold serializePushes
  induction ds with
  | nil => rfl
  | cons d t ih => simp [List.flatMap_cons, pushData_length, ih]

theorem sum_pushLen_covers : ∀ (a e : List Nat), covers a e →
    (a.map pushLen).sum ≤ (e.map pushLen).sum
  | [], [], _ => by simp
  | a :: as, e :: es, h => by
    have := sum_pushLen_covers as es h.2
    have := pushLen_mono h.1
    simp; omega
  | [], _ :: _, h => by cases h
  | _ :: _, [], h => by cases h

theorem cs_mono {a b : Nat} (h : a ≤ b) : cs a ≤ cs b := by
  unfold cs Core.sizeOfCompactSize
  split <;> split <;> (try split) <;> (try split) <;> (try split) <;> (try split) <;> omega

theorem covers_length : ∀ (a e : List Nat), covers a e → a.length = e.length
  | [], [], _ => rfl
  | _ :: as, _ :: es, h => by simp [covers_length as es h.2]
  | [], _ :: _, h => by cases h
  | _ :: _, [], h => by cases h

theorem covers_sum : ∀ (a e : List Nat), covers a e →
    (a.map fun n => cs n + n).sum ≤ (e.map fun n => cs n + n).sum
  | [], [], _ => by simp
  | a :: as, e :: es, h => by
    have := covers_sum as es h.2
    have := cs_mono h.1
    have := h.1
    simp; omega
  | [], _ :: _, h => by cases h
  | _ :: _, [], h => by cases h

theorem witnessSize_mono (a e : List Nat) (h : covers a e) : witnessSize a ≤ witnessSize e := by
  unfold witnessSize
  rw [covers_length a e h]
  have := covers_sum a e h
  omega

theorem txInSize_mono {a e : Nat} (h : a ≤ e) : txInSize a ≤ txInSize e := by
  unfold txInSize; have := cs_mono h; omega

theorem covers_isEmpty (a e : List Nat) (h : covers a e) : a.isEmpty = e.isEmpty := by
  cases a <;> cases e <;> simp_all [covers]

theorem coversIns_facts : ∀ (a e : List (Nat × List Nat)), coversIns a e →
    a.length = e.length ∧ (a.any fun i => !i.2.isEmpty) = (e.any fun i => !i.2.isEmpty) ∧
    (a.map fun i => txInSize i.1).sum ≤ (e.map fun i => txInSize i.1).sum ∧
    (a.map fun i => witnessSize i.2).sum ≤ (e.map fun i => witnessSize i.2).sum
  | [], [], _ => by simp
  | a :: as, e :: es, h => by
    obtain ⟨h1, h2, h3, h4⟩ := coversIns_facts as es h.2
    have e1 := covers_isEmpty a.2 e.2 h.1.2
    have m1 := txInSize_mono h.1.1
    have m2 := witnessSize_mono a.2 e.2 h.1.2
    refine ⟨by simp [h1], by simp [h2, e1], by simp; omega, by simp; omega⟩
  | [], _ :: _, h => by cases h
  | _ :: _, [], h => by cases h

/-- `Tx._serialized_size` is monotone in the input sizes -/
theorem txSize_mono (w : Bool) (a e : List (Nat × List Nat)) (nOut outs : Nat) (h : coversIns a e) :
    txSize w a nOut outs ≤ txSize w e nOut outs := by
  obtain ⟨h1, h2, h3, h4⟩ := coversIns_facts a e h
  unfold txSize
  rw [h1, h2]
  cases w <;> simp
  · omega
  · split <;> omega

end Btc.C18

namespace Btc.C18
open Btc Btc.Script Btc.Spend

theorem zeros_length (n : Nat) : (zeros n).length = n := by simp [zeros]

theorem map_zeros_length (sizes : List Nat) : (sizes.map zeros).map List.length = sizes := by
  induction sizes with
  | nil => rfl
  | cons a t ih => simp [zeros_length, ih]

/-- pushes of actual elements, then a common tail, are no longer than pushes of placeholders of covering sizes -/
theorem pushes_cover (act : List Bytes) (sizes : List Nat) (tail : List Bytes)
    (h : covers (act.map List.length) sizes) :
    (serializePushes (act ++ tail)).length ≤ (serializePushes (sizes.map zeros ++ tail)).length := by
  rw [serializePushes_length, serializePushes_length, List.map_append, List.map_append, List.sum_append, List.sum_append]
  have e1 : (act.map fun d => pushLen d.length) = (act.map List.length).map pushLen := by simp [List.map_map]
  have e2 : ((sizes.map zeros).map fun d => pushLen d.length) = sizes.map pushLen := by
    have := map_zeros_length sizes
    calc ((sizes.map zeros).map fun d => pushLen d.length)
        = ((sizes.map zeros).map List.length).map pushLen := by simp [List.map_map]
      _ = sizes.map pushLen := by rw [this]
  rw [e1, e2]
  have := sum_pushLen_covers _ _ h
  omega

theorem covers_replicate : ∀ (sigs : List Bytes) (n : Nat), (∀ s ∈ sigs, s.length ≤ n) →
    covers (sigs.map List.length) (List.replicate sigs.length n)
  | [], _, _ => trivial
  | s :: t, n, h => by
    refine ⟨h s (by simp), ?_⟩
    exact covers_replicate t n fun x hx => h x (by simp [hx])

theorem covers_append : ∀ (a e a' e' : List Nat), covers a e → covers a' e' → covers (a ++ a') (e ++ e')
  | [], [], _, _, _, h => h
  | _ :: as, _ :: es, a', e', h, h' => ⟨h.1, covers_append as es a' e' h.2 h'⟩
  | [], _ :: _, _, _, h, _ => by cases h
  | _ :: _, [], _, _, h, _ => by cases h

theorem covers_refl : ∀ (a : List Nat), covers a a
  | [] => trivial
  | _ :: t => ⟨Nat.le_refl _, covers_refl t⟩

end Btc.C18

namespace Btc.C18
open Btc Btc.Script Btc.Spend

theorem p2ms_length {vk : Bytes → Bool} {s : Bytes} {r : Nat × List Bytes} (h : p2msMAndKeys vk s = some r) :
    37 ≤ s.length := by
  unfold p2msMAndKeys at h
  by_cases hl : s.length < 37
  · simp [hl] at h
  · omega

/-- `_finalized_input` on an input whose satisfied script is a k-of-n multisig (bare, behind p2sh, in p2wsh,
    in p2sh-p2wsh): dummy, the first m signatures in key order, then the redeem script (legacy) / the witness
    script (segwit).  Nothing about the script is assumed beyond what `p2ms_m_and_keys` answered. -/
theorem finalize_multisig (vk : Bytes → Bool) (spk redeem ws : Bytes) (ps : List (Bytes × Bytes))
    (m : Nat) (keys : List Bytes)
    (hms : p2msMAndKeys vk (satisfiedScript ⟨some spk, redeem, ws, ps⟩) = some (m, keys))
    (hn : m ≤ (keys.filterMap fun k => ps.lookup k).length) :
    finalizedInput vk ⟨some spk, redeem, ws, ps⟩ =
      .ok (if ws.isEmpty
        then (serializePushes ((([] : Bytes) :: (keys.filterMap fun k => ps.lookup k).take m) ++
                (if redeem.isEmpty then [] else [redeem])), [])
        else (serializePushes (if redeem.isEmpty then [] else [redeem]),
              (([] : Bytes) :: (keys.filterMap fun k => ps.lookup k).take m) ++ [ws])) := by
  have hlen := p2ms_length hms
  have hne : (satisfiedScript ⟨some spk, redeem, ws, ps⟩).isEmpty = false := by
    cases hs : satisfiedScript ⟨some spk, redeem, ws, ps⟩ with
    | nil => rw [hs] at hlen; simp at hlen
    | cons _ _ => rfl
  have hlt : ¬ ((keys.filterMap fun k => ps.lookup k).length < m) := by omega
  by_cases hw : ws.isEmpty = true
  · have hsat : satisfiedScript ⟨some spk, redeem, ws, ps⟩ = spentScript ⟨some spk, redeem, ws, ps⟩ := by
      simp [satisfiedScript, hw]
    rw [hsat] at hms hlen hne
    have h1 : isP2wpkh (spentScript ⟨some spk, redeem, ws, ps⟩) = false := by
      have : (spentScript ⟨some spk, redeem, ws, ps⟩).length ≠ 22 := by omega
      simp [isP2wpkh, this]
    have h2 : isP2pkh (spentScript ⟨some spk, redeem, ws, ps⟩) = false := by
      have : (spentScript ⟨some spk, redeem, ws, ps⟩).length ≠ 25 := by omega
      simp [isP2pkh, this]
    simp [finalizedInput, pushedSigs, bip147Dummy, isP2ms, hsat, hms, hne, hlt, hw, h1, h2, bind, Except.bind,
      pure, Except.pure]
  · have hw' : ws.isEmpty = false := by simpa using hw
    have hsat : satisfiedScript ⟨some spk, redeem, ws, ps⟩ = ws := by simp [satisfiedScript, hw']
    rw [hsat] at hms hlen hne
    have h2 : isP2pkh ws = false := by
      have : ws.length ≠ 25 := by omega
      simp [isP2pkh, this]
    simp [finalizedInput, pushedSigs, bip147Dummy, isP2ms, hsat, hms, hne, hlt, hw', h2, bind, Except.bind,
      pure, Except.pure]

end Btc.C18

namespace Btc.C18
open Btc Btc.Script Btc.Spend

theorem lookup_mem : ∀ (ps : List (Bytes × Bytes)) (k v : Bytes), ps.lookup k = some v → ∃ k', (k', v) ∈ ps
  | [], _, _, h => by simp [List.lookup] at h
  | (a, b) :: t, k, v, h => by
    unfold List.lookup at h
    split at h
    · cases h; exact ⟨a, by simp⟩
    · obtain ⟨k', hk⟩ := lookup_mem t k v h
      exact ⟨k', by simp [hk]⟩

/-- the signatures the finalizer pushes are partial_sigs values: m of them, each bounded as the partial sigs are -/
theorem pushed_sigs_bounded (ps : List (Bytes × Bytes)) (keys : List Bytes) (m n : Nat)
    (hn : m ≤ (keys.filterMap fun k => ps.lookup k).length) (hs : ∀ e ∈ ps, e.2.length ≤ n) :
    ((keys.filterMap fun k => ps.lookup k).take m).length = m ∧
    ∀ s ∈ (keys.filterMap fun k => ps.lookup k).take m, s.length ≤ n := by
  refine ⟨by simp; omega, ?_⟩
  intro s hs'
  have h1 := List.mem_of_mem_take hs'
  obtain ⟨k, _, hk⟩ := List.mem_filterMap.mp h1
  obtain ⟨k', hk'⟩ := lookup_mem ps k s hk
  exact hs (k', s) hk'

end Btc.C18

namespace Btc.C18
open Btc Btc.Script Btc.Spend

/-- the carried fact "the key is no longer than `_pub_key_size` answers", from the key's compression: a
    compressed key always is; an uncompressed one is when the psbt names it in hd_key_paths — or a named key
    different from it has the same hash160 (the collision is exhibited). -/
theorem pub_key_size_covers (H : Bytes → Bytes) (pin : SizeIn) (pk : Bytes)
    (hc : pk.length = 33 ∨ pk ∈ pin.hdKeys) :
    pk.length ≤ pubKeySize H pin (H pk) ∨ ∃ k' ∈ pin.hdKeys, k' ≠ pk ∧ H k' = H pk := by
  unfold pubKeySize Gen.Fee.pub_key_size
  cases hf : pin.hdKeys.find? (fun k => H k == H pk) with
  | some k' =>
    have hmem := List.mem_of_find?_eq_some hf
    have hp := List.find?_some hf
    have hH : H k' = H pk := by simpa using hp
    by_cases hk : k' = pk
    · subst hk; left; simp [Btc.Py.len]
    · exact Or.inr ⟨k', hmem, hk, hH⟩
  | none =>
    left
    rcases hc with h33 | hmem
    · simp [h33]; decide
    · have := List.find?_eq_none.mp hf pk hmem
      simp at this

end Btc.C18
