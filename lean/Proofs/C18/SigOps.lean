import Model.C18.SigOps
namespace Btc.C18
open Btc Btc.Script

theorem sigOpCost_le (op : Nat) : sigOpCost op ≤ Gen.Fee.SIGOPS_MULTISIG_COST := by
  unfold sigOpCost Gen.Fee.SIGOPS_MULTISIG_COST
  split
  · omega
  · split <;> omega

theorem opCodeSpansFrom_length (fuel : Nat) : ∀ (s : Bytes) (i : Nat), (opCodeSpansFrom fuel s i).length ≤ fuel := by
  induction fuel with
  | zero => intro s i; simp [opCodeSpansFrom]
  | succ f ih =>
    intro s i
    unfold opCodeSpansFrom
    split
    · simp
    · have := ih s (by assumption : Nat)
      simp; omega

theorem sum_map_le (l : List (Nat × Nat × Nat)) (c : Nat) (f : Nat × Nat × Nat → Nat) (h : ∀ x, f x ≤ c) :
    (l.map f).sum ≤ c * l.length := by
  induction l with
  | nil => simp
  | cons a t ih =>
    have := h a
    simp [Nat.mul_succ]; omega

end Btc.C18
