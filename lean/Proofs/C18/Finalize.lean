import Model.C10.Spend
import Proofs.C18.Estimate
/-!
The layouts C10's finalizer MODEL (`Btc.Spend.finalizedInput`, `finalizedTaproot` in Model/C10/Spend.lean) writes
for the single-key templates.  Same statements (and proofs) as `Props.C10.finalize_*`; restated here, over the same
definitions, so that C18's obligations depend on C10's *model* only and not on the build state of C10's proofs.
-/
namespace Btc.C18.Fin
open Btc Btc.Script Btc.Spend
open Btc.Script.Core (getB)

theorem finalize_p2wpkh (vk : Bytes → Bool) (h pk sig : Bytes) (hl : h.length = 20) :
    finalizedInput vk ⟨some (p2wpkh h), [], [], [(pk, sig)]⟩ = .ok ([], [sig, pk]) := by
  have e : (p2wpkh h).length = 22 := by simp [p2wpkh, Gen.Spend.P2WPKH_PREFIX, hl]
  have hns : isP2sh (p2wpkh h) = false := by simp [isP2sh, e]
  have hms : p2msMAndKeys vk (p2wpkh h) = none := by simp [p2msMAndKeys, e]
  have hw : isP2wpkh (p2wpkh h) = true := by
    simp [isP2wpkh, p2wpkh, Gen.Spend.P2WPKH_PREFIX, getB, hl]
  simp [finalizedInput, pushedSigs, satisfiedScript, spentScript, hns, hms, hw, singleKey, serializePushes,
    bip147Dummy, isP2ms, bind, Except.bind, pure, Except.pure]

theorem finalize_p2sh_p2wpkh (vk : Bytes → Bool) (h hr pk sig : Bytes) (hl : h.length = 20) (hrl : hr.length = 20) :
    finalizedInput vk ⟨some (p2sh hr), p2wpkh h, [], [(pk, sig)]⟩ = .ok (pushData (p2wpkh h), [sig, pk]) := by
  have e : (p2wpkh h).length = 22 := by simp [p2wpkh, Gen.Spend.P2WPKH_PREFIX, hl]
  have h87 : (hr ++ [135])[20]? = some 135 := by
    rw [List.getElem?_append_right (by omega)]; simp [hrl]
  have hs : isP2sh (p2sh hr) = true := by
    simp [isP2sh, p2sh, Gen.Spend.P2SH_PREFIX, Gen.Spend.P2SH_SUFFIX, getB, List.getD, h87, hrl]
  have hms : p2msMAndKeys vk (p2wpkh h) = none := by simp [p2msMAndKeys, e]
  have hw : isP2wpkh (p2wpkh h) = true := by
    simp [isP2wpkh, p2wpkh, Gen.Spend.P2WPKH_PREFIX, getB, hl]
  have hne : (p2wpkh h).isEmpty = false := by simp [p2wpkh, Gen.Spend.P2WPKH_PREFIX]
  simp [finalizedInput, pushedSigs, satisfiedScript, spentScript, hs, hms, hw, hne, singleKey, serializePushes,
    bip147Dummy, isP2ms, bind, Except.bind, pure, Except.pure]

theorem finalize_p2pkh (vk : Bytes → Bool) (h pk sig : Bytes) (hl : h.length = 20) :
    finalizedInput vk ⟨some (p2pkh h), [], [], [(pk, sig)]⟩ = .ok (pushData sig ++ pushData pk, []) := by
  have e : (p2pkh h).length = 25 := by simp [p2pkh, Gen.Spend.P2PKH_PREFIX, Gen.Spend.P2PKH_SUFFIX, hl]
  have hns : isP2sh (p2pkh h) = false := by simp [isP2sh, e]
  have hms : p2msMAndKeys vk (p2pkh h) = none := by simp [p2msMAndKeys, e]
  have hnw : isP2wpkh (p2pkh h) = false := by simp [isP2wpkh, e]
  have hd : (h ++ [136, 172]).drop 20 = [136, 172] := List.drop_left' hl
  have hk : isP2pkh (p2pkh h) = true := by
    simp [isP2pkh, p2pkh, Gen.Spend.P2PKH_PREFIX, Gen.Spend.P2PKH_SUFFIX, getB, hl, hd]
  simp [finalizedInput, pushedSigs, satisfiedScript, spentScript, hns, hms, hnw, hk, singleKey, serializePushes,
    bind, Except.bind, pure, Except.pure]

theorem finalize_p2pk (vk : Bytes → Bool) (pk sig : Bytes) (hl : pk.length = 33) :
    finalizedInput vk ⟨some (p2pk pk), [], [], [(pk, sig)]⟩ = .ok (pushData sig, []) := by
  have e : (p2pk pk).length = 35 := by
    simp [p2pk, Gen.Spend.P2PK_SUFFIX, pushData_length, pushLen, hl]
  have hns : isP2sh (p2pk pk) = false := by simp [isP2sh, e]
  have hms : p2msMAndKeys vk (p2pk pk) = none := by simp [p2msMAndKeys, e]
  have hnw : isP2wpkh (p2pk pk) = false := by simp [isP2wpkh, e]
  have hnk : isP2pkh (p2pk pk) = false := by simp [isP2pkh, e]
  have hne : (p2pk pk).isEmpty = false := by
    cases h : p2pk pk with
    | nil => simp [h] at e
    | cons _ _ => rfl
  simp [finalizedInput, pushedSigs, satisfiedScript, spentScript, hns, hms, hnw, hnk, hne, bip147Dummy, isP2ms,
    serializePushes, bind, Except.bind, pure, Except.pure]

theorem finalize_taproot_key (lh : Nat → Bytes → Bytes) (vk : Nat → Bytes → Bool) (vl : Nat → Bytes → Bytes → Bytes → Bool)
    (sht : Option Nat) (sig : Bytes) (ss : List (Bytes × Bytes)) (ls : List (Bytes × Bytes × Nat)) (ht : Nat)
    (hne : sig.isEmpty = false) (hht : tapSigHashType sig sht = .ok ht) (hv : vk ht (sig.take 64) = true) :
    finalizedTaproot lh vk vl ⟨sht, sig, ss, ls⟩ = .ok ([], [sig]) := by
  simp [finalizedTaproot, hne, hht, hv, bind, Except.bind, pure, Except.pure]

theorem finalize_taproot_leaf (lh : Nat → Bytes → Bytes) (vk : Nat → Bytes → Bool) (vl : Nat → Bytes → Bytes → Bytes → Bool)
    (sht : Option Nat) (x lhash sig cb : Bytes) (ht : Nat) (hx : x.length = 32) (hlh : lhash.length = 32)
    (hleaf : lh 0xc0 (pkLeaf x) = lhash)
    (hht : tapSigHashType sig sht = .ok ht) (hv : vl ht lhash x (sig.take 64) = true) :
    finalizedTaproot lh vk vl ⟨sht, [], [(x ++ lhash, sig)], [(cb, pkLeaf x, 0xc0)]⟩ = .ok ([], [sig, pkLeaf x, cb]) := by
  have h1 : (x ++ lhash).take 32 = x := List.take_left' hx
  have h2 : (x ++ lhash).drop 32 = lhash := List.drop_left' hx
  have hk : singleLeafKey (pkLeaf x) = .ok x := by
    have hd : (x ++ [172]).take 32 = x := List.take_left' hx
    have h33 : (x ++ [172])[32]? = some 172 := by
      rw [List.getElem?_append_right (by omega)]; simp [hx]
    simp [singleLeafKey, pkLeaf, Gen.Spend.PUSH_32, Gen.Spend.OP_CHECKSIG, Gen.Spend.SINGLE_KEY_LEAF_SIZE, getB, hx,
      List.getD, h33, hd]
  have hls : Spend.leafScript lh ⟨sht, [], [(x ++ lhash, sig)], [(cb, pkLeaf x, 0xc0)]⟩ lhash = .ok (pkLeaf x, cb) := by
    simp [Spend.leafScript, hleaf]
  simp [finalizedTaproot, Gen.Spend.LEAF_HASH_SIZE, h1, h2, hht, hlh, hls, hk, hv, bind, Except.bind,
    pure, Except.pure]

end Btc.C18.Fin

namespace Btc.C18.Fin
open Btc Btc.Script Btc.Spend
open Btc.Script.Core (getB)

theorem isP2pkh_p2pkh (h : Bytes) (hl : h.length = 20) : isP2pkh (p2pkh h) = true := by
  have hd : (h ++ [136, 172]).drop 20 = [136, 172] := List.drop_left' hl
  simp [isP2pkh, p2pkh, Gen.Spend.P2PKH_PREFIX, Gen.Spend.P2PKH_SUFFIX, getB, hl, hd]

theorem p2pkh_length (h : Bytes) (hl : h.length = 20) : (p2pkh h).length = 25 := by
  simp [p2pkh, Gen.Spend.P2PKH_PREFIX, Gen.Spend.P2PKH_SUFFIX, hl]

/-- pkh() inside sh(): script_sig `sig pk redeem`, no witness (psbt.py `_finalized_input`, repaired in f2a4dfc2) -/
theorem finalize_sh_pkh (vk : Bytes → Bool) (h hr pk sig : Bytes) (hl : h.length = 20) (hrl : hr.length = 20) :
    finalizedInput vk ⟨some (p2sh hr), p2pkh h, [], [(pk, sig)]⟩ = .ok (serializePushes [sig, pk, p2pkh h], []) := by
  have e := p2pkh_length h hl
  have h87 : (hr ++ [135])[20]? = some 135 := by
    rw [List.getElem?_append_right (by omega)]; simp [hrl]
  have hs : isP2sh (p2sh hr) = true := by
    simp [isP2sh, p2sh, Gen.Spend.P2SH_PREFIX, Gen.Spend.P2SH_SUFFIX, getB, List.getD, h87, hrl]
  have hms : p2msMAndKeys vk (p2pkh h) = none := by simp [p2msMAndKeys, e]
  have hnw : isP2wpkh (p2pkh h) = false := by simp [isP2wpkh, e]
  have hk := isP2pkh_p2pkh h hl
  have hne : (p2pkh h).isEmpty = false := by simp [p2pkh, Gen.Spend.P2PKH_PREFIX]
  simp [finalizedInput, pushedSigs, satisfiedScript, spentScript, hs, hms, hnw, hk, hne, singleKey, serializePushes,
    bind, Except.bind, pure, Except.pure]

/-- pkh() inside wsh(), native or behind p2sh: witness `[sig, pk, witness_script]`, script_sig empty or the push of
    the redeem script — whatever the script_pub_key is -/
theorem finalize_wsh_pkh (vk : Bytes → Bool) (spk redeem h pk sig : Bytes) (hl : h.length = 20) :
    finalizedInput vk ⟨some spk, redeem, p2pkh h, [(pk, sig)]⟩ =
      .ok (serializePushes (if redeem.isEmpty then [] else [redeem]), [sig, pk, p2pkh h]) := by
  have e := p2pkh_length h hl
  have hms : p2msMAndKeys vk (p2pkh h) = none := by simp [p2msMAndKeys, e]
  have hk := isP2pkh_p2pkh h hl
  have hne : (p2pkh h).isEmpty = false := by simp [p2pkh, Gen.Spend.P2PKH_PREFIX]
  by_cases hr : redeem.isEmpty = true <;>
    simp [finalizedInput, pushedSigs, satisfiedScript, hms, hk, hne, hr, singleKey, serializePushes, bip147Dummy, isP2ms,
      bind, Except.bind, pure, Except.pure, Except.map]

end Btc.C18.Fin
