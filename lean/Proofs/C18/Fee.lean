import Model.C18.Fee
import Proofs.C05.VarInt
/-! helper lemmas for Props/C18: closed forms of the translated fee functions on naturals. -/
namespace Btc.C18
open Btc Btc.Py

/-- ceiling division by 1000 on naturals -/
def ceilK (p : Nat) : Nat := (p + 999) / 1000

theorem ceilK_spec (p : Nat) : ceilK p * 1000 ≥ p ∧ (ceilK p = 0 ∨ p > (ceilK p - 1) * 1000) := by
  unfold ceilK; omega

theorem ceilK_mono {p q : Nat} (h : p ≤ q) : ceilK p ≤ ceilK q := by
  unfold ceilK; omega

/-- the translated `fee_from_vsize` on a non-negative size and rate is the exact ceiling -/
theorem fee_from_vsize_nat (v r : Nat) :
    Gen.Fee.fee_from_vsize (v : Int) (r : Int) = .ok ((ceilK (r * v) : Nat) : Int) := by
  unfold Gen.Fee.fee_from_vsize Gen.Fee.VBYTES_PER_KVBYTE ceilK
  have h0 : ¬ ((v : Int) < 0) := by omega
  simp only [h0, if_false]
  have hp : (r : Int) * (v : Int) = ((r * v : Nat) : Int) := by simp
  rw [hp]
  generalize r * v = p
  show Except.ok _ = Except.ok _
  congr 1
  split <;> omega

theorem fee_from_vsize_neg (v r : Int) (h : v < 0) :
    Gen.Fee.fee_from_vsize v r = .error .value := by
  unfold Gen.Fee.fee_from_vsize
  simp [h]; rfl

theorem feeRate_nat (r : Nat) : feeRate (r : Int) = .ok (r : Int) := by
  unfold feeRate
  have : ¬ ((r : Int) < 0) := by omega
  simp [this]

theorem feeFromVsize_nat (v r : Nat) :
    feeFromVsize (v : Int) (r : Int) = .ok ((ceilK (r * v) : Nat) : Int) := by
  unfold feeFromVsize
  rw [feeRate_nat]
  exact fee_from_vsize_nat v r

theorem valid_sats_amount_eq (s : Int) :
    Gen.Fee.valid_sats_amount s 0 =
      if 0 ≤ s ∧ s ≤ Gen.Fee.MAX_SATOSHI then .ok s else .error .value := by
  unfold Gen.Fee.valid_sats_amount
  by_cases h : 0 ≤ s ∧ s ≤ Gen.Fee.MAX_SATOSHI
  · simp [h]; rfl
  · simp [h]; rfl

/-- length of the translated CompactSize encoding -/
theorem varint_len (n : Nat) (b : Bytes) (h : Gen.VarInt.serialize (n : Int) = .ok b) :
    b.length = Core.sizeOfCompactSize n := by
  rw [Btc.VarInt.serialize_nat] at h
  unfold Core.sizeOfCompactSize
  have l2 : (leBytes 2 n).length = 2 := by simp [leBytes]
  have l4 : (leBytes 4 n).length = 4 := by simp [leBytes]
  have l8 : (leBytes 8 n).length = 8 := by simp [leBytes]
  split at h
  · cases h; rename_i h1; simp [h1]
  · rename_i h1
    split at h
    · cases h; rename_i h2; simp [h1, show n ≤ 0xFFFF by omega, l2]
    · rename_i h2
      split at h
      · cases h; rename_i h3
        simp [h1, show ¬ n ≤ 0xFFFF by omega, show n ≤ 0xFFFFFFFF by omega, l4]
      · rename_i h3
        split at h
        · cases h
          simp [h1, show ¬ n ≤ 0xFFFF by omega, show ¬ n ≤ 0xFFFFFFFF by omega, l8]
        · cases h

theorem varint_ok_small (n : Nat) (h : n ≤ 10000) : ∃ b, Gen.VarInt.serialize (n : Int) = .ok b := by
  rw [Btc.VarInt.serialize_nat]
  by_cases h1 : n < 253
  · exact ⟨[UInt8.ofNat n], by simp [h1]⟩
  · exact ⟨253 :: leBytes 2 n, by simp [h1, show n ≤ 65535 by omega]⟩

/-- btclib's witness-program shape test is Core's -/
theorem isSegwit_eq_core (s : Bytes) : isSegwit s = Core.isWitnessProgram s := by
  unfold isSegwit Core.isWitnessProgram
  match s with
  | [] => simp
  | [v] => simp
  | v :: p :: rest =>
    simp only [List.length_cons]
    generalize rest.length = n
    generalize v.toNat = a
    generalize p.toNat = b
    by_cases c1 : a = 0 <;> by_cases c1b : (0x51 ≤ a ∧ a ≤ 0x60) <;> by_cases c2 : (2 ≤ b ∧ b ≤ 40) <;>
      by_cases c3 : n = b <;> by_cases c4 : (n + 1 + 1 < 4 ∨ n + 1 + 1 > 42) <;> simp [*]
    all_goals first
      | omega
      | (have h1 : (n == b) = false := by simpa using c3
         have h2 : (b == n) = false := by simp; omega
         rw [h1, h2]; try simp)

theorem unspendable_iff (spk : Bytes) :
    ((Btc.Py.slice spk none (some 1) = ([106] : Bytes)) ∨ (Btc.Py.len spk > Gen.Fee.MAX_SCRIPT_SIZE)) ↔
      Core.isUnspendable spk = true := by
  have hslice : (Btc.Py.slice spk none (some 1) = ([106] : Bytes)) ↔ Core.beginsWith spk 0x6a = true := by
    cases spk with
    | nil => simp [Btc.Py.slice, Btc.Py.normIdx, Core.beginsWith]
    | cons b t =>
      simp [Btc.Py.slice, Btc.Py.normIdx, Core.beginsWith]
      constructor
      · intro hb; subst hb; rfl
      · intro hb; apply UInt8.toNat_inj.mp; simpa using hb
  have hlen : (Btc.Py.len spk > Gen.Fee.MAX_SCRIPT_SIZE) ↔ spk.length > 10000 := by
    unfold Btc.Py.len Gen.Fee.MAX_SCRIPT_SIZE; omega
  unfold Core.isUnspendable
  rw [hslice, hlen]
  simp

/-- the translated `dust_threshold`, fed btclib's `is_segwit`, computes Core's `GetDustThreshold` -/
theorem dust_threshold_gen_eq (spk : Bytes) (rate : Nat) :
    Gen.Fee.dust_threshold spk (rate : Int) (isSegwit spk) =
      .ok ((Core.getDustThreshold spk rate : Nat) : Int) := by
  unfold Gen.Fee.dust_threshold Core.getDustThreshold
  rw [isSegwit_eq_core]
  by_cases hu : Core.isUnspendable spk = true
  · have hu' := (unspendable_iff spk).mpr hu
    simp only [hu', hu, if_true]
    rfl
  · have hu' : ¬ _ := fun h => hu ((unspendable_iff spk).mp h)
    simp only [hu', hu, if_false]
    have hsmall : spk.length ≤ 10000 := by
      unfold Core.isUnspendable at hu
      simp only [Bool.or_eq_true, decide_eq_true_eq, not_or] at hu
      omega
    obtain ⟨b, hb⟩ := varint_ok_small spk.length hsmall
    have hl := varint_len spk.length b hb
    have hb' : Gen.VarInt.serialize (Btc.Py.len spk) = .ok b := hb
    simp only [hb', bind, Except.bind]
    unfold Btc.Py.len Gen.Fee.TXOUT_VALUE_SIZE Gen.Fee.SEGWIT_SPEND_SIZE Gen.Fee.SPEND_SIZE Core.getFee
    rw [hl]
    by_cases hw : Core.isWitnessProgram spk = true
    · simp only [hw, if_true]
      have e : ((8 : Int) + (Core.sizeOfCompactSize spk.length : Nat) + (spk.length : Nat) + 67) =
          ((8 + Core.sizeOfCompactSize spk.length + spk.length + (32 + 4 + 1 + 107 / 4 + 4) : Nat) : Int) := by omega
      rw [e, fee_from_vsize_nat]; rfl
    · simp only [hw]
      have e : ((8 : Int) + (Core.sizeOfCompactSize spk.length : Nat) + (spk.length : Nat) + 148) =
          ((8 + Core.sizeOfCompactSize spk.length + spk.length + (32 + 4 + 1 + 107 + 4) : Nat) : Int) := by omega
      simp only [Bool.false_eq_true, if_false]
      rw [e, fee_from_vsize_nat]; rfl

end Btc.C18
