import Model.C18.Funding
import Proofs.C18.Fee
/-! closed forms of the funding decision, one per way the monadic code can go -/
namespace Btc.C18
open Btc Btc.Py

/-- inversion of the no-change exit -/
theorem fundNoChange_ok (a : FundArgs) (est : Bool → Except PyErr Int) (r : Funded)
    (h : fundNoChange a est = .ok r) :
    a.nOut ≠ 0 ∧ ∃ v owed, est false = .ok v ∧ Gen.Fee.fee_from_vsize v a.rate = .ok owed ∧
      owed ≤ a.totalIn - a.totalOut ∧ r = ⟨a.totalIn - a.totalOut, none⟩ := by
  unfold fundNoChange at h
  by_cases hn : a.nOut = 0
  · simp [hn] at h; cases h
  · simp only [hn, if_false] at h
    cases he : est false with
    | error e => simp [he, bind, Except.bind] at h
    | ok v =>
      cases hf : Gen.Fee.fee_from_vsize v a.rate with
      | error e => simp [he, hf, bind, Except.bind] at h
      | ok owed =>
        simp only [he, hf, bind, Except.bind, pure, Except.pure] at h
        by_cases hc : a.totalIn - a.totalOut < owed
        · simp [hc] at h
        · simp only [hc, if_false] at h
          refine ⟨hn, v, owed, (by first | assumption | rfl), (by first | assumption | rfl), by omega, ?_⟩
          cases h; rfl

/-- the no-change exit when the estimator and the fee answer -/
theorem fundNoChange_eq (a : FundArgs) (est : Bool → Except PyErr Int) (v owed : Int)
    (he : est false = .ok v) (hf : Gen.Fee.fee_from_vsize v a.rate = .ok owed) :
    fundNoChange a est =
      if a.nOut = 0 ∨ a.totalIn - a.totalOut < owed then .error .value
      else .ok ⟨a.totalIn - a.totalOut, none⟩ := by
  unfold fundNoChange
  by_cases hn : a.nOut = 0
  · simp [hn]; rfl
  · simp only [hn, if_false, he, hf, bind, Except.bind, false_or]
    by_cases hc : a.totalIn - a.totalOut < owed
    · simp [hc]; rfl
    · simp [hc]; rfl

/-- inversion of `fund` -/
theorem fund_ok (a : FundArgs) (est : Bool → Except PyErr Int) (r : Funded) (h : fund a est = .ok r) :
    a.nIn ≠ 0 ∧ a.totalOut ≤ Gen.Fee.MAX_SATOSHI ∧
    ((fundNoChange a est = .ok r ∧
        (a.change = none ∨ ∃ script v fee dust, a.change = some script ∧ est true = .ok v ∧
          Gen.Fee.fee_from_vsize v a.rate = .ok fee ∧ dustThreshold script a.dustRate = .ok dust ∧
          a.totalIn - a.totalOut - fee < dust)) ∨
     (∃ script v fee dust, a.change = some script ∧ est true = .ok v ∧
        Gen.Fee.fee_from_vsize v a.rate = .ok fee ∧ dustThreshold script a.dustRate = .ok dust ∧
        a.totalIn - a.totalOut - fee ≥ dust ∧ a.totalOut + (a.totalIn - a.totalOut - fee) ≤ Gen.Fee.MAX_SATOSHI ∧
        r = ⟨fee, some (a.totalIn - a.totalOut - fee)⟩)) := by
  unfold fund at h
  by_cases hi : a.nIn = 0
  · simp [hi] at h; cases h
  simp only [hi, if_false] at h
  by_cases hm : a.totalOut > Gen.Fee.MAX_SATOSHI
  · simp [hm] at h; cases h
  · simp only [hm, if_false] at h
    refine ⟨hi, by omega, ?_⟩
    cases hch : a.change with
    | none =>
      simp only [hch] at h
      exact Or.inl ⟨h, Or.inl rfl⟩
    | some script =>
      simp only [hch] at h
      cases he : est true with
      | error e => simp [he, bind, Except.bind] at h
      | ok v =>
        cases hf : Gen.Fee.fee_from_vsize v a.rate with
        | error e => simp [he, hf, bind, Except.bind] at h
        | ok fee =>
          cases hd : dustThreshold script a.dustRate with
          | error e => simp [he, hf, hd, bind, Except.bind] at h
          | ok dust =>
            simp only [he, hf, hd, bind, Except.bind, pure, Except.pure] at h
            by_cases hc : a.totalIn - a.totalOut - fee ≥ dust
            · simp only [hc, if_true] at h
              by_cases hx : a.totalOut + (a.totalIn - a.totalOut - fee) > Gen.Fee.MAX_SATOSHI
              · simp [hx] at h
              · simp only [hx, if_false] at h
                refine Or.inr ⟨script, v, fee, dust, (by first | assumption | rfl), (by first | assumption | rfl), (by first | assumption | rfl), (by first | assumption | rfl), hc, by omega, ?_⟩
                cases h; rfl
            · simp only [hc, if_false] at h
              exact Or.inl ⟨h, Or.inr ⟨script, v, fee, dust, (by first | assumption | rfl), (by first | assumption | rfl), (by first | assumption | rfl), (by first | assumption | rfl), by omega⟩⟩

/-- `fund` on the change branch when estimator, fee and dust threshold answer -/
theorem fund_eq_change (a : FundArgs) (est : Bool → Except PyErr Int) (script : Bytes) (v fee dust : Int)
    (hi : a.nIn ≠ 0) (hm : a.totalOut ≤ Gen.Fee.MAX_SATOSHI) (hch : a.change = some script) (he : est true = .ok v)
    (hf : Gen.Fee.fee_from_vsize v a.rate = .ok fee) (hd : dustThreshold script a.dustRate = .ok dust) :
    fund a est =
      if a.totalIn - a.totalOut - fee ≥ dust then
        (if a.totalIn - fee > Gen.Fee.MAX_SATOSHI then .error .value
         else .ok ⟨fee, some (a.totalIn - a.totalOut - fee)⟩)
      else fundNoChange a est := by
  unfold fund
  have hm' : ¬ a.totalOut > Gen.Fee.MAX_SATOSHI := by omega
  simp only [hi, hm', if_false, hch, he, hf, hd, bind, Except.bind]
  by_cases hc : a.totalIn - a.totalOut - fee ≥ dust
  · simp only [hc, if_true]
    by_cases hx : a.totalIn - fee > Gen.Fee.MAX_SATOSHI
    · have : a.totalOut + (a.totalIn - a.totalOut - fee) > Gen.Fee.MAX_SATOSHI := by omega
      simp [hx, this]; rfl
    · have : ¬ a.totalOut + (a.totalIn - a.totalOut - fee) > Gen.Fee.MAX_SATOSHI := by omega
      simp [hx, this]; rfl
  · simp only [hc, if_false]

theorem fund_eq_nochange (a : FundArgs) (est : Bool → Except PyErr Int)
    (hi : a.nIn ≠ 0) (hm : a.totalOut ≤ Gen.Fee.MAX_SATOSHI) (hch : a.change = none) :
    fund a est = fundNoChange a est := by
  unfold fund
  have hm' : ¬ a.totalOut > Gen.Fee.MAX_SATOSHI := by omega
  simp only [hi, hm', if_false, hch]

theorem fund_no_inputs (a : FundArgs) (est : Bool → Except PyErr Int) (hi : a.nIn = 0) :
    fund a est = .error .value := by
  unfold fund; simp [hi]; rfl

end Btc.C18
