import Model.C18.BlockSize
/-! sizes and weights as sums -/
namespace Btc.C18
open Btc

theorem cs_eq_size (n : Nat) : ((cs n : Nat) : Int) = Gen.VarInt.size (n : Int) := by
  unfold cs Core.sizeOfCompactSize Gen.VarInt.size
  split <;> split <;> try omega
  all_goals (split <;> split <;> try omega)
  all_goals (split <;> split <;> omega)

theorem sum_weight (f g : TxParts → Int) : ∀ (l : List TxParts),
    (l.map f).sum * 3 + (l.map g).sum = (l.map fun t => 3 * f t + g t).sum
  | [] => by simp
  | t :: l => by
    have := sum_weight f g l
    simp only [List.map_cons, List.sum_cons]
    omega

/-- the hand-written `txSize` (over which the estimate ≥ actual monotonicity is proved) IS the translated
    `Tx._serialized_size` of the placeholder transaction's parts -/
theorem txSize_eq_translated (iw : Bool) (ins : List (Nat × List Nat)) (nOut outs : Nat) :
    ((txSize iw ins nOut outs : Nat) : Int) = txSer iw (partsOf ins nOut outs) := by
  unfold txSize txSer partsOf Gen.Fee.tx_serialized_size
  simp only [← cs_eq_size]
  cases iw <;> cases h : (ins.any fun i => !i.2.isEmpty) <;> simp <;> omega

/-- the threshold the estimate reads off OP_m is m, for EVERY m (OP_16 included) -/
theorem p2msM_eq (pl : Bytes) (m : Nat) (hm : Btc.Script.Core.getB pl 0 = Gen.Fee.OP_INT_OFFSET.toNat + m) :
    p2msM pl = m := by
  unfold p2msM Gen.Fee.p2ms_threshold
  rw [hm]
  have : Gen.Fee.OP_INT_OFFSET = 80 := rfl
  simp only [this]
  omega

end Btc.C18
