import Model.C04.Switch
/-!
Lemmas about the hand-written state-machine MODEL of the switch (`Model/C04/Switch.lean`).  They hold by the
definition of `setServing` (it does not mention `rest`); the fact about the CODE is `Props.C04.set_serving_writes_only_the_flag`
(names read off the AST by the translator) plus the harness oracle `switch` (module-global snapshots).  Not counted as
property obligations.
-/
namespace Proofs.C04
open Btc.C04

theorem set_serving_preserves_rest {ρ : Type} (inst b : Bool) (st st' : PkgState ρ)
    (h : setServing inst b st = .ok st') : st'.rest = st.rest ∧ isServing st' = b := by
  unfold setServing at h
  split at h
  · cases h
  · cases h; exact ⟨rfl, rfl⟩

theorem set_serving_refusal_is_value_error {ρ : Type} (inst b : Bool) (st : PkgState ρ) :
    setServing inst b st = .error .value ↔ (b = true ∧ inst = false) := by
  cases inst <;> cases b <;> simp [setServing]

theorem history_preserves_rest {ρ : Type} (inst : Bool) (st : PkgState ρ) (hist : List Bool) :
    (runHistory inst st hist).rest = st.rest := by
  induction hist generalizing st with
  | nil => rfl
  | cons b bs ih =>
    simp only [runHistory]
    cases hs : setServing inst b st with
    | error e => exact ih st
    | ok st' =>
      rw [ih st']
      exact (set_serving_preserves_rest inst b st st' hs).1

theorem history_last_wins {ρ : Type} (st : PkgState ρ) (hist : List Bool) (b : Bool) :
    isServing (runHistory true st (hist ++ [b])) = b := by
  induction hist generalizing st with
  | nil => simp [runHistory, setServing, isServing]
  | cons c cs ih => simp [runHistory, setServing, ih]

theorem serves_reads_flag_only {ρ : Type} (s1 s2 : PkgState ρ) (h : s1.available = s2.available) (e hf : Bool) :
    serves s1 e hf = serves s2 e hf := by
  simp [serves, h]

end Proofs.C04
