import Proofs.C12.Tree
/-
C12: the guards of `tree_helper` / `_tree_helper` on arbitrary Python values (`PyVal`): what is answered is exactly
the image of a `Tree`; everything else is refused, and which refusal.
-/
namespace Btc.Taproot
open Btc Gen.Taproot

/-- the script position: a list of commands serialising to `b` (`[]` serialises to `b""`) -/
inductive IsScript : PyVal → Bytes → Prop
  | cmds (n : Nat) (b : Bytes) : IsScript (.cmds n b) b
  | script (cs : List Cmd) (b : Bytes) : serializeTap cs = .ok b → IsScript (.script cs) b
  | nil : IsScript (.nil true) []

/-- `WellFormed v t`: the Python value `v` is a script tree in the sense of the `TaprootScriptTree` alias — a node is a
    list or tuple of ONE `(int version, list script)` pair or of TWO well-formed nodes — and `t` is the tree it is read
    as (version reduced mod 256, which `& 0xFE` cannot tell from the version itself) -/
inductive WellFormed : PyVal → Tree → Prop
  | leaf (l l' : Bool) (v : Int) (s : PyVal) (b : Bytes) : IsScript s b →
      WellFormed (.one l (.two l' (.int v) s)) (.leaf (v % 256).toNat b)
  | node (l : Bool) (x y : PyVal) (tx ty : Tree) : WellFormed x tx → WellFormed y ty →
      WellFormed (.two l x y) (.node tx ty)

theorem scriptBytes_ok_iff (s : PyVal) (b : Bytes) : s.scriptBytes = .ok b ↔ IsScript s b := by
  constructor
  · intro h
    cases s with
    | cmds n b' => cases h; exact .cmds n b
    | script cs =>
      simp only [PyVal.scriptBytes] at h
      cases hs : serializeTap cs with
      | ok b' => rw [hs] at h; cases h; exact .script cs b hs
      | error e => rw [hs] at h; cases e <;> cases h
    | nil l => cases l <;> cases h; exact .nil
    | one l _ => cases l <;> cases h
    | two l _ _ => cases l <;> cases h
    | many l _ => cases l <;> cases h
    | int _ => cases h
    | atom _ => cases h
  · rintro (⟨n, b⟩ | ⟨cs, b, hs⟩ | _)
    · rfl
    · simp only [PyVal.scriptBytes, hs]
    · rfl

theorem toLeaf_ok_iff (x : PyVal) (t : Tree) :
    x.toLeaf = .ok t ↔ ∃ l' v s b, x = .two l' (.int v) s ∧ IsScript s b ∧ t = .leaf (v % 256).toNat b := by
  constructor
  · intro h
    cases x with
    | two l' a s =>
      cases a with
      | int v =>
        simp only [PyVal.toLeaf] at h
        cases hs : s.scriptBytes with
        | error e => rw [hs] at h; cases h
        | ok b =>
          rw [hs] at h; cases h
          exact ⟨l', v, s, b, rfl, (scriptBytes_ok_iff s b).mp hs, rfl⟩
      | _ => cases h
    | cmds n b => unfold PyVal.toLeaf at h; split at h <;> first | cases h | (rename_i heq; cases heq)
    | script cs => unfold PyVal.toLeaf at h; split at h <;> first | cases h | (rename_i heq; cases heq)
    | _ => cases h
  · rintro ⟨l', v, s, b, rfl, hs, rfl⟩
    simp only [PyVal.toLeaf, (scriptBytes_ok_iff s b).mpr hs]; rfl

theorem depth_cap : MAX_TREE_DEPTH = 128 := rfl

/-- on a well-formed script tree `_subtree_helper(·, d)` answers iff no node lies deeper than `MAX_TREE_DEPTH`
    (`d + depth ≤ 128`), and refuses with the depth refusal otherwise -/
theorem toTreeAt_wellFormed {v : PyVal} {t : Tree} (h : WellFormed v t) : ∀ d : Nat,
    v.toTreeAt d = if d + t.depth ≤ 128 then .ok t else .error .deep := by
  induction h with
  | leaf l l' z s b hs =>
    intro d
    have hl : (PyVal.two l' (.int z) s).toLeaf = .ok (.leaf (z % 256).toNat b) :=
      (toLeaf_ok_iff _ _).mpr ⟨l', z, s, b, rfl, hs, rfl⟩
    have hdep : (Tree.leaf (z % 256).toNat b).depth = 0 := rfl
    unfold PyVal.toTreeAt
    rw [hl]
    by_cases hd : d > MAX_TREE_DEPTH
    · rw [if_pos hd]; rw [depth_cap] at hd
      rw [if_neg (by rw [hdep]; omega)]
    · rw [if_neg hd]; rw [depth_cap] at hd
      rw [if_pos (by rw [hdep]; omega)]
  | node l x y tx ty _ _ ihx ihy =>
    intro d
    have hdep : (Tree.node tx ty).depth = max tx.depth ty.depth + 1 := rfl
    unfold PyVal.toTreeAt
    rw [ihx (d + 1), ihy (d + 1)]
    by_cases hd : d > MAX_TREE_DEPTH
    · rw [if_pos hd]; rw [depth_cap] at hd
      rw [if_neg (by rw [hdep]; omega)]
    · rw [if_neg hd]; rw [depth_cap] at hd
      by_cases hx : d + 1 + tx.depth ≤ 128
      · rw [if_pos hx]
        by_cases hy : d + 1 + ty.depth ≤ 128
        · rw [if_pos hy, if_pos (by rw [hdep]; omega)]
        · rw [if_neg hy, if_neg (by rw [hdep]; omega)]
      · rw [if_neg hx]
        exact (if_neg (by rw [hdep]; omega)).symm

/-- whatever `_subtree_helper` answers is a well-formed script tree -/
theorem toTreeAt_ok_wellFormed : ∀ (v : PyVal) (d : Nat) (t : Tree), v.toTreeAt d = .ok t → WellFormed v t
  | .one l x, d, t, h => by
    simp only [PyVal.toTreeAt] at h
    split at h
    · cases h
    · obtain ⟨l', z, s, b, rfl, hs, rfl⟩ := (toLeaf_ok_iff x t).mp h
      exact .leaf l l' z s b hs
  | .two l x y, d, t, h => by
    simp only [PyVal.toTreeAt] at h
    split at h
    · cases h
    · cases hx : x.toTreeAt (d + 1) with
      | error e => rw [hx] at h; cases h
      | ok tx =>
        cases hy : y.toTreeAt (d + 1) with
        | error e => rw [hx, hy] at h; cases h
        | ok ty =>
          rw [hx, hy] at h; cases h
          exact .node l x y tx ty (toTreeAt_ok_wellFormed x _ tx hx) (toTreeAt_ok_wellFormed y _ ty hy)
  | .int _, d, t, h => by simp only [PyVal.toTreeAt] at h; split at h <;> cases h
  | .atom _, d, t, h => by simp only [PyVal.toTreeAt] at h; split at h <;> cases h
  | .nil _, d, t, h => by simp only [PyVal.toTreeAt] at h; split at h <;> cases h
  | .many _ _, d, t, h => by simp only [PyVal.toTreeAt] at h; split at h <;> cases h
  | .cmds n b, d, t, h => by
    unfold PyVal.toTreeAt at h
    split at h <;> first | (rename_i heq; cases heq; done) | (repeat' split at h) <;> cases h
  | .script cs, d, t, h => by
    unfold PyVal.toTreeAt at h
    split at h <;> first | (rename_i heq; cases heq; done) | (repeat' split at h) <;> cases h

/-- what `tree_helper` does not refuse is a well-formed script tree of depth ≤ `MAX_TREE_DEPTH`, and every such tree
    is answered -/
theorem toTree_ok_iff (v : PyVal) (t : Tree) : v.toTree = .ok t ↔ WellFormed v t ∧ t.depth ≤ 128 := by
  unfold PyVal.toTree
  constructor
  · intro h
    have hw := toTreeAt_ok_wellFormed v 0 t h
    refine ⟨hw, ?_⟩
    rw [toTreeAt_wellFormed hw 0] at h
    split at h
    · omega
    · cases h
  · rintro ⟨hw, hd⟩
    rw [toTreeAt_wellFormed hw 0, if_pos (by omega)]

/-- a well-formed script tree nested deeper than `MAX_TREE_DEPTH` is refused -/
theorem toTree_deep {v : PyVal} {t : Tree} (hw : WellFormed v t) (hd : 128 < t.depth) : v.toTree = .error .deep := by
  unfold PyVal.toTree
  rw [toTreeAt_wellFormed hw 0, if_neg (by omega)]

theorem wellFormed_truthy {v : PyVal} {t : Tree} (h : WellFormed v t) : v.truthy = true := by
  cases h <;> rfl

/-- a falsy value (`None`, `[]`, `()`, `0`, `""` …) is refused as a node by `tree_helper` -/
theorem toTree_falsy (v : PyVal) (h : v.truthy = false) : v.toTree = .error .node := by
  cases v with
  | int _ => rfl
  | atom _ => rfl
  | nil _ => rfl
  | cmds n b =>
    have : n = 0 := by simpa [PyVal.truthy] using h
    subst this; rfl
  | script cs =>
    have : cs = [] := by simpa [PyVal.truthy] using h
    subst this; rfl
  | one _ _ => cases h
  | two _ _ _ => cases h
  | many _ _ => cases h

/-- the version as `_tree_helper` keeps it: `& 0xFE` of the residue is `& 0xFE` of the integer -/
theorem mask_mod (v : Nat) : (v % 256) &&& LEAF_MASK = v &&& LEAF_MASK := by
  have h1 : (v &&& 254) % 2 ^ 8 = (v % 2 ^ 8) &&& (254 % 2 ^ 8) := Nat.and_mod_two_pow
  have h2 : (v &&& 254) % 2 ^ 8 = v &&& 254 :=
    Nat.mod_eq_of_lt (Nat.lt_of_le_of_lt Nat.and_le_right (by omega))
  show (v % 256) &&& 254 = v &&& 254
  rw [← h2, h1]

/-- reading a version modulo 256 changes nothing `tree_helper` returns -/
def Tree.norm : Tree → Tree
  | .leaf v s => .leaf (v % 256) s
  | .node x y => .node x.norm y.norm

theorem treeHelper_norm (H : TagHash) : ∀ t : Tree, treeHelper H t.norm = treeHelper H t
  | .leaf v s => by simp only [Tree.norm, treeHelper, mask_mod]
  | .node x y => by simp only [Tree.norm, treeHelper, treeHelper_norm H x, treeHelper_norm H y]

theorem norm_depth : ∀ t : Tree, t.norm.depth = t.depth
  | .leaf _ _ => rfl
  | .node x y => by simp only [Tree.norm, Tree.depth, norm_depth x, norm_depth y]

theorem wellFormed_toPy (l : Bool) (n : Nat) : ∀ t : Tree, WellFormed (t.toPy l n) t.norm
  | .leaf v s => by
    have : ((v : Int) % 256).toNat = v % 256 := by omega
    have h := WellFormed.leaf l (!l) (v : Int) (.cmds n s) s (.cmds n s)
    rw [this] at h; exact h
  | .node x y => .node l _ _ _ _ (wellFormed_toPy l n x) (wellFormed_toPy l n y)

/-- the Python-level `tree_helper` IS the `Tree`-level one on every script tree of depth ≤ 128, whichever way it is
    spelled, and refuses every deeper one -/
theorem treeHelperPy_toPy (H : TagHash) (l : Bool) (n : Nat) (t : Tree) :
    (t.depth ≤ 128 → treeHelperPy H (t.toPy l n) = .ok (treeHelper H t)) ∧
    (128 < t.depth → treeHelperPy H (t.toPy l n) = .error .deep) := by
  unfold treeHelperPy
  constructor
  · intro hd
    rw [(toTree_ok_iff _ _).mpr ⟨wellFormed_toPy l n t, by rw [norm_depth]; exact hd⟩, ← treeHelper_norm H t]; rfl
  · intro hd
    rw [toTree_deep (wellFormed_toPy l n t) (by rw [norm_depth]; exact hd)]; rfl

theorem treeHelperPy_ok_iff (H : TagHash) (v : PyVal) (r : List LeafInfo × Bytes) :
    treeHelperPy H v = .ok r ↔ ∃ t, WellFormed v t ∧ t.depth ≤ 128 ∧ r = treeHelper H t := by
  unfold treeHelperPy
  constructor
  · intro h
    cases ht : v.toTree with
    | error e => rw [ht] at h; cases h
    | ok t =>
      rw [ht] at h; cases h
      obtain ⟨hw, hd⟩ := (toTree_ok_iff v t).mp ht
      exact ⟨t, hw, hd, rfl⟩
  · rintro ⟨t, hw, hd, rfl⟩
    rw [(toTree_ok_iff v t).mpr ⟨hw, hd⟩]; rfl

section entry
variable {α : Type} (o : GroupOps α) (H : TagHash)

/-- on a well-formed tree (and SEC octets of a length `_sec_from_key` lets through) the three entry points are the
    `Tree`-level functions T1–T3 are stated about -/
theorem entry_points_wellFormed (sec : Option Bytes) (v : PyVal) (t : Tree) (d i : Int) (hw : WellFormed v t)
    (hd : t.depth ≤ 128) (hk : secLenBad sec = false) :
    outputPubkeyPy o H sec v = outputPubkey o H sec (some t) ∧
    outputPrvkeyPy o H d v = outputPrvkey o H d (some t) ∧
    inputScriptSigPy o H sec v i = inputScriptSig o H sec t i := by
  have h1 := wellFormed_truthy hw
  have h2 := (toTree_ok_iff v t).mpr ⟨hw, hd⟩
  simp [outputPubkeyPy, outputPrvkeyPy, inputScriptSigPy, h1, h2, hk]

/-- a falsy tree is no tree for `output_pubkey` / `output_prvkey` (key path only), and is refused by
    `input_script_sig` — after the key has been read -/
theorem entry_points_falsy (sec : Option Bytes) (v : PyVal) (d i : Int) (hf : v.truthy = false) :
    outputPubkeyPy o H sec v = outputPubkey o H sec none ∧
    outputPrvkeyPy o H d v = outputPrvkey o H d none ∧
    (∀ r, outputPubkey o H sec none = .ok r → inputScriptSigPy o H sec v i = .error .node) ∧
    (∀ e, outputPubkey o H sec none = .error e → inputScriptSigPy o H sec v i = .error e) := by
  have h2 := toTree_falsy v hf
  refine ⟨by simp [outputPubkeyPy, hf], by simp [outputPrvkeyPy, hf], ?_, ?_⟩
  · intro r hr; simp [inputScriptSigPy, hf, hr, h2]
  · intro e he; simp [inputScriptSigPy, hf, he]

/-- a truthy value that is no script tree is refused by all three entry points with `tree_helper`'s own refusal
    (the key's LENGTH being judged first, its being a point after) -/
theorem entry_points_malformed (sec : Option Bytes) (v : PyVal) (e : Err) (d i : Int) (ht : v.truthy = true)
    (he : v.toTree = .error e) (hk : secLenBad sec = false) :
    outputPubkeyPy o H sec v = .error e ∧ outputPrvkeyPy o H d v = .error e ∧
    inputScriptSigPy o H sec v i = .error e := by
  simp [outputPubkeyPy, outputPrvkeyPy, inputScriptSigPy, ht, he, hk]

end entry
end Btc.Taproot
