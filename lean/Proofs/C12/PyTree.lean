import Proofs.C12.Tree
/-
C12: the guards of `tree_helper` / `_tree_helper` on arbitrary Python values (`PyVal`): what is answered is exactly
the image of a `Tree`; everything else is refused, and which refusal.
-/
namespace Btc.Taproot
open Btc Gen.Taproot

/-- the script position: a list of commands serialising to `b` (`[]` serialises to `b""`) -/
inductive IsScript : PyVal → Bytes → Prop
  | cmds (n : Nat) (b : Bytes) : IsScript (.cmds n b) b
  | nil : IsScript (.nil true) []

/-- `WellFormed v t`: the Python value `v` is a script tree in the sense of the `TaprootScriptTree` alias — a node is a
    list or tuple of ONE `(int version, list script)` pair or of TWO well-formed nodes — and `t` is the tree it is read
    as (version reduced mod 256, which `& 0xFE` cannot tell from the version itself) -/
inductive WellFormed : PyVal → Tree → Prop
  | leaf (l l' : Bool) (v : Int) (s : PyVal) (b : Bytes) : IsScript s b →
      WellFormed (.one l (.two l' (.int v) s)) (.leaf (v % 256).toNat b)
  | node (l : Bool) (x y : PyVal) (tx ty : Tree) : WellFormed x tx → WellFormed y ty →
      WellFormed (.two l x y) (.node tx ty)

theorem scriptBytes_ok_iff (s : PyVal) (b : Bytes) : s.scriptBytes = .ok b ↔ IsScript s b := by
  constructor
  · intro h
    cases s with
    | cmds n b' => cases h; exact .cmds n b
    | nil l => cases l <;> cases h; exact .nil
    | one l _ => cases l <;> cases h
    | two l _ _ => cases l <;> cases h
    | many l _ => cases l <;> cases h
    | int _ => cases h
    | atom _ => cases h
  · rintro (⟨n, b⟩ | _) <;> rfl

theorem toLeaf_ok_iff (x : PyVal) (t : Tree) :
    x.toLeaf = .ok t ↔ ∃ l' v s b, x = .two l' (.int v) s ∧ IsScript s b ∧ t = .leaf (v % 256).toNat b := by
  constructor
  · intro h
    cases x with
    | two l' a s =>
      cases a with
      | int v =>
        simp only [PyVal.toLeaf] at h
        cases hs : s.scriptBytes with
        | error e => rw [hs] at h; cases h
        | ok b =>
          rw [hs] at h; cases h
          exact ⟨l', v, s, b, rfl, (scriptBytes_ok_iff s b).mp hs, rfl⟩
      | _ => cases h
    | cmds n b =>
      unfold PyVal.toLeaf at h
      split at h
      · rename_i heq; cases heq
      · rename_i heq; cases heq
      · cases h
      · cases h
    | _ => cases h
  · rintro ⟨l', v, s, b, rfl, hs, rfl⟩
    simp only [PyVal.toLeaf, (scriptBytes_ok_iff s b).mpr hs]; rfl

/-- what `tree_helper` does not refuse is a well-formed script tree, and every well-formed one is answered -/
theorem toTree_ok_iff : ∀ (v : PyVal) (t : Tree), v.toTree = .ok t ↔ WellFormed v t
  | .one l x, t => by
    show x.toLeaf = .ok t ↔ _
    rw [toLeaf_ok_iff]
    constructor
    · rintro ⟨l', v, s, b, rfl, hs, rfl⟩; exact .leaf l l' v s b hs
    · rintro (⟨_, l', v, s, b, hs⟩ | _); exact ⟨l', v, s, b, rfl, hs, rfl⟩
  | .two l x y, t => by
    have ihx := toTree_ok_iff x
    have ihy := toTree_ok_iff y
    constructor
    · intro h
      simp only [PyVal.toTree] at h
      cases hx : x.toTree with
      | error e => rw [hx] at h; cases h
      | ok tx =>
        cases hy : y.toTree with
        | error e => rw [hx, hy] at h; cases h
        | ok ty =>
          rw [hx, hy] at h; cases h
          exact .node l x y tx ty ((ihx tx).mp hx) ((ihy ty).mp hy)
    · rintro (_ | ⟨_, _, _, tx, ty, hx, hy⟩)
      simp only [PyVal.toTree, (ihx tx).mpr hx, (ihy ty).mpr hy]
  | .int _, t => by constructor <;> intro h <;> first | (simp [PyVal.toTree] at h) | cases h
  | .atom _, t => by constructor <;> intro h <;> first | (simp [PyVal.toTree] at h) | cases h
  | .nil _, t => by constructor <;> intro h <;> first | (simp [PyVal.toTree] at h) | cases h
  | .many _ _, t => by constructor <;> intro h <;> first | (simp [PyVal.toTree] at h) | cases h
  | .cmds n b, t => by
    constructor
    · intro h
      unfold PyVal.toTree at h
      split at h
      · rename_i heq; cases heq
      · rename_i heq; cases heq
      · cases h
      · cases h
    · intro h; cases h

theorem wellFormed_truthy {v : PyVal} {t : Tree} (h : WellFormed v t) : v.truthy = true := by
  cases h <;> rfl

/-- a falsy value (`None`, `[]`, `()`, `0`, `""` …) is refused as a node by `tree_helper` -/
theorem toTree_falsy (v : PyVal) (h : v.truthy = false) : v.toTree = .error .node := by
  cases v with
  | int _ => rfl
  | atom _ => rfl
  | nil _ => rfl
  | cmds n b =>
    have : n = 0 := by simpa [PyVal.truthy] using h
    subst this; rfl
  | one _ _ => cases h
  | two _ _ _ => cases h
  | many _ _ => cases h

/-- a `Tree` as a Python value (nodes as lists or tuples, scripts as lists of `n` commands) -/
def Tree.toPy (l : Bool) (n : Nat) : Tree → PyVal
  | .leaf v s => .one l (.two (!l) (.int v) (.cmds n s))
  | .node x y => .two l (x.toPy l n) (y.toPy l n)

/-- the version as `_tree_helper` keeps it: `& 0xFE` of the residue is `& 0xFE` of the integer -/
theorem mask_mod (v : Nat) : (v % 256) &&& LEAF_MASK = v &&& LEAF_MASK := by
  have h1 : (v &&& 254) % 2 ^ 8 = (v % 2 ^ 8) &&& (254 % 2 ^ 8) := Nat.and_mod_two_pow
  have h2 : (v &&& 254) % 2 ^ 8 = v &&& 254 :=
    Nat.mod_eq_of_lt (Nat.lt_of_le_of_lt Nat.and_le_right (by omega))
  show (v % 256) &&& 254 = v &&& 254
  rw [← h2, h1]

/-- reading a version modulo 256 changes nothing `tree_helper` returns -/
def Tree.norm : Tree → Tree
  | .leaf v s => .leaf (v % 256) s
  | .node x y => .node x.norm y.norm

theorem treeHelper_norm (H : TagHash) : ∀ t : Tree, treeHelper H t.norm = treeHelper H t
  | .leaf v s => by simp only [Tree.norm, treeHelper, mask_mod]
  | .node x y => by simp only [Tree.norm, treeHelper, treeHelper_norm H x, treeHelper_norm H y]

theorem toTree_toPy (l : Bool) (n : Nat) : ∀ t : Tree, (t.toPy l n).toTree = .ok t.norm
  | .leaf v s => by
    show ((PyVal.cmds n s).scriptBytes).map (Tree.leaf ((v : Int) % 256).toNat) = _
    have : ((v : Int) % 256).toNat = v % 256 := by omega
    rw [this]; rfl
  | .node x y => by
    simp only [Tree.toPy, PyVal.toTree, toTree_toPy l n x, toTree_toPy l n y, Tree.norm]

/-- the Python-level `tree_helper` IS the `Tree`-level one on every script tree, whichever way it is spelled -/
theorem treeHelperPy_toPy (H : TagHash) (l : Bool) (n : Nat) (t : Tree) :
    treeHelperPy H (t.toPy l n) = .ok (treeHelper H t) := by
  unfold treeHelperPy
  rw [toTree_toPy, ← treeHelper_norm H t]; rfl

theorem treeHelperPy_ok_iff (H : TagHash) (v : PyVal) (r : List LeafInfo × Bytes) :
    treeHelperPy H v = .ok r ↔ ∃ t, WellFormed v t ∧ r = treeHelper H t := by
  unfold treeHelperPy
  constructor
  · intro h
    cases ht : v.toTree with
    | error e => rw [ht] at h; cases h
    | ok t => rw [ht] at h; cases h; exact ⟨t, (toTree_ok_iff v t).mp ht, rfl⟩
  · rintro ⟨t, hw, rfl⟩
    rw [(toTree_ok_iff v t).mpr hw]; rfl

section entry
variable {α : Type} (o : GroupOps α) (H : TagHash)

/-- on a well-formed tree (and SEC octets of a length `_sec_from_key` lets through) the three entry points are the
    `Tree`-level functions T1–T3 are stated about -/
theorem entry_points_wellFormed (sec : Option Bytes) (v : PyVal) (t : Tree) (d i : Int) (hw : WellFormed v t)
    (hk : secLenBad sec = false) :
    outputPubkeyPy o H sec v = outputPubkey o H sec (some t) ∧
    outputPrvkeyPy o H d v = outputPrvkey o H d (some t) ∧
    inputScriptSigPy o H sec v i = inputScriptSig o H sec t i := by
  have h1 := wellFormed_truthy hw
  have h2 := (toTree_ok_iff v t).mpr hw
  simp [outputPubkeyPy, outputPrvkeyPy, inputScriptSigPy, h1, h2, hk]

/-- a falsy tree is no tree for `output_pubkey` / `output_prvkey` (key path only), and is refused by
    `input_script_sig` — after the key has been read -/
theorem entry_points_falsy (sec : Option Bytes) (v : PyVal) (d i : Int) (hf : v.truthy = false) :
    outputPubkeyPy o H sec v = outputPubkey o H sec none ∧
    outputPrvkeyPy o H d v = outputPrvkey o H d none ∧
    (∀ r, outputPubkey o H sec none = .ok r → inputScriptSigPy o H sec v i = .error .node) ∧
    (∀ e, outputPubkey o H sec none = .error e → inputScriptSigPy o H sec v i = .error e) := by
  have h2 := toTree_falsy v hf
  refine ⟨by simp [outputPubkeyPy, hf], by simp [outputPrvkeyPy, hf], ?_, ?_⟩
  · intro r hr; simp [inputScriptSigPy, hf, hr, h2]
  · intro e he; simp [inputScriptSigPy, hf, he]

/-- a truthy value that is no script tree is refused by all three entry points with `tree_helper`'s own refusal
    (the key's LENGTH being judged first, its being a point after) -/
theorem entry_points_malformed (sec : Option Bytes) (v : PyVal) (e : Err) (d i : Int) (ht : v.truthy = true)
    (he : v.toTree = .error e) (hk : secLenBad sec = false) :
    outputPubkeyPy o H sec v = .error e ∧ outputPrvkeyPy o H d v = .error e ∧
    inputScriptSigPy o H sec v i = .error e := by
  simp [outputPubkeyPy, outputPrvkeyPy, inputScriptSigPy, ht, he, hk]

end entry
end Btc.Taproot
