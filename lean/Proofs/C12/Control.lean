import Proofs.C12.Tree
/-
C12: control-block CONSTRUCTION (`input_script_sig`), seen from its answer: which leaf, which bytes.
-/
namespace Btc.Taproot
open Btc Gen.Taproot
variable {α : Type} (o : GroupOps α) (H : TagHash)

/-- whatever `input_script_sig` answers is: the script of the leaf numbered `i` in tree order, and the control block
    `(parity + version) ‖ x-only internal key ‖ that leaf's merkle path`, parity and internal key being the ones
    `_output_pubkey_and_internal_key` answers for the same key and tree -/
theorem iss_shape (sec : Option Bytes) (tree : Tree) (i : Int) (s c : Bytes)
    (h : inputScriptSig o H sec tree i = .ok (s, c)) :
    ∃ q par lf, outputPubkeyAndInternalKey o H sec (some tree) = .ok (q, par, xOnly ((truthyKey sec).getD numsSec)) ∧
      0 ≤ i ∧ (leaves H tree)[i.toNat]? = some lf ∧ s = lf.1.2 ∧
      c = controlBlock par lf.1.1 (xOnly ((truthyKey sec).getD numsSec)) lf.2 := by
  unfold inputScriptSig at h
  cases hk : outputPubkeyAndInternalKey o H sec (some tree) with
  | error e => rw [hk] at h; cases h
  | ok r =>
    obtain ⟨q, par, xb⟩ := r
    rw [hk] at h
    simp only at h
    have hxb : xb = xOnly ((truthyKey sec).getD numsSec) := by
      unfold outputPubkeyAndInternalKey at hk
      cases hq : tweakedPubkey o H ((truthyKey sec).getD numsSec) (root H tree) with
      | error e =>
        cases htk : truthyKey sec <;> simp only [htk, Option.getD] at hk hq <;> rw [hq] at hk <;> cases hk
      | ok r2 =>
        cases htk : truthyKey sec <;> simp only [htk, Option.getD] at hk hq ⊢ <;> rw [hq] at hk <;>
          exact ((Prod.mk.inj (Prod.mk.inj (Except.ok.inj hk)).2).2).symm
    subst hxb
    split at h
    · cases h
    · rename_i hi
      have hi' : 0 ≤ i ∧ i < (leaves H tree).length := Decidable.not_not.mp hi
      cases hl : (leaves H tree)[i.toNat]? with
      | none => rw [hl] at h; cases h
      | some lf =>
        obtain ⟨⟨v, s0⟩, path⟩ := lf
        rw [hl] at h
        have e := Prod.mk.inj (Except.ok.inj h)
        exact ⟨q, par, ((v, s0), path), rfl, hi'.1, rfl, e.1.symm, e.2.symm⟩

/-- bytes 1..32 of the control block are the x-only internal key -/
theorem controlBlock_key (par v : Nat) (xb path : Bytes) (hx : xb.length = 32) :
    ((controlBlock par v xb path).drop 1).take 32 = xb := by
  unfold controlBlock
  rw [List.drop_succ_cons, List.drop_zero, List.take_append_of_le_length (by omega), List.take_of_length_le (by omega)]

theorem iss_xonly (sec : Bytes) (hne : sec ≠ []) (hx : (xOnly sec).length = 32) (tree : Tree) (i : Int) (s c : Bytes)
    (h : inputScriptSig o H (some sec) tree i = .ok (s, c)) : (c.drop 1).take 32 = xOnly sec := by
  obtain ⟨q, par, lf, -, -, -, -, hc⟩ := iss_shape o H (some sec) tree i s c h
  have : truthyKey (some sec) = some sec := by
    cases sec with
    | nil => exact absurd rfl hne
    | cons _ _ => rfl
  rw [this] at hc
  rw [hc]; exact controlBlock_key _ _ _ _ hx

end Btc.Taproot
