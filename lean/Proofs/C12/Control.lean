import Proofs.C12.Tree
/-
C12: control-block CONSTRUCTION (`input_script_sig`), seen from its answer: which leaf, which bytes.
-/
namespace Btc.Taproot
open Btc Gen.Taproot
variable {α : Type} (o : GroupOps α) (H : TagHash)

/-- whatever `input_script_sig` answers is: the script of the leaf numbered `i` in tree order, and the control block
    `(parity + version) ‖ x-only internal key ‖ that leaf's merkle path`, parity and internal key being the ones
    `_output_pubkey_and_internal_key` answers for the same key and tree -/
theorem iss_shape (sec : Option Bytes) (tree : Tree) (i : Int) (s c : Bytes)
    (h : inputScriptSig o H sec tree i = .ok (s, c)) :
    ∃ q par lf, outputPubkeyAndInternalKey o H sec (some tree) = .ok (q, par, xOnly ((truthyKey sec).getD numsSec)) ∧
      0 ≤ i ∧ (leaves H tree)[i.toNat]? = some lf ∧ s = lf.1.2 ∧
      c = controlBlock par lf.1.1 (xOnly ((truthyKey sec).getD numsSec)) lf.2 := by
  unfold inputScriptSig at h
  cases hk : outputPubkeyAndInternalKey o H sec (some tree) with
  | error e => rw [hk] at h; cases h
  | ok r =>
    obtain ⟨q, par, xb⟩ := r
    rw [hk] at h
    simp only at h
    have hxb : xb = xOnly ((truthyKey sec).getD numsSec) := by
      unfold outputPubkeyAndInternalKey at hk
      cases hq : tweakedPubkey o H ((truthyKey sec).getD numsSec) (root H tree) with
      | error e =>
        cases htk : truthyKey sec <;> simp only [htk, Option.getD] at hk hq <;> rw [hq] at hk <;> cases hk
      | ok r2 =>
        cases htk : truthyKey sec <;> simp only [htk, Option.getD] at hk hq ⊢ <;> rw [hq] at hk <;>
          exact ((Prod.mk.inj (Prod.mk.inj (Except.ok.inj hk)).2).2).symm
    subst hxb
    split at h
    · cases h
    · rename_i hi
      have hi' : 0 ≤ i ∧ i < (leaves H tree).length := Decidable.not_not.mp hi
      cases hl : (leaves H tree)[i.toNat]? with
      | none => rw [hl] at h; cases h
      | some lf =>
        obtain ⟨⟨v, s0⟩, path⟩ := lf
        rw [hl] at h
        have e := Prod.mk.inj (Except.ok.inj h)
        exact ⟨q, par, ((v, s0), path), rfl, hi'.1, rfl, e.1.symm, e.2.symm⟩

/-- … and it answers exactly for `0 ≤ script_num < number of leaves` (a negative index is refused, not read from the
    end), once the output side has answered for the key and the tree -/
theorem iss_answers (sec : Option Bytes) (tree : Tree) (i : Int) (r : Bytes × Nat × Bytes)
    (hk : outputPubkeyAndInternalKey o H sec (some tree) = .ok r) :
    (0 ≤ i ∧ i < (leaves H tree).length → ∃ s c, inputScriptSig o H sec tree i = .ok (s, c)) ∧
    (¬ (0 ≤ i ∧ i < (leaves H tree).length) → inputScriptSig o H sec tree i = .error .index) := by
  obtain ⟨q, par, xb⟩ := r
  unfold inputScriptSig
  rw [hk]
  constructor
  · intro hi
    simp only [hi, not_true_eq_false, and_self, ↓reduceIte]
    have hlt : i.toNat < (leaves H tree).length := by omega
    rw [List.getElem?_eq_getElem hlt]
    exact ⟨_, _, rfl⟩
  · intro hi
    simp only [hi, not_false_eq_true, ↓reduceIte]

/-- bytes 1..32 of the control block are the x-only internal key -/
theorem controlBlock_key (par v : Nat) (xb path : Bytes) (hx : xb.length = 32) :
    ((controlBlock par v xb path).drop 1).take 32 = xb := by
  unfold controlBlock
  rw [List.drop_succ_cons, List.drop_zero, List.take_append_of_le_length (by omega), List.take_of_length_le (by omega)]

theorem iss_xonly (sec : Bytes) (hne : sec ≠ []) (hx : (xOnly sec).length = 32) (tree : Tree) (i : Int) (s c : Bytes)
    (h : inputScriptSig o H (some sec) tree i = .ok (s, c)) : (c.drop 1).take 32 = xOnly sec := by
  obtain ⟨q, par, lf, -, -, -, -, hc⟩ := iss_shape o H (some sec) tree i s c h
  have : truthyKey (some sec) = some sec := by
    cases sec with
    | nil => exact absurd rfl hne
    | cons _ _ => rfl
  rw [this] at hc
  rw [hc]; exact controlBlock_key _ _ _ _ hx


/-! ## the tree, position by position -/

theorem leaves_fst (t : Tree) : (leaves H t).map (·.1) = t.flatten := by
  induction t with
  | leaf v s => rfl
  | node l r ihl ihr =>
    rw [leaves_node, List.map_append, List.map_map, List.map_map]
    show (leaves H l).map (·.1) ++ (leaves H r).map (·.1) = _
    rw [ihl, ihr]; rfl

theorem leaves_length (t : Tree) : (leaves H t).length = t.flatten.length := by
  rw [← leaves_fst H t, List.length_map]

/-- `tree_helper`'s answer IS the list of (leaf, path) over the positions in tree order -/
theorem leaves_eq_positions (t : Tree) :
    (leaves H t).map some = t.positions.map (fun p => (t.leafAt p).map (fun lf => (lf, pathOf H t p))) := by
  induction t with
  | leaf v s => rfl
  | node l r ihl ihr =>
    rw [leaves_node, List.map_append, List.map_map, List.map_map]
    show _ = (l.positions.map (false :: ·) ++ r.positions.map (true :: ·)).map _
    rw [List.map_append, List.map_map, List.map_map]
    congr 1
    · have := congrArg (List.map (Option.map (fun x : LeafInfo => (x.1, x.2 ++ root H r)))) ihl
      rw [List.map_map, List.map_map] at this
      refine Eq.trans (Eq.trans ?_ this) ?_
      · apply List.map_congr_left; intro x _; rfl
      · apply List.map_congr_left; intro p _
        show Option.map _ (Option.map _ (l.leafAt p)) = Option.map _ (l.leafAt p)
        cases l.leafAt p <;> rfl
    · have := congrArg (List.map (Option.map (fun x : LeafInfo => (x.1, x.2 ++ root H l)))) ihr
      rw [List.map_map, List.map_map] at this
      refine Eq.trans (Eq.trans ?_ this) ?_
      · apply List.map_congr_left; intro x _; rfl
      · apply List.map_congr_left; intro p _
        show Option.map _ (Option.map _ (r.leafAt p)) = Option.map _ (r.leafAt p)
        cases r.leafAt p <;> rfl

theorem positions_length (t : Tree) : t.positions.length = (leaves H t).length := by
  have := congrArg List.length (leaves_eq_positions H t)
  simpa using this.symm

/-- the `i`-th entry of `tree_helper`'s answer is the leaf at the `i`-th position with that position's path -/
theorem leaves_get (t : Tree) (i : Nat) (lf : LeafInfo) (h : (leaves H t)[i]? = some lf) :
    ∃ p, t.positions[i]? = some p ∧ t.leafAt p = some lf.1 ∧ lf.2 = pathOf H t p := by
  have e := congrArg (·[i]?) (leaves_eq_positions H t)
  simp only [List.getElem?_map, h, Option.map_some] at e
  cases hp : t.positions[i]? with
  | none => rw [hp] at e; cases e
  | some p =>
    rw [hp] at e
    simp only [Option.map_some] at e
    cases hl : t.leafAt p with
    | none => rw [hl] at e; cases e
    | some x =>
      rw [hl] at e
      simp only [Option.map_some, Option.some.injEq] at e
      exact ⟨p, rfl, by rw [e]; exact hl, by rw [e]⟩

/-- **the control-block path proves its leaf, for EVERY tree shape** (induction over the tree): at every position that
    holds a leaf, the path has one 32-byte node per level, the position is no deeper than the tree, and folding the
    leaf's hash up the path — `k < e` deciding the order, which is the sort `tree_helper` applied going down — is the
    merkle root -/
theorem pathOf_folds {H : TagHash} (h32 : Len32 H) : ∀ (t : Tree) (p : List Bool) (v : Nat) (s : Bytes),
    t.leafAt p = some (v, s) →
    (pathOf H t p).length = 32 * p.length ∧ p.length ≤ t.depth ∧
    foldPath H (leafHash H v s) (pathOf H t p) p.length = root H t ∧ v &&& LEAF_MASK = v
  | .leaf v0 s0, [], v, s, h => by
    simp only [Tree.leafAt, Option.some.injEq, Prod.mk.injEq] at h
    obtain ⟨rfl, rfl⟩ := h
    exact ⟨rfl, Nat.le_refl _, rfl, mask_idem v0⟩
  | .leaf _ _, _ :: _, _, _, h => by cases h
  | .node _ _, [], _, _, h => by cases h
  | .node l r, false :: p, v, s, h => by
    obtain ⟨h1, h2, h3, h4⟩ := pathOf_folds h32 l p v s h
    refine ⟨by simp [pathOf, h1, root_length h32 r]; omega, by simp [Tree.depth]; omega, ?_, h4⟩
    show foldPath H _ (pathOf H l p ++ root H r) (p.length + 1) = _
    rw [foldPath_append H p.length _ _ _ h1 (root_length h32 r), h3, foldStep_left, root_node]
  | .node l r, true :: p, v, s, h => by
    obtain ⟨h1, h2, h3, h4⟩ := pathOf_folds h32 r p v s h
    refine ⟨by simp [pathOf, h1, root_length h32 l]; omega, by simp [Tree.depth]; omega, ?_, h4⟩
    show foldPath H _ (pathOf H r p ++ root H l) (p.length + 1) = _
    rw [foldPath_append H p.length _ _ _ h1 (root_length h32 l), h3, foldStep_right, root_node]

/-- a control block for a leaf deeper than `MAX_TREE_DEPTH` is refused as too long, whatever key or script (so a leaf
    below depth 128 has no control block to be spent with); at depth ≤ 128 the length gate passes with `m` = depth -/
theorem depth_gate (q s : Bytes) (c0 : UInt8) (xb path : Bytes) (d : Nat) (hx : xb.length = 32)
    (hp : path.length = 32 * d) :
    (c0 :: (xb ++ path)).length = 33 + 32 * d ∧
    (128 < d → checkOutputPubkey o H q s (c0 :: (xb ++ path)) = .error .toolong) ∧
    (d ≤ 128 → lengthGate (c0 :: (xb ++ path)).length = .ok (d : Int)) := by
  have hl : (c0 :: (xb ++ path)).length = 33 + 32 * d := by simp [hx, hp]; omega
  refine ⟨hl, fun hd => ?_, fun hd => ?_⟩
  · unfold checkOutputPubkey lengthGate
    have : (c0 :: (xb ++ path)).length > CONTROL_HEAD + NODE_SIZE * MAX_TREE_DEPTH := by
      rw [hl]; show 33 + 32 * d > 33 + 32 * 128; omega
    rw [if_pos this]; rfl
  · rw [lengthGate_spec]; rw [hl]; omega

end Btc.Taproot
