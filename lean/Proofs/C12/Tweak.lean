import Proofs.C12.Tree
import Proofs.Common.Lawful
/-
C12 helper lemmas, group level: the lift of an x-coordinate is the even-y representative, the
private and the public tweak meet in the same group element.
-/
namespace Btc.Taproot
open Btc Gen.Taproot

variable {α G : Type} [AddCommGroup G] {o : GroupOps α}

/-- the parity of the affine y-coordinate is a function of the (non-zero) group element: two
    representations of one element have the same parity.  True of affine points of an elliptic curve
    over a field of odd characteristic with canonical coordinates; it is the field `Lawful.y_congr`
    (the lemmas below take it as an argument, the property theorems pass `L.y_congr`). -/
def YCongr (L : Lawful o G) : Prop :=
  ∀ P Q : α, L.abs P = L.abs Q → L.abs P ≠ 0 → (o.y P % 2 = 0 ↔ o.y Q % 2 = 0)

variable (L : Lawful o G)

theorem hasEvenY_iff (P : α) : o.hasEvenY P = true ↔ o.y P % 2 = 0 := by
  simp [GroupOps.hasEvenY]

theorem abs_neg_ne_zero (P : α) (h : L.abs P ≠ 0) : L.abs (o.neg P) ≠ 0 := by
  rw [L.abs_neg]; exact neg_ne_zero.mpr h

theorem evenY_spec (P : α) (h : L.abs P ≠ 0) :
    L.abs (evenY o P) ≠ 0 ∧ o.x (evenY o P) = o.x P ∧ o.y (evenY o P) % 2 = 0 ∧
    (L.abs (evenY o P) = L.abs P ∨ L.abs (evenY o P) = - L.abs P) := by
  unfold evenY
  by_cases he : o.hasEvenY P = true
  · rw [if_pos he]
    exact ⟨h, rfl, (hasEvenY_iff P).mp he, Or.inl rfl⟩
  · rw [if_neg he]
    refine ⟨abs_neg_ne_zero L P h, L.x_neg P, ?_, Or.inr (L.abs_neg P)⟩
    exact (L.y_neg P h).mpr (fun h' => he ((hasEvenY_iff P).mpr h'))

/-- `lift_x(x(P))` is the even-y representative of `±P` -/
theorem liftX_evenY (hy : YCongr L) (P : α) (h : L.abs P ≠ 0) :
    ∃ P', o.liftX (o.x P) = some P' ∧ L.abs P' = L.abs (evenY o P) := by
  obtain ⟨hE0, hEx, hEy, _⟩ := evenY_spec L P h
  cases hl : o.liftX (o.x P) with
  | none => exact absurd rfl (L.liftX_none _ hl P h)
  | some P' =>
    refine ⟨P', rfl, ?_⟩
    obtain ⟨h0, hx, hyP'⟩ := L.liftX_some _ _ hl
    rcases (L.x_eq_iff P' (evenY o P) h0 hE0).mp (by rw [hx, hEx]) with h1 | h1
    · exact h1
    · exfalso
      have h2 : L.abs P' = L.abs (o.neg (evenY o P)) := by rw [L.abs_neg]; exact h1
      have h3 := (hy P' (o.neg (evenY o P)) h2 h0).mp hyP'
      exact ((L.y_neg _ hE0).mp h3) hEy

/-- coordinates read off two representations of one non-zero element -/
theorem coords_congr (hy : YCongr L) (Q Q' : α) (h : L.abs Q' = L.abs Q) (h0 : L.abs Q ≠ 0) :
    o.x Q' = o.x Q ∧ o.y Q' % 2 = o.y Q % 2 := by
  have h0' : L.abs Q' ≠ 0 := by rw [h]; exact h0
  refine ⟨(L.x_eq_iff Q' Q h0' h0).mpr (Or.inl h), ?_⟩
  have := hy Q' Q h h0'
  rcases Int.emod_two_eq_zero_or_one (o.y Q') with a | a <;>
    rcases Int.emod_two_eq_zero_or_one (o.y Q) with b | b
  · rw [a, b]
  · exact absurd (this.mp a) (by omega)
  · exact absurd (this.mpr b) (by omega)
  · rw [a, b]

end Btc.Taproot

namespace Btc.Taproot
open Btc Gen.Taproot
variable {α G : Type} [AddCommGroup G] {o : GroupOps α} (L : Lawful o G)

/-- what `point_from_octets` answers is a non-zero element whose x-coordinate is `sec[1:33]` -/
theorem pointFromOctets_spec (sec : Bytes) (P : α) (h : pointFromOctets o sec = .ok P) :
    L.abs P ≠ 0 ∧ ((ofBE (xOnly sec) : Nat) : Int) = o.x P ∧ (xOnly sec).length = 32 := by
  unfold pointFromOctets at h
  cases sec with
  | nil => cases h
  | cons pre rest =>
    have hxo : xOnly (pre :: rest) = rest.take 32 := rfl
    simp only at h
    split at h
    · split at h
      · cases h
      · rename_i hlen
        have hlen : rest.length = 32 := by omega
        have ht : rest.take 32 = rest := List.take_of_length_le (by omega)
        split at h
        · cases h
        · rename_i P0 hl
          obtain ⟨h0, hx, _⟩ := L.liftX_some _ _ hl
          injection h with h
          rw [hxo, ht]
          split at h
          · subst h; exact ⟨h0, hx.symm, hlen⟩
          · subst h; exact ⟨abs_neg_ne_zero L P0 h0, by rw [L.x_neg]; exact hx.symm, hlen⟩
    · split at h
      · split at h
        · cases h
        · rename_i hlen
          have hlen : rest.length = 64 := by omega
          split at h
          · cases h
          · rename_i P0 hl
            obtain ⟨h0, hx, _⟩ := L.liftX_some _ _ hl
            have hl32 : (rest.take 32).length = 32 := by simp; omega
            rw [hxo]
            split at h
            · cases h
            · split at h
              · injection h with h; subst h; exact ⟨h0, hx.symm, hl32⟩
              · split at h
                · injection h with h; subst h
                  exact ⟨abs_neg_ne_zero L P0 h0, by rw [L.x_neg]; exact hx.symm, hl32⟩
                · cases h
      · cases h

end Btc.Taproot

/-! ## completeness -/

namespace Btc.Taproot
open Btc Gen.Taproot
variable {α G : Type} [AddCommGroup G] {o : GroupOps α} (L : Lawful o G)

/-- octets that parse as a point are not empty: Python reads them as a key, not as "no key" -/
theorem truthyKey_of_parses (sec : Bytes) (P : α) (hP : pointFromOctets o sec = .ok P) :
    truthyKey (some sec) = some sec := by
  cases sec with
  | nil => unfold pointFromOctets at hP; cases hP
  | cons b bs => rfl

theorem bits_spec : ∀ v < 255, ∀ par < 2, v &&& 254 = v →
    (par + v) &&& 254 = v ∧ (par + v) &&& 1 = par := by decide +kernel

theorem tweakedPubkey_ok {H : TagHash} (sec h : Bytes) (P : α) (t : Int)
    (hP : pointFromOctets o sec = .ok P) (ht : tapTweak o H (xOnly sec) h = .ok t) :
    tweakedPubkey o H sec h = .ok (outKey o (tweakPoint o P t)) := by
  unfold tweakedPubkey
  rw [ht, hP]; rfl

theorem ofBE_outKey (hp : o.p ≤ 2 ^ 256) (Q : α) (hQ : L.abs Q ≠ 0) :
    ((ofBE (outKey o Q).1 : Nat) : Int) = o.x Q := by
  obtain ⟨h0, h1⟩ := L.x_range Q hQ
  show ((ofBE (beBytes 32 (o.x Q).toNat) : Nat) : Int) = o.x Q
  rw [ofBE_beBytes, Nat.mod_eq_of_lt]
  · omega
  · have : (256 : Nat) ^ 32 = 2 ^ 256 := by norm_num
    rw [this]; omega

theorem completeness_aux (hy : YCongr L) (hp : o.p ≤ 2 ^ 256) {H : TagHash} (h32 : Len32 H)
    (sec : Bytes) (tree : Tree) (P : α) (t : Int)
    (hdepth : tree.depth ≤ 128)
    (hP : pointFromOctets o sec = .ok P)
    (ht : tapTweak o H (xOnly sec) (root H tree) = .ok t)
    (hQ : L.abs (tweakPoint o P t) ≠ 0) :
    outputPubkey o H (some sec) (some tree) = .ok (outKey o (tweakPoint o P t)) ∧
    ∀ i : Nat, i < (leaves H tree).length →
      ∃ s c, inputScriptSig o H (some sec) tree i = .ok (s, c) ∧
        checkOutputPubkey o H (outKey o (tweakPoint o P t)).1 s c = .ok true := by
  have hk := tweakedPubkey_ok sec (root H tree) P t hP ht
  have hopi : outputPubkeyAndInternalKey o H (some sec) (some tree) =
      .ok ((outKey o (tweakPoint o P t)).1, (outKey o (tweakPoint o P t)).2, xOnly sec) := by
    have hne : truthyKey (some sec) = some sec := truthyKey_of_parses sec P hP
    unfold outputPubkeyAndInternalKey
    rw [hne]
    simp only [Option.getD_some, hk]
  constructor
  · unfold outputPubkey; rw [hopi]; rfl
  · intro i hi
    obtain ⟨hP0, hPx, hxl⟩ := pointFromOctets_spec L sec P hP
    have hmem : (leaves H tree)[i] ∈ leaves H tree := List.getElem_mem hi
    obtain ⟨d, hd, hl, hf, hm, -⟩ := leaves_spec h32 tree _ hmem
    generalize hlf : (leaves H tree)[i] = lf at *
    obtain ⟨⟨v, s⟩, path⟩ := lf
    simp only at hl hf hm
    set Q := tweakPoint o P t with hQdef
    set par := (outKey o Q).2 with hpar
    refine ⟨s, controlBlock par v (xOnly sec) path, ?_, ?_⟩
    · unfold inputScriptSig
      rw [hopi]
      have : (leaves H tree)[(i : Int).toNat]? = some ((v, s), path) := by
        simp [List.getElem?_eq_getElem hi, hlf]
      simp only [this]
      have hi' : (0 : Int) ≤ i ∧ (i : Int) < ((leaves H tree).length : Nat) := by omega
      simp [hi']
    · have hv : v < 255 := by
        have := mask_le v; rw [hm] at this; omega
      have hpar2 : par < 2 := by
        show (o.y Q % 2).toNat < 2
        omega
      obtain ⟨hb1', hb2'⟩ := bits_spec v hv par hpar2 (by rw [LEAF_MASK] at hm; exact hm)
      have hb1 : (par + v) &&& LEAF_MASK = v := hb1'
      have hb2 : (par + v) &&& PARITY_MASK = par := hb2'
      have hc0 : (UInt8.ofNat (par + v)).toNat = par + v := by
        simp [UInt8.toNat_ofNat']; omega
      unfold controlBlock
      rw [check_eq o H _ s _ (xOnly sec) path d hxl hl (by omega), hc0]
      unfold checkFields
      rw [hb1, hf, ht]
      obtain ⟨P', hl', hab⟩ := liftX_evenY L hy P hP0
      rw [hPx, hl']
      have habs : L.abs (o.add P' (o.mul t o.gen)) = L.abs Q := by
        rw [hQdef, tweakPoint, L.abs_add, L.abs_add, hab]
      obtain ⟨hcx, hcy⟩ := coords_congr L hy Q _ habs hQ
      show Except.ok _ = Except.ok true
      congr 1
      rw [hb2, ofBE_outKey L hp Q hQ, hcx, hcy]
      simp [hpar, outKey]
end Btc.Taproot

/-! ## key agreement -/

namespace Btc.Taproot
open Btc Gen.Taproot
variable {α G : Type} [AddCommGroup G] {o : GroupOps α} (L : Lawful o G)

/-- a scalar strictly between 0 and the prime order does not kill the generator -/
theorem zsmul_gen_ne_zero (d : Int) (h0 : 0 < d) (h1 : d < o.n) : d • L.abs o.gen ≠ 0 := by
  intro h
  have hn := L.n_pos
  have hcop : Nat.Coprime d.toNat o.n.toNat := by
    apply Nat.Coprime.symm
    rw [Nat.Prime.coprime_iff_not_dvd L.n_prime]
    intro hdvd
    have := Nat.le_of_dvd (by omega) hdvd
    omega
  have hg : Int.gcd d o.n = 1 := by
    have : Int.gcd d o.n = Nat.gcd d.toNat o.n.toNat := by
      conv_lhs => rw [← Int.toNat_of_nonneg (le_of_lt h0), ← Int.toNat_of_nonneg (le_of_lt hn)]
      rfl
    rw [this]; exact hcop
  have hb := Int.gcd_eq_gcd_ab d o.n
  rw [hg] at hb
  apply L.gen_ne_zero
  have : ((1 : Nat) : Int) • L.abs o.gen = 0 := by
    rw [hb, add_zsmul, mul_comm, mul_zsmul, h, zsmul_zero, zero_add, mul_comm, mul_zsmul, L.order, zsmul_zero]
  simpa using this

theorem even_unique (hy : YCongr L) (A B : α) (hA : L.abs A ≠ 0)
    (ha : o.y A % 2 = 0) (hb : o.y B % 2 = 0) (h : L.abs A = L.abs B ∨ L.abs A = - L.abs B) :
    L.abs A = L.abs B := by
  rcases h with h | h
  · exact h
  · exfalso
    have hB : L.abs B ≠ 0 := by
      intro hB; rw [hB, neg_zero] at h; exact hA h
    have h2 : L.abs A = L.abs (o.neg B) := by rw [L.abs_neg]; exact h
    exact ((L.y_neg _ hB).mp ((hy A (o.neg B) h2 hA).mp ha)) hb

theorem key_agreement_aux (hy : YCongr L) {H : TagHash} (d : Int) (h0 : 0 < d) (h1 : d < o.n)
    (sec h : Bytes) (P' : α)
    (hP : pointFromOctets o sec = .ok P')
    (hsame : L.abs P' = d • L.abs o.gen ∨ L.abs P' = - (d • L.abs o.gen))
    (hx : xOnly sec = beBytes 32 (o.x (o.mul d o.gen)).toNat) :
    (∀ e, tweakedPrvkey o H d h = .error e ↔ tweakedPubkey o H sec h = .error e) ∧
    (∀ d2, tweakedPrvkey o H d h = .ok d2 →
      ∃ t, tapTweak o H (xOnly sec) h = .ok t ∧ 0 ≤ d2 ∧ d2 < o.n ∧
        tweakedPubkey o H sec h = .ok (outKey o (tweakPoint o P' t)) ∧
        L.abs (o.mul d2 o.gen) = L.abs (tweakPoint o P' t) ∧
        (L.abs (tweakPoint o P' t) ≠ 0 → outKey o (o.mul d2 o.gen) = outKey o (tweakPoint o P' t))) := by
  have hprv : tweakedPrvkey o H d h =
      (tapTweak o H (xOnly sec) h).map fun t =>
        ((if o.hasEvenY (o.mul d o.gen) then d else o.n - d) + t) % o.n := by
    unfold tweakedPrvkey; simp only []; rw [← hx]
    cases tapTweak o H (xOnly sec) h <;> rfl
  have hpub : tweakedPubkey o H sec h = (tapTweak o H (xOnly sec) h).map fun t => outKey o (tweakPoint o P' t) := by
    unfold tweakedPubkey; rw [hP]
    cases tapTweak o H (xOnly sec) h <;> rfl
  rw [hprv, hpub]
  cases htt : tapTweak o H (xOnly sec) h with
  | error e0 => 
    refine ⟨fun e => by simp [Except.map], fun d2 hd2 => by simp [Except.map] at hd2⟩
  | ok t =>
    refine ⟨fun e => by simp [Except.map], fun d2 hd2 => ?_⟩
    simp only [Except.map] at hd2
    injection hd2 with hd2
    have hn := L.n_pos
    have hgrp : L.abs (o.mul d2 o.gen) = L.abs (tweakPoint o P' t) := by
      have hP0 : L.abs (o.mul d o.gen) ≠ 0 := by rw [L.abs_mul]; exact zsmul_gen_ne_zero L d h0 h1
      obtain ⟨hE0, -, hEy, hEabs⟩ := evenY_spec L (o.mul d o.gen) hP0
      have hP'0 : L.abs P' ≠ 0 := by
        rcases hsame with hs | hs <;> rw [hs]
        · exact zsmul_gen_ne_zero L d h0 h1
        · exact neg_ne_zero.mpr (zsmul_gen_ne_zero L d h0 h1)
      obtain ⟨hE'0, -, hE'y, hE'abs⟩ := evenY_spec L P' hP'0
      have hd' : (if o.hasEvenY (o.mul d o.gen) then d else o.n - d) • L.abs o.gen = L.abs (evenY o (o.mul d o.gen)) := by
        unfold evenY
        by_cases he : o.hasEvenY (o.mul d o.gen) = true
        · rw [if_pos he, if_pos he, L.abs_mul]
        · rw [if_neg he, if_neg he, L.abs_neg, L.abs_mul, sub_zsmul, L.order]; simp
      have hEE : L.abs (evenY o P') = L.abs (evenY o (o.mul d o.gen)) := by
        apply even_unique L hy _ _ hE'0 hE'y hEy
        rw [L.abs_mul] at hEabs
        rcases hE'abs with a | a <;> rcases hEabs with b | b <;> rcases hsame with c | c <;>
          rw [a, b, c] <;> simp
      rw [← hd2, L.abs_mul, L.zsmul_mod, add_zsmul, hd', tweakPoint, L.abs_add, L.abs_mul, hEE]
    refine ⟨t, rfl, by rw [← hd2]; exact Int.emod_nonneg _ (by omega), by rw [← hd2]; exact Int.emod_lt_of_pos _ hn, rfl, hgrp, ?_⟩
    · intro hQ
      obtain ⟨hcx, hcy⟩ := coords_congr L hy (tweakPoint o P' t) (o.mul d2 o.gen) hgrp hQ
      unfold outKey
      rw [hcx, hcy]
end Btc.Taproot
