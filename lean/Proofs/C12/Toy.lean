import Proofs.C12.Commit
import Mathlib.Data.ZMod.Basic
/-
A toy lawful instance (the group ℤ/3 with an "x-coordinate" shared by ±1 and y-parities that differ):
shows that the hypothesis bundle `Lawful` of the C12 theorems is satisfiable, and lets the
theorems be instantiated on concrete values (non-vacuity examples in Props/C12.lean).
-/
namespace Btc.Taproot.Toy
open Btc Btc.Taproot

def ops : GroupOps (ZMod 3) where
  n := 3
  p := 7
  zero := 0
  add P Q := P + Q
  neg P := -P
  mul m P := (m : ZMod 3) * P
  gen := 1
  isZero P := P == 0
  x P := if P = 0 then 0 else 5
  y P := if P = 1 then 2 else if P = 2 then 3 else 0
  liftX x := if x = 5 then some 1 else none
  eq P Q := P == Q

def lawful : Lawful ops (ZMod 3) where
  abs := id
  n_pos := by decide
  n_prime := Nat.prime_three
  abs_zero := rfl
  abs_add _ _ := rfl
  abs_neg _ := rfl
  abs_mul m P := (zsmul_eq_mul P m).symm
  order P := by
    show (3 : Int) • P = 0
    rw [zsmul_eq_mul]
    have : ((3 : Int) : ZMod 3) = 0 := by decide
    rw [this, zero_mul]
  isZero_iff := by decide
  gen_ne_zero := by decide
  eq_iff := by decide
  x_eq_iff := by decide
  x_range := by decide
  y_neg := by decide
  x_neg := by decide
  y_congr := by decide
  liftX_some := by
    intro x P h
    simp only [ops] at h
    split at h
    · cases h; subst_vars; decide
    · cases h
  liftX_none := by
    intro x h P hP
    simp only [ops] at h ⊢
    split at h
    · cases h
    · rename_i hx
      simp only [id] at hP
      rw [if_neg hP]; exact fun e => hx e.symm


end Btc.Taproot.Toy
