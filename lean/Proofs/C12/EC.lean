import Proofs.C12.Commit
import Model.Common.Sha256
/-
C12 over the EXECUTED arithmetic: `Btc.EC.ops C` on raw integer pairs satisfies `LiftEven` for every curve over
an odd field size — no `Lawful`, no `CurveOk`, no primality: read off `y_even_var`'s last line.
-/
namespace Btc.Taproot
open Btc Btc.EC

theorem liftEven_ec (C : Curve) (hodd : C.p % 2 = 1) : LiftEven (EC.ops C) := by
  intro x P h
  change (yEven C.toCurveGroup x).map (fun y => (x, y)) = some P at h
  unfold yEven at h
  split at h
  · cases h
  · cases hs : modSqrt34 (y2 C.toCurveGroup x) C.p with
    | none => rw [hs] at h; cases h
    | some r =>
      rw [hs] at h
      simp only [Option.map_some, Option.some.injEq] at h
      subst h
      show (if r % 2 = 1 then C.p - r else r) % 2 = 0
      split <;> omega

theorem secp256k1_p_odd : secp256k1.p % 2 = 1 := by decide +kernel

theorem liftEven_secp256k1 : LiftEven (EC.ops secp256k1) := liftEven_ec _ secp256k1_p_odd

/-! ## BIP341's NUMS x-coordinate lifts on secp256k1 (kernel-evaluated square root) -/

theorem nums_parses_bool : (match pointFromOctets (EC.ops secp256k1) numsSec with
    | .ok Q => !(EC.ops secp256k1).isZero Q | .error _ => false) = true := by decide +kernel

theorem nums_parses : ∃ Q, pointFromOctets (EC.ops secp256k1) numsSec = .ok Q ∧ (EC.ops secp256k1).isZero Q = false := by
  have h := nums_parses_bool
  cases hq : pointFromOctets (EC.ops secp256k1) numsSec with
  | error e => rw [hq] at h; cases h
  | ok Q => rw [hq] at h; exact ⟨Q, rfl, by simpa using h⟩

/-! ## the executed tagged hash has 32-byte digests -/

theorem state_bytes_length (s : Sha256.State) : s.bytes.length = 32 := by
  simp [Sha256.State.bytes, HashUtil.be32Bytes]

theorem digest_length (m : ByteArray) : (Sha256.digest m).length = 32 := by
  unfold Sha256.digest
  simp only [Id.run, bind, pure]
  exact state_bytes_length _

/-- the executed tagged hash (SHA-256) has 32-byte digests: `Len32` holds of what the driver runs -/
theorem len32_taggedHash : Len32 taggedHash := by
  intro tag m
  unfold taggedHash sha256
  exact digest_length _

end Btc.Taproot
