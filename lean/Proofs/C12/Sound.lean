import Proofs.C12.Tree
import Proofs.C05.VarInt
/-
C12 soundness as a reduction (hash level): a merkle path that folds to the root of a tree is one of the
tree's own leaves with its own path — or two distinct explicit preimages of the tagged hash collide.
-/
namespace Btc.Taproot
open Btc Gen.Taproot

/-- an explicit collision of the tagged hash: two distinct (tag, message) pairs with one digest -/
def Collision (H : TagHash) : Prop :=
  ∃ tag m tag' m', (tag, m) ≠ (tag', m') ∧ H tag m = H tag' m'

theorem collision_of {H : TagHash} {tag m tag' m' : Bytes} (hne : (tag, m) ≠ (tag', m'))
    (h : H tag m = H tag' m') : Collision H := ⟨tag, m, tag', m', hne, h⟩

theorem tag_leaf_ne_branch : TAG_LEAF ≠ TAG_BRANCH := by decide

/-! ## the leaf preimage is injective in (version, script) -/

theorem varBytes_eq (s : Bytes) (hs : s.length < 2 ^ 64) :
    ∃ pre, Gen.VarInt.serialize (s.length : Int) = .ok pre ∧ varBytes s = pre ++ s := by
  obtain ⟨pre, hpre⟩ := (Btc.VarInt.serialize_domain (s.length : Int)).1 ⟨by omega, by exact_mod_cast hs⟩
  exact ⟨pre, hpre, by unfold varBytes; rw [hpre]⟩

theorem varBytes_inj (s s' : Bytes) (hs : s.length < 2 ^ 64) (hs' : s'.length < 2 ^ 64)
    (h : varBytes s = varBytes s') : s = s' := by
  obtain ⟨pre, hp, e⟩ := varBytes_eq s hs
  obtain ⟨pre', hp', e'⟩ := varBytes_eq s' hs'
  clear hs hs'
  have a := Btc.VarInt.parse_serialize (s.length : Int) pre s (s.length + s'.length) hp
  have a' := Btc.VarInt.parse_serialize (s'.length : Int) pre' s' (s.length + s'.length) hp'
  rw [← e, h, e', a'] at a
  rw [Int.toNat_natCast, Int.toNat_natCast] at a
  have c1 : ¬ s.length > s.length + s'.length := by omega
  have c2 : ¬ s'.length > s.length + s'.length := by omega
  simp only [c1, c2, if_false] at a
  exact (Prod.mk.inj (Except.ok.inj a)).2.symm

theorem leafMsg_inj (v v' : Nat) (s s' : Bytes) (hv : v < 256) (hv' : v' < 256)
    (hs : s.length < 2 ^ 64) (hs' : s'.length < 2 ^ 64)
    (h : UInt8.ofNat v :: varBytes s = UInt8.ofNat v' :: varBytes s') : v = v' ∧ s = s' := by
  injection h with h1 h2
  refine ⟨?_, varBytes_inj s s' hs hs' h2⟩
  have := congrArg UInt8.toNat h1
  simp [UInt8.toNat_ofNat'] at this
  omega

/-! ## the fold, seen from the root -/

theorem foldStep_length {H : TagHash} (h32 : Len32 H) (k e : Bytes) : (foldStep H k e).length = 32 := by
  unfold foldStep; split <;> exact h32 _ _

theorem foldPath_length {H : TagHash} (h32 : Len32 H) : ∀ (m : Nat) (k p : Bytes), k.length = 32 →
    (foldPath H k p m).length = 32
  | 0, _, _, hk => hk
  | m + 1, _, _, _ => foldPath_length h32 m _ _ (foldStep_length h32 _ _)

theorem foldPath_last (H : TagHash) (m : Nat) (k path : Bytes) (hp : path.length = 32 * (m + 1)) :
    foldPath H k path (m + 1) = foldStep H (foldPath H k (path.take (32 * m)) m) (path.drop (32 * m)) := by
  have := foldPath_append H m k (path.take (32 * m)) (path.drop (32 * m)) (by simp; omega) (by simp; omega)
  rwa [List.take_append_drop] at this

/-- two sorted pairs of 32-byte strings with one concatenation are one unordered pair -/
theorem foldStep_eq_branchHash {H : TagHash} (k e lh rh : Bytes)
    (hk : k.length = 32) (hl : lh.length = 32) (hr : rh.length = 32)
    (h : foldStep H k e = branchHash H lh rh) :
    (k = lh ∧ e = rh) ∨ (k = rh ∧ e = lh) ∨ Collision H := by
  unfold foldStep branchHash at h
  split at h <;> split at h
  all_goals
    first
    | (by_cases hm : k ++ e = rh ++ lh
       · obtain ⟨a, b⟩ := List.append_inj hm (by omega)
         exact Or.inr (Or.inl ⟨a, b⟩)
       · exact Or.inr (Or.inr (collision_of (by simpa using hm) h)))
    | (by_cases hm : k ++ e = lh ++ rh
       · obtain ⟨a, b⟩ := List.append_inj hm (by omega)
         exact Or.inl ⟨a, b⟩
       · exact Or.inr (Or.inr (collision_of (by simpa using hm) h)))
    | (by_cases hm : e ++ k = rh ++ lh
       · obtain ⟨a, b⟩ := List.append_inj' hm (by omega)
         exact Or.inl ⟨b, a⟩
       · exact Or.inr (Or.inr (collision_of (by simpa using hm) h)))
    | (by_cases hm : e ++ k = lh ++ rh
       · obtain ⟨a, b⟩ := List.append_inj' hm (by omega)
         exact Or.inr (Or.inl ⟨b, a⟩)
       · exact Or.inr (Or.inr (collision_of (by simpa using hm) h)))

theorem leafHash_ne_branch {H : TagHash} (v : Nat) (s k e : Bytes) (h : leafHash H v s = foldStep H k e) :
    Collision H := by
  unfold leafHash foldStep at h
  split at h <;> exact collision_of (fun hc => tag_leaf_ne_branch (Prod.mk.inj hc).1) h

theorem leafHash_ne_branch' {H : TagHash} (v : Nat) (s lh rh : Bytes) (h : leafHash H v s = branchHash H lh rh) :
    Collision H := by
  unfold leafHash branchHash at h
  split at h <;> exact collision_of (fun hc => tag_leaf_ne_branch (Prod.mk.inj hc).1) h

/-- merkle soundness: a (version, script, path) that folds to the root is a leaf of the tree with its own
    path, or a collision is in hand -/
theorem fold_sound {H : TagHash} (h32 : Len32 H) : ∀ (t : Tree) (v : Nat) (s path : Bytes) (m : Nat),
    v < 256 → s.length < 2 ^ 64 → (∀ s' ∈ t.scripts, s'.length < 2 ^ 64) → path.length = 32 * m →
    foldPath H (leafHash H v s) path m = root H t →
    ((v, s), path) ∈ leaves H t ∨ Collision H
  | .leaf v0 s0, v, s, path, 0, hv, hs, ht, hp, hf => by
    have : path = [] := List.eq_nil_of_length_eq_zero (by omega)
    subst this
    change leafHash H v s = leafHash H (v0 &&& LEAF_MASK) s0 at hf
    unfold leafHash at hf
    by_cases hm : UInt8.ofNat v :: varBytes s = UInt8.ofNat (v0 &&& LEAF_MASK) :: varBytes s0
    · left
      have := mask_le v0
      obtain ⟨a, b⟩ := leafMsg_inj v _ s s0 hv (by omega) hs (ht s0 (by simp [Tree.scripts])) hm
      rw [leaves_leaf, a, b]; simp
    · right; exact collision_of (by simpa using hm) hf
  | .leaf v0 s0, v, s, path, m + 1, hv, hs, ht, hp, hf => by
    right
    rw [foldPath_last H m _ path hp, root_leaf] at hf
    exact leafHash_ne_branch _ _ _ _ hf.symm
  | .node l r, v, s, path, 0, hv, hs, ht, hp, hf => by
    right
    change leafHash H v s = _ at hf
    rw [root_node] at hf
    exact leafHash_ne_branch' _ _ _ _ hf
  | .node l r, v, s, path, m + 1, hv, hs, ht, hp, hf => by
    rw [foldPath_last H m _ path hp, root_node] at hf
    have hk : (foldPath H (leafHash H v s) (path.take (32 * m)) m).length = 32 :=
      foldPath_length h32 m _ _ (h32 _ _)
    have hsplit : path = path.take (32 * m) ++ path.drop (32 * m) := (List.take_append_drop _ _).symm
    have hc : (path.take (32 * m)).length = 32 * m := by simp; omega
    rcases foldStep_eq_branchHash _ _ _ _ hk (root_length h32 l) (root_length h32 r) hf with ⟨a, b⟩ | ⟨a, b⟩ | c
    · rcases fold_sound h32 l v s (path.take (32 * m)) m hv hs
          (fun s' hs' => ht s' (by simp [Tree.scripts, hs'])) hc a with h | h
      · left
        rw [leaves_node, List.mem_append]; left
        rw [List.mem_map]
        exact ⟨_, h, by show ((v, s), path.take (32 * m) ++ _) = ((v, s), path); rw [← b, List.take_append_drop]⟩
      · exact Or.inr h
    · rcases fold_sound h32 r v s (path.take (32 * m)) m hv hs
          (fun s' hs' => ht s' (by simp [Tree.scripts, hs'])) hc a with h | h
      · left
        rw [leaves_node, List.mem_append]; right
        rw [List.mem_map]
        exact ⟨_, h, by show ((v, s), path.take (32 * m) ++ _) = ((v, s), path); rw [← b, List.take_append_drop]⟩
      · exact Or.inr h
    · exact Or.inr c

end Btc.Taproot
