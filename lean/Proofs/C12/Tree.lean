import Model.C12.Taproot
import Proofs.Common.Bytes
/-
C12 helper lemmas, hash level (no group): byte order, merkle fold, the invariant of `tree_helper`.
-/
namespace Btc.Taproot
open Btc Gen.Taproot

/-! ## Python's `<` on bytes is a strict total order -/

theorem ltBytes_irrefl (a : Bytes) : ltBytes a a = false := by
  induction a with
  | nil => rfl
  | cons x xs ih => simp [ltBytes, ih]

theorem ltBytes_asymm : ∀ (a b : Bytes), ltBytes a b = true → ltBytes b a = false
  | [], [], h => by simp [ltBytes] at h
  | [], _ :: _, _ => by simp [ltBytes]
  | _ :: _, [], h => by simp [ltBytes] at h
  | x :: xs, y :: ys, h => by
    simp only [ltBytes] at h ⊢
    by_cases h1 : x < y
    · have h2 : ¬ y < x := by
        rw [UInt8.lt_iff_toNat_lt] at *; omega
      simp [h1, h2]
    · by_cases h2 : y < x
      · simp [h1, h2] at h
      · simp [h1, h2] at h ⊢
        exact ltBytes_asymm xs ys h

theorem ltBytes_total : ∀ (a b : Bytes), ltBytes a b = false → ltBytes b a = false → a = b
  | [], [], _, _ => rfl
  | [], _ :: _, h, _ => by simp [ltBytes] at h
  | _ :: _, [], _, h => by simp [ltBytes] at h
  | x :: xs, y :: ys, h, h' => by
    simp only [ltBytes] at h h'
    by_cases h1 : x < y
    · simp [h1] at h
    · by_cases h2 : y < x
      · simp [h2] at h'
      · simp [h1, h2] at h h'
        have hxy : x = y := by
          apply UInt8.toNat_inj.mp
          rw [UInt8.lt_iff_toNat_lt] at h1 h2; omega
        rw [hxy, ltBytes_total xs ys h h']

/-! ## the sort on the way down is the `k < e` test on the way up -/

/-- walking up from the RIGHT child with the left hash as sibling -/
theorem foldStep_right (H : TagHash) (lh rh : Bytes) : foldStep H rh lh = branchHash H lh rh := rfl

/-- walking up from the LEFT child with the right hash as sibling (covers `lh = rh`) -/
theorem foldStep_left (H : TagHash) (lh rh : Bytes) : foldStep H lh rh = branchHash H lh rh := by
  unfold foldStep branchHash
  by_cases h1 : ltBytes lh rh = true
  · have h2 := ltBytes_asymm lh rh h1
    simp [h1, h2]
  · by_cases h2 : ltBytes rh lh = true
    · simp [h1, h2]
    · have : lh = rh := ltBytes_total lh rh (by simpa using h1) (by simpa using h2)
      subst this
      simp

/-! ## the fold over a path -/

theorem foldPath_append (H : TagHash) : ∀ (n : Nat) (k c e : Bytes), c.length = 32 * n → e.length = 32 →
    foldPath H k (c ++ e) (n + 1) = foldStep H (foldPath H k c n) e
  | 0, k, c, e, hc, he => by
    have : c = [] := List.eq_nil_of_length_eq_zero (by omega)
    subst this
    simp [foldPath, NODE_SIZE, List.take_of_length_le (Nat.le_of_eq he)]
  | n + 1, k, c, e, hc, he => by
    have h1 : (c ++ e).take NODE_SIZE = c.take NODE_SIZE := by
      simp only [NODE_SIZE]; rw [List.take_append_of_le_length (by omega)]
    have h2 : (c ++ e).drop NODE_SIZE = c.drop NODE_SIZE ++ e := by
      simp only [NODE_SIZE]; rw [List.drop_append_of_le_length (by omega)]
    show foldPath H (foldStep H k ((c ++ e).take NODE_SIZE)) ((c ++ e).drop NODE_SIZE) (n + 1) = _
    rw [h1, h2, foldPath_append H n _ (c.drop NODE_SIZE) e (by simp [NODE_SIZE]; omega) he]
    rfl

/-! ## `tree_helper` -/

/-- the tagged hash has 32-byte digests (SHA-256) -/
def Len32 (H : TagHash) : Prop := ∀ tag m, (H tag m).length = 32

theorem treeHelper_leaf (H : TagHash) (v : Nat) (s : Bytes) :
    treeHelper H (.leaf v s) = ([((v &&& LEAF_MASK, s), [])], leafHash H (v &&& LEAF_MASK) s) := rfl

theorem treeHelper_node (H : TagHash) (l r : Tree) :
    treeHelper H (.node l r) =
      ((leaves H l).map (fun x => (x.1, x.2 ++ root H r)) ++ (leaves H r).map (fun x => (x.1, x.2 ++ root H l)),
       branchHash H (root H l) (root H r)) := rfl

theorem leaves_leaf (H : TagHash) (v : Nat) (s : Bytes) :
    leaves H (.leaf v s) = [((v &&& LEAF_MASK, s), [])] := rfl
theorem root_leaf (H : TagHash) (v : Nat) (s : Bytes) :
    root H (.leaf v s) = leafHash H (v &&& LEAF_MASK) s := rfl
theorem leaves_node (H : TagHash) (l r : Tree) :
    leaves H (.node l r) =
      (leaves H l).map (fun x => (x.1, x.2 ++ root H r)) ++ (leaves H r).map (fun x => (x.1, x.2 ++ root H l)) := rfl
theorem root_node (H : TagHash) (l r : Tree) :
    root H (.node l r) = branchHash H (root H l) (root H r) := rfl

theorem root_length {H : TagHash} (h32 : Len32 H) : ∀ t : Tree, (root H t).length = 32
  | .leaf v s => h32 _ _
  | .node l r => by
    rw [root_node]; unfold branchHash; split <;> exact h32 _ _

theorem mask_idem (v : Nat) : (v &&& LEAF_MASK) &&& LEAF_MASK = v &&& LEAF_MASK := by
  rw [Nat.and_assoc, Nat.and_self]

theorem mask_le (v : Nat) : v &&& LEAF_MASK ≤ 254 := Nat.and_le_right

/-- what `tree_helper` returns for every leaf: its path has one 32-byte node per level, folding the leaf
    hash up that path with the `k < e` rule gives the root, and the version is the masked one -/
theorem leaves_spec {H : TagHash} (h32 : Len32 H) : ∀ (t : Tree) (lf : LeafInfo), lf ∈ leaves H t →
    ∃ d, d ≤ t.depth ∧ lf.2.length = 32 * d ∧
      foldPath H (leafHash H lf.1.1 lf.1.2) lf.2 d = root H t ∧
      lf.1.1 &&& LEAF_MASK = lf.1.1 ∧ lf.1.2 ∈ t.scripts
  | .leaf v s, lf, h => by
    rw [leaves_leaf] at h
    simp only [List.mem_singleton] at h
    subst h
    exact ⟨0, Nat.le_refl _, rfl, rfl, mask_idem v, by simp [Tree.scripts]⟩
  | .node l r, lf, h => by
    rw [leaves_node, List.mem_append] at h
    rcases h with h | h
    · obtain ⟨x, hx, rfl⟩ := List.mem_map.mp h
      obtain ⟨d, hd, hl, hf, hm, hs⟩ := leaves_spec h32 l x hx
      refine ⟨d + 1, by simp [Tree.depth]; omega, by simp [hl, root_length h32 r]; omega, ?_, hm, by simp [Tree.scripts, hs]⟩
      show foldPath H _ (x.2 ++ root H r) (d + 1) = _
      rw [foldPath_append H d _ _ _ hl (root_length h32 r), hf, foldStep_left, root_node]
    · obtain ⟨x, hx, rfl⟩ := List.mem_map.mp h
      obtain ⟨d, hd, hl, hf, hm, hs⟩ := leaves_spec h32 r x hx
      refine ⟨d + 1, by simp [Tree.depth]; omega, by simp [hl, root_length h32 l]; omega, ?_, hm, by simp [Tree.scripts, hs]⟩
      show foldPath H _ (x.2 ++ root H l) (d + 1) = _
      rw [foldPath_append H d _ _ _ hl (root_length h32 l), hf, foldStep_right, root_node]

/-! ## the length gate and the byte positions read by `check_output_pubkey` -/

theorem pydiv32 (a : Int) : Py.div a 32 = a / 32 := by
  unfold Py.div; exact Int.fdiv_eq_ediv_of_nonneg a (by omega)

/-- the two guards pass exactly on `len = 33 + 32·m` within the cap, `m` being Python's floor quotient
    (so `len = 1`, `m = -1` passes the gate too: the block is then refused by the x-coordinate 0) -/
theorem lengthGate_spec (len : Nat) (m : Int) :
    lengthGate len = .ok m ↔ (len ≤ 33 + 32 * 128 ∧ (len : Int) = 33 + 32 * m) := by
  unfold lengthGate
  have hd : Py.div ((len : Int) - (CONTROL_HEAD : Nat)) (NODE_SIZE : Nat) = ((len : Int) - 33) / 32 := pydiv32 _
  have hc : CONTROL_HEAD = 33 := rfl
  have hn : NODE_SIZE = 32 := rfl
  have hm : MAX_TREE_DEPTH = 128 := rfl
  simp only []
  generalize Py.div ((len : Int) - (CONTROL_HEAD : Nat)) (NODE_SIZE : Nat) = q at *
  generalize CONTROL_HEAD = ch at *
  generalize NODE_SIZE = ns at *
  generalize MAX_TREE_DEPTH = md at *
  subst hc hn hm hd
  split
  · constructor
    · intro h; cases h
    · omega
  · split
    · constructor
      · intro h; cases h
      · rintro ⟨_, h⟩; exfalso; omega
    · constructor
      · intro h; injection h with h; subst h; omega
      · rintro ⟨_, h⟩; congr 1; omega

theorem lengthGate_error (len : Nat) (e : Err) (h : lengthGate len = .error e) :
    (e = .toolong ∧ len > 33 + 32 * 128) ∨ (e = .badlen ∧ ¬ ∃ m : Int, (len : Int) = 33 + 32 * m) := by
  by_cases h1 : len ≤ 33 + 32 * 128
  · by_cases h2 : ∃ m : Int, (len : Int) = 33 + 32 * m
    · obtain ⟨m, hm⟩ := h2
      rw [(lengthGate_spec len m).mpr ⟨h1, hm⟩] at h; cases h
    · right
      refine ⟨?_, h2⟩
      unfold lengthGate at h
      have hc : CONTROL_HEAD + NODE_SIZE * MAX_TREE_DEPTH = 33 + 32 * 128 := rfl
      rw [hc] at h
      simp only [show ¬ len > 33 + 32 * 128 by omega, if_false] at h
      split at h
      · cases h; rfl
      · cases h
  · left
    refine ⟨?_, by omega⟩
    unfold lengthGate at h
    have hc : CONTROL_HEAD + NODE_SIZE * MAX_TREE_DEPTH = 33 + 32 * 128 := rfl
    rw [hc] at h
    simp only [show len > 33 + 32 * 128 by omega, if_true] at h
    cases h; rfl

variable {α : Type} (o : GroupOps α) (H : TagHash)

/-- the verdict once the control block is split into its three fields -/
def checkFields (q script : Bytes) (c0 : Nat) (xb path : Bytes) (m : Nat) : Except Err Bool := do
  let t ← tapTweak o H xb (foldPath H (leafHash H (c0 &&& LEAF_MASK) script) path m)
  match o.liftX (ofBE xb : Nat) with
  | none => .error .key
  | some P =>
    let Q := o.add P (o.mul t o.gen)
    pure (o.x Q == (ofBE q : Nat) && c0 &&& PARITY_MASK == (o.y Q % 2).toNat)

theorem check_eq (q script : Bytes) (c0 : UInt8) (xb path : Bytes) (m : Nat)
    (hx : xb.length = 32) (hp : path.length = 32 * m) (hm : m ≤ 128) :
    checkOutputPubkey o H q script (c0 :: (xb ++ path)) = checkFields o H q script c0.toNat xb path m := by
  have hg : lengthGate (c0 :: (xb ++ path)).length = .ok (m : Int) := by
    rw [lengthGate_spec]; simp [hx, hp]; omega
  unfold checkOutputPubkey checkFields
  rw [hg]
  have h1 : (c0 :: (xb ++ path)).drop CONTROL_HEAD = path := by
    show (c0 :: (xb ++ path)).drop 33 = path
    rw [List.drop_succ_cons, List.drop_append_of_le_length (by omega), List.drop_of_length_le (by omega)]
    simp
  have h2 : ((c0 :: (xb ++ path)).drop 1).take (CONTROL_HEAD - 1) = xb := by
    show ((c0 :: (xb ++ path)).drop 1).take 32 = xb
    rw [List.drop_succ_cons, List.drop_zero, List.take_append_of_le_length (by omega), List.take_of_length_le (by omega)]
  simp only [h1, h2, List.headD_cons, LEAF_MASK, PARITY_MASK]
  rfl

end Btc.Taproot
