import Proofs.C12.Commit
/-
C12: the p2tr scriptPubKey glue, and the parity bit of the control block.
-/
namespace Btc.Taproot
open Btc Gen.Taproot
variable {α : Type} {o : GroupOps α}

theorem p2trScript_spec (q : Bytes) :
    (isP2tr (p2trScript q) = true ↔ q.length = 32) ∧ (p2trScript q).drop 2 = q ∧
    (p2trScript q).headD 0 = P2TR_VERSION_OP := by
  refine ⟨?_, rfl, rfl⟩
  unfold isP2tr assertP2tr p2trScript
  have h1 : (P2TR_VERSION_OP :: P2TR_PUSH :: q).length = q.length + 2 := by simp
  have h2 : (P2TR_VERSION_OP :: P2TR_PUSH :: q).headD 0 = P2TR_VERSION_OP := rfl
  have h3 : ((P2TR_VERSION_OP :: P2TR_PUSH :: q).drop 1).headD 0 = P2TR_PUSH := rfl
  rw [h1, h2, h3]
  show (if q.length + 2 ≠ 34 then some 0 else _).isNone = true ↔ _
  by_cases h : q.length = 32
  · simp [h]
  · have : q.length + 2 ≠ 34 := by omega
    simp [this, h]

/-- what `is_p2tr` accepts is exactly `OP_1 ‖ 0x20 ‖ 32 octets` -/
theorem isP2tr_iff (spk : Bytes) : isP2tr spk = true ↔ ∃ q, q.length = 32 ∧ spk = p2trScript q := by
  constructor
  · intro h
    unfold isP2tr assertP2tr at h
    split at h
    · cases h
    · rename_i hl
      split at h
      · cases h
      · rename_i hv
        split at h
        · cases h
        · rename_i hp
          have hl' : spk.length = 34 := Decidable.not_not.mp hl
          match spk, hl', hv, hp with
          | a :: b :: q, hl', hv, hp =>
            have hv' : a = P2TR_VERSION_OP := Decidable.not_not.mp hv
            have hp' : b = P2TR_PUSH := Decidable.not_not.mp hp
            refine ⟨q, by simpa using hl', ?_⟩
            rw [hv', hp']; rfl
  · rintro ⟨q, hq, rfl⟩
    exact (p2trScript_spec q).1.mpr hq

theorem outKey_length (Q : α) : (outKey o Q).1.length = 32 := by
  unfold outKey; exact beBytes_length _ _

theorem tweakedPubkey_len {H : TagHash} (sec h q : Bytes) (par : Nat)
    (hq : tweakedPubkey o H sec h = .ok (q, par)) : q.length = 32 := by
  unfold tweakedPubkey at hq
  cases h1 : tapTweak o H (xOnly sec) h with
  | error e' => rw [h1] at hq; cases hq
  | ok t =>
    cases h2 : pointFromOctets o sec with
    | error e' => rw [h1, h2] at hq; cases hq
    | ok P =>
      rw [h1, h2] at hq
      have := (Prod.mk.inj (Except.ok.inj hq)).1
      rw [← this]; exact outKey_length _

theorem opk_match_inv (r : Except Err (Bytes × Nat)) (x q' xb : Bytes) (par' : Nat)
    (h : (match r with
      | .error e => (Except.error e : Except Err (Bytes × Nat × Bytes))
      | .ok (q, par) => .ok (q, par, x)) = .ok (q', par', xb)) : r = .ok (q', par') := by
  cases r with
  | error e => cases h
  | ok v => obtain ⟨q, par⟩ := v; cases h; rfl

theorem outputPubkey_len {H : TagHash} (sec : Option Bytes) (tree : Option Tree) (q : Bytes) (par : Nat)
    (h : outputPubkey o H sec tree = .ok (q, par)) : q.length = 32 := by
  unfold outputPubkey at h
  cases hk : outputPubkeyAndInternalKey o H sec tree with
  | error e => rw [hk] at h; cases h
  | ok r =>
    obtain ⟨q', par', xb⟩ := r
    rw [hk] at h
    have hq : q' = q := (Prod.mk.inj (Except.ok.inj h)).1
    subst hq
    unfold outputPubkeyAndInternalKey at hk
    cases htk : truthyKey sec <;> cases tree <;> simp only [htk] at hk
    · cases hk
    all_goals exact tweakedPubkey_len _ _ _ _ (opk_match_inv _ _ _ _ _ hk)

/-- every output key `output_pubkey` answers is 32 octets, so `ScriptPubKey.p2tr` answers a p2tr script whose witness
    program is that key -/
theorem scriptPubKeyP2tr_spec {H : TagHash} (sec : Option Bytes) (tree : Option Tree) :
    (∀ e, scriptPubKeyP2tr o H sec tree = .error e ↔ outputPubkey o H sec tree = .error e) ∧
    (∀ spk, scriptPubKeyP2tr o H sec tree = .ok spk →
      ∃ q par, outputPubkey o H sec tree = .ok (q, par) ∧ q.length = 32 ∧ spk = p2trScript q ∧
        isP2tr spk = true ∧ spk.drop 2 = q ∧ spk.length = 34) := by
  unfold scriptPubKeyP2tr
  cases h : outputPubkey o H sec tree with
  | error e =>
    refine ⟨fun e' => ?_, fun spk hs => by cases hs⟩
    exact Iff.intro (fun h' => by cases h'; rfl) (fun h' => by cases h'; rfl)
  | ok r =>
    obtain ⟨q, par⟩ := r
    refine ⟨fun e => Iff.intro (fun h' => by cases h') (fun h' => by cases h'), fun spk hs => ?_⟩
    have e : spk = p2trScript q := (Except.ok.inj hs).symm
    have hq : q.length = 32 := outputPubkey_len sec tree q par h
    subst e
    exact ⟨q, par, rfl, hq, rfl, (p2trScript_spec q).1.mpr hq, rfl, by simp [p2trScript, hq]⟩

theorem byte_flip : ∀ c : Fin 256, ((c.val ^^^ 1) &&& 254 = c.val &&& 254) ∧ ((c.val ^^^ 1) &&& 1 ≠ c.val &&& 1) := by
  decide +kernel

/-- the parity bit is COMPARED: a block that verifies stops verifying (answers False, not a refusal) when bit 0 of its
    first byte is flipped, everything else — leaf version bits, internal key, path, script, output key — unchanged -/
theorem parity_flip {H : TagHash} (q s rest : Bytes) (c0 : UInt8)
    (h : checkOutputPubkey o H q s (c0 :: rest) = .ok true) :
    checkOutputPubkey o H q s ((c0 ^^^ 1) :: rest) = .ok false := by
  obtain ⟨m, t, P, hg, ht, hl, hx, hpar⟩ := check_true_inv q s (c0 :: rest) h
  obtain ⟨hb1, hb2⟩ := byte_flip ⟨c0.toNat, UInt8.toNat_lt c0⟩
  simp only at hb1 hb2
  have hxor : (c0 ^^^ 1).toNat = c0.toNat ^^^ 1 := by simp [UInt8.toNat_xor]
  simp only [List.headD_cons, List.drop_succ_cons, List.drop_zero] at ht hl hpar
  unfold checkOutputPubkey
  have hlen : ((c0 ^^^ 1) :: rest).length = (c0 :: rest).length := rfl
  rw [hlen, hg]
  simp only [bind, Except.bind, List.headD_cons, LEAF_MASK, PARITY_MASK, CONTROL_HEAD, List.drop_succ_cons,
    List.drop_zero, hxor, hb1]
  rw [ht]
  simp only [hl, pure, Except.pure]
  congr 1
  have hx' : (o.x (o.add P (o.mul t o.gen)) == ((ofBE q : Nat) : Int)) = true := by rw [hx]; simp
  rw [hx', Bool.true_and]
  rw [← hpar]
  simpa using hb2

end Btc.Taproot
