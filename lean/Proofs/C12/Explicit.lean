import Proofs.C12.Commit
/-
C12 soundness with the colliding pair NAMED: the collision the reduction exhibits is between one of the (tag, message)
pairs `check_output_pubkey` hashes on the claimed (script, control block) and one of the pairs `tree_helper` hashes on
the committed tree — two explicit finite lists, both computable from the inputs.
-/
namespace Btc.Taproot
open Btc Gen.Taproot

/-- the message of one fold step of `check_output_pubkey` -/
def stepMsg (k e : Bytes) : Bytes := if ltBytes k e then k ++ e else e ++ k
/-- the message of `tree_helper`'s branch hash -/
def branchMsg (lh rh : Bytes) : Bytes := if ltBytes rh lh then rh ++ lh else lh ++ rh
/-- the message of `leaf_hash` -/
def leafMsg (v : Nat) (s : Bytes) : Bytes := UInt8.ofNat v :: varBytes s

theorem foldStep_eq (H : TagHash) (k e : Bytes) : foldStep H k e = H TAG_BRANCH (stepMsg k e) := by
  unfold foldStep stepMsg; split <;> rfl
theorem branchHash_eq (H : TagHash) (lh rh : Bytes) : branchHash H lh rh = H TAG_BRANCH (branchMsg lh rh) := by
  unfold branchHash branchMsg; split <;> rfl
theorem leafHash_eq (H : TagHash) (v : Nat) (s : Bytes) : leafHash H v s = H TAG_LEAF (leafMsg v s) := rfl

/-- every (tag, message) `tree_helper` hashes while walking the tree -/
def Tree.preimages (H : TagHash) : Tree → List (Bytes × Bytes)
  | .leaf v s => [(TAG_LEAF, leafMsg (v &&& LEAF_MASK) s)]
  | .node l r => (TAG_BRANCH, branchMsg (root H l) (root H r)) :: (l.preimages H ++ r.preimages H)

/-- every (tag, message) `check_output_pubkey` hashes folding `k` up `path` -/
def foldMsgs (H : TagHash) (k path : Bytes) : Nat → List (Bytes × Bytes)
  | 0 => []
  | j + 1 => (TAG_BRANCH, stepMsg k (path.take NODE_SIZE)) ::
      foldMsgs H (foldStep H k (path.take NODE_SIZE)) (path.drop NODE_SIZE) j

/-- … on a claimed (version, script, path): the leaf preimage, then one branch preimage per path node -/
def checkPreimages (H : TagHash) (v : Nat) (s path : Bytes) (m : Nat) : List (Bytes × Bytes) :=
  (TAG_LEAF, leafMsg v s) :: foldMsgs H (leafHash H v s) path m

/-- a collision of the tagged hash between a member of `xs` and a member of `ys` -/
def CollisionBetween (H : TagHash) (xs ys : List (Bytes × Bytes)) : Prop :=
  ∃ a ∈ xs, ∃ b ∈ ys, a ≠ b ∧ H a.1 a.2 = H b.1 b.2

theorem CollisionBetween.collision {H : TagHash} {xs ys : List (Bytes × Bytes)} (h : CollisionBetween H xs ys) :
    Collision H := by
  obtain ⟨a, -, b, -, hne, he⟩ := h
  exact ⟨a.1, a.2, b.1, b.2, hne, he⟩

theorem CollisionBetween.mono {H : TagHash} {xs ys xs' ys' : List (Bytes × Bytes)} (h : CollisionBetween H xs ys)
    (hx : ∀ a ∈ xs, a ∈ xs') (hy : ∀ b ∈ ys, b ∈ ys') : CollisionBetween H xs' ys' := by
  obtain ⟨a, ha, b, hb, hne, he⟩ := h
  exact ⟨a, hx a ha, b, hy b hb, hne, he⟩

theorem foldMsgs_append (H : TagHash) : ∀ (n : Nat) (k c e : Bytes), c.length = 32 * n → e.length = 32 →
    foldMsgs H k (c ++ e) (n + 1) = foldMsgs H k c n ++ [(TAG_BRANCH, stepMsg (foldPath H k c n) e)]
  | 0, k, c, e, hc, he => by
    have : c = [] := List.eq_nil_of_length_eq_zero (by omega)
    subst this
    simp [foldMsgs, foldPath, NODE_SIZE, List.take_of_length_le (Nat.le_of_eq he)]
  | n + 1, k, c, e, hc, he => by
    have h1 : (c ++ e).take NODE_SIZE = c.take NODE_SIZE := by
      simp only [NODE_SIZE]; rw [List.take_append_of_le_length (by omega)]
    have h2 : (c ++ e).drop NODE_SIZE = c.drop NODE_SIZE ++ e := by
      simp only [NODE_SIZE]; rw [List.drop_append_of_le_length (by omega)]
    show (TAG_BRANCH, stepMsg k ((c ++ e).take NODE_SIZE)) ::
        foldMsgs H (foldStep H k ((c ++ e).take NODE_SIZE)) ((c ++ e).drop NODE_SIZE) (n + 1) = _
    rw [h1, h2, foldMsgs_append H n _ (c.drop NODE_SIZE) e (by simp [NODE_SIZE]; omega) he]
    rfl

theorem foldMsgs_last (H : TagHash) (m : Nat) (k path : Bytes) (hp : path.length = 32 * (m + 1)) :
    foldMsgs H k path (m + 1) = foldMsgs H k (path.take (32 * m)) m ++
      [(TAG_BRANCH, stepMsg (foldPath H k (path.take (32 * m)) m) (path.drop (32 * m)))] := by
  have := foldMsgs_append H m k (path.take (32 * m)) (path.drop (32 * m)) (by simp; omega) (by simp; omega)
  rwa [List.take_append_drop] at this

/-- two sorted pairs of 32-byte strings with one digest are one unordered pair, or THESE two messages collide -/
theorem foldStep_eq_branchHash_explicit {H : TagHash} (k e lh rh : Bytes)
    (hk : k.length = 32) (hl : lh.length = 32) (hr : rh.length = 32)
    (h : foldStep H k e = branchHash H lh rh) :
    (k = lh ∧ e = rh) ∨ (k = rh ∧ e = lh) ∨
      (stepMsg k e ≠ branchMsg lh rh ∧ H TAG_BRANCH (stepMsg k e) = H TAG_BRANCH (branchMsg lh rh)) := by
  rw [foldStep_eq, branchHash_eq] at h
  by_cases hm : stepMsg k e = branchMsg lh rh
  swap
  · exact Or.inr (Or.inr ⟨hm, h⟩)
  unfold stepMsg branchMsg at hm
  split at hm <;> split at hm
  · obtain ⟨a, b⟩ := List.append_inj hm (by omega); exact Or.inr (Or.inl ⟨a, b⟩)
  · obtain ⟨a, b⟩ := List.append_inj hm (by omega); exact Or.inl ⟨a, b⟩
  · obtain ⟨a, b⟩ := List.append_inj' hm (by omega); exact Or.inl ⟨b, a⟩
  · obtain ⟨a, b⟩ := List.append_inj' hm (by omega); exact Or.inr (Or.inl ⟨b, a⟩)

/-- merkle soundness with the colliding pair named: a (version, script, path) that folds to the root is a leaf of the
    tree with its own path, or one of the preimages hashed on the claimed path collides with one of the preimages
    hashed in the tree -/
theorem fold_sound_explicit {H : TagHash} (h32 : Len32 H) : ∀ (t : Tree) (v : Nat) (s path : Bytes) (m : Nat),
    v < 256 → s.length < 2 ^ 64 → (∀ s' ∈ t.scripts, s'.length < 2 ^ 64) → path.length = 32 * m →
    foldPath H (leafHash H v s) path m = root H t →
    ((v, s), path) ∈ leaves H t ∨ CollisionBetween H (checkPreimages H v s path m) (t.preimages H)
  | .leaf v0 s0, v, s, path, 0, hv, hs, ht, hp, hf => by
    have : path = [] := List.eq_nil_of_length_eq_zero (by omega)
    subst this
    change leafHash H v s = leafHash H (v0 &&& LEAF_MASK) s0 at hf
    by_cases hm : leafMsg v s = leafMsg (v0 &&& LEAF_MASK) s0
    · left
      have := mask_le v0
      obtain ⟨a, b⟩ := leafMsg_inj v _ s s0 hv (by omega) hs (ht s0 (by simp [Tree.scripts])) hm
      rw [leaves_leaf, a, b]; simp
    · right
      exact ⟨_, List.mem_cons_self, _, List.mem_singleton.mpr rfl, by simpa using hm, hf⟩
  | .leaf v0 s0, v, s, path, m + 1, hv, hs, ht, hp, hf => by
    right
    rw [foldPath_last H m _ path hp, root_leaf, foldStep_eq] at hf
    refine ⟨(TAG_BRANCH, _), ?_, (TAG_LEAF, leafMsg (v0 &&& LEAF_MASK) s0), List.mem_singleton.mpr rfl,
      fun hc => tag_leaf_ne_branch (Prod.mk.inj hc).1.symm, hf⟩
    unfold checkPreimages
    rw [foldMsgs_last H m _ path hp]
    exact List.mem_cons.mpr (Or.inr (List.mem_append.mpr (Or.inr (List.mem_singleton.mpr rfl))))
  | .node l r, v, s, path, 0, hv, hs, ht, hp, hf => by
    right
    change leafHash H v s = _ at hf
    rw [root_node, branchHash_eq] at hf
    exact ⟨(TAG_LEAF, leafMsg v s), List.mem_cons_self, (TAG_BRANCH, _), List.mem_cons_self,
      fun hc => tag_leaf_ne_branch (Prod.mk.inj hc).1, hf⟩
  | .node l r, v, s, path, m + 1, hv, hs, ht, hp, hf => by
    rw [foldPath_last H m _ path hp, root_node] at hf
    have hk : (foldPath H (leafHash H v s) (path.take (32 * m)) m).length = 32 :=
      foldPath_length h32 m _ _ (h32 _ _)
    have hc : (path.take (32 * m)).length = 32 * m := by simp; omega
    have hsub : ∀ a ∈ checkPreimages H v s (path.take (32 * m)) m, a ∈ checkPreimages H v s path (m + 1) := by
      intro a ha
      unfold checkPreimages at ha ⊢
      rw [foldMsgs_last H m _ path hp]
      rcases List.mem_cons.mp ha with h | h
      · exact List.mem_cons.mpr (Or.inl h)
      · exact List.mem_cons.mpr (Or.inr (List.mem_append.mpr (Or.inl h)))
    rcases foldStep_eq_branchHash_explicit _ _ _ _ hk (root_length h32 l) (root_length h32 r) hf with
      ⟨a, b⟩ | ⟨a, b⟩ | ⟨hne, he⟩
    · rcases fold_sound_explicit h32 l v s (path.take (32 * m)) m hv hs
          (fun s' hs' => ht s' (by simp [Tree.scripts, hs'])) hc a with h | h
      · left
        rw [leaves_node, List.mem_append]; left
        rw [List.mem_map]
        exact ⟨_, h, by show ((v, s), path.take (32 * m) ++ _) = ((v, s), path); rw [← b, List.take_append_drop]⟩
      · exact Or.inr (h.mono hsub (fun b hb => List.mem_cons.mpr (Or.inr (List.mem_append.mpr (Or.inl hb)))))
    · rcases fold_sound_explicit h32 r v s (path.take (32 * m)) m hv hs
          (fun s' hs' => ht s' (by simp [Tree.scripts, hs'])) hc a with h | h
      · left
        rw [leaves_node, List.mem_append]; right
        rw [List.mem_map]
        exact ⟨_, h, by show ((v, s), path.take (32 * m) ++ _) = ((v, s), path); rw [← b, List.take_append_drop]⟩
      · exact Or.inr (h.mono hsub (fun b hb => List.mem_cons.mpr (Or.inr (List.mem_append.mpr (Or.inr hb)))))
    · right
      refine ⟨(TAG_BRANCH, _), ?_, (TAG_BRANCH, _), List.mem_cons_self, fun hc => hne (Prod.mk.inj hc).2, he⟩
      unfold checkPreimages
      rw [foldMsgs_last H m _ path hp]
      exact List.mem_cons.mpr (Or.inr (List.mem_append.mpr (Or.inr (List.mem_singleton.mpr rfl))))

variable {α : Type} {o : GroupOps α}

/-- the tweak alias with its witnesses named: THIS (internal key ‖ merkle root) preimage, different from the
    committed one, is accepted by `_tap_tweak` and tweaks its lifted key onto the same output key -/
def TweakAliasAt (o : GroupOps α) (H : TagHash) (xb rt q xb' k' : Bytes) : Prop :=
  xb' ++ k' ≠ xb ++ rt ∧ ∃ (t : Int) (P : α), tapTweak o H xb' k' = .ok t ∧
    o.liftX (ofBE xb' : Nat) = some P ∧ o.x (o.add P (o.mul t o.gen)) = (ofBE q : Nat)

theorem TweakAliasAt.alias {H : TagHash} {xb rt q xb' k' : Bytes} (h : TweakAliasAt o H xb rt q xb' k') :
    TweakAlias o H xb rt q := by
  obtain ⟨hne, t, P, ht, hl, hx⟩ := h
  exact ⟨xb', k', t, P, hne, ht, hl, hx⟩

/-- T3 with every witness named: a verifying (script, control block) is an `input_script_sig` pair of the committed
    tree, or a collision between the preimages hashed on the claimed block and those hashed in the tree, or the block's
    own (internal key ‖ folded root) is a tweak alias -/
theorem soundness_explicit_aux (hev : LiftEven o) {H : TagHash} (h32 : Len32 H) (tree : Tree) (xb : Bytes)
    (hxb : xb.length = 32) (htree : ∀ s ∈ tree.scripts, s.length < 2 ^ 64)
    (q : Bytes) (par : Nat) (s' c' : Bytes) (hs' : s'.length < 2 ^ 64)
    (hq : tweakedPubkey o H (2 :: xb) (root H tree) = .ok (q, par))
    (hc : checkOutputPubkey o H q s' c' = .ok true) :
    (∃ lf ∈ leaves H tree, s' = lf.1.2 ∧ c' = controlBlock par lf.1.1 xb lf.2) ∨
    CollisionBetween H
      (checkPreimages H ((c'.headD 0).toNat &&& 254) s' (c'.drop 33) ((c'.length - 33) / 32))
      (tree.preimages H) ∨
    TweakAliasAt o H xb (root H tree) q ((c'.drop 1).take 32)
      (foldPath H (leafHash H ((c'.headD 0).toNat &&& 254) s') (c'.drop 33) ((c'.length - 33) / 32)) := by
  obtain ⟨m, t, P, hg, ht, hl, hx, hpar⟩ := check_true_inv q s' c' hc
  obtain ⟨hcap, hlen⟩ := (lengthGate_spec _ _).mp hg
  have hmn : m.toNat = (c'.length - 33) / 32 := by omega
  rw [hmn] at ht
  by_cases hpre : (c'.drop 1).take 32 ++
      foldPath H (leafHash H ((c'.headD 0).toNat &&& 254) s') (c'.drop 33) ((c'.length - 33) / 32) = xb ++ root H tree
  swap
  · exact Or.inr (Or.inr ⟨hpre, t, P, ht, hl, hx⟩)
  have hk32 : (foldPath H (leafHash H ((c'.headD 0).toNat &&& 254) s') (c'.drop 33) ((c'.length - 33) / 32)).length = 32 :=
    foldPath_length h32 _ _ _ (h32 _ _)
  have hm0 : 0 ≤ m := by
    by_contra hneg
    have hc1 : c'.length = 1 := by omega
    have h1 : ((c'.drop 1).take 32).length = 0 := by simp; omega
    have := congrArg List.length hpre
    rw [List.length_append, List.length_append, h1, hk32, hxb, root_length h32 tree] at this
    omega
  obtain ⟨mn, rfl⟩ := Int.eq_ofNat_of_zero_le hm0
  have hcl : c'.length = 33 + 32 * mn := by omega
  have hmn' : (c'.length - 33) / 32 = mn := by omega
  rw [hmn'] at hpre ht ⊢
  have hxl : ((c'.drop 1).take 32).length = 32 := by simp; omega
  obtain ⟨hxeq, hkeq⟩ := List.append_inj hpre (by omega)
  have hpl : (c'.drop 33).length = 32 * mn := by simp; omega
  have hv : (c'.headD 0).toNat &&& 254 < 256 := Nat.lt_of_le_of_lt Nat.and_le_right (by omega)
  rcases fold_sound_explicit h32 tree _ s' (c'.drop 33) mn hv hs' htree hpl hkeq with hmem | hcol
  swap
  · exact Or.inr (Or.inl hcol)
  refine Or.inl ⟨_, hmem, rfl, ?_⟩
  -- the committed parity is the one the block carries (as in `soundness_aux`)
  rw [hxeq] at hl ht
  rw [hkeq] at ht
  have hxo : xOnly (2 :: xb) = xb := by
    show (xb.take 32) = xb
    exact List.take_of_length_le (by omega)
  have hpt : pointFromOctets o (2 :: xb) = .ok P := by
    unfold pointFromOctets
    simp [hxb, hl]
  have hyP := hev _ _ hl
  have hevP : evenY o P = P := by
    unfold evenY; rw [if_pos ((hasEvenY_iff P).mpr hyP)]
  unfold tweakedPubkey at hq
  rw [hxo, ht, hpt] at hq
  have hq' := Prod.mk.inj (Except.ok.inj hq)
  have hpar' : par = (c'.headD 0).toNat &&& 1 := by
    rw [hpar, ← hq'.2]; unfold tweakPoint; rw [hevP]
  cases c' with
  | nil => exfalso; simp at hcl; omega
  | cons c0 rest =>
    simp only [List.headD_cons, List.drop_succ_cons, List.drop_zero] at hxeq hpar' ⊢
    have hb := byte_split ⟨c0.toNat, UInt8.toNat_lt c0⟩
    simp only at hb
    unfold controlBlock
    rw [hpar', hb]
    have : UInt8.ofNat c0.toNat = c0 := by simp
    rw [this, ← hxeq, List.take_append_drop]

end Btc.Taproot
