import Proofs.C12.Sound
import Proofs.C12.Tweak
/-
C12: commitment soundness as a reduction (control block level), refusals, the length gate.
-/
namespace Btc.Taproot
open Btc Gen.Taproot
variable {α G : Type} [AddCommGroup G] {o : GroupOps α}

/-- a second (internal key ‖ merkle root) preimage of the tweak hash that lands on the same output key -/
def TweakAlias (o : GroupOps α) (H : TagHash) (xb rt q : Bytes) : Prop :=
  ∃ (xb' k' : Bytes) (t : Int) (P : α), xb' ++ k' ≠ xb ++ rt ∧ tapTweak o H xb' k' = .ok t ∧
    o.liftX (ofBE xb' : Nat) = some P ∧ o.x (o.add P (o.mul t o.gen)) = (ofBE q : Nat)

theorem check_true_inv {H : TagHash} (q s c : Bytes) (h : checkOutputPubkey o H q s c = .ok true) :
    ∃ (m t : Int) (P : α), lengthGate c.length = .ok m ∧
      tapTweak o H ((c.drop 1).take 32)
        (foldPath H (leafHash H ((c.headD 0).toNat &&& 254) s) (c.drop 33) m.toNat) = .ok t ∧
      o.liftX (ofBE ((c.drop 1).take 32) : Nat) = some P ∧
      o.x (o.add P (o.mul t o.gen)) = (ofBE q : Nat) ∧
      (c.headD 0).toNat &&& 1 = (o.y (o.add P (o.mul t o.gen)) % 2).toNat := by
  unfold checkOutputPubkey at h
  cases hg : lengthGate c.length with
  | error e => rw [hg] at h; cases h
  | ok m =>
    rw [hg] at h
    simp only [bind, Except.bind, LEAF_MASK, CONTROL_HEAD, PARITY_MASK] at h
    cases ht : tapTweak o H ((c.drop 1).take 32)
        (foldPath H (leafHash H ((c.headD 0).toNat &&& 254) s) (c.drop 33) m.toNat) with
    | error e => rw [ht] at h; cases h
    | ok t =>
      rw [ht] at h
      simp only at h
      cases hl : o.liftX (ofBE ((c.drop 1).take 32) : Nat) with
      | none => rw [hl] at h; cases h
      | some P =>
        rw [hl] at h
        simp only [pure, Except.pure] at h
        have hb := Except.ok.inj h
        simp only [Bool.and_eq_true, beq_iff_eq] at hb
        exact ⟨m, t, P, rfl, ht, rfl, hb.1, hb.2⟩

theorem byte_split : ∀ c : Fin 256, (c.val &&& 1) + (c.val &&& 254) = c.val := by decide +kernel

/-- `lift_x` answers an even-y point: all that soundness needs of the group.  True of `Btc.EC.ops C` for every
    curve over an odd field size (`Proofs/C12/EC.lean`), so T3 is a theorem about the arithmetic the driver runs. -/
def LiftEven (o : GroupOps α) : Prop := ∀ (x : Int) (P : α), o.liftX x = some P → o.y P % 2 = 0

theorem liftEven_of_lawful (L : Lawful o G) : LiftEven o := fun x P h => (L.liftX_some x P h).2.2

theorem soundness_aux (hev : LiftEven o) {H : TagHash} (h32 : Len32 H) (tree : Tree) (xb : Bytes)
    (hxb : xb.length = 32) (htree : ∀ s ∈ tree.scripts, s.length < 2 ^ 64)
    (q : Bytes) (par : Nat) (s' c' : Bytes) (hs' : s'.length < 2 ^ 64)
    (hq : tweakedPubkey o H (2 :: xb) (root H tree) = .ok (q, par))
    (hc : checkOutputPubkey o H q s' c' = .ok true) :
    (∃ lf ∈ leaves H tree, s' = lf.1.2 ∧ c' = controlBlock par lf.1.1 xb lf.2) ∨
    Collision H ∨ TweakAlias o H xb (root H tree) q := by
  obtain ⟨m, t, P, hg, ht, hl, hx, hpar⟩ := check_true_inv q s' c' hc
  obtain ⟨hcap, hlen⟩ := (lengthGate_spec _ _).mp hg
  by_cases hpre : (c'.drop 1).take 32 ++
      foldPath H (leafHash H ((c'.headD 0).toNat &&& 254) s') (c'.drop 33) m.toNat = xb ++ root H tree
  swap
  · exact Or.inr (Or.inr ⟨_, _, t, P, hpre, ht, hl, hx⟩)
  -- same tweak preimage: the control block carries the committed internal key and folds to the root
  have hk32 : (foldPath H (leafHash H ((c'.headD 0).toNat &&& 254) s') (c'.drop 33) m.toNat).length = 32 :=
    foldPath_length h32 _ _ _ (h32 _ _)
  have hm0 : 0 ≤ m := by
    by_contra hneg
    have hc1 : c'.length = 1 := by omega
    have h1 : ((c'.drop 1).take 32).length = 0 := by simp; omega
    have := congrArg List.length hpre
    rw [List.length_append, List.length_append, h1, hk32, hxb, root_length h32 tree] at this
    omega
  obtain ⟨mn, rfl⟩ := Int.eq_ofNat_of_zero_le hm0
  have hcl : c'.length = 33 + 32 * mn := by omega
  have hxl : ((c'.drop 1).take 32).length = 32 := by simp; omega
  obtain ⟨hxeq, hkeq⟩ := List.append_inj hpre (by omega)
  simp only [Int.toNat_natCast] at hkeq ht
  have hpl : (c'.drop 33).length = 32 * mn := by simp; omega
  have hv : (c'.headD 0).toNat &&& 254 < 256 := Nat.lt_of_le_of_lt Nat.and_le_right (by omega)
  rcases fold_sound h32 tree _ s' (c'.drop 33) mn hv hs' htree hpl hkeq with hmem | hcol
  swap
  · exact Or.inr (Or.inl hcol)
  refine Or.inl ⟨_, hmem, rfl, ?_⟩
  -- the committed parity is the one the block carries
  rw [hxeq] at hl ht
  rw [hkeq] at ht
  have hxo : xOnly (2 :: xb) = xb := by
    show (xb.take 32) = xb
    exact List.take_of_length_le (by omega)
  have hpt : pointFromOctets o (2 :: xb) = .ok P := by
    unfold pointFromOctets
    simp [hxb, hl]
  have hyP := hev _ _ hl
  have hevP : evenY o P = P := by
    unfold evenY; rw [if_pos ((hasEvenY_iff P).mpr hyP)]
  unfold tweakedPubkey at hq
  rw [hxo, ht, hpt] at hq
  have hq' := Prod.mk.inj (Except.ok.inj hq)
  have hpar' : par = (c'.headD 0).toNat &&& 1 := by
    rw [hpar, ← hq'.2]; unfold tweakPoint; rw [hevP]
  -- reassemble the block
  cases c' with
  | nil => exfalso; simp at hcl; omega
  | cons c0 rest =>
    simp only [List.headD_cons, List.drop_succ_cons, List.drop_zero] at hxeq hpar' ⊢
    have hb := byte_split ⟨c0.toNat, UInt8.toNat_lt c0⟩
    simp only at hb
    unfold controlBlock
    rw [hpar', hb]
    have : UInt8.ofNat c0.toNat = c0 := by simp
    rw [this, ← hxeq, List.take_append_drop]

/-! ## refusals -/

theorem tapTweak_error_iff (o : GroupOps α) (H : TagHash) (pk h : Bytes) :
    tapTweak o H pk h = .error .tweak ↔ o.n ≤ (ofBE (H TAG_TWEAK (pk ++ h)) : Nat) := by
  unfold tapTweak
  simp only [ge_iff_le]
  split <;> simp_all

theorem tapTweak_ok_iff (o : GroupOps α) (H : TagHash) (pk h : Bytes) (t : Int) :
    tapTweak o H pk h = .ok t ↔ t = (ofBE (H TAG_TWEAK (pk ++ h)) : Nat) ∧ t < o.n := by
  unfold tapTweak
  simp only [ge_iff_le]
  split
  · constructor
    · intro h; cases h
    · rintro ⟨rfl, h⟩; omega
  · constructor
    · intro h; cases h; exact ⟨rfl, by omega⟩
    · rintro ⟨rfl, _⟩; rfl

theorem check_unliftable {H : TagHash} (q s c : Bytes)
    (hl : o.liftX (ofBE ((c.drop 1).take 32) : Nat) = none) :
    ∃ e, checkOutputPubkey o H q s c = .error e := by
  have hl : o.liftX (ofBE ((c.drop 1).take (CONTROL_HEAD - 1)) : Nat) = none := hl
  unfold checkOutputPubkey
  cases lengthGate c.length with
  | error e => exact ⟨e, rfl⟩
  | ok m =>
    simp only [bind, Except.bind]
    split
    · exact ⟨_, rfl⟩
    · rw [hl]; exact ⟨_, rfl⟩

theorem tweakedPubkey_unliftable {H : TagHash} (pre : UInt8) (xb h : Bytes) (hpre : pre = 2 ∨ pre = 3)
    (hl : o.liftX (ofBE xb : Nat) = none) :
    ∃ e, tweakedPubkey o H (pre :: xb) h = .error e := by
  unfold tweakedPubkey
  cases tapTweak o H (xOnly (pre :: xb)) h with
  | error e => exact ⟨e, rfl⟩
  | ok t =>
    have : pointFromOctets o (pre :: xb) = .error .key := by
      unfold pointFromOctets
      simp only [hpre, if_true]
      split
      · rfl
      · rw [hl]
    simp only [bind, Except.bind, this]
    exact ⟨_, rfl⟩

theorem check_tweak_refused {H : TagHash} (q s : Bytes) (c0 : UInt8) (xb path : Bytes) (m : Nat)
    (hx : xb.length = 32) (hp : path.length = 32 * m) (hm : m ≤ 128)
    (hr : o.n ≤ (ofBE (H TAG_TWEAK (xb ++ foldPath H (leafHash H (c0.toNat &&& LEAF_MASK) s) path m)) : Nat)) :
    checkOutputPubkey o H q s (c0 :: (xb ++ path)) = .error .tweak := by
  rw [check_eq o H q s c0 xb path m hx hp hm]
  unfold checkFields
  rw [(tapTweak_error_iff o H _ _).mpr hr]; rfl

theorem tweaked_refused {H : TagHash} (sec h : Bytes) (d : Int)
    (hr : o.n ≤ (ofBE (H TAG_TWEAK (xOnly sec ++ h)) : Nat))
    (hx : xOnly sec = beBytes 32 (o.x (o.mul d o.gen)).toNat) :
    tweakedPubkey o H sec h = .error .tweak ∧ tweakedPrvkey o H d h = .error .tweak := by
  have ht := (tapTweak_error_iff o H _ _).mpr hr
  constructor
  · unfold tweakedPubkey; rw [ht]; rfl
  · unfold tweakedPrvkey; simp only []; rw [← hx, ht]; rfl

/-! ## the length gate, stated on lengths -/

theorem lengthGate_passes_iff (len : Nat) :
    (∃ m, lengthGate len = .ok m) ↔ (len = 1 ∨ ∃ m : Nat, m ≤ 128 ∧ len = 33 + 32 * m) := by
  constructor
  · rintro ⟨m, h⟩
    obtain ⟨h1, h2⟩ := (lengthGate_spec len m).mp h
    by_cases hm : 0 ≤ m
    · right; exact ⟨m.toNat, by omega, by omega⟩
    · left; omega
  · rintro (h | ⟨m, hm, h⟩)
    · exact ⟨-1, (lengthGate_spec len (-1)).mpr ⟨by omega, by omega⟩⟩
    · exact ⟨m, (lengthGate_spec len m).mpr ⟨by omega, by omega⟩⟩

/-! ## spelling independence -/

/-- the output key does not depend on how the internal key is spelled: any SEC form of ±P gives the
    key of the x-only form `02 ‖ x(P)` -/
theorem spelling_independent_aux (L : Lawful o G) {H : TagHash} (sec h : Bytes) (P : α) (t : Int)
    (hP : pointFromOctets o sec = .ok P) (ht : tapTweak o H (xOnly sec) h = .ok t)
    (hQ : L.abs (tweakPoint o P t) ≠ 0) :
    tweakedPubkey o H (2 :: xOnly sec) h = tweakedPubkey o H sec h := by
  obtain ⟨hP0, hPx, hxl⟩ := pointFromOctets_spec L sec P hP
  obtain ⟨P', hl', hab⟩ := liftX_evenY L L.y_congr P hP0
  have hxo : xOnly (2 :: xOnly sec) = xOnly sec := by
    show (xOnly sec).take 32 = xOnly sec
    exact List.take_of_length_le (by omega)
  have hpt : pointFromOctets o (2 :: xOnly sec) = .ok P' := by
    unfold pointFromOctets
    simp [hxl, hPx, hl']
  obtain ⟨-, -, hyP'⟩ := L.liftX_some _ _ hl'
  have hev : evenY o P' = P' := by
    unfold evenY; rw [if_pos ((hasEvenY_iff P').mpr hyP')]
  rw [tweakedPubkey_ok sec h P t hP ht, tweakedPubkey_ok (2 :: xOnly sec) h P' t hpt (by rw [hxo]; exact ht)]
  have habs : L.abs (tweakPoint o P' t) = L.abs (tweakPoint o P t) := by
    unfold tweakPoint; rw [hev, L.abs_add, L.abs_add, hab]
  obtain ⟨hcx, hcy⟩ := coords_congr L L.y_congr _ _ habs hQ
  unfold outKey
  rw [hcx, hcy]

/-! ## every leaf version -/

/-- what `input_script_sig` answers on a single-leaf tree, whatever the leaf version -/
theorem iss_leaf {H : TagHash} (sec : Bytes) (hne : sec ≠ []) (v : Nat) (s s' c : Bytes)
    (h : inputScriptSig o H (some sec) (.leaf v s) 0 = .ok (s', c)) :
    s' = s ∧ ∃ par, par < 2 ∧ c = controlBlock par (v &&& LEAF_MASK) (xOnly sec) [] := by
  unfold inputScriptSig at h
  cases hk : outputPubkeyAndInternalKey o H (some sec) (some (.leaf v s)) with
  | error e => rw [hk] at h; cases h
  | ok r =>
    obtain ⟨q, par, xb⟩ := r
    rw [hk] at h
    simp only [leaves_leaf] at h
    have hx : xb = xOnly sec ∧ par < 2 := by
      have htk : truthyKey (some sec) = some sec := by
        cases sec with
        | nil => exact absurd rfl hne
        | cons _ _ => rfl
      unfold outputPubkeyAndInternalKey at hk
      rw [htk] at hk
      simp only [Option.getD_some] at hk
      cases hq : tweakedPubkey o H sec (root H (.leaf v s)) with
      | error e => rw [hq] at hk; cases hk
      | ok r2 =>
        rw [hq] at hk
        have e := Except.ok.inj hk
        have e1 : r2.2 = par := (Prod.mk.inj (Prod.mk.inj e).2).1
        have e2 : xOnly sec = xb := (Prod.mk.inj (Prod.mk.inj e).2).2
        refine ⟨e2.symm, ?_⟩
        unfold tweakedPubkey at hq
        cases ht : tapTweak o H (xOnly sec) (root H (.leaf v s)) with
        | error e => rw [ht] at hq; cases hq
        | ok t =>
          cases hP : pointFromOctets o sec with
          | error e => rw [ht, hP] at hq; cases hq
          | ok P =>
            rw [ht, hP] at hq
            have := Except.ok.inj hq
            rw [← e1, ← this]
            show (o.y _ % 2).toNat < 2
            omega
    simp at h
    obtain ⟨h1, h2⟩ := h
    exact ⟨h1.symm, par, hx.2, by rw [← h2, hx.1]⟩

/-! ## the output key is committed to as an INTEGER (length is not) -/

/-- one (script, control block) verifies against at most one output key of a given length: two keys of equal
    length that both verify are equal.  (`check_output_pubkey` compares `int.from_bytes(q)`: `00 ‖ q` verifies
    like `q` — known finding `taproot.check_output_pubkey.zero_padded_key_accepted` — so length is NOT committed.) -/
theorem output_key_unique {H : TagHash} (q q' s c : Bytes) (hlen : q'.length = q.length)
    (h : checkOutputPubkey o H q s c = .ok true) (h' : checkOutputPubkey o H q' s c = .ok true) : q' = q := by
  obtain ⟨m, t, P, hg, ht, hl, hx, -⟩ := check_true_inv q s c h
  obtain ⟨m', t', P', hg', ht', hl', hx', -⟩ := check_true_inv q' s c h'
  rw [hg] at hg'; cases hg'
  rw [ht] at ht'; cases ht'
  rw [hl] at hl'; cases hl'
  rw [hx] at hx'
  have e : ofBE q = ofBE q' := by exact_mod_cast hx'
  rw [← beBytes_ofBE q, ← beBytes_ofBE q', hlen, e]

/-- … and the integer is what is compared: keys with one big-endian value verify alike -/
theorem output_key_as_integer {H : TagHash} (q q' s c : Bytes) (hv : ofBE q' = ofBE q) :
    checkOutputPubkey o H q' s c = checkOutputPubkey o H q s c := by
  unfold checkOutputPubkey; rw [hv]

/-! ## no internal key: the NUMS point -/

/-- `None` and `b""` both mean BIP341's unspendable point `02 ‖ NUMS_X`, on the output side and in the control block -/
theorem nums_fallback_aux (o : GroupOps α) (H : TagHash) (t : Tree) (i : Int) :
    outputPubkey o H none (some t) = outputPubkey o H (some numsSec) (some t) ∧
    outputPubkey o H (some []) (some t) = outputPubkey o H (some numsSec) (some t) ∧
    inputScriptSig o H none t i = inputScriptSig o H (some numsSec) t i ∧
    inputScriptSig o H (some []) t i = inputScriptSig o H (some numsSec) t i ∧
    outputPubkey o H none none = .error .missing ∧ outputPubkey o H (some []) none = .error .missing :=
  ⟨rfl, rfl, rfl, rfl, rfl, rfl⟩

/-! ## the public `leaf_hash`: versions outside one byte are refused, never wrapped -/

theorem leafHashPub_spec (H : TagHash) (v : Int) (s : Bytes) :
    (0 ≤ v ∧ v ≤ 255 → leafHashPub H v s = .ok (leafHash H v.toNat s)) ∧
    (¬ (0 ≤ v ∧ v ≤ 255) → leafHashPub H v s = .error .version) := by
  have e : LEAF_VERSION_MAX = 255 := rfl
  unfold leafHashPub
  rw [e]
  constructor
  · intro h; rw [if_neg (not_not.mpr h)]
  · intro h; rw [if_pos h]

/-- every version the library itself hands to `leaf_hash` (masked with 0xFE) is in the accepted range -/
theorem leafHashPub_masked (H : TagHash) (v : Nat) (s : Bytes) :
    leafHashPub H ((v &&& LEAF_MASK : Nat) : Int) s = .ok (leafHash H (v &&& LEAF_MASK) s) := by
  have h := mask_le v
  have := (leafHashPub_spec H ((v &&& LEAF_MASK : Nat) : Int) s).1 ⟨by omega, by omega⟩
  rw [this, Int.toNat_natCast]

end Btc.Taproot
