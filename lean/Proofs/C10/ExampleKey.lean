import Proofs.C10.Example
/- C10 — kernel-checked facts about the concrete spends of `Proofs/C10/Example.lean`: keys, hashes, encodings -/
namespace Btc.Spend.Ex
open Btc Btc.Spend Btc.Sighash Btc.Script Btc.Script.Core
set_option maxRecDepth 1000000

theorem hh : ripemd160 (sha256 pk) = h := by decide +kernel

theorem hp : secpParsePub pk = some ((EC.ops EC.secp256k1).mul q EC.secp256k1.G) := by decide +kernel

theorem hder : Der.serialize r s = .ok der := by decide +kernel

theorem henc : checkSignatureEncoding Gen.Spend.EVERY_FLAG (der ++ [UInt8.ofNat 1]) = .ok () := by decide +kernel

theorem hk : 0 < k ∧ k < EC.secp256k1.n := by decide +kernel

theorem hserT : Schnorr.serialize (EC.ops EC.secp256k1) bip340Params sgT = .ok sig64 := by decide +kernel

theorem hpkT : ((ofBE prog : Nat) : Int) = (EC.ops EC.secp256k1).x ((EC.ops EC.secp256k1).mul q EC.secp256k1.G) := by
  decide +kernel

theorem hdefT : bip341Defined cxT.tx cxT.nIn cxT.spent 0 = true := by decide +kernel

end Btc.Spend.Ex
