import Proofs.C10.Wpkh
/-
C10 — T1 for the legacy key-hash template p2pkh by symbolic evaluation of `Core.verifyScript` (C08 model).
-/
namespace Btc.Spend.Eval

open Btc Btc.Script Btc.Script.Core

/-- p2pkh under legacy rules: FindAndDelete leaves the script code alone (hypothesis), the rest as for v0 -/
theorem evalWith_pkh_base (env : VerifyEnv) (h sig pk : Bytes) (hl : h.length = 20)
    (hh : env.hashes.ripemd160 (env.hashes.sha256 pk) = h)
    (henc : checkSignatureEncoding env.flags sig = .ok ())
    (hpk : isCompressedPubKey pk = true)
    (hfd : findAndDelete (pkhScript h) (pushData sig) = (pkhScript h, 0))
    (hsig : env.checker.checkECDSA sig pk (pkhScript h) .BASE = .ok true) :
    evalWith (evalCtx env .BASE (pkhScript h)) [pk, sig] 0 = .ok [[1]] := by
  have hlen : (pkhScript h).length = 25 := by simp [pkhScript, hl]
  have hmin : checkMinimalPush h 20 = true := by
    have := checkMinimalPush_len h (by omega) (by omega); rwa [hl] at this
  have hpke := checkPubKeyEncoding_compressed env.flags .BASE pk hpk
  have hfd' : findAndDelete (118 :: 169 :: 20 :: (h ++ [136, 172])) (pushData sig) =
      (118 :: 169 :: 20 :: (h ++ [136, 172]), 0) := hfd
  have hsig' : env.checker.checkECDSA sig pk (118 :: 169 :: 20 :: (h ++ [136, 172])) .BASE = .ok true := hsig
  unfold evalWith
  simp only [evalCtx, hlen, parse_pkhScript h hl, pkhOps]
  simp [run, step, stepChecks, stepExec, stepFinish, execPlain, execStackOp, hashOp, evalChecksig,
    evalChecksigPreTapscript, isDisabled, DISABLED, inConditionalRange, hl, hmin, hh, henc, hpke, hsig', hfd', pkhScript,
    MAX_SCRIPT_ELEMENT_SIZE, MAX_OPS_PER_SCRIPT, MAX_SCRIPT_SIZE, MAX_STACK_SIZE, OP_IF, OP_ENDIF, OP_CODESEPARATOR,
    OP_CHECKSIG, OP_CHECKSIGVERIFY, ofBool, vchTrue, Except.bind, Except.map, bind, pure, Except.pure]

theorem pushData_short (d : Bytes) (h : d.length < 76) : pushData d = UInt8.ofNat d.length :: d := by
  simp [pushData, h]

theorem toNat_ofNat_len (d : Bytes) (h : d.length < 76) : (UInt8.ofNat d.length).toNat = d.length := by
  simp [UInt8.toNat_ofNat']; omega

/-- the scriptSig `push sig ‖ push pk` is push-only and evaluates to `[pk, sig]` -/
theorem evalWith_sigKey (env : VerifyEnv) (sig pk : Bytes) (hs2 : 2 ≤ sig.length) (hs : sig.length < 76)
    (hpkl : pk.length = 33) :
    evalWith (evalCtx env .BASE (pushData sig ++ pushData pk)) [] 0 = .ok [pk, sig] ∧
    isPushOnly (pushData sig ++ pushData pk) = true := by
  have hn := toNat_ofNat_len sig hs
  have hmin : checkMinimalPush sig sig.length = true := checkMinimalPush_len sig hs2 (by omega)
  have hmin2 : checkMinimalPush pk 33 = true := by
    have := checkMinimalPush_len pk (by omega) (by omega); rwa [hpkl] at this
  have e1 : pushData sig = UInt8.ofNat sig.length :: sig := pushData_short sig hs
  have e2 : pushData pk = 33 :: pk := by rw [pushData_short pk (by omega), hpkl]; rfl
  have ht : (sig ++ 33 :: pk).take sig.length = sig := List.take_left' rfl
  have hd : (sig ++ 33 :: pk).drop sig.length = 33 :: pk := List.drop_left' rfl
  have ht2 : pk.take 33 = pk := List.take_of_length_le (by omega)
  have hd2 : pk.drop 33 = [] := List.drop_of_length_le (by omega)
  have hlen : (UInt8.ofNat sig.length :: (sig ++ 33 :: pk)).length = (sig.length + 32) + 3 := by
    simp [hpkl]
  have hne : sig.length ≠ 0 := by omega
  have hp : parse (UInt8.ofNat sig.length :: (sig ++ 33 :: pk)) =
      ([⟨sig.length, sig, UInt8.ofNat sig.length :: sig⟩, ⟨33, pk, 33 :: pk⟩], []) := by
    unfold parse
    rw [hlen]
    have h78' : ¬ (78 < sig.length) := by omega
    have hx : ¬ (sig.length + 34 < sig.length) := by omega
    simp [parseOps, getOp, hn, hne, hs, ht, hd, ht2, hd2, hpkl, h78', hx]
  refine ⟨?_, ?_⟩
  · unfold evalWith
    simp only [evalCtx, e1, e2, List.cons_append, hp]
    have hsz : ¬ (520 < sig.length) := by omega
    have hop : ¬ (96 < sig.length) := by omega
    have h78 : sig.length ≤ 78 := by omega
    have hdis : isDisabled sig.length = false := by
      simp [isDisabled, DISABLED]; omega
    have hdis2 : isDisabled 33 = false := by decide
    have h171 : ¬ (sig.length = 171) := by omega
    have hsz2 : ¬ (10000 < sig.length + 34 + 1) := by omega
    simp [run, step, stepChecks, stepExec, stepFinish, hdis, hdis2, h171, hsz2, hmin, hmin2, hpkl, hsz, hop,
      h78, MAX_SCRIPT_ELEMENT_SIZE, MAX_OPS_PER_SCRIPT, MAX_SCRIPT_SIZE, MAX_STACK_SIZE, OP_CODESEPARATOR, Except.bind]
  · simp only [isPushOnly, e1, e2, List.cons_append, hp]
    simp; omega

/-- T1 (p2pkh), script level: under ANY flag set, scriptSig `push sig ‖ push pk` against `DUP HASH160 <h> EQUALVERIFY
    CHECKSIG` is accepted, given the hash, encoding, key and oracle hypotheses and that FindAndDelete does not find
    `push sig` inside the script code (it cannot unless the 20-byte hash IS the signature). -/
theorem verify_p2pkh (env : VerifyEnv) (h sig pk : Bytes) (hl : h.length = 20)
    (hh : env.hashes.ripemd160 (env.hashes.sha256 pk) = h)
    (henc : checkSignatureEncoding env.flags sig = .ok ()) (hs2 : 2 ≤ sig.length) (hs : sig.length < 76)
    (hpk : isCompressedPubKey pk = true)
    (hfd : findAndDelete (pkhScript h) (pushData sig) = (pkhScript h, 0))
    (hsig : env.checker.checkECDSA sig pk (pkhScript h) .BASE = .ok true) :
    verifyScript env (pushData sig ++ pushData pk) (pkhScript h) [] = .ok () := by
  have hpkl : pk.length = 33 := by
    simp only [isCompressedPubKey, Bool.and_eq_true, beq_iff_eq] at hpk; exact hpk.1
  obtain ⟨e0, hpo⟩ := evalWith_sigKey env sig pk hs2 hs hpkl
  have e1 := evalWith_pkh_base env h sig pk hl hh henc hpk hfd hsig
  have hwn : isWitnessProgram (pkhScript h) = none := by
    simp [isWitnessProgram, pkhScript, getB, hl]
  have hsh : isPayToScriptHash (pkhScript h) = false := by simp [isPayToScriptHash, pkhScript, hl]
  have ht : castToBool [1] = true := by decide
  unfold verifyScript
  simp [e0, e1, hwn, hsh, hpo, requireTrueTop, ht, Except.bind, bind, pure, Except.pure]

end Btc.Spend.Eval
