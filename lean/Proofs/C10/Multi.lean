import Proofs.C10.Tap
import Proofs.C08.Core
/-
C10 — T1 for k-of-n multisig: parsing and running a list of pushes, the CHECKMULTISIG matching loop by induction on
the key list, and `EvalScript` of `k <keys> n CHECKMULTISIG`.  Core Lean only.
-/
namespace Btc.Spend.Eval

open Btc Btc.Script Btc.Script.Core

/-! ### parsing pushes -/

theorem parseOps_fuel : ∀ (f1 f2 : Nat) (s : Bytes), s.length ≤ f1 → s.length ≤ f2 → parseOps f1 s = parseOps f2 s
  | 0, f2, s, h1, _ => by
    have : s = [] := List.length_eq_zero_iff.mp (by omega)
    subst this; rw [parseOps_nil, parseOps_nil]
  | f1 + 1, 0, s, _, h2 => by
    have : s = [] := List.length_eq_zero_iff.mp (by omega)
    subst this; rw [parseOps_nil, parseOps_nil]
  | f1 + 1, f2 + 1, s, h1, h2 => by
    unfold parseOps
    cases hg : getOp s with
    | none => rfl
    | some p =>
      obtain ⟨op, rest⟩ := p
      have hlt := (getOp_spec s op rest hg).2
      simp only
      rw [parseOps_fuel f1 f2 rest (by omega) (by omega)]

theorem parse_cons (s : Bytes) (op : Op) (rest : Bytes) (h : getOp s = some (op, rest)) :
    parse s = (op :: (parse rest).1, (parse rest).2) := by
  have hlt := (getOp_spec s op rest h).2
  obtain ⟨f, hf⟩ : ∃ f, s.length = f + 1 := ⟨s.length - 1, by omega⟩
  have e : parseOps (f + 1) s = (op :: (parseOps f rest).1, (parseOps f rest).2) := by
    simp only [parseOps, h]
  unfold parse
  rw [hf, e, parseOps_fuel f rest.length rest (by omega) (by omega)]

/-- the instruction a short push is -/
def pushOp (d : Bytes) : Op := ⟨d.length, d, UInt8.ofNat d.length :: d⟩

theorem getOp_push (d rest : Bytes) (h1 : 1 ≤ d.length) (h75 : d.length ≤ 75) :
    getOp (pushData d ++ rest) = some (pushOp d, rest) := by
  have hs : d.length < 76 := by omega
  rw [pushData_short d hs]
  have hn := toNat_ofNat_len d hs
  have ht : (d ++ rest).take d.length = d := List.take_left' rfl
  have hd : (d ++ rest).drop d.length = rest := List.drop_left' rfl
  have h0 : d.length ≠ 0 := by omega
  have h78 : ¬ (78 < d.length) := by omega
  have hx : ¬ (d.length + rest.length < d.length) := by omega
  simp [getOp, hn, h0, h78, hs, ht, hd, hx, pushOp]

theorem parse_pushes : ∀ (ds : List Bytes) (tail : Bytes), (∀ d ∈ ds, 1 ≤ d.length ∧ d.length ≤ 75) →
    parse (ds.flatMap pushData ++ tail) = (ds.map pushOp ++ (parse tail).1, (parse tail).2)
  | [], tail, _ => by simp
  | d :: ds, tail, h => by
    have hd := h d (by simp)
    have ih := parse_pushes ds tail (fun x hx => h x (by simp [hx]))
    have hg := getOp_push d (ds.flatMap pushData ++ tail) hd.1 hd.2
    rw [List.flatMap_cons, List.append_assoc, parse_cons _ _ _ hg, ih]
    simp

/-! ### running pushes -/

theorem run_append (cx : Ctx) : ∀ (a b : List Op) (st : State), run cx (a ++ b) st = (run cx a st).bind (run cx b)
  | [], b, st => by simp [run, Except.bind]
  | op :: a, b, st => by
    simp only [List.cons_append, run]
    cases step cx st op with
    | error e => simp [Except.bind]
    | ok st1 => simp only [Except.bind]; exact run_append cx a b st1

/-- what the evaluation of the templates depends on: everything but the two position counters -/
structure Same (st st' : State) (stack : List Bytes) : Prop where
  stack : st'.m.stack = stack
  alt : st'.m.alt = st.m.alt
  opCount : st'.m.opCount = st.m.opCount
  codeStart : st'.m.codeStart = st.m.codeStart
  vfExec : st'.vfExec = st.vfExec

theorem step_push (cx : Ctx) (st : State) (d : Bytes) (h2 : 2 ≤ d.length) (h75 : d.length ≤ 75)
    (hv : st.vfExec = []) (hsz : st.m.stack.length + st.m.alt.length + 1 ≤ 1000) :
    ∃ st', step cx st (pushOp d) = .ok st' ∧ Same st st' (d :: st.m.stack) := by
  have hmin : checkMinimalPush d d.length = true := checkMinimalPush_len d h2 h75
  have hdis : isDisabled d.length = false := by simp [isDisabled, DISABLED]; omega
  have h520 : ¬ (520 < d.length) := by omega
  have h96 : ¬ (96 < d.length) := by omega
  have h78 : d.length ≤ 78 := by omega
  have h171 : ¬ (d.length = 171) := by omega
  have hs' : ¬ (1000 < st.m.stack.length + 1 + st.m.alt.length) := by omega
  obtain ⟨m, vf, pos, opos⟩ := st
  obtain ⟨stk, alt, oc, cs, csp, wl⟩ := m
  simp only at hv hsz hs'
  subst hv
  have hstep : step cx ⟨⟨stk, alt, oc, cs, csp, wl⟩, [], pos, opos⟩ (pushOp d) =
      .ok ⟨⟨d :: stk, alt, oc, cs, csp, wl⟩, [], pos + (d.length + 1), opos + 1⟩ := by
    simp [step, stepChecks, stepExec, stepFinish, pushOp, hdis, hmin, h520, h96, h78, h171, hs',
      MAX_SCRIPT_ELEMENT_SIZE, MAX_STACK_SIZE, OP_CODESEPARATOR, Except.bind]
  exact ⟨_, hstep, ⟨rfl, rfl, rfl, rfl, rfl⟩⟩

theorem Same.trans {a b c : State} {s1 s2 : List Bytes} (h1 : Same a b s1) (h2 : Same b c s2) : Same a c s2 :=
  ⟨h2.stack, h2.alt.trans h1.alt, h2.opCount.trans h1.opCount, h2.codeStart.trans h1.codeStart,
    h2.vfExec.trans h1.vfExec⟩

theorem run_pushes (cx : Ctx) : ∀ (ds : List Bytes) (st : State), (∀ d ∈ ds, 2 ≤ d.length ∧ d.length ≤ 75) →
    st.vfExec = [] → st.m.stack.length + st.m.alt.length + ds.length ≤ 1000 →
    ∃ st', run cx (ds.map pushOp) st = .ok st' ∧ Same st st' (ds.reverse ++ st.m.stack)
  | [], st, _, _, _ => ⟨st, rfl, ⟨by simp, rfl, rfl, rfl, rfl⟩⟩
  | d :: ds, st, h, hv, hsz => by
    have hd := h d (by simp)
    simp only [List.length_cons] at hsz
    obtain ⟨st1, e1, s1⟩ := step_push cx st d hd.1 hd.2 hv (by omega)
    obtain ⟨st2, e2, s2⟩ := run_pushes cx ds st1 (fun x hx => h x (by simp [hx])) (by rw [s1.vfExec, hv])
      (by rw [s1.stack, s1.alt]; simp only [List.length_cons]; omega)
    refine ⟨st2, ?_, ?_⟩
    · simp only [List.map_cons, run, e1, Except.bind, e2]
    · have := s1.trans s2
      rw [s1.stack] at this
      simpa [List.reverse_cons, List.append_assoc] using this

/-! ### the CHECKMULTISIG matching loop -/

/-- `sigs` can be matched, in order, against a sub-list of `keys` (both in the order the loop walks them) -/
inductive Aligned (chk : Bytes → Bytes → Prop) : List Bytes → List Bytes → Prop
  | nil (ks : List Bytes) : Aligned chk [] ks
  | take {s k : Bytes} {ss ks : List Bytes} : chk s k → Aligned chk ss ks → Aligned chk (s :: ss) (k :: ks)
  | skip {k : Bytes} {ss ks : List Bytes} : Aligned chk ss ks → Aligned chk ss (k :: ks)

theorem Aligned.length_le {chk : Bytes → Bytes → Prop} {ss ks : List Bytes} (h : Aligned chk ss ks) :
    ss.length ≤ ks.length := by
  induction h with
  | nil ks => simp
  | take _ _ ih => simp only [List.length_cons]; omega
  | skip _ ih => simp only [List.length_cons]; omega

theorem Aligned.tail {chk : Bytes → Bytes → Prop} {s : Bytes} {ss ks : List Bytes} (h : Aligned chk (s :: ss) ks) :
    Aligned chk ss ks := by
  generalize hl : s :: ss = l at h
  induction h with
  | nil ks => cases hl
  | take _ h2 _ => cases hl; exact .skip h2
  | skip _ ih => exact .skip (ih hl)

theorem Aligned.append {chk : Bytes → Bytes → Prop} {a b c d : List Bytes} (h1 : Aligned chk a b) (h2 : Aligned chk c d) :
    Aligned chk (a ++ c) (b ++ d) := by
  induction h1 with
  | nil ks =>
    induction ks with
    | nil => simpa using h2
    | cons k ks ih => exact .skip ih
  | take hc _ ih => exact .take hc ih
  | skip _ ih => exact .skip ih

theorem Aligned.reverse {chk : Bytes → Bytes → Prop} {ss ks : List Bytes} (h : Aligned chk ss ks) :
    Aligned chk ss.reverse ks.reverse := by
  induction h with
  | nil ks => exact .nil _
  | take hc _ ih =>
    simp only [List.reverse_cons]
    exact ih.append (.take hc (.nil []))
  | @skip k ss ks _ ih =>
    simp only [List.reverse_cons]
    have := ih.append (Aligned.skip (k := k) (Aligned.nil (chk := chk) []))
    simpa using this

/-- "the oracle accepts `s` for `k`" over a fixed script code -/
def chkOk (cx : Ctx) (sc : Bytes) : Bytes → Bytes → Prop :=
  fun s k => cx.checker.checkECDSA s k sc cx.sigversion = .ok true

/-- the loop answers `true` whenever the signatures are aligned with the keys, every signature and key passes its
    encoding check, the oracle has an answer for every pair and the fuel exceeds the number of keys (Core's loop runs at
    most once per key; `execMultisig` gives `nKeys + nSigs + 1`) -/
theorem multisigLoop_aligned (cx : Ctx) (sc : Bytes) : ∀ (keys sigs : List Bytes) (fuel : Nat), keys.length < fuel →
    Aligned (chkOk cx sc) sigs keys →
    (∀ s ∈ sigs, checkSignatureEncoding cx.flags s = .ok ()) →
    (∀ k ∈ keys, checkPubKeyEncoding cx.flags cx.sigversion k = .ok ()) →
    (∀ s ∈ sigs, ∀ k ∈ keys, ∃ b, cx.checker.checkECDSA s k sc cx.sigversion = .ok b) →
    multisigLoop cx sc fuel sigs keys = .ok true
  | _, _, 0, hf, _, _, _, _ => by omega
  | _, [], _ + 1, _, _, _, _, _ => rfl
  | [], _ :: _, _ + 1, _, ha, _, _, _ => by cases ha
  | k :: ks, s :: ss, fuel + 1, hf, ha, henc, hpke, htot => by
    have hf' : ks.length < fuel := by simp only [List.length_cons] at hf; omega
    obtain ⟨b, hb⟩ := htot s (by simp) k (by simp)
    have hrec := fun sigs' (h : Aligned (chkOk cx sc) sigs' ks) (hs : ∀ x ∈ sigs', x ∈ s :: ss) =>
      multisigLoop_aligned cx sc ks sigs' fuel hf' h (fun x hx => henc x (hs x hx)) (fun x hx => hpke x (by simp [hx]))
        (fun x hx y hy => htot x (hs x hx) y (by simp [hy]))
    unfold multisigLoop
    simp only [henc s (by simp), hpke k (by simp), hb, bind, Except.bind]
    cases b with
    | true =>
      have hal : Aligned (chkOk cx sc) ss ks := by
        cases ha with
        | take _ h2 => exact h2
        | skip h2 => exact h2.tail
      have hle := hal.length_le
      simp only [if_true]
      rw [if_neg (by omega)]
      exact hrec ss hal (fun x hx => by simp [hx])
    | false =>
      have hal : Aligned (chkOk cx sc) (s :: ss) ks := by
        cases ha with
        | take hc _ => unfold chkOk at hc; rw [hb] at hc; cases hc
        | skip h2 => exact h2
      have hle := hal.length_le
      simp only [Bool.false_eq_true, if_false]
      rw [if_neg (by simpa using hle)]
      exact hrec (s :: ss) hal (fun x hx => hx)

end Btc.Spend.Eval
