import Model.C10.Bip322
import Proofs.C10.Tap
import Proofs.C10.Pkh
import Proofs.E2E.C10
/-
C10 — BIP322 simple signatures: sign-then-verify for p2wpkh and p2tr addresses on the executed instance, as corollaries
of the template closures applied to the `to_sign` transaction.
-/
namespace Btc.Spend.Bip322

open Btc Btc.Sighash Btc.Script Btc.Script.Core Btc.Spend Btc.Spend.Eval

/-- the checker context `verify_input` builds for input `i` -/
def inputCtx {α : Type} (C : Crypto α) (tx : Tx) (spent : List TxOut) (i : Nat) (wit : List Bytes) : TxCtx :=
  { tx := tx, nIn := i, spent := spent, annex := (tapData C wit).1, leafHash := (tapData C wit).2 }

theorem verifyInput_eq {α : Type} (C : Crypto α) (flags : Nat) (tx : Tx) (spent : List TxOut) (i : Nat) (wit : List Bytes) :
    verifyInput C flags tx spent i wit =
      verifyScript (envOf C flags (inputCtx C tx spent i wit)) (tx.vin.getD i dfltIn).scriptSig
        (spent.getD i blankOut).spk wit := rfl

/-- BIP322 simple, p2wpkh address: the witness `[DER(sign(BIP143 digest of to_sign)) ‖ ht, pk]` verifies for the address
    `0 <hash160 pk>` and the message it was made for, under every flag set with WITNESS (BIP322's required + upgradeable
    rules are one). -/
theorem simple_p2wpkh_secp256k1 (flags : Nat) (msg h pk : Bytes) (ht : Nat) (hht : ht < 256)
    {q k r s kid : Int} (hl : h.length = 20) (hW : has flags FLAG_WITNESS = true) (hnz : castToBool h = true)
    (hh : ripemd160 (sha256 pk) = h) (hpk : isCompressedPubKey pk = true)
    (hp : secpParsePub pk = some ((EC.ops EC.secp256k1).mul q EC.secp256k1.G)) (hk : 0 < k ∧ k < EC.secp256k1.n)
    (hsign : Ecdsa.signRecoverable (EC.ops EC.secp256k1)
      (Rfc6979.challenge EC.secp256k1.n
        (engineEcdsaDigest secpCrypto (signCtx secpCrypto msg (p2wpkh h)) (p2pkh h) .WITNESS_V0 ht)) q k true =
        .ok (r, s, kid))
    (der : Bytes) (hder : Der.serialize r s = .ok der) (hmax : der.length ≤ Gen.VarInt.MAX_SIZE)
    (henc : checkSignatureEncoding flags (der ++ [UInt8.ofNat ht]) = .ok ())
    (hslen : (der ++ [UInt8.ofNat ht]).length ≤ 520) :
    verifySimple secpCrypto flags msg (p2wpkh h) [] [der ++ [UInt8.ofNat ht], pk] = .ok () := by
  unfold verifySimple
  rw [verifyInput_eq]
  have hsig := Btc.E2E.sign_passes_checkECDSA_secp256k1
    (inputCtx secpCrypto (toSign secpCrypto.hash256 (toSpend secpCrypto.prm.TH msg (p2wpkh h)) [])
      (toSpend secpCrypto.prm.TH msg (p2wpkh h)).vout 0 [der ++ [UInt8.ofNat ht], pk])
    (p2pkh h) .WITNESS_V0 ht hht hk pk hp hsign der hder hmax
  exact verify_p2wpkh (envOf secpCrypto flags _) h _ pk hl hW hnz hh henc hslen hpk hsig

/-- BIP322 simple, p2tr address (key path): the witness `[ssa.sign(BIP341 message of to_sign) ‖ ht?]` verifies for the
    address `1 <x-only output key>` and the message it was made for. -/
theorem simple_p2tr_secp256k1 (flags : Nat) (msg prog : Bytes) (ht : Nat) (hht : ht < 256)
    (hq : prog.length = 32) (hW : has flags FLAG_WITNESS = true) (hnz : castToBool prog = true)
    (hdef : bip341Defined (signCtx secpCrypto msg (p2tr prog)).tx 0 (signCtx secpCrypto msg (p2tr prog)).spent ht = true)
    (fuel : Nat) (q : Int) (aux : Bytes) (sg : Schnorr.Sig)
    (hsign : Schnorr.sign (EC.ops EC.secp256k1) bip340Params fuel
      (engineTapDigest secpCrypto (signCtx secpCrypto msg (p2tr prog)) .TAPROOT ht 0xFFFFFFFF) q aux = .ok sg)
    (sig64 : Bytes) (hser : Schnorr.serialize (EC.ops EC.secp256k1) bip340Params sg = .ok sig64)
    (hpk : ((ofBE prog : Nat) : Int) = (EC.ops EC.secp256k1).x ((EC.ops EC.secp256k1).mul q EC.secp256k1.G)) :
    verifySimple secpCrypto flags msg (p2tr prog) [] [sig64 ++ (if ht = 0 then [] else [UInt8.ofNat ht])] = .ok () := by
  unfold verifySimple
  rw [verifyInput_eq]
  have htd : ∀ sig : Bytes, tapData secpCrypto [sig] = (none, []) := by
    intro sig; simp [tapData]
  have hcx : inputCtx secpCrypto (toSign secpCrypto.hash256 (toSpend secpCrypto.prm.TH msg (p2tr prog)) [])
      (toSpend secpCrypto.prm.TH msg (p2tr prog)).vout 0 [sig64 ++ (if ht = 0 then [] else [UInt8.ofNat ht])] =
      signCtx secpCrypto msg (p2tr prog) := by
    simp [inputCtx, htd, signCtx]
  rw [hcx]
  exact verify_tr_key (envOf secpCrypto flags _) prog _ hq hW hnz
    (Btc.E2E.sign_passes_checkSchnorr_secp256k1 _ .TAPROOT ht _ hht hdef fuel q aux sg hsign sig64 hser prog hpk)

/-! ### the two address kinds whose signature sits (partly) in the scriptSig: the digests do not read it -/

theorem legacyDigest_scriptSig (H : Bytes → Bytes) (sc : Bytes) (spend : Tx) (ss : Bytes) (ht : Nat) :
    legacyDigest H sc (toSign H spend ss) 0 ht = legacyDigest H sc (toSign H spend []) 0 ht := by
  have hg : ∀ j, ((toSign H spend ss).vin.getD j dfltIn).prev = ((toSign H spend []).vin.getD j dfltIn).prev ∧
      ((toSign H spend ss).vin.getD j dfltIn).sequence = ((toSign H spend []).vin.getD j dfltIn).sequence := by
    intro j; cases j <;> simp [toSign]
  have hin : ∀ j, legacyIn sc (toSign H spend ss) 0 ht j = legacyIn sc (toSign H spend []) 0 ht j := by
    intro j; simp only [legacyIn, (hg _).1, (hg _).2]
  have htx : legacyTx sc (toSign H spend ss) 0 ht = legacyTx sc (toSign H spend []) 0 ht := by
    have hf : legacyIn sc (toSign H spend ss) 0 ht = legacyIn sc (toSign H spend []) 0 ht := funext hin
    simp only [legacyTx, hf]
    rfl
  simp only [legacyDigest, legacyPreimage, htx]
  rfl

theorem bip143Digest_scriptSig (H : Bytes → Bytes) (sc : Bytes) (spend : Tx) (ss : Bytes) (ht : Nat) (amount : Int) :
    bip143Digest H sc (toSign H spend ss) 0 ht amount = bip143Digest H sc (toSign H spend []) 0 ht amount := rfl

/-- BIP322 (full-variant payload with the simple variant's fields), p2pkh address: scriptSig `<sig> <pk>`. -/
theorem simple_p2pkh_secp256k1 (flags : Nat) (msg h pk : Bytes) (ht : Nat) (hht : ht < 256)
    {q k r s kid : Int} (hl : h.length = 20)
    (hh : ripemd160 (sha256 pk) = h) (hpk : isCompressedPubKey pk = true)
    (hp : secpParsePub pk = some ((EC.ops EC.secp256k1).mul q EC.secp256k1.G)) (hk : 0 < k ∧ k < EC.secp256k1.n)
    (hsign : Ecdsa.signRecoverable (EC.ops EC.secp256k1)
      (Rfc6979.challenge EC.secp256k1.n
        (engineEcdsaDigest secpCrypto (signCtx secpCrypto msg (p2pkh h)) (p2pkh h) .BASE ht)) q k true = .ok (r, s, kid))
    (der : Bytes) (hder : Der.serialize r s = .ok der) (hmax : der.length ≤ Gen.VarInt.MAX_SIZE)
    (henc : checkSignatureEncoding flags (der ++ [UInt8.ofNat ht]) = .ok ())
    (hs2 : 2 ≤ (der ++ [UInt8.ofNat ht]).length) (hs : (der ++ [UInt8.ofNat ht]).length < 76)
    (hne : der ++ [UInt8.ofNat ht] ≠ h) :
    verifySimple secpCrypto flags msg (p2pkh h) (pushData (der ++ [UInt8.ofNat ht]) ++ pushData pk) [] = .ok () := by
  unfold verifySimple
  rw [verifyInput_eq]
  have hd : engineEcdsaDigest secpCrypto
      (inputCtx secpCrypto (toSign secpCrypto.hash256 (toSpend secpCrypto.prm.TH msg (p2pkh h))
        (pushData (der ++ [UInt8.ofNat ht]) ++ pushData pk)) (toSpend secpCrypto.prm.TH msg (p2pkh h)).vout 0 [])
      (p2pkh h) .BASE ht =
      engineEcdsaDigest secpCrypto (signCtx secpCrypto msg (p2pkh h)) (p2pkh h) .BASE ht :=
    legacyDigest_scriptSig _ _ _ _ _
  have hsig := Btc.E2E.sign_passes_checkECDSA_secp256k1
    (inputCtx secpCrypto (toSign secpCrypto.hash256 (toSpend secpCrypto.prm.TH msg (p2pkh h))
        (pushData (der ++ [UInt8.ofNat ht]) ++ pushData pk)) (toSpend secpCrypto.prm.TH msg (p2pkh h)).vout 0 [])
    (p2pkh h) .BASE ht hht hk pk hp (by rw [hd]; exact hsign) der hder hmax
  exact verify_p2pkh (envOf secpCrypto flags _) h _ pk hl hh henc hs2 hs hpk (findAndDelete_pkh h _ hl hs hne) hsig

/-- BIP322, p2sh-p2wpkh address: scriptSig = push of `0 <h>`, witness `[sig, pk]`. -/
theorem simple_p2sh_p2wpkh_secp256k1 (flags : Nat) (msg h hr pk : Bytes) (ht : Nat) (hht : ht < 256)
    {q k r s kid : Int} (hl : h.length = 20) (hrl : hr.length = 20)
    (hP : has flags FLAG_P2SH = true) (hW : has flags FLAG_WITNESS = true) (hnz : castToBool h = true)
    (hhr : ripemd160 (sha256 (p2wpkh h)) = hr)
    (hh : ripemd160 (sha256 pk) = h) (hpk : isCompressedPubKey pk = true)
    (hp : secpParsePub pk = some ((EC.ops EC.secp256k1).mul q EC.secp256k1.G)) (hk : 0 < k ∧ k < EC.secp256k1.n)
    (hsign : Ecdsa.signRecoverable (EC.ops EC.secp256k1)
      (Rfc6979.challenge EC.secp256k1.n
        (engineEcdsaDigest secpCrypto (signCtx secpCrypto msg (p2sh hr)) (p2pkh h) .WITNESS_V0 ht)) q k true =
        .ok (r, s, kid))
    (der : Bytes) (hder : Der.serialize r s = .ok der) (hmax : der.length ≤ Gen.VarInt.MAX_SIZE)
    (henc : checkSignatureEncoding flags (der ++ [UInt8.ofNat ht]) = .ok ())
    (hslen : (der ++ [UInt8.ofNat ht]).length ≤ 520) :
    verifySimple secpCrypto flags msg (p2sh hr) (pushData (p2wpkh h)) [der ++ [UInt8.ofNat ht], pk] = .ok () := by
  unfold verifySimple
  rw [verifyInput_eq]
  have hsig := Btc.E2E.sign_passes_checkECDSA_secp256k1
    (inputCtx secpCrypto (toSign secpCrypto.hash256 (toSpend secpCrypto.prm.TH msg (p2sh hr)) (pushData (p2wpkh h)))
      (toSpend secpCrypto.prm.TH msg (p2sh hr)).vout 0 [der ++ [UInt8.ofNat ht], pk])
    (p2pkh h) .WITNESS_V0 ht hht hk pk hp hsign der hder hmax
  exact verify_p2sh_p2wpkh (envOf secpCrypto flags _) h hr _ pk hl hrl hP hW hnz hhr hh henc hslen hpk hsig

end Btc.Spend.Bip322
