import Proofs.C10.Fad
/-
C10 — T1 for p2pk (`<pk> CHECKSIG`, compressed key) by symbolic evaluation of `Core.verifyScript`.
-/
namespace Btc.Spend.Eval

open Btc Btc.Script Btc.Script.Core

def pkScript (pk : Bytes) : Bytes := 0x21 :: (pk ++ [0xac])

theorem p2pk_eq (pk : Bytes) (hl : pk.length = 33) : Spend.p2pk pk = pkScript pk := by
  simp [Spend.p2pk, pkScript, pushData, hl, Gen.Spend.P2PK_SUFFIX]

theorem findAndDelete_pk (pk sig : Bytes) (hl : pk.length = 33) (hs : sig.length < 76) (hne : sig ≠ pk) :
    findAndDelete (pkScript pk) (pushData sig) = (pkScript pk, 0) := by
  rw [pushData_short sig hs]
  have n76 := ofNat_len_ne sig hs
  have p1 : ∀ t, isPrefix (UInt8.ofNat sig.length :: sig) (0xac :: t) = false :=
    fun t => isPrefix_head_ne _ _ (n76 _ (by decide))
  have p0 : isPrefix (UInt8.ofNat sig.length :: sig) (0x21 :: (pk ++ [0xac])) = false := by
    cases hp : isPrefix (UInt8.ofNat sig.length :: sig) (0x21 :: (pk ++ [0xac])) with
    | false => rfl
    | true =>
      simp only [isPrefix, Bool.and_eq_true, beq_iff_eq] at hp
      have hn := toNat_ofNat_len sig hs
      rw [hp.1] at hn
      exact absurd (isPrefix_eq_len sig pk _ (by rw [hl]; exact hn.symm) hp.2) hne
  have ht : (pk ++ [0xac]).take 33 = pk := List.take_left' hl
  have hd : (pk ++ [0xac]).drop 33 = [0xac] := List.drop_left' hl
  simp [findAndDelete, pkScript, findAndDeleteAux, skipMatches, hl, p0, p1, getOp, ht, hd]

theorem evalWith_pk_base (env : VerifyEnv) (sig pk : Bytes)
    (henc : checkSignatureEncoding env.flags sig = .ok ())
    (hpk : isCompressedPubKey pk = true)
    (hfd : findAndDelete (pkScript pk) (pushData sig) = (pkScript pk, 0))
    (hsig : env.checker.checkECDSA sig pk (pkScript pk) .BASE = .ok true) :
    evalWith (evalCtx env .BASE (pkScript pk)) [sig] 0 = .ok [[1]] := by
  have hl : pk.length = 33 := by
    simp only [isCompressedPubKey, Bool.and_eq_true, beq_iff_eq] at hpk; exact hpk.1
  have hmin : checkMinimalPush pk 33 = true := by
    have := checkMinimalPush_len pk (by omega) (by omega); rwa [hl] at this
  have hpke := checkPubKeyEncoding_compressed env.flags .BASE pk hpk
  have ht : (pk ++ [0xac]).take 33 = pk := List.take_left' hl
  have hd : (pk ++ [0xac]).drop 33 = [0xac] := List.drop_left' hl
  have hp : parse (pkScript pk) = ([⟨0x21, pk, 0x21 :: pk⟩, ⟨0xac, [], [0xac]⟩], []) := by
    simp [parse, pkScript, parseOps, getOp, hl, ht, hd]
  have hfd' : findAndDelete (33 :: (pk ++ [172])) (pushData sig) = (33 :: (pk ++ [172]), 0) := hfd
  have hsig' : env.checker.checkECDSA sig pk (33 :: (pk ++ [172])) .BASE = .ok true := hsig
  unfold evalWith
  simp only [evalCtx, hp]
  simp [pkScript, run, step, stepChecks, stepExec, stepFinish, execPlain, execStackOp, evalChecksig,
    evalChecksigPreTapscript, isDisabled, DISABLED, inConditionalRange, hl, hmin, henc, hpke, hsig', hfd',
    MAX_SCRIPT_ELEMENT_SIZE, MAX_OPS_PER_SCRIPT, MAX_SCRIPT_SIZE, MAX_STACK_SIZE, OP_IF, OP_ENDIF, OP_CODESEPARATOR,
    OP_CHECKSIG, OP_CHECKSIGVERIFY, ofBool, vchTrue, Except.bind, Except.map, bind, pure, Except.pure]

theorem parseOps_nil (f : Nat) : parseOps f [] = ([], []) := by
  cases f <;> simp [parseOps, getOp]

/-- the scriptSig `push sig` is push-only and evaluates to `[sig]` -/
theorem evalWith_sig (env : VerifyEnv) (sig : Bytes) (hs2 : 2 ≤ sig.length) (hs : sig.length < 76) :
    evalWith (evalCtx env .BASE (pushData sig)) [] 0 = .ok [sig] ∧ isPushOnly (pushData sig) = true := by
  have hn := toNat_ofNat_len sig hs
  have hmin : checkMinimalPush sig sig.length = true := checkMinimalPush_len sig hs2 (by omega)
  have e1 : pushData sig = UInt8.ofNat sig.length :: sig := pushData_short sig hs
  have ht : sig.take sig.length = sig := List.take_of_length_le (by omega)
  have hd : sig.drop sig.length = [] := List.drop_of_length_le (by omega)
  have hne : sig.length ≠ 0 := by omega
  have h78' : ¬ (78 < sig.length) := by omega
  have hp : parse (UInt8.ofNat sig.length :: sig) = ([⟨sig.length, sig, UInt8.ofNat sig.length :: sig⟩], []) := by
    unfold parse
    simp [parseOps, getOp, hn, hne, hs, ht, hd, h78', parseOps_nil]
  refine ⟨?_, ?_⟩
  · unfold evalWith
    simp only [evalCtx, e1, hp]
    have hsz : ¬ (520 < sig.length) := by omega
    have hop : ¬ (96 < sig.length) := by omega
    have h78 : sig.length ≤ 78 := by omega
    have hdis : isDisabled sig.length = false := by
      simp [isDisabled, DISABLED]; omega
    have h171 : ¬ (sig.length = 171) := by omega
    have hsz2 : ¬ (10000 < sig.length + 1) := by omega
    simp [run, step, stepChecks, stepExec, stepFinish, hdis, h171, hsz2, hmin, hsz, hop,
      h78, MAX_SCRIPT_ELEMENT_SIZE, MAX_OPS_PER_SCRIPT, MAX_SCRIPT_SIZE, MAX_STACK_SIZE, OP_CODESEPARATOR, Except.bind]
  · simp only [isPushOnly, e1, hp]
    simp; omega

/-- T1 (p2pk), script level, ANY flag set -/
theorem verify_p2pk (env : VerifyEnv) (sig pk : Bytes)
    (henc : checkSignatureEncoding env.flags sig = .ok ()) (hs2 : 2 ≤ sig.length) (hs : sig.length < 76)
    (hpk : isCompressedPubKey pk = true) (hne : sig ≠ pk)
    (hsig : env.checker.checkECDSA sig pk (pkScript pk) .BASE = .ok true) :
    verifyScript env (pushData sig) (pkScript pk) [] = .ok () := by
  have hl : pk.length = 33 := by
    simp only [isCompressedPubKey, Bool.and_eq_true, beq_iff_eq] at hpk; exact hpk.1
  obtain ⟨e0, hpo⟩ := evalWith_sig env sig hs2 hs
  have e1 := evalWith_pk_base env sig pk henc hpk (findAndDelete_pk pk sig hl hs hne) hsig
  have hwn : isWitnessProgram (pkScript pk) = none := by
    simp [isWitnessProgram, pkScript, getB, hl]
  have hsh : isPayToScriptHash (pkScript pk) = false := by simp [isPayToScriptHash, pkScript, hl]
  have ht : castToBool [1] = true := by decide
  unfold verifyScript
  simp [e0, e1, hwn, hsh, hpo, requireTrueTop, ht, Except.bind, bind, pure, Except.pure]

end Btc.Spend.Eval
