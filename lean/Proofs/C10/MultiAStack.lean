import Proofs.C10.MultiA
/-
C10 — the satisfaction `MultiA._stack` lays out meets the hypotheses of the `multi_a` closure: exactly `k` non-empty
elements, each the signature offered for ITS key.
-/
namespace Btc.Spend.Eval

open Btc Btc.Script Btc.Script.Core Btc.Spend

theorem multiAFill_length (k : Nat) : ∀ (offered : List (Option Bytes)) (signed : Nat),
    (multiAFill k signed offered).length = offered.length
  | [], _ => rfl
  | none :: r, signed => by simp [multiAFill, multiAFill_length k r signed]
  | some s :: r, signed => by
    unfold multiAFill
    split <;> simp [multiAFill_length k r]

theorem multiAFill_cnt (k : Nat) : ∀ (offered : List (Option Bytes)) (signed : Nat), signed ≤ k →
    (∀ s, some s ∈ offered → s.isEmpty = false) → k - signed ≤ (offered.filter Option.isSome).length →
    ((multiAFill k signed offered).map bOf).sum = k - signed
  | [], signed, _, _, h => by simp at h; simp [multiAFill]; omega
  | none :: r, signed, hs, hne, h => by
    have ih := multiAFill_cnt k r signed hs (fun s hs' => hne s (by simp [hs'])) (by simpa using h)
    simp [multiAFill, bOf, ih]
  | some s :: r, signed, hs, hne, h => by
    unfold multiAFill
    by_cases e : signed = k
    · have ih := multiAFill_cnt k r signed hs (fun s' hs' => hne s' (by simp [hs'])) (by omega)
      simp [e, bOf] at ih ⊢
      simpa [e] using ih
    · have h1 : (List.filter Option.isSome (some s :: r)).length = (List.filter Option.isSome r).length + 1 := by simp
      have ih := multiAFill_cnt k r (signed + 1) (by omega) (fun s' hs' => hne s' (by simp [hs'])) (by omega)
      have hb : bOf s = 1 := by simp [bOf, hne s (by simp)]
      simp [e, ih, hb]; omega

theorem zip_fill_mem (k : Nat) : ∀ (keys : List Bytes) (offered : List (Option Bytes)) (signed : Nat) (key e : Bytes),
    (key, e) ∈ keys.zip (multiAFill k signed offered) → e = [] ∨ (key, some e) ∈ keys.zip offered
  | [], _, _, _, _, h => by simp at h
  | _ :: _, [], _, _, _, h => by simp [multiAFill] at h
  | x :: xs, none :: r, signed, key, e, h => by
    simp only [multiAFill, List.zip_cons_cons, List.mem_cons, Prod.mk.injEq] at h
    rcases h with ⟨_, rfl⟩ | h
    · exact Or.inl rfl
    · rcases zip_fill_mem k xs r signed key e h with h' | h'
      · exact Or.inl h'
      · exact Or.inr (by simp [h'])
  | x :: xs, some s :: r, signed, key, e, h => by
    unfold multiAFill at h
    by_cases es : signed = k
    · simp only [es, if_true, List.zip_cons_cons, List.mem_cons, Prod.mk.injEq] at h
      rcases h with ⟨_, rfl⟩ | h
      · exact Or.inl rfl
      · rcases zip_fill_mem k xs r k key e h with h' | h'
        · exact Or.inl h'
        · exact Or.inr (by simp [h'])
    · simp only [es, if_false, List.zip_cons_cons, List.mem_cons, Prod.mk.injEq] at h
      rcases h with ⟨rfl, rfl⟩ | h
      · exact Or.inr (by simp)
      · rcases zip_fill_mem k xs r (signed + 1) key e h with h' | h'
        · exact Or.inl h'
        · exact Or.inr (by simp [h'])

/-- T1 (taproot script path, `multi_a` leaf) on the satisfaction `MultiA._stack` builds: `keys` in script order,
    `offered` the signature each key offers (or none); every offered signature is one the Schnorr oracle accepts for its
    key (50..520 bytes).  No counting hypothesis: `_stack` answering `some w` is enough. -/
theorem verify_tr_multi_a_stack (env : VerifyEnv) (q control : Bytes) (m k : Nat) (keys : List Bytes)
    (offered : List (Option Bytes)) (w : List Bytes)
    (hq : q.length = 32) (hW : has env.flags FLAG_WITNESS = true) (hnz : castToBool q = true)
    (hcl : control.length = 33 + 32 * m) (hm : m ≤ 128) (hv : getB control 0 / 2 * 2 = 0xc0)
    (hk : 1 ≤ k ∧ k ≤ 16) (hn : 1 ≤ keys.length) (hn999 : keys.length ≤ 999) (hlen : offered.length = keys.length)
    (hkeys : ∀ x ∈ keys, x.length = 32)
    (hoff : ∀ key s, (key, some s) ∈ keys.zip offered →
      env.checker.checkSchnorr s key .TAPSCRIPT 0xFFFFFFFF = none ∧ 50 ≤ s.length ∧ s.length ≤ 520)
    (hw : multiAStack k offered = some w)
    (hcom : env.commitment control q (env.taggedHash "TapLeaf".toUTF8.toList
      (UInt8.ofNat 0xc0 :: (compactSize (multiAScript k keys).length ++ multiAScript k keys))) = .ok true) :
    verifyScript env [] (trSpk q) (w ++ [multiAScript k keys, control]) = .ok () := by
  unfold multiAStack at hw
  split at hw
  · cases hw
  · rename_i hge
    have hw' : w = (multiAFill k 0 offered).reverse := (Option.some.inj hw).symm
    have hfl := multiAFill_length k offered 0
    let ps := keys.zip (multiAFill k 0 offered)
    have h1 : ps.map (·.1) = keys := by
      show (keys.zip (multiAFill k 0 offered)).map Prod.fst = keys
      exact List.map_fst_zip (by omega)
    have h2 : ps.map (·.2) = multiAFill k 0 offered := by
      show (keys.zip (multiAFill k 0 offered)).map Prod.snd = _
      exact List.map_snd_zip (by omega)
    have hne : ∀ s, some s ∈ offered → s.isEmpty = false := by
      intro s hs
      obtain ⟨i, hi, he⟩ := List.getElem_of_mem hs
      have hik : i < keys.length := by omega
      have hmem : (keys[i], some s) ∈ keys.zip offered := by
        rw [← he]
        exact List.mem_iff_getElem.mpr ⟨i, by simp; omega, by simp⟩
      have := (hoff _ _ hmem).2.1
      cases s with
      | nil => simp at this
      | cons _ _ => rfl
    have hcnt : cntOf ps = k := by
      have := multiAFill_cnt k offered 0 (by omega) hne (by omega)
      simp only [cntOf]
      rw [show (ps.map fun p => bOf p.2) = (ps.map (·.2)).map bOf by simp, h2, this]; omega
    have hp : ∀ p ∈ ps, p.1.length = 32 ∧ ElemOk env.checker p.1 p.2 ∧
        (p.2 = [] ∨ (50 ≤ p.2.length ∧ p.2.length ≤ 520)) := by
      intro p hp'
      have hk32 : p.1.length = 32 := hkeys p.1 (List.of_mem_zip hp').1
      rcases zip_fill_mem k keys offered 0 p.1 p.2 hp' with e | e
      · exact ⟨hk32, Or.inl e, Or.inl e⟩
      · have := hoff _ _ e
        have hne' : p.2.isEmpty = false := by
          cases hh : p.2 with
          | nil => rw [hh] at this; simp at this
          | cons _ _ => rfl
        exact ⟨hk32, Or.inr ⟨hne', this.1⟩, Or.inr this.2⟩
    have := verify_tr_multi_a env q control m k ps hq hW hnz hcl hm hv hk
      (by show 1 ≤ (keys.zip (multiAFill k 0 offered)).length; simp; omega)
      (by show (keys.zip (multiAFill k 0 offered)).length ≤ 999; simp; omega)
      (fun p hp' => ⟨(hp p hp').1, (hp p hp').2.1⟩) (fun p hp' => (hp p hp').2.2) hcnt (by rw [h1]; exact hcom)
    rw [h1, h2] at this
    rw [hw']; exact this

end Btc.Spend.Eval
