import Proofs.C10.ExampleKey
import Model.C10.Sec
/- C10 — kernel-checked: the key octets of the concrete p2wpkh spend of `Proofs/C10/Example.lean` ARE what the model of
`bytes_from_point(q·G, compressed=True)` writes, and `q` is a private key in range (non-vacuity of the `_built` closures) -/
namespace Btc.Spend.Ex
open Btc Btc.Spend
set_option maxRecDepth 1000000

theorem hbuilt : secpCompressedKey ((EC.ops EC.secp256k1).mul q EC.secp256k1.G) = pk := by decide +kernel

theorem hq : 0 < q ∧ q < EC.secp256k1.n := by decide +kernel

end Btc.Spend.Ex
