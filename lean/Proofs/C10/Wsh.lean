import Proofs.C10.Multi2
/-
C10 — T1 for k-of-n multisig inside p2wsh (native) and p2sh-p2wsh, by symbolic evaluation of `Core.verifyScript`.
-/
namespace Btc.Spend.Eval

open Btc Btc.Script Btc.Script.Core

def wshSpk (h : Bytes) : Bytes := [0x00, 0x20] ++ h

theorem p2wsh_eq (h : Bytes) : Spend.p2wsh h = wshSpk h := rfl

theorem evalWith_wshSpk (env : VerifyEnv) (h : Bytes) (hl : h.length = 32) :
    evalWith (evalCtx env .BASE (wshSpk h)) [] 0 = .ok [h, []] := by
  have hmin : checkMinimalPush h 32 = true := by
    have := checkMinimalPush_len h (by omega) (by omega); rwa [hl] at this
  have ht : h.take 32 = h := List.take_of_length_le (by omega)
  have hd : h.drop 32 = [] := List.drop_of_length_le (by omega)
  have hp : parse (wshSpk h) = ([⟨0, [], [0]⟩, ⟨0x20, h, 0x20 :: h⟩], []) := by
    simp [parse, wshSpk, parseOps, getOp, hl, ht, hd]
  have hmin0 : checkMinimalPush [] 0 = true := by simp [checkMinimalPush]
  unfold evalWith
  simp only [evalCtx, hp]
  simp [wshSpk, run, step, stepChecks, stepExec, stepFinish, isDisabled, DISABLED, hl, hmin, hmin0,
    MAX_SCRIPT_ELEMENT_SIZE, MAX_OPS_PER_SCRIPT, MAX_SCRIPT_SIZE, MAX_STACK_SIZE, OP_CODESEPARATOR, Except.bind]

/-- outside sigversion BASE there is no FindAndDelete pass -/
theorem multisigScriptCode_nonbase (cx : Ctx) (h : cx.sigversion ≠ .BASE) :
    ∀ (sigs : List Bytes) (sc : Bytes), multisigScriptCode cx sigs sc = .ok sc
  | [], _ => rfl
  | _ :: ss, sc => by
    unfold multisigScriptCode
    have : (cx.sigversion == SigVersion.BASE) = false := by simpa using h
    simp only [this, Bool.false_eq_true, if_false]
    exact multisigScriptCode_nonbase cx h ss sc

/-- `ExecuteWitnessScript` of the multisig witness script on `[sig_k … sig_1, dummy]` -/
theorem execute_multisig_v0 (env : VerifyEnv) (keys sigs : List Bytes)
    (hn : 1 ≤ keys.length ∧ keys.length ≤ 16) (hk : 1 ≤ sigs.length ∧ sigs.length ≤ keys.length)
    (hkeys : ∀ x ∈ keys, isCompressedPubKey x = true) (hsl : ∀ s ∈ sigs, s.length ≤ 520)
    (hal : Aligned (chkOk (evalCtx env .WITNESS_V0 (msScript sigs.length keys)) (msScript sigs.length keys)) sigs keys)
    (henc : ∀ s ∈ sigs, checkSignatureEncoding env.flags s = .ok ())
    (htot : ∀ s ∈ sigs, ∀ x ∈ keys, ∃ b, env.checker.checkECDSA s x (msScript sigs.length keys) .WITNESS_V0 = .ok b) :
    executeWitnessScript env (sigs.reverse ++ [[]]) (msScript sigs.length keys) .WITNESS_V0 0 = .ok () := by
  have e := evalWith_multisig env .WITNESS_V0 (Or.inr rfl) keys sigs hn hk hkeys
    (multisigScriptCode_nonbase _ (by simp [evalCtx]) _ _) hal henc htot
  have hany : (sigs.reverse ++ [([] : Bytes)]).any (fun e => decide (e.length > MAX_SCRIPT_ELEMENT_SIZE)) = false := by
    rw [List.any_eq_false]
    intro x hx
    simp only [List.mem_append, List.mem_reverse, List.mem_singleton] at hx
    rcases hx with hx | rfl
    · have := hsl x hx; simp [MAX_SCRIPT_ELEMENT_SIZE]; omega
    · simp [MAX_SCRIPT_ELEMENT_SIZE]
  have hT : castToBool [1] = true := by decide
  unfold executeWitnessScript
  simp [hany, e, hT, Except.bind, bind, pure, Except.pure]

/-- T1 (p2wsh multisig), script level: ANY flag set with WITNESS; empty scriptSig, witness
    `[dummy, sig_1 … sig_k, witness script]`. -/
theorem verify_p2wsh_multisig (env : VerifyEnv) (h : Bytes) (keys sigs : List Bytes) (hl : h.length = 32)
    (hW : has env.flags FLAG_WITNESS = true) (hnz : castToBool h = true)
    (hh : env.hashes.sha256 (msScript sigs.length keys) = h)
    (hn : 1 ≤ keys.length ∧ keys.length ≤ 16) (hk : 1 ≤ sigs.length ∧ sigs.length ≤ keys.length)
    (hkeys : ∀ x ∈ keys, isCompressedPubKey x = true) (hsl : ∀ s ∈ sigs, s.length ≤ 520)
    (hal : Aligned (chkOk (evalCtx env .WITNESS_V0 (msScript sigs.length keys)) (msScript sigs.length keys)) sigs keys)
    (henc : ∀ s ∈ sigs, checkSignatureEncoding env.flags s = .ok ())
    (htot : ∀ s ∈ sigs, ∀ x ∈ keys, ∃ b, env.checker.checkECDSA s x (msScript sigs.length keys) .WITNESS_V0 = .ok b) :
    verifyScript env [] (wshSpk h) (([] :: sigs) ++ [msScript sigs.length keys]) = .ok () := by
  have e0 := evalWith_empty env []
  have e1 := evalWith_wshSpk env h hl
  have e2 := execute_multisig_v0 env keys sigs hn hk hkeys hsl hal henc htot
  have hwp : isWitnessProgram (wshSpk h) = some (0, h) := by simp [isWitnessProgram, wshSpk, getB, hl]
  have hsh : isPayToScriptHash (wshSpk h) = false := by simp [isPayToScriptHash, wshSpk, hl]
  have hpo : isPushOnly [] = true := by simp [isPushOnly, parse, parseOps]
  have hrev : (([] :: sigs) ++ [msScript sigs.length keys]).reverse =
      msScript sigs.length keys :: (sigs.reverse ++ [[]]) := by simp
  unfold verifyScript
  simp only [hrev]
  simp [e0, e1, hwp, hsh, hpo, hW, requireTrueTop, hnz, verifyWitnessProgram, hl, hh, e2,
    Except.bind, bind, pure, Except.pure]

/-- T1 (p2sh-p2wsh multisig), script level: ANY flag set with P2SH and WITNESS; scriptSig = one push of the redeem
    script `0 <sha256(witness script)>`, witness `[dummy, sig_1 … sig_k, witness script]`. -/
theorem verify_p2sh_p2wsh_multisig (env : VerifyEnv) (h hr : Bytes) (keys sigs : List Bytes)
    (hl : h.length = 32) (hrl : hr.length = 20)
    (hP : has env.flags FLAG_P2SH = true) (hW : has env.flags FLAG_WITNESS = true) (hnz : castToBool h = true)
    (hhr : env.hashes.ripemd160 (env.hashes.sha256 (wshSpk h)) = hr)
    (hh : env.hashes.sha256 (msScript sigs.length keys) = h)
    (hn : 1 ≤ keys.length ∧ keys.length ≤ 16) (hk : 1 ≤ sigs.length ∧ sigs.length ≤ keys.length)
    (hkeys : ∀ x ∈ keys, isCompressedPubKey x = true) (hsl : ∀ s ∈ sigs, s.length ≤ 520)
    (hal : Aligned (chkOk (evalCtx env .WITNESS_V0 (msScript sigs.length keys)) (msScript sigs.length keys)) sigs keys)
    (henc : ∀ s ∈ sigs, checkSignatureEncoding env.flags s = .ok ())
    (htot : ∀ s ∈ sigs, ∀ x ∈ keys, ∃ b, env.checker.checkECDSA s x (msScript sigs.length keys) .WITNESS_V0 = .ok b) :
    verifyScript env (pushData (wshSpk h)) (shSpk hr) (([] :: sigs) ++ [msScript sigs.length keys]) = .ok () := by
  have hlen : (wshSpk h).length = 34 := by simp [wshSpk, hl]
  obtain ⟨e0, hpo⟩ := evalWith_sig env (wshSpk h) (by omega) (by omega)
  have e1 := evalWith_wshSpk env h hl
  have e2 := execute_multisig_v0 env keys sigs hn hk hkeys hsl hal henc htot
  have e3 := evalWith_shSpk env hr (wshSpk h) hrl hhr
  have hwp : isWitnessProgram (wshSpk h) = some (0, h) := by simp [isWitnessProgram, wshSpk, getB, hl]
  have hwn : isWitnessProgram (shSpk hr) = none := by simp [isWitnessProgram, shSpk, getB, hrl]
  have hsh : isPayToScriptHash (shSpk hr) = true := by
    have : (hr ++ [0x87])[20]? = some 0x87 := by
      rw [List.getElem?_append_right (by omega)]; simp [hrl]
    simp [isPayToScriptHash, shSpk, hrl, getB, List.getD, this]
  have hrev : (([] :: sigs) ++ [msScript sigs.length keys]).reverse =
      msScript sigs.length keys :: (sigs.reverse ++ [[]]) := by simp
  unfold verifyScript
  simp only [hrev]
  have hT : castToBool [1] = true := by decide
  simp [e0, e1, e3, hwp, hwn, hsh, hpo, hP, hW, requireTrueTop, hnz, hT, verifyWitnessProgram, hl, hh, e2,
    Except.bind, bind, pure, Except.pure]

end Btc.Spend.Eval
