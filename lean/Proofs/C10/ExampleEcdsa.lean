import Proofs.C10.Example
/- C10 — kernel-checked facts about the concrete spends of `Proofs/C10/Example.lean`: the ECDSA signature over the BIP143 digest -/
namespace Btc.Spend.Ex
open Btc Btc.Spend Btc.Sighash Btc.Script Btc.Script.Core
set_option maxRecDepth 1000000

theorem hsign : Ecdsa.signRecoverable (EC.ops EC.secp256k1)
    (Rfc6979.challenge EC.secp256k1.n (engineEcdsaDigest secpCrypto cx (p2pkh h) .WITNESS_V0 1)) q k true =
      .ok (r, s, 0) := by decide +kernel

end Btc.Spend.Ex
