import Proofs.C10.Bare
import Proofs.Common.Bytes
/-
C10 — T1 for legacy p2sh around a script: the redeem push (direct, OP_PUSHDATA1 or OP_PUSHDATA2 by length), the p2sh
scriptPubKey on a stack with the redeem script on top of OTHER elements, and `VerifyScript` for p2sh(k-of-n multisig).
-/
namespace Btc.Spend.Eval

open Btc Btc.Script Btc.Script.Core

/-! ### one push of 2..520 bytes: direct, OP_PUSHDATA1, OP_PUSHDATA2 -/

/-- the instruction `CScript() << d` is (for `d` of at most 65535 bytes) -/
def pushOpG (d : Bytes) : Op :=
  if d.length < 76 then pushOp d
  else if d.length < 256 then ⟨76, d, 76 :: UInt8.ofNat d.length :: d⟩
  else ⟨77, d, 77 :: (leBytes 2 d.length ++ d)⟩

theorem pushOpG_data (d : Bytes) : (pushOpG d).data = d := by
  unfold pushOpG; split
  · rfl
  · split <;> rfl

theorem pushOpG_code_le (d : Bytes) : (pushOpG d).code ≤ 77 := by
  unfold pushOpG; split
  · simp only [pushOp]; omega
  · split <;> simp

theorem pushOpG_raw (d : Bytes) (h : d.length < 65536) : (pushOpG d).raw = pushData d := by
  unfold pushOpG pushData
  split
  · rfl
  · split
    · rfl
    · simp

theorem getOp_pushG (d rest : Bytes) (h1 : 1 ≤ d.length) (h : d.length < 65536) :
    getOp (pushData d ++ rest) = some (pushOpG d, rest) := by
  by_cases h76 : d.length < 76
  · rw [getOp_push d rest h1 (by omega)]; simp [pushOpG, h76]
  · have ht : (d ++ rest).take d.length = d := List.take_left' rfl
    have hd : (d ++ rest).drop d.length = rest := List.drop_left' rfl
    have hx : ¬ (d.length + rest.length < d.length) := by omega
    by_cases h256 : d.length < 256
    · have hn : (UInt8.ofNat d.length).toNat = d.length := by simp [UInt8.toNat_ofNat']; omega
      simp [pushData, pushOpG, h76, h256, getOp, ofLE, hn, ht, hd, hx]
    · have hle : ofLE (leBytes 2 d.length) = d.length := by
        rw [ofLE_leBytes]; exact Nat.mod_eq_of_lt (by omega)
      have ht2 : (leBytes 2 d.length ++ (d ++ rest)).take 2 = leBytes 2 d.length := List.take_left' (by simp)
      have hd2 : (leBytes 2 d.length ++ (d ++ rest)).drop 2 = d ++ rest := List.drop_left' (by simp)
      have hx2 : ¬ (2 + (d.length + rest.length) < 2) := by omega
      simp [pushData, pushOpG, h76, h256, h, getOp, ht2, hd2, hle, ht, hd, hx, hx2]

theorem checkMinimalPush_two (a b : UInt8) (t : Bytes) (c : Nat) :
    checkMinimalPush (a :: b :: t) c =
      (if (a :: b :: t).length ≤ 75 then c == (a :: b :: t).length
       else if (a :: b :: t).length ≤ 255 then c == 76
       else if (a :: b :: t).length ≤ 65535 then c == 77 else true) := rfl

theorem checkMinimalPush_G (d : Bytes) (h2 : 2 ≤ d.length) (h : d.length < 65536) :
    checkMinimalPush d (pushOpG d).code = true := by
  match d, h2 with
  | a :: b :: t, _ =>
    rw [checkMinimalPush_two]
    generalize (a :: b :: t) = d at h ⊢
    unfold pushOpG
    by_cases h76 : d.length < 76
    · have : d.length ≤ 75 := by omega
      simp [h76, this, pushOp]
    · have n75 : ¬ (d.length ≤ 75) := by omega
      by_cases h256 : d.length < 256
      · have : d.length ≤ 255 := by omega
        simp [h76, h256, n75, this]
      · have n255 : ¬ (d.length ≤ 255) := by omega
        have : d.length ≤ 65535 := by omega
        simp [h76, h256, n75, n255, this]

/-- running one push of 2..520 bytes -/
theorem step_pushG (cx : Ctx) (st : State) (d : Bytes) (h2 : 2 ≤ d.length) (h520 : d.length ≤ 520)
    (hv : st.vfExec = []) (hsz : st.m.stack.length + st.m.alt.length + 1 ≤ 1000) :
    ∃ st', step cx st (pushOpG d) = .ok st' ∧ Same st st' (d :: st.m.stack) := by
  have hmin := checkMinimalPush_G d h2 (by omega)
  have hdat := pushOpG_data d
  have hcode := pushOpG_code_le d
  have hdis : isDisabled (pushOpG d).code = false := by simp [isDisabled, DISABLED]; omega
  have h520' : ¬ (520 < d.length) := by omega
  have h96 : ¬ (96 < (pushOpG d).code) := by omega
  have h78 : (pushOpG d).code ≤ 78 := by omega
  have h171 : ¬ ((pushOpG d).code = 171) := by omega
  have hs' : ¬ (1000 < st.m.stack.length + 1 + st.m.alt.length) := by omega
  obtain ⟨m, vf, pos, opos⟩ := st
  obtain ⟨stk, alt, oc, cs, csp, wl⟩ := m
  simp only at hv hsz hs'
  subst hv
  have hstep : step cx ⟨⟨stk, alt, oc, cs, csp, wl⟩, [], pos, opos⟩ (pushOpG d) =
      .ok ⟨⟨d :: stk, alt, oc, cs, csp, wl⟩, [], pos + (pushOpG d).raw.length, opos + 1⟩ := by
    simp [step, stepChecks, stepExec, stepFinish, hdat, hdis, hmin, h520', h96, h78, h171, hs',
      MAX_SCRIPT_ELEMENT_SIZE, MAX_STACK_SIZE, OP_CODESEPARATOR, Except.bind]
  exact ⟨_, hstep, ⟨rfl, rfl, rfl, rfl, rfl⟩⟩

theorem pushData_length_le (d : Bytes) (h : d.length < 65536) : (pushData d).length ≤ d.length + 3 := by
  unfold pushData
  split
  · simp
  · split
    · simp
    · simp; omega

/-! ### the p2sh scriptSig `OP_0 <sig_1> … <sig_k> <redeem>` -/

/-- `OP_0 <sig_1> … <sig_k> <redeem>` is push-only and leaves `[redeem, sig_k … sig_1, dummy]` -/
theorem evalWith_dummySigsRedeem (env : VerifyEnv) (sigs : List Bytes) (redeem : Bytes)
    (hs : ∀ s ∈ sigs, 2 ≤ s.length ∧ s.length ≤ 75) (hk : sigs.length ≤ 16)
    (hr2 : 2 ≤ redeem.length) (hr : redeem.length ≤ 520) :
    evalWith (evalCtx env .BASE (0x00 :: (sigs.flatMap pushData ++ pushData redeem))) [] 0 =
      .ok (redeem :: (sigs.reverse ++ [[]])) ∧
    isPushOnly (0x00 :: (sigs.flatMap pushData ++ pushData redeem)) = true := by
  have hp : parse (0x00 :: (sigs.flatMap pushData ++ pushData redeem)) =
      (op0 :: (sigs.map pushOp ++ [pushOpG redeem]), []) := by
    have g : getOp (0x00 :: (sigs.flatMap pushData ++ pushData redeem)) =
        some (op0, sigs.flatMap pushData ++ pushData redeem) := by simp [getOp, op0]
    have pp := parse_pushes sigs (pushData redeem) (fun d hd => ⟨by have := hs d hd; omega, (hs d hd).2⟩)
    have g2 : getOp (pushData redeem ++ []) = some (pushOpG redeem, []) := getOp_pushG redeem [] (by omega) (by omega)
    rw [List.append_nil] at g2
    have pn : parse [] = ([], []) := by simp [parse, parseOps]
    have pr : parse (pushData redeem) = ([pushOpG redeem], []) := by rw [parse_cons _ _ _ g2, pn]
    rw [parse_cons _ _ _ g, pp, pr]
  let cx := evalCtx env .BASE (0x00 :: (sigs.flatMap pushData ++ pushData redeem))
  let st0 : State := { m := { stack := [], weightLeft := 0 } }
  obtain ⟨st1, e1, s1⟩ := step_op0 cx st0 rfl (by simp [st0])
  obtain ⟨st2, e2, s2⟩ := run_pushes cx sigs st1 hs (by rw [s1.vfExec]) (by rw [s1.stack, s1.alt]; simp [st0]; omega)
  obtain ⟨st3, e3, s3⟩ := step_pushG cx st2 redeem hr2 hr (by rw [s2.vfExec, s1.vfExec])
    (by rw [s2.stack, s2.alt, s1.stack, s1.alt]; simp [st0]; omega)
  have hrun : run (evalCtx env .BASE (0x00 :: (sigs.flatMap pushData ++ pushData redeem)))
      (op0 :: (sigs.map pushOp ++ [pushOpG redeem])) { m := { stack := [], weightLeft := 0 } } = .ok st3 := by
    show run cx (op0 :: (sigs.map pushOp ++ [pushOpG redeem])) st0 = .ok st3
    simp only [run, e1, Except.bind, run_append, e2, e3]
  have hlen := flatMap_push_le sigs (fun d hd => (hs d hd).2)
  have hlr := pushData_length_le redeem (by omega)
  have hsz : ¬ ((0x00 :: (sigs.flatMap pushData ++ pushData redeem)).length > MAX_SCRIPT_SIZE) := by
    simp only [List.length_cons, List.length_append, MAX_SCRIPT_SIZE]; omega
  have es : (evalCtx env .BASE (0x00 :: (sigs.flatMap pushData ++ pushData redeem))).script =
      0x00 :: (sigs.flatMap pushData ++ pushData redeem) := rfl
  refine ⟨?_, ?_⟩
  · unfold evalWith
    simp only [es, hp, hsz, decide_false, Bool.and_false, hrun]
    have hv : st3.vfExec = [] := by rw [s3.vfExec, s2.vfExec, s1.vfExec]
    have hst : st3.m.stack = redeem :: (sigs.reverse ++ [[]]) := by rw [s3.stack, s2.stack, s1.stack]
    simp [hv, hst]
  · simp only [isPushOnly, hp]
    have hall : (sigs.map pushOp).all (fun op => decide (op.code ≤ 0x60)) = true := by
      rw [List.all_eq_true]
      intro op hop
      obtain ⟨d, hd, rfl⟩ := List.mem_map.mp hop
      have h75 := (hs d hd).2
      have h96 : d.length ≤ 96 := Nat.le_trans h75 (by decide)
      simp only [pushOp]
      exact decide_eq_true h96
    have hc := pushOpG_code_le redeem
    have hc' : (pushOpG redeem).code ≤ 96 := by omega
    simp [op0, hall, hc']

/-- the p2sh scriptPubKey on `redeem :: rest`: HASH160 <hr> EQUAL replaces the redeem script by `true` -/
theorem evalWith_shSpk_rest (env : VerifyEnv) (hr redeem : Bytes) (rest : List Bytes) (hl : hr.length = 20)
    (hrest : rest.length + 2 ≤ 1000)
    (hh : env.hashes.ripemd160 (env.hashes.sha256 redeem) = hr) :
    evalWith (evalCtx env .BASE (shSpk hr)) (redeem :: rest) 0 = .ok ([1] :: rest) := by
  have hmin : checkMinimalPush hr 20 = true := by
    have := checkMinimalPush_len hr (by omega) (by omega); rwa [hl] at this
  have ht : (hr ++ [0x87]).take 20 = hr := List.take_left' hl
  have hd : (hr ++ [0x87]).drop 20 = [0x87] := List.drop_left' hl
  have hp : parse (shSpk hr) = ([⟨0xa9, [], [0xa9]⟩, ⟨0x14, hr, 0x14 :: hr⟩, ⟨0x87, [], [0x87]⟩], []) := by
    simp [parse, shSpk, parseOps, getOp, hl, ht, hd]
  have s1 : ¬ (1000 < rest.length + 1) := by omega
  have s2 : ¬ (1000 < rest.length + 1 + 1) := by omega
  unfold evalWith
  simp only [evalCtx, hp]
  simp [shSpk, run, step, stepChecks, stepExec, stepFinish, execPlain, execStackOp, hashOp, isDisabled, DISABLED,
    inConditionalRange, hl, hmin, hh, s1, s2, MAX_SCRIPT_ELEMENT_SIZE, MAX_OPS_PER_SCRIPT, MAX_SCRIPT_SIZE,
    MAX_STACK_SIZE, OP_IF, OP_ENDIF, OP_CODESEPARATOR, ofBool, vchTrue, Except.bind, Except.map]

/-- T1 (legacy p2sh k-of-n multisig, `n ≤ 15` so that the redeem script fits a push), script level: ANY flag set with
    P2SH; scriptSig `OP_0 <sig_1> … <sig_k> <redeem script>` -- the redeem push is OP_PUSHDATA1 for 3 ≤ n ≤ 7 and
    OP_PUSHDATA2 for n ≥ 8.  `hsc` as for the bare template (FindAndDelete, legacy script code). -/
theorem verify_p2sh_multisig (env : VerifyEnv) (hr : Bytes) (keys sigs : List Bytes) (hrl : hr.length = 20)
    (hP : has env.flags FLAG_P2SH = true)
    (hhr : env.hashes.ripemd160 (env.hashes.sha256 (msScript sigs.length keys)) = hr)
    (hn : 1 ≤ keys.length ∧ keys.length ≤ 15) (hk : 1 ≤ sigs.length ∧ sigs.length ≤ keys.length)
    (hkeys : ∀ x ∈ keys, isCompressedPubKey x = true) (hs : ∀ s ∈ sigs, 2 ≤ s.length ∧ s.length ≤ 75)
    (hsc : multisigScriptCode (evalCtx env .BASE (msScript sigs.length keys)) sigs.reverse (msScript sigs.length keys) =
      .ok (msScript sigs.length keys))
    (hal : Aligned (chkOk (evalCtx env .BASE (msScript sigs.length keys)) (msScript sigs.length keys)) sigs keys)
    (henc : ∀ s ∈ sigs, checkSignatureEncoding env.flags s = .ok ())
    (htot : ∀ s ∈ sigs, ∀ x ∈ keys, ∃ b, env.checker.checkECDSA s x (msScript sigs.length keys) .BASE = .ok b) :
    verifyScript env (0x00 :: (sigs.flatMap pushData ++ pushData (msScript sigs.length keys))) (shSpk hr) [] = .ok () := by
  have hn16 : 1 ≤ keys.length ∧ keys.length ≤ 16 := ⟨hn.1, by omega⟩
  have hlen33 : ∀ x ∈ keys, x.length = 33 := fun x hx => by
    have := hkeys x hx
    simp only [isCompressedPubKey, Bool.and_eq_true, beq_iff_eq] at this; exact this.1
  have hlen := msScript_length sigs.length keys hlen33
  obtain ⟨e0, hpo⟩ := evalWith_dummySigsRedeem env sigs (msScript sigs.length keys) hs (by omega)
    (by rw [hlen]; omega) (by rw [hlen]; omega)
  have e1 := evalWith_shSpk_rest env hr (msScript sigs.length keys) (sigs.reverse ++ [[]]) hrl
    (by simp; omega) hhr
  have e2 := evalWith_multisig env .BASE (Or.inl rfl) keys sigs hn16 hk hkeys hsc hal henc htot
  have hwn : isWitnessProgram (shSpk hr) = none := by simp [isWitnessProgram, shSpk, getB, hrl]
  have hsh : isPayToScriptHash (shSpk hr) = true := by
    have : (hr ++ [0x87])[20]? = some 0x87 := by
      rw [List.getElem?_append_right (by omega)]; simp [hrl]
    simp [isPayToScriptHash, shSpk, hrl, getB, List.getD, this]
  have hwn2 : isWitnessProgram (msScript sigs.length keys) = none := by
    obtain ⟨x, xs, rfl⟩ : ∃ x xs, keys = x :: xs := by
      cases keys with
      | nil => simp at hn
      | cons x xs => exact ⟨x, xs, rfl⟩
    have hx := hlen33 x (by simp)
    have g1 : getB (msScript sigs.length (x :: xs)) 1 = 33 := by
      simp [msScript, getB, pushData_short x (by omega), hx]
    unfold isWitnessProgram
    simp only [hlen, g1]
    split
    · rfl
    · split
      · rfl
      · rw [if_neg (by simp only [List.length_cons]; omega)]
  have hT : castToBool [1] = true := by decide
  unfold verifyScript
  cases hW : has env.flags FLAG_WITNESS <;>
  simp [e0, e1, e2, hwn, hwn2, hsh, hpo, hP, hW, requireTrueTop, hT, Except.bind, bind, pure, Except.pure]

end Btc.Spend.Eval
