import Model.C10.Engine
/-
C10 — symbolic evaluation of the fixed script templates in the C08 model (`Core.evalWith`, `Core.verifyScript`).
Core Lean only (no Mathlib needed here).
-/
namespace Btc.Spend.Eval

open Btc Btc.Script Btc.Script.Core

/-- the p2pkh script, spelled as the five instructions it is -/
def pkhScript (h : Bytes) : Bytes := [0x76, 0xa9, 0x14] ++ (h ++ [0x88, 0xac])

theorem p2pkh_eq (h : Bytes) : Spend.p2pkh h = pkhScript h := rfl

def pkhOps (h : Bytes) : List Op :=
  [⟨0x76, [], [0x76]⟩, ⟨0xa9, [], [0xa9]⟩, ⟨0x14, h, 0x14 :: h⟩, ⟨0x88, [], [0x88]⟩, ⟨0xac, [], [0xac]⟩]

theorem parse_pkhScript (h : Bytes) (hl : h.length = 20) : parse (pkhScript h) = (pkhOps h, []) := by
  have e1 : (h ++ [0x88, 0xac]).length = 22 := by simp [hl]
  simp [parse, pkhScript, pkhOps, parseOps, getOp, hl, List.take_left', List.drop_left']

theorem checkMinimalPush_len (d : Bytes) (h2 : 2 ≤ d.length) (h75 : d.length ≤ 75) :
    checkMinimalPush d d.length = true := by
  match d, h2 with
  | a :: b :: r, _ => simp [checkMinimalPush] at h75 ⊢; omega

theorem checkPubKeyEncoding_compressed (flags : Nat) (sv : SigVersion) (k : Bytes)
    (hk : isCompressedPubKey k = true) : checkPubKeyEncoding flags sv k = .ok () := by
  simp only [isCompressedPubKey, Bool.and_eq_true, beq_iff_eq, Bool.or_eq_true] at hk
  obtain ⟨hlen, h0⟩ := hk
  have : isCompressedOrUncompressedPubKey k = true := by
    unfold isCompressedOrUncompressedPubKey
    rcases h0 with h0 | h0 <;> simp [hlen, h0]
  rcases h0 with h0 | h0 <;> simp [checkPubKeyEncoding, this, isCompressedPubKey, hlen, h0]

/-- the five instructions of p2pkh on `[pk, sig]` under segwit v0 rules leave exactly `true` -/
theorem evalWith_pkh_v0 (env : VerifyEnv) (h sig pk : Bytes) (hl : h.length = 20)
    (hh : env.hashes.ripemd160 (env.hashes.sha256 pk) = h)
    (henc : checkSignatureEncoding env.flags sig = .ok ())
    (hpk : isCompressedPubKey pk = true)
    (hsig : env.checker.checkECDSA sig pk (pkhScript h) .WITNESS_V0 = .ok true) :
    evalWith (evalCtx env .WITNESS_V0 (pkhScript h)) [pk, sig] 0 = .ok [[1]] := by
  have hlen : (pkhScript h).length = 25 := by simp [pkhScript, hl]
  have hmin : checkMinimalPush h 20 = true := by
    have := checkMinimalPush_len h (by omega) (by omega); rwa [hl] at this
  have hpke := checkPubKeyEncoding_compressed env.flags .WITNESS_V0 pk hpk
  unfold evalWith
  simp only [evalCtx, hlen, parse_pkhScript h hl, pkhOps]
  simp [run, step, stepChecks, stepExec, stepFinish, execPlain, execStackOp, hashOp, evalChecksig,
    evalChecksigPreTapscript, isDisabled, DISABLED, inConditionalRange, hl, hmin, hh, henc, hpke, hsig,
    MAX_SCRIPT_ELEMENT_SIZE, MAX_OPS_PER_SCRIPT, MAX_SCRIPT_SIZE, MAX_STACK_SIZE, OP_IF, OP_ENDIF, OP_CODESEPARATOR,
    OP_CHECKSIG, OP_CHECKSIGVERIFY, ofBool, vchTrue, Except.bind, Except.map, bind, pure, Except.pure]

end Btc.Spend.Eval
