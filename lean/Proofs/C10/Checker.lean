import Model.C10.Engine
import Proofs.C02.Ecdsa
import Proofs.C02.Der
import Proofs.C03.Codec
import Proofs.C03.BatchThm
import Proofs.Common.LawfulY
import Proofs.C08.Num
/-
C10 — the composed signature checker accepts what the model's `sign` produces (closure is then a theorem, not only
an executed composition): C02-T1 + DER round trip for ECDSA, C03-T1 + the 64-byte codec for BIP340.
-/
namespace Btc.Spend

open Btc Btc.Script Btc.Sighash
open Btc.Script.Core (SigVersion)

variable {α G : Type} [AddCommGroup G]

theorem toNat_ofNat_lt (n : Nat) (h : n < 256) : (UInt8.ofNat n).toNat = n := by
  simp [UInt8.toNat_ofNat']; omega

/-- ECDSA, the byte-level half (no group law): if `(r, s)` verifies for `Q` over the challenge of the digest THE ENGINE
    recomputes and is low-s, then its DER serialization followed by the hash-type byte passes the composed
    `CheckECDSASignature` for any octets `pk` that `parsePub` reads as `Q`. -/
theorem verified_passes_checkECDSA (C : Crypto α) (cx : TxCtx) (sc : Bytes) (sv : SigVersion)
    (ht : Nat) (hht : ht < 256) {r s : Int} (pk : Bytes) (Q : α) (hp : C.parsePub pk = some Q)
    (hv : Ecdsa.verify C.o (Rfc6979.challenge C.o.n (engineEcdsaDigest C cx sc sv ht)) Q r s = true)
    (hlow : s ≤ C.o.n / 2)
    (der : Bytes) (hder : Der.serialize r s = .ok der) (hmax : der.length ≤ Gen.VarInt.MAX_SIZE) :
    checkECDSA C cx (der ++ [UInt8.ofNat ht]) pk sc sv = .ok true := by
  have hv' := hv
  unfold Ecdsa.verify at hv'
  simp only [Bool.and_eq_true, decide_eq_true_eq] at hv'
  obtain ⟨⟨hr, hs⟩, _⟩ := hv'
  have hr0 : ((r.toNat : Nat) : Int) = r := Int.toNat_of_nonneg (by omega)
  have hs0 : ((s.toNat : Nat) : Int) = s := Int.toNat_of_nonneg (by omega)
  have hder' : Der.serialize ((r.toNat : Nat) : Int) ((s.toNat : Nat) : Int) = .ok der := by rw [hr0, hs0]; exact hder
  have hparse : Der.parseLax der = some (r.toNat, s.toNat) :=
    Der.parse_serialize false r.toNat s.toNat der hder' hmax
  have hlast : (lastByte (der ++ [UInt8.ofNat ht])).toNat = ht := by
    rw [lastByte_append_singleton]; exact toNat_ofNat_lt ht hht
  have hlow' : ¬ (s > C.o.n / 2) := by omega
  unfold checkECDSA
  simp [hp, hlast, hparse, hr0, hs0, hlow', hv]

/-- ECDSA: a signature made by `_sign_recoverable_` (low-s) with the key `q` over the challenge of the digest THE ENGINE
    recomputes for (script code, sigversion, hash type), DER-serialized and followed by the hash-type byte, passes
    `CheckECDSASignature` of the composed checker for any SEC spelling `pk` of `q·G`. -/
theorem sign_passes_checkECDSA (C : Crypto α) (L : Lawful C.o G) (cx : TxCtx) (sc : Bytes) (sv : SigVersion)
    (ht : Nat) (hht : ht < 256) {q k r s kid : Int} (hk : 0 < k ∧ k < C.o.n)
    (pk : Bytes) (Q : α) (hp : C.parsePub pk = some Q) (hQ : L.abs Q = q • L.abs C.o.gen)
    (hsign : Ecdsa.signRecoverable C.o (Rfc6979.challenge C.o.n (engineEcdsaDigest C cx sc sv ht)) q k true =
      .ok (r, s, kid))
    (der : Bytes) (hder : Der.serialize r s = .ok der) (hmax : der.length ≤ Gen.VarInt.MAX_SIZE) :
    checkECDSA C cx (der ++ [UInt8.ofNat ht]) pk sc sv = .ok true := by
  obtain ⟨hv, hlow⟩ := Ecdsa.sign_verifies L hk Q hQ hsign
  exact verified_passes_checkECDSA C cx sc sv ht hht pk Q hp hv (hlow rfl) der hder hmax

/-- every answer of the composed `CheckECDSASignature` is a verdict (never a script error) -/
theorem checkECDSA_total (C : Crypto α) (cx : TxCtx) (sig pk sc : Bytes) (sv : SigVersion) :
    ∃ b, checkECDSA C cx sig pk sc sv = .ok b := by
  unfold checkECDSA
  split
  · exact ⟨_, rfl⟩
  · split
    · exact ⟨_, rfl⟩
    · split <;> exact ⟨_, rfl⟩

theorem serialize_length (C : Crypto α) (hps : C.prm.pSize = 32) (hns : C.prm.nSize = 32) (sg : Schnorr.Sig)
    (sig64 : Bytes) (hser : Schnorr.serialize C.o C.prm sg = .ok sig64) : sig64.length = 64 := by
  obtain ⟨_, hb⟩ := Schnorr.serialize_ok C.prm sg sig64 hser
  rw [hb, hps, hns]; simp [Schnorr.intBE]

/-- BIP340, the byte-level half (no group law): a VALID, VERIFYING `Sig` for the x-only key `xQ` over the BIP341 / BIP342
    message THE ENGINE recomputes,
    written as its 64 bytes followed by the hash-type byte unless that is SIGHASH_DEFAULT (`_taproot_signature`),
    passes `CheckSchnorrSignature` of the composed checker for the 32-byte x-only key of `q·G` -- the output key on the
    key path (`q` the tweaked private key, C12 `key_agreement`), the leaf key on the script path. -/
theorem verified_passes_checkSchnorr (C : Crypto α) (hps : C.prm.pSize = 32) (hns : C.prm.nSize = 32)
    (hp : C.o.p ≤ 2 ^ 256) (hn : C.o.n ≤ 2 ^ 256)
    (cx : TxCtx) (sv : SigVersion) (ht pos : Nat) (hht : ht < 256)
    (hdef : bip341Defined cx.tx cx.nIn cx.spent ht = true)
    (xQ : Int) (sg : Schnorr.Sig)
    (hv : Schnorr.verify C.o C.prm (engineTapDigest C cx sv ht pos) xQ sg = true)
    (sig64 : Bytes) (hser : Schnorr.serialize C.o C.prm sg = .ok sig64)
    (pubkey : Bytes) (hpk : ((ofBE pubkey : Nat) : Int) = xQ) :
    checkSchnorr C cx (sig64 ++ (if ht = 0 then [] else [UInt8.ofNat ht])) pubkey sv pos = none := by
  obtain ⟨hval, hb⟩ := Schnorr.serialize_ok C.prm sg sig64 hser
  obtain ⟨hr0, hrp, hs0, hsn⟩ := Schnorr.sigValid_range sg hval
  rw [hps, hns] at hb
  have hl1 : (Schnorr.intBE 32 sg.r).length = 32 := by simp [Schnorr.intBE]
  have hl2 : (Schnorr.intBE 32 sg.s).length = 32 := by simp [Schnorr.intBE]
  have hlen : sig64.length = 64 := by rw [hb]; simp [hl1, hl2]
  have hr : ((ofBE (Schnorr.intBE 32 sg.r) : Nat) : Int) = sg.r := by
    simp only [Schnorr.intBE, ofBE_beBytes]
    rw [Nat.mod_eq_of_lt (by omega), Int.toNat_of_nonneg hr0]
  have hs : ((ofBE (Schnorr.intBE 32 sg.s) : Nat) : Int) = sg.s := by
    simp only [Schnorr.intBE, ofBE_beBytes]
    rw [Nat.mod_eq_of_lt (by omega), Int.toNat_of_nonneg hs0]
  have hsg : (⟨((ofBE (Schnorr.intBE 32 sg.r) : Nat) : Int), ((ofBE (Schnorr.intBE 32 sg.s) : Nat) : Int)⟩ : Schnorr.Sig)
      = sg := by rw [hr, hs]
  by_cases h0 : ht = 0
  · subst h0
    have ht1 : (Schnorr.intBE 32 sg.r ++ Schnorr.intBE 32 sg.s).take 32 = Schnorr.intBE 32 sg.r := List.take_left' hl1
    have ht2 : (Schnorr.intBE 32 sg.r ++ Schnorr.intBE 32 sg.s).drop 32 = Schnorr.intBE 32 sg.s := List.drop_left' hl1
    have ht3 : (Schnorr.intBE 32 sg.s).take 32 = Schnorr.intBE 32 sg.s := List.take_of_length_le (by omega)
    unfold checkSchnorr
    simp only [if_true, List.append_nil, hlen]
    simp [hdef, hb, ht1, ht2, ht3, hsg, hpk, hv]
  · have hl65 : (sig64 ++ [UInt8.ofNat ht]).length = 65 := by simp [hlen]
    have hg : Core.getB (sig64 ++ [UInt8.ofNat ht]) 64 = ht := by
      simp [Core.getB, List.getD, List.getElem?_append_right, hlen, toNat_ofNat_lt ht hht]
    have ht1 : (Schnorr.intBE 32 sg.r ++ (Schnorr.intBE 32 sg.s ++ [UInt8.ofNat ht])).take 32 = Schnorr.intBE 32 sg.r :=
      List.take_left' hl1
    have ht2 : (Schnorr.intBE 32 sg.r ++ (Schnorr.intBE 32 sg.s ++ [UInt8.ofNat ht])).drop 32 =
        Schnorr.intBE 32 sg.s ++ [UInt8.ofNat ht] := List.drop_left' hl1
    have ht3 : (Schnorr.intBE 32 sg.s ++ [UInt8.ofNat ht]).take 32 = Schnorr.intBE 32 sg.s := List.take_left' hl2
    unfold checkSchnorr
    simp only [h0, if_false, hl65, hg]
    simp [hdef, hb, ht1, ht2, ht3, hsg, hpk, hv, h0]

/-- BIP340: a signature made by `ssa.sign_` with the key `q` over the BIP341 / BIP342 message THE ENGINE recomputes,
    written as its 64 bytes followed by the hash-type byte unless that is SIGHASH_DEFAULT (`_taproot_signature`),
    passes `CheckSchnorrSignature` of the composed checker for the 32-byte x-only key of `q·G` -- the output key on the
    key path (`q` the tweaked private key, C12 `key_agreement`), the leaf key on the script path. -/
theorem sign_passes_checkSchnorr (C : Crypto α) (L : Lawful C.o G) (hps : C.prm.pSize = 32) (hns : C.prm.nSize = 32)
    (hp : C.o.p ≤ 2 ^ 256) (hn : C.o.n ≤ 2 ^ 256)
    (cx : TxCtx) (sv : SigVersion) (ht pos : Nat) (hht : ht < 256)
    (hdef : bip341Defined cx.tx cx.nIn cx.spent ht = true)
    (fuel : Nat) (q : Int) (aux : Bytes) (sg : Schnorr.Sig)
    (hsign : Schnorr.sign C.o C.prm fuel (engineTapDigest C cx sv ht pos) q aux = .ok sg)
    (sig64 : Bytes) (hser : Schnorr.serialize C.o C.prm sg = .ok sig64)
    (pubkey : Bytes) (hpk : ((ofBE pubkey : Nat) : Int) = C.o.x (C.o.mul q C.o.gen)) :
    checkSchnorr C cx (sig64 ++ (if ht = 0 then [] else [UInt8.ofNat ht])) pubkey sv pos = none :=
  verified_passes_checkSchnorr C hps hns hp hn cx sv ht pos hht hdef _ sg
    ((Schnorr.verify_eq_true_iff C.prm _ _ _).2 (Schnorr.sign_verifies L C.prm L.ycongr fuel _ q aux sg hsign))
    sig64 hser pubkey hpk

end Btc.Spend
