import Proofs.C10.ShMulti
/-
C10 — T1 for `pk` / `pkh` scripts inside `sh`, `wsh`, `sh(wsh)`: generic wrappers (any redeem / witness script whose
evaluation accepts) and the six instances.
-/
namespace Btc.Spend.Eval

open Btc Btc.Script Btc.Script.Core

/-! ### generic wrappers -/

/-- p2wsh around ANY witness script that `ExecuteWitnessScript` accepts on the given stack -/
theorem verify_p2wsh_of (env : VerifyEnv) (h script : Bytes) (stackWire : List Bytes) (hl : h.length = 32)
    (hW : has env.flags FLAG_WITNESS = true) (hnz : castToBool h = true)
    (hh : env.hashes.sha256 script = h)
    (hex : executeWitnessScript env stackWire.reverse script .WITNESS_V0 0 = .ok ()) :
    verifyScript env [] (wshSpk h) (stackWire ++ [script]) = .ok () := by
  have e0 := evalWith_empty env []
  have e1 := evalWith_wshSpk env h hl
  have hwp : isWitnessProgram (wshSpk h) = some (0, h) := by simp [isWitnessProgram, wshSpk, getB, hl]
  have hsh : isPayToScriptHash (wshSpk h) = false := by simp [isPayToScriptHash, wshSpk, hl]
  have hpo : isPushOnly [] = true := by simp [isPushOnly, parse, parseOps]
  have hrev : (stackWire ++ [script]).reverse = script :: stackWire.reverse := by simp
  unfold verifyScript
  simp only [hrev]
  simp [e0, e1, hwp, hsh, hpo, hW, requireTrueTop, hnz, verifyWitnessProgram, hl, hh, hex,
    Except.bind, bind, pure, Except.pure]

/-- p2sh-p2wsh around ANY witness script that `ExecuteWitnessScript` accepts -/
theorem verify_p2sh_p2wsh_of (env : VerifyEnv) (h hr script : Bytes) (stackWire : List Bytes)
    (hl : h.length = 32) (hrl : hr.length = 20)
    (hP : has env.flags FLAG_P2SH = true) (hW : has env.flags FLAG_WITNESS = true) (hnz : castToBool h = true)
    (hhr : env.hashes.ripemd160 (env.hashes.sha256 (wshSpk h)) = hr)
    (hh : env.hashes.sha256 script = h)
    (hex : executeWitnessScript env stackWire.reverse script .WITNESS_V0 0 = .ok ()) :
    verifyScript env (pushData (wshSpk h)) (shSpk hr) (stackWire ++ [script]) = .ok () := by
  have hlen : (wshSpk h).length = 34 := by simp [wshSpk, hl]
  obtain ⟨e0, hpo⟩ := evalWith_sig env (wshSpk h) (by omega) (by omega)
  have e1 := evalWith_wshSpk env h hl
  have e3 := evalWith_shSpk env hr (wshSpk h) hrl hhr
  have hwp : isWitnessProgram (wshSpk h) = some (0, h) := by simp [isWitnessProgram, wshSpk, getB, hl]
  have hwn : isWitnessProgram (shSpk hr) = none := by simp [isWitnessProgram, shSpk, getB, hrl]
  have hsh : isPayToScriptHash (shSpk hr) = true := by
    have : (hr ++ [0x87])[20]? = some 0x87 := by
      rw [List.getElem?_append_right (by omega)]; simp [hrl]
    simp [isPayToScriptHash, shSpk, hrl, getB, List.getD, this]
  have hrev : (stackWire ++ [script]).reverse = script :: stackWire.reverse := by simp
  unfold verifyScript
  simp only [hrev]
  have hT : castToBool [1] = true := by decide
  simp [e0, e1, e3, hwp, hwn, hsh, hpo, hP, hW, requireTrueTop, hnz, hT, verifyWitnessProgram, hl, hh, hex,
    Except.bind, bind, pure, Except.pure]

/-- the scriptSig `<item_1> … <item_j> <redeem>` (items of 2..75 bytes) is push-only and leaves
    `[redeem, item_j … item_1]` -/
theorem evalWith_itemsRedeem (env : VerifyEnv) (items : List Bytes) (redeem : Bytes)
    (hs : ∀ s ∈ items, 2 ≤ s.length ∧ s.length ≤ 75) (hk : items.length ≤ 16)
    (hr2 : 2 ≤ redeem.length) (hr : redeem.length ≤ 520) :
    evalWith (evalCtx env .BASE (items.flatMap pushData ++ pushData redeem)) [] 0 = .ok (redeem :: items.reverse) ∧
    isPushOnly (items.flatMap pushData ++ pushData redeem) = true := by
  have hp : parse (items.flatMap pushData ++ pushData redeem) = (items.map pushOp ++ [pushOpG redeem], []) := by
    have pp := parse_pushes items (pushData redeem) (fun d hd => ⟨by have := hs d hd; omega, (hs d hd).2⟩)
    have g2 : getOp (pushData redeem ++ []) = some (pushOpG redeem, []) := getOp_pushG redeem [] (by omega) (by omega)
    rw [List.append_nil] at g2
    have pn : parse [] = ([], []) := by simp [parse, parseOps]
    have pr : parse (pushData redeem) = ([pushOpG redeem], []) := by rw [parse_cons _ _ _ g2, pn]
    rw [pp, pr]
  let cx := evalCtx env .BASE (items.flatMap pushData ++ pushData redeem)
  let st0 : State := { m := { stack := [], weightLeft := 0 } }
  obtain ⟨st2, e2, s2⟩ := run_pushes cx items st0 hs rfl (by simp [st0]; omega)
  obtain ⟨st3, e3, s3⟩ := step_pushG cx st2 redeem hr2 hr (by rw [s2.vfExec])
    (by rw [s2.stack, s2.alt]; simp [st0]; omega)
  have hrun : run (evalCtx env .BASE (items.flatMap pushData ++ pushData redeem))
      (items.map pushOp ++ [pushOpG redeem]) { m := { stack := [], weightLeft := 0 } } = .ok st3 := by
    show run cx (items.map pushOp ++ [pushOpG redeem]) st0 = .ok st3
    simp only [run, Except.bind, run_append, e2, e3]
  have hlen := flatMap_push_le items (fun d hd => (hs d hd).2)
  have hlr := pushData_length_le redeem (by omega)
  have hsz : ¬ ((items.flatMap pushData ++ pushData redeem).length > MAX_SCRIPT_SIZE) := by
    simp only [List.length_append, MAX_SCRIPT_SIZE]; omega
  have es : (evalCtx env .BASE (items.flatMap pushData ++ pushData redeem)).script =
      items.flatMap pushData ++ pushData redeem := rfl
  refine ⟨?_, ?_⟩
  · unfold evalWith
    simp only [es, hp, hsz, decide_false, Bool.and_false, hrun]
    have hv : st3.vfExec = [] := by rw [s3.vfExec, s2.vfExec]
    have hst : st3.m.stack = redeem :: items.reverse := by rw [s3.stack, s2.stack]; simp [st0]
    simp [hv, hst]
  · simp only [isPushOnly, hp]
    have hall : (items.map pushOp).all (fun op => decide (op.code ≤ 0x60)) = true := by
      rw [List.all_eq_true]
      intro op hop
      obtain ⟨d, hd, rfl⟩ := List.mem_map.mp hop
      have h75 := (hs d hd).2
      have h96 : d.length ≤ 96 := Nat.le_trans h75 (by decide)
      simp only [pushOp]
      exact decide_eq_true h96
    have hc := pushOpG_code_le redeem
    have hc' : (pushOpG redeem).code ≤ 96 := by omega
    simp [hall, hc']

/-- legacy p2sh around ANY redeem script (2..520 bytes, not a witness program) whose evaluation on the pushed items
    leaves exactly `true`; ANY flag set with P2SH -/
theorem verify_p2sh_of (env : VerifyEnv) (hr redeem : Bytes) (items : List Bytes) (hrl : hr.length = 20)
    (hP : has env.flags FLAG_P2SH = true)
    (hhr : env.hashes.ripemd160 (env.hashes.sha256 redeem) = hr)
    (hs : ∀ s ∈ items, 2 ≤ s.length ∧ s.length ≤ 75) (hk : items.length ≤ 16)
    (hr2 : 2 ≤ redeem.length) (hr520 : redeem.length ≤ 520)
    (hwn2 : isWitnessProgram redeem = none)
    (hev : evalWith (evalCtx env .BASE redeem) items.reverse 0 = .ok [[1]]) :
    verifyScript env (items.flatMap pushData ++ pushData redeem) (shSpk hr) [] = .ok () := by
  obtain ⟨e0, hpo⟩ := evalWith_itemsRedeem env items redeem hs hk hr2 hr520
  have e1 := evalWith_shSpk_rest env hr redeem items.reverse hrl (by simp; omega) hhr
  have hwn : isWitnessProgram (shSpk hr) = none := by simp [isWitnessProgram, shSpk, getB, hrl]
  have hsh : isPayToScriptHash (shSpk hr) = true := by
    have : (hr ++ [0x87])[20]? = some 0x87 := by
      rw [List.getElem?_append_right (by omega)]; simp [hrl]
    simp [isPayToScriptHash, shSpk, hrl, getB, List.getD, this]
  have hT : castToBool [1] = true := by decide
  unfold verifyScript
  cases hW : has env.flags FLAG_WITNESS <;>
  simp [e0, e1, hev, hwn, hwn2, hsh, hpo, hP, requireTrueTop, hT, Except.bind, bind, pure, Except.pure]

/-! ### `<pk> CHECKSIG` and p2pkh as witness scripts -/

theorem evalWith_pk_v0 (env : VerifyEnv) (sig pk : Bytes)
    (henc : checkSignatureEncoding env.flags sig = .ok ())
    (hpk : isCompressedPubKey pk = true)
    (hsig : env.checker.checkECDSA sig pk (pkScript pk) .WITNESS_V0 = .ok true) :
    evalWith (evalCtx env .WITNESS_V0 (pkScript pk)) [sig] 0 = .ok [[1]] := by
  have hl : pk.length = 33 := by
    simp only [isCompressedPubKey, Bool.and_eq_true, beq_iff_eq] at hpk; exact hpk.1
  have hmin : checkMinimalPush pk 33 = true := by
    have := checkMinimalPush_len pk (by omega) (by omega); rwa [hl] at this
  have hpke := checkPubKeyEncoding_compressed env.flags .WITNESS_V0 pk hpk
  have ht : (pk ++ [0xac]).take 33 = pk := List.take_left' hl
  have hd : (pk ++ [0xac]).drop 33 = [0xac] := List.drop_left' hl
  have hp : parse (pkScript pk) = ([⟨0x21, pk, 0x21 :: pk⟩, ⟨0xac, [], [0xac]⟩], []) := by
    simp [parse, pkScript, parseOps, getOp, hl, ht, hd]
  have hsig' : env.checker.checkECDSA sig pk (33 :: (pk ++ [172])) .WITNESS_V0 = .ok true := hsig
  unfold evalWith
  simp only [evalCtx, hp]
  simp [pkScript, run, step, stepChecks, stepExec, stepFinish, execPlain, execStackOp, evalChecksig,
    evalChecksigPreTapscript, isDisabled, DISABLED, inConditionalRange, hl, hmin, henc, hpke, hsig',
    MAX_SCRIPT_ELEMENT_SIZE, MAX_OPS_PER_SCRIPT, MAX_SCRIPT_SIZE, MAX_STACK_SIZE, OP_IF, OP_ENDIF, OP_CODESEPARATOR,
    OP_CHECKSIG, OP_CHECKSIGVERIFY, ofBool, vchTrue, Except.bind, Except.map, bind, pure, Except.pure]

theorem execute_pk_v0 (env : VerifyEnv) (sig pk : Bytes)
    (henc : checkSignatureEncoding env.flags sig = .ok ()) (hslen : sig.length ≤ 520)
    (hpk : isCompressedPubKey pk = true)
    (hsig : env.checker.checkECDSA sig pk (pkScript pk) .WITNESS_V0 = .ok true) :
    executeWitnessScript env [sig] (pkScript pk) .WITNESS_V0 0 = .ok () := by
  have e := evalWith_pk_v0 env sig pk henc hpk hsig
  have hs' : ¬ (520 < sig.length) := by omega
  have hT : castToBool [1] = true := by decide
  unfold executeWitnessScript
  simp [MAX_SCRIPT_ELEMENT_SIZE, hs', e, hT, Except.bind, bind, pure, Except.pure]

theorem execute_pkh_v0 (env : VerifyEnv) (h sig pk : Bytes) (hl : h.length = 20)
    (hh : env.hashes.ripemd160 (env.hashes.sha256 pk) = h)
    (henc : checkSignatureEncoding env.flags sig = .ok ()) (hslen : sig.length ≤ 520)
    (hpk : isCompressedPubKey pk = true)
    (hsig : env.checker.checkECDSA sig pk (pkhScript h) .WITNESS_V0 = .ok true) :
    executeWitnessScript env [pk, sig] (pkhScript h) .WITNESS_V0 0 = .ok () := by
  have e := evalWith_pkh_v0 env h sig pk hl hh henc hpk hsig
  have hpkl : pk.length = 33 := by
    simp only [isCompressedPubKey, Bool.and_eq_true, beq_iff_eq] at hpk; exact hpk.1
  have hs' : ¬ (520 < sig.length) := by omega
  have hT : castToBool [1] = true := by decide
  unfold executeWitnessScript
  simp [MAX_SCRIPT_ELEMENT_SIZE, hs', hpkl, e, hT, Except.bind, bind, pure, Except.pure]

/-! ### the six shapes -/

variable (env : VerifyEnv)

/-- wsh(pk): witness `[sig, <pk> CHECKSIG]` -/
theorem verify_wsh_pk (h sig pk : Bytes) (hl : h.length = 32)
    (hW : has env.flags FLAG_WITNESS = true) (hnz : castToBool h = true)
    (hh : env.hashes.sha256 (pkScript pk) = h)
    (henc : checkSignatureEncoding env.flags sig = .ok ()) (hslen : sig.length ≤ 520)
    (hpk : isCompressedPubKey pk = true)
    (hsig : env.checker.checkECDSA sig pk (pkScript pk) .WITNESS_V0 = .ok true) :
    verifyScript env [] (wshSpk h) [sig, pkScript pk] = .ok () :=
  verify_p2wsh_of env h (pkScript pk) [sig] hl hW hnz hh (execute_pk_v0 env sig pk henc hslen hpk hsig)

/-- sh(wsh(pk)) -/
theorem verify_sh_wsh_pk (h hr sig pk : Bytes) (hl : h.length = 32) (hrl : hr.length = 20)
    (hP : has env.flags FLAG_P2SH = true) (hW : has env.flags FLAG_WITNESS = true) (hnz : castToBool h = true)
    (hhr : env.hashes.ripemd160 (env.hashes.sha256 (wshSpk h)) = hr)
    (hh : env.hashes.sha256 (pkScript pk) = h)
    (henc : checkSignatureEncoding env.flags sig = .ok ()) (hslen : sig.length ≤ 520)
    (hpk : isCompressedPubKey pk = true)
    (hsig : env.checker.checkECDSA sig pk (pkScript pk) .WITNESS_V0 = .ok true) :
    verifyScript env (pushData (wshSpk h)) (shSpk hr) [sig, pkScript pk] = .ok () :=
  verify_p2sh_p2wsh_of env h hr (pkScript pk) [sig] hl hrl hP hW hnz hhr hh
    (execute_pk_v0 env sig pk henc hslen hpk hsig)

/-- wsh(pkh): witness `[sig, pk, p2pkh script]` -/
theorem verify_wsh_pkh (h h20 sig pk : Bytes) (hl : h.length = 32) (hl20 : h20.length = 20)
    (hW : has env.flags FLAG_WITNESS = true) (hnz : castToBool h = true)
    (hh : env.hashes.sha256 (pkhScript h20) = h)
    (hh20 : env.hashes.ripemd160 (env.hashes.sha256 pk) = h20)
    (henc : checkSignatureEncoding env.flags sig = .ok ()) (hslen : sig.length ≤ 520)
    (hpk : isCompressedPubKey pk = true)
    (hsig : env.checker.checkECDSA sig pk (pkhScript h20) .WITNESS_V0 = .ok true) :
    verifyScript env [] (wshSpk h) [sig, pk, pkhScript h20] = .ok () :=
  verify_p2wsh_of env h (pkhScript h20) [sig, pk] hl hW hnz hh
    (execute_pkh_v0 env h20 sig pk hl20 hh20 henc hslen hpk hsig)

/-- sh(wsh(pkh)) -/
theorem verify_sh_wsh_pkh (h hr h20 sig pk : Bytes) (hl : h.length = 32) (hrl : hr.length = 20)
    (hl20 : h20.length = 20)
    (hP : has env.flags FLAG_P2SH = true) (hW : has env.flags FLAG_WITNESS = true) (hnz : castToBool h = true)
    (hhr : env.hashes.ripemd160 (env.hashes.sha256 (wshSpk h)) = hr)
    (hh : env.hashes.sha256 (pkhScript h20) = h)
    (hh20 : env.hashes.ripemd160 (env.hashes.sha256 pk) = h20)
    (henc : checkSignatureEncoding env.flags sig = .ok ()) (hslen : sig.length ≤ 520)
    (hpk : isCompressedPubKey pk = true)
    (hsig : env.checker.checkECDSA sig pk (pkhScript h20) .WITNESS_V0 = .ok true) :
    verifyScript env (pushData (wshSpk h)) (shSpk hr) [sig, pk, pkhScript h20] = .ok () :=
  verify_p2sh_p2wsh_of env h hr (pkhScript h20) [sig, pk] hl hrl hP hW hnz hhr hh
    (execute_pkh_v0 env h20 sig pk hl20 hh20 henc hslen hpk hsig)

/-- sh(pk): scriptSig `<sig> <redeem = <pk> CHECKSIG>` -/
theorem verify_sh_pk (hr sig pk : Bytes) (hrl : hr.length = 20)
    (hP : has env.flags FLAG_P2SH = true)
    (hhr : env.hashes.ripemd160 (env.hashes.sha256 (pkScript pk)) = hr)
    (henc : checkSignatureEncoding env.flags sig = .ok ()) (hs2 : 2 ≤ sig.length) (hs : sig.length < 76)
    (hpk : isCompressedPubKey pk = true) (hne : sig ≠ pk)
    (hsig : env.checker.checkECDSA sig pk (pkScript pk) .BASE = .ok true) :
    verifyScript env (pushData sig ++ pushData (pkScript pk)) (shSpk hr) [] = .ok () := by
  have hl : pk.length = 33 := by
    simp only [isCompressedPubKey, Bool.and_eq_true, beq_iff_eq] at hpk; exact hpk.1
  have e1 := evalWith_pk_base env sig pk henc hpk (findAndDelete_pk pk sig hl hs hne) hsig
  have hwn : isWitnessProgram (pkScript pk) = none := by simp [isWitnessProgram, pkScript, getB, hl]
  have hlen : (pkScript pk).length = 35 := by simp [pkScript, hl]
  have := verify_p2sh_of env hr (pkScript pk) [sig] hrl hP hhr (by simpa using ⟨hs2, by omega⟩) (by simp)
    (by omega) (by omega) hwn (by simpa using e1)
  simpa using this

/-- sh(pkh): scriptSig `<sig> <pk> <redeem = p2pkh script>` -/
theorem verify_sh_pkh (hr h20 sig pk : Bytes) (hrl : hr.length = 20) (hl20 : h20.length = 20)
    (hP : has env.flags FLAG_P2SH = true)
    (hhr : env.hashes.ripemd160 (env.hashes.sha256 (pkhScript h20)) = hr)
    (hh20 : env.hashes.ripemd160 (env.hashes.sha256 pk) = h20)
    (henc : checkSignatureEncoding env.flags sig = .ok ()) (hs2 : 2 ≤ sig.length) (hs : sig.length < 76)
    (hpk : isCompressedPubKey pk = true) (hne : sig ≠ h20)
    (hsig : env.checker.checkECDSA sig pk (pkhScript h20) .BASE = .ok true) :
    verifyScript env (pushData sig ++ (pushData pk ++ pushData (pkhScript h20))) (shSpk hr) [] = .ok () := by
  have hl : pk.length = 33 := by
    simp only [isCompressedPubKey, Bool.and_eq_true, beq_iff_eq] at hpk; exact hpk.1
  have e1 := evalWith_pkh_base env h20 sig pk hl20 hh20 henc hpk (findAndDelete_pkh h20 sig hl20 hs hne) hsig
  have hwn : isWitnessProgram (pkhScript h20) = none := by simp [isWitnessProgram, pkhScript, getB, hl20]
  have hlen : (pkhScript h20).length = 25 := by simp [pkhScript, hl20]
  have hit : ∀ s ∈ [sig, pk], 2 ≤ s.length ∧ s.length ≤ 75 := by
    intro s hs'
    simp only [List.mem_cons, List.mem_nil_iff, or_false] at hs'
    rcases hs' with rfl | rfl
    · exact ⟨hs2, by omega⟩
    · omega
  have := verify_p2sh_of env hr (pkhScript h20) [sig, pk] hrl hP hhr hit (by simp)
    (by omega) (by omega) hwn (by simpa using e1)
  simpa using this

end Btc.Spend.Eval
