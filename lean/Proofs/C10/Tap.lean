import Proofs.C10.Pk
/-
C10 — T1 for taproot: key path, and script path with a `<x> CHECKSIG` leaf, by symbolic evaluation of
`Core.verifyScript`.
-/
namespace Btc.Spend.Eval

open Btc Btc.Script Btc.Script.Core

def trSpk (x : Bytes) : Bytes := 0x51 :: 0x20 :: x

theorem p2tr_eq (x : Bytes) : Spend.p2tr x = trSpk x := rfl

/-- evaluating the v1 witness program pushes `1` and the program -/
theorem evalWith_trSpk (env : VerifyEnv) (x : Bytes) (hl : x.length = 32) :
    evalWith (evalCtx env .BASE (trSpk x)) [] 0 = .ok [x, [1]] := by
  have hmin : checkMinimalPush x 32 = true := by
    have := checkMinimalPush_len x (by omega) (by omega); rwa [hl] at this
  have ht : x.take 32 = x := List.take_of_length_le (by omega)
  have hd : x.drop 32 = [] := List.drop_of_length_le (by omega)
  have hp : parse (trSpk x) = ([⟨0x51, [], [0x51]⟩, ⟨0x20, x, 0x20 :: x⟩], []) := by
    simp [parse, trSpk, parseOps, getOp, hl, ht, hd]
  have hnb : numBytes 1 = [1] := by decide
  unfold evalWith
  simp only [evalCtx, hp]
  simp [trSpk, run, step, stepChecks, stepExec, stepFinish, execPlain, execStackOp, isDisabled, DISABLED,
    inConditionalRange, hl, hmin, hnb, MAX_SCRIPT_ELEMENT_SIZE, MAX_OPS_PER_SCRIPT, MAX_SCRIPT_SIZE, MAX_STACK_SIZE,
    OP_IF, OP_ENDIF, OP_CODESEPARATOR, Except.bind, Except.map]

theorem isWitnessProgram_tr (x : Bytes) (hl : x.length = 32) : isWitnessProgram (trSpk x) = some (1, x) := by
  simp [isWitnessProgram, trSpk, getB, hl]

/-- T1 (taproot key path), script level: ANY flag set that has WITNESS (with TAPROOT the Schnorr oracle is asked; without
    it a v1 program is anyone-can-spend); empty scriptSig, witness `[sig]`; `x` must not be a "false" byte string. -/
theorem verify_tr_key (env : VerifyEnv) (x sig : Bytes) (hl : x.length = 32)
    (hW : has env.flags FLAG_WITNESS = true) (hnz : castToBool x = true)
    (hsig : env.checker.checkSchnorr sig x .TAPROOT 0xFFFFFFFF = none) :
    verifyScript env [] (trSpk x) [sig] = .ok () := by
  have e0 := evalWith_empty env []
  have e1 := evalWith_trSpk env x hl
  have hwp := isWitnessProgram_tr x hl
  have hsh : isPayToScriptHash (trSpk x) = false := by simp [isPayToScriptHash, trSpk, hl]
  have hpo : isPushOnly [] = true := by simp [isPushOnly, parse, parseOps]
  unfold verifyScript
  cases hT : has env.flags FLAG_TAPROOT <;>
  simp [e0, e1, hwp, hsh, hpo, hW, hT, requireTrueTop, hnz, verifyWitnessProgram, stripAnnex, hl, hsig,
    Except.bind, bind, pure, Except.pure]

/-- the single-key tapscript leaf `<x> CHECKSIG` -/
def leafScript (x : Bytes) : Bytes := 0x20 :: (x ++ [0xac])

theorem pkLeaf_eq (x : Bytes) : Spend.pkLeaf x = leafScript x := rfl

/-- `ExecuteWitnessScript` of the single-key leaf on `[sig]` under BIP342 rules -/
theorem execute_leaf (env : VerifyEnv) (x sig : Bytes) (weight : Int) (hl : x.length = 32)
    (hne : sig.isEmpty = false) (hslen : sig.length ≤ 520) (hw : 50 ≤ weight)
    (hsig : env.checker.checkSchnorr sig x .TAPSCRIPT 0xFFFFFFFF = none) :
    executeWitnessScript env [sig] (leafScript x) .TAPSCRIPT weight = .ok () := by
  have hmin : checkMinimalPush x 32 = true := by
    have := checkMinimalPush_len x (by omega) (by omega); rwa [hl] at this
  have ht : (x ++ [0xac]).take 32 = x := List.take_left' hl
  have hd : (x ++ [0xac]).drop 32 = [0xac] := List.drop_left' hl
  have hp : parse (leafScript x) = ([⟨0x20, x, 0x20 :: x⟩, ⟨0xac, [], [0xac]⟩], []) := by
    simp [parse, leafScript, parseOps, getOp, hl, ht, hd]
  have hs' : ¬ (520 < sig.length) := by omega
  have hw' : ¬ (weight - 50 < 0) := by omega
  have hos : isOpSuccess 32 = false ∧ isOpSuccess 172 = false := by decide
  have hT : castToBool [1] = true := by decide
  unfold executeWitnessScript evalWith
  simp only [evalCtx, hp]
  simp [leafScript, run, step, stepChecks, stepExec, stepFinish, execPlain, execStackOp, evalChecksig,
    evalChecksigTapscript, isDisabled, DISABLED, inConditionalRange, hl, hmin, hsig, hne, hs', hw', hos, hT,
    VALIDATION_WEIGHT_PER_SIGOP_PASSED,
    MAX_SCRIPT_ELEMENT_SIZE, MAX_OPS_PER_SCRIPT, MAX_SCRIPT_SIZE, MAX_STACK_SIZE, OP_IF, OP_ENDIF, OP_CODESEPARATOR,
    OP_CHECKSIG, OP_CHECKSIGVERIFY, ofBool, vchTrue, Except.bind, Except.map, bind, pure, Except.pure]

/-- T1 (taproot script path, single-key leaf), script level: ANY flag set with WITNESS; witness `[sig, leaf, control]`
    with a control block of leaf version 0xc0 and a well-formed length, given that the commitment check accepts the
    control block for this leaf (C12) and the Schnorr oracle accepts the signature for the leaf key under BIP342. -/
theorem verify_tr_leaf (env : VerifyEnv) (q x sig control : Bytes) (m : Nat) (hq : q.length = 32) (hl : x.length = 32)
    (hW : has env.flags FLAG_WITNESS = true) (hnz : castToBool q = true)
    (hcl : control.length = 33 + 32 * m) (hm : m ≤ 128) (hv : getB control 0 / 2 * 2 = 0xc0)
    (hne : sig.isEmpty = false) (hslen : sig.length ≤ 520)
    (hcom : env.commitment control q (env.taggedHash "TapLeaf".toUTF8.toList
      (UInt8.ofNat 0xc0 :: (compactSize (leafScript x).length ++ leafScript x))) = .ok true)
    (hsig : env.checker.checkSchnorr sig x .TAPSCRIPT 0xFFFFFFFF = none) :
    verifyScript env [] (trSpk q) [sig, leafScript x, control] = .ok () := by
  have e0 := evalWith_empty env []
  have e1 := evalWith_trSpk env q hq
  have hwp := isWitnessProgram_tr q hq
  have hsh : isPayToScriptHash (trSpk q) = false := by simp [isPayToScriptHash, trSpk, hq]
  have hpo : isPushOnly [] = true := by simp [isPushOnly, parse, parseOps]
  have h50 : ¬ (getB control 0 = 0x50) := by omega
  have hc1 : ¬ (control.length < 33) := by omega
  have hc2 : ¬ (control.length > 33 + 32 * 128) := by omega
  have hc3 : (control.length - 33) % 32 = 0 := by rw [hcl]; omega
  have hex := fun w hw => execute_leaf env x sig w hl hne hslen hw hsig
  unfold verifyScript
  cases hT : has env.flags FLAG_TAPROOT
  · simp [e0, e1, hwp, hsh, hpo, hW, hT, requireTrueTop, hnz, verifyWitnessProgram, stripAnnex, hq,
      Except.bind, bind, pure, Except.pure]
  · have hexw := hex ((witnessSerializeSize [control, leafScript x, sig] : Int) + (VALIDATION_WEIGHT_OFFSET : Int))
      (by simp [VALIDATION_WEIGHT_OFFSET]; omega)
    have hcom' : env.commitment control q (env.taggedHash "TapLeaf".toByteArray.toList
      (192 :: (compactSize (leafScript x).length ++ leafScript x))) = .ok true := hcom
    simp [hcom', e0, e1, hwp, hsh, hpo, hW, hT, requireTrueTop, hnz, verifyWitnessProgram, stripAnnex, hq, h50, hc1, hc2, hc3, hv, hcom,
      hexw, Except.bind, bind, pure, Except.pure]

end Btc.Spend.Eval
