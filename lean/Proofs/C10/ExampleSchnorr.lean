import Proofs.C10.Example
/- C10 — kernel-checked facts about the concrete spends of `Proofs/C10/Example.lean`: the BIP340 signature over the BIP341 key-path message -/
namespace Btc.Spend.Ex
open Btc Btc.Spend Btc.Sighash Btc.Script Btc.Script.Core
set_option maxRecDepth 1000000

theorem hsignT : Schnorr.sign (EC.ops EC.secp256k1) bip340Params 4
    (engineTapDigest secpCrypto cxT .TAPROOT 0 0xFFFFFFFF) q (List.replicate 32 0) = .ok sgT := by decide +kernel

end Btc.Spend.Ex
