import Proofs.C10.ShMulti
/-
C10 — the finalizer on k-of-n multisig inputs, for ALL key lists: `p2ms_m_and_keys` reads `multisig m keys` back
(induction over the key pushes), hence `_pushed_sigs` orders the signatures by key and `_finalized_input` writes the four
layouts (bare, p2sh, p2wsh, p2sh-p2wsh).
-/
namespace Btc.Spend.Eval

open Btc Btc.Script Btc.Script.Core Btc.Spend

theorem readKeys_pushes : ∀ (keys : List Bytes) (tail : Bytes), (∀ x ∈ keys, x.length = 33) →
    readKeys keys.length (keys.flatMap pushData ++ tail) = some (keys, tail)
  | [], tail, _ => by simp [readKeys]
  | x :: xs, tail, h => by
    have hx := h x (by simp)
    have ih := readKeys_pushes xs tail (fun y hy => h y (by simp [hy]))
    have hn : (UInt8.ofNat 33).toNat = 33 := by decide
    have ht : (x ++ (xs.flatMap pushData ++ tail)).take 33 = x := List.take_left' hx
    have hd : (x ++ (xs.flatMap pushData ++ tail)).drop 33 = xs.flatMap pushData ++ tail := List.drop_left' hx
    have hlt : ¬ ((x ++ (xs.flatMap pushData ++ tail)).length < 33) := by simp [hx]
    rw [List.flatMap_cons, pushData_short x (by omega), hx]
    simp only [List.length_cons, List.cons_append, List.append_assoc, readKeys, hn]
    rw [if_neg (by omega), if_neg hlt, ht, hd, ih]
    rfl

/-- `p2ms_m_and_keys` reads the template back: `m`, and the keys in script order -/
theorem p2ms_multisig (vk : Bytes → Bool) (m : Nat) (keys : List Bytes)
    (hm : 1 ≤ m ∧ m ≤ keys.length) (hn : keys.length ≤ 16) (hkeys : ∀ x ∈ keys, x.length = 33)
    (hvk : ∀ x ∈ keys, vk x = true) :
    p2msMAndKeys vk (multisig m keys) = some (m, keys) := by
  have hlen := msScript_length m keys hkeys
  rw [multisig_eq]
  have hfl := flatMap_push_length keys hkeys
  have c1 := toNat_opN m (by omega)
  have c2 := toNat_opN keys.length hn
  have g0 : getB (msScript m keys) 0 = 0x50 + m := by
    show ((UInt8.ofNat (0x50 + m) :: _ : Bytes).getD 0 0).toNat = _
    rw [List.getD_cons_zero]; exact c1
  have glast : getB (msScript m keys) ((msScript m keys).length - 1) = 0xae := by
    have : (msScript m keys)[34 * keys.length + 2]? = some 0xae := by
      unfold msScript
      rw [List.getElem?_cons_succ, List.getElem?_append_right (by omega)]; simp [hfl]
    rw [hlen]
    simp only [getB, List.getD_eq_getElem?_getD, show 34 * keys.length + 3 - 1 = 34 * keys.length + 2 by omega, this]
    rfl
  have gn : getB (msScript m keys) ((msScript m keys).length - 2) = 0x50 + keys.length := by
    have : (msScript m keys)[34 * keys.length + 1]? = some (UInt8.ofNat (0x50 + keys.length)) := by
      unfold msScript
      rw [List.getElem?_cons_succ, List.getElem?_append_right (by omega)]; simp [hfl]
    rw [hlen]
    simp only [getB, List.getD_eq_getElem?_getD, show 34 * keys.length + 3 - 2 = 34 * keys.length + 1 by omega, this]
    exact c2
  have hmid : ((msScript m keys).drop 1).take ((msScript m keys).length - 3) = keys.flatMap pushData := by
    rw [hlen]
    simp only [msScript, List.drop_succ_cons, List.drop_zero]
    exact List.take_left' (by rw [hfl]; omega)
  have hrk := readKeys_pushes keys [] hkeys
  rw [List.append_nil] at hrk
  have hall : keys.all vk = true := List.all_eq_true.mpr hvk
  unfold p2msMAndKeys
  have h37 : ¬ ((msScript m keys).length < 37) := by rw [hlen]; omega
  simp only [h37, if_false, glast, g0, gn, hmid, Gen.Spend.MS_LAST, Gen.Spend.MS_OP_BASE]
  have i1 : (80 : Int) + (m : Int) - 80 = (m : Int) := by omega
  have i2 : (80 : Int) + (keys.length : Int) - 80 = (keys.length : Int) := by omega
  have j1 : (80 : Int) < 80 + (m : Int) := by omega
  have a1 : (m : Int) < 17 := by omega
  have a2 : (m : Int) ≤ (keys.length : Int) ∧ (keys.length : Int) < 17 := by omega
  simp [i1, i2, a1, a2, hrk, hall]
  omega

/-- the signatures `_pushed_sigs` selects: by key, in script order, the first `m` -/
def selectSigs (m : Nat) (keys : List Bytes) (ps : List (Bytes × Bytes)) : List Bytes :=
  (keys.filterMap fun k => ps.lookup k).take m

theorem multisig_not_p2sh (m : Nat) (keys : List Bytes) (hkeys : ∀ x ∈ keys, x.length = 33) :
    isP2sh (multisig m keys) = false ∧ isP2wpkh (multisig m keys) = false ∧ isP2pkh (multisig m keys) = false ∧
    (multisig m keys).isEmpty = false := by
  have hlen := msScript_length m keys hkeys
  rw [multisig_eq]
  have h1 : ((msScript m keys).length == 23) = false := by rw [hlen]; simp; omega
  have h2 : ((msScript m keys).length == 22) = false := by rw [hlen]; simp; omega
  have h3 : ((msScript m keys).length == 25) = false := by rw [hlen]; simp; omega
  refine ⟨by simp [isP2sh, h1], by simp [isP2wpkh, h2], by simp [isP2pkh, h3], by simp [msScript]⟩

variable (vk : Bytes → Bool) (m : Nat) (keys : List Bytes) (ps : List (Bytes × Bytes))

/-- finalizer, bare multisig: scriptSig `OP_0 <sigs by key order>`, no witness -/
theorem finalize_multisig_bare
    (hm : 1 ≤ m ∧ m ≤ keys.length) (hn : keys.length ≤ 16) (hkeys : ∀ x ∈ keys, x.length = 33)
    (hvk : ∀ x ∈ keys, vk x = true) (hen : m ≤ (keys.filterMap fun k => ps.lookup k).length) :
    finalizedInput vk ⟨some (multisig m keys), [], [], ps⟩ =
      .ok (serializePushes ([] :: selectSigs m keys ps), []) := by
  obtain ⟨n1, n2, n3, n4⟩ := multisig_not_p2sh m keys hkeys
  have hp := p2ms_multisig vk m keys hm hn hkeys hvk
  have hlt : ¬ ((keys.filterMap fun k => ps.lookup k).length < m) := by omega
  simp [finalizedInput, pushedSigs, satisfiedScript, spentScript, bip147Dummy, isP2ms, n1, n2, n3, n4, hp, hlt,
    selectSigs, bind, Except.bind, pure, Except.pure]

/-- finalizer, p2sh multisig: scriptSig `OP_0 <sigs> <redeem script>`, no witness -/
theorem finalize_multisig_p2sh (hr : Bytes) (hrl : hr.length = 20)
    (hm : 1 ≤ m ∧ m ≤ keys.length) (hn : keys.length ≤ 16) (hkeys : ∀ x ∈ keys, x.length = 33)
    (hvk : ∀ x ∈ keys, vk x = true) (hen : m ≤ (keys.filterMap fun k => ps.lookup k).length) :
    finalizedInput vk ⟨some (p2sh hr), multisig m keys, [], ps⟩ =
      .ok (serializePushes (([] :: selectSigs m keys ps) ++ [multisig m keys]), []) := by
  obtain ⟨n1, n2, n3, n4⟩ := multisig_not_p2sh m keys hkeys
  have hp := p2ms_multisig vk m keys hm hn hkeys hvk
  have hlt : ¬ ((keys.filterMap fun k => ps.lookup k).length < m) := by omega
  have h87 : (hr ++ [135])[20]? = some 135 := by
    rw [List.getElem?_append_right (by omega)]; simp [hrl]
  have hs : isP2sh (p2sh hr) = true := by
    simp [isP2sh, p2sh, Gen.Spend.P2SH_PREFIX, Gen.Spend.P2SH_SUFFIX, getB, List.getD, h87, hrl]
  simp [finalizedInput, pushedSigs, satisfiedScript, spentScript, bip147Dummy, isP2ms, hs, n2, n3, n4, hp, hlt,
    selectSigs, bind, Except.bind, pure, Except.pure]

/-- finalizer, p2wsh multisig: empty scriptSig, witness `[dummy, sigs…, witness script]` -/
theorem finalize_multisig_p2wsh (h : Bytes)
    (hm : 1 ≤ m ∧ m ≤ keys.length) (hn : keys.length ≤ 16) (hkeys : ∀ x ∈ keys, x.length = 33)
    (hvk : ∀ x ∈ keys, vk x = true) (hen : m ≤ (keys.filterMap fun k => ps.lookup k).length) :
    finalizedInput vk ⟨some (p2wsh h), [], multisig m keys, ps⟩ =
      .ok ([], ([] :: selectSigs m keys ps) ++ [multisig m keys]) := by
  obtain ⟨n1, n2, n3, n4⟩ := multisig_not_p2sh m keys hkeys
  have hp := p2ms_multisig vk m keys hm hn hkeys hvk
  have hlt : ¬ ((keys.filterMap fun k => ps.lookup k).length < m) := by omega
  simp [finalizedInput, pushedSigs, satisfiedScript, bip147Dummy, isP2ms, n3, n4, hp, hlt,
    selectSigs, serializePushes, bind, Except.bind, pure, Except.pure]

/-- finalizer, p2sh-p2wsh multisig: scriptSig = push of `0 <h>`, witness `[dummy, sigs…, witness script]` -/
theorem finalize_multisig_p2sh_p2wsh (h hr : Bytes)
    (hm : 1 ≤ m ∧ m ≤ keys.length) (hn : keys.length ≤ 16) (hkeys : ∀ x ∈ keys, x.length = 33)
    (hvk : ∀ x ∈ keys, vk x = true) (hen : m ≤ (keys.filterMap fun k => ps.lookup k).length) :
    finalizedInput vk ⟨some (p2sh hr), p2wsh h, multisig m keys, ps⟩ =
      .ok (serializePushes [p2wsh h], ([] :: selectSigs m keys ps) ++ [multisig m keys]) := by
  obtain ⟨n1, n2, n3, n4⟩ := multisig_not_p2sh m keys hkeys
  have hp := p2ms_multisig vk m keys hm hn hkeys hvk
  have hlt : ¬ ((keys.filterMap fun k => ps.lookup k).length < m) := by omega
  have hne : (p2wsh h).isEmpty = false := by simp [p2wsh, Gen.Spend.P2WSH_PREFIX]
  simp [finalizedInput, pushedSigs, satisfiedScript, bip147Dummy, isP2ms, n3, n4, hp, hlt, hne,
    selectSigs, bind, Except.bind, pure, Except.pure]

end Btc.Spend.Eval
