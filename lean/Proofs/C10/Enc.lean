import Model.C10.Engine
import Proofs.C02.Der
import Proofs.C10.Checker
/-
C10 — what `Sig.serialize` writes for a low-s 256-bit signature, followed by a defined hash-type byte, passes Core's
`CheckSignatureEncoding` under EVERY flag set (BIP66 `IsValidSignatureEncoding`, `CheckLowS` against the order of
secp256k1, `IsDefinedHashtypeSignature`), and is 9..73 bytes long starting with 0x30.  From C02's `serialize_bip66`
(the DER short form of the translated writers) and `sbytes_props` (the strict guards hold of the value octets).
-/
namespace Btc.Spend

open Btc Btc.Script
open Btc.Script.Core (getB isValidSignatureEncoding checkLowS isDefinedHashtype checkSignatureEncoding curveN)

theorem getB_cons_succ (a : UInt8) (l : Bytes) (i : Nat) : getB (a :: l) (i + 1) = getB l i := by
  simp [getB, List.getD]

theorem getB_cons_zero (a : UInt8) (l : Bytes) : getB (a :: l) 0 = a.toNat := by
  simp [getB, List.getD]

theorem getB_append_right (l t : Bytes) (i : Nat) : getB (l ++ t) (l.length + i) = getB t i := by
  simp [getB, List.getD, List.getElem?_append_right]

theorem getB_append_left (l t : Bytes) (i : Nat) (h : i < l.length) : getB (l ++ t) i = getB l i := by
  simp [getB, List.getD, List.getElem?_append_left h]

/-- the value octets of a DER INTEGER as `IsValidSignatureEncoding` looks at them -/
theorem strictOk_getB (sb t : Bytes) (hne : sb ≠ []) (hs : Der.strictOk sb = true) :
    getB (sb ++ t) 0 < 0x80 ∧ ¬ (sb.length > 1 ∧ getB (sb ++ t) 0 = 0 ∧ getB (sb ++ t) 1 < 0x80) := by
  match sb, hne with
  | [a], _ =>
    simp only [Der.strictOk, decide_eq_true_eq] at hs
    refine ⟨?_, by simp⟩
    simp only [List.cons_append, getB_cons_zero]
    exact UInt8.lt_iff_toNat_lt.mp hs
  | a :: b :: rest, _ =>
    simp only [Der.strictOk, Bool.and_eq_true, Bool.not_eq_true', Bool.and_eq_false_iff, beq_eq_false_iff_ne,
      decide_eq_false_iff_not, decide_eq_true_eq] at hs
    obtain ⟨h1, h2⟩ := hs
    have e1 : getB (a :: b :: rest ++ t) 1 = b.toNat := by simp [getB, List.getD]
    have e0 : getB (a :: b :: rest ++ t) 0 = a.toNat := by simp [getB, List.getD]
    rw [e0, e1]
    refine ⟨UInt8.lt_iff_toNat_lt.mp h2, ?_⟩
    rintro ⟨_, ha, hb⟩
    rcases h1 with h1 | h1
    · exact h1 (UInt8.toNat_inj.mp (by simpa using ha))
    · exact h1 (UInt8.lt_iff_toNat_lt.mpr hb)

/-- **what the library serializes passes Core's encoding checks under every flag set.** -/
theorem built_sig_encoding (flags : Nat) (r s ht : Nat) (der : Bytes) (hr : r < 2 ^ 256) (hs : s < 2 ^ 256)
    (hlow : s ≤ curveN / 2) (hht : ht < 256) (hd : 1 ≤ ht % 128 ∧ ht % 128 ≤ 3)
    (hder : Der.serialize (r : Int) (s : Int) = .ok der) :
    checkSignatureEncoding flags (der ++ [UInt8.ofNat ht]) = .ok () ∧ 8 ≤ der.length ∧ der.length ≤ 72 ∧
      getB der 0 = 0x30 := by
  obtain ⟨hshape, hr0, hr33, hs0, hs33, hL⟩ := Der.serialize_bip66 r s hr hs
  rw [hshape] at hder
  have hder' := (Except.ok.inj hder).symm
  obtain ⟨_, hRv, hRs⟩ := Der.sbytes_props r
  obtain ⟨_, hSv, hSs⟩ := Der.sbytes_props s
  generalize Der.sbytes r = R at *
  generalize Der.sbytes s = S at *
  have hRne : R ≠ [] := by intro h; rw [h] at hr0; simp at hr0
  have hSne : S ≠ [] := by intro h; rw [h] at hs0; simp at hs0
  set htb := UInt8.ofNat ht with hhtb
  -- the whole element, as one list
  have hsig : der ++ [htb] = 0x30 :: UInt8.ofNat (4 + R.length + S.length) :: 0x02 :: UInt8.ofNat R.length ::
      (R ++ (0x02 :: UInt8.ofNat S.length :: (S ++ [htb]))) := by
    rw [hder']; simp
  have hlen : (der ++ [htb]).length = R.length + S.length + 7 := by
    rw [hsig]; simp; omega
  have hdl : der.length = R.length + S.length + 6 := by
    have : (der ++ [htb]).length = der.length + 1 := by simp
    omega
  have g0 : getB (der ++ [htb]) 0 = 0x30 := by rw [hsig]; rfl
  have g1 : getB (der ++ [htb]) 1 = 4 + R.length + S.length := by
    rw [hsig, show (1 : Nat) = 0 + 1 from rfl, getB_cons_succ, getB_cons_zero]
    exact toNat_ofNat_lt _ (by omega)
  have g2 : getB (der ++ [htb]) 2 = 2 := by rw [hsig]; rfl
  have g3 : getB (der ++ [htb]) 3 = R.length := by
    rw [hsig, show (3 : Nat) = 0 + 1 + 1 + 1 from rfl, getB_cons_succ, getB_cons_succ, getB_cons_succ, getB_cons_zero]
    exact toNat_ofNat_lt _ (by omega)
  have gR : ∀ i, getB (der ++ [htb]) (4 + i) = getB (R ++ (0x02 :: UInt8.ofNat S.length :: (S ++ [htb]))) i := by
    intro i
    rw [hsig, show 4 + i = i + 1 + 1 + 1 + 1 by omega]; simp only [getB_cons_succ]
  have gT : ∀ i, getB (der ++ [htb]) (4 + R.length + i) = getB (0x02 :: UInt8.ofNat S.length :: (S ++ [htb])) i := by
    intro i
    rw [show 4 + R.length + i = 4 + (R.length + i) by omega, gR, getB_append_right]
  have g4 := strictOk_getB R (0x02 :: UInt8.ofNat S.length :: (S ++ [htb])) hRne hRs
  rw [← gR 0, ← gR 1] at g4
  have g5 : getB (der ++ [htb]) (5 + R.length) = S.length := by
    rw [show 5 + R.length = 4 + R.length + (0 + 1) by omega, gT, getB_cons_succ, getB_cons_zero]
    exact toNat_ofNat_lt _ (by omega)
  have g6 : getB (der ++ [htb]) (R.length + 4) = 2 := by
    rw [show R.length + 4 = 4 + R.length + 0 by omega, gT]; rfl
  have gS : ∀ i, getB (der ++ [htb]) (R.length + 6 + i) = getB (S ++ [htb]) i := by
    intro i
    rw [show R.length + 6 + i = 4 + R.length + (i + 1 + 1) by omega, gT]; simp only [getB_cons_succ]
  have g7 := strictOk_getB S [htb] hSne hSs
  rw [← gS 0, ← gS 1] at g7
  have hvalid : isValidSignatureEncoding (der ++ [htb]) = true := by
    unfold isValidSignatureEncoding
    simp only [hlen, g0, g1, g2, g3, g5, g6]
    rw [if_neg (by omega), if_neg (by omega), if_neg (by simp), if_neg (by omega), if_neg (by omega),
      if_neg (by omega), if_neg (by simp), if_neg (by omega), if_neg (by have := g4.1; simpa using this),
      if_neg (by simpa using g4.2), if_neg (by simp), if_neg (by omega),
      if_neg (by have := g7.1; simpa [Nat.add_comm] using this)]
    rw [if_neg]
    have := g7.2
    rw [show R.length + 6 + 1 = R.length + 7 by omega, show R.length + 6 + 0 = R.length + 6 by omega] at this
    exact this
  have hdrop6 : (der ++ [htb]).drop (6 + R.length) = S ++ [htb] := by
    have e : der ++ [htb] = (0x30 :: UInt8.ofNat (4 + R.length + S.length) :: 0x02 :: UInt8.ofNat R.length ::
        (R ++ [0x02, UInt8.ofNat S.length])) ++ (S ++ [htb]) := by rw [hsig]; simp
    rw [e]
    exact List.drop_left' (by simp; omega)
  have hlow' : checkLowS (der ++ [htb]) = true := by
    unfold checkLowS
    simp only [g3, g5, hdrop6, List.take_left', hSv]
    by_cases h : s ≥ curveN ∨ ofBE (List.take R.length (List.drop 4 (der ++ [htb]))) ≥ curveN
    · simp [h]
    · simp [h, hlow]
  have hdefd : isDefinedHashtype (der ++ [htb]) = true := by
    unfold isDefinedHashtype
    have hl : (lastByte (der ++ [htb])).toNat = ht := by
      rw [lastByte_append_singleton]; exact toNat_ofNat_lt ht hht
    simp [hl, hd.1, hd.2]
  refine ⟨?_, by omega, by omega, ?_⟩
  · unfold checkSignatureEncoding
    simp [hvalid, hlow', hdefd]
  · rw [hder']; rfl

end Btc.Spend
