import Model.C10.Engine
/-
C10 — concrete spends on the EXECUTED instance `secpCrypto`: the hypotheses of the `_secp256k1` closures are satisfiable.

Two of them are discharged by the KERNEL (`decide +kernel`: real SHA-256 / RIPEMD-160, real secp256k1 arithmetic -- minutes
of kernel time, which is why the facts live in three modules of their own: `ExampleKey`, `ExampleEcdsa` (imported by
`Props.C10`) and `ExampleSchnorr` (11 minutes; used by `ExampleTapKey` only, built on demand); this one has the data): a
p2wpkh spend signed with ECDSA and a taproot key-path spend signed with BIP340.  The other templates are `#guard`ed: the compiled evaluator runs sign -> DER -> finalize -> the
composed engine on a concrete spend of every template and the build fails unless every hypothesis of the theorem
evaluates to true and `verifyScript` answers `.ok ()`.  Core Lean only.
-/
namespace Btc.Spend.Ex

open Btc Btc.Spend Btc.Sighash Btc.Script Btc.Script.Core

set_option maxRecDepth 1000000

/-- a private key and a nonce (any nonce in range does: the closures quantify over it) -/
def q : Int := 0x1E99423A4ED27608A15A2616A2B0E9E52CED330AC530EDCC32C8FFC6A526AEDD
def k : Int := 0x8F8A276C19F4149656B280621E358CCE24F5F52542772691EE69063B74F15D15

def hexB (s : String) : Bytes := (fromHex? s).getD []

/-- the compressed SEC octets of `q·G` and their hash160 -/
def pk : Bytes := hexB "03f028892bad7ed57d2fb57bf33081d5cfcf6f9ed3d3d7f159c2e2fff579dc341a"
def h : Bytes := hexB "bbc1e42a39d05a4cc61752d6963b7f69d09bb27b"

/-! ## p2wpkh, SIGHASH_ALL, one input, one output -/

def tx : Tx := ⟨2, [⟨⟨List.replicate 32 0xab, 1⟩, [], 0xfffffffd⟩], [⟨90000, p2wpkh (List.replicate 20 0x11)⟩], 0⟩
def cx : TxCtx := { tx := tx, nIn := 0, spent := [⟨100000, p2wpkh h⟩] }
def r : Int := 66622713665624427733710315200720396955896638749566533714623508373930515555288
def s : Int := 49661797859109655370924436943543929714682976958370505663807044372910545816447
def der : Bytes := hexB
  "3045022100934b1ea10a4b3c1757e2b0c017d0b6143ce3c9a7e6a4a49860d7a6ab210ee3d802206dcb94dcbb6798701ed5a86cb23a060fb0ff462609634009312567daf857cb7f"

/-! ## taproot key path, SIGHASH_DEFAULT; `q` plays the tweaked key, `prog` is the x-only output key -/

def prog : Bytes := hexB "f028892bad7ed57d2fb57bf33081d5cfcf6f9ed3d3d7f159c2e2fff579dc341a"
def txT : Tx := ⟨2, [⟨⟨List.replicate 32 0xcd, 0⟩, [], 0xfffffffe⟩], [⟨49000, p2wpkh (List.replicate 20 0x22)⟩], 500⟩
def cxT : TxCtx := { tx := txT, nIn := 0, spent := [⟨50000, p2tr prog⟩] }
def sgT : Schnorr.Sig :=
  ⟨37383013404240155317212231528600349456684551134389172816744736016623475164867,
   46011908764803298515254292816205440290611210759923365177046784681412408434153⟩
def sig64 : Bytes := hexB
  "52a60928809be9827b939ce766be4ea7f6e41c831b0b92717f71aa247ba506c365b9d145f3e8a605b61933ca1691dbcded0ffb5fa41bc9d2446af3fc160cdde9"

/-! ## the other templates, by the compiled evaluator (`#guard`): sign, serialize, finalize, verify -/

/-- what the model's ECDSA signer writes for `(script code, sigversion, hash type)` in transaction context `c` with key
    `d` and nonce `k`: `DER(r, s) ‖ hash type` -/
def ecdsaSig (c : TxCtx) (sc : Bytes) (sv : SigVersion) (ht : Nat) (d : Int) : Option Bytes :=
  match Ecdsa.signRecoverable secp (Rfc6979.challenge secp.n (engineEcdsaDigest secpCrypto c sc sv ht)) d k true with
  | .ok (r, s, _) =>
    match Der.serialize r s with
    | .ok der => some (der ++ [UInt8.ofNat ht])
    | .error _ => none
  | .error _ => none

/-- the compressed octets of `d·G` -/
def pubOf (d : Int) : Bytes :=
  let P := secp.mul d secp.gen
  (if secp.y P % 2 = 0 then 2 else 3) :: beBytes 32 (secp.x P).toNat

def xOnly (d : Int) : Bytes := (pubOf d).drop 1

def hash160 (b : Bytes) : Bytes := ripemd160 (sha256 b)

def txOf (seq lock : Int) : Tx :=
  ⟨2, [⟨⟨List.replicate 32 0x5a, 3⟩, [], seq⟩], [⟨70000, p2wpkh (List.replicate 20 0x33)⟩, ⟨1000, [0x51]⟩], lock⟩

def ctxOf (spk : Bytes) (ss : Bytes) : TxCtx :=
  let t := txOf 0xfffffffd 0
  { tx := { t with vin := t.vin.map fun i => { i with scriptSig := ss } }, nIn := 0, spent := [⟨80000, spk⟩] }

def okUnit (r : R Unit) : Bool := match r with | .ok _ => true | .error _ => false

/-- sign, then ask: does the signature pass the encoding checks of EVERY flag, and does the composed engine accept what the
    finalizer model writes? (`mk sig` = the PsbtIn; the engine runs on the finalizer's scriptSig / witness) -/
def closes (spk sc : Bytes) (sv : SigVersion) (ht : Nat) (d : Int) (mk : Bytes → PsbtIn) : Bool :=
  match ecdsaSig (ctxOf spk []) sc sv ht d with
  | none => false
  | some sig =>
    match finalizedInput (fun kb => (secpParsePubStrict kb).isSome) (mk sig) with
    | .error _ => false
    | .ok (ss, wit) =>
      okUnit (checkSignatureEncoding Gen.Spend.EVERY_FLAG sig) && sig != hash160 (pubOf d) && sig != pubOf d &&
      (secpParsePub (pubOf d) == some (secp.mul d secp.gen)) && isCompressedPubKey (pubOf d) &&
      okUnit (verifyScript (envOf secpCrypto Gen.Spend.EVERY_FLAG (ctxOf spk ss)) ss spk wit)

-- p2pk, p2pkh (legacy digest over the scriptPubKey), every ECDSA hash type
#guard Gen.Spend.ECDSA_HASH_TYPES.all fun ht =>
  closes (p2pk (pubOf q)) (p2pk (pubOf q)) .BASE ht q (fun sig => ⟨some (p2pk (pubOf q)), [], [], [(pubOf q, sig)]⟩)
#guard Gen.Spend.ECDSA_HASH_TYPES.all fun ht =>
  closes (p2pkh (hash160 (pubOf q))) (p2pkh (hash160 (pubOf q))) .BASE ht q
    (fun sig => ⟨some (p2pkh (hash160 (pubOf q))), [], [], [(pubOf q, sig)]⟩)
-- p2wpkh and p2sh-p2wpkh (BIP143 over the p2pkh script code)
#guard Gen.Spend.ECDSA_HASH_TYPES.all fun ht =>
  closes (p2wpkh (hash160 (pubOf q))) (p2pkh (hash160 (pubOf q))) .WITNESS_V0 ht q
    (fun sig => ⟨some (p2wpkh (hash160 (pubOf q))), [], [], [(pubOf q, sig)]⟩)
#guard Gen.Spend.ECDSA_HASH_TYPES.all fun ht =>
  closes (p2sh (hash160 (p2wpkh (hash160 (pubOf q))))) (p2pkh (hash160 (pubOf q))) .WITNESS_V0 ht q
    (fun sig => ⟨some (p2sh (hash160 (p2wpkh (hash160 (pubOf q))))), p2wpkh (hash160 (pubOf q)), [], [(pubOf q, sig)]⟩)

/-! ### 2-of-3 multisig signed by keys 1 and 3 (bare, p2wsh, p2sh-p2wsh, p2sh) -/

def d1 : Int := q
def d2 : Int := q + 1
def d3 : Int := 2 * q + 7
def keys3 : List Bytes := [pubOf d1, pubOf d2, pubOf d3]
def ms : Bytes := multisig 2 keys3

/-- both signatures, the finalizer on `partial_sigs` filed in the REVERSE order, and the engine's verdict -/
def closesMulti (spk : Bytes) (sv : SigVersion) (redeem wscript : Bytes) : Bool :=
  match ecdsaSig (ctxOf spk []) ms sv 1 d1, ecdsaSig (ctxOf spk []) ms sv 0x81 d3 with
  | some s1, some s3 =>
    match finalizedInput (fun kb => (secpParsePubStrict kb).isSome) ⟨some spk, redeem, wscript, [(pubOf d3, s3), (pubOf d1, s1)]⟩ with
    | .error _ => false
    | .ok (ss, wit) =>
      okUnit (checkSignatureEncoding Gen.Spend.EVERY_FLAG s1) && okUnit (checkSignatureEncoding Gen.Spend.EVERY_FLAG s3) &&
      okUnit (verifyScript (envOf secpCrypto Gen.Spend.EVERY_FLAG (ctxOf spk ss)) ss spk wit)
  | _, _ => false

#guard closesMulti ms .BASE [] []
#guard closesMulti (p2wsh (sha256 ms)) .WITNESS_V0 [] ms
#guard closesMulti (p2sh (hash160 (p2wsh (sha256 ms)))) .WITNESS_V0 (p2wsh (sha256 ms)) ms
#guard closesMulti (p2sh (hash160 ms)) .BASE ms []

/-! ### taproot script path, single-key leaf `<x(d1)> CHECKSIG` under the internal key `x(d2)`, every taproot hash type -/

def tapLeafCloses (ht : Nat) : Bool :=
  let x := xOnly d1
  let leaf := pkLeaf x
  let lh := Taproot.leafHash taggedHash 0xc0 leaf
  let xP := xOnly d2
  match Taproot.tapTweak secp taggedHash xP lh, secp.liftX (ofBE xP : Nat) with
  | .ok t, some P =>
    let Q := secp.add P (secp.mul t secp.gen)
    let prog := beBytes 32 (secp.x Q).toNat
    let control := UInt8.ofNat (0xc0 + (secp.y Q % 2).toNat) :: xP
    let c : TxCtx := { ctxOf (p2tr prog) [] with leafHash := lh }
    match Schnorr.sign secp bip340Params 4 (engineTapDigest secpCrypto c .TAPSCRIPT ht 0xFFFFFFFF) d1 (List.replicate 32 0) with
    | .ok sg =>
      match Schnorr.serialize secp bip340Params sg with
      | .ok s64 =>
        let sig := s64 ++ (if ht = 0 then [] else [UInt8.ofNat ht])
        let fin := finalizedTaproot (fun v sc => Taproot.leafHash taggedHash v sc) (fun _ _ => false)
          (fun ht' lh' key s => Schnorr.verify secp bip340Params (engineTapDigest secpCrypto { c with leafHash := lh' }
            .TAPSCRIPT ht' 0xFFFFFFFF) (ofBE key : Nat) ⟨(ofBE (s.take 32) : Nat), (ofBE (s.drop 32) : Nat)⟩)
          ⟨if ht = 0 then none else some ht, [], [(x ++ lh, sig)], [(control, leaf, 0xc0)]⟩
        (fin == .ok ([], [sig, leaf, control])) &&
        (match commitment secpCrypto control prog lh with | .ok b => b | .error _ => false) &&
        bip341Defined c.tx c.nIn c.spent ht &&
        okUnit (verifyInput secpCrypto Gen.Spend.EVERY_FLAG c.tx c.spent 0 [sig, leaf, control])
      | .error _ => false
    | .error _ => false
  | _, _ => false

#guard Gen.Spend.TAPROOT_HASH_TYPES.all tapLeafCloses

/-! ### taproot key path (the output key is `x(d1)`: `d1` plays the tweaked key), every taproot hash type -/

def tapKeyCloses (ht : Nat) : Bool :=
  let prog := xOnly d1
  let c : TxCtx := ctxOf (p2tr prog) []
  match Schnorr.sign secp bip340Params 4 (engineTapDigest secpCrypto c .TAPROOT ht 0xFFFFFFFF) d1 (List.replicate 32 0) with
  | .ok sg =>
    match Schnorr.serialize secp bip340Params sg with
    | .ok s64 =>
      let sig := s64 ++ (if ht = 0 then [] else [UInt8.ofNat ht])
      bip341Defined c.tx c.nIn c.spent ht && castToBool prog &&
      (((ofBE prog : Nat) : Int) == secp.x (secp.mul d1 secp.gen)) &&
      okUnit (verifyInput secpCrypto Gen.Spend.EVERY_FLAG c.tx c.spent 0 [sig])
    | .error _ => false
  | .error _ => false

#guard Gen.Spend.TAPROOT_HASH_TYPES.all tapKeyCloses

end Btc.Spend.Ex
