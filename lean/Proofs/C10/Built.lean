import Model.C10.Sec
import Proofs.C10.Enc
import Proofs.E2E.C10
import Proofs.C01.CapstoneEntry2
/-
C10 — AUDIT3 Top 3: the two "encoding" hypotheses of the `_secp256k1` closures are facts about what the library just
built, proved here.

(a) `secpParsePub_built`: the compressed SEC octets the library writes for `q·G` (`secpCompressedKey`, = C01's model of
    `bytes_from_point(·, compressed=True)` on that point: `secpCompressedKey_is_bytesFromPoint`) are read back by the
    signature checker's key reader `secpParsePub` (C12's `point_from_octets` over `GroupOps.liftX`) as `q·G`, for every
    `0 < q < n`.  C01's `sec_roundtrip_compressed` speaks of C01's own decoder over `CurveGroup`; the carriers differ, so
    this is proved directly from `Lawful secpOps` (`liftX_of_even`) and the transfer `secpOps_liftX`.
(b) `built_sig_passes`: DER(`_sign_recoverable_`(…, lowS)) ‖ hash-type passes `CheckSignatureEncoding` under every flag
    set, has 9..73 bytes, starts with 0x30 (`Proofs/C10/Enc.lean`), from the ranges `Ecdsa.verify` implies.
-/
namespace Btc.Spend

open Btc Btc.EC Btc.E2E Btc.C01 Btc.Script
open Btc.Script.Core (getB checkSignatureEncoding isCompressedPubKey curveN)

/-- the key the signer derives: `q·G` computed by the executed arithmetic -/
abbrev secpPub (q : ℤ) : EC.Point := (EC.ops secp256k1).mul q secp256k1.G

theorem secpCompressedKey_compressed (Q : EC.Point) : isCompressedPubKey (secpCompressedKey Q) = true := by
  unfold isCompressedPubKey secpCompressedKey
  split <;> simp [getB, List.getD]

theorem secpCompressedKey_length (Q : EC.Point) : (secpCompressedKey Q).length = 33 := by
  simp [secpCompressedKey]

theorem secpCompressedKey_head (Q : EC.Point) : getB (secpCompressedKey Q) 0 = 2 ∨ getB (secpCompressedKey Q) 0 = 3 := by
  unfold secpCompressedKey
  split <;> simp [getB, List.getD]

private theorem ofBE_x (x : ℤ) (h0 : 0 ≤ x) (h1 : x < 2 ^ 256) : (((ofBE (beBytes 32 x.toNat) : ℕ)) : ℤ) = x := by
  rw [ofBE_beBytes, Nat.mod_eq_of_lt]
  · exact Int.toNat_of_nonneg h0
  · have : ((x.toNat : ℕ) : ℤ) < ((256 ^ 32 : ℕ) : ℤ) := by
      rw [Int.toNat_of_nonneg h0]; exact_mod_cast h1
    exact_mod_cast this

/-- the carrier element behind `q·G` -/
private noncomputable def subPub (q : ℤ) : SecpPt := secpOps.mul q secpOps.gen

private theorem subPub_val (q : ℤ) : (subPub q).1 = secpPub q := rfl

/-- bytes level, C12's reader on a compressed spelling: `02 ‖ x` reads as `lift_x x`, `03 ‖ x` as its negation -/
theorem secpParsePub_pre (pre : UInt8) (rest : Bytes) (Q : EC.Point) (h23 : pre = 2 ∨ pre = 3)
    (hlen : rest.length = 32) (hl : secp.liftX ((ofBE rest : ℕ) : ℤ) = some Q) :
    secpParsePub (pre :: rest) = some (if pre = 2 then Q else secp.neg Q) := by
  have h67 : ¬ (pre = 6 ∨ pre = 7) := by
    rcases h23 with h | h <;> subst h <;> decide
  have hne : ¬ (rest.length ≠ 32) := by simp [hlen]
  simp only [secpParsePub, if_neg h67, secpParsePubStrict, Taproot.pointFromOctets, if_pos h23, if_neg hne, hl]

/-- if `lift_x` of the key's x answers `Q`, and `Q` (even y) or its negation (odd y) is the key, the compressed octets
    read back as the key -/
theorem secpParsePub_of_lift (P Q : EC.Point) (hofx : (((ofBE (beBytes 32 P.1.toNat) : ℕ)) : ℤ) = P.1)
    (hl : secp.liftX P.1 = some Q) (hval : (if P.2 % 2 = 1 then secp.neg Q else Q) = P) :
    secpParsePub (secpCompressedKey P) = some P := by
  have hl' := (congrArg secp.liftX hofx).trans hl
  unfold secpCompressedKey
  rw [secpParsePub_pre _ _ Q (by split <;> simp) (by simp) hl']
  refine congrArg some ?_
  by_cases hodd : P.2 % 2 = 1
  · rw [if_pos hodd] at hval ⊢
    rw [if_neg (by decide)]; exact hval
  · rw [if_neg hodd] at hval ⊢
    rw [if_pos rfl]; exact hval

private theorem subPub_ne (q : ℤ) (hq : 0 < q ∧ q < secp256k1.n) : secpLawful.abs (subPub q) ≠ 0 :=
  secpLawful.mul_gen_ne_zero q hq.1 hq.2

private theorem subPub_x (q : ℤ) (hq : 0 < q ∧ q < secp256k1.n) :
    (((ofBE (beBytes 32 (subPub q).1.1.toNat) : ℕ)) : ℤ) = (subPub q).1.1 := by
  have hxr := secpLawful.x_range (subPub q) (subPub_ne q hq)
  exact ofBE_x _ hxr.1 (lt_of_lt_of_le hxr.2 secp_sizes.1)

private theorem subPub_lift (q : ℤ) (hq : 0 < q ∧ q < secp256k1.n) :
    ∃ Q : SecpPt, secpOps.liftX (secpOps.x (subPub q)) = some Q ∧
      (if secpOps.y (subPub q) % 2 = 1 then secpOps.neg Q else Q).1 = (subPub q).1 := by
  let L := secpLawful
  have hne := subPub_ne q hq
  by_cases hodd : secpOps.y (subPub q) % 2 = 1
  · have heN : secpOps.y (secpOps.neg (subPub q)) % 2 = 0 := (L.y_neg (subPub q) hne).2 (by omega)
    have hneN : L.abs (secpOps.neg (subPub q)) ≠ 0 := by
      rw [L.abs_neg]; exact neg_ne_zero.mpr hne
    obtain ⟨Q, hQ, hQa⟩ := L.liftX_of_even L.ycongr (secpOps.neg (subPub q)) hneN heN
    rw [L.x_neg] at hQ
    have hback : L.abs (secpOps.neg Q) = L.abs (subPub q) := by
      rw [L.abs_neg, hQa, L.abs_neg, neg_neg]
    refine ⟨Q, hQ, ?_⟩
    rw [if_pos hodd]
    exact val_eq_of_abs_eq secpOk (secpOps.neg Q) (subPub q) hback (by show L.abs _ ≠ 0; rw [hback]; exact hne)
  · have he : secpOps.y (subPub q) % 2 = 0 := by omega
    obtain ⟨Q, hQ, hQa⟩ := L.liftX_of_even L.ycongr (subPub q) hne he
    refine ⟨Q, hQ, ?_⟩
    rw [if_neg hodd]
    exact val_eq_of_abs_eq secpOk Q (subPub q) hQa (by show L.abs _ ≠ 0; rw [hQa]; exact hne)

/-- **(a)** the library's own compressed key octets read back as the key -/
theorem secpParsePub_built (q : ℤ) (hq : 0 < q ∧ q < secp256k1.n) :
    secpParsePub (secpCompressedKey (secpPub q)) = some (secpPub q) := by
  obtain ⟨Q, hQ, hval⟩ := subPub_lift q hq
  have hl : secp.liftX (subPub q).1.1 = some Q.1 := secpOps_liftX hQ
  rw [← subPub_val]
  refine secpParsePub_of_lift (subPub q).1 Q.1 (subPub_x q hq) hl (Eq.trans ?_ hval)
  show (if secpOps.y (subPub q) % 2 = 1 then secp.neg Q.1 else Q.1) =
    (if secpOps.y (subPub q) % 2 = 1 then secpOps.neg Q else Q).1
  split <;> rfl

/-- `secpCompressedKey` on `q·G` IS C01's model of `bytes_from_point(q·G, compressed=True)` (32-byte field) -/
theorem secpCompressedKey_is_bytesFromPoint (q : ℤ) (hq : 0 < q ∧ q < secp256k1.n) :
    C01.bytesFromPoint secp256k1.toCurveGroup 32 (secpPub q) true = some (secpCompressedKey (secpPub q)) := by
  have hne := subPub_ne q hq
  have hy : (secpPub q).2 ≠ 0 := (absSub_ne_zero_iff (subPub q)).mp hne
  have hon : isOnCurveX secp256k1.toCurveGroup (secpPub q) = some true :=
    @isOnCurveX_of_valid secp256k1_p ⟨secp256k1_p_prime⟩ secp256k1.toCurveGroup secpOk.hC (secpPub q)
      (subPub q).2.1 (subPub q).2.2.1
  unfold C01.bytesFromPoint secpCompressedKey
  simp [hon, hy]

/-- **(b)** on secp256k1: a low-s signature that verifies, DER-serialized and followed by a DEFINED hash-type byte
    (`ht & ~ANYONECANPAY ∈ {ALL, NONE, SINGLE}`), passes Core's `CheckSignatureEncoding` under EVERY flag set; the element
    has 9..73 bytes and starts with `0x30`. -/
theorem verified_sig_encoding (flags : ℕ) (c : ℤ) (Q : EC.Point) (r s : ℤ) (ht : ℕ) (der : Bytes)
    (hv : Ecdsa.verify (EC.ops secp256k1) c Q r s = true) (hlow : s ≤ secp256k1.n / 2)
    (hht : ht < 256) (hd : 1 ≤ ht % 128 ∧ ht % 128 ≤ 3) (hder : Der.serialize r s = .ok der) :
    checkSignatureEncoding flags (der ++ [UInt8.ofNat ht]) = .ok () ∧ 8 ≤ der.length ∧ der.length ≤ 72 ∧
      getB der 0 = 0x30 := by
  unfold Ecdsa.verify at hv
  simp only [Bool.and_eq_true, decide_eq_true_eq] at hv
  obtain ⟨⟨hr, hs⟩, _⟩ := hv
  have hn : (EC.ops secp256k1).n = (curveN : ℤ) := by decide +kernel
  have hn' : secp256k1.n = (curveN : ℤ) := hn
  rw [hn] at hr hs
  rw [hn'] at hlow
  have hc : curveN < 2 ^ 256 := by decide
  have hr0 : ((r.toNat : ℕ) : ℤ) = r := Int.toNat_of_nonneg (by omega)
  have hs0 : ((s.toNat : ℕ) : ℤ) = s := Int.toNat_of_nonneg (by omega)
  refine built_sig_encoding flags r.toNat s.toNat ht der (by omega) (by omega) ?_ hht hd (by rw [hr0, hs0]; exact hder)
  have : ((s.toNat : ℕ) : ℤ) ≤ ((curveN / 2 : ℕ) : ℤ) := by rw [hs0]; push_cast; exact hlow
  exact_mod_cast this

end Btc.Spend
