import Proofs.C10.Wrapped
/-
C10 — per-template closures for miniscript inside wsh (no bridge to C15's evaluator yet: each template is evaluated in
C08's engine directly).  `and_v(v:pk(A),pk(B))` = `<A> CHECKSIGVERIFY <B> CHECKSIG`, satisfaction `[sig_B, sig_A]`.
-/
namespace Btc.Spend.Eval

open Btc Btc.Script Btc.Script.Core

/-- `compile (and_v(v:pk(A),pk(B)))` -/
def andvPkPk (a b : Bytes) : Bytes := 0x21 :: (a ++ (0xad :: 0x21 :: (b ++ [0xac])))

theorem evalWith_andvPkPk_v0 (env : VerifyEnv) (a b sa sb : Bytes)
    (hea : checkSignatureEncoding env.flags sa = .ok ()) (heb : checkSignatureEncoding env.flags sb = .ok ())
    (hka : isCompressedPubKey a = true) (hkb : isCompressedPubKey b = true)
    (hsa : env.checker.checkECDSA sa a (andvPkPk a b) .WITNESS_V0 = .ok true)
    (hsb : env.checker.checkECDSA sb b (andvPkPk a b) .WITNESS_V0 = .ok true) :
    evalWith (evalCtx env .WITNESS_V0 (andvPkPk a b)) [sa, sb] 0 = .ok [[1]] := by
  have hla : a.length = 33 := by
    simp only [isCompressedPubKey, Bool.and_eq_true, beq_iff_eq] at hka; exact hka.1
  have hlb : b.length = 33 := by
    simp only [isCompressedPubKey, Bool.and_eq_true, beq_iff_eq] at hkb; exact hkb.1
  have hmina : checkMinimalPush a 33 = true := by
    have := checkMinimalPush_len a (by omega) (by omega); rwa [hla] at this
  have hminb : checkMinimalPush b 33 = true := by
    have := checkMinimalPush_len b (by omega) (by omega); rwa [hlb] at this
  have hpa := checkPubKeyEncoding_compressed env.flags .WITNESS_V0 a hka
  have hpb := checkPubKeyEncoding_compressed env.flags .WITNESS_V0 b hkb
  have t1 : (a ++ (0xad :: 0x21 :: (b ++ [0xac]))).take 33 = a := List.take_left' hla
  have d1 : (a ++ (0xad :: 0x21 :: (b ++ [0xac]))).drop 33 = 0xad :: 0x21 :: (b ++ [0xac]) := List.drop_left' hla
  have t2 : (b ++ [0xac]).take 33 = b := List.take_left' hlb
  have d2 : (b ++ [0xac]).drop 33 = [0xac] := List.drop_left' hlb
  have hp : parse (andvPkPk a b) =
      ([⟨0x21, a, 0x21 :: a⟩, ⟨0xad, [], [0xad]⟩, ⟨0x21, b, 0x21 :: b⟩, ⟨0xac, [], [0xac]⟩], []) := by
    simp [parse, andvPkPk, parseOps, getOp, hla, hlb, t1, d1, t2, d2]
  have hlen : (andvPkPk a b).length = 70 := by simp [andvPkPk, hla, hlb]
  have hsa' : env.checker.checkECDSA sa a (33 :: (a ++ 173 :: 33 :: (b ++ [172]))) .WITNESS_V0 = .ok true := hsa
  have hsb' : env.checker.checkECDSA sb b (33 :: (a ++ 173 :: 33 :: (b ++ [172]))) .WITNESS_V0 = .ok true := hsb
  unfold evalWith
  simp only [evalCtx, hp, hlen]
  simp [andvPkPk, run, step, stepChecks, stepExec, stepFinish, execPlain, execStackOp, evalChecksig,
    evalChecksigPreTapscript, isDisabled, DISABLED, inConditionalRange, hla, hlb, hmina, hminb, hea, heb, hpa, hpb,
    hsa', hsb', MAX_SCRIPT_ELEMENT_SIZE, MAX_OPS_PER_SCRIPT, MAX_SCRIPT_SIZE, MAX_STACK_SIZE, OP_IF, OP_ENDIF,
    OP_CODESEPARATOR, OP_CHECKSIG, OP_CHECKSIGVERIFY, ofBool, vchTrue, Except.bind, Except.map, bind, pure, Except.pure]

/-- T1 (wsh(and_v(v:pk(A),pk(B)))), script level: witness `[sig_B, sig_A, script]`; ANY flag set with WITNESS -/
theorem verify_wsh_andvPkPk (env : VerifyEnv) (h a b sa sb : Bytes) (hl : h.length = 32)
    (hW : has env.flags FLAG_WITNESS = true) (hnz : castToBool h = true)
    (hh : env.hashes.sha256 (andvPkPk a b) = h)
    (hea : checkSignatureEncoding env.flags sa = .ok ()) (heb : checkSignatureEncoding env.flags sb = .ok ())
    (hla : sa.length ≤ 520) (hlb : sb.length ≤ 520)
    (hka : isCompressedPubKey a = true) (hkb : isCompressedPubKey b = true)
    (hsa : env.checker.checkECDSA sa a (andvPkPk a b) .WITNESS_V0 = .ok true)
    (hsb : env.checker.checkECDSA sb b (andvPkPk a b) .WITNESS_V0 = .ok true) :
    verifyScript env [] (wshSpk h) [sb, sa, andvPkPk a b] = .ok () := by
  have e := evalWith_andvPkPk_v0 env a b sa sb hea heb hka hkb hsa hsb
  have ha' : ¬ (520 < sa.length) := by omega
  have hb' : ¬ (520 < sb.length) := by omega
  have hT : castToBool [1] = true := by decide
  have hex : executeWitnessScript env [sb, sa].reverse (andvPkPk a b) .WITNESS_V0 0 = .ok () := by
    unfold executeWitnessScript
    simp [MAX_SCRIPT_ELEMENT_SIZE, ha', hb', e, hT, Except.bind, bind, pure, Except.pure]
  exact verify_p2wsh_of env h (andvPkPk a b) [sb, sa] hl hW hnz hh hex

end Btc.Spend.Eval

namespace Btc.Spend.Eval

open Btc Btc.Script Btc.Script.Core

/-- `compile (or_d(pk(A),pkh(B)))` = `<A> CHECKSIG IFDUP NOTIF DUP HASH160 <h_B> EQUALVERIFY CHECKSIG ENDIF` -/
def ordPkPkh (a hb : Bytes) : Bytes :=
  0x21 :: (a ++ (0xac :: 0x73 :: 0x64 :: 0x76 :: 0xa9 :: 0x14 :: (hb ++ [0x88, 0xac, 0x68])))

theorem parse_ordPkPkh (a hb : Bytes) (hla : a.length = 33) (hlb : hb.length = 20) :
    parse (ordPkPkh a hb) =
      ([⟨0x21, a, 0x21 :: a⟩, ⟨0xac, [], [0xac]⟩, ⟨0x73, [], [0x73]⟩, ⟨0x64, [], [0x64]⟩, ⟨0x76, [], [0x76]⟩,
        ⟨0xa9, [], [0xa9]⟩, ⟨0x14, hb, 0x14 :: hb⟩, ⟨0x88, [], [0x88]⟩, ⟨0xac, [], [0xac]⟩, ⟨0x68, [], [0x68]⟩], []) := by
  have t1 : (a ++ (0xac :: 0x73 :: 0x64 :: 0x76 :: 0xa9 :: 0x14 :: (hb ++ [0x88, 0xac, 0x68]))).take 33 = a :=
    List.take_left' hla
  have d1 : (a ++ (0xac :: 0x73 :: 0x64 :: 0x76 :: 0xa9 :: 0x14 :: (hb ++ [0x88, 0xac, 0x68]))).drop 33 =
      0xac :: 0x73 :: 0x64 :: 0x76 :: 0xa9 :: 0x14 :: (hb ++ [0x88, 0xac, 0x68]) := List.drop_left' hla
  have t2 : (hb ++ [0x88, 0xac, 0x68]).take 20 = hb := List.take_left' hlb
  have d2 : (hb ++ [0x88, 0xac, 0x68]).drop 20 = [0x88, 0xac, 0x68] := List.drop_left' hlb
  simp [parse, ordPkPkh, parseOps, getOp, hla, hlb, t1, d1, t2, d2]

/-- left branch: `[sig_A]` -/
theorem evalWith_ordPkPkh_left (env : VerifyEnv) (a hb sa : Bytes) (hlb : hb.length = 20)
    (hea : checkSignatureEncoding env.flags sa = .ok ()) (hka : isCompressedPubKey a = true)
    (hsa : env.checker.checkECDSA sa a (ordPkPkh a hb) .WITNESS_V0 = .ok true) :
    evalWith (evalCtx env .WITNESS_V0 (ordPkPkh a hb)) [sa] 0 = .ok [[1]] := by
  have hla : a.length = 33 := by
    simp only [isCompressedPubKey, Bool.and_eq_true, beq_iff_eq] at hka; exact hka.1
  have hmina : checkMinimalPush a 33 = true := by
    have := checkMinimalPush_len a (by omega) (by omega); rwa [hla] at this
  have hpa := checkPubKeyEncoding_compressed env.flags .WITNESS_V0 a hka
  have hlen : (ordPkPkh a hb).length = 63 := by simp [ordPkPkh, hla, hlb]
  have hsa' : env.checker.checkECDSA sa a
      (33 :: (a ++ 172 :: 115 :: 100 :: 118 :: 169 :: 20 :: (hb ++ [136, 172, 104]))) .WITNESS_V0 = .ok true := hsa
  have hT : castToBool [1] = true := by decide
  unfold evalWith
  simp only [evalCtx, parse_ordPkPkh a hb hla hlb, hlen]
  simp [ordPkPkh, run, step, stepChecks, stepExec, stepFinish, execPlain, execStackOp, execConditional, evalChecksig,
    evalChecksigPreTapscript, isDisabled, DISABLED, inConditionalRange, hla, hlb, hmina, hea, hpa, hsa', hT,
    MAX_SCRIPT_ELEMENT_SIZE, MAX_OPS_PER_SCRIPT, MAX_SCRIPT_SIZE, MAX_STACK_SIZE, OP_IF, OP_NOTIF, OP_ELSE, OP_ENDIF,
    OP_CODESEPARATOR, OP_CHECKSIG, OP_CHECKSIGVERIFY, ofBool, vchTrue, Except.bind, Except.map, bind, pure, Except.pure]

/-- right branch: `[sig_B, pk_B, <empty>]` (the dissatisfaction of `pk(A)` is the empty signature) -/
theorem evalWith_ordPkPkh_right (env : VerifyEnv) (a hb b sb : Bytes) (hlb : hb.length = 20)
    (hh : env.hashes.ripemd160 (env.hashes.sha256 b) = hb)
    (heb : checkSignatureEncoding env.flags sb = .ok ())
    (hka : isCompressedPubKey a = true) (hkb : isCompressedPubKey b = true)
    (hsa : env.checker.checkECDSA [] a (ordPkPkh a hb) .WITNESS_V0 = .ok false)
    (hsb : env.checker.checkECDSA sb b (ordPkPkh a hb) .WITNESS_V0 = .ok true) :
    evalWith (evalCtx env .WITNESS_V0 (ordPkPkh a hb)) [[], b, sb] 0 = .ok [[1]] := by
  have hla : a.length = 33 := by
    simp only [isCompressedPubKey, Bool.and_eq_true, beq_iff_eq] at hka; exact hka.1
  have hmina : checkMinimalPush a 33 = true := by
    have := checkMinimalPush_len a (by omega) (by omega); rwa [hla] at this
  have hminb : checkMinimalPush hb 20 = true := by
    have := checkMinimalPush_len hb (by omega) (by omega); rwa [hlb] at this
  have hpa := checkPubKeyEncoding_compressed env.flags .WITNESS_V0 a hka
  have hpb := checkPubKeyEncoding_compressed env.flags .WITNESS_V0 b hkb
  have hlen : (ordPkPkh a hb).length = 63 := by simp [ordPkPkh, hla, hlb]
  have he0 : checkSignatureEncoding env.flags [] = .ok () := by simp [checkSignatureEncoding]
  have hsa' : env.checker.checkECDSA [] a
      (33 :: (a ++ 172 :: 115 :: 100 :: 118 :: 169 :: 20 :: (hb ++ [136, 172, 104]))) .WITNESS_V0 = .ok false := hsa
  have hsb' : env.checker.checkECDSA sb b
      (33 :: (a ++ 172 :: 115 :: 100 :: 118 :: 169 :: 20 :: (hb ++ [136, 172, 104]))) .WITNESS_V0 = .ok true := hsb
  have hF : castToBool [] = false := by decide
  unfold evalWith
  simp only [evalCtx, parse_ordPkPkh a hb hla hlb, hlen]
  simp [ordPkPkh, run, step, stepChecks, stepExec, stepFinish, execPlain, execStackOp, execConditional, hashOp, evalChecksig,
    evalChecksigPreTapscript, isDisabled, DISABLED, inConditionalRange, hla, hlb, hmina, hminb, he0, heb, hpa, hpb, hsa',
    hsb', hF, hh, MAX_SCRIPT_ELEMENT_SIZE, MAX_OPS_PER_SCRIPT, MAX_SCRIPT_SIZE, MAX_STACK_SIZE, OP_IF, OP_NOTIF, OP_ELSE,
    OP_ENDIF, OP_CODESEPARATOR, OP_CHECKSIG, OP_CHECKSIGVERIFY, ofBool, vchTrue, vchFalse, Except.bind, Except.map, bind,
    pure, Except.pure]

/-- T1 (wsh(or_d(pk(A),pkh(B)))), script level, both satisfactions; ANY flag set with WITNESS -/
theorem verify_wsh_ordPkPkh_left (env : VerifyEnv) (h a hb sa : Bytes) (hl : h.length = 32) (hlb : hb.length = 20)
    (hW : has env.flags FLAG_WITNESS = true) (hnz : castToBool h = true)
    (hh : env.hashes.sha256 (ordPkPkh a hb) = h)
    (hea : checkSignatureEncoding env.flags sa = .ok ()) (hla : sa.length ≤ 520)
    (hka : isCompressedPubKey a = true)
    (hsa : env.checker.checkECDSA sa a (ordPkPkh a hb) .WITNESS_V0 = .ok true) :
    verifyScript env [] (wshSpk h) [sa, ordPkPkh a hb] = .ok () := by
  have e := evalWith_ordPkPkh_left env a hb sa hlb hea hka hsa
  have ha' : ¬ (520 < sa.length) := by omega
  have hT : castToBool [1] = true := by decide
  have hex : executeWitnessScript env [sa].reverse (ordPkPkh a hb) .WITNESS_V0 0 = .ok () := by
    unfold executeWitnessScript
    simp [MAX_SCRIPT_ELEMENT_SIZE, ha', e, hT, Except.bind, bind, pure, Except.pure]
  exact verify_p2wsh_of env h (ordPkPkh a hb) [sa] hl hW hnz hh hex

theorem verify_wsh_ordPkPkh_right (env : VerifyEnv) (h a hb b sb : Bytes) (hl : h.length = 32) (hlb : hb.length = 20)
    (hW : has env.flags FLAG_WITNESS = true) (hnz : castToBool h = true)
    (hh : env.hashes.sha256 (ordPkPkh a hb) = h) (hhb : env.hashes.ripemd160 (env.hashes.sha256 b) = hb)
    (heb : checkSignatureEncoding env.flags sb = .ok ()) (hsl : sb.length ≤ 520)
    (hka : isCompressedPubKey a = true) (hkb : isCompressedPubKey b = true)
    (hsa : env.checker.checkECDSA [] a (ordPkPkh a hb) .WITNESS_V0 = .ok false)
    (hsb : env.checker.checkECDSA sb b (ordPkPkh a hb) .WITNESS_V0 = .ok true) :
    verifyScript env [] (wshSpk h) [sb, b, [], ordPkPkh a hb] = .ok () := by
  have e := evalWith_ordPkPkh_right env a hb b sb hlb hhb heb hka hkb hsa hsb
  have hb' : ¬ (520 < sb.length) := by omega
  have hkl : b.length = 33 := by
    simp only [isCompressedPubKey, Bool.and_eq_true, beq_iff_eq] at hkb; exact hkb.1
  have hT : castToBool [1] = true := by decide
  have hex : executeWitnessScript env [sb, b, []].reverse (ordPkPkh a hb) .WITNESS_V0 0 = .ok () := by
    unfold executeWitnessScript
    simp [MAX_SCRIPT_ELEMENT_SIZE, hb', hkl, e, hT, Except.bind, bind, pure, Except.pure]
  exact verify_p2wsh_of env h (ordPkPkh a hb) [sb, b, []] hl hW hnz hh hex

/-- `compile (and_v(v:pk(A),older(n)))` for `1 ≤ n ≤ 16` = `<A> CHECKSIGVERIFY OP_n CHECKSEQUENCEVERIFY` -/
def andvPkOlder (a : Bytes) (n : Nat) : Bytes := 0x21 :: (a ++ [0xad, UInt8.ofNat (0x50 + n), 0xb2])

theorem num5_small (cx : Ctx) (c : Nat) (h : 1 ≤ c ∧ c ≤ 16) :
    num cx (numBytes (c : Int)) LOCKTIME_MAX_NUM_SIZE = .ok (c : Int) := by
  unfold num
  cases has cx.flags FLAG_MINIMALDATA <;>
  rcases small_cases c h with rfl | rfl | rfl | rfl | rfl | rfl | rfl | rfl | rfl | rfl | rfl | rfl | rfl | rfl | rfl | rfl <;>
  rfl

/-- `[sig_A]` on `<A> CHECKSIGVERIFY OP_n CSV`: leaves `n` (true), given BIP112's comparison holds for this input -/
theorem evalWith_andvPkOlder_v0 (env : VerifyEnv) (a sa : Bytes) (n : Nat) (hn : 1 ≤ n ∧ n ≤ 16)
    (hea : checkSignatureEncoding env.flags sa = .ok ()) (hka : isCompressedPubKey a = true)
    (hsa : env.checker.checkECDSA sa a (andvPkOlder a n) .WITNESS_V0 = .ok true)
    (hseq : has env.flags FLAG_CHECKSEQUENCEVERIFY = true →
      checkSequence (evalCtx env .WITNESS_V0 (andvPkOlder a n)) (n : Int) = true) :
    evalWith (evalCtx env .WITNESS_V0 (andvPkOlder a n)) [sa] 0 = .ok [numBytes (n : Int)] := by
  have hla : a.length = 33 := by
    simp only [isCompressedPubKey, Bool.and_eq_true, beq_iff_eq] at hka; exact hka.1
  have hmina : checkMinimalPush a 33 = true := by
    have := checkMinimalPush_len a (by omega) (by omega); rwa [hla] at this
  have hpa := checkPubKeyEncoding_compressed env.flags .WITNESS_V0 a hka
  have c1 := toNat_opN n hn.2
  have t1 : (a ++ [0xad, UInt8.ofNat (0x50 + n), 0xb2]).take 33 = a := List.take_left' hla
  have d1 : (a ++ [0xad, UInt8.ofNat (0x50 + n), 0xb2]).drop 33 = [0xad, UInt8.ofNat (0x50 + n), 0xb2] :=
    List.drop_left' hla
  have hp : parse (andvPkOlder a n) =
      ([⟨0x21, a, 0x21 :: a⟩, ⟨0xad, [], [0xad]⟩, opN n, ⟨0xb2, [], [0xb2]⟩], []) := by
    have g : ¬ (0x50 + n = 0) ∧ 78 < 0x50 + n := by omega
    have hm : (80 + n) % 256 = 80 + n := by omega
    simp [parse, andvPkOlder, parseOps, getOp, hla, t1, d1, hm, opN, g]
  have hlen : (andvPkOlder a n).length = 37 := by simp [andvPkOlder, hla]
  have hn5 := num5_small (evalCtx env .WITNESS_V0 (andvPkOlder a n)) n hn
  have hsa' : env.checker.checkECDSA sa a (33 :: (a ++ [173, UInt8.ofNat (80 + n), 178])) .WITNESS_V0 = .ok true := hsa
  let cx := evalCtx env .WITNESS_V0 (andvPkOlder a n)
  have hsv : cx.sigversion = .WITNESS_V0 := rfl
  -- the first two instructions, explicitly
  have s12 : run cx [⟨0x21, a, 0x21 :: a⟩, ⟨0xad, [], [0xad]⟩] { m := { stack := [sa], weightLeft := 0 } } =
      .ok ⟨⟨[], [], 1, 0, 0xFFFFFFFF, 0⟩, [], 35, 2⟩ := by
    have key : ∀ c : UInt8, env.checker.checkECDSA sa a (33 :: (a ++ [173, c, 178])) .WITNESS_V0 = .ok true →
        run (evalCtx env .WITNESS_V0 (0x21 :: (a ++ [0xad, c, 0xb2]))) [⟨0x21, a, 0x21 :: a⟩, ⟨0xad, [], [0xad]⟩]
          { m := { stack := [sa], weightLeft := 0 } } = .ok ⟨⟨[], [], 1, 0, 0xFFFFFFFF, 0⟩, [], 35, 2⟩ := by
      intro c hc
      simp [evalCtx, run, step, stepChecks, stepExec, stepFinish, execPlain, execStackOp, evalChecksig,
        evalChecksigPreTapscript, isDisabled, DISABLED, inConditionalRange, hla, hmina, hea, hpa, hc,
        MAX_SCRIPT_ELEMENT_SIZE, MAX_OPS_PER_SCRIPT, MAX_STACK_SIZE, OP_IF, OP_ENDIF, OP_CODESEPARATOR, OP_CHECKSIG,
        OP_CHECKSIGVERIFY, Except.bind, Except.map, bind, pure, Except.pure]
    exact key _ hsa'
  obtain ⟨st3, e3, s3⟩ := step_opN cx ⟨⟨[], [], 1, 0, 0xFFFFFFFF, 0⟩, [], 35, 2⟩ n hn rfl (by simp)
  obtain ⟨m3, vf3, pos3, opos3⟩ := st3
  obtain ⟨stk3, alt3, oc3, cs3, csp3, wl3⟩ := m3
  have hstk : stk3 = [numBytes (n : Int)] := s3.stack
  have halt : alt3 = [] := s3.alt
  have hoc : oc3 = 1 := s3.opCount
  have hvf : vf3 = [] := s3.vfExec
  subst hstk halt hoc hvf
  have s4 : step cx ⟨⟨[numBytes (n : Int)], [], 1, cs3, csp3, wl3⟩, [], pos3, opos3⟩ ⟨0xb2, [], [0xb2]⟩ =
      .ok ⟨⟨[numBytes (n : Int)], [], 2, cs3, csp3, wl3⟩, [], pos3 + 1, opos3 + 1⟩ := by
    have hn5' : num cx (numBytes (n : Int)) LOCKTIME_MAX_NUM_SIZE = .ok (n : Int) := hn5
    have hbit : ¬ (((n : Int).toNat / 2 ^ 31) % 2 = 1) := by simp; omega
    have hneg : ¬ ((n : Int) < 0) := by omega
    cases hf : has env.flags FLAG_CHECKSEQUENCEVERIFY
    · simp [cx, evalCtx, step, stepChecks, stepExec, stepFinish, execPlain, execStackOp, execCsv, isDisabled, DISABLED,
        inConditionalRange, hf, MAX_SCRIPT_ELEMENT_SIZE, MAX_OPS_PER_SCRIPT, MAX_STACK_SIZE, OP_IF, OP_ENDIF,
        OP_CODESEPARATOR, Except.bind, Except.map, bind, pure, Except.pure]
    · have hs := hseq hf
      have hs' : checkSequence cx (n : Int) = true := hs
      have hf' : has cx.flags FLAG_CHECKSEQUENCEVERIFY = true := hf
      simp [step, stepChecks, stepExec, stepFinish, execPlain, execStackOp, execCsv, isDisabled, DISABLED,
        inConditionalRange, hf', hsv, hn5', hs', hbit, hneg, MAX_SCRIPT_ELEMENT_SIZE, MAX_OPS_PER_SCRIPT, MAX_STACK_SIZE, OP_IF,
        OP_ENDIF, OP_CODESEPARATOR, Except.bind, Except.map, bind, pure, Except.pure]
  have hrun : run cx [⟨0x21, a, 0x21 :: a⟩, ⟨0xad, [], [0xad]⟩, opN n, ⟨0xb2, [], [0xb2]⟩]
      { m := { stack := [sa], weightLeft := 0 } } =
      .ok ⟨⟨[numBytes (n : Int)], [], 2, cs3, csp3, wl3⟩, [], pos3 + 1, opos3 + 1⟩ := by
    have e : [⟨0x21, a, 0x21 :: a⟩, ⟨0xad, [], [0xad]⟩, opN n, (⟨0xb2, [], [0xb2]⟩ : Op)] =
        [⟨0x21, a, 0x21 :: a⟩, ⟨0xad, [], [0xad]⟩] ++ [opN n, ⟨0xb2, [], [0xb2]⟩] := rfl
    rw [e, run_append, s12]
    simp only [Except.bind, run, e3, s4]
  have es : cx.script = andvPkOlder a n := rfl
  have hsz : ¬ ((andvPkOlder a n).length > MAX_SCRIPT_SIZE) := by rw [hlen]; simp [MAX_SCRIPT_SIZE]
  show evalWith cx [sa] 0 = _
  unfold evalWith
  simp only [es, hp, hsz, decide_false, Bool.and_false, hrun]
  simp

/-- T1 (wsh(and_v(v:pk(A),older(n))), `1 ≤ n ≤ 16`), script level: witness `[sig_A, script]` -/
theorem verify_wsh_andvPkOlder (env : VerifyEnv) (h a sa : Bytes) (n : Nat) (hn : 1 ≤ n ∧ n ≤ 16) (hl : h.length = 32)
    (hW : has env.flags FLAG_WITNESS = true) (hnz : castToBool h = true)
    (hh : env.hashes.sha256 (andvPkOlder a n) = h)
    (hea : checkSignatureEncoding env.flags sa = .ok ()) (hla : sa.length ≤ 520)
    (hka : isCompressedPubKey a = true)
    (hsa : env.checker.checkECDSA sa a (andvPkOlder a n) .WITNESS_V0 = .ok true)
    (hseq : has env.flags FLAG_CHECKSEQUENCEVERIFY = true →
      checkSequence (evalCtx env .WITNESS_V0 (andvPkOlder a n)) (n : Int) = true) :
    verifyScript env [] (wshSpk h) [sa, andvPkOlder a n] = .ok () := by
  have e := evalWith_andvPkOlder_v0 env a sa n hn hea hka hsa hseq
  have ha' : ¬ (520 < sa.length) := by omega
  have hT : castToBool (numBytes (n : Int)) = true := by
    rcases small_cases n hn with rfl | rfl | rfl | rfl | rfl | rfl | rfl | rfl | rfl | rfl | rfl | rfl | rfl | rfl | rfl | rfl <;>
    decide
  have hex : executeWitnessScript env [sa].reverse (andvPkOlder a n) .WITNESS_V0 0 = .ok () := by
    unfold executeWitnessScript
    simp [MAX_SCRIPT_ELEMENT_SIZE, ha', e, hT, Except.bind, bind, pure, Except.pure]
  exact verify_p2wsh_of env h (andvPkOlder a n) [sa] hl hW hnz hh hex

end Btc.Spend.Eval
