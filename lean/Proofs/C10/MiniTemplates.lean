import Proofs.C10.Wrapped
/-
C10 — per-template closures for miniscript inside wsh (no bridge to C15's evaluator yet: each template is evaluated in
C08's engine directly).  `and_v(v:pk(A),pk(B))` = `<A> CHECKSIGVERIFY <B> CHECKSIG`, satisfaction `[sig_B, sig_A]`.
-/
namespace Btc.Spend.Eval

open Btc Btc.Script Btc.Script.Core

/-- `compile (and_v(v:pk(A),pk(B)))` -/
def andvPkPk (a b : Bytes) : Bytes := 0x21 :: (a ++ (0xad :: 0x21 :: (b ++ [0xac])))

theorem evalWith_andvPkPk_v0 (env : VerifyEnv) (a b sa sb : Bytes)
    (hea : checkSignatureEncoding env.flags sa = .ok ()) (heb : checkSignatureEncoding env.flags sb = .ok ())
    (hka : isCompressedPubKey a = true) (hkb : isCompressedPubKey b = true)
    (hsa : env.checker.checkECDSA sa a (andvPkPk a b) .WITNESS_V0 = .ok true)
    (hsb : env.checker.checkECDSA sb b (andvPkPk a b) .WITNESS_V0 = .ok true) :
    evalWith (evalCtx env .WITNESS_V0 (andvPkPk a b)) [sa, sb] 0 = .ok [[1]] := by
  have hla : a.length = 33 := by
    simp only [isCompressedPubKey, Bool.and_eq_true, beq_iff_eq] at hka; exact hka.1
  have hlb : b.length = 33 := by
    simp only [isCompressedPubKey, Bool.and_eq_true, beq_iff_eq] at hkb; exact hkb.1
  have hmina : checkMinimalPush a 33 = true := by
    have := checkMinimalPush_len a (by omega) (by omega); rwa [hla] at this
  have hminb : checkMinimalPush b 33 = true := by
    have := checkMinimalPush_len b (by omega) (by omega); rwa [hlb] at this
  have hpa := checkPubKeyEncoding_compressed env.flags .WITNESS_V0 a hka
  have hpb := checkPubKeyEncoding_compressed env.flags .WITNESS_V0 b hkb
  have t1 : (a ++ (0xad :: 0x21 :: (b ++ [0xac]))).take 33 = a := List.take_left' hla
  have d1 : (a ++ (0xad :: 0x21 :: (b ++ [0xac]))).drop 33 = 0xad :: 0x21 :: (b ++ [0xac]) := List.drop_left' hla
  have t2 : (b ++ [0xac]).take 33 = b := List.take_left' hlb
  have d2 : (b ++ [0xac]).drop 33 = [0xac] := List.drop_left' hlb
  have hp : parse (andvPkPk a b) =
      ([⟨0x21, a, 0x21 :: a⟩, ⟨0xad, [], [0xad]⟩, ⟨0x21, b, 0x21 :: b⟩, ⟨0xac, [], [0xac]⟩], []) := by
    simp [parse, andvPkPk, parseOps, getOp, hla, hlb, t1, d1, t2, d2]
  have hlen : (andvPkPk a b).length = 70 := by simp [andvPkPk, hla, hlb]
  have hsa' : env.checker.checkECDSA sa a (33 :: (a ++ 173 :: 33 :: (b ++ [172]))) .WITNESS_V0 = .ok true := hsa
  have hsb' : env.checker.checkECDSA sb b (33 :: (a ++ 173 :: 33 :: (b ++ [172]))) .WITNESS_V0 = .ok true := hsb
  unfold evalWith
  simp only [evalCtx, hp, hlen]
  simp [andvPkPk, run, step, stepChecks, stepExec, stepFinish, execPlain, execStackOp, evalChecksig,
    evalChecksigPreTapscript, isDisabled, DISABLED, inConditionalRange, hla, hlb, hmina, hminb, hea, heb, hpa, hpb,
    hsa', hsb', MAX_SCRIPT_ELEMENT_SIZE, MAX_OPS_PER_SCRIPT, MAX_SCRIPT_SIZE, MAX_STACK_SIZE, OP_IF, OP_ENDIF,
    OP_CODESEPARATOR, OP_CHECKSIG, OP_CHECKSIGVERIFY, ofBool, vchTrue, Except.bind, Except.map, bind, pure, Except.pure]

/-- T1 (wsh(and_v(v:pk(A),pk(B)))), script level: witness `[sig_B, sig_A, script]`; ANY flag set with WITNESS -/
theorem verify_wsh_andvPkPk (env : VerifyEnv) (h a b sa sb : Bytes) (hl : h.length = 32)
    (hW : has env.flags FLAG_WITNESS = true) (hnz : castToBool h = true)
    (hh : env.hashes.sha256 (andvPkPk a b) = h)
    (hea : checkSignatureEncoding env.flags sa = .ok ()) (heb : checkSignatureEncoding env.flags sb = .ok ())
    (hla : sa.length ≤ 520) (hlb : sb.length ≤ 520)
    (hka : isCompressedPubKey a = true) (hkb : isCompressedPubKey b = true)
    (hsa : env.checker.checkECDSA sa a (andvPkPk a b) .WITNESS_V0 = .ok true)
    (hsb : env.checker.checkECDSA sb b (andvPkPk a b) .WITNESS_V0 = .ok true) :
    verifyScript env [] (wshSpk h) [sb, sa, andvPkPk a b] = .ok () := by
  have e := evalWith_andvPkPk_v0 env a b sa sb hea heb hka hkb hsa hsb
  have ha' : ¬ (520 < sa.length) := by omega
  have hb' : ¬ (520 < sb.length) := by omega
  have hT : castToBool [1] = true := by decide
  have hex : executeWitnessScript env [sb, sa].reverse (andvPkPk a b) .WITNESS_V0 0 = .ok () := by
    unfold executeWitnessScript
    simp [MAX_SCRIPT_ELEMENT_SIZE, ha', hb', e, hT, Except.bind, bind, pure, Except.pure]
  exact verify_p2wsh_of env h (andvPkPk a b) [sb, sa] hl hW hnz hh hex

end Btc.Spend.Eval
