import Props.C10
import Proofs.C10.ExampleSchnorr
/-
C10 — `closure_taproot_key_secp256k1` is not vacuous: a concrete key-path spend with EVERY hypothesis discharged by the
kernel (real SHA-256, BIP340 tagged hashes, secp256k1 arithmetic).  Kept OUT of `Props.C10`'s imports because
`ExampleSchnorr` costs about 11 minutes of kernel time whenever a model under `Model/C10/Engine.lean` changes; build on
demand: `tools/lb Proofs.C10.ExampleTapKey`.
-/
namespace Props.C10
open Btc Btc.Script Btc.Script.Core Btc.Sighash Btc.Spend Btc.Spend.Eval

example : verifyScript (envOf secpCrypto Gen.Spend.EVERY_FLAG Ex.cxT) [] (p2tr Ex.prog) [Ex.sig64 ++ []] = .ok () :=
  closure_taproot_key_secp256k1 Gen.Spend.EVERY_FLAG Ex.cxT Ex.prog 0 (by decide) (by decide) (by decide) (by decide)
    Ex.hdefT 4 Ex.q (List.replicate 32 0) Ex.sgT Ex.hsignT Ex.sig64 Ex.hserT Ex.hpkT

end Props.C10
