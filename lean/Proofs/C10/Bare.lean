import Proofs.C10.Wsh
/-
C10 — T1 for bare k-of-n multisig (`k <keys> n CHECKMULTISIG` as the scriptPubKey): scriptSig `OP_0 <sig_1> … <sig_k>`.
-/
namespace Btc.Spend.Eval

open Btc Btc.Script Btc.Script.Core

def op0 : Op := ⟨0, [], [0]⟩

theorem step_op0 (cx : Ctx) (st : State) (hv : st.vfExec = []) (hsz : st.m.stack.length + st.m.alt.length + 1 ≤ 1000) :
    ∃ st', step cx st op0 = .ok st' ∧ Same st st' ([] :: st.m.stack) := by
  obtain ⟨m, vf, pos, opos⟩ := st
  obtain ⟨stk, alt, oc, cs, csp, wl⟩ := m
  simp only at hv hsz
  subst hv
  have hs' : ¬ (1000 < stk.length + 1 + alt.length) := by omega
  have hmin0 : checkMinimalPush [] 0 = true := by simp [checkMinimalPush]
  have hstep : step cx ⟨⟨stk, alt, oc, cs, csp, wl⟩, [], pos, opos⟩ op0 =
      .ok ⟨⟨[] :: stk, alt, oc, cs, csp, wl⟩, [], pos + 1, opos + 1⟩ := by
    simp [step, stepChecks, stepExec, stepFinish, op0, isDisabled, DISABLED, hmin0, hs',
      MAX_SCRIPT_ELEMENT_SIZE, MAX_STACK_SIZE, OP_CODESEPARATOR, Except.bind]
  exact ⟨_, hstep, ⟨rfl, rfl, rfl, rfl, rfl⟩⟩

theorem flatMap_push_le : ∀ (ds : List Bytes), (∀ d ∈ ds, d.length ≤ 75) → (ds.flatMap pushData).length ≤ 76 * ds.length
  | [], _ => by simp
  | d :: ds, h => by
    have hd := h d (by simp)
    have ih := flatMap_push_le ds (fun y hy => h y (by simp [hy]))
    rw [List.flatMap_cons, List.length_append, pushData_short d (by omega)]
    simp only [List.length_cons]; omega

/-- the multisig scriptSig `OP_0 <sig_1> … <sig_k>` is push-only and leaves `[sig_k … sig_1, dummy]` -/
theorem evalWith_dummySigs (env : VerifyEnv) (sigs : List Bytes) (hs : ∀ s ∈ sigs, 2 ≤ s.length ∧ s.length ≤ 75)
    (hk : sigs.length ≤ 16) :
    evalWith (evalCtx env .BASE (0x00 :: sigs.flatMap pushData)) [] 0 = .ok (sigs.reverse ++ [[]]) ∧
    isPushOnly (0x00 :: sigs.flatMap pushData) = true := by
  have hp : parse (0x00 :: sigs.flatMap pushData) = (op0 :: sigs.map pushOp, []) := by
    have g : getOp (0x00 :: sigs.flatMap pushData) = some (op0, sigs.flatMap pushData) := by simp [getOp, op0]
    have pp := parse_pushes sigs [] (fun d hd => ⟨by have := hs d hd; omega, (hs d hd).2⟩)
    have pn : parse [] = ([], []) := by simp [parse, parseOps]
    rw [parse_cons _ _ _ g]
    simp only [List.append_nil, pn] at pp
    rw [pp]
  let cx := evalCtx env .BASE (0x00 :: sigs.flatMap pushData)
  let st0 : State := { m := { stack := [], weightLeft := 0 } }
  obtain ⟨st1, e1, s1⟩ := step_op0 cx st0 rfl (by simp [st0])
  obtain ⟨st2, e2, s2⟩ := run_pushes cx sigs st1 hs (by rw [s1.vfExec]) (by rw [s1.stack, s1.alt]; simp [st0]; omega)
  have hrun : run (evalCtx env .BASE (0x00 :: sigs.flatMap pushData)) (op0 :: sigs.map pushOp)
      { m := { stack := [], weightLeft := 0 } } = .ok st2 := by
    show run cx (op0 :: sigs.map pushOp) st0 = .ok st2
    simp only [run, e1, Except.bind, e2]
  have hlen := flatMap_push_le sigs (fun d hd => (hs d hd).2)
  have hsz : ¬ ((0x00 :: sigs.flatMap pushData).length > MAX_SCRIPT_SIZE) := by
    simp only [List.length_cons, MAX_SCRIPT_SIZE]; omega
  have es : (evalCtx env .BASE (0x00 :: sigs.flatMap pushData)).script = 0x00 :: sigs.flatMap pushData := rfl
  refine ⟨?_, ?_⟩
  · unfold evalWith
    simp only [es, hp, hsz, decide_false, Bool.and_false, hrun]
    have hv : st2.vfExec = [] := by rw [s2.vfExec, s1.vfExec]
    have hst : st2.m.stack = sigs.reverse ++ [[]] := by rw [s2.stack, s1.stack]
    simp [hv, hst]
  · simp only [isPushOnly, hp]
    have hall : (sigs.map pushOp).all (fun op => decide (op.code ≤ 0x60)) = true := by
      rw [List.all_eq_true]
      intro op hop
      obtain ⟨d, hd, rfl⟩ := List.mem_map.mp hop
      have h75 := (hs d hd).2
      have h96 : d.length ≤ 96 := Nat.le_trans h75 (by decide)
      simp only [pushOp]
      exact decide_eq_true h96
    simp [op0, hall]

/-- T1 (bare multisig), script level, ANY flag set.  `hsc`: the FindAndDelete pass over the signatures leaves the script
    code alone (a pushed signature occurs at an instruction boundary only as one of the key pushes). -/
theorem verify_bare_multisig (env : VerifyEnv) (keys sigs : List Bytes)
    (hn : 1 ≤ keys.length ∧ keys.length ≤ 16) (hk : 1 ≤ sigs.length ∧ sigs.length ≤ keys.length)
    (hkeys : ∀ x ∈ keys, isCompressedPubKey x = true) (hs : ∀ s ∈ sigs, 2 ≤ s.length ∧ s.length ≤ 75)
    (hsc : multisigScriptCode (evalCtx env .BASE (msScript sigs.length keys)) sigs.reverse (msScript sigs.length keys) =
      .ok (msScript sigs.length keys))
    (hal : Aligned (chkOk (evalCtx env .BASE (msScript sigs.length keys)) (msScript sigs.length keys)) sigs keys)
    (henc : ∀ s ∈ sigs, checkSignatureEncoding env.flags s = .ok ())
    (htot : ∀ s ∈ sigs, ∀ x ∈ keys, ∃ b, env.checker.checkECDSA s x (msScript sigs.length keys) .BASE = .ok b) :
    verifyScript env (0x00 :: sigs.flatMap pushData) (msScript sigs.length keys) [] = .ok () := by
  obtain ⟨e0, hpo⟩ := evalWith_dummySigs env sigs hs (by omega)
  have e1 := evalWith_multisig env .BASE (Or.inl rfl) keys sigs hn hk hkeys hsc hal henc htot
  have hlen33 : ∀ x ∈ keys, x.length = 33 := fun x hx => by
    have := hkeys x hx
    simp only [isCompressedPubKey, Bool.and_eq_true, beq_iff_eq] at this; exact this.1
  have hlen := msScript_length sigs.length keys hlen33
  have hsh : isPayToScriptHash (msScript sigs.length keys) = false := by
    have : (34 * keys.length + 3 == 23) = false := by simp; omega
    simp [isPayToScriptHash, hlen, this]
  have hwn : isWitnessProgram (msScript sigs.length keys) = none := by
    obtain ⟨x, xs, rfl⟩ : ∃ x xs, keys = x :: xs := by
      cases keys with
      | nil => simp at hn
      | cons x xs => exact ⟨x, xs, rfl⟩
    have hx := hlen33 x (by simp)
    have g1 : getB (msScript sigs.length (x :: xs)) 1 = 33 := by
      simp [msScript, getB, pushData_short x (by omega), hx]
    unfold isWitnessProgram
    simp only [hlen, g1]
    split
    · rfl
    · split
      · rfl
      · rw [if_neg (by simp only [List.length_cons]; omega)]
  have hT : castToBool [1] = true := by decide
  unfold verifyScript
  simp [e0, e1, hwn, hsh, hpo, requireTrueTop, hT, Except.bind, bind, pure, Except.pure]

end Btc.Spend.Eval
