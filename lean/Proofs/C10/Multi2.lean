import Proofs.C10.Multi
/-
C10 — `EvalScript` of `k <keys> n CHECKMULTISIG` on `[sig_k … sig_1, dummy]`.
-/
namespace Btc.Spend.Eval

open Btc Btc.Script Btc.Script.Core

def opN (k : Nat) : Op := ⟨0x50 + k, [], [UInt8.ofNat (0x50 + k)]⟩
def opCMS : Op := ⟨0xae, [], [0xae]⟩

theorem small_cases (k : Nat) (h : 1 ≤ k ∧ k ≤ 16) :
    k = 1 ∨ k = 2 ∨ k = 3 ∨ k = 4 ∨ k = 5 ∨ k = 6 ∨ k = 7 ∨ k = 8 ∨ k = 9 ∨ k = 10 ∨ k = 11 ∨ k = 12 ∨ k = 13 ∨
      k = 14 ∨ k = 15 ∨ k = 16 := by omega

/-- `CScriptNum` reads back what OP_1 … OP_16 push, minimally encoded -/
theorem num_numBytes (cx : Ctx) (k : Nat) (h : 1 ≤ k ∧ k ≤ 16) : num cx (numBytes (k : Int)) = .ok (k : Int) := by
  unfold num
  cases has cx.flags FLAG_MINIMALDATA <;>
  rcases small_cases k h with rfl | rfl | rfl | rfl | rfl | rfl | rfl | rfl | rfl | rfl | rfl | rfl | rfl | rfl | rfl | rfl <;>
  rfl

theorem step_opN (cx : Ctx) (st : State) (k : Nat) (hk : 1 ≤ k ∧ k ≤ 16)
    (hv : st.vfExec = []) (hsz : st.m.stack.length + st.m.alt.length + 1 ≤ 1000) :
    ∃ st', step cx st (opN k) = .ok st' ∧ Same st st' (numBytes (k : Int) :: st.m.stack) := by
  obtain ⟨m, vf, pos, opos⟩ := st
  obtain ⟨stk, alt, oc, cs, csp, wl⟩ := m
  simp only at hv hsz
  subst hv
  have hs' : ¬ (1000 < stk.length + 1 + alt.length) := by omega
  have hstep : step cx ⟨⟨stk, alt, oc, cs, csp, wl⟩, [], pos, opos⟩ (opN k) =
      .ok ⟨⟨numBytes (k : Int) :: stk, alt, oc, cs, csp, wl⟩, [], pos + 1, opos + 1⟩ := by
    rcases small_cases k hk with rfl | rfl | rfl | rfl | rfl | rfl | rfl | rfl | rfl | rfl | rfl | rfl | rfl | rfl | rfl | rfl <;>
    simp [step, stepChecks, stepExec, stepFinish, opN, execPlain, execStackOp, isDisabled, DISABLED, inConditionalRange,
      hs', MAX_SCRIPT_ELEMENT_SIZE, MAX_STACK_SIZE, OP_CODESEPARATOR, OP_IF, OP_ENDIF, Except.bind, Except.map]
  exact ⟨_, hstep, ⟨rfl, rfl, rfl, rfl, rfl⟩⟩

theorem step_cms (cx : Ctx) (hsv : cx.sigversion = .BASE ∨ cx.sigversion = .WITNESS_V0) (st : State)
    (keys sigs : List Bytes) (hn : 1 ≤ keys.length ∧ keys.length ≤ 16) (hk : 1 ≤ sigs.length ∧ sigs.length ≤ keys.length)
    (hstack : st.m.stack =
      numBytes (keys.length : Int) :: (keys.reverse ++ (numBytes (sigs.length : Int) :: (sigs.reverse ++ [[]]))))
    (halt : st.m.alt = []) (hoc : st.m.opCount + 1 + keys.length ≤ 201) (hcs : st.m.codeStart = 0)
    (hv : st.vfExec = [])
    (hsc : multisigScriptCode cx sigs.reverse cx.script = .ok cx.script)
    (hloop : multisigLoop cx cx.script (keys.length + sigs.length + 1) sigs.reverse keys.reverse = .ok true) :
    ∃ st', step cx st opCMS = .ok st' ∧ st'.m.stack = [[1]] ∧ st'.vfExec = [] := by
  obtain ⟨m, vf, pos, opos⟩ := st
  obtain ⟨stk, alt, oc, cs, csp, wl⟩ := m
  simp only at hstack halt hoc hcs hv
  subst hstack halt hcs hv
  have hnum1 := num_numBytes cx keys.length hn
  have hnum2 := num_numBytes cx sigs.length ⟨hk.1, by omega⟩
  have hnt : cx.sigversion ≠ .TAPSCRIPT := by rcases hsv with e | e <;> rw [e] <;> decide
  have hcnt : (cx.sigversion == .BASE || cx.sigversion == .WITNESS_V0) = true := by
    rcases hsv with e | e <;> rw [e] <;> decide
  have t1 : (keys.reverse ++ (numBytes (sigs.length : Int) :: (sigs.reverse ++ [[]]))).take keys.length = keys.reverse :=
    List.take_left' (by simp)
  have d1 : (keys.reverse ++ (numBytes (sigs.length : Int) :: (sigs.reverse ++ [[]]))).drop keys.length =
      numBytes (sigs.length : Int) :: (sigs.reverse ++ [[]]) := List.drop_left' (by simp)
  have t2 : (sigs.reverse ++ [([] : Bytes)]).take sigs.length = sigs.reverse := List.take_left' (by simp)
  have d2 : (sigs.reverse ++ [([] : Bytes)]).drop sigs.length = [[]] := List.drop_left' (by simp)
  have a1 : ¬ (oc + 1 > 201) := by omega
  have a2 : ¬ (oc + 1 + keys.length > 201) := by omega
  have a3 : ¬ ((keys.length : Int) < 0 ∨ (keys.length : Int) > 20) := by omega
  have a4 : ¬ ((sigs.length : Int) < 0 ∨ (sigs.length : Int) > (keys.length : Int)) := by omega
  have a4' : ¬ ((sigs.length : Int) < 0 ∨ keys.length < sigs.length) := by omega
  have a5 : ¬ (keys.length + (sigs.length + 1 + 1) < keys.length + 1) := by omega
  have a6 : ¬ (sigs.length + 1 < sigs.length + 1) := by omega
  have hstep : step cx ⟨⟨numBytes (keys.length : Int) :: (keys.reverse ++ (numBytes (sigs.length : Int) ::
        (sigs.reverse ++ [[]]))), [], oc, 0, csp, wl⟩, [], pos, opos⟩ opCMS =
      .ok ⟨⟨[[1]], [], oc + 1 + keys.length, 0, csp, wl⟩, [], pos + 1, opos + 1⟩ := by
    simp [step, stepChecks, stepExec, stepFinish, opCMS, execPlain, execStackOp, execMultisig, isDisabled, DISABLED,
      inConditionalRange, hcnt, hnt, hnum1, hnum2, t1, d1, t2, d2, a1, a2, a3, a4, a4', a5, a6, hsc, hloop,
      MAX_SCRIPT_ELEMENT_SIZE, MAX_STACK_SIZE, MAX_OPS_PER_SCRIPT, MAX_PUBKEYS_PER_MULTISIG,
      OP_CODESEPARATOR, OP_IF, OP_ENDIF, OP_CHECKSIG, OP_CHECKSIGVERIFY, OP_CHECKSIGADD, OP_CHECKMULTISIG,
      OP_CHECKMULTISIGVERIFY, ofBool, vchTrue, Except.bind, Except.map, bind, pure, Except.pure]
  exact ⟨_, hstep, rfl, rfl⟩

/-- `k <keys> n CHECKMULTISIG` -/
def msScript (k : Nat) (keys : List Bytes) : Bytes :=
  UInt8.ofNat (0x50 + k) :: (keys.flatMap pushData ++ [UInt8.ofNat (0x50 + keys.length), 0xae])

theorem multisig_eq (k : Nat) (keys : List Bytes) : Spend.multisig k keys = msScript k keys := rfl

theorem flatMap_push_length : ∀ (keys : List Bytes), (∀ x ∈ keys, x.length = 33) →
    (keys.flatMap pushData).length = 34 * keys.length
  | [], _ => rfl
  | x :: xs, h => by
    have hx := h x (by simp)
    have ih := flatMap_push_length xs (fun y hy => h y (by simp [hy]))
    rw [List.flatMap_cons, List.length_append, ih, pushData_short x (by omega)]
    simp only [List.length_cons, hx]; omega

theorem msScript_length (k : Nat) (keys : List Bytes) (h : ∀ x ∈ keys, x.length = 33) :
    (msScript k keys).length = 34 * keys.length + 3 := by
  simp [msScript, flatMap_push_length keys h]

theorem toNat_opN (k : Nat) (hk : k ≤ 16) : (UInt8.ofNat (0x50 + k)).toNat = 0x50 + k := by
  simp [UInt8.toNat_ofNat']; omega

theorem parse_msScript (k : Nat) (keys : List Bytes) (hk : 1 ≤ k ∧ k ≤ 16) (hn : 1 ≤ keys.length ∧ keys.length ≤ 16)
    (hkeys : ∀ x ∈ keys, x.length = 33) :
    parse (msScript k keys) = (opN k :: (keys.map pushOp ++ [opN keys.length, opCMS]), []) := by
  have c1 := toNat_opN k hk.2
  have c2 := toNat_opN keys.length hn.2
  have g1 : getOp (msScript k keys) =
      some (opN k, keys.flatMap pushData ++ [UInt8.ofNat (0x50 + keys.length), 0xae]) := by
    have : ¬ (0x50 + k = 0) ∧ 78 < 0x50 + k := by omega
    have hm : (80 + k) % 256 = 80 + k := by omega
    simp [msScript, getOp, hm, opN, this]
  have ptail : parse [UInt8.ofNat (0x50 + keys.length), 0xae] = ([opN keys.length, opCMS], []) := by
    have : ¬ (0x50 + keys.length = 0) ∧ 78 < 0x50 + keys.length := by omega
    have hm : (80 + keys.length) % 256 = 80 + keys.length := by omega
    simp [parse, parseOps, getOp, hm, opN, opCMS, this]
  rw [parse_cons _ _ _ g1, parse_pushes keys _ (fun x hx => by rw [hkeys x hx]; omega), ptail]

/-- `EvalScript` of the multisig script on the stack the finalizer's pushes leave: `true` -/
theorem evalWith_multisig (env : VerifyEnv) (sv : SigVersion) (hsv : sv = .BASE ∨ sv = .WITNESS_V0)
    (keys sigs : List Bytes) (hn : 1 ≤ keys.length ∧ keys.length ≤ 16) (hk : 1 ≤ sigs.length ∧ sigs.length ≤ keys.length)
    (hkeys : ∀ x ∈ keys, isCompressedPubKey x = true)
    (hsc : multisigScriptCode (evalCtx env sv (msScript sigs.length keys)) sigs.reverse (msScript sigs.length keys) =
      .ok (msScript sigs.length keys))
    (hal : Aligned (chkOk (evalCtx env sv (msScript sigs.length keys)) (msScript sigs.length keys)) sigs keys)
    (henc : ∀ s ∈ sigs, checkSignatureEncoding env.flags s = .ok ())
    (htot : ∀ s ∈ sigs, ∀ x ∈ keys, ∃ b, env.checker.checkECDSA s x (msScript sigs.length keys) sv = .ok b) :
    evalWith (evalCtx env sv (msScript sigs.length keys)) (sigs.reverse ++ [[]]) 0 = .ok [[1]] := by
  have hk16 : 1 ≤ sigs.length ∧ sigs.length ≤ 16 := ⟨hk.1, by omega⟩
  have hlen33 : ∀ x ∈ keys, x.length = 33 := fun x hx => by
    have := hkeys x hx
    simp only [isCompressedPubKey, Bool.and_eq_true, beq_iff_eq] at this; exact this.1
  let cx := evalCtx env sv (msScript sigs.length keys)
  have hcsv : cx.sigversion = .BASE ∨ cx.sigversion = .WITNESS_V0 := hsv
  have hloop : multisigLoop cx cx.script (keys.length + sigs.length + 1) sigs.reverse keys.reverse = .ok true :=
    multisigLoop_aligned cx cx.script keys.reverse sigs.reverse _ (by simp; omega) hal.reverse
      (fun s hs => henc s (by simpa using hs))
      (fun x hx => checkPubKeyEncoding_compressed _ _ x (hkeys x (by simpa using hx)))
      (fun s hs x hx => htot s (by simpa using hs) x (by simpa using hx))
  let st0 : State := { m := { stack := sigs.reverse ++ [[]], weightLeft := 0 } }
  obtain ⟨st1, e1, s1⟩ := step_opN cx st0 sigs.length hk16 rfl (by simp [st0]; omega)
  obtain ⟨st2, e2, s2⟩ := run_pushes cx keys st1 (fun x hx => by rw [hlen33 x hx]; omega) (by rw [s1.vfExec])
    (by rw [s1.stack, s1.alt]; simp [st0]; omega)
  obtain ⟨st3, e3, s3⟩ := step_opN cx st2 keys.length hn (by rw [s2.vfExec, s1.vfExec])
    (by rw [s2.stack, s2.alt, s1.stack, s1.alt]; simp [st0]; omega)
  have s03 := (s1.trans s2).trans s3
  obtain ⟨st4, e4, hst, hvf⟩ := step_cms cx hcsv st3 keys sigs hn hk
    (by rw [s3.stack, s2.stack, s1.stack])
    (by rw [s03.alt]) (by rw [s03.opCount]; simp [st0]; omega) (by rw [s03.codeStart]) (by rw [s03.vfExec])
    hsc hloop
  have hrun : run cx (opN sigs.length :: (keys.map pushOp ++ [opN keys.length, opCMS])) st0 = .ok st4 := by
    simp only [run, e1, Except.bind, run_append, e2, e3, e4]
  have hsz : ¬ ((msScript sigs.length keys).length > MAX_SCRIPT_SIZE) := by
    rw [msScript_length _ _ hlen33]; simp [MAX_SCRIPT_SIZE]; omega
  have hrun' : run (evalCtx env sv (msScript sigs.length keys))
      (opN sigs.length :: (keys.map pushOp ++ [opN keys.length, opCMS]))
      { m := { stack := sigs.reverse ++ [[]], weightLeft := 0 } } = .ok st4 := hrun
  have es : (evalCtx env sv (msScript sigs.length keys)).script = msScript sigs.length keys := rfl
  unfold evalWith
  simp only [es, parse_msScript sigs.length keys hk16 hn hlen33, hsz, decide_false, Bool.and_false, hrun']
  simp [hvf, hst]

end Btc.Spend.Eval
