import Proofs.C10.Multi2
import Model.C10.MultiA
/-
C10 — T1 for a taproot script-path spend with a `multi_a(k, keys…)` leaf (BIP387): the CHECKSIG / CHECKSIGADD chain by
induction over the key list, `OP_k NUMEQUAL`, BIP342's sigops budget, and a generic "tapscript leaf" wrapper of
`VerifyScript` (any leaf script `ExecuteWitnessScript` accepts).
-/
namespace Btc.Spend.Eval

open Btc Btc.Script Btc.Script.Core

def opCS : Op := ⟨0xac, [], [0xac]⟩
def opCSA : Op := ⟨0xba, [], [0xba]⟩
def opNE : Op := ⟨0x9c, [], [0x9c]⟩

/-- what one witness element adds to the count: an empty vector nothing, a signature one -/
def bOf (e : Bytes) : Nat := if e.isEmpty then 0 else 1

/-- the element offered for `key`: the empty vector, or a signature the Schnorr oracle accepts for it under BIP342 -/
def ElemOk (chk : Checker) (key e : Bytes) : Prop :=
  e = [] ∨ (e.isEmpty = false ∧ chk.checkSchnorr e key .TAPSCRIPT 0xFFFFFFFF = none)

theorem num_small (cx : Ctx) (c : Nat) (h : c ≤ 16) : num cx (numBytes (c : Int)) = .ok (c : Int) := by
  by_cases h0 : c = 0
  · subst h0; unfold num; cases has cx.flags FLAG_MINIMALDATA <;> rfl
  · exact num_numBytes cx c ⟨by omega, h⟩

theorem step_key_cs (cx : Ctx) (hsv : cx.sigversion = .TAPSCRIPT) (key e : Bytes) (rest alt : List Bytes) (oc cs : Nat)
    (wl : Int) (pos opos : Nat) (hk : key.length = 32) (he : ElemOk cx.checker key e) (hw : 50 * (bOf e : Int) ≤ wl)
    (hsz : rest.length + alt.length + 2 ≤ 1000) :
    run cx [pushOp key, opCS] ⟨⟨e :: rest, alt, oc, cs, 0xFFFFFFFF, wl⟩, [], pos, opos⟩ =
      .ok ⟨⟨numBytes (bOf e : Int) :: rest, alt, oc, cs, 0xFFFFFFFF, wl - 50 * (bOf e : Int)⟩, [], pos + 33 + 1,
        opos + 1 + 1⟩ := by
  have hmin : checkMinimalPush key 32 = true := by
    have := checkMinimalPush_len key (by omega) (by omega); rwa [hk] at this
  have hs1 : ¬ (1000 < rest.length + 1 + 1 + alt.length) := by omega
  have hs2 : ¬ (1000 < rest.length + 1 + alt.length) := by omega
  have n1 : numBytes (1 : Int) = [1] := by decide
  have n0 : numBytes (0 : Int) = [] := by decide
  rcases he with rfl | ⟨hne, hsig⟩
  · simp [run, step, stepChecks, stepExec, stepFinish, pushOp, opCS, execPlain, execStackOp, evalChecksig,
      evalChecksigTapscript, isDisabled, DISABLED, inConditionalRange, hsv, hk, hmin, hs1, hs2, bOf, n0,
      MAX_SCRIPT_ELEMENT_SIZE, MAX_STACK_SIZE, OP_IF, OP_ENDIF, OP_CODESEPARATOR, OP_CHECKSIG, OP_CHECKSIGVERIFY,
      ofBool, vchTrue, vchFalse, Except.bind, Except.map, bind, pure, Except.pure]
  · have hb : bOf e = 1 := by simp [bOf, hne]
    rw [hb] at hw ⊢
    have hw' : ¬ (wl - 50 < 0) := by omega
    simp [run, step, stepChecks, stepExec, stepFinish, pushOp, opCS, execPlain, execStackOp, evalChecksig,
      evalChecksigTapscript, isDisabled, DISABLED, inConditionalRange, hsv, hk, hmin, hs1, hs2, hne, hsig, hw', n1,
      VALIDATION_WEIGHT_PER_SIGOP_PASSED,
      MAX_SCRIPT_ELEMENT_SIZE, MAX_STACK_SIZE, OP_IF, OP_ENDIF, OP_CODESEPARATOR, OP_CHECKSIG, OP_CHECKSIGVERIFY,
      ofBool, vchTrue, vchFalse, Except.bind, Except.map, bind, pure, Except.pure]

theorem step_key_csa (cx : Ctx) (hsv : cx.sigversion = .TAPSCRIPT) (key e : Bytes) (c : Nat) (rest alt : List Bytes)
    (oc cs : Nat) (wl : Int) (pos opos : Nat) (hk : key.length = 32) (hc : c + bOf e ≤ 16) (he : ElemOk cx.checker key e)
    (hw : 50 * (bOf e : Int) ≤ wl) (hsz : rest.length + alt.length + 3 ≤ 1000) :
    run cx [pushOp key, opCSA] ⟨⟨numBytes (c : Int) :: e :: rest, alt, oc, cs, 0xFFFFFFFF, wl⟩, [], pos, opos⟩ =
      .ok ⟨⟨numBytes ((c + bOf e : Nat) : Int) :: rest, alt, oc, cs, 0xFFFFFFFF, wl - 50 * (bOf e : Int)⟩, [],
        pos + 33 + 1, opos + 1 + 1⟩ := by
  have hmin : checkMinimalPush key 32 = true := by
    have := checkMinimalPush_len key (by omega) (by omega); rwa [hk] at this
  have hs1 : ¬ (1000 < rest.length + 1 + 1 + 1 + alt.length) := by omega
  have hs2 : ¬ (1000 < rest.length + 1 + alt.length) := by omega
  have hnum := num_small cx c (by omega)
  rcases he with rfl | ⟨hne, hsig⟩
  · simp [run, step, stepChecks, stepExec, stepFinish, pushOp, opCSA, execPlain, execStackOp, evalChecksig,
      evalChecksigTapscript, isDisabled, DISABLED, inConditionalRange, hsv, hk, hmin, hs1, hs2, bOf, hnum, b2i,
      MAX_SCRIPT_ELEMENT_SIZE, MAX_STACK_SIZE, OP_IF, OP_ENDIF, OP_CODESEPARATOR, OP_CHECKSIG, OP_CHECKSIGVERIFY,
      OP_CHECKSIGADD, Except.bind, Except.map, bind, pure, Except.pure]
  · have hb : bOf e = 1 := by simp [bOf, hne]
    rw [hb] at hw ⊢
    have hw' : ¬ (wl - 50 < 0) := by omega
    simp [run, step, stepChecks, stepExec, stepFinish, pushOp, opCSA, execPlain, execStackOp, evalChecksig,
      evalChecksigTapscript, isDisabled, DISABLED, inConditionalRange, hsv, hk, hmin, hs1, hs2, hne, hsig, hw', hnum,
      b2i, VALIDATION_WEIGHT_PER_SIGOP_PASSED,
      MAX_SCRIPT_ELEMENT_SIZE, MAX_STACK_SIZE, OP_IF, OP_ENDIF, OP_CODESEPARATOR, OP_CHECKSIG, OP_CHECKSIGVERIFY,
      OP_CHECKSIGADD, Except.bind, Except.map, bind, pure, Except.pure]

/-- the signatures counted along a list of (key, element) pairs -/
def cntOf (ps : List (Bytes × Bytes)) : Nat := (ps.map fun p => bOf p.2).sum

/-- the CHECKSIGADD chain, by induction over the remaining keys -/
theorem run_csa_chain (cx : Ctx) (hsv : cx.sigversion = .TAPSCRIPT) :
    ∀ (ps : List (Bytes × Bytes)) (c : Nat) (rest alt : List Bytes) (oc cs : Nat) (wl : Int) (pos opos : Nat),
    (∀ p ∈ ps, p.1.length = 32 ∧ ElemOk cx.checker p.1 p.2) → c + cntOf ps ≤ 16 → 50 * (cntOf ps : Int) ≤ wl →
    rest.length + ps.length + alt.length + 2 ≤ 1000 →
    ∃ pos' opos', run cx (ps.flatMap fun p => [pushOp p.1, opCSA])
        ⟨⟨numBytes (c : Int) :: (ps.map (·.2) ++ rest), alt, oc, cs, 0xFFFFFFFF, wl⟩, [], pos, opos⟩ =
      .ok ⟨⟨numBytes ((c + cntOf ps : Nat) : Int) :: rest, alt, oc, cs, 0xFFFFFFFF, wl - 50 * (cntOf ps : Int)⟩, [],
        pos', opos'⟩
  | [], c, rest, alt, oc, cs, wl, pos, opos, _, _, _, _ => ⟨pos, opos, by simp [run, cntOf]⟩
  | p :: ps, c, rest, alt, oc, cs, wl, pos, opos, hp, hc, hw, hsz => by
    have h1 := hp p (by simp)
    have ec : cntOf (p :: ps) = bOf p.2 + cntOf ps := by simp [cntOf]
    rw [ec] at hc hw
    simp only [List.length_cons] at hsz
    have s1 := step_key_csa cx hsv p.1 p.2 c (ps.map (·.2) ++ rest) alt oc cs wl pos opos h1.1 (by omega) h1.2
      (by push_cast at hw; omega) (by simp; omega)
    obtain ⟨pos', opos', ih⟩ := run_csa_chain cx hsv ps (c + bOf p.2) rest alt oc cs (wl - 50 * (bOf p.2 : Int))
      (pos + 33 + 1) (opos + 1 + 1) (fun q hq => hp q (by simp [hq])) (by omega) (by push_cast at hw ⊢; omega) (by omega)
    refine ⟨pos', opos', ?_⟩
    have e1 : (p :: ps).flatMap (fun p => [pushOp p.1, opCSA]) =
        [pushOp p.1, opCSA] ++ ps.flatMap (fun p => [pushOp p.1, opCSA]) := by simp
    rw [e1, run_append]
    simp only [List.map_cons, List.cons_append, s1, Except.bind, ih, ec]
    have a1 : c + bOf p.2 + cntOf ps = c + (bOf p.2 + cntOf ps) := by omega
    have a2 : wl - 50 * (bOf p.2 : Int) - 50 * (cntOf ps : Int) = wl - 50 * ((bOf p.2 + cntOf ps : Nat) : Int) := by
      push_cast; omega
    rw [a1, a2]

/-- `OP_k NUMEQUAL` on the count `k` -/
theorem run_threshold (cx : Ctx) (hsv : cx.sigversion = .TAPSCRIPT) (k : Nat) (hk : 1 ≤ k ∧ k ≤ 16) (rest alt : List Bytes)
    (oc cs csp : Nat) (wl : Int) (pos opos : Nat) (hsz : rest.length + alt.length + 2 ≤ 1000) :
    ∃ st', run cx [opN k, opNE] ⟨⟨numBytes (k : Int) :: rest, alt, oc, cs, csp, wl⟩, [], pos, opos⟩ = .ok st' ∧
      st'.m.stack = [1] :: rest ∧ st'.vfExec = [] := by
  have hnum := num_small cx k hk.2
  have hs1 : ¬ (1000 < rest.length + 1 + 1 + alt.length) := by omega
  have hs2 : ¬ (1000 < rest.length + 1 + alt.length) := by omega
  refine ⟨⟨⟨[1] :: rest, alt, oc, cs, csp, wl⟩, [], pos + 1 + 1, opos + 1 + 1⟩, ?_, rfl, rfl⟩
  have n1 : numBytes (1 : Int) = [1] := by decide
  have hn1 : num cx [1] = .ok 1 := by
    have := num_small cx 1 (by omega); push_cast at this; rwa [n1] at this
  rcases small_cases k hk with rfl | rfl | rfl | rfl | rfl | rfl | rfl | rfl | rfl | rfl | rfl | rfl | rfl | rfl | rfl | rfl <;>
  push_cast at hnum <;>
  simp [run, step, stepChecks, stepExec, stepFinish, opN, opNE, execPlain, execStackOp, binaryNum, isDisabled, DISABLED,
    inConditionalRange, hsv, hnum, hn1, hs1, hs2, n1, MAX_SCRIPT_ELEMENT_SIZE, MAX_STACK_SIZE, OP_CODESEPARATOR, OP_IF, OP_ENDIF,
    b2i, Except.bind, Except.map, bind, pure, Except.pure]

/-! ### parsing the leaf -/

theorem getOp_single (c : UInt8) (rest : Bytes) (h : 78 < c.toNat) : getOp (c :: rest) = some (⟨c.toNat, [], [c]⟩, rest) := by
  have : c.toNat = 0 ∨ 78 < c.toNat := Or.inr h
  simp [getOp, this]

theorem parse_csa : ∀ (xs : List Bytes) (tail : Bytes), (∀ x ∈ xs, x.length = 32) →
    parse (xs.flatMap (fun y => pushData y ++ [0xba]) ++ tail) =
      (xs.flatMap (fun y => [pushOp y, opCSA]) ++ (parse tail).1, (parse tail).2)
  | [], tail, _ => by simp
  | x :: xs, tail, h => by
    have hx := h x (by simp)
    have ih := parse_csa xs tail (fun y hy => h y (by simp [hy]))
    have g1 := getOp_push x (0xba :: (xs.flatMap (fun y => pushData y ++ [0xba]) ++ tail)) (by omega) (by omega)
    have g2 := getOp_single 0xba (xs.flatMap (fun y => pushData y ++ [0xba]) ++ tail) (by decide)
    have e : (x :: xs).flatMap (fun y => pushData y ++ [0xba]) ++ tail =
        pushData x ++ (0xba :: (xs.flatMap (fun y => pushData y ++ [0xba]) ++ tail)) := by simp
    rw [e, parse_cons _ _ _ g1, parse_cons _ _ _ g2, ih]
    simp [opCSA]

open Btc.Spend in
theorem parse_multiA (k : Nat) (hk : 1 ≤ k ∧ k ≤ 16) (x : Bytes) (xs : List Bytes) (h : ∀ y ∈ x :: xs, y.length = 32) :
    parse (multiAScript k (x :: xs)) =
      (pushOp x :: opCS :: (xs.flatMap (fun y => [pushOp y, opCSA]) ++ [opN k, opNE]), []) := by
  have hx := h x (by simp)
  have c1 := toNat_opN k hk.2
  have ptail : parse (multiAThreshold k ++ [0x9c]) = ([opN k, opNE], []) := by
    have hk16 : k ≤ 16 := hk.2
    have g1 : getOp (UInt8.ofNat (0x50 + k) :: [0x9c]) = some (opN k, [0x9c]) := by
      rw [getOp_single _ _ (by rw [c1]; omega), c1]; rfl
    have g2 : getOp [0x9c] = some (opNE, []) := getOp_single 0x9c [] (by decide)
    have pn : parse [] = ([], []) := by simp [parse, parseOps]
    simp only [multiAThreshold, hk16, if_true, Gen.Spend.MS_OP_BASE, List.singleton_append]
    rw [parse_cons _ _ _ g1, parse_cons _ _ _ g2, pn]
  have g0 := getOp_push x (0xac :: (xs.flatMap (fun y => pushData y ++ [0xba]) ++ (multiAThreshold k ++ [0x9c])))
    (by omega) (by omega)
  have g1 := getOp_single 0xac (xs.flatMap (fun y => pushData y ++ [0xba]) ++ (multiAThreshold k ++ [0x9c])) (by decide)
  unfold multiAScript
  rw [parse_cons _ _ _ g0, parse_cons _ _ _ g1, parse_csa xs _ (fun y hy => h y (by simp [hy])), ptail]
  simp [opCS]

/-! ### `ExecuteWitnessScript` of the leaf -/

/-- BIP342's budget: every signature element costs 50 and brings at least 65 bytes of witness -/
theorem weight_covers : ∀ (ps : List (Bytes × Bytes)), (∀ p ∈ ps, p.2 = [] ∨ 50 ≤ p.2.length) →
    50 * cntOf ps ≤ ((ps.map (·.2)).map fun e => (compactSize e.length).length + e.length).sum
  | [], _ => by simp [cntOf]
  | p :: ps, h => by
    have ih := weight_covers ps (fun q hq => h q (by simp [hq]))
    have ec : cntOf (p :: ps) = bOf p.2 + cntOf ps := by simp [cntOf]
    rw [ec]
    simp only [List.map_cons, List.sum_cons]
    have : 50 * bOf p.2 ≤ (compactSize p.2.length).length + p.2.length := by
      rcases h p (by simp) with e | e
      · simp [bOf, e]
      · unfold bOf; split <;> omega
    omega

open Btc.Spend in
/-- `ExecuteWitnessScript` of a `multi_a` leaf (threshold `1 ≤ k ≤ 16`, `1 ≤ n ≤ 999` x-only keys) on one element per
    key -- the first key's on top -- exactly `k` of which are signatures the oracle accepts, the rest empty vectors,
    given a validation-weight budget of 50 per signature -/
theorem execute_multi_a (env : VerifyEnv) (k : Nat) (hk : 1 ≤ k ∧ k ≤ 16) (ps : List (Bytes × Bytes)) (hn : 1 ≤ ps.length)
    (hn999 : ps.length ≤ 999)
    (hp : ∀ p ∈ ps, p.1.length = 32 ∧ ElemOk env.checker p.1 p.2) (hsl : ∀ p ∈ ps, p.2.length ≤ 520)
    (hcnt : cntOf ps = k) (weight : Int) (hw : 50 * (k : Int) ≤ weight) :
    executeWitnessScript env (ps.map (·.2)) (multiAScript k (ps.map (·.1))) .TAPSCRIPT weight = .ok () := by
  obtain ⟨p, ps', rfl⟩ : ∃ p ps', ps = p :: ps' := by
    cases ps with
    | nil => simp at hn
    | cons p ps' => exact ⟨p, ps', rfl⟩
  have hkeys : ∀ y ∈ (p :: ps').map (·.1), y.length = 32 := by
    intro y hy
    obtain ⟨q, hq, rfl⟩ := List.mem_map.mp hy
    exact (hp q hq).1
  have hparse := parse_multiA k hk p.1 (ps'.map (·.1)) (by simpa using hkeys)
  have ec : cntOf (p :: ps') = bOf p.2 + cntOf ps' := by simp [cntOf]
  rw [ec] at hcnt
  simp only [List.length_cons] at hn999
  let cx := evalCtx env .TAPSCRIPT (multiAScript k ((p :: ps').map (·.1)))
  have hsv : cx.sigversion = .TAPSCRIPT := rfl
  have h1 := hp p (by simp)
  have s1 := step_key_cs cx hsv p.1 p.2 (ps'.map (·.2)) [] 0 0 weight 0 0 h1.1 h1.2
    (by have : (bOf p.2 : Int) ≤ (k : Int) := by omega
        omega) (by simp; omega)
  obtain ⟨pos', opos', s2⟩ := run_csa_chain cx hsv ps' (bOf p.2) [] [] 0 0 (weight - 50 * (bOf p.2 : Int)) (0 + 33 + 1)
    (0 + 1 + 1) (fun q hq => hp q (by simp [hq])) (by omega)
    (by have : ((bOf p.2 + cntOf ps' : Nat) : Int) = (k : Int) := by rw [hcnt]
        push_cast at this; omega) (by simp; omega)
  rw [List.append_nil, hcnt] at s2
  obtain ⟨st3, s3, hst3, hvf3⟩ := run_threshold cx hsv k hk [] [] 0 0 0xFFFFFFFF
    (weight - 50 * (bOf p.2 : Int) - 50 * (cntOf ps' : Int)) pos' opos' (by simp)
  have hflat : (ps'.map (·.1)).flatMap (fun y => [pushOp y, opCSA]) = ps'.flatMap (fun q => [pushOp q.1, opCSA]) := by
    simp [List.flatMap_map]
  have hrun : run cx (pushOp p.1 :: opCS :: ((ps'.map (·.1)).flatMap (fun y => [pushOp y, opCSA]) ++ [opN k, opNE]))
      { m := { stack := (p :: ps').map (·.2), weightLeft := weight } } = .ok st3 := by
    have e : pushOp p.1 :: opCS :: ((ps'.map (·.1)).flatMap (fun y => [pushOp y, opCSA]) ++ [opN k, opNE]) =
        [pushOp p.1, opCS] ++ (ps'.flatMap (fun q => [pushOp q.1, opCSA]) ++ [opN k, opNE]) := by rw [hflat]; rfl
    rw [e, run_append]
    simp only [List.map_cons]
    rw [s1]
    simp only [Except.bind]
    rw [run_append, s2]
    simp only [Except.bind, s3]
  have hos : ∀ op ∈ pushOp p.1 :: opCS :: ((ps'.map (·.1)).flatMap (fun y => [pushOp y, opCSA]) ++ [opN k, opNE]),
      isOpSuccess op.code = false := by
    intro op hop
    simp only [List.mem_cons, List.mem_append, List.mem_flatMap, List.mem_map, List.mem_nil_iff, or_false] at hop
    rcases hop with rfl | rfl | ⟨y, ⟨q, hq, rfl⟩, rfl | rfl⟩ | rfl | rfl
    · simp only [pushOp, h1.1]; decide
    · decide
    · simp only [pushOp, (hp q (by simp [hq])).1]; decide
    · decide
    · rcases small_cases k hk with rfl | rfl | rfl | rfl | rfl | rfl | rfl | rfl | rfl | rfl | rfl | rfl | rfl | rfl | rfl | rfl <;>
        decide
    · decide
  have hany : ((p :: ps').map (·.2)).any (fun e => decide (e.length > MAX_SCRIPT_ELEMENT_SIZE)) = false := by
    rw [List.any_eq_false]
    intro e he
    obtain ⟨q, hq, rfl⟩ := List.mem_map.mp he
    have := hsl q hq
    simp [MAX_SCRIPT_ELEMENT_SIZE]; omega
  have hanyS : (pushOp p.1 :: opCS :: ((ps'.map (·.1)).flatMap (fun y => [pushOp y, opCSA]) ++ [opN k, opNE])).any
      (fun op => isOpSuccess op.code) = false := by
    rw [List.any_eq_false]; intro op hop; simp [hos op hop]
  have hlen : ¬ (((p :: ps').map (·.2)).length > MAX_STACK_SIZE) := by simp [MAX_STACK_SIZE]; omega
  have hT : castToBool [1] = true := by decide
  have es : (evalCtx env .TAPSCRIPT (multiAScript k ((p :: ps').map (·.1)))).script =
      multiAScript k ((p :: ps').map (·.1)) := rfl
  have hrun' : run (evalCtx env .TAPSCRIPT (multiAScript k ((p :: ps').map (·.1))))
      (pushOp p.1 :: opCS :: ((ps'.map (·.1)).flatMap (fun y => [pushOp y, opCSA]) ++ [opN k, opNE]))
      { m := { stack := (p :: ps').map (·.2), weightLeft := weight } } = .ok st3 := hrun
  have hparse' : parse (multiAScript k ((p :: ps').map (·.1))) =
      (pushOp p.1 :: opCS :: ((ps'.map (·.1)).flatMap (fun y => [pushOp y, opCSA]) ++ [opN k, opNE]), []) := by
    simpa using hparse
  have hsv2 : ((evalCtx env .TAPSCRIPT (multiAScript k ((p :: ps').map (·.1)))).sigversion == .BASE ||
      (evalCtx env .TAPSCRIPT (multiAScript k ((p :: ps').map (·.1)))).sigversion == .WITNESS_V0) = false := rfl
  unfold executeWitnessScript evalWith
  simp only [es, hparse', hanyS, hlen, hany, hrun', hsv2]
  simp [hst3, hvf3, hT, Except.bind, bind, pure, Except.pure]

/-! ### `VerifyScript` for a script-path spend of ANY tapscript leaf -/

/-- T1 (taproot script path, generic leaf), script level: ANY flag set with WITNESS; witness `stack… ‖ [leaf, control]`
    with a control block of leaf version 0xc0 and a well-formed length, given the commitment check (C12) and that
    `ExecuteWitnessScript` accepts the leaf on the stack with the validation weight BIP342 derives from the witness. -/
theorem verify_tr_script_of (env : VerifyEnv) (q script control : Bytes) (stackWire : List Bytes) (m : Nat)
    (hq : q.length = 32) (hW : has env.flags FLAG_WITNESS = true) (hnz : castToBool q = true)
    (hcl : control.length = 33 + 32 * m) (hm : m ≤ 128) (hv : getB control 0 / 2 * 2 = 0xc0)
    (hcom : env.commitment control q (env.taggedHash "TapLeaf".toUTF8.toList
      (UInt8.ofNat 0xc0 :: (compactSize script.length ++ script))) = .ok true)
    (hex : executeWitnessScript env stackWire.reverse script .TAPSCRIPT
      ((witnessSerializeSize (control :: script :: stackWire.reverse) + VALIDATION_WEIGHT_OFFSET : Nat) : Int) = .ok ()) :
    verifyScript env [] (trSpk q) (stackWire ++ [script, control]) = .ok () := by
  have e0 := evalWith_empty env []
  have e1 := evalWith_trSpk env q hq
  have hwp := isWitnessProgram_tr q hq
  have hsh : isPayToScriptHash (trSpk q) = false := by simp [isPayToScriptHash, trSpk, hq]
  have hpo : isPushOnly [] = true := by simp [isPushOnly, parse, parseOps]
  have h50 : ¬ (getB control 0 = 0x50) := by omega
  have hc1 : ¬ (control.length < 33) := by omega
  have hc2 : ¬ (control.length > 33 + 32 * 128) := by omega
  have hc3 : (control.length - 33) % 32 = 0 := by rw [hcl]; omega
  have hrev : (stackWire ++ [script, control]).reverse = control :: script :: stackWire.reverse := by simp
  unfold verifyScript
  rw [hrev]
  cases hT : has env.flags FLAG_TAPROOT
  · simp [e0, e1, hwp, hsh, hpo, hW, hT, requireTrueTop, hnz, verifyWitnessProgram, stripAnnex, hq,
      Except.bind, bind, pure, Except.pure]
  · have hcom' : env.commitment control q (env.taggedHash "TapLeaf".toByteArray.toList
        (192 :: (compactSize script.length ++ script))) = .ok true := hcom
    push_cast at hex
    simp [hcom', e0, e1, hwp, hsh, hpo, hW, hT, requireTrueTop, hnz, verifyWitnessProgram, stripAnnex, hq, h50, hc1, hc2, hc3, hv,
      hex, Except.bind, bind, pure, Except.pure]

open Btc.Spend in
/-- T1 (taproot script path, `multi_a(k, keys…)` leaf), script level: the witness `MultiA._stack` lays out -- one element
    per key in REVERSE key order, `k` signatures and empty vectors -- then the leaf and the control block.  `ps` lists
    (key, element) in KEY order. -/
theorem verify_tr_multi_a (env : VerifyEnv) (q control : Bytes) (m k : Nat) (ps : List (Bytes × Bytes))
    (hq : q.length = 32) (hW : has env.flags FLAG_WITNESS = true) (hnz : castToBool q = true)
    (hcl : control.length = 33 + 32 * m) (hm : m ≤ 128) (hv : getB control 0 / 2 * 2 = 0xc0)
    (hk : 1 ≤ k ∧ k ≤ 16) (hn : 1 ≤ ps.length) (hn999 : ps.length ≤ 999)
    (hp : ∀ p ∈ ps, p.1.length = 32 ∧ ElemOk env.checker p.1 p.2)
    (hsl : ∀ p ∈ ps, p.2 = [] ∨ (50 ≤ p.2.length ∧ p.2.length ≤ 520)) (hcnt : cntOf ps = k)
    (hcom : env.commitment control q (env.taggedHash "TapLeaf".toUTF8.toList
      (UInt8.ofNat 0xc0 :: (compactSize (multiAScript k (ps.map (·.1))).length ++ multiAScript k (ps.map (·.1))))) =
        .ok true) :
    verifyScript env [] (trSpk q) ((ps.map (·.2)).reverse ++ [multiAScript k (ps.map (·.1)), control]) = .ok () := by
  refine verify_tr_script_of env q _ control _ m hq hW hnz hcl hm hv hcom ?_
  rw [List.reverse_reverse]
  refine execute_multi_a env k hk ps hn hn999 hp (fun p hp' => ?_) hcnt _ ?_
  · rcases hsl p hp' with e | e
    · simp [e]
    · exact e.2
  · have hwc := weight_covers ps (fun p hp' => by
      rcases hsl p hp' with e | e
      · exact Or.inl e
      · exact Or.inr e.1)
    rw [hcnt] at hwc
    simp only [witnessSerializeSize, List.map_cons, List.sum_cons, VALIDATION_WEIGHT_OFFSET]
    push_cast
    have : (50 * k : Int) ≤ ((((ps.map (·.2)).map fun e => (compactSize e.length).length + e.length).sum : Nat) : Int) := by
      exact_mod_cast hwc
    push_cast at this
    omega

end Btc.Spend.Eval
