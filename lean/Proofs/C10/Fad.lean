import Proofs.C10.Pkh
/-
C10 — FindAndDelete leaves the script code of the single-key legacy templates alone: the pushed signature can occur
at an instruction boundary of `DUP HASH160 <h> EQUALVERIFY CHECKSIG` only as the push of `h` itself, i.e. when the
20-byte hash IS the signature; of `<pk> CHECKSIG` only when the key IS the signature.
-/
namespace Btc.Spend.Eval

open Btc Btc.Script Btc.Script.Core

theorem isPrefix_head_ne {a b : UInt8} (as bs : Bytes) (h : a ≠ b) : isPrefix (a :: as) (b :: bs) = false := by
  simp [isPrefix, h]

theorem isPrefix_eq_len : ∀ (a b t : Bytes), a.length = b.length → isPrefix a (b ++ t) = true → a = b
  | [], [], _, _, _ => rfl
  | [], _ :: _, _, hl, _ => by simp at hl
  | _ :: _, [], _, hl, _ => by simp at hl
  | x :: xs, y :: ys, t, hl, hp => by
    simp only [List.cons_append, isPrefix, Bool.and_eq_true, beq_iff_eq] at hp
    have := isPrefix_eq_len xs ys t (by simpa using hl) hp.2
    rw [hp.1, this]

theorem ofNat_len_ne (d : Bytes) (h : d.length < 76) (c : UInt8) (hc : 76 ≤ c.toNat) : UInt8.ofNat d.length ≠ c := by
  intro e
  have := toNat_ofNat_len d h
  rw [e] at this; omega

/-- FindAndDelete over the p2pkh script code: nothing is found unless the signature is the hash -/
theorem findAndDelete_pkh (h sig : Bytes) (hl : h.length = 20) (hs : sig.length < 76) (hne : sig ≠ h) :
    findAndDelete (pkhScript h) (pushData sig) = (pkhScript h, 0) := by
  rw [pushData_short sig hs]
  have n76 := ofNat_len_ne sig hs
  have p0 : ∀ t, isPrefix (UInt8.ofNat sig.length :: sig) (0x76 :: t) = false :=
    fun t => isPrefix_head_ne _ _ (n76 _ (by decide))
  have p1 : ∀ t, isPrefix (UInt8.ofNat sig.length :: sig) (0xa9 :: t) = false :=
    fun t => isPrefix_head_ne _ _ (n76 _ (by decide))
  have p3 : ∀ t, isPrefix (UInt8.ofNat sig.length :: sig) (0x88 :: t) = false :=
    fun t => isPrefix_head_ne _ _ (n76 _ (by decide))
  have p4 : ∀ t, isPrefix (UInt8.ofNat sig.length :: sig) (0xac :: t) = false :=
    fun t => isPrefix_head_ne _ _ (n76 _ (by decide))
  have p2 : isPrefix (UInt8.ofNat sig.length :: sig) (0x14 :: (h ++ [0x88, 0xac])) = false := by
    cases hp : isPrefix (UInt8.ofNat sig.length :: sig) (0x14 :: (h ++ [0x88, 0xac])) with
    | false => rfl
    | true =>
      simp only [isPrefix, Bool.and_eq_true, beq_iff_eq] at hp
      have hn := toNat_ofNat_len sig hs
      rw [hp.1] at hn
      exact absurd (isPrefix_eq_len sig h _ (by rw [hl]; exact hn.symm) hp.2) hne
  have p5 : isPrefix (UInt8.ofNat sig.length :: sig) [] = false := rfl
  have ht : (h ++ [0x88, 0xac]).take 20 = h := List.take_left' hl
  have hd : (h ++ [0x88, 0xac]).drop 20 = [0x88, 0xac] := List.drop_left' hl
  simp [findAndDelete, pkhScript, findAndDeleteAux, skipMatches, hl, p0, p1, p2, p3, p4, p5, getOp, ht, hd]

end Btc.Spend.Eval
