import Proofs.C10.Eval
/-
C10 — T1 for the witness-v0 key-hash templates: p2wpkh and p2sh-p2wpkh, by symbolic evaluation of
`Core.verifyScript` (C08 model).
-/
namespace Btc.Spend.Eval

open Btc Btc.Script Btc.Script.Core

def wpkhSpk (h : Bytes) : Bytes := [0x00, 0x14] ++ h

theorem p2wpkh_eq (h : Bytes) : Spend.p2wpkh h = wpkhSpk h := rfl

theorem evalWith_empty (env : VerifyEnv) (st : List Bytes) :
    evalWith (evalCtx env .BASE []) st 0 = .ok st := by
  simp [evalWith, evalCtx, parse, parseOps, run, MAX_SCRIPT_SIZE]

theorem pkh_assoc (h : Bytes) : [0x76, 0xa9, 0x14] ++ h ++ [0x88, 0xac] = pkhScript h := by
  simp [pkhScript]

/-- evaluating the witness program itself pushes the version and the program -/
theorem evalWith_wpkhSpk (env : VerifyEnv) (h : Bytes) (hl : h.length = 20) :
    evalWith (evalCtx env .BASE (wpkhSpk h)) [] 0 = .ok [h, []] := by
  have hmin : checkMinimalPush h 20 = true := by
    have := checkMinimalPush_len h (by omega) (by omega); rwa [hl] at this
  have ht : h.take 20 = h := List.take_of_length_le (by omega)
  have hd : h.drop 20 = [] := List.drop_of_length_le (by omega)
  have hp : parse (wpkhSpk h) = ([⟨0, [], [0]⟩, ⟨0x14, h, 0x14 :: h⟩], []) := by
    simp [parse, wpkhSpk, parseOps, getOp, hl, ht, hd]
  unfold evalWith
  simp only [evalCtx, hp]
  have hmin0 : checkMinimalPush [] 0 = true := by simp [checkMinimalPush]
  simp [wpkhSpk, run, step, stepChecks, stepExec, stepFinish, isDisabled, DISABLED, hl, hmin, hmin0,
    MAX_SCRIPT_ELEMENT_SIZE, MAX_OPS_PER_SCRIPT, MAX_SCRIPT_SIZE, MAX_STACK_SIZE, OP_CODESEPARATOR, Except.bind]

/-- T1 (p2wpkh), script level: under ANY flag set that has WITNESS, the finalizer's layout -- empty scriptSig,
    witness `[sig, pk]` -- is accepted, given: the program is the hash160 of the key, it is not a "false" byte
    string, the signature passes the encoding checks of these flags, the key is compressed, and the signature
    oracle accepts `sig` for `pk` over the script code BIP143 prescribes (p2pkh of the program). -/
theorem verify_p2wpkh (env : VerifyEnv) (h sig pk : Bytes) (hl : h.length = 20)
    (hW : has env.flags FLAG_WITNESS = true) (hnz : castToBool h = true)
    (hh : env.hashes.ripemd160 (env.hashes.sha256 pk) = h)
    (henc : checkSignatureEncoding env.flags sig = .ok ()) (hslen : sig.length ≤ 520)
    (hpk : isCompressedPubKey pk = true)
    (hsig : env.checker.checkECDSA sig pk (pkhScript h) .WITNESS_V0 = .ok true) :
    verifyScript env [] (wpkhSpk h) [sig, pk] = .ok () := by
  have e0 := evalWith_empty env []
  have e1 := evalWith_wpkhSpk env h hl
  have e2 := evalWith_pkh_v0 env h sig pk hl hh henc hpk hsig
  have hwp : isWitnessProgram (wpkhSpk h) = some (0, h) := by
    simp [isWitnessProgram, wpkhSpk, getB, hl]
  have hsh : isPayToScriptHash (wpkhSpk h) = false := by simp [isPayToScriptHash, wpkhSpk, hl]
  have hpo : isPushOnly [] = true := by simp [isPushOnly, parse, parseOps]
  have hpkl : pk.length = 33 := by
    simp only [isCompressedPubKey, Bool.and_eq_true, beq_iff_eq] at hpk; exact hpk.1
  unfold verifyScript
  simp [e0, e1, hwp, hsh, hpo, hW, requireTrueTop, hnz, verifyWitnessProgram, executeWitnessScript, hl,
    hpkl, MAX_SCRIPT_ELEMENT_SIZE, Except.bind, bind, pure, Except.pure]
  have hs' : ¬ (520 < sig.length) := by omega
  have e2' : evalWith (evalCtx env .WITNESS_V0 (118 :: 169 :: 20 :: (h ++ [136, 172]))) [pk, sig] = .ok [[1]] := e2
  have ht : castToBool [1] = true := by decide
  simp [hs', e2', ht]

def shSpk (hr : Bytes) : Bytes := [0xa9, 0x14] ++ (hr ++ [0x87])

theorem p2sh_eq (hr : Bytes) : Spend.p2sh hr = shSpk hr := rfl

/-- the p2sh scriptPubKey on `[redeem]`: HASH160 <hr> EQUAL leaves `true` when `hr` is the hash160 of `redeem` -/
theorem evalWith_shSpk (env : VerifyEnv) (hr redeem : Bytes) (hl : hr.length = 20)
    (hh : env.hashes.ripemd160 (env.hashes.sha256 redeem) = hr) :
    evalWith (evalCtx env .BASE (shSpk hr)) [redeem] 0 = .ok [[1]] := by
  have hmin : checkMinimalPush hr 20 = true := by
    have := checkMinimalPush_len hr (by omega) (by omega); rwa [hl] at this
  have ht : (hr ++ [0x87]).take 20 = hr := List.take_left' hl
  have hd : (hr ++ [0x87]).drop 20 = [0x87] := List.drop_left' hl
  have hp : parse (shSpk hr) = ([⟨0xa9, [], [0xa9]⟩, ⟨0x14, hr, 0x14 :: hr⟩, ⟨0x87, [], [0x87]⟩], []) := by
    simp [parse, shSpk, parseOps, getOp, hl, ht, hd]
  unfold evalWith
  simp only [evalCtx, hp]
  simp [shSpk, run, step, stepChecks, stepExec, stepFinish, execPlain, execStackOp, hashOp, isDisabled, DISABLED,
    inConditionalRange, hl, hmin, hh, MAX_SCRIPT_ELEMENT_SIZE, MAX_OPS_PER_SCRIPT, MAX_SCRIPT_SIZE, MAX_STACK_SIZE,
    OP_IF, OP_ENDIF, OP_CODESEPARATOR, ofBool, vchTrue, Except.bind, Except.map]

/-- the scriptSig of a wrapped witness program: one push of the 22-byte redeem script -/
theorem evalWith_pushRedeem (env : VerifyEnv) (h : Bytes) (hl : h.length = 20) :
    evalWith (evalCtx env .BASE (pushData (wpkhSpk h))) [] 0 = .ok [wpkhSpk h] ∧
    isPushOnly (pushData (wpkhSpk h)) = true := by
  have hlen : (wpkhSpk h).length = 22 := by simp [wpkhSpk, hl]
  have hpd : pushData (wpkhSpk h) = 22 :: wpkhSpk h := by simp [pushData, hlen]
  have hmin : checkMinimalPush (wpkhSpk h) 22 = true := by
    have := checkMinimalPush_len (wpkhSpk h) (by omega) (by omega); rwa [hlen] at this
  have ht : (wpkhSpk h).take 22 = wpkhSpk h := List.take_of_length_le (by omega)
  have hd : (wpkhSpk h).drop 22 = [] := List.drop_of_length_le (by omega)
  have hp : parse (22 :: wpkhSpk h) = ([⟨22, wpkhSpk h, 22 :: wpkhSpk h⟩], []) := by
    simp [parse, parseOps, getOp, hlen, ht, hd]
  refine ⟨?_, ?_⟩
  · unfold evalWith
    simp only [evalCtx, hpd, hp]
    simp [run, step, stepChecks, stepExec, stepFinish, isDisabled, DISABLED, hlen, hmin,
      MAX_SCRIPT_ELEMENT_SIZE, MAX_OPS_PER_SCRIPT, MAX_SCRIPT_SIZE, MAX_STACK_SIZE, OP_CODESEPARATOR, Except.bind]
  · simp [isPushOnly, hpd, hp]

/-- T1 (p2sh-p2wpkh), script level: under ANY flag set that has P2SH and WITNESS, the finalizer's layout -- scriptSig =
    one push of the redeem script `0 <h>`, witness `[sig, pk]` -- is accepted. -/
theorem verify_p2sh_p2wpkh (env : VerifyEnv) (h hr sig pk : Bytes) (hl : h.length = 20) (hrl : hr.length = 20)
    (hP : has env.flags FLAG_P2SH = true) (hW : has env.flags FLAG_WITNESS = true) (hnz : castToBool h = true)
    (hhr : env.hashes.ripemd160 (env.hashes.sha256 (wpkhSpk h)) = hr)
    (hh : env.hashes.ripemd160 (env.hashes.sha256 pk) = h)
    (henc : checkSignatureEncoding env.flags sig = .ok ()) (hslen : sig.length ≤ 520)
    (hpk : isCompressedPubKey pk = true)
    (hsig : env.checker.checkECDSA sig pk (pkhScript h) .WITNESS_V0 = .ok true) :
    verifyScript env (pushData (wpkhSpk h)) (shSpk hr) [sig, pk] = .ok () := by
  obtain ⟨e0, hpo⟩ := evalWith_pushRedeem env h hl
  have e1 := evalWith_wpkhSpk env h hl
  have e2 := evalWith_pkh_v0 env h sig pk hl hh henc hpk hsig
  have e3 := evalWith_shSpk env hr (wpkhSpk h) hrl hhr
  have hwp : isWitnessProgram (wpkhSpk h) = some (0, h) := by
    simp [isWitnessProgram, wpkhSpk, getB, hl]
  have hwn : isWitnessProgram (shSpk hr) = none := by
    simp [isWitnessProgram, shSpk, getB, hrl]
  have hsh : isPayToScriptHash (shSpk hr) = true := by
    have : (hr ++ [0x87])[20]? = some 0x87 := by
      rw [List.getElem?_append_right (by omega)]; simp [hrl]
    simp [isPayToScriptHash, shSpk, hrl, getB, List.getD, this]
  have hpkl : pk.length = 33 := by
    simp only [isCompressedPubKey, Bool.and_eq_true, beq_iff_eq] at hpk; exact hpk.1
  have hs' : ¬ (520 < sig.length) := by omega
  have e2' : evalWith (evalCtx env .WITNESS_V0 (118 :: 169 :: 20 :: (h ++ [136, 172]))) [pk, sig] = .ok [[1]] := e2
  have ht : castToBool [1] = true := by decide
  unfold verifyScript
  simp [e0, e1, e3, hwp, hwn, hsh, hpo, hP, hW, requireTrueTop, hnz, verifyWitnessProgram, executeWitnessScript, hl,
    hpkl, hs', e2', ht, MAX_SCRIPT_ELEMENT_SIZE, Except.bind, bind, pure, Except.pure]

end Btc.Spend.Eval
