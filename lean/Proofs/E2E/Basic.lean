import Proofs.C01.CapstoneLawful
import Proofs.C01.CapstoneToy
/-
End-to-end corollaries, part 0: the instances.

`lawful_ec K h34 : Lawful (opsSub K) (Pt p C.toCurveGroup)` (C01 capstone) discharges the named hypothesis
`L : Lawful o G` of every scheme-level theorem (C02 ECDSA, C03 BIP340, C07 BIP32, C12 taproot, C16 MuSig2 / DLEQ /
ECDH / silent payments) for the EXECUTABLE arithmetic `Btc.EC.ops C` (through `opsSub K`: the same operations on the
underlying integer pairs, `opsSub_val`, with `lift_x` kept when it lands in the `n`-torsion).

Here: (1) `curveOk_of_checks`: `CurveOk p C` from DECIDABLE checks on the integer constants (generator reduced and
on the curve mod `p`, `n•G = ∞` by running the proved double-and-add and reading `Z = 0`) plus primality of `p`, `n`;
(2) `secpOk`: these checks evaluated (kernel) on the generated secp256k1 constants (`Gen.Curves.secp256k1`), so that
`Nat.Prime secp256k1_p` and `Nat.Prime secp256k1_n` are the ONLY hypotheses left; (3) the toy curve `y² = x³ + 7`
over `F₄₃` (`CapstoneToy.lean`), where nothing at all is assumed.
-/
open WeierstrassCurve

namespace Btc.E2E
open Btc Btc.EC Btc.C01

/-- `CurveOk` from decidable checks on the constants (and primality of `p`, `n`) -/
theorem curveOk_of_checks {p : ℕ} [Fact p.Prime] (C : Curve) (hC : C.p = (p : ℤ)) (hp2 : p ≠ 2)
    (hnpos : 0 < C.n) (hnprime : Nat.Prime C.n.toNat) (hnodd : C.n % 2 = 1)
    (hgx : 0 ≤ C.gx ∧ C.gx < C.p) (hgy : 0 < C.gy ∧ C.gy < C.p)
    (heq : (C.gy ^ 2 - (C.gx ^ 3 + C.a * C.gx + C.b)) % C.p = 0)
    (hord : (multJac C.toCurveGroup C.n.toNat C.GJ).2.2 = 0) : CurveOk p C := by
  have hy0 : C.gy ≠ 0 := ne_of_gt hgy.1
  have hyr : 0 ≤ C.gy ∧ C.gy < C.p := ⟨le_of_lt hgy.1, hgy.2⟩
  have e : castJ p (C.gx, C.gy, 1) = ![(C.gx : ZMod p), (C.gy : ZMod p), 1] := by simp [castJ]
  have heqZ : (curveOf p C.toCurveGroup).toAffine.Equation (C.gx : ZMod p) (C.gy : ZMod p) := by
    rw [aff_equation_iff]
    have h := (emod_eq_zero_iff (c := C.toCurveGroup) hC _).mp heq
    push_cast at h
    linear_combination h
  have hyZ : ((C.gy : ℤ) : ZMod p) ≠ 0 := cast_ne_zero_of_red (c := C.toCurveGroup) hC hyr hy0
  have hns := aff_nonsingular_of_y_ne hp2 heqZ hyZ
  have hnsJ : (curveOf p C.toCurveGroup).Nonsingular (castJ p (C.gx, C.gy, 1)) := by
    rw [e]; exact (Jacobian.nonsingular_some ..).mpr hns
  have hJ : JValid p C.toCurveGroup C.GJ :=
    ⟨fun h => absurd (by simp [Curve.GJ] at h) (one_ne_zero (α := ZMod p)), fun _ => hnsJ⟩
  have hA : AValid p C.toCurveGroup C.G := fun _ => hnsJ
  refine ⟨hC, hp2, hnpos, hnprime, hnodd, hA, ⟨hyr, fun _ => hgx⟩, hy0, ?_⟩
  have h := multJac_refines (p := p) (c := C.toCurveGroup) hC C.n.toNat C.GJ hJ
  rw [absJ_of_Z_eq_zero hord] at h
  rw [absA_of_y_ne_zero (show C.G.2 ≠ 0 from hy0)]
  show C.n • absJ p C.toCurveGroup C.GJ = 0
  rw [← Int.toNat_of_nonneg (le_of_lt hnpos), natCast_zsmul, ← h]

/-! ## secp256k1 -/

/-- the field size of secp256k1, as regenerated from btclib's curve catalogue: `2²⁵⁶ − 2³² − 977` -/
abbrev secp256k1_p : ℕ := EC.secp256k1.p.toNat
/-- the group order of secp256k1, as regenerated from btclib's curve catalogue -/
abbrev secp256k1_n : ℕ := EC.secp256k1.n.toNat

theorem secp256k1_p_val : secp256k1_p = 2 ^ 256 - 2 ^ 32 - 977 := by decide +kernel
theorem secp256k1_n_val :
    secp256k1_n = 0xFFFFFFFFFFFFFFFFFFFFFFFFFFFFFFFEBAAEDCE6AF48A03BBFD25E8CD0364141 := by decide +kernel
theorem secp256k1_h34 : secp256k1_p % 4 = 3 := by decide +kernel

/-- `n•G = ∞` on secp256k1: the 256-step double-and-add on the generated constants ends with `Z = 0` (kernel) -/
theorem secp256k1_order_Z :
    (multJac secp256k1.toCurveGroup secp256k1.n.toNat secp256k1.GJ).2.2 = 0 := by decide +kernel

/-- **secp256k1 meets `CurveOk`**: every field other than the primality of `p` and of `n` is computed -/
theorem secpOk (hp : Nat.Prime secp256k1_p) (hn : Nat.Prime secp256k1_n) :
    @CurveOk secp256k1_p ⟨hp⟩ secp256k1 :=
  @curveOk_of_checks secp256k1_p ⟨hp⟩ secp256k1 (by decide +kernel) (by decide +kernel) (by decide +kernel) hn
    (by decide +kernel) (by decide +kernel) (by decide +kernel) (by decide +kernel) secp256k1_order_Z

/-- the carrier: reduced valid pairs of secp256k1's `n`-torsion -/
abbrev SecpPt (hp : Nat.Prime secp256k1_p) : Type := @SubPt secp256k1_p ⟨hp⟩ secp256k1

/-- `Btc.EC.ops secp256k1` on that carrier -/
noncomputable def secpOps (hp : Nat.Prime secp256k1_p) (hn : Nat.Prime secp256k1_n) : GroupOps (SecpPt hp) :=
  @opsSub secp256k1_p ⟨hp⟩ secp256k1 (secpOk hp hn)

/-- Mathlib's point group of `y² = x³ + 7` over `ZMod secp256k1_p` -/
def SecpGroup (hp : Nat.Prime secp256k1_p) : Type := @Pt secp256k1_p ⟨hp⟩ secp256k1.toCurveGroup

noncomputable instance (hp : Nat.Prime secp256k1_p) : AddCommGroup (SecpGroup hp) := by
  haveI : Fact (Nat.Prime secp256k1_p) := ⟨hp⟩
  exact inferInstanceAs (AddCommGroup (Pt secp256k1_p secp256k1.toCurveGroup))

/-- … is lawful, for Mathlib's group of `y² = x³ + 7` over `ZMod p` -/
noncomputable def secpLawful (hp : Nat.Prime secp256k1_p) (hn : Nat.Prime secp256k1_n) :
    Lawful (secpOps hp hn) (SecpGroup hp) :=
  @lawful_ec secp256k1_p ⟨hp⟩ secp256k1 (secpOk hp hn) secp256k1_h34

/-- `secpOps` computes on the underlying pairs exactly what `Btc.EC.ops secp256k1` (the drivers' instance) computes -/
theorem secpOps_val (hp : Nat.Prime secp256k1_p) (hn : Nat.Prime secp256k1_n) (P Q : SecpPt hp) (m : ℤ) :
    ((secpOps hp hn).add P Q).1 = (EC.ops secp256k1).add P.1 Q.1 ∧
    ((secpOps hp hn).neg P).1 = (EC.ops secp256k1).neg P.1 ∧
    ((secpOps hp hn).mul m P).1 = (EC.ops secp256k1).mul m P.1 ∧
    (secpOps hp hn).zero.1 = (EC.ops secp256k1).zero ∧ (secpOps hp hn).gen.1 = (EC.ops secp256k1).gen ∧
    (secpOps hp hn).isZero P = (EC.ops secp256k1).isZero P.1 ∧ (secpOps hp hn).x P = (EC.ops secp256k1).x P.1 ∧
    (secpOps hp hn).y P = (EC.ops secp256k1).y P.1 ∧ (secpOps hp hn).eq P Q = (EC.ops secp256k1).eq P.1 Q.1 ∧
    (secpOps hp hn).n = (EC.ops secp256k1).n ∧ (secpOps hp hn).p = (EC.ops secp256k1).p :=
  ⟨rfl, rfl, rfl, rfl, rfl, rfl, rfl, rfl, rfl, rfl, rfl⟩

/-- whatever `secpOps` lifts to is what `Btc.EC.ops secp256k1` lifts to -/
theorem secpOps_liftX (hp : Nat.Prime secp256k1_p) (hn : Nat.Prime secp256k1_n) {x : ℤ} {P : SecpPt hp}
    (h : (secpOps hp hn).liftX x = some P) : (EC.ops secp256k1).liftX x = some P.1 :=
  (@liftXSub_some secp256k1_p ⟨hp⟩ secp256k1 x P h).1

theorem secp_sizes : (EC.ops secp256k1).p ≤ 2 ^ 256 ∧ (EC.ops secp256k1).n ≤ 2 ^ 256 ∧ 0 < (EC.ops secp256k1).n := by
  decide +kernel

/-- `if_pos` / `if_neg` whatever `Decidable` instance the (Mathlib-free) model elaborated -/
theorem ite_pos' {α : Sort _} {c : Prop} {inst : Decidable c} (h : c) (a b : α) : @ite α c inst a b = a := by
  simp [h]
theorem ite_neg' {α : Sort _} {c : Prop} {inst : Decidable c} (h : ¬c) (a b : α) : @ite α c inst a b = b := by
  simp [h]

/-! ## general transfer facts about `opsSub` -/
section
variable {p : ℕ} [Fact p.Prime] {C : Curve}

/-- what `opsSub` lifts to is what `Btc.EC.ops C` lifts to -/
theorem opsSub_liftX (K : CurveOk p C) {x : ℤ} {P : SubPt p C} (h : (opsSub K).liftX x = some P) :
    (EC.ops C).liftX x = some P.1 := (liftXSub_some h).1

/-- two carrier elements denoting the same non-zero point are the same integer pair -/
theorem val_eq_of_abs_eq (K : CurveOk p C) (P Q : SubPt p C) (h : absSub P = absSub Q) (hne : absSub P ≠ 0) :
    P.1 = Q.1 :=
  absA_inj K.hC P.1 Q.1 P.2.1 Q.2.1 P.2.2.1 Q.2.2.1 ((absSub_ne_zero_iff P).mp hne) h

end

/-! ## the toy curve (`y² = x³ + 7` over `F₄₃`, 31 points): nothing assumed -/
export Btc.C01.Toy (toyC toyOk toyLawful)

end Btc.E2E
