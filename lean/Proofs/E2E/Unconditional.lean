import Proofs.E2E.CofactorOne
import Proofs.E2E.C02
import Proofs.E2E.C03
import Proofs.E2E.C07Raw
import Proofs.E2E.C12Cof
import Proofs.E2E.C16Raw
/-
End-to-end corollaries, last part: **no hypothesis about the curve is left**.

Every `…_secp256k1_cofactor_one` / `…_secp256k1_raw` theorem of Proofs/E2E (re-exported by Props/C02, C03, C07, C12,
C16) carried ONE named assumption, `SecpCofactorOne` (the curve `y² = x³ + 7` over the secp256k1 field has exactly `n`
points).  It is now PROVED (`Btc.E2E.secpCofactorOne`, Proofs/E2E/CofactorOne.lean); here each of them is applied to
it: corollaries `<name>_unconditional`, stated about the executable arithmetic `Btc.EC.ops secp256k1` the drivers
run, with no curve-level hypothesis (primality of `p`, `n`: Pratt certificates; `Δ ≠ 0`, `n•G = 0`, cofactor one:
proved).  The list with the Props theorem each one strengthens: Proofs/E2E/UNCONDITIONAL.md.
-/
open WeierstrassCurve

/-! ## C01: the lawful carrier and the raw arithmetic run alike on secp256k1 -/
namespace Btc.E2E
open Btc Btc.EC Btc.C01

/-- the discriminant of secp256k1 is non-zero (one name for the copies proved per property) -/
theorem secp_delta_unconditional : (curveOf secp256k1_p secp256k1.toCurveGroup).toAffine.Δ ≠ 0 :=
  secp_delta_ne_zero_c03

/-- the restricted `lift_x` of the lawful carrier is the executed `lift_x` (strengthens `secp_liftAgree`,
`secp_liftAgree03`; instance of Props/C01 `ops_sub_liftX_is_ec_ops`) -/
theorem secp_liftAgree_unconditional : LiftAgree secpOk := secp_liftAgree03 secpCofactorOne

/-- Props/C01 `ops_sub_liftX_is_ec_ops` on secp256k1 -/
theorem ops_sub_liftX_is_ec_ops_secp256k1_unconditional (x : ℤ) :
    (secpOps.liftX x).map Subtype.val = (EC.ops secp256k1).liftX x :=
  secp_liftAgree_unconditional x

/-- Props/C01 `ops_sub_hom_of_cofactor_one` on secp256k1: `Subtype.val` commutes with EVERY operation of the lawful
carrier `secpOps` and the raw `Btc.EC.ops secp256k1` the drivers run, `lift_x` included -/
theorem ops_sub_hom_secp256k1_unconditional :
    OpsHom secpOps (EC.ops secp256k1) (Subtype.val : SecpPt → Point) :=
  @opsSub_hom secp256k1_p ⟨secp256k1_p_prime⟩ secp256k1 secpOk secp256k1_h34 secpCofactorOne secp_delta_unconditional

/-- every reduced valid pair of secp256k1 (every on-curve key, infinity included) is in the lawful carrier -/
theorem inSub_secp256k1_unconditional {P : Point}
    (hv : @AValid secp256k1_p ⟨secp256k1_p_prime⟩ secp256k1.toCurveGroup P) (hr : RedA secp256k1.toCurveGroup P) :
    @InSub secp256k1_p ⟨secp256k1_p_prime⟩ secp256k1 P :=
  @inSub_of_cofactor_one secp256k1_p ⟨secp256k1_p_prime⟩ secp256k1 secpCofactorOne P hv hr

theorem exists_subPt_secp256k1_unconditional (P : Point)
    (hv : @AValid secp256k1_p ⟨secp256k1_p_prime⟩ secp256k1.toCurveGroup P) (hr : RedA secp256k1.toCurveGroup P) :
    ∃ S : SecpPt, S.1 = P :=
  @exists_subPt_of_cofactor_one secp256k1_p ⟨secp256k1_p_prime⟩ secp256k1 secpCofactorOne P hv hr

end Btc.E2E

/-! ## C02 (ECDSA) -/
namespace Btc.E2E
section C02
open Btc Btc.EC Btc.C01 Btc.Ecdsa

/-- Props/C02 `ecdsa_verify_api_is_sec1_secp256k1_cofactor_one` without its hypothesis: on secp256k1, for any key the
API accepts, the API verifier is `Ecdsa.verify`, which accepts exactly the SEC 1 signatures -/
theorem ecdsa_verify_api_is_sec1_secp256k1_unconditional (c : ℤ) (Q : Point)
    (hk : pubKeyOk secp256k1 Q = true) (r s : ℤ) :
    (verifyFull (EC.ops secp256k1) (isXCoord secp256k1) c Q r s = true ↔
      Ecdsa.verify (EC.ops secp256k1) c Q r s = true) ∧
    (Ecdsa.verify (EC.ops secp256k1) c Q r s = true ↔
      Grp.SEC1 secpLawfulG c ⟨Q, @inSubOf secp256k1_p ⟨secp256k1_p_prime⟩ secp256k1 secpCofactorOne _
        (@valid_of_pubKeyOk secp256k1_p ⟨secp256k1_p_prime⟩ secp256k1 secpOk Q hk).1
        (@valid_of_pubKeyOk secp256k1_p ⟨secp256k1_p_prime⟩ secp256k1 secpOk Q hk).2.1⟩ r s) :=
  ecdsa_verify_api_is_sec1_secp256k1 secpCofactorOne c Q hk r s

end C02
end Btc.E2E

/-! ## C03 (BIP340 Schnorr) -/
namespace Btc.E2E
section C03
open Btc Btc.EC Btc.C01 Btc.Schnorr

/-- Props/C03 `verify_iff_secp256k1_cofactor_one` (T2) without its hypothesis -/
theorem verify_iff_secp256k1_unconditional (prm : Params) (msg : Bytes) (xQ : ℤ) (sg : Sig) :
    Schnorr.verify (EC.ops secp256k1) prm msg xQ sg = true ↔
      0 ≤ sg.r ∧ sg.r < secp256k1.p ∧ 0 ≤ sg.s ∧ sg.s < secp256k1.n ∧
      ∃ Q : Point, (EC.ops secp256k1).liftX xQ = some Q ∧
        challengeInt (EC.ops secp256k1) prm msg xQ sg.r ≠ 0 ∧
        (EC.ops secp256k1).isZero ((EC.ops secp256k1).sub ((EC.ops secp256k1).mul sg.s secp256k1.G)
          ((EC.ops secp256k1).mul (challengeInt (EC.ops secp256k1) prm msg xQ sg.r) Q)) = false ∧
        (EC.ops secp256k1).hasEvenY ((EC.ops secp256k1).sub ((EC.ops secp256k1).mul sg.s secp256k1.G)
          ((EC.ops secp256k1).mul (challengeInt (EC.ops secp256k1) prm msg xQ sg.r) Q)) = true ∧
        (EC.ops secp256k1).x ((EC.ops secp256k1).sub ((EC.ops secp256k1).mul sg.s secp256k1.G)
          ((EC.ops secp256k1).mul (challengeInt (EC.ops secp256k1) prm msg xQ sg.r) Q)) = sg.r :=
  @verify_iff_cofactor_one secp256k1_p ⟨secp256k1_p_prime⟩ secp256k1 secpOk secp_liftAgree_unconditional
    secp256k1_h34 prm msg xQ sg

/-- Props/C03 `batch_complete_secp256k1_cofactor_one` (T3) without its hypothesis -/
theorem batch_complete_secp256k1_unconditional (prm : Params)
    (coef : ℕ → ℤ) (items : List Item) (hne : items ≠ [])
    (hall : ∀ it ∈ items, Schnorr.verify (EC.ops secp256k1) prm it.msg it.xQ it.sg = true) :
    batchVerify (EC.ops secp256k1) prm coef items = true :=
  @batch_complete_cofactor_one secp256k1_p ⟨secp256k1_p_prime⟩ secp256k1 secpOk secp_liftAgree_unconditional
    secp256k1_h34 prm coef items hne hall

/-- Props/C03 `batch_one_bad_fails_secp256k1_cofactor_one` (T4, one bad member) without its hypothesis -/
theorem batch_one_bad_fails_secp256k1_unconditional (prm : Params)
    (coef : ℕ → ℤ) (it0 it1 : Item) (rest : List Item) (j : ℕ) (bad : Item)
    (hj : (it0 :: it1 :: rest)[j]? = some bad)
    (hbad : Schnorr.verify (EC.ops secp256k1) prm bad.msg bad.xQ bad.sg = false)
    (hothers : ∀ k it', (it0 :: it1 :: rest)[k]? = some it' → k ≠ j →
      Schnorr.verify (EC.ops secp256k1) prm it'.msg it'.xQ it'.sg = true)
    (hcoef : ¬ secp256k1.n ∣ coefAt coef j) :
    batchVerify (EC.ops secp256k1) prm coef (it0 :: it1 :: rest) = false :=
  @batch_one_bad_fails_cofactor_one secp256k1_p ⟨secp256k1_p_prime⟩ secp256k1 secpOk secp_liftAgree_unconditional
    secp256k1_h34 prm coef it0 it1 rest j bad hj hbad hothers hcoef

/-- Props/C03 `batch_at_most_one_coeff_secp256k1_cofactor_one` (T4, any number of bad members) without its hypothesis -/
theorem batch_at_most_one_coeff_secp256k1_unconditional (prm : Params)
    (coef coef' : ℕ → ℤ) (it0 it1 : Item) (rest : List Item) (j : ℕ) (bad : Item) (hj1 : 1 ≤ j)
    (hj : (it0 :: it1 :: rest)[j]? = some bad)
    (hbad : Schnorr.verify (EC.ops secp256k1) prm bad.msg bad.xQ bad.sg = false)
    (hagree : ∀ i, i ≠ j → coef i = coef' i)
    (h1 : batchVerify (EC.ops secp256k1) prm coef (it0 :: it1 :: rest) = true)
    (h2 : batchVerify (EC.ops secp256k1) prm coef' (it0 :: it1 :: rest) = true) :
    secp256k1.n ∣ coef j - coef' j :=
  @batch_at_most_one_coeff_cofactor_one secp256k1_p ⟨secp256k1_p_prime⟩ secp256k1 secpOk secp_liftAgree_unconditional
    secp256k1_h34 prm coef coef' it0 it1 rest j bad hj1 hj hbad hagree h1 h2

end C03
end Btc.E2E

/-! ## C07 (BIP32) -/
namespace Btc.E2E
section C07
open Btc Btc.EC Btc.C01 Btc.Bip32

theorem deriveB_eq_fold_secp256k1_unconditional (mac : Bytes → Bytes → Bytes) (x : XKey) (path : List ℕ)
    (hk : x.isPrivate = true ∨ ∀ i ∈ path, i < HARDENED) (hd : x.depth + path.length ≤ MAX_DEPTH) :
    deriveB (secpEnv mac) x path none = deriveFold (secpEnv mac) x path :=
  deriveB_eq_fold_secp256k1_cofactor_one secpCofactorOne mac x path hk hd

theorem deriveB_fields_secp256k1_unconditional (mac : Bytes → Bytes → Bytes) (x y : XKey) (path : List ℕ)
    (hk : x.isPrivate = true ∨ ∀ i ∈ path, i < HARDENED) (h : deriveB (secpEnv mac) x path none = .ok y) :
    y.depth = x.depth + path.length ∧ y.version = x.version ∧ y.isPrivate = x.isPrivate ∧
    ∀ i, path.getLast? = some i → y.index = i :=
  deriveB_fields_secp256k1_cofactor_one secpCofactorOne mac x y path hk h

theorem deriveB_compose_secp256k1_unconditional (mac : Bytes → Bytes → Bytes) (x y : XKey)
    (q r : List ℕ) (hk : x.isPrivate = true ∨ ∀ i ∈ q ++ r, i < HARDENED)
    (hd : x.depth + (q ++ r).length ≤ MAX_DEPTH) (h : deriveB (secpEnv mac) x q none = .ok y) :
    deriveB (secpEnv mac) y r none = deriveB (secpEnv mac) x (q ++ r) none :=
  deriveB_compose_secp256k1_cofactor_one secpCofactorOne mac x y q r hk hd h

theorem neuter_derive_secp256k1_unconditional (mac : Bytes → Bytes → Bytes) (x : XKey) (v : Bytes)
    (path : List ℕ) (hv : ValidPrv (secpEnv mac) x) (hver : Gen.Bip32.pubVersion x.version = some v)
    (hp : ∀ i ∈ path, i < HARDENED) :
    ((deriveFold (secpEnv mac) x path).mapError Err.toPub).bind (neuter (secpEnv mac)) =
      (neuter (secpEnv mac) x).bind fun x' => deriveFold (secpEnv mac) x' path :=
  neuter_derive_secp256k1_cofactor_one secpCofactorOne mac x v path hv hver hp

theorem neuter_deriveB_secp256k1_unconditional (mac : Bytes → Bytes → Bytes) (x : XKey) (v : Bytes)
    (path : List ℕ) (hv : ValidPrv (secpEnv mac) x) (hver : Gen.Bip32.pubVersion x.version = some v)
    (hp : ∀ i ∈ path, i < HARDENED) (hd : x.depth + path.length ≤ MAX_DEPTH) :
    ((deriveB (secpEnv mac) x path none).mapError Err.toPub).bind (neuter (secpEnv mac)) =
      (neuter (secpEnv mac) x).bind fun x' => deriveB (secpEnv mac) x' path none :=
  neuter_deriveB_secp256k1_cofactor_one secpCofactorOne mac x v path hv hver hp hd

end C07
end Btc.E2E

/-! ## C12 (taproot) -/
namespace Btc.E2E
section C12
open Btc Btc.EC Btc.C01 Btc.Taproot Gen.Taproot

theorem completeness_secp256k1_unconditional {H : TagHash} (h32 : Len32 H)
    (sec : Bytes) (tree : Tree) (Q : Point) (t : ℤ) (hdepth : tree.depth ≤ 128)
    (hP : pointFromOctets (EC.ops secp256k1) sec = .ok Q)
    (ht : tapTweak (EC.ops secp256k1) H (xOnly sec) (root H tree) = .ok t)
    (hQ : (EC.ops secp256k1).isZero (tweakPoint (EC.ops secp256k1) Q t) = false) :
    outputPubkey (EC.ops secp256k1) H (some sec) (some tree) =
      .ok (outKey (EC.ops secp256k1) (tweakPoint (EC.ops secp256k1) Q t)) ∧
    ∀ i : ℕ, i < (leaves H tree).length →
      ∃ s c, inputScriptSig (EC.ops secp256k1) H (some sec) tree i = .ok (s, c) ∧
        checkOutputPubkey (EC.ops secp256k1) H
          (outKey (EC.ops secp256k1) (tweakPoint (EC.ops secp256k1) Q t)).1 s c = .ok true :=
  completeness_secp256k1_cofactor_one secpCofactorOne h32 sec tree Q t hdepth hP ht hQ

theorem key_agreement_secp256k1_unconditional {H : TagHash}
    (d : ℤ) (h0 : 0 < d) (h1 : d < secp256k1.n) (sec h : Bytes) (Q : Point)
    (hP : pointFromOctets (EC.ops secp256k1) sec = .ok Q)
    (hsame : (EC.ops secp256k1).eq Q ((EC.ops secp256k1).mul d secp256k1.G) = true ∨
      (EC.ops secp256k1).eq Q ((EC.ops secp256k1).neg ((EC.ops secp256k1).mul d secp256k1.G)) = true)
    (hx : xOnly sec = beBytes 32 ((EC.ops secp256k1).x ((EC.ops secp256k1).mul d secp256k1.G)).toNat) :
    (∀ e, tweakedPrvkey (EC.ops secp256k1) H d h = .error e ↔ tweakedPubkey (EC.ops secp256k1) H sec h = .error e) ∧
    (∀ d2, tweakedPrvkey (EC.ops secp256k1) H d h = .ok d2 →
      ∃ t, tapTweak (EC.ops secp256k1) H (xOnly sec) h = .ok t ∧ 0 ≤ d2 ∧ d2 < secp256k1.n ∧
        tweakedPubkey (EC.ops secp256k1) H sec h =
          .ok (outKey (EC.ops secp256k1) (tweakPoint (EC.ops secp256k1) Q t)) ∧
        (EC.ops secp256k1).eq ((EC.ops secp256k1).mul d2 secp256k1.G) (tweakPoint (EC.ops secp256k1) Q t) = true ∧
        ((EC.ops secp256k1).isZero (tweakPoint (EC.ops secp256k1) Q t) = false →
          outKey (EC.ops secp256k1) ((EC.ops secp256k1).mul d2 secp256k1.G) =
            outKey (EC.ops secp256k1) (tweakPoint (EC.ops secp256k1) Q t))) :=
  key_agreement_secp256k1_cofactor_one secpCofactorOne d h0 h1 sec h Q hP hsame hx

end C12
end Btc.E2E

/-! ## C16 (MuSig2) -/
namespace Btc.C16.Raw
open Btc Btc.EC Btc.Py Btc.C16 Btc.C01 Btc.E2E

theorem musig2_partial_sig_verifies_secp256k1_unconditional
    (H : Bytes → Bytes → Bytes) (s : SessionCtx) (d k1 k2 σ : ℤ)
    (hs : sign (EC.ops secp256k1) H k1 k2 (individualPubKey (EC.ops secp256k1) d) d s = .ok σ) :
    partialSigVerify (EC.ops secp256k1) H (sBytes σ)
      (cbytes (EC.ops secp256k1) ((EC.ops secp256k1).mul k1 (EC.ops secp256k1).gen) ++
        cbytes (EC.ops secp256k1) ((EC.ops secp256k1).mul k2 (EC.ops secp256k1).gen))
      (individualPubKey (EC.ops secp256k1) d) s = .ok true :=
  musig2_partial_sig_verifies_secp256k1_raw secpCofactorOne H s d k1 k2 σ hs

theorem musig2_aggregate_verifies_secp256k1_unconditional
    (H : Bytes → Bytes → Bytes) (l : List Signer) (hl : ∀ t ∈ l, t.ok (EC.ops secp256k1))
    (tweaks : List (Bytes × Bool)) (msg an : Bytes)
    (han : nonceAgg (EC.ops secp256k1) (l.map (Signer.pubNonce (EC.ops secp256k1))) = .ok an)
    (v : SessionValues Point)
    (hv : sessionValues (EC.ops secp256k1) H (honestCtx (EC.ops secp256k1) l an tweaks msg none) = .ok v)
    (hR : ((l.map Signer.k1).sum + v.b * (l.map Signer.k2).sum) % secp256k1.n ≠ 0)
    (sigs : List ℤ)
    (hs : List.Forall₂ (fun t σ => sign (EC.ops secp256k1) H t.k1 t.k2 (t.pk (EC.ops secp256k1)) t.d
      (honestCtx (EC.ops secp256k1) l an tweaks msg none) = .ok σ) l sigs) :
    ∃ r sg, partialSigAgg (EC.ops secp256k1) H (sigs.map sBytes)
        (honestCtx (EC.ops secp256k1) l an tweaks msg none) = .ok (r, sg) ∧
      bip340Verify (EC.ops secp256k1) H ((EC.ops secp256k1).x v.Q) msg r sg = true :=
  musig2_aggregate_verifies_secp256k1_raw secpCofactorOne H l hl tweaks msg an han v hv hR sigs hs

end Btc.C16.Raw
