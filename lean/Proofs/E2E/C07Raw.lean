import Proofs.E2E.C07
import Proofs.C01.CapstoneCofactor
/-
End-to-end corollaries for C07, part 2: everything about the EXECUTED environment `ecEnv C D` (`Btc.EC.ops C`).

`opsSub K` differs from `Btc.EC.ops C` only in `lift_x` (filtered to the `n`-torsion).  `LiftAgree K` says the filter
never fires; it follows from the cofactor-one hypothesis `hcof : ∀ g, n • g = 0` and `Δ ≠ 0`
(`liftAgree_of_cofactor_one`, C01's `liftXSub_val_of_cofactor_one`).  Under it every run over `subEnv K D` IS the
run over `ecEnv C D`: the BIP fold AND btclib's `_derive` shape (`deriveB`, whose public tweak chain holds a point of
a different carrier: simulated step by step).  Hence T1/T2/T3 in btclib's shape, refusals included, about `ecEnv C D`.
Without `LiftAgree`, what `deriveB` answers over `subEnv K D` it answers over `ecEnv C D` is also given
(`deriveB_sub_ok`).  `hcof` is NOT proved for secp256k1 (no point count in Mathlib): it is the one named assumption.
-/
open WeierstrassCurve

namespace Btc.E2E
open Btc Btc.EC Btc.C01 Btc.Bip32

section
variable {p : ℕ} [Fact p.Prime] {C : Curve}

variable (K : CurveOk p C) (D : EnvData)

/-! ### parsing a compressed key -/

theorem parsePoint_sub_val (hL : LiftAgree K) (key : Bytes) :
    (parsePoint (subEnv K D) key).map Subtype.val = parsePoint (ecEnv C D) key := by
  unfold parsePoint
  cases key with
  | nil => rfl
  | cons pfx xs =>
    simp only []
    by_cases hc : xs.length = 32 ∧ (pfx = 2 ∨ pfx = 3)
    · rw [ite_pos' hc, ite_pos' hc]
      have h := hL ((ofBE xs : ℕ) : ℤ)
      have e1 : (subEnv K D).o.liftX ((ofBE xs : ℕ) : ℤ) = (opsSub K).liftX ((ofBE xs : ℕ) : ℤ) := rfl
      have e2 : (ecEnv C D).o.liftX ((ofBE xs : ℕ) : ℤ) = (EC.ops C).liftX ((ofBE xs : ℕ) : ℤ) := rfl
      rw [e1, e2, ← h]
      cases (opsSub K).liftX ((ofBE xs : ℕ) : ℤ) with
      | none => rfl
      | some R =>
        simp only [Option.map_some]
        congr 1
        split <;> rfl
    · rw [ite_neg' hc, ite_neg' hc]; rfl

/-! ### the BIP fold -/

theorem ckdPub_sub_eq (hL : LiftAgree K) (x : XKey) (i : ℕ) :
    ckdPub (subEnv K D) x i = ckdPub (ecEnv C D) x i := by
  unfold ckdPub
  by_cases hi : i ≥ HARDENED
  · rw [ite_pos' hi, ite_pos' hi]
  · rw [ite_neg' hi, ite_neg' hi, ← parsePoint_sub_val K D hL x.key]
    cases parsePoint (subEnv K D) x.key with
    | none => rfl
    | some P => rfl

theorem ckd_sub_eq (hL : LiftAgree K) (x : XKey) (i : ℕ) : ckd (subEnv K D) x i = ckd (ecEnv C D) x i := by
  unfold ckd ckd'
  by_cases hd : x.depth ≥ MAX_DEPTH
  · rw [ite_pos' hd, ite_pos' hd]
  · rw [ite_neg' hd, ite_neg' hd]
    by_cases hx : x.isPrivate = true
    · rw [ite_pos' hx, ite_pos' hx]; rfl
    · rw [ite_neg' hx, ite_neg' hx]; exact ckdPub_sub_eq K D hL x i

/-- **the BIP fold over `subEnv K D` IS the fold over `ecEnv C D`**, refusals included -/
theorem deriveFold_sub_eq (hL : LiftAgree K) (path : List ℕ) (x : XKey) :
    deriveFold (subEnv K D) x path = deriveFold (ecEnv C D) x path := by
  induction path generalizing x with
  | nil => rfl
  | cons i path ih =>
    unfold deriveFold
    rw [ckd_sub_eq K D hL]
    cases ckd (ecEnv C D) x i with
    | error e => rfl
    | ok y => exact ih y

/-! ### btclib's `_derive` shape: the tweak chain holds a point of the other carrier -/

theorem pubStepWith_sub (s : Working × SubPt p C) (i : ℕ) (h : Bytes × Bytes) :
    (pubStepWith (subEnv K D) s i h).map (fun t => (t.1, t.2.1)) = pubStepWith (ecEnv C D) (s.1, s.2.1) i h := by
  unfold pubStepWith
  by_cases h1 : ofBE h.1 ≥ nN (subEnv K D)
  · rw [ite_pos' h1, ite_pos' (show ofBE h.1 ≥ nN (ecEnv C D) from h1)]; rfl
  · rw [ite_neg' h1, ite_neg' (show ¬ ofBE h.1 ≥ nN (ecEnv C D) from h1)]
    simp only []
    cases hz : (subEnv K D).o.isZero ((subEnv K D).o.add s.2 ((subEnv K D).o.mul ((ofBE h.1 : ℕ) : ℤ) (subEnv K D).o.gen)) with
    | true =>
      have hz' : (ecEnv C D).o.isZero ((ecEnv C D).o.add s.2.1 ((ecEnv C D).o.mul ((ofBE h.1 : ℕ) : ℤ) (ecEnv C D).o.gen)) = true := hz
      rw [ite_pos' rfl, hz', ite_pos' rfl]; rfl
    | false =>
      have hz' : (ecEnv C D).o.isZero ((ecEnv C D).o.add s.2.1 ((ecEnv C D).o.mul ((ofBE h.1 : ℕ) : ℤ) (ecEnv C D).o.gen)) = false := hz
      rw [ite_neg' (by simp), hz', ite_neg' (by simp)]; rfl

theorem pubStepB_sub (s : Working × SubPt p C) (i : ℕ) :
    (pubStepB (subEnv K D) s i).map (fun t => (t.1, t.2.1)) = pubStepB (ecEnv C D) (s.1, s.2.1) i :=
  pubStepWith_sub K D s i _

theorem walkPub_sub (path : List ℕ) (s : Working × SubPt p C) :
    (walkPub (subEnv K D) s path).map (fun t => (t.1, t.2.1)) = walkPub (ecEnv C D) (s.1, s.2.1) path := by
  induction path generalizing s with
  | nil => rfl
  | cons i path ih =>
    unfold walkPub
    rw [← pubStepB_sub K D s i]
    cases pubStepB (subEnv K D) s i with
    | error e => rfl
    | ok t => exact ih t

theorem walkPrv_sub (path : List ℕ) (w : Working) : walkPrv (subEnv K D) w path = walkPrv (ecEnv C D) w path := by
  induction path generalizing w with
  | nil => rfl
  | cons i path ih =>
    unfold walkPrv
    have : prvStepB (subEnv K D) w i [] = prvStepB (ecEnv C D) w i [] := rfl
    rw [this]
    cases prvStepB (ecEnv C D) w i [] with
    | error e => rfl
    | ok w' => exact ih w'

theorem prvPathB_sub (w : Working) (init : List ℕ) (last : ℕ) :
    prvPathB (subEnv K D) w init last = prvPathB (ecEnv C D) w init last := by
  unfold prvPathB
  rw [walkPrv_sub K D]
  rfl

/-- the public path walk: equal under `LiftAgree`; without it, an answer over `subEnv` is the answer over `ecEnv` -/
theorem pubPathB_sub (w : Working) (init : List ℕ) (last : ℕ) :
    (LiftAgree K → pubPathB (subEnv K D) w init last = pubPathB (ecEnv C D) w init last) ∧
    (∀ w', pubPathB (subEnv K D) w init last = .ok w' → pubPathB (ecEnv C D) w init last = .ok w') := by
  have key : ∀ P : SubPt p C,
      ((walkPub (subEnv K D) (w, P) init).bind fun s =>
        (pubStepB (subEnv K D) ({ s.1 with parentFp := fpOf (subEnv K D) s.1.key }, s.2) last).map (·.1)) =
      ((walkPub (ecEnv C D) (w, P.1) init).bind fun s =>
        (pubStepB (ecEnv C D) ({ s.1 with parentFp := fpOf (ecEnv C D) s.1.key }, s.2) last).map (·.1)) := by
    intro P
    rw [← walkPub_sub K D init (w, P)]
    cases walkPub (subEnv K D) (w, P) init with
    | error e => rfl
    | ok s =>
      have h := pubStepB_sub K D (({ s.1 with parentFp := fpOf (subEnv K D) s.1.key } : Working), s.2) last
      show (pubStepB (subEnv K D) _ last).map (·.1) =
        (pubStepB (ecEnv C D) (({ s.1 with parentFp := fpOf (subEnv K D) s.1.key } : Working), s.2.1) last).map (·.1)
      rw [← h]
      cases pubStepB (subEnv K D) (({ s.1 with parentFp := fpOf (subEnv K D) s.1.key } : Working), s.2) last with
      | error e => rfl
      | ok t => rfl
  unfold pubPathB
  by_cases hh : (init ++ [last]).any (· ≥ HARDENED) = true
  · rw [ite_pos' hh, ite_pos' hh]
    exact ⟨fun _ => rfl, fun _ h => h⟩
  · rw [ite_neg' hh, ite_neg' hh]
    constructor
    · intro hL
      rw [← parsePoint_sub_val K D hL w.key]
      cases parsePoint (subEnv K D) w.key with
      | none => rfl
      | some P => exact key P
    · intro w' h
      cases hp : parsePoint (subEnv K D) w.key with
      | none => rw [hp] at h; cases h
      | some P =>
        rw [hp] at h
        rw [parsePoint_sub K D hp]
        have h' := h
        simp only [] at h'
        rw [key P] at h'
        exact h'

theorem deriveWalk_sub (isPrv : Bool) (w : Working) (path : List ℕ) :
    (LiftAgree K → deriveWalk (subEnv K D) isPrv w path = deriveWalk (ecEnv C D) isPrv w path) ∧
    (∀ y, deriveWalk (subEnv K D) isPrv w path = .ok y → deriveWalk (ecEnv C D) isPrv w path = .ok y) := by
  unfold deriveWalk
  cases path.getLast? with
  | none => exact ⟨fun _ => rfl, fun _ h => h⟩
  | some last =>
    simp only []
    cases isPrv with
    | true =>
      rw [ite_pos' rfl, ite_pos' rfl, prvPathB_sub K D]
      exact ⟨fun _ => rfl, fun _ h => h⟩
    | false =>
      rw [ite_neg' (by simp), ite_neg' (by simp)]
      obtain ⟨h1, h2⟩ := pubPathB_sub K D w path.dropLast last
      constructor
      · intro hL; rw [h1 hL]
      · intro y h
        cases hp : pubPathB (subEnv K D) w path.dropLast last with
        | error e => rw [hp] at h; cases h
        | ok w' => rw [hp] at h; rw [h2 w' hp]; exact h

theorem forceStage_sub (x : XKey) (final : ℕ) (f : Option Bytes) :
    forceStage (subEnv K D) x final f = forceStage (ecEnv C D) x final f := rfl

theorem deriveB_sub (x : XKey) (path : List ℕ) (f : Option Bytes) :
    (LiftAgree K → deriveB (subEnv K D) x path f = deriveB (ecEnv C D) x path f) ∧
    (∀ y, deriveB (subEnv K D) x path f = .ok y → deriveB (ecEnv C D) x path f = .ok y) := by
  unfold deriveB
  simp only []
  by_cases hd : x.depth + path.length > MAX_DEPTH
  · rw [ite_pos' hd, ite_pos' hd]; exact ⟨fun _ => rfl, fun _ h => h⟩
  · rw [ite_neg' hd, ite_neg' hd, forceStage_sub K D]
    cases forceStage (ecEnv C D) x (x.depth + path.length) f with
    | error e => exact ⟨fun _ => rfl, fun _ h => h⟩
    | ok w => exact deriveWalk_sub K D x.isPrivate w path

/-- **the missing transfer**: what `_derive` answers over `subEnv K D` it answers over `ecEnv C D` (no assumption) -/
theorem deriveB_sub_ok {x y : XKey} {path : List ℕ} {f : Option Bytes}
    (h : deriveB (subEnv K D) x path f = .ok y) : deriveB (ecEnv C D) x path f = .ok y :=
  (deriveB_sub K D x path f).2 y h

/-- under `LiftAgree`, `_derive` over `subEnv K D` IS `_derive` over `ecEnv C D`, refusals included -/
theorem deriveB_sub_eq (hL : LiftAgree K) (x : XKey) (path : List ℕ) (f : Option Bytes) :
    deriveB (subEnv K D) x path f = deriveB (ecEnv C D) x path f :=
  (deriveB_sub K D x path f).1 hL

/-! ### T1 / T2 / T3 about the executed environment -/

/-- T1 on `Btc.EC.ops C`: `_derive` = the BIP fold, every field, refusals included -/
theorem deriveB_eq_fold_raw (hL : LiftAgree K) (h34 : p % 4 = 3) (B : Bounds (ecEnv C D)) (x : XKey) (path : List ℕ)
    (hk : x.isPrivate = true ∨ ∀ i ∈ path, i < HARDENED) (hd : x.depth + path.length ≤ MAX_DEPTH) :
    deriveB (ecEnv C D) x path none = deriveFold (ecEnv C D) x path := by
  rw [← deriveB_sub_eq K D hL, ← deriveFold_sub_eq K D hL]
  exact deriveB_eq_fold_ec K D h34 B x path hk hd

/-- T3 on `Btc.EC.ops C`, the full equation (refusals included), for the BIP fold -/
theorem neuter_derive_raw_full (hL : LiftAgree K) (h34 : p % 4 = 3) (B : Bounds (ecEnv C D)) (x : XKey) (v : Bytes)
    (path : List ℕ) (hv : ValidPrv (ecEnv C D) x) (hver : D.pubVersion x.version = some v)
    (hp : ∀ i ∈ path, i < HARDENED) :
    ((deriveFold (ecEnv C D) x path).mapError Err.toPub).bind (neuter (ecEnv C D)) =
      (neuter (ecEnv C D) x).bind fun x' => deriveFold (ecEnv C D) x' path := by
  have h := neuter_derive_ec K D h34 B x v path hv hver hp
  rw [deriveFold_sub_eq K D hL] at h
  have e : (fun x' => deriveFold (subEnv K D) x' path) = fun x' => deriveFold (ecEnv C D) x' path :=
    funext (deriveFold_sub_eq K D hL path)
  rw [e] at h
  exact h

/-- T3 on `Btc.EC.ops C` in btclib's shape (`_derive`, `_xpub_from_xprv`), within the depth bound -/
theorem neuter_deriveB_raw (hL : LiftAgree K) (h34 : p % 4 = 3) (B : Bounds (ecEnv C D)) (x : XKey) (v : Bytes)
    (path : List ℕ) (hv : ValidPrv (ecEnv C D) x) (hver : D.pubVersion x.version = some v)
    (hp : ∀ i ∈ path, i < HARDENED) (hd : x.depth + path.length ≤ MAX_DEPTH) :
    ((deriveB (ecEnv C D) x path none).mapError Err.toPub).bind (neuter (ecEnv C D)) =
      (neuter (ecEnv C D) x).bind fun x' => deriveB (ecEnv C D) x' path none := by
  rw [deriveB_eq_fold_raw K D hL h34 B x path (Or.inr hp) hd, neuter_derive_raw_full K D hL h34 B x v path hv hver hp,
    neuter_ok hv hver]
  simp only [Except.bind]
  exact (deriveB_eq_fold_raw K D hL h34 B { x with version := v, key := pubOfPrv (ecEnv C D) x.prvInt } path
    (Or.inr hp) hd).symm

/-- T1 (fields) on `Btc.EC.ops C`: the answer sits at the requested index, depth + path length, parent's version -/
theorem deriveB_fields_raw (hL : LiftAgree K) (h34 : p % 4 = 3) (B : Bounds (ecEnv C D)) (x y : XKey) (path : List ℕ)
    (hk : x.isPrivate = true ∨ ∀ i ∈ path, i < HARDENED) (h : deriveB (ecEnv C D) x path none = .ok y) :
    y.depth = x.depth + path.length ∧ y.version = x.version ∧ y.isPrivate = x.isPrivate ∧
    ∀ i, path.getLast? = some i → y.index = i :=
  fields_of_eq (deriveB_eq_fold_raw K D hL h34 B x path hk (depth_of_ok h)) h

/-- T2 on `Btc.EC.ops C` in btclib's shape: one call along the whole path = two calls along any split -/
theorem deriveB_compose_raw (hL : LiftAgree K) (h34 : p % 4 = 3) (B : Bounds (ecEnv C D)) (x y : XKey) (q r : List ℕ)
    (hk : x.isPrivate = true ∨ ∀ i ∈ q ++ r, i < HARDENED)
    (hd : x.depth + (q ++ r).length ≤ MAX_DEPTH) (h : deriveB (ecEnv C D) x q none = .ok y) :
    deriveB (ecEnv C D) y r none = deriveB (ecEnv C D) x (q ++ r) none := by
  have hkq : x.isPrivate = true ∨ ∀ i ∈ q, i < HARDENED :=
    hk.imp id fun h i hi => h i (List.mem_append_left _ hi)
  have hf := deriveB_fields_raw K D hL h34 B x y q hkq h
  have hdq : x.depth + q.length ≤ MAX_DEPTH := depth_of_ok h
  have hdr : y.depth + r.length ≤ MAX_DEPTH := by simp at hd; omega
  have hkr : y.isPrivate = true ∨ ∀ i ∈ r, i < HARDENED := by
    rcases hk with h | h
    · left; rw [hf.2.2.1]; exact h
    · right; exact fun i hi => h i (List.mem_append_right _ hi)
  exact compose_of_eq (deriveB_eq_fold_raw K D hL h34 B x q hkq hdq) (deriveB_eq_fold_raw K D hL h34 B y r hkr hdr)
    (deriveB_eq_fold_raw K D hL h34 B x (q ++ r) hk hd) h

end

/-! ## secp256k1: the driver's `secpEnv mac`, under the ONE named assumption `hcof` (cofactor one) -/

/-- the discriminant of `y² = x³ + 7` over the secp256k1 field is not zero (−21168 is not a multiple of `p`) -/
theorem secp256k1_disc_ne_zero :
    (curveOf secp256k1_p secp256k1.toCurveGroup).toAffine.Δ ≠ 0 := by
  have ha : (secp256k1.toCurveGroup.a : ZMod secp256k1_p) = 0 := by
    have : secp256k1.toCurveGroup.a = 0 := by decide +kernel
    rw [this]; simp
  have hb : (secp256k1.toCurveGroup.b : ZMod secp256k1_p) = 7 := by
    have : secp256k1.toCurveGroup.b = 7 := by decide +kernel
    rw [this]; simp
  unfold curveOf
  rw [ha, hb]
  simp only [WeierstrassCurve.Δ, WeierstrassCurve.b₂, WeierstrassCurve.b₄, WeierstrassCurve.b₆, WeierstrassCurve.b₈, swc]
  ring_nf
  have h : ((-21168 : ℤ) : ZMod secp256k1_p) ≠ 0 := by
    rw [Ne, ZMod.intCast_zmod_eq_zero_iff_dvd]
    decide +kernel
  convert h using 1
  push_cast
  ring


theorem secp_liftAgree (hcof : SecpCofactorOne) : LiftAgree secpOk :=
  liftAgree_of_cofactor_one secpOk secp256k1_h34 hcof secp256k1_disc_ne_zero

theorem deriveB_eq_fold_secp256k1_cofactor_one (hcof : SecpCofactorOne) (mac : Bytes → Bytes → Bytes) (x : XKey) (path : List ℕ)
    (hk : x.isPrivate = true ∨ ∀ i ∈ path, i < HARDENED) (hd : x.depth + path.length ≤ MAX_DEPTH) :
    deriveB (secpEnv mac) x path none = deriveFold (secpEnv mac) x path :=
  deriveB_eq_fold_raw secpOk (secpData mac) (secp_liftAgree hcof) secp256k1_h34 (secp_bounds mac) x path hk hd

theorem deriveB_fields_secp256k1_cofactor_one (hcof : SecpCofactorOne) (mac : Bytes → Bytes → Bytes) (x y : XKey) (path : List ℕ)
    (hk : x.isPrivate = true ∨ ∀ i ∈ path, i < HARDENED) (h : deriveB (secpEnv mac) x path none = .ok y) :
    y.depth = x.depth + path.length ∧ y.version = x.version ∧ y.isPrivate = x.isPrivate ∧
    ∀ i, path.getLast? = some i → y.index = i :=
  deriveB_fields_raw secpOk (secpData mac) (secp_liftAgree hcof) secp256k1_h34 (secp_bounds mac) x y path hk h

theorem deriveB_compose_secp256k1_cofactor_one (hcof : SecpCofactorOne) (mac : Bytes → Bytes → Bytes) (x y : XKey)
    (q r : List ℕ) (hk : x.isPrivate = true ∨ ∀ i ∈ q ++ r, i < HARDENED)
    (hd : x.depth + (q ++ r).length ≤ MAX_DEPTH) (h : deriveB (secpEnv mac) x q none = .ok y) :
    deriveB (secpEnv mac) y r none = deriveB (secpEnv mac) x (q ++ r) none :=
  deriveB_compose_raw secpOk (secpData mac) (secp_liftAgree hcof) secp256k1_h34 (secp_bounds mac) x y q r hk hd h

theorem neuter_derive_secp256k1_cofactor_one (hcof : SecpCofactorOne) (mac : Bytes → Bytes → Bytes) (x : XKey) (v : Bytes)
    (path : List ℕ) (hv : ValidPrv (secpEnv mac) x) (hver : Gen.Bip32.pubVersion x.version = some v)
    (hp : ∀ i ∈ path, i < HARDENED) :
    ((deriveFold (secpEnv mac) x path).mapError Err.toPub).bind (neuter (secpEnv mac)) =
      (neuter (secpEnv mac) x).bind fun x' => deriveFold (secpEnv mac) x' path :=
  neuter_derive_raw_full secpOk (secpData mac) (secp_liftAgree hcof) secp256k1_h34 (secp_bounds mac) x v path hv hver hp

theorem neuter_deriveB_secp256k1_cofactor_one (hcof : SecpCofactorOne) (mac : Bytes → Bytes → Bytes) (x : XKey) (v : Bytes)
    (path : List ℕ) (hv : ValidPrv (secpEnv mac) x) (hver : Gen.Bip32.pubVersion x.version = some v)
    (hp : ∀ i ∈ path, i < HARDENED) (hd : x.depth + path.length ≤ MAX_DEPTH) :
    ((deriveB (secpEnv mac) x path none).mapError Err.toPub).bind (neuter (secpEnv mac)) =
      (neuter (secpEnv mac) x).bind fun x' => deriveB (secpEnv mac) x' path none :=
  neuter_deriveB_raw secpOk (secpData mac) (secp_liftAgree hcof) secp256k1_h34 (secp_bounds mac) x v path hv hver hp hd

/-- no assumption: what `_derive` answers over `secpSubEnv` it answers on the driver's `secpEnv` -/
theorem deriveB_sub_ok_secp256k1 (mac : Bytes → Bytes → Bytes) {x y : XKey} {path : List ℕ} {f : Option Bytes}
    (h : deriveB (secpSubEnv mac) x path f = .ok y) : deriveB (secpEnv mac) x path f = .ok y :=
  deriveB_sub_ok secpOk (secpData mac) h

end Btc.E2E
