import Proofs.C01.CapstoneCofactor
import Proofs.E2E.Basic
import Proofs.C16.Musig2Agg
/-
C16 end-to-end over the RAW arithmetic `Btc.EC.ops C` (the instance the driver executes), under the single
named hypothesis `hcof` (cofactor one) of `opsSub_hom`:  every MuSig2 model function commutes with an
`OpsHom` (`Subtype.val : SubPt p C → Point`), so a run over the lawful carrier `opsSub K` and the run over
`Btc.EC.ops C` answer the same bytes / integers / verdicts, and T2 / T3 transfer verbatim.
-/
namespace Btc.C16.Raw
open Btc Btc.Py Btc.C16 Btc.C01

section
variable {α β : Type} {o₁ : GroupOps α} {o₂ : GroupOps β} {f : α → β} (h : OpsHom o₁ o₂ f)
variable (H : Bytes → Bytes → Bytes)

def mapKc (f : α → β) (c : KeyAggCtx α) : KeyAggCtx β := ⟨f c.Q, c.gacc, c.tacc⟩
def mapSv (f : α → β) (v : SessionValues α) : SessionValues β :=
  ⟨f v.Q, v.gacc, v.tacc, v.b, f v.R, v.e, v.L, v.second⟩

include h

theorem evenY_hom (P : α) : evenY o₁ P = evenY o₂ (f P) := by simp only [evenY, h.y]

theorem cbytes_hom (P : α) : cbytes o₁ P = cbytes o₂ (f P) := by
  simp only [cbytes, evenY_hom h, h.x]

theorem cbytesExt_hom (P : α) : cbytesExt o₁ P = cbytesExt o₂ (f P) := by
  simp only [cbytesExt, h.isZero, cbytes_hom h]

theorem cpoint_hom (b : Bytes) : Except.map f (cpoint o₁ b) = cpoint o₂ b := by
  unfold cpoint
  split
  · rfl
  · cases b with
    | nil => rfl
    | cons pre xs =>
      simp only
      split
      · cases hl : o₁.liftX (ofBE xs) with
        | none => rw [h.liftX_none hl]; rfl
        | some Q =>
          rw [h.liftX_some hl]
          simp only [Except.map]
          split <;> simp [h.neg]
      · rfl

theorem cpointExt_hom (b : Bytes) : Except.map f (cpointExt o₁ b) = cpointExt o₂ b := by
  unfold cpointExt
  split
  · rfl
  · split
    · simp [Except.map, h.zero]
    · exact cpoint_hom h b

theorem scalarOk_hom (q : Int) : scalarOk o₁ q = scalarOk o₂ q := by simp only [scalarOk, h.n]

theorem individualPubKey_hom (d : Int) : individualPubKey o₁ d = individualPubKey o₂ d := by
  simp only [individualPubKey, cbytes_hom h, h.mul, h.gen]

theorem keyAggCoeff_hom (L s pk : Bytes) : keyAggCoeff o₁ H L s pk = keyAggCoeff o₂ H L s pk := by
  simp only [keyAggCoeff, h.n]

theorem keyAggSum_hom (L s : Bytes) : ∀ pks, Except.map f (keyAggSum o₁ H L s pks) = keyAggSum o₂ H L s pks
  | [] => by simp [keyAggSum, Except.map, h.zero]
  | pk :: rest => by
    have hc := cpoint_hom h pk
    have ih := keyAggSum_hom L s rest
    simp only [keyAggSum]
    cases h1 : cpoint o₁ pk with
    | error e => rw [h1] at hc; simp only [Except.map] at hc; rw [← hc]; rfl
    | ok P =>
      rw [h1] at hc; simp only [Except.map] at hc; rw [← hc]
      cases h2 : keyAggSum o₁ H L s rest with
      | error e => rw [h2] at ih; simp only [Except.map] at ih; rw [← ih]; rfl
      | ok S =>
        rw [h2] at ih; simp only [Except.map] at ih; rw [← ih]
        simp [Except.map, h.add, h.mul, keyAggCoeff_hom h H]

theorem keyAgg_hom (pks : List Bytes) : Except.map (mapKc f) (keyAgg o₁ H pks) = keyAgg o₂ H pks := by
  have hs := keyAggSum_hom h H (hashPubKeys H pks) (secondPubKey pks) pks
  unfold keyAgg
  split
  · rfl
  · cases h1 : keyAggSum o₁ H (hashPubKeys H pks) (secondPubKey pks) pks with
    | error e => rw [h1] at hs; simp only [Except.map] at hs; rw [← hs]; rfl
    | ok Q =>
      rw [h1] at hs; simp only [Except.map] at hs; rw [← hs]
      simp only [h.isZero]
      split
      · rfl
      · split <;> rfl

theorem applyTweak_hom (c : KeyAggCtx α) (tw : Bytes) (x : Bool) :
    Except.map (mapKc f) (applyTweak o₁ c tw x) = applyTweak o₂ (mapKc f c) tw x := by
  have hg : tweakG o₁ c x = tweakG o₂ (mapKc f c) x := by simp [tweakG, mapKc, evenY_hom h, h.n]
  have hq : ∀ t, f (tweakQ o₁ c t x) = tweakQ o₂ (mapKc f c) t x := by
    intro t; simp only [tweakQ, hg, h.add, h.mul, h.gen]; split <;> simp [mapKc, h.neg]
  unfold applyTweak
  simp only [h.n, h.isZero, hq, hg]
  split
  · rfl
  · split
    · rfl
    · split
      · rfl
      · simp [Except.map, mapKc, hq]

theorem applyTweaks_hom : ∀ (tws : List (Bytes × Bool)) (c : KeyAggCtx α),
    Except.map (mapKc f) (applyTweaks o₁ c tws) = applyTweaks o₂ (mapKc f c) tws
  | [], c => rfl
  | (t, x) :: rest, c => by
    have ht := applyTweak_hom h c t x
    simp only [applyTweaks]
    cases h1 : applyTweak o₁ c t x with
    | error e => rw [h1] at ht; simp only [Except.map] at ht; rw [← ht]; rfl
    | ok c' =>
      rw [h1] at ht; simp only [Except.map] at ht; rw [← ht]
      exact applyTweaks_hom rest c'

theorem keyAggAndTweak_hom (pks : List Bytes) (tws : List (Bytes × Bool)) :
    Except.map (mapKc f) (keyAggAndTweak o₁ H pks tws) = keyAggAndTweak o₂ H pks tws := by
  have hk := keyAgg_hom h H pks
  unfold keyAggAndTweak
  cases h1 : keyAgg o₁ H pks with
  | error e => rw [h1] at hk; simp only [Except.map] at hk; rw [← hk]; rfl
  | ok c =>
    rw [h1] at hk; simp only [Except.map] at hk; rw [← hk]
    exact applyTweaks_hom h tws c

theorem sessionPoints_hom (s : SessionCtx) :
    Except.map (fun t : KeyAggCtx α × α × α => (mapKc f t.1, f t.2.1, f t.2.2)) (sessionPoints o₁ H s)
      = sessionPoints o₂ H s := by
  have hk := keyAggAndTweak_hom h H s.pubKeys s.tweaks
  have h1' := cpointExt_hom h (s.aggNonce.take pkSize)
  have h2' := cpointExt_hom h (s.aggNonce.drop pkSize)
  unfold sessionPoints
  cases h0 : keyAggAndTweak o₁ H s.pubKeys s.tweaks with
  | error e => rw [h0] at hk; simp only [Except.map] at hk; rw [← hk]; rfl
  | ok kc =>
    rw [h0] at hk; simp only [Except.map] at hk; rw [← hk]
    cases h1 : cpointExt o₁ (s.aggNonce.take pkSize) with
    | error e => rw [h1] at h1'; simp only [Except.map] at h1'; rw [← h1']; rfl
    | ok R1 =>
      rw [h1] at h1'; simp only [Except.map] at h1'; rw [← h1']
      cases h2 : cpointExt o₁ (s.aggNonce.drop pkSize) with
      | error e => rw [h2] at h2'; simp only [Except.map] at h2'; rw [← h2']; rfl
      | ok R2 =>
        rw [h2] at h2'; simp only [Except.map] at h2'; rw [← h2']
        cases had : s.adaptor with
        | none => rfl
        | some a =>
          have ha := cpoint_hom h a
          simp only
          cases h3 : cpoint o₁ a with
          | error e => rw [h3] at ha; simp only [Except.map] at ha; rw [← ha]; rfl
          | ok T => rw [h3] at ha; simp only [Except.map] at ha; rw [← ha]; simp [Except.map, h.add]

theorem sessionValues_hom (s : SessionCtx) :
    Except.map (mapSv f) (sessionValues o₁ H s) = sessionValues o₂ H s := by
  have hp := sessionPoints_hom h H s
  unfold sessionValues
  cases h0 : sessionPoints o₁ H s with
  | error e => rw [h0] at hp; simp only [Except.map] at hp; rw [← hp]; rfl
  | ok t =>
    obtain ⟨kc, R1, R2⟩ := t
    rw [h0] at hp; simp only [Except.map] at hp; rw [← hp]
    have hb : nonceCoeff o₁ H kc R1 R2 s.msg = nonceCoeff o₂ H (mapKc f kc) (f R1) (f R2) s.msg := by
      simp only [nonceCoeff, xOnlyPubKey, mapKc, cbytesExt_hom h, h.x, h.n]
    have hR : ∀ b, f (finalNonce o₁ b R1 R2) = finalNonce o₂ b (f R1) (f R2) := by
      intro b; simp only [finalNonce, h.isZero, h.add, h.mul]; split <;> simp [h.gen, h.add, h.mul]
    have he : ∀ b, challenge o₁ H (o₁.x (finalNonce o₁ b R1 R2)) (o₁.x kc.Q) s.msg
        = challenge o₂ H (o₂.x (finalNonce o₂ b (f R1) (f R2))) (o₂.x (f kc.Q)) s.msg := by
      intro b; simp only [challenge, h.x, hR, h.n]
    simp only [hb, he, mapKc]
    split <;> rename_i hz <;> simp [hz, Except.map, mapSv, hR, hb, mapKc]

theorem gOf_hom (Q : α) : gOf o₁ Q = gOf o₂ (f Q) := by simp [gOf, evenY_hom h, h.n]

/-- `sign` answers the same scalar over both instances -/
theorem sign_hom (k1 k2 : Int) (snPk : Bytes) (d : Int) (s : SessionCtx) :
    sign o₁ H k1 k2 snPk d s = sign o₂ H k1 k2 snPk d s := by
  have hv := sessionValues_hom h H s
  unfold sign
  cases h0 : sessionValues o₁ H s with
  | error e => rw [h0] at hv; simp only [Except.map] at hv; rw [← hv]
  | ok v =>
    rw [h0] at hv; simp only [Except.map] at hv; rw [← hv]
    simp only [scalarOk_hom h, individualPubKey_hom h, mapSv, ← evenY_hom h, ← gOf_hom h, h.n,
      keyAggCoeff_hom h H]

/-- `partial_sig_verify_` answers the same verdict over both instances -/
theorem partialSigVerify_hom (psig pn pk : Bytes) (s : SessionCtx) :
    partialSigVerify o₁ H psig pn pk s = partialSigVerify o₂ H psig pn pk s := by
  have hv := sessionValues_hom h H s
  have c1 := cpoint_hom h (pn.take pkSize)
  have c2 := cpoint_hom h (pn.drop pkSize)
  have c3 := cpoint_hom h pk
  unfold partialSigVerify
  cases h0 : sessionValues o₁ H s with
  | error e => rw [h0] at hv; simp only [Except.map] at hv; rw [← hv]
  | ok v =>
    rw [h0] at hv; simp only [Except.map] at hv; rw [← hv]
    simp only [h.n]
    split
    · rfl
    split
    · rfl
    split
    · rfl
    split
    · rfl
    cases h1 : cpoint o₁ (pn.take pkSize) with
    | error e => rw [h1] at c1; simp only [Except.map] at c1; rw [← c1]
    | ok Rs1 =>
      rw [h1] at c1; simp only [Except.map] at c1; rw [← c1]
      cases h2 : cpoint o₁ (pn.drop pkSize) with
      | error e => rw [h2] at c2; simp only [Except.map] at c2; rw [← c2]
      | ok Rs2 =>
        rw [h2] at c2; simp only [Except.map] at c2; rw [← c2]
        cases h3 : cpoint o₁ pk with
        | error e => rw [h3] at c3; simp only [Except.map] at c3; rw [← c3]
        | ok P =>
          rw [h3] at c3; simp only [Except.map] at c3; rw [← c3]
          simp only [mapSv, ← evenY_hom h, ← gOf_hom h, keyAggCoeff_hom h H, h.n]
          split
          · rfl
          · congr 1
            rw [h.eq, h.mul, h.gen, h.add, h.mul]
            congr 2
            split <;> simp [h.add, h.mul, h.neg]


theorem sumPoints_hom : ∀ l : List α, f (sumPoints o₁ l) = sumPoints o₂ (l.map f)
  | [] => by simp [sumPoints, h.zero]
  | P :: rest => by simp [sumPoints, h.add, sumPoints_hom rest]

theorem parseAll_hom : ∀ bs : List Bytes,
    Except.map (List.map f) (parseAll (cpoint o₁) bs) = parseAll (cpoint o₂) bs
  | [] => rfl
  | b :: rest => by
    have hc := cpoint_hom h b
    have ih := parseAll_hom rest
    simp only [parseAll]
    cases h1 : cpoint o₁ b with
    | error e => rw [h1] at hc; simp only [Except.map] at hc; rw [← hc]; rfl
    | ok P =>
      rw [h1] at hc; simp only [Except.map] at hc; rw [← hc]
      cases h2 : parseAll (cpoint o₁) rest with
      | error e => rw [h2] at ih; simp only [Except.map] at ih; rw [← ih]; rfl
      | ok Ps => rw [h2] at ih; simp only [Except.map] at ih; rw [← ih]; rfl

/-- `nonce_agg` answers the same octets over both instances -/
theorem nonceAgg_hom (pns : List Bytes) : nonceAgg o₁ pns = nonceAgg o₂ pns := by
  have p1 := parseAll_hom h (pns.map (·.take pkSize))
  have p2 := parseAll_hom h (pns.map (·.drop pkSize))
  unfold nonceAgg
  split
  · rfl
  cases h1 : parseAll (cpoint o₁) (pns.map (·.take pkSize)) with
  | error e => rw [h1] at p1; simp only [Except.map] at p1; rw [← p1]
  | ok R1s =>
    rw [h1] at p1; simp only [Except.map] at p1; rw [← p1]
    cases h2 : parseAll (cpoint o₁) (pns.map (·.drop pkSize)) with
    | error e => rw [h2] at p2; simp only [Except.map] at p2; rw [← p2]
    | ok R2s =>
      rw [h2] at p2; simp only [Except.map] at p2; rw [← p2]
      simp only [cbytesExt_hom h, sumPoints_hom h]

theorem partialSigAgg_hom (psigs : List Bytes) (s : SessionCtx) :
    partialSigAgg o₁ H psigs s = partialSigAgg o₂ H psigs s := by
  have hv := sessionValues_hom h H s
  unfold partialSigAgg aggS
  split
  · rfl
  cases h0 : sessionValues o₁ H s with
  | error e => rw [h0] at hv; simp only [Except.map] at hv; rw [← hv]
  | ok v =>
    rw [h0] at hv; simp only [Except.map] at hv; rw [← hv]
    simp only [h.n, mapSv, ← gOf_hom h, h.x]

theorem bip340Verify_hom (xQ : Int) (msg : Bytes) (r sg : Int) :
    bip340Verify o₁ H xQ msg r sg = bip340Verify o₂ H xQ msg r sg := by
  unfold bip340Verify
  cases h1 : o₁.liftX r with
  | none => rw [h.liftX_none h1]
  | some R0 =>
    rw [h.liftX_some h1]
    simp only [h.n]
    split
    · rfl
    cases h2 : o₁.liftX xQ with
    | none => rw [h.liftX_none h2]
    | some P =>
      rw [h.liftX_some h2]
      simp only [challenge, h.n, ← h.dmul, ← h.gen, ← h.isZero, ← evenY_hom h, ← h.x]

theorem signerPk_hom (t : Signer) : t.pk o₁ = t.pk o₂ := individualPubKey_hom h t.d

theorem signerPubNonce_hom (t : Signer) : t.pubNonce o₁ = t.pubNonce o₂ := by
  simp only [Signer.pubNonce, cbytes_hom h, h.mul, h.gen]

theorem honestCtx_hom (l : List Signer) (an : Bytes) (tw : List (Bytes × Bool)) (msg : Bytes) (ad : Option Bytes) :
    honestCtx o₁ l an tw msg ad = honestCtx o₂ l an tw msg ad := by
  unfold honestCtx
  congr 1
  exact List.map_congr_left (fun t _ => signerPk_hom h t)


end
end Btc.C16.Raw


/-! ## the end-to-end theorems over `Btc.EC.ops C` under cofactor one -/
namespace Btc.C16.Raw
open Btc Btc.EC Btc.Py Btc.C16 Btc.C01
section
variable {p : ℕ} [Fact p.Prime] {C : Curve}

/-- **C16-T2 over the RAW arithmetic** (`Btc.EC.ops C`, what the driver executes): under `CurveOk`, `p ≡ 3 mod 4`,
`Δ ≠ 0` and the named cofactor-one hypothesis `hcof`, whatever `sign` answers passes `partial_sig_verify_` —
any session context, signer key and nonces. -/
theorem musig2_partial_sig_verifies_raw (K : CurveOk p C) (h34 : p % 4 = 3)
    (hcof : ∀ g : Pt p C.toCurveGroup, C.n • g = 0) (hΔ : (curveOf p C.toCurveGroup).toAffine.Δ ≠ 0)
    (H : Bytes → Bytes → Bytes) (hp : C.p ≤ 256 ^ 32) (hn : C.n ≤ 256 ^ 32)
    (s : SessionCtx) (d k1 k2 σ : ℤ)
    (hs : sign (EC.ops C) H k1 k2 (individualPubKey (EC.ops C) d) d s = .ok σ) :
    partialSigVerify (EC.ops C) H (sBytes σ)
      (cbytes (EC.ops C) ((EC.ops C).mul k1 (EC.ops C).gen) ++ cbytes (EC.ops C) ((EC.ops C).mul k2 (EC.ops C).gen))
      (individualPubKey (EC.ops C) d) s = .ok true := by
  have hom := opsSub_hom K h34 hcof hΔ
  rw [← sign_hom hom H, ← individualPubKey_hom hom] at hs
  have := partial_sig_verifies (lawful_ec K h34) H hp hn hs
  rw [partialSigVerify_hom hom H, individualPubKey_hom hom, cbytes_hom hom, cbytes_hom hom, hom.mul, hom.mul,
    hom.gen] at this
  exact this

/-- **C16-T3 over the RAW arithmetic**: the aggregate of the honest partial signatures satisfies BIP340
verification for the aggregate x-only key, all computed by `Btc.EC.ops C`, under the same hypotheses. -/
theorem musig2_aggregate_verifies_raw (K : CurveOk p C) (h34 : p % 4 = 3)
    (hcof : ∀ g : Pt p C.toCurveGroup, C.n • g = 0) (hΔ : (curveOf p C.toCurveGroup).toAffine.Δ ≠ 0)
    (H : Bytes → Bytes → Bytes) (hp : C.p ≤ 256 ^ 32) (hn : C.n ≤ 256 ^ 32)
    (l : List Signer) (hl : ∀ t ∈ l, t.ok (EC.ops C)) (tweaks : List (Bytes × Bool)) (msg an : Bytes)
    (han : nonceAgg (EC.ops C) (l.map (Signer.pubNonce (EC.ops C))) = .ok an)
    (v : SessionValues Point) (hv : sessionValues (EC.ops C) H (honestCtx (EC.ops C) l an tweaks msg none) = .ok v)
    (hR : ((l.map Signer.k1).sum + v.b * (l.map Signer.k2).sum) % C.n ≠ 0)
    (sigs : List ℤ)
    (hs : List.Forall₂ (fun t σ => sign (EC.ops C) H t.k1 t.k2 (t.pk (EC.ops C)) t.d
      (honestCtx (EC.ops C) l an tweaks msg none) = .ok σ) l sigs) :
    ∃ r sg, partialSigAgg (EC.ops C) H (sigs.map sBytes) (honestCtx (EC.ops C) l an tweaks msg none) = .ok (r, sg) ∧
      bip340Verify (EC.ops C) H ((EC.ops C).x v.Q) msg r sg = true := by
  have hom := opsSub_hom K h34 hcof hΔ
  have hctx := honestCtx_hom hom l an tweaks msg none
  have hpn : l.map (Signer.pubNonce (opsSub K)) = l.map (Signer.pubNonce (EC.ops C)) :=
    List.map_congr_left (fun t _ => signerPubNonce_hom hom t)
  have han' : nonceAgg (opsSub K) (l.map (Signer.pubNonce (opsSub K))) = .ok an := by
    rw [nonceAgg_hom hom, hpn]; exact han
  -- the session values over the carrier
  have hsv := sessionValues_hom hom H (honestCtx (opsSub K) l an tweaks msg none)
  rw [hctx, hv] at hsv
  cases h0 : sessionValues (opsSub K) H (honestCtx (EC.ops C) l an tweaks msg none) with
  | error e => rw [h0] at hsv; simp [Except.map] at hsv
  | ok v' =>
    rw [h0] at hsv
    simp only [Except.map, Except.ok.injEq] at hsv
    have hvb : v'.b = v.b := by rw [← hsv]; rfl
    have hvQ : (EC.ops C).x v.Q = (opsSub K).x v'.Q := by rw [← hsv]; rfl
    have hl' : ∀ t ∈ l, t.ok (opsSub K) := hl
    have hs' : List.Forall₂ (fun t σ => sign (opsSub K) H t.k1 t.k2 (t.pk (opsSub K)) t.d
        (honestCtx (opsSub K) l an tweaks msg none) = .ok σ) l sigs := by
      refine hs.imp (fun t σ ht => ?_)
      rw [sign_hom hom H, signerPk_hom hom, hctx]; exact ht
    obtain ⟨r, sg, hagg, hver⟩ := aggregate_verifies (lawful_ec K h34) H hp hn l hl' tweaks msg an han'
      (by rw [hctx]; exact h0) (by rw [hvb]; exact hR) sigs hs'
    refine ⟨r, sg, ?_, ?_⟩
    · rw [← partialSigAgg_hom hom H, ← hctx]; exact hagg
    · rw [hvQ, ← bip340Verify_hom hom H]; exact hver

end
end Btc.C16.Raw

/-! ## secp256k1: the ONLY hypothesis left is cofactor one (`hcof`); primality of `p`, `n`, `CurveOk`, `p ≡ 3 mod 4`
and `Δ ≠ 0` are proved -/
namespace Btc.C16.Raw
open Btc Btc.EC Btc.Py Btc.C16 Btc.C01 Btc.E2E

theorem secp256k1_delta : @WeierstrassCurve.Δ _ _ (@curveOf secp256k1_p ⟨secp256k1_p_prime⟩ secp256k1.toCurveGroup).toAffine ≠ 0 := by
  haveI : Fact secp256k1_p.Prime := ⟨secp256k1_p_prime⟩
  refine delta_ne_zero_of_a_zero (C := secp256k1) (by decide +kernel) ?_
  intro h
  have hd := (ZMod.intCast_zmod_eq_zero_iff_dvd _ secp256k1_p).mp h
  have hb : (2 * 3 * secp256k1.b : ℤ) = 42 := by decide +kernel
  rw [hb] at hd
  have hle := Int.le_of_dvd (by norm_num) hd
  have hp : (43 : ℤ) ≤ (secp256k1_p : ℤ) := by rw [secp256k1_p_val]; norm_num
  omega

theorem secp_sizes : secp256k1.p ≤ 256 ^ 32 ∧ secp256k1.n ≤ 256 ^ 32 := by decide +kernel

theorem musig2_partial_sig_verifies_secp256k1_raw
    (hcof : ∀ g : @Pt secp256k1_p ⟨secp256k1_p_prime⟩ secp256k1.toCurveGroup, secp256k1.n • g = 0)
    (H : Bytes → Bytes → Bytes) (s : SessionCtx) (d k1 k2 σ : ℤ)
    (hs : sign (EC.ops secp256k1) H k1 k2 (individualPubKey (EC.ops secp256k1) d) d s = .ok σ) :
    partialSigVerify (EC.ops secp256k1) H (sBytes σ)
      (cbytes (EC.ops secp256k1) ((EC.ops secp256k1).mul k1 (EC.ops secp256k1).gen) ++
        cbytes (EC.ops secp256k1) ((EC.ops secp256k1).mul k2 (EC.ops secp256k1).gen))
      (individualPubKey (EC.ops secp256k1) d) s = .ok true :=
  @musig2_partial_sig_verifies_raw secp256k1_p ⟨secp256k1_p_prime⟩ secp256k1 secpOk secp256k1_h34 hcof secp256k1_delta H
    secp_sizes.1 secp_sizes.2 s d k1 k2 σ hs

theorem musig2_aggregate_verifies_secp256k1_raw
    (hcof : ∀ g : @Pt secp256k1_p ⟨secp256k1_p_prime⟩ secp256k1.toCurveGroup, secp256k1.n • g = 0)
    (H : Bytes → Bytes → Bytes) (l : List Signer) (hl : ∀ t ∈ l, t.ok (EC.ops secp256k1))
    (tweaks : List (Bytes × Bool)) (msg an : Bytes)
    (han : nonceAgg (EC.ops secp256k1) (l.map (Signer.pubNonce (EC.ops secp256k1))) = .ok an)
    (v : SessionValues Point)
    (hv : sessionValues (EC.ops secp256k1) H (honestCtx (EC.ops secp256k1) l an tweaks msg none) = .ok v)
    (hR : ((l.map Signer.k1).sum + v.b * (l.map Signer.k2).sum) % secp256k1.n ≠ 0)
    (sigs : List ℤ)
    (hs : List.Forall₂ (fun t σ => sign (EC.ops secp256k1) H t.k1 t.k2 (t.pk (EC.ops secp256k1)) t.d
      (honestCtx (EC.ops secp256k1) l an tweaks msg none) = .ok σ) l sigs) :
    ∃ r sg, partialSigAgg (EC.ops secp256k1) H (sigs.map sBytes)
        (honestCtx (EC.ops secp256k1) l an tweaks msg none) = .ok (r, sg) ∧
      bip340Verify (EC.ops secp256k1) H ((EC.ops secp256k1).x v.Q) msg r sg = true :=
  @musig2_aggregate_verifies_raw secp256k1_p ⟨secp256k1_p_prime⟩ secp256k1 secpOk secp256k1_h34 hcof secp256k1_delta H
    secp_sizes.1 secp_sizes.2 l hl tweaks msg an han v hv hR sigs hs

end Btc.C16.Raw
