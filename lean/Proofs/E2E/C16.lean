import Proofs.E2E.Basic
import Proofs.C16.Musig2Agg
import Proofs.C16.SilentPayments
import Proofs.C16.LG
/-
End-to-end corollaries for C16 (MuSig2, ECDH, silent payments): `Props/C16.lean`'s theorems with
`L := lawful_ec K h34` (MuSig2: `lift_x` is used) or `L := lawfulGroup_ec K` (ECDH, BIP352 sums/agreement: no `lift_x`,
so NO `p ≡ 3 (mod 4)` hypothesis).

* ECDH and the silent-payment sender/scanner agreement never call `lift_x`: they are restated about `Btc.EC.ops C`
  ITSELF (raw integer pairs), the transfer from `opsSub K` being definitional or a list induction.
* MuSig2 parses every public key and nonce with `lift_x` (`cpoint`), all through the session: T2 / T3 below are stated
  over `opsSub K` (`Btc.EC.ops C` applied to the underlying pairs, `lift_x` answering inside the `n`-torsion).  The RAW
  restatement over `Btc.EC.ops C` itself is in `Proofs/E2E/C16Raw.lean`: every session function commutes with C01's
  `OpsHom` (`opsSub_hom`), under the single named cofactor-one hypothesis `hcof`.
-/
namespace Btc.E2E
open Btc Btc.EC Btc.C01 Btc.Py Btc.C16

section
variable {p : ℕ} [Fact p.Prime] {C : Curve}

/-! ### ECDH -/

theorem diffieHellman_opsSub (K : CurveOk p C) (kdf : Bytes → R Bytes) (a : ℤ) (P : SubPt p C) :
    diffieHellman (opsSub K) kdf a P = diffieHellman (EC.ops C) kdf a P.1 := rfl

/-- **C16-T5 on btclib's arithmetic**: both sides of an ECDH exchange run over `Btc.EC.ops C` derive the same keying
data (or fail alike), for any KDF and any two scalars -/
theorem ecdh_symmetric_ec (K : CurveOk p C) (kdf : Bytes → R Bytes) (a b : ℤ) :
    diffieHellman (EC.ops C) kdf a ((EC.ops C).mul b C.G) = diffieHellman (EC.ops C) kdf b ((EC.ops C).mul a C.G) :=
  LG.dh_symmetric (lawfulGroup_ec K) kdf a b

/-- the same on any base point of the carrier -/
theorem ecdh_symmetric_base_ec (K : CurveOk p C) (kdf : Bytes → R Bytes) (a b : ℤ)
    (P : SubPt p C) :
    diffieHellman (EC.ops C) kdf a ((EC.ops C).mul b P.1) = diffieHellman (EC.ops C) kdf b ((EC.ops C).mul a P.1) :=
  LG.dh_symmetric_base (lawfulGroup_ec K) kdf a b P

/-! ### silent payments -/

theorem prvKeySumAux_opsSub (K : CurveOk p C) (keys : List (ℤ × Bool)) (t : ℤ) :
    prvKeySumAux (opsSub K) keys t = prvKeySumAux (EC.ops C) keys t := by
  induction keys generalizing t with
  | nil => rfl
  | cons k rest ih =>
    obtain ⟨a, tr⟩ := k
    unfold prvKeySumAux
    rw [ih]
    rfl

theorem prvKeySum_opsSub (K : CurveOk p C) (keys : List (ℤ × Bool)) :
    prvKeySum (opsSub K) keys = prvKeySum (EC.ops C) keys := by
  unfold prvKeySum
  rw [prvKeySumAux_opsSub]

theorem spInputPoint_opsSub (K : CurveOk p C) (a : ℤ) (tr : Bool) :
    (spInputPoint (opsSub K) a tr).1 = spInputPoint (EC.ops C) a tr := by
  unfold spInputPoint
  by_cases hc : (tr && !(evenY (EC.ops C) ((EC.ops C).mul a (EC.ops C).gen))) = true
  · rw [ite_pos' hc, ite_pos' (show (tr && !(evenY (opsSub K) ((opsSub K).mul a (opsSub K).gen))) = true from hc)]
    rfl
  · rw [ite_neg' hc, ite_neg' (show ¬ (tr && !(evenY (opsSub K) ((opsSub K).mul a (opsSub K).gen))) = true from hc)]
    rfl

theorem sumPoints_opsSub (K : CurveOk p C) (keys : List (ℤ × Bool)) :
    (sumPoints (opsSub K) (keys.map fun k => spInputPoint (opsSub K) k.1 k.2)).1 =
      sumPoints (EC.ops C) (keys.map fun k => spInputPoint (EC.ops C) k.1 k.2) := by
  induction keys with
  | nil => rfl
  | cons k rest ih =>
    simp only [List.map_cons, sumPoints]
    show (EC.ops C).add (spInputPoint (opsSub K) k.1 k.2).1 _ = _
    rw [spInputPoint_opsSub, ih]

/-- the scanner's key sum over `Btc.EC.ops C` is the one over `opsSub K` (same pair) -/
theorem pubKeySum_opsSub (K : CurveOk p C) (keys : List (ℤ × Bool)) (A' : Point)
    (h : pubKeySum (EC.ops C) (keys.map fun k => spInputPoint (EC.ops C) k.1 k.2) = .ok A') :
    ∃ A : SubPt p C, pubKeySum (opsSub K) (keys.map fun k => spInputPoint (opsSub K) k.1 k.2) = .ok A ∧ A.1 = A' := by
  unfold pubKeySum at h ⊢
  rw [← sumPoints_opsSub K] at h
  by_cases hz : (EC.ops C).isZero (sumPoints (opsSub K) (keys.map fun k => spInputPoint (opsSub K) k.1 k.2)).1 = true
  · rw [ite_pos' hz] at h; cases h
  · rw [ite_neg' hz] at h
    refine ⟨_, ite_neg' (show ¬ (opsSub K).isZero _ = true from hz) _ _, ?_⟩
    exact Except.ok.inj h

/-- **C16-T9 (agreement) on btclib's arithmetic**: sender and scanner, both run over `Btc.EC.ops C`, derive the same
input hash and the same tweak `t_k` for every counter `k` -/
theorem sp_sender_scanner_agree_ec (K : CurveOk p C) (H : Bytes → Bytes → Bytes)
    (keys : List (ℤ × Bool)) (a : ℤ) (h : prvKeySum (EC.ops C) keys = .ok a)
    (A : Point) (hA : pubKeySum (EC.ops C) (keys.map fun k => spInputPoint (EC.ops C) k.1 k.2) = .ok A)
    (lowest : Bytes) (hh : ℤ) (hih : inputHash (EC.ops C) H lowest ((EC.ops C).mul a C.G) = .ok hh)
    (bScan : ℤ) (hb : 0 < bScan ∧ bScan < C.n) :
    inputHash (EC.ops C) H lowest A = .ok hh ∧
    ∀ k, outputTweak (EC.ops C) H ((EC.ops C).mul (hh * a % C.n) ((EC.ops C).mul bScan C.G)) k
        = outputTweak (EC.ops C) H ((EC.ops C).mul bScan ((EC.ops C).mul hh A)) k := by
  obtain ⟨As, hAs, rfl⟩ := pubKeySum_opsSub K keys A hA
  exact LG.sp_agreement (lawfulGroup_ec K) H keys a (by rw [prvKeySum_opsSub]; exact h) As hAs lowest hh hih bScan hb

/-- **C16-T9 (inputs) on btclib's arithmetic**: the scanner's key sum is the sender's `prv_key_sum` times `G` -/
theorem sp_input_sums_agree_ec (K : CurveOk p C) (keys : List (ℤ × Bool)) (a : ℤ)
    (h : prvKeySum (EC.ops C) keys = .ok a) :
    0 < a ∧ a < C.n ∧
    ∃ A, pubKeySum (EC.ops C) (keys.map fun k => spInputPoint (EC.ops C) k.1 k.2) = .ok A ∧
      (EC.ops C).eq A ((EC.ops C).mul a C.G) = true := by
  let L := lawfulGroup_ec K
  obtain ⟨h0, h1, A, hA, hAa, -⟩ := LG.pubKeySum_of_prvKeySum L keys a (by rw [prvKeySum_opsSub]; exact h)
  refine ⟨h0, h1, A.1, ?_, ?_⟩
  · unfold pubKeySum at hA ⊢
    rw [← sumPoints_opsSub K]
    split at hA
    · cases hA
    · next hz =>
      rw [ite_neg' (show ¬ (EC.ops C).isZero _ = true from hz)]
      cases hA; rfl
  · have : (opsSub K).eq A ((opsSub K).mul a (opsSub K).gen) = true :=
      (L.eq_iff _ _).mpr (by rw [hAa, L.abs_mul])
    exact this

/-! ### MuSig2 (over `opsSub K`) -/

/-- **C16-T2 over `opsSub K`**: honest partial signatures verify -/
theorem musig2_partial_sig_verifies_ec (K : CurveOk p C) (h34 : p % 4 = 3) (H : Bytes → Bytes → Bytes)
    (hp : C.p ≤ 256 ^ 32) (hn : C.n ≤ 256 ^ 32) (s : SessionCtx) (d k1 k2 σ : ℤ)
    (hs : sign (opsSub K) H k1 k2 (individualPubKey (EC.ops C) d) d s = .ok σ) :
    partialSigVerify (opsSub K) H (sBytes σ)
      (cbytes (EC.ops C) ((EC.ops C).mul k1 C.G) ++ cbytes (EC.ops C) ((EC.ops C).mul k2 C.G))
      (individualPubKey (EC.ops C) d) s = .ok true :=
  partial_sig_verifies (lawful_ec K h34) H hp hn hs

/-- **C16-T3 over `opsSub K`**: the aggregate of honest partial signatures is a BIP340 signature for the aggregate key -/
theorem musig2_aggregate_verifies_ec (K : CurveOk p C) (h34 : p % 4 = 3) (H : Bytes → Bytes → Bytes)
    (hp : C.p ≤ 256 ^ 32) (hn : C.n ≤ 256 ^ 32) (l : List Signer) (hl : ∀ t ∈ l, t.ok (EC.ops C))
    (tweaks : List (Bytes × Bool)) (msg an : Bytes)
    (han : nonceAgg (opsSub K) (l.map (Signer.pubNonce (opsSub K))) = .ok an)
    (v : SessionValues (SubPt p C))
    (hv : sessionValues (opsSub K) H (honestCtx (opsSub K) l an tweaks msg none) = .ok v)
    (hR : ((l.map Signer.k1).sum + v.b * (l.map Signer.k2).sum) % C.n ≠ 0)
    (sigs : List ℤ)
    (hs : List.Forall₂ (fun t σ => sign (opsSub K) H t.k1 t.k2 (t.pk (opsSub K)) t.d
      (honestCtx (opsSub K) l an tweaks msg none) = .ok σ) l sigs) :
    ∃ r sg, partialSigAgg (opsSub K) H (sigs.map sBytes) (honestCtx (opsSub K) l an tweaks msg none) = .ok (r, sg) ∧
      bip340Verify (opsSub K) H ((EC.ops C).x v.Q.1) msg r sg = true :=
  aggregate_verifies (lawful_ec K h34) H hp hn l hl tweaks msg an han hv hR sigs hs

end

/-! ## secp256k1: no assumption (primality of `p`, `n`: `secp256k1_p_prime`, `secp256k1_n_prime`, Pratt certificates) -/

theorem secp_sizes32 : secp256k1.p ≤ 256 ^ 32 ∧ secp256k1.n ≤ 256 ^ 32 := by decide +kernel

theorem ecdh_symmetric_secp256k1
    (kdf : Bytes → R Bytes) (a b : ℤ) :
    diffieHellman (EC.ops secp256k1) kdf a ((EC.ops secp256k1).mul b secp256k1.G) =
      diffieHellman (EC.ops secp256k1) kdf b ((EC.ops secp256k1).mul a secp256k1.G) :=
  @ecdh_symmetric_ec secp256k1_p ⟨secp256k1_p_prime⟩ secp256k1 secpOk kdf a b

theorem sp_sender_scanner_agree_secp256k1
    (H : Bytes → Bytes → Bytes) (keys : List (ℤ × Bool)) (a : ℤ) (h : prvKeySum (EC.ops secp256k1) keys = .ok a)
    (A : Point)
    (hA : pubKeySum (EC.ops secp256k1) (keys.map fun k => spInputPoint (EC.ops secp256k1) k.1 k.2) = .ok A)
    (lowest : Bytes) (hh : ℤ)
    (hih : inputHash (EC.ops secp256k1) H lowest ((EC.ops secp256k1).mul a secp256k1.G) = .ok hh)
    (bScan : ℤ) (hb : 0 < bScan ∧ bScan < secp256k1.n) :
    inputHash (EC.ops secp256k1) H lowest A = .ok hh ∧
    ∀ k, outputTweak (EC.ops secp256k1) H
          ((EC.ops secp256k1).mul (hh * a % secp256k1.n) ((EC.ops secp256k1).mul bScan secp256k1.G)) k
        = outputTweak (EC.ops secp256k1) H ((EC.ops secp256k1).mul bScan ((EC.ops secp256k1).mul hh A)) k :=
  @sp_sender_scanner_agree_ec secp256k1_p ⟨secp256k1_p_prime⟩ secp256k1 secpOk H keys a h A hA lowest hh hih
    bScan hb

theorem musig2_partial_sig_verifies_secp256k1
    (H : Bytes → Bytes → Bytes) (s : SessionCtx) (d k1 k2 σ : ℤ)
    (hs : sign secpOps H k1 k2 (individualPubKey (EC.ops secp256k1) d) d s = .ok σ) :
    partialSigVerify secpOps H (sBytes σ)
      (cbytes (EC.ops secp256k1) ((EC.ops secp256k1).mul k1 secp256k1.G) ++
        cbytes (EC.ops secp256k1) ((EC.ops secp256k1).mul k2 secp256k1.G))
      (individualPubKey (EC.ops secp256k1) d) s = .ok true :=
  @musig2_partial_sig_verifies_ec secp256k1_p ⟨secp256k1_p_prime⟩ secp256k1 secpOk secp256k1_h34 H secp_sizes32.1
    secp_sizes32.2 s d k1 k2 σ hs

theorem musig2_aggregate_verifies_secp256k1
    (H : Bytes → Bytes → Bytes) (l : List Signer) (hl : ∀ t ∈ l, t.ok (EC.ops secp256k1))
    (tweaks : List (Bytes × Bool)) (msg an : Bytes)
    (han : nonceAgg secpOps (l.map (Signer.pubNonce secpOps)) = .ok an)
    (v : SessionValues SecpPt)
    (hv : sessionValues secpOps H (honestCtx secpOps l an tweaks msg none) = .ok v)
    (hR : ((l.map Signer.k1).sum + v.b * (l.map Signer.k2).sum) % secp256k1.n ≠ 0)
    (sigs : List ℤ)
    (hs : List.Forall₂ (fun t σ => sign secpOps H t.k1 t.k2 (t.pk secpOps) t.d
      (honestCtx secpOps l an tweaks msg none) = .ok σ) l sigs) :
    ∃ r sg, partialSigAgg secpOps H (sigs.map sBytes) (honestCtx secpOps l an tweaks msg none)
        = .ok (r, sg) ∧
      bip340Verify secpOps H ((EC.ops secp256k1).x v.Q.1) msg r sg = true :=
  @musig2_aggregate_verifies_ec secp256k1_p ⟨secp256k1_p_prime⟩ secp256k1 secpOk secp256k1_h34 H secp_sizes32.1
    secp_sizes32.2 l hl tweaks msg an han v hv hR sigs hs

/-! ## the toy curve: actual runs, nothing assumed -/

def toyH (tag m : Bytes) : Bytes := [UInt8.ofNat ((tag.length + m.foldl (fun a b => a + b.toNat) 0) % 29 + 1)]
/-- one ordinary input (key 3) and one taproot input (key 5, odd y: negated) -/
def toyKeys : List (ℤ × Bool) := [(3, false), (5, true)]

theorem toy_ecdh : diffieHellman (EC.ops toyC) (fun b => .ok b) 3 ((EC.ops toyC).mul 5 toyC.G) = .ok [38] := by
  decide +kernel

/-- … hence, by T5, the other side derives `[38]` too -/
theorem toy_ecdh_other : diffieHellman (EC.ops toyC) (fun b => .ok b) 5 ((EC.ops toyC).mul 3 toyC.G) = .ok [38] := by
  rw [← ecdh_symmetric_ec toyOk]; exact toy_ecdh

theorem toy_sp_prv : prvKeySum (EC.ops toyC) toyKeys = .ok 8 := by decide +kernel
theorem toy_sp_pub :
    pubKeySum (EC.ops toyC) (toyKeys.map fun k => spInputPoint (EC.ops toyC) k.1 k.2) = .ok (32, 40) := by
  decide +kernel
theorem toy_sp_hash : inputHash (EC.ops toyC) toyH [1] ((EC.ops toyC).mul 8 toyC.G) = .ok 21 := by decide +kernel

/-- T9 on the toy curve, every hypothesis discharged: the scanner's input hash over the summed public keys is the
sender's, and so is every tweak -/
theorem toy_sp_agree : inputHash (EC.ops toyC) toyH [1] (32, 40) = .ok 21 ∧
    ∀ k, outputTweak (EC.ops toyC) toyH ((EC.ops toyC).mul (21 * 8 % 31) ((EC.ops toyC).mul 7 toyC.G)) k
      = outputTweak (EC.ops toyC) toyH ((EC.ops toyC).mul 7 ((EC.ops toyC).mul 21 (32, 40))) k :=
  sp_sender_scanner_agree_ec toyOk toyH toyKeys 8 toy_sp_prv (32, 40) toy_sp_pub [1] 21 toy_sp_hash 7
    (by decide)

end Btc.E2E
