import Proofs.E2E.Basic
import Proofs.C12.Commit
import Proofs.Common.LawfulY
/-
End-to-end corollaries for C12 (taproot): `Props/C12.lean`'s T1 (completeness) and T2 (key agreement) with
`L := lawful_ec K h34`.  Every function here parses a key with `lift_x`, so the statements are over `opsSub K`
(`Btc.EC.ops C` applied to the underlying pairs, `lift_x` answering inside the `n`-torsion); what they answer over
`opsSub K` they answer over `Btc.EC.ops C` (`*_opsSub_ok`), which turns the conclusions of T1 into statements about
`Btc.EC.ops C` itself (`completeness_raw_ec`).
-/
namespace Btc.E2E
open Btc Btc.EC Btc.C01 Btc.Taproot Gen.Taproot

section
variable {p : ℕ} [Fact p.Prime] {C : Curve}

theorem tapTweak_opsSub (K : CurveOk p C) (H : TagHash) (pk h : Bytes) :
    tapTweak (opsSub K) H pk h = tapTweak (EC.ops C) H pk h := rfl

theorem outKey_tweakPoint_opsSub (K : CurveOk p C) (P : SubPt p C) (t : ℤ) :
    outKey (opsSub K) (tweakPoint (opsSub K) P t) = outKey (EC.ops C) (tweakPoint (EC.ops C) P.1 t) := by
  unfold tweakPoint evenY
  show outKey (opsSub K) ((opsSub K).add (if (EC.ops C).hasEvenY P.1 = true then P else (opsSub K).neg P) _) = _
  split <;> rfl

/-- a key the restricted `lift_x` parses, the unrestricted one parses to the same pair -/
theorem pointFromOctets_opsSub_ok (K : CurveOk p C) {sec : Bytes} {P : SubPt p C}
    (h : pointFromOctets (opsSub K) sec = .ok P) : pointFromOctets (EC.ops C) sec = .ok P.1 := by
  unfold pointFromOctets at h ⊢
  cases sec with
  | nil => cases h
  | cons pre rest =>
    simp only [] at h ⊢
    by_cases h23 : pre = 2 ∨ pre = 3
    · rw [ite_pos' h23] at h ⊢
      by_cases hl : rest.length ≠ 32
      · rw [ite_pos' hl] at h; cases h
      · rw [ite_neg' hl] at h ⊢
        cases hx : (opsSub K).liftX ((ofBE rest : ℕ) : ℤ) with
        | none => rw [hx] at h; cases h
        | some R =>
          rw [hx] at h
          have hr : (EC.ops C).liftX ((ofBE rest : ℕ) : ℤ) = some R.1 := opsSub_liftX K hx
          rw [hr]
          simp only [Except.ok.injEq] at h ⊢
          rw [← h]; split <;> rfl
    · rw [ite_neg' h23] at h ⊢
      by_cases h4 : pre = 4
      · rw [ite_pos' h4] at h ⊢
        by_cases hl : rest.length ≠ 64
        · rw [ite_pos' hl] at h; cases h
        · rw [ite_neg' hl] at h ⊢
          cases hx : (opsSub K).liftX ((ofBE (rest.take 32) : ℕ) : ℤ) with
          | none => simp only [hx] at h; cases h
          | some R =>
            have hr : (EC.ops C).liftX ((ofBE (rest.take 32) : ℕ) : ℤ) = some R.1 := opsSub_liftX K hx
            simp only [hx] at h
            simp only [hr]
            by_cases hy0 : ((ofBE (rest.drop 32) : ℕ) : ℤ) = 0
            · rw [ite_pos' hy0] at h; cases h
            · rw [ite_neg' hy0] at h ⊢
              by_cases hy1 : (EC.ops C).y R.1 = ((ofBE (rest.drop 32) : ℕ) : ℤ)
              · rw [ite_pos' (show (opsSub K).y R = _ from hy1)] at h
                rw [ite_pos' hy1]
                cases h; rfl
              · rw [ite_neg' (show ¬ (opsSub K).y R = _ from hy1)] at h
                rw [ite_neg' hy1]
                by_cases hy2 : (EC.ops C).y ((EC.ops C).neg R.1) = ((ofBE (rest.drop 32) : ℕ) : ℤ)
                · rw [ite_pos' (show (opsSub K).y ((opsSub K).neg R) = _ from hy2)] at h
                  rw [ite_pos' hy2]
                  cases h; rfl
                · rw [ite_neg' (show ¬ (opsSub K).y ((opsSub K).neg R) = _ from hy2)] at h
                  cases h
      · rw [ite_neg' h4] at h; cases h

theorem tweakedPubkey_opsSub_ok (K : CurveOk p C) (H : TagHash) {sec h : Bytes} {r : Bytes × ℕ}
    (hr : tweakedPubkey (opsSub K) H sec h = .ok r) : tweakedPubkey (EC.ops C) H sec h = .ok r := by
  unfold tweakedPubkey at hr ⊢
  rw [tapTweak_opsSub] at hr
  cases ht : tapTweak (EC.ops C) H (xOnly sec) h with
  | error e => rw [ht] at hr; cases hr
  | ok t =>
    rw [ht] at hr
    cases hP : pointFromOctets (opsSub K) sec with
    | error e => rw [hP] at hr; cases hr
    | ok P =>
      rw [hP] at hr
      have hP' := pointFromOctets_opsSub_ok K hP
      show (pointFromOctets (EC.ops C) sec).bind _ = _
      rw [hP']
      have : r = outKey (opsSub K) (tweakPoint (opsSub K) P t) := by
        have : Except.ok (outKey (opsSub K) (tweakPoint (opsSub K) P t)) = Except.ok r := hr
        exact (Except.ok.inj this).symm
      rw [this, outKey_tweakPoint_opsSub]
      rfl

theorem outputPubkeyAndInternalKey_opsSub_ok (K : CurveOk p C) (H : TagHash) {sec : Option Bytes}
    {tree : Option Tree} {r : Bytes × ℕ × Bytes}
    (hr : outputPubkeyAndInternalKey (opsSub K) H sec tree = .ok r) :
    outputPubkeyAndInternalKey (EC.ops C) H sec tree = .ok r := by
  have key : ∀ (s h : Bytes) (x : Bytes),
      (match tweakedPubkey (opsSub K) H s h with
        | .error e => (Except.error e : Except Err (Bytes × ℕ × Bytes))
        | .ok (q, par) => .ok (q, par, x)) = .ok r →
      (match tweakedPubkey (EC.ops C) H s h with
        | .error e => (Except.error e : Except Err (Bytes × ℕ × Bytes))
        | .ok (q, par) => .ok (q, par, x)) = .ok r := by
    intro s h x hh
    cases ht : tweakedPubkey (opsSub K) H s h with
    | error e => rw [ht] at hh; cases hh
    | ok qp => rw [ht] at hh; rw [tweakedPubkey_opsSub_ok K H ht]; exact hh
  unfold outputPubkeyAndInternalKey at hr ⊢
  generalize truthyKey sec = sec at hr ⊢
  cases sec with
  | none =>
    cases tree with
    | none => cases hr
    | some t => exact key _ _ _ hr
  | some s0 =>
    cases tree with
    | none => exact key _ _ _ hr
    | some t => exact key _ _ _ hr

theorem outputPubkey_opsSub_ok (K : CurveOk p C) (H : TagHash) {sec : Option Bytes} {tree : Option Tree}
    {r : Bytes × ℕ} (hr : outputPubkey (opsSub K) H sec tree = .ok r) : outputPubkey (EC.ops C) H sec tree = .ok r := by
  unfold outputPubkey at hr ⊢
  cases h : outputPubkeyAndInternalKey (opsSub K) H sec tree with
  | error e => rw [h] at hr; cases hr
  | ok t => rw [h] at hr; rw [outputPubkeyAndInternalKey_opsSub_ok K H h]; exact hr

theorem inputScriptSig_opsSub_ok (K : CurveOk p C) (H : TagHash) {sec : Option Bytes} {tree : Tree} {i : ℤ}
    {r : Bytes × Bytes} (hr : inputScriptSig (opsSub K) H sec tree i = .ok r) :
    inputScriptSig (EC.ops C) H sec tree i = .ok r := by
  unfold inputScriptSig at hr ⊢
  cases h : outputPubkeyAndInternalKey (opsSub K) H sec (some tree) with
  | error e => rw [h] at hr; cases hr
  | ok t => rw [h] at hr; rw [outputPubkeyAndInternalKey_opsSub_ok K H h]; exact hr

theorem checkOutputPubkey_opsSub_ok (K : CurveOk p C) (H : TagHash) {q s c : Bytes} {b : Bool}
    (hb : checkOutputPubkey (opsSub K) H q s c = .ok b) : checkOutputPubkey (EC.ops C) H q s c = .ok b := by
  unfold checkOutputPubkey at hb ⊢
  cases hm : lengthGate c.length with
  | error e => rw [hm] at hb; cases hb
  | ok m =>
    rw [hm] at hb
    simp only [bind, Except.bind, tapTweak_opsSub] at hb ⊢
    cases ht : tapTweak (EC.ops C) H (List.take (CONTROL_HEAD - 1) (List.drop 1 c))
        (foldPath H (leafHash H ((c.headD 0).toNat &&& LEAF_MASK) s) (List.drop CONTROL_HEAD c) m.toNat) with
    | error e => rw [ht] at hb; cases hb
    | ok t =>
      rw [ht] at hb
      simp only [] at hb ⊢
      cases hx : (opsSub K).liftX ((ofBE (List.take (CONTROL_HEAD - 1) (List.drop 1 c)) : ℕ) : ℤ) with
      | none => rw [hx] at hb; cases hb
      | some R =>
        rw [hx] at hb
        have hr : (EC.ops C).liftX ((ofBE (List.take (CONTROL_HEAD - 1) (List.drop 1 c)) : ℕ) : ℤ) = some R.1 := opsSub_liftX K hx
        rw [hr]
        exact hb

/-- **C12-T1 over `opsSub K`** (completeness) -/
theorem completeness_ec (K : CurveOk p C) (h34 : p % 4 = 3) (hp : C.p ≤ 2 ^ 256) {H : TagHash} (h32 : Len32 H)
    (sec : Bytes) (tree : Tree) (P : SubPt p C) (t : ℤ) (hdepth : tree.depth ≤ 128)
    (hP : pointFromOctets (opsSub K) sec = .ok P)
    (ht : tapTweak (EC.ops C) H (xOnly sec) (root H tree) = .ok t)
    (hQ : (EC.ops C).isZero (tweakPoint (EC.ops C) P.1 t) = false) :
    outputPubkey (opsSub K) H (some sec) (some tree) = .ok (outKey (EC.ops C) (tweakPoint (EC.ops C) P.1 t)) ∧
    ∀ i : ℕ, i < (leaves H tree).length →
      ∃ s c, inputScriptSig (opsSub K) H (some sec) tree i = .ok (s, c) ∧
        checkOutputPubkey (opsSub K) H (outKey (EC.ops C) (tweakPoint (EC.ops C) P.1 t)).1 s c = .ok true := by
  have L := lawful_ec K h34
  have hQ' : L.abs (tweakPoint (opsSub K) P t) ≠ 0 := by
    intro h0
    have := (L.isZero_iff _).mpr h0
    have e : (opsSub K).isZero (tweakPoint (opsSub K) P t) = (EC.ops C).isZero (tweakPoint (EC.ops C) P.1 t) := by
      unfold tweakPoint evenY
      show (EC.ops C).isZero ((opsSub K).add (if (EC.ops C).hasEvenY P.1 = true then P else (opsSub K).neg P) _).1 = _
      split <;> rfl
    rw [e, hQ] at this; cases this
  have := completeness_aux L L.y_congr hp h32 sec tree P t hdepth hP ht hQ'
  rw [outKey_tweakPoint_opsSub] at this
  exact this

/-- **C12-T1 on btclib's arithmetic**: the same conclusions about `Btc.EC.ops C` itself — for every SEC spelling that
parses to a point of the `n`-torsion (`pointFromOctets (opsSub K)`), `output_pubkey` and `input_script_sig` run over
`Btc.EC.ops C` answer, and `check_output_pubkey` run over `Btc.EC.ops C` says True -/
theorem completeness_raw_ec (K : CurveOk p C) (h34 : p % 4 = 3) (hp : C.p ≤ 2 ^ 256) {H : TagHash} (h32 : Len32 H)
    (sec : Bytes) (tree : Tree) (P : SubPt p C) (t : ℤ) (hdepth : tree.depth ≤ 128)
    (hP : pointFromOctets (opsSub K) sec = .ok P)
    (ht : tapTweak (EC.ops C) H (xOnly sec) (root H tree) = .ok t)
    (hQ : (EC.ops C).isZero (tweakPoint (EC.ops C) P.1 t) = false) :
    pointFromOctets (EC.ops C) sec = .ok P.1 ∧
    outputPubkey (EC.ops C) H (some sec) (some tree) = .ok (outKey (EC.ops C) (tweakPoint (EC.ops C) P.1 t)) ∧
    ∀ i : ℕ, i < (leaves H tree).length →
      ∃ s c, inputScriptSig (EC.ops C) H (some sec) tree i = .ok (s, c) ∧
        checkOutputPubkey (EC.ops C) H (outKey (EC.ops C) (tweakPoint (EC.ops C) P.1 t)).1 s c = .ok true := by
  obtain ⟨h1, h2⟩ := completeness_ec K h34 hp h32 sec tree P t hdepth hP ht hQ
  refine ⟨pointFromOctets_opsSub_ok K hP, outputPubkey_opsSub_ok K H h1, fun i hi => ?_⟩
  obtain ⟨s, c, h3, h4⟩ := h2 i hi
  exact ⟨s, c, inputScriptSig_opsSub_ok K H h3, checkOutputPubkey_opsSub_ok K H h4⟩

/-- **C12-T2 over `opsSub K`** (key agreement, both y parities) -/
theorem key_agreement_ec (K : CurveOk p C) (h34 : p % 4 = 3) {H : TagHash} (d : ℤ) (h0 : 0 < d) (h1 : d < C.n)
    (sec h : Bytes) (P' : SubPt p C)
    (hP : pointFromOctets (opsSub K) sec = .ok P')
    (hsame : (EC.ops C).eq P'.1 ((EC.ops C).mul d C.G) = true ∨
      (EC.ops C).eq P'.1 ((EC.ops C).neg ((EC.ops C).mul d C.G)) = true)
    (hx : xOnly sec = beBytes 32 ((EC.ops C).x ((EC.ops C).mul d C.G)).toNat) :
    (∀ e, tweakedPrvkey (EC.ops C) H d h = .error e ↔ tweakedPubkey (opsSub K) H sec h = .error e) ∧
    (∀ d2, tweakedPrvkey (EC.ops C) H d h = .ok d2 →
      ∃ t, tapTweak (EC.ops C) H (xOnly sec) h = .ok t ∧ 0 ≤ d2 ∧ d2 < C.n ∧
        tweakedPubkey (opsSub K) H sec h = .ok (outKey (EC.ops C) (tweakPoint (EC.ops C) P'.1 t)) ∧
        (EC.ops C).eq ((EC.ops C).mul d2 C.G) (tweakPoint (EC.ops C) P'.1 t) = true ∧
        ((EC.ops C).isZero (tweakPoint (EC.ops C) P'.1 t) = false →
          outKey (EC.ops C) ((EC.ops C).mul d2 C.G) = outKey (EC.ops C) (tweakPoint (EC.ops C) P'.1 t))) := by
  have L := lawful_ec K h34
  have hsame' : L.abs P' = d • L.abs (opsSub K).gen ∨ L.abs P' = -(d • L.abs (opsSub K).gen) := by
    rcases hsame with hs | hs
    · left
      have : (opsSub K).eq P' ((opsSub K).mul d (opsSub K).gen) = true := hs
      rw [← L.abs_mul]; exact (L.eq_iff _ _).mp this
    · right
      have : (opsSub K).eq P' ((opsSub K).neg ((opsSub K).mul d (opsSub K).gen)) = true := hs
      rw [← L.abs_mul, ← L.abs_neg]; exact (L.eq_iff _ _).mp this
  obtain ⟨hA, hB⟩ := key_agreement_aux L L.y_congr (H := H) d h0 h1 sec h P' hP hsame' hx
  have etp : ∀ t, (tweakPoint (opsSub K) P' t).1 = tweakPoint (EC.ops C) P'.1 t := by
    intro t
    unfold tweakPoint evenY
    show ((opsSub K).add (if (EC.ops C).hasEvenY P'.1 = true then P' else (opsSub K).neg P') _).1 = _
    split <;> rfl
  refine ⟨hA, fun d2 hd2 => ?_⟩
  obtain ⟨t, h1', h2', h3', h4', h5', h6'⟩ := hB d2 hd2
  refine ⟨t, h1', h2', h3', ?_, ?_, ?_⟩
  · rw [h4', outKey_tweakPoint_opsSub]
  · have := (L.eq_iff _ _).mpr h5'
    rw [← etp]; exact this
  · intro hz
    have hne : L.abs (tweakPoint (opsSub K) P' t) ≠ 0 := by
      intro h0'
      have := (L.isZero_iff _).mpr h0'
      have e : (opsSub K).isZero (tweakPoint (opsSub K) P' t) = (EC.ops C).isZero (tweakPoint (opsSub K) P' t).1 := rfl
      rw [e, etp, hz] at this; cases this
    have := h6' hne
    rw [outKey_tweakPoint_opsSub] at this
    exact this

/-- the hypothesis `pointFromOctets (opsSub K) sec = .ok P` is met by the compressed spelling `02 ‖ x` of every
non-zero carrier element with even `y` (it parses to that very pair) -/
theorem pointFromOctets_sub_even (K : CurveOk p C) (h34 : p % 4 = 3) (hp : C.p ≤ 2 ^ 256) (P0 : SubPt p C)
    (hne : absSub P0 ≠ 0) (he : (EC.ops C).y P0.1 % 2 = 0) :
    ∃ P, pointFromOctets (opsSub K) (2 :: beBytes 32 ((EC.ops C).x P0.1).toNat) = .ok P ∧ P.1 = P0.1 := by
  let L := lawful_ec K h34
  obtain ⟨Q, hQ, hQa⟩ := L.liftX_of_even L.ycongr P0 hne he
  have hQa' : absSub Q = absSub P0 := hQa
  have hr : 0 ≤ (EC.ops C).x P0.1 ∧ (EC.ops C).x P0.1 < C.p := L.x_range P0 hne
  have hx : (((ofBE (beBytes 32 ((EC.ops C).x P0.1).toNat) : ℕ)) : ℤ) = (opsSub K).x P0 := by
    rw [ofBE_beBytes, Nat.mod_eq_of_lt]
    · exact Int.toNat_of_nonneg hr.1
    · have h2 : (EC.ops C).x P0.1 < 2 ^ 256 := lt_of_lt_of_le hr.2 hp
      have : (((EC.ops C).x P0.1).toNat : ℤ) < ((256 ^ 32 : ℕ) : ℤ) := by
        rw [Int.toNat_of_nonneg hr.1]; exact_mod_cast h2
      exact_mod_cast this
  refine ⟨Q, ?_, val_eq_of_abs_eq K Q P0 hQa' (by rw [hQa']; exact hne)⟩
  unfold pointFromOctets
  simp only [beBytes_length, ne_eq, not_true_eq_false, true_or, ↓reduceIte]
  rw [hx, hQ]

end

/-! ## secp256k1: no assumption (primality of `p`, `n`: `secp256k1_p_prime`, `secp256k1_n_prime`, Pratt certificates) -/

theorem completeness_secp256k1 {H : TagHash}
    (h32 : Len32 H) (sec : Bytes) (tree : Tree) (P : SecpPt) (t : ℤ) (hdepth : tree.depth ≤ 128)
    (hP : pointFromOctets secpOps sec = .ok P)
    (ht : tapTweak (EC.ops secp256k1) H (xOnly sec) (root H tree) = .ok t)
    (hQ : (EC.ops secp256k1).isZero (tweakPoint (EC.ops secp256k1) P.1 t) = false) :
    pointFromOctets (EC.ops secp256k1) sec = .ok P.1 ∧
    outputPubkey (EC.ops secp256k1) H (some sec) (some tree) =
      .ok (outKey (EC.ops secp256k1) (tweakPoint (EC.ops secp256k1) P.1 t)) ∧
    ∀ i : ℕ, i < (leaves H tree).length →
      ∃ s c, inputScriptSig (EC.ops secp256k1) H (some sec) tree i = .ok (s, c) ∧
        checkOutputPubkey (EC.ops secp256k1) H
          (outKey (EC.ops secp256k1) (tweakPoint (EC.ops secp256k1) P.1 t)).1 s c = .ok true :=
  @completeness_raw_ec secp256k1_p ⟨secp256k1_p_prime⟩ secp256k1 secpOk secp256k1_h34 secp_sizes.1 H h32 sec tree P t hdepth
    hP ht hQ

theorem key_agreement_secp256k1 {H : TagHash}
    (d : ℤ) (h0 : 0 < d) (h1 : d < secp256k1.n) (sec h : Bytes) (P' : SecpPt)
    (hP : pointFromOctets secpOps sec = .ok P')
    (hsame : (EC.ops secp256k1).eq P'.1 ((EC.ops secp256k1).mul d secp256k1.G) = true ∨
      (EC.ops secp256k1).eq P'.1 ((EC.ops secp256k1).neg ((EC.ops secp256k1).mul d secp256k1.G)) = true)
    (hx : xOnly sec = beBytes 32 ((EC.ops secp256k1).x ((EC.ops secp256k1).mul d secp256k1.G)).toNat) :
    (∀ e, tweakedPrvkey (EC.ops secp256k1) H d h = .error e ↔ tweakedPubkey secpOps H sec h = .error e) ∧
    (∀ d2, tweakedPrvkey (EC.ops secp256k1) H d h = .ok d2 →
      ∃ t, tapTweak (EC.ops secp256k1) H (xOnly sec) h = .ok t ∧ 0 ≤ d2 ∧ d2 < secp256k1.n ∧
        tweakedPubkey secpOps H sec h =
          .ok (outKey (EC.ops secp256k1) (tweakPoint (EC.ops secp256k1) P'.1 t)) ∧
        (EC.ops secp256k1).eq ((EC.ops secp256k1).mul d2 secp256k1.G) (tweakPoint (EC.ops secp256k1) P'.1 t) = true ∧
        ((EC.ops secp256k1).isZero (tweakPoint (EC.ops secp256k1) P'.1 t) = false →
          outKey (EC.ops secp256k1) ((EC.ops secp256k1).mul d2 secp256k1.G) =
            outKey (EC.ops secp256k1) (tweakPoint (EC.ops secp256k1) P'.1 t))) :=
  @key_agreement_ec secp256k1_p ⟨secp256k1_p_prime⟩ secp256k1 secpOk secp256k1_h34 H d h0 h1 sec h P' hP hsame hx

/-! ## the toy curve: nothing assumed -/

/-- the all-zero "hash": tweak `t = 0 < 31` -/
def toyH0 : TagHash := fun _ _ => List.replicate 32 0
def toyTree : Tree := .node (.leaf 0xC1 [0x51]) (.node (.leaf 0xC0 [0x52]) (.leaf 0xC0 [0x52]))

/-- `4•G = (21, 18)` has even `y`: internal key `02 ‖ 21` -/
theorem toy_P4 : (EC.ops toyC).mul 4 toyC.G = (21, 18) := by decide +kernel

/-- T1 on the toy curve, every hypothesis discharged: the leaf numbered 2 of a three-leaf tree -/
theorem toy_taproot_complete :
    ∃ s c, inputScriptSig (EC.ops toyC) toyH0 (some (2 :: beBytes 32 21)) toyTree 2 = .ok (s, c) ∧
      checkOutputPubkey (EC.ops toyC) toyH0 (outKey (EC.ops toyC) (tweakPoint (EC.ops toyC) (21, 18) 0)).1 s c
        = .ok true := by
  let P0 : SubPt 43 toyC := (opsSub toyOk).mul 4 (opsSub toyOk).gen
  have hP0 : P0.1 = (21, 18) := toy_P4
  have hne : absSub P0 ≠ 0 := (toyLawful).mul_gen_ne_zero 4 (by decide) (by decide)
  obtain ⟨P, hP, hPv⟩ := pointFromOctets_sub_even toyOk (by decide) (by decide) P0 hne (by rw [hP0]; decide)
  rw [hP0] at hP hPv
  have h := (completeness_raw_ec toyOk (by decide) (by decide) (H := toyH0) (fun _ _ => by simp [toyH0])
    (2 :: beBytes 32 21) toyTree P 0 (by decide) hP (by decide +kernel) (by rw [hPv]; decide +kernel)).2.2 2
    (by decide +kernel)
  rw [hPv] at h
  exact h

end Btc.E2E
