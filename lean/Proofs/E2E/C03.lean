import Proofs.E2E.Basic
import Proofs.C01.CapstoneCofactor
import Proofs.C03.BatchThm
import Proofs.C03.BatchMore
import Proofs.C03.Equation
import Proofs.C03.Totality
/-
End-to-end corollaries for C03 (BIP340): `Props/C03.lean`'s theorems with `L := lawful_ec K h34`.

What transfers to the raw pairs of `Btc.EC.ops C`, and what is stated over `opsSub K`:
* `sign_` calls `lift_x` only inside `Sig.assert_valid` on `r = x(k•G)`, where the restricted and the unrestricted `lift_x`
  agree: `sign (opsSub K) = sign (Btc.EC.ops C)` as an EQUATION (`sign_opsSub`);
* what `verify_` accepts over `opsSub K` it accepts over `Btc.EC.ops C` (`verify_opsSub_imp`), so T1 (completeness) is a
  statement about `Btc.EC.ops C` alone;
* T2 (exactness) and the batch theorems T3/T4 are first stated over `opsSub K` (`…_sub`), i.e. `Btc.EC.ops C` applied to the
  underlying pairs with `lift_x` answering only inside the `n`-torsion, then transferred to the raw `Btc.EC.ops C` under
  cofactor one (`…_cofactor_one`, section Transfer): on a curve with a cofactor the unrestricted `lift_x` does leave the
  prime-order subgroup, and "verify ⇔ BIP340's equation in the group of order n" is then not true of it.  For secp256k1
  cofactor one is PROVED (`Btc.E2E.secpCofactorOne`): `Proofs/C03/Secp.lean`.
-/
open WeierstrassCurve

namespace Btc.E2E
open Btc Btc.EC Btc.C01 Btc.Schnorr

section
variable {p : ℕ} [Fact p.Prime] {C : Curve}

theorem hashToScalar_opsSub (K : CurveOk p C) (prm : Params) (tag : Bytes) (fuel : ℕ) (t : Bytes) :
    hashToScalar (opsSub K) prm tag fuel t = hashToScalar (EC.ops C) prm tag fuel t := by
  induction fuel generalizing t with
  | zero => rfl
  | succ f ih =>
    unfold hashToScalar
    simp only [ih]
    rfl

theorem nonce_opsSub (K : CurveOk p C) (prm : Params) (fuel : ℕ) (msg : Bytes) (q : ℤ) (aux : Bytes) :
    nonce (opsSub K) prm fuel msg q aux = nonce (EC.ops C) prm fuel msg q aux := by
  unfold nonce nonceRaw
  simp only [hashToScalar_opsSub]
  rfl

theorem challenge_opsSub (K : CurveOk p C) (prm : Params) (msg : Bytes) (xQ xK : ℤ) :
    challenge (opsSub K) prm msg xQ xK = challenge (EC.ops C) prm msg xQ xK := rfl

theorem challengeInt_opsSub (K : CurveOk p C) (prm : Params) (msg : Bytes) (xQ xK : ℤ) :
    challengeInt (opsSub K) prm msg xQ xK = challengeInt (EC.ops C) prm msg xQ xK := rfl

theorem assertCore_opsSub (K : CurveOk p C) (c : ℤ) (Q : SubPt p C) (r s : ℤ) :
    assertCore (opsSub K) c Q r s = assertCore (EC.ops C) c Q.1 r s := rfl

/-- an `x` the restricted `lift_x` accepts, the unrestricted one accepts -/
theorem isXCoord_opsSub_imp (K : CurveOk p C) (x : ℤ) (h : isXCoord (opsSub K) x = true) :
    isXCoord (EC.ops C) x = true := by
  unfold isXCoord at h ⊢
  simp only [Bool.and_eq_true] at h ⊢
  refine ⟨h.1, ?_⟩
  cases hl : (opsSub K).liftX x with
  | none => rw [hl] at h; exact absurd h.2 (by simp)
  | some P => rw [opsSub_liftX K hl]; rfl

theorem sigValid_opsSub_imp (K : CurveOk p C) (sg : Sig) (h : sigValid (opsSub K) sg = .ok ()) :
    sigValid (EC.ops C) sg = .ok () := by
  rw [sigValid_ok_iff] at h ⊢
  exact ⟨isXCoord_opsSub_imp K _ h.1, h.2⟩

/-- on the x-coordinate of a non-zero element of the carrier both `Sig.assert_valid` agree -/
theorem sigValid_opsSub_x (K : CurveOk p C) (h34 : p % 4 = 3) (P : SubPt p C) (hP : absSub P ≠ 0) (s : ℤ) :
    sigValid (opsSub K) ⟨(opsSub K).x P, s⟩ = sigValid (EC.ops C) ⟨(opsSub K).x P, s⟩ := by
  have h1 := isXCoord_x (lawful_ec K h34) P hP
  have h2 := isXCoord_opsSub_imp K _ h1
  unfold sigValid
  rw [h1, h2]
  rfl

theorem signCore_opsSub_x (K : CurveOk p C) (h34 : p % 4 = 3) (P : SubPt p C) (hP : absSub P ≠ 0) (c q k : ℤ) :
    signCore (opsSub K) c q k ((opsSub K).x P) = signCore (EC.ops C) c q k ((opsSub K).x P) := by
  unfold signCore
  simp only [sigValid_opsSub_x K h34 P hP]
  rfl

/-- **`sign_` over `opsSub K` IS `sign_` over `Btc.EC.ops C`** (same signature, same refusal) -/
theorem sign_opsSub (K : CurveOk p C) (h34 : p % 4 = 3) (prm : Params) (fuel : ℕ) (msg : Bytes) (q : ℤ)
    (aux : Bytes) : sign (opsSub K) prm fuel msg q aux = sign (EC.ops C) prm fuel msg q aux := by
  let L := lawful_ec K h34
  unfold sign
  rw [← nonce_opsSub K]
  split
  · rfl
  · cases hn : nonce (opsSub K) prm fuel msg q aux with
    | error e => rfl
    | ok t =>
      obtain ⟨k, xK, q', xQ⟩ := t
      obtain ⟨-, -, -, -, hk⟩ := nonce_spec L prm L.ycongr fuel msg q aux _ _ _ _ hn
      simp only []
      rw [challenge_opsSub]
      cases hc : challenge (EC.ops C) prm msg xQ xK with
      | error e => rfl
      | ok c =>
        simp only []
        have hx := (hk.2.2 ((opsSub K).mul k (opsSub K).gen) (L.abs_mul k _)).2
        have hne : absSub ((opsSub K).mul k (opsSub K).gen) ≠ 0 := L.mul_gen_ne_zero k hk.1 hk.2.1
        rw [← hx]
        exact signCore_opsSub_x K h34 _ hne c q' k

/-- what `verify_` accepts over `opsSub K`, it accepts over `Btc.EC.ops C` -/
theorem verify_opsSub_imp (K : CurveOk p C) (prm : Params) (msg : Bytes) (xQ : ℤ) (sg : Sig)
    (h : Schnorr.verify (opsSub K) prm msg xQ sg = true) : Schnorr.verify (EC.ops C) prm msg xQ sg = true := by
  rw [verify_unfold] at h ⊢
  obtain ⟨hv, Q, hQ, hc, hcore⟩ := h
  exact ⟨sigValid_opsSub_imp K sg hv, Q.1, opsSub_liftX K hQ, hc, hcore⟩

/-- **C03-T1 on btclib's arithmetic**: whatever `sign_` returns when run over `Btc.EC.ops C` verifies, over
`Btc.EC.ops C`, under the signer's x-only key `x(mult q G)` -/
theorem sign_verifies_ec (K : CurveOk p C) (h34 : p % 4 = 3) (prm : Params) (fuel : ℕ) (msg : Bytes) (q : ℤ)
    (aux : Bytes) (sg : Sig) (h : sign (EC.ops C) prm fuel msg q aux = .ok sg) :
    Schnorr.verify (EC.ops C) prm msg ((EC.ops C).x ((EC.ops C).mul q C.G)) sg = true := by
  have L := lawful_ec K h34
  rw [← sign_opsSub K h34] at h
  exact verify_opsSub_imp K prm msg _ sg
    ((verify_eq_true_iff prm _ _ _).2 (Schnorr.sign_verifies L prm L.ycongr fuel msg q aux sg h))

/-- the same with the verdict over `opsSub K` (the form the batch theorems take as hypothesis) -/
theorem sign_verifies_sub (K : CurveOk p C) (h34 : p % 4 = 3) (prm : Params) (fuel : ℕ) (msg : Bytes) (q : ℤ)
    (aux : Bytes) (sg : Sig) (h : sign (EC.ops C) prm fuel msg q aux = .ok sg) :
    Schnorr.verify (opsSub K) prm msg ((EC.ops C).x ((EC.ops C).mul q C.G)) sg = true := by
  have L := lawful_ec K h34
  rw [← sign_opsSub K h34] at h
  exact (verify_eq_true_iff prm _ _ _).2 (Schnorr.sign_verifies L prm L.ycongr fuel msg q aux sg h)

theorem nonceRaw_opsSub (K : CurveOk p C) (prm : Params) (fuel : ℕ) (msg : Bytes) (q xQ : ℤ) (aux : Bytes) :
    nonceRaw (opsSub K) prm fuel msg q xQ aux = nonceRaw (EC.ops C) prm fuel msg q xQ aux := by
  unfold nonceRaw
  simp only [hashToScalar_opsSub]

/-- **closed form of `sign_` over `Btc.EC.ops C`** for a key in `1..n-1` and an aux of the hash's size: the only
refusals left are the exhausted retry budget of the nonce loop and a zero challenge -/
theorem sign_eq_ec (K : CurveOk p C) (h34 : p % 4 = 3) (prm : Params) (fuel : ℕ) (msg : Bytes) (q : ℤ) (aux : Bytes)
    (hq : 0 < q ∧ q < C.n) (haux : aux.length = prm.hfLen) :
    sign (EC.ops C) prm fuel msg q aux =
      match nonceRaw (EC.ops C) prm fuel msg (evenScalar (EC.ops C) q) ((EC.ops C).x ((EC.ops C).mul q C.G)) aux with
      | .error e => .error e
      | .ok k0 =>
        if challengeInt (EC.ops C) prm msg ((EC.ops C).x ((EC.ops C).mul q C.G)) ((EC.ops C).x ((EC.ops C).mul k0 C.G)) = 0
        then .error .runtime
        else .ok ⟨(EC.ops C).x ((EC.ops C).mul k0 C.G),
          (evenScalar (EC.ops C) k0 + challengeInt (EC.ops C) prm msg ((EC.ops C).x ((EC.ops C).mul q C.G))
            ((EC.ops C).x ((EC.ops C).mul k0 C.G)) * evenScalar (EC.ops C) q) % C.n⟩ := by
  rw [← sign_opsSub K h34, Schnorr.sign_eq (lawful_ec K h34) prm fuel msg q aux hq haux, nonceRaw_opsSub]
  rfl

/-- **C03-T2 over `opsSub K`**: `verify_` answers true exactly when BIP340's Verify does -/
theorem verify_iff_sub (K : CurveOk p C) (h34 : p % 4 = 3) (prm : Params) (msg : Bytes) (xQ : ℤ) (sg : Sig) :
    Schnorr.verify (opsSub K) prm msg xQ sg = true ↔
      0 ≤ sg.r ∧ sg.r < C.p ∧ 0 ≤ sg.s ∧ sg.s < C.n ∧
      ∃ Q, (opsSub K).liftX xQ = some Q ∧
        challengeInt (EC.ops C) prm msg xQ sg.r ≠ 0 ∧
        (EC.ops C).isZero ((EC.ops C).sub ((EC.ops C).mul sg.s C.G)
          ((EC.ops C).mul (challengeInt (EC.ops C) prm msg xQ sg.r) Q.1)) = false ∧
        (EC.ops C).hasEvenY ((EC.ops C).sub ((EC.ops C).mul sg.s C.G)
          ((EC.ops C).mul (challengeInt (EC.ops C) prm msg xQ sg.r) Q.1)) = true ∧
        (EC.ops C).x ((EC.ops C).sub ((EC.ops C).mul sg.s C.G)
          ((EC.ops C).mul (challengeInt (EC.ops C) prm msg xQ sg.r) Q.1)) = sg.r :=
  Schnorr.verify_iff (lawful_ec K h34) prm (lawful_ec K h34).ycongr msg xQ sg

/-- **C03-T3 over `opsSub K`** -/
theorem batch_complete_sub (K : CurveOk p C) (h34 : p % 4 = 3) (prm : Params) (coef : ℕ → ℤ) (items : List Item)
    (hne : items ≠ []) (hall : ∀ it ∈ items, Schnorr.verify (opsSub K) prm it.msg it.xQ it.sg = true) :
    batchVerify (opsSub K) prm coef items = true :=
  (batchVerify_eq_true_iff prm coef items).2 (Schnorr.batch_complete (lawful_ec K h34) prm coef items hne hall)

/-- **C03-T4 over `opsSub K`**, one bad member -/
theorem batch_one_bad_fails_sub (K : CurveOk p C) (h34 : p % 4 = 3) (prm : Params) (coef : ℕ → ℤ) (it0 it1 : Item)
    (rest : List Item) (j : ℕ) (bad : Item)
    (hj : (it0 :: it1 :: rest)[j]? = some bad)
    (hbad : Schnorr.verify (opsSub K) prm bad.msg bad.xQ bad.sg = false)
    (hothers : ∀ k it', (it0 :: it1 :: rest)[k]? = some it' → k ≠ j →
      Schnorr.verify (opsSub K) prm it'.msg it'.xQ it'.sg = true)
    (hcoef : ¬ C.n ∣ coefAt coef j) :
    batchVerify (opsSub K) prm coef (it0 :: it1 :: rest) = false := by
  cases hb : batchVerify (opsSub K) prm coef (it0 :: it1 :: rest) with
  | false => rfl
  | true =>
    exact absurd ((batchVerify_eq_true_iff prm coef _).1 hb)
      (Schnorr.batch_one_bad_fails (lawful_ec K h34) prm coef it0 it1 rest j bad hj hbad hothers hcoef)

end

/-! ## transfer to the raw pairs of `Btc.EC.ops C` under cofactor one

`opsSub K` differs from `Btc.EC.ops C` only in `lift_x`.  `hL` says the filter never fires; it follows from the
cofactor-one hypothesis `hcof : ∀ g, n • g = 0` and `Δ ≠ 0` (`Btc.E2E.liftAgree_of_cofactor_one`).
Under it every run of verify / batch over `opsSub K` IS the run over `Btc.EC.ops C`, refusal classes included. -/
section Transfer
variable {p : ℕ} [Fact p.Prime] {C : Curve}

variable (K : CurveOk p C) (hL : LiftAgree K)
include hL

theorem isXCoord_eq (x : ℤ) : isXCoord (opsSub K) x = isXCoord (EC.ops C) x := by
  unfold isXCoord
  rw [← hL x, Option.isSome_map]
  rfl

theorem sigValid_eq (sg : Sig) : sigValid (opsSub K) sg = sigValid (EC.ops C) sg := by
  unfold sigValid
  rw [isXCoord_eq K hL]
  rfl

theorem assertAsValid_eq (prm : Params) (msg : Bytes) (xQ : ℤ) (sg : Sig) :
    assertAsValid (opsSub K) prm msg xQ sg = assertAsValid (EC.ops C) prm msg xQ sg := by
  unfold assertAsValid
  rw [sigValid_eq K hL]
  cases sigValid (EC.ops C) sg with
  | error e => rfl
  | ok u =>
    simp only []
    have h := hL xQ
    cases hs : (opsSub K).liftX xQ with
    | none =>
      rw [hs] at h
      simp only [Option.map_none] at h
      rw [← h]
    | some Q =>
      rw [hs] at h
      simp only [Option.map_some] at h
      rw [← h]
      rfl

theorem verify_eq (prm : Params) (msg : Bytes) (xQ : ℤ) (sg : Sig) :
    Schnorr.verify (opsSub K) prm msg xQ sg = Schnorr.verify (EC.ops C) prm msg xQ sg := by
  unfold Schnorr.verify
  rw [assertAsValid_eq K hL]

theorem allSigValid_eq (items : List Item) : allSigValid (opsSub K) items = allSigValid (EC.ops C) items := by
  induction items with
  | nil => rfl
  | cons it rest ih =>
    unfold allSigValid
    rw [sigValid_eq K hL, ih]

omit hL in
theorem batchTerms_eq (prm : Params) (coef : ℕ → ℤ) (i : ℕ) (items : List Item) :
    batchTerms (opsSub K) prm coef i items = batchTerms (EC.ops C) prm coef i items := by
  induction items generalizing i with
  | nil => rfl
  | cons it rest ih =>
    unfold batchTerms
    rw [ih (i + 1)]
    rfl

theorem liftAll_val (terms : List (ℤ × ℤ)) :
    (match liftAll (opsSub K) terms with
     | .error e => .error e
     | .ok pts => .ok (pts.map fun aP => (aP.1, aP.2.1))) = liftAll (EC.ops C) terms := by
  induction terms with
  | nil => rfl
  | cons ax rest ih =>
    obtain ⟨a, x⟩ := ax
    unfold liftAll
    have h := hL x
    cases hs : (opsSub K).liftX x with
    | none =>
      rw [hs] at h
      simp only [Option.map_none] at h
      rw [← h]
    | some Q =>
      rw [hs] at h
      simp only [Option.map_some] at h
      rw [← h, ← ih]
      cases liftAll (opsSub K) rest with
      | error e => rfl
      | ok ps => rfl

omit hL in
theorem multiMult_val (pts : List (ℤ × SubPt p C)) :
    (multiMult (opsSub K) pts).1 = multiMult (EC.ops C) (pts.map fun aP => (aP.1, aP.2.1)) := by
  induction pts with
  | nil => rfl
  | cons aP rest ih =>
    obtain ⟨a, P⟩ := aP
    show (EC.ops C).add ((EC.ops C).mul a P.1) (multiMult (opsSub K) rest).1 = _
    rw [ih]
    rfl

/-- **`assert_batch_as_valid_` over `opsSub K` IS the run over `Btc.EC.ops C`** (same verdict, same refusal) -/
theorem assertBatch_eq (prm : Params) (coef : ℕ → ℤ) (items : List Item) :
    assertBatch (opsSub K) prm coef items = assertBatch (EC.ops C) prm coef items := by
  match items with
  | [] => rfl
  | [it] => exact assertAsValid_eq K hL prm it.msg it.xQ it.sg
  | it0 :: it1 :: rest =>
    unfold assertBatch
    rw [allSigValid_eq K hL, batchTerms_eq K]
    cases allSigValid (EC.ops C) (it0 :: it1 :: rest) with
    | error e => rfl
    | ok u =>
      simp only []
      cases batchTerms (EC.ops C) prm coef 0 (it0 :: it1 :: rest) with
      | error e => rfl
      | ok tt =>
        obtain ⟨t, terms⟩ := tt
        simp only []
        rw [← liftAll_val K hL terms]
        cases liftAll (opsSub K) terms with
        | error e => rfl
        | ok pts =>
          simp only []
          rw [← multiMult_val K pts]
          rfl

theorem batchVerify_eq (prm : Params) (coef : ℕ → ℤ) (items : List Item) :
    batchVerify (opsSub K) prm coef items = batchVerify (EC.ops C) prm coef items := by
  unfold batchVerify
  rw [assertBatch_eq K hL]

/-- **C03-T2 on the raw pairs of `Btc.EC.ops C`** (cofactor one) -/
theorem verify_iff_cofactor_one (h34 : p % 4 = 3) (prm : Params) (msg : Bytes) (xQ : ℤ) (sg : Sig) :
    Schnorr.verify (EC.ops C) prm msg xQ sg = true ↔
      0 ≤ sg.r ∧ sg.r < C.p ∧ 0 ≤ sg.s ∧ sg.s < C.n ∧
      ∃ Q : Point, (EC.ops C).liftX xQ = some Q ∧
        challengeInt (EC.ops C) prm msg xQ sg.r ≠ 0 ∧
        (EC.ops C).isZero ((EC.ops C).sub ((EC.ops C).mul sg.s C.G)
          ((EC.ops C).mul (challengeInt (EC.ops C) prm msg xQ sg.r) Q)) = false ∧
        (EC.ops C).hasEvenY ((EC.ops C).sub ((EC.ops C).mul sg.s C.G)
          ((EC.ops C).mul (challengeInt (EC.ops C) prm msg xQ sg.r) Q)) = true ∧
        (EC.ops C).x ((EC.ops C).sub ((EC.ops C).mul sg.s C.G)
          ((EC.ops C).mul (challengeInt (EC.ops C) prm msg xQ sg.r) Q)) = sg.r := by
  rw [← verify_eq K hL, verify_iff_sub K h34]
  constructor
  · rintro ⟨h1, h2, h3, h4, Q, hQ, hrest⟩
    exact ⟨h1, h2, h3, h4, Q.1, opsSub_liftX K hQ, hrest⟩
  · rintro ⟨h1, h2, h3, h4, Q, hQ, hrest⟩
    have h := hL xQ
    rw [hQ] at h
    obtain ⟨Q', hQ', rfl⟩ := Option.map_eq_some_iff.mp h
    exact ⟨h1, h2, h3, h4, Q', hQ', hrest⟩

theorem batch_complete_cofactor_one (h34 : p % 4 = 3) (prm : Params) (coef : ℕ → ℤ) (items : List Item)
    (hne : items ≠ []) (hall : ∀ it ∈ items, Schnorr.verify (EC.ops C) prm it.msg it.xQ it.sg = true) :
    batchVerify (EC.ops C) prm coef items = true := by
  rw [← batchVerify_eq K hL]
  exact batch_complete_sub K h34 prm coef items hne (fun it hit => by rw [verify_eq K hL]; exact hall it hit)

theorem batch_one_bad_fails_cofactor_one (h34 : p % 4 = 3) (prm : Params) (coef : ℕ → ℤ) (it0 it1 : Item)
    (rest : List Item) (j : ℕ) (bad : Item)
    (hj : (it0 :: it1 :: rest)[j]? = some bad)
    (hbad : Schnorr.verify (EC.ops C) prm bad.msg bad.xQ bad.sg = false)
    (hothers : ∀ k it', (it0 :: it1 :: rest)[k]? = some it' → k ≠ j →
      Schnorr.verify (EC.ops C) prm it'.msg it'.xQ it'.sg = true)
    (hcoef : ¬ C.n ∣ coefAt coef j) :
    batchVerify (EC.ops C) prm coef (it0 :: it1 :: rest) = false := by
  rw [← batchVerify_eq K hL]
  exact batch_one_bad_fails_sub K h34 prm coef it0 it1 rest j bad hj (by rw [verify_eq K hL]; exact hbad)
    (fun k it' hk hne => by rw [verify_eq K hL]; exact hothers k it' hk hne) hcoef

theorem batch_at_most_one_coeff_cofactor_one (h34 : p % 4 = 3) (prm : Params) (coef coef' : ℕ → ℤ) (it0 it1 : Item)
    (rest : List Item) (j : ℕ) (bad : Item) (hj1 : 1 ≤ j)
    (hj : (it0 :: it1 :: rest)[j]? = some bad)
    (hbad : Schnorr.verify (EC.ops C) prm bad.msg bad.xQ bad.sg = false)
    (hagree : ∀ i, i ≠ j → coef i = coef' i)
    (h1 : batchVerify (EC.ops C) prm coef (it0 :: it1 :: rest) = true)
    (h2 : batchVerify (EC.ops C) prm coef' (it0 :: it1 :: rest) = true) :
    C.n ∣ coef j - coef' j := by
  rw [← batchVerify_eq K hL] at h1 h2
  rw [← verify_eq K hL] at hbad
  exact Schnorr.batch_at_most_one_coeff (lawful_ec K h34) prm coef coef' it0 it1 rest j bad hj1 hj hbad hagree
    ((batchVerify_eq_true_iff prm coef _).1 h1) ((batchVerify_eq_true_iff prm coef' _).1 h2)

/-- **C03-T2, group-level reading, on the raw pairs of `Btc.EC.ops C`** (cofactor one): `verify_` is true exactly when
`r < p`, `s < n`, `r` and `x_Q` lift to points `R`, `P` of the curve, `e ≠ 0`, and BIP340's equation `s•G = R + e•P`
holds in the group of points of the curve (Mathlib's `WeierstrassCurve.Affine.Point`) -/
theorem verify_iff_equation_cofactor_one (h34 : p % 4 = 3) (prm : Params) (msg : Bytes) (xQ : ℤ) (sg : Sig) :
    Schnorr.verify (EC.ops C) prm msg xQ sg = true ↔
      0 ≤ sg.r ∧ sg.r < C.p ∧ 0 ≤ sg.s ∧ sg.s < C.n ∧
      ∃ R P : Point, (EC.ops C).liftX sg.r = some R ∧ (EC.ops C).liftX xQ = some P ∧
        challengeInt (EC.ops C) prm msg xQ sg.r ≠ 0 ∧
        sg.s • absA p C.toCurveGroup C.G =
          absA p C.toCurveGroup R + challengeInt (EC.ops C) prm msg xQ sg.r • absA p C.toCurveGroup P := by
  rw [← verify_eq K hL, Schnorr.verify_iff_equation (lawful_ec K h34)]
  constructor
  · rintro ⟨h1, h2, h3, h4, R, P, hR, hP, hc, heq⟩
    exact ⟨h1, h2, h3, h4, R.1, P.1, opsSub_liftX K hR, opsSub_liftX K hP, hc, heq⟩
  · rintro ⟨h1, h2, h3, h4, R, P, hR, hP, hc, heq⟩
    have hr := hL sg.r
    rw [hR] at hr
    obtain ⟨R', hR', rfl⟩ := Option.map_eq_some_iff.mp hr
    have hq := hL xQ
    rw [hP] at hq
    obtain ⟨P', hP', rfl⟩ := Option.map_eq_some_iff.mp hq
    exact ⟨h1, h2, h3, h4, R', P', hR', hP', hc, heq⟩

/-- at most one failing member ⇒ the executed batch verdict is the conjunction of the executed single verdicts -/
theorem batch_eq_all_of_at_most_one_bad_cofactor_one (h34 : p % 4 = 3) (prm : Params) (coef : ℕ → ℤ)
    (hd : Drawn (EC.ops C) coef) (items : List Item) (hne : items ≠ [])
    (hone : ∀ (j k : ℕ) (a b : Item), items[j]? = some a → items[k]? = some b →
      Schnorr.verify (EC.ops C) prm a.msg a.xQ a.sg = false → Schnorr.verify (EC.ops C) prm b.msg b.xQ b.sg = false →
      j = k) :
    batchVerify (EC.ops C) prm coef items = true ↔
      ∀ it ∈ items, Schnorr.verify (EC.ops C) prm it.msg it.xQ it.sg = true := by
  rw [← batchVerify_eq K hL]
  have h := Schnorr.batch_eq_all_of_at_most_one_bad (lawful_ec K h34) prm coef hd items hne
    (fun j k a b ha hb hva hvb => hone j k a b ha hb (by rw [← verify_eq K hL]; exact hva)
      (by rw [← verify_eq K hL]; exact hvb))
  rw [h]
  constructor
  · intro hall it hit; rw [← verify_eq K hL]; exact hall it hit
  · intro hall it hit; rw [verify_eq K hL]; exact hall it hit

/-- a failing member `j ≥ 1`: at most one of the values `1..n-1` of `aⱼ` lets the executed batch pass -/
theorem batch_passing_coefficient_unique_cofactor_one (h34 : p % 4 = 3) (prm : Params) (coef : ℕ → ℤ)
    (it0 it1 : Item) (rest : List Item) (j : ℕ) (bad : Item) (hj1 : 1 ≤ j)
    (hj : (it0 :: it1 :: rest)[j]? = some bad)
    (hbad : Schnorr.verify (EC.ops C) prm bad.msg bad.xQ bad.sg = false) (a a' : ℤ)
    (ha : 0 < a ∧ a < C.n) (ha' : 0 < a' ∧ a' < C.n)
    (h1 : batchVerify (EC.ops C) prm (Function.update coef j a) (it0 :: it1 :: rest) = true)
    (h2 : batchVerify (EC.ops C) prm (Function.update coef j a') (it0 :: it1 :: rest) = true) : a = a' := by
  rw [← batchVerify_eq K hL] at h1 h2
  rw [← verify_eq K hL] at hbad
  exact Schnorr.batch_passing_coefficient_unique (lawful_ec K h34) prm coef it0 it1 rest j bad hj1 hj hbad a a' ha ha'
    h1 h2

end Transfer

/-- secp256k1's discriminant `−16·27·7²` is not zero in its field -/
theorem secp_delta_ne_zero_c03 : (curveOf secp256k1_p secp256k1.toCurveGroup).toAffine.Δ ≠ 0 := by
  have ha : secp256k1.toCurveGroup.a = 0 := by decide +kernel
  have hb : secp256k1.toCurveGroup.b = 7 := by decide +kernel
  unfold curveOf swc
  simp only [WeierstrassCurve.Δ, WeierstrassCurve.b₂, WeierstrassCurve.b₄, WeierstrassCurve.b₆, WeierstrassCurve.b₈, ha, hb]
  norm_num
  intro h
  have h' : ((21168 : ℕ) : ZMod secp256k1_p) = 0 := by exact_mod_cast h
  rw [ZMod.natCast_eq_zero_iff] at h'
  have := Nat.le_of_dvd (by norm_num) h'
  have hp : 21168 < secp256k1_p := by decide +kernel
  omega

/-- under `Btc.E2E.SecpCofactorOne` (every point of the curve has order dividing `n`; PROVED in
    `Proofs/E2E/CofactorOne.lean`, applied in `Proofs/C03/Secp.lean`) the restricted `lift_x` is the executed one -/
theorem secp_liftAgree03 (hcof : SecpCofactorOne) : LiftAgree secpOk :=
  @liftAgree_of_cofactor_one secp256k1_p ⟨secp256k1_p_prime⟩ secp256k1 secpOk secp256k1_h34 hcof secp_delta_ne_zero_c03

/-! ## secp256k1, T1 only: no assumption about the curve (primality of `p`, `n`: Pratt certificates).
T2–T4 on secp256k1 are the `_cofactor_one` theorems above at `secpOk` with `secp_liftAgree03 secpCofactorOne`:
`Proofs/C03/Secp.lean`, re-exported hypothesis-free by `Props/C03.lean`. -/

theorem sign_verifies_secp256k1 (prm : Params)
    (fuel : ℕ) (msg : Bytes) (q : ℤ) (aux : Bytes) (sg : Sig)
    (h : sign (EC.ops secp256k1) prm fuel msg q aux = .ok sg) :
    Schnorr.verify (EC.ops secp256k1) prm msg ((EC.ops secp256k1).x ((EC.ops secp256k1).mul q secp256k1.G)) sg = true :=
  @sign_verifies_ec secp256k1_p ⟨secp256k1_p_prime⟩ secp256k1 secpOk secp256k1_h34 prm fuel msg q aux sg h

/-! ## the toy curve: actual runs, no hypothesis at all -/

/-- sizes of the 43-element field / 31-element group and a small "tagged hash" -/
def toyPrm : Params :=
  { pSize := 1, nSize := 1, nlen := 5, hfLen := 1,
    TH := fun tag m => [UInt8.ofNat ((37 * tag.length + 11 * m.length + (m.foldl (fun a b => a + b.toNat) 0)) % 256)] }

theorem toy_schnorr_sign1 : sign (EC.ops toyC) toyPrm 5 [1, 2] 3 [0] = .ok ⟨2, 19⟩ := by decide +kernel
theorem toy_schnorr_sign2 : sign (EC.ops toyC) toyPrm 5 [9] 4 [7] = .ok ⟨29, 5⟩ := by decide +kernel
theorem toy_x3 : (EC.ops toyC).x ((EC.ops toyC).mul 3 toyC.G) = 35 := by decide +kernel
theorem toy_x4 : (EC.ops toyC).x ((EC.ops toyC).mul 4 toyC.G) = 21 := by decide +kernel

theorem toy_schnorr_verifies : Schnorr.verify (EC.ops toyC) toyPrm [1, 2] 35 ⟨2, 19⟩ = true := by
  have := sign_verifies_ec toyOk (by decide) toyPrm 5 [1, 2] 3 [0] _ toy_schnorr_sign1
  rwa [toy_x3] at this

/-! ### fully discharged `_cofactor_one` instances: `hcof` is PROVED for the toy curve (`Btc.C01.Toy.toy_hcof`), so T2–T4
about the raw, executed `Btc.EC.ops toyC` hold with no hypothesis left -/

theorem toy_liftAgree : LiftAgree toyOk :=
  liftAgree_of_cofactor_one toyOk (by decide) Btc.C01.Toy.toy_hcof Btc.C01.Toy.toy_delta

theorem toy_schnorr_verifies2 : Schnorr.verify (EC.ops toyC) toyPrm [9] 21 ⟨29, 5⟩ = true := by
  have := sign_verifies_ec toyOk (by decide) toyPrm 5 [9] 4 [7] _ toy_schnorr_sign2
  rwa [toy_x4] at this

/-- T3 on `Btc.EC.ops toyC`: the honest two-member batch passes for every coefficient function -/
theorem toy_batch_raw (coef : ℕ → ℤ) :
    batchVerify (EC.ops toyC) toyPrm coef [⟨[1, 2], 35, ⟨2, 19⟩⟩, ⟨[9], 21, ⟨29, 5⟩⟩] = true := by
  apply batch_complete_cofactor_one toyOk toy_liftAgree (by decide) toyPrm coef _ (by simp)
  intro it hit
  simp only [List.mem_cons, List.not_mem_nil, or_false] at hit
  rcases hit with rfl | rfl
  · exact toy_schnorr_verifies
  · exact toy_schnorr_verifies2

theorem toy_bad_member : Schnorr.verify (EC.ops toyC) toyPrm [9] 21 ⟨29, 6⟩ = false := by decide +kernel

/-- T4 on `Btc.EC.ops toyC`: with the second member tampered (`s + 1`) the batch fails for EVERY coefficient the code can
    draw (`1..n-1`), by theorem — not by running the 30 cases -/
theorem toy_batch_bad_raw (coef : ℕ → ℤ) (h : 0 < coef 1 ∧ coef 1 < 31) :
    batchVerify (EC.ops toyC) toyPrm coef [⟨[1, 2], 35, ⟨2, 19⟩⟩, ⟨[9], 21, ⟨29, 6⟩⟩] = false := by
  apply batch_one_bad_fails_cofactor_one toyOk toy_liftAgree (by decide) toyPrm coef _ _ [] 1 ⟨[9], 21, ⟨29, 6⟩⟩ rfl
    toy_bad_member
  · intro k it' hk hne
    match k, hk, hne with
    | 0, hk, _ =>
      simp only [List.getElem?_cons_zero, Option.some.injEq] at hk
      subst hk; exact toy_schnorr_verifies
    | 1, _, hne => exact absurd rfl hne
    | k + 2, hk, _ => simp at hk
  · show ¬ (31 : ℤ) ∣ coefAt coef 1
    rw [coefAt_eq]
    intro hd
    have := Int.le_of_dvd h.1 (by simpa using hd)
    omega

/-- T2 on `Btc.EC.ops toyC`: the accepted triple satisfies BIP340's equation, read off the theorem -/
theorem toy_verify_equation :
    ∃ Q : Point, (EC.ops toyC).liftX 35 = some Q ∧
      (EC.ops toyC).x ((EC.ops toyC).sub ((EC.ops toyC).mul 19 toyC.G)
        ((EC.ops toyC).mul (challengeInt (EC.ops toyC) toyPrm [1, 2] 35 2) Q)) = 2 := by
  obtain ⟨_, _, _, _, Q, hQ, _, _, _, hx⟩ :=
    (verify_iff_cofactor_one toyOk toy_liftAgree (by decide) toyPrm [1, 2] 35 ⟨2, 19⟩).1 toy_schnorr_verifies
  exact ⟨Q, hQ, hx⟩

end Btc.E2E
