import Proofs.E2E.Basic
import Proofs.C07.Laws
import Proofs.C07.Versions
/-
End-to-end corollaries for C07 (BIP32): `Props/C07.lean`'s theorems with `L := lawful_ec K h34`.

`ecEnv C D` is the environment the driver runs (`Btc.Bip32.secpEnv mac = ecEnv secp256k1 (secpData mac)`, `rfl`);
`subEnv K D` is the same with `opsSub K` for `Btc.EC.ops C`.  Private derivation, neutering and `crack` never call
`lift_x`: over `subEnv K D` they ARE their runs over `ecEnv C D` (`rfl`); a public step parses the parent key with
`lift_x`, and what it answers over `subEnv K D` it answers over `ecEnv C D` (`deriveFold_sub_ok`).  Hence T3 (neutering
commutes with unhardened derivation) is given twice: as the EQUATION between results over `subEnv K D`, and in its
success case about `Btc.EC.ops C` alone (`neuter_derive_raw_ec`).
-/
namespace Btc.E2E
open Btc Btc.EC Btc.C01 Btc.Bip32

/-- what a BIP32 environment holds beside the group operations -/
structure EnvData where
  mac : Bytes → Bytes → Bytes
  h160 : Bytes → Bytes
  pubVersion : Bytes → Option Bytes
  isPrvVersion : Bytes → Bool
  isPubVersion : Bytes → Bool

/-- the environment over btclib's arithmetic on curve `C` -/
def ecEnv (C : Curve) (D : EnvData) : Env Point :=
  { o := EC.ops C, mac := D.mac, h160 := D.h160, pubVersion := D.pubVersion, isPrvVersion := D.isPrvVersion,
    isPubVersion := D.isPubVersion }

/-- the driver's data: HASH160 and the version tables regenerated from `btclib/network.py` -/
def secpData (mac : Bytes → Bytes → Bytes := hmacSha512) : EnvData :=
  { mac := mac, h160 := hash160, pubVersion := Gen.Bip32.pubVersion,
    isPrvVersion := fun v => Gen.Bip32.XPRV_VERSIONS_ALL.contains v,
    isPubVersion := fun v => Gen.Bip32.XPUB_VERSIONS_ALL.contains v }

/-- the driver's environment is `ecEnv secp256k1` -/
theorem secpEnv_eq (mac : Bytes → Bytes → Bytes) : secpEnv mac = ecEnv secp256k1 (secpData mac) := rfl

section
variable {p : ℕ} [Fact p.Prime] {C : Curve}

/-- the same environment over `opsSub K` -/
noncomputable def subEnv (K : CurveOk p C) (D : EnvData) : Env (SubPt p C) :=
  { o := opsSub K, mac := D.mac, h160 := D.h160, pubVersion := D.pubVersion, isPrvVersion := D.isPrvVersion,
    isPubVersion := D.isPubVersion }

variable (K : CurveOk p C) (D : EnvData)

theorem bounds_sub (B : Bounds (ecEnv C D)) : Bounds (subEnv K D) := ⟨B.n_pos, B.n_le, B.p_le⟩

theorem validPrv_sub {x : XKey} (h : ValidPrv (ecEnv C D) x) : ValidPrv (subEnv K D) x := ⟨h.pos, h.lt, h.key⟩

theorem ckdPriv_sub (x : XKey) (i : ℕ) : ckdPriv (subEnv K D) x i = ckdPriv (ecEnv C D) x i := rfl

theorem neuter_sub (x : XKey) : neuter (subEnv K D) x = neuter (ecEnv C D) x := rfl

theorem pubOfPrv_sub (k : ℕ) : pubOfPrv (subEnv K D) k = pubOfPrv (ecEnv C D) k := rfl

theorem crackCore_sub (x y : XKey) : crackCore (subEnv K D) x y = crackCore (ecEnv C D) x y := rfl

theorem ckdPubWith_sub (x : XKey) (i : ℕ) (P : SubPt p C) (h : Bytes × Bytes) :
    ckdPubWith (subEnv K D) x i P h = ckdPubWith (ecEnv C D) x i P.1 h := rfl

/-- a key the restricted `lift_x` parses, the unrestricted one parses to the same pair -/
theorem parsePoint_sub {key : Bytes} {P : SubPt p C} (h : parsePoint (subEnv K D) key = some P) :
    parsePoint (ecEnv C D) key = some P.1 := by
  unfold parsePoint at h ⊢
  cases key with
  | nil => cases h
  | cons pfx xs =>
    simp only [] at h ⊢
    by_cases hc : xs.length = 32 ∧ (pfx = 2 ∨ pfx = 3)
    · rw [ite_pos' hc] at h ⊢
      cases hl : (subEnv K D).o.liftX ((ofBE xs : ℕ) : ℤ) with
      | none => rw [hl] at h; cases h
      | some R =>
        rw [hl] at h
        have hr : (ecEnv C D).o.liftX ((ofBE xs : ℕ) : ℤ) = some R.1 := opsSub_liftX K hl
        rw [hr]
        simp only [Option.map_some, Option.some.injEq] at h ⊢
        rw [← h]
        split <;> rfl
    · rw [ite_neg' hc] at h; cases h

theorem ckdPub_sub_ok {x y : XKey} {i : ℕ} (h : ckdPub (subEnv K D) x i = .ok y) :
    ckdPub (ecEnv C D) x i = .ok y := by
  unfold ckdPub at h ⊢
  by_cases hi : i ≥ HARDENED
  · rw [ite_pos' hi] at h; cases h
  · rw [ite_neg' hi] at h ⊢
    cases hp : parsePoint (subEnv K D) x.key with
    | none => rw [hp] at h; cases h
    | some P =>
      rw [hp] at h
      rw [parsePoint_sub K D hp]
      exact h

theorem ckd_sub_ok {x y : XKey} {i : ℕ} (h : ckd (subEnv K D) x i = .ok y) : ckd (ecEnv C D) x i = .ok y := by
  unfold ckd ckd' at h ⊢
  by_cases hd : x.depth ≥ MAX_DEPTH
  · rw [ite_pos' hd] at h; cases h
  · rw [ite_neg' hd] at h ⊢
    by_cases hx : x.isPrivate = true
    · rw [ite_pos' hx] at h ⊢; exact h
    · rw [ite_neg' hx] at h ⊢; exact ckdPub_sub_ok K D h

/-- on a private key a step over `subEnv K D` IS the step over `ecEnv C D` -/
theorem ckd_sub_private {x : XKey} (hx : x.isPrivate = true) (i : ℕ) :
    ckd (subEnv K D) x i = ckd (ecEnv C D) x i := by
  unfold ckd ckd'
  by_cases hd : x.depth ≥ MAX_DEPTH
  · rw [ite_pos' hd, ite_pos' hd]
  · rw [ite_neg' hd, ite_neg' hd, ite_pos' hx, ite_pos' hx]; rfl

theorem ckd_isPrivate {α : Type} {E : Env α} {x y : XKey} {i : ℕ} (h : ckd E x i = .ok y) :
    y.isPrivate = x.isPrivate := by
  unfold ckd at h
  split at h
  · cases h
  · exact (ckd'_fields E h).2.2.2

/-- **private derivation over `subEnv K D` IS private derivation over `ecEnv C D`** -/
theorem deriveFold_sub_private (p : List ℕ) : ∀ {x : XKey}, x.isPrivate = true →
    deriveFold (subEnv K D) x p = deriveFold (ecEnv C D) x p := by
  induction p with
  | nil => intro x _; rfl
  | cons i p ih =>
    intro x hx
    unfold deriveFold
    rw [ckd_sub_private K D hx]
    cases hc : ckd (ecEnv C D) x i with
    | error e => rfl
    | ok y => exact ih ((ckd_isPrivate hc).trans hx)

/-- what derivation answers over `subEnv K D` (public steps included) it answers over `ecEnv C D` -/
theorem deriveFold_sub_ok (p : List ℕ) : ∀ {x y : XKey}, deriveFold (subEnv K D) x p = .ok y →
    deriveFold (ecEnv C D) x p = .ok y := by
  induction p with
  | nil => intro x y h; exact h
  | cons i p ih =>
    intro x y h
    unfold deriveFold at h ⊢
    cases hc : ckd (subEnv K D) x i with
    | error e => rw [hc] at h; cases h
    | ok z =>
      rw [hc] at h
      rw [ckd_sub_ok K D hc]
      exact ih h

/-- **C07-T3 over `subEnv K D`** (the full equation, refusals included) -/
theorem neuter_derive_ec (h34 : p % 4 = 3) (B : Bounds (ecEnv C D)) (x : XKey) (v : Bytes) (p' : List ℕ)
    (hv : ValidPrv (ecEnv C D) x) (hver : D.pubVersion x.version = some v) (hp : ∀ i ∈ p', i < HARDENED) :
    ((deriveFold (subEnv K D) x p').mapError Err.toPub).bind (neuter (subEnv K D)) =
      (neuter (subEnv K D) x).bind fun x' => deriveFold (subEnv K D) x' p' :=
  neuter_deriveFold (lawful_ec K h34) (bounds_sub K D B) p' x (validPrv_sub K D hv) hver hp

include K in
/-- **C07-T3 on btclib's arithmetic** (success case): derive privately along an unhardened path, neuter the result:
the public derivation of the neutered parent, run over `Btc.EC.ops C`, answers exactly that -/
theorem neuter_derive_raw_ec (h34 : p % 4 = 3) (B : Bounds (ecEnv C D)) (x : XKey) (v : Bytes) (p' : List ℕ)
    (hv : ValidPrv (ecEnv C D) x) (hver : D.pubVersion x.version = some v) (hp : ∀ i ∈ p', i < HARDENED)
    (y' : XKey) (hy : (deriveFold (ecEnv C D) x p').bind (neuter (ecEnv C D)) = .ok y') :
    neuter (ecEnv C D) x = .ok { x with version := v, key := pubOfPrv (ecEnv C D) x.prvInt } ∧
    deriveFold (ecEnv C D) { x with version := v, key := pubOfPrv (ecEnv C D) x.prvInt } p' = .ok y' := by
  have hE := neuter_derive_ec K D h34 B x v p' hv hver hp
  have hn : neuter (ecEnv C D) x = .ok { x with version := v, key := pubOfPrv (ecEnv C D) x.prvInt } :=
    neuter_ok hv hver
  refine ⟨hn, ?_⟩
  cases hd : deriveFold (ecEnv C D) x p' with
  | error e => rw [hd] at hy; cases hy
  | ok y =>
    rw [hd] at hy
    have hy' : neuter (ecEnv C D) y = .ok y' := hy
    rw [deriveFold_sub_private K D p' (validPrv_isPrivate hv), hd, neuter_sub, hn] at hE
    simp only [Except.mapError, Except.bind] at hE
    rw [neuter_sub, hy'] at hE
    exact deriveFold_sub_ok K D p' hE.symm

/-- **C07-T1 over `subEnv K D`**: btclib's `_derive` is the fold of BIP steps (public keys along unhardened paths
included) -/
theorem deriveB_eq_fold_ec (h34 : p % 4 = 3) (B : Bounds (ecEnv C D)) (x : XKey) (p' : List ℕ)
    (hk : x.isPrivate = true ∨ ∀ i ∈ p', i < HARDENED) (hd : x.depth + p'.length ≤ MAX_DEPTH) :
    deriveB (subEnv K D) x p' none = deriveFold (subEnv K D) x p' := by
  rw [deriveFold_eq' (subEnv K D) x p' hd]
  cases hx : x.isPrivate with
  | true => exact deriveB_private (bounds_sub K D B) x p' hx hd
  | false =>
    rcases hk with h | h
    · rw [hx] at h; cases h
    · exact deriveB_public (lawful_ec K h34) (bounds_sub K D B) x p' hx h hd

end

/-- **C07-T5 on btclib's arithmetic** (needs no group law: stated for completeness of the instance) -/
theorem crack_recovers_parent_ec (C : Curve) (D : EnvData) (B : Bounds (ecEnv C D)) (x y : XKey) (v : Bytes)
    (i : ℕ) (hv : ValidPrv (ecEnv C D) x) (hi : i < HARDENED) (hc : ckdPriv (ecEnv C D) x i = .ok y) :
    crackCore (ecEnv C D) { x with version := v, key := pubOfPrv (ecEnv C D) x.prvInt } y = .ok x :=
  crackCore_ckdPriv B hv v i hi hc

/-! ## secp256k1 (the driver's `secpEnv mac`): no assumption on the curve (primality of `p`, `n`: Pratt certificates) -/

/-- `secpEnv mac` with `secpOps` for `Btc.EC.ops secp256k1` -/
noncomputable def secpSubEnv
    (mac : Bytes → Bytes → Bytes := hmacSha512) : Env SecpPt :=
  @subEnv secp256k1_p ⟨secp256k1_p_prime⟩ secp256k1 secpOk (secpData mac)

theorem neuter_derive_secp256k1
    (mac : Bytes → Bytes → Bytes) (x : XKey) (v : Bytes) (p' : List ℕ)
    (hv : ValidPrv (secpEnv mac) x) (hver : Gen.Bip32.pubVersion x.version = some v)
    (hp' : ∀ i ∈ p', i < HARDENED) :
    ((deriveFold (secpSubEnv mac) x p').mapError Err.toPub).bind (neuter (secpSubEnv mac)) =
      (neuter (secpSubEnv mac) x).bind fun x' => deriveFold (secpSubEnv mac) x' p' :=
  @neuter_derive_ec secp256k1_p ⟨secp256k1_p_prime⟩ secp256k1 secpOk (secpData mac) secp256k1_h34 (secp_bounds mac) x v p'
    hv hver hp'

theorem neuter_derive_raw_secp256k1
    (mac : Bytes → Bytes → Bytes) (x : XKey) (v : Bytes) (p' : List ℕ)
    (hv : ValidPrv (secpEnv mac) x) (hver : Gen.Bip32.pubVersion x.version = some v)
    (hp' : ∀ i ∈ p', i < HARDENED)
    (y' : XKey) (hy : (deriveFold (secpEnv mac) x p').bind (neuter (secpEnv mac)) = .ok y') :
    neuter (secpEnv mac) x = .ok { x with version := v, key := pubOfPrv (secpEnv mac) x.prvInt } ∧
    deriveFold (secpEnv mac) { x with version := v, key := pubOfPrv (secpEnv mac) x.prvInt } p' = .ok y' :=
  @neuter_derive_raw_ec secp256k1_p ⟨secp256k1_p_prime⟩ secp256k1 secpOk (secpData mac) secp256k1_h34 (secp_bounds mac) x v
    p' hv hver hp' y' hy

theorem deriveB_eq_fold_secp256k1
    (mac : Bytes → Bytes → Bytes) (x : XKey) (p' : List ℕ)
    (hk : x.isPrivate = true ∨ ∀ i ∈ p', i < HARDENED) (hd : x.depth + p'.length ≤ MAX_DEPTH) :
    deriveB (secpSubEnv mac) x p' none = deriveFold (secpSubEnv mac) x p' :=
  @deriveB_eq_fold_ec secp256k1_p ⟨secp256k1_p_prime⟩ secp256k1 secpOk (secpData mac) secp256k1_h34 (secp_bounds mac) x p'
    hk hd

/-! ## the toy curve: nothing assumed -/

/-- a 64-byte "MAC" and a "HASH160" for the 31-element group -/
def toyMac (k m : Bytes) : Bytes :=
  List.replicate 31 0 ++ [UInt8.ofNat ((k.length + 3 * m.length + m.foldl (fun a b => a + b.toNat) 0) % 29 + 1)] ++
    List.replicate 32 7

def toyData : EnvData where
  mac := toyMac
  h160 := fun b => b.take 20
  pubVersion := fun v => some (v.map (· + 1))
  isPrvVersion := fun _ => true
  isPubVersion := fun _ => true

def toyX : XKey := ⟨[4, 136, 173, 228], 0, [0, 0, 0, 0], 0, List.replicate 32 7, 0 :: beBytes 32 5⟩

theorem toy_bounds : Bounds (ecEnv toyC toyData) := ⟨by decide, by decide, by decide⟩
theorem toy_validPrv : ValidPrv (ecEnv toyC toyData) toyX := ⟨by decide, by decide, by decide⟩

def toyY' : XKey := ⟨[5, 137, 174, 229], 2, [2, 0, 0, 0], 7, List.replicate 32 7, 2 :: beBytes 32 32⟩

/-- private derivation along `0/7` then neutering answers (an actual run of btclib's arithmetic) … -/
theorem toy_derive_neuter :
    (deriveFold (ecEnv toyC toyData) toyX [0, 7]).bind (neuter (ecEnv toyC toyData)) = .ok toyY' := by
  decide +kernel

/-- … hence, by T3, so does the public derivation of the neutered parent, with the same answer -/
theorem toy_neuter_derive :
    deriveFold (ecEnv toyC toyData)
      { toyX with version := [5, 137, 174, 229], key := pubOfPrv (ecEnv toyC toyData) toyX.prvInt } [0, 7] = .ok toyY' :=
  (neuter_derive_raw_ec toyOk toyData (by decide) toy_bounds toyX [5, 137, 174, 229] [0, 7] toy_validPrv
    (by decide) (by decide) toyY' toy_derive_neuter).2

end Btc.E2E
