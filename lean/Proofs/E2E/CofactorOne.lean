import Proofs.E2E.Basic
import Mathlib.GroupTheory.Perm.Cycle.Type
import Mathlib.GroupTheory.OrderOfElement
import Mathlib.SetTheory.Cardinal.Finite
import Mathlib.FieldTheory.Finite.Basic
/-
End-to-end corollaries: **secp256k1 has cofactor one, PROVED** (`secpCofactorOne : SecpCofactorOne`).

No point count (Hasse, Schoof) is needed.  For a curve `y² = x³ + a x + b` over `ZMod p` (`p` an odd prime) with a
generator of prime order `n` (`CurveOk p C`):
 1. the point group is finite with at most `2p + 1` elements (`pt_card_le`: `0`, or `(x, y)` with at most two `y` per `x`;
    an injection into `Option (ZMod p × Bool)`);
 2. the generator has order exactly `n`, so `n ∣ N := #E(F_p)` (Lagrange);
 3. when `2p + 1 < 3n` (numeric), `N = n·h` with `h ∈ {1, 2}`;
 4. `h = 2` would give a point of order 2 (Cauchy), i.e. a point `(x, 0)`, i.e. a root of `x³ + a x + b`
    (`noTwoTorsion_of_no_root`).  For `a = 0`, `p ≡ 1 (mod 3)` a root `x` of `x³ = -b` forces
    `(-b)^((p-1)/3) = x^(p-1) = 1` (Fermat): refuted by evaluating the framework's `modPow` (kernel, 256 squarings);
 5. hence `N = n` (`card_eq_n_of_count`) and `n • g = 0` for every point (`cofactor_one_of_count`).
Instantiated on the generated secp256k1 constants: `secp_card`, `secp_no_two_torsion`, `secpCofactorOne`.
-/
open WeierstrassCurve

namespace Btc.E2E
open Btc Btc.EC Btc.C01

/-! ## the generic counting argument -/
section Generic
variable {p : ℕ} [Fact p.Prime] {c : CurveGroup}

/-- a point is `0` or `(x, y)`; remember `x` and on which half of `0..p-1` the `y` lies -/
def ptCode : Pt p c → Option (ZMod p × Bool)
  | .zero => none
  | .some x y _ => some (x, decide (y.val * 2 < p))

/-- at most two `y` for each `x`, and they are opposite: the code is injective (`p` odd) -/
theorem ptCode_injective (hp2 : p ≠ 2) : Function.Injective (ptCode (p := p) (c := c)) := by
  have hodd : p % 2 = 1 := ((Fact.out : p.Prime).eq_two_or_odd).resolve_left hp2
  rintro (_ | ⟨x₁, y₁, h₁⟩) (_ | ⟨x₂, y₂, h₂⟩) h
  · rfl
  · simp [ptCode] at h
  · simp [ptCode] at h
  · simp only [ptCode, Option.some.injEq, Prod.mk.injEq, decide_eq_decide] at h
    obtain ⟨hx, hf⟩ := h
    subst hx
    have e1 := (aff_equation_iff _ _).mp h₁.1
    have e2 := (aff_equation_iff _ _).mp h₂.1
    have hm : (y₁ - y₂) * (y₁ + y₂) = 0 := by linear_combination e1 - e2
    rcases mul_eq_zero.mp hm with h | h
    · have : y₁ = y₂ := sub_eq_zero.mp h
      subst this; rfl
    · have hy : y₁ = -y₂ := eq_neg_of_add_eq_zero_left h
      by_cases h0 : y₂ = 0
      · subst h0
        have : y₁ = 0 := by simpa using hy
        subst this; rfl
      · exfalso
        subst hy
        rw [ZMod.neg_val, if_neg h0] at hf
        have hlt := ZMod.val_lt y₂
        have hpos : 0 < y₂.val := (ZMod.val_pos).mpr h0
        omega

theorem pt_finite (hp2 : p ≠ 2) : Finite (Pt p c) :=
  Finite.of_injective _ (ptCode_injective hp2)

/-- **at most `2p + 1` points** -/
theorem pt_card_le (hp2 : p ≠ 2) : Nat.card (Pt p c) ≤ 2 * p + 1 := by
  have h := Nat.card_le_card_of_injective _ (ptCode_injective (c := c) hp2)
  have e : Nat.card (Option (ZMod p × Bool)) = 2 * p + 1 := by
    rw [Nat.card_eq_fintype_card, Fintype.card_option, Fintype.card_prod, ZMod.card, Fintype.card_bool]
    omega
  rwa [e] at h

/-- a point of order 2 is `(x, 0)` with `x` a root of the cubic: no root, no 2-torsion -/
theorem noTwoTorsion_of_no_root (hp2 : p ≠ 2)
    (hroot : ∀ x : ZMod p, x ^ 3 + (c.a : ZMod p) * x + (c.b : ZMod p) ≠ 0) : NoTwoTorsion p c := by
  rintro (_ | ⟨x, y, h⟩) hP
  · rfl
  · exfalso
    have hy : y = 0 := by
      have hneg : Affine.Point.some x y h = -Affine.Point.some x y h := eq_neg_of_add_eq_zero_left hP
      rw [Affine.Point.neg_some, Affine.Point.some.injEq] at hneg
      have hyy : y = -y := by rw [← aff_negY (c := c) x y]; exact hneg.2
      by_contra h0
      exact ne_neg_self hp2 h0 hyy
    subst hy
    have e := (aff_equation_iff _ _).mp h.1
    exact hroot x (by linear_combination -e)

/-- for `a = 0` and `p = 3k + 1`: a root of `x³ + b` makes `-b` a cube, so `(-b)^k = 1` -/
theorem no_root_of_cubic_nonresidue (ha : (c.a : ZMod p) = 0) (hb : (c.b : ZMod p) ≠ 0) (k : ℕ)
    (hk : p = 3 * k + 1) (hpow : (-(c.b : ZMod p)) ^ k ≠ 1) :
    ∀ x : ZMod p, x ^ 3 + (c.a : ZMod p) * x + (c.b : ZMod p) ≠ 0 := by
  intro x hx
  rw [ha] at hx
  have hx3 : x ^ 3 = -(c.b : ZMod p) := by linear_combination hx
  have hx0 : x ≠ 0 := by
    rintro rfl
    apply hb
    linear_combination hx
  apply hpow
  rw [← hx3, ← pow_mul]
  have h := ZMod.pow_card_sub_one_eq_one hx0
  have e : p - 1 = 3 * k := by omega
  rwa [e] at h

end Generic

section Count
variable {p : ℕ} [Fact p.Prime] {C : Curve}

/-- the kernel-evaluable form of the cubic test: `a = 0`, `p = 3k + 1`, `pow(-b, k, p) ≠ 1`, `b ≢ 0` -/
theorem noTwoTorsion_of_cubic_test (K : CurveOk p C) (ha : C.a = 0) (hb : C.b % C.p ≠ 0) (k : ℕ)
    (hk : C.p = 3 * (k : ℤ) + 1) (hpow : modPow (-C.b) k C.p ≠ 1) : NoTwoTorsion p C.toCurveGroup := by
  have hC := K.hC
  have hp1 : 1 < p := (Fact.out : p.Prime).one_lt
  refine noTwoTorsion_of_no_root K.p_ne_two (no_root_of_cubic_nonresidue ?_ ?_ k ?_ ?_)
  · show ((C.a : ℤ) : ZMod p) = 0
    rw [ha]; simp
  · intro h0
    exact hb ((emod_eq_zero_iff (c := C.toCurveGroup) hC C.b).mpr h0)
  · have : (p : ℤ) = 3 * (k : ℤ) + 1 := by rw [← hC]; exact hk
    omega
  · intro h1
    apply hpow
    have hc : C.p = (p : ℤ) := hC
    rw [hc]
    have hr := modPow_range (p := p) (by omega) (-C.b) k
    refine eq_of_cast_eq hr ⟨by omega, by omega⟩ ?_
    rw [modPow_cast]
    push_cast
    exact h1

/-- the generator as a point of Mathlib's group has additive order exactly `n` -/
theorem addOrderOf_gen (K : CurveOk p C) : addOrderOf (absA p C.toCurveGroup C.G) = C.n.toNat := by
  have : Fact (Nat.Prime C.n.toNat) := ⟨K.n_prime⟩
  apply addOrderOf_eq_prime
  · have h := K.gen_order
    rwa [← Int.toNat_of_nonneg (le_of_lt K.n_pos), natCast_zsmul] at h
  · intro h0
    exact K.gen_ne ((absA_eq_zero_iff K.gen_valid).mp h0)

/-- **the point count**: `n ∣ N ≤ 2p + 1 < 3n` and no point of order 2 leave `N = n` -/
theorem card_eq_n_of_count (K : CurveOk p C) (hsize : 2 * p + 1 < 3 * C.n.toNat)
    (h2 : NoTwoTorsion p C.toCurveGroup) : Nat.card (Pt p C.toCurveGroup) = C.n.toNat := by
  have := pt_finite (c := C.toCurveGroup) K.p_ne_two
  have hle := pt_card_le (c := C.toCurveGroup) K.p_ne_two
  have hpos : 0 < Nat.card (Pt p C.toCurveGroup) := Nat.card_pos
  obtain ⟨h, hh⟩ : C.n.toNat ∣ Nat.card (Pt p C.toCurveGroup) := by
    rw [← addOrderOf_gen K]; exact addOrderOf_dvd_natCard _
  have hn : 0 < C.n.toNat := K.n_prime.pos
  have hlt : C.n.toNat * h < C.n.toNat * 3 := by rw [← hh]; omega
  have h3 : h < 3 := Nat.lt_of_mul_lt_mul_left hlt
  have h0 : h ≠ 0 := by rintro rfl; rw [hh] at hpos; simp at hpos
  have hne2 : h ≠ 2 := by
    rintro rfl
    have : Fact (Nat.Prime 2) := ⟨Nat.prime_two⟩
    obtain ⟨g, hg⟩ := exists_prime_addOrderOf_dvd_card' (G := Pt p C.toCurveGroup) 2 ⟨C.n.toNat, by rw [hh]; ring⟩
    have hgg : g + g = 0 := by
      have := addOrderOf_nsmul_eq_zero g
      rwa [hg, two_nsmul] at this
    have hg0 := h2 g hgg
    rw [hg0, addOrderOf_zero] at hg
    omega
  have : h = 1 := by omega
  rw [hh, this, mul_one]

/-- **cofactor one from the count**: every point is killed by `n` -/
theorem cofactor_one_of_count (K : CurveOk p C) (hsize : 2 * p + 1 < 3 * C.n.toNat)
    (h2 : NoTwoTorsion p C.toCurveGroup) : ∀ g : Pt p C.toCurveGroup, C.n • g = 0 := by
  intro g
  have := pt_finite (c := C.toCurveGroup) K.p_ne_two
  rw [← Int.toNat_of_nonneg (le_of_lt K.n_pos), natCast_zsmul, ← card_eq_n_of_count K hsize h2]
  exact card_nsmul_eq_zero'

end Count

/-! ## secp256k1 -/

/-- `(p - 1) / 3` for secp256k1's field size -/
def secp256k1_k : ℕ := (secp256k1_p - 1) / 3

theorem secp256k1_p_eq : secp256k1.p = 3 * (secp256k1_k : ℤ) + 1 := by decide +kernel

/-- `-7` is not a cube mod `p`: `pow(-7, (p-1)/3, p) ≠ 1`, the framework's square-and-multiply run by the kernel -/
theorem secp256k1_cubic_test : modPow (-secp256k1.b) secp256k1_k secp256k1.p ≠ 1 := by decide +kernel

theorem secp256k1_size : 2 * secp256k1_p + 1 < 3 * secp256k1.n.toNat := by decide +kernel

/-- **`y² = x³ + 7` over the secp256k1 field has no point of order 2** (`x³ = -7` has no solution) -/
theorem secp_no_two_torsion :
    @NoTwoTorsion secp256k1_p ⟨secp256k1_p_prime⟩ secp256k1.toCurveGroup :=
  noTwoTorsion_of_cubic_test secpOk (by decide +kernel) (by decide +kernel) secp256k1_k secp256k1_p_eq
    secp256k1_cubic_test

/-- **the curve `y² = x³ + 7` over the secp256k1 field has exactly `n` points** -/
theorem secp_card : Nat.card SecpGroup = secp256k1_n :=
  card_eq_n_of_count secpOk secp256k1_size secp_no_two_torsion

/-- **secp256k1 has cofactor one** — the assumption of the `…_secp256k1_raw` theorems, proved -/
theorem secpCofactorOne : SecpCofactorOne :=
  cofactor_one_of_count secpOk secp256k1_size secp_no_two_torsion

end Btc.E2E

#print axioms Btc.E2E.secpCofactorOne
#print axioms Btc.E2E.secp_card
