import Proofs.E2E.CofactorOne
import Proofs.E2E.C16Raw
/-
C16 — MuSig2 T1 (tweak invariant) and T4 (adaptor) over the RAW arithmetic `Btc.EC.ops C` (the instance the driver
executes) through C01's `OpsHom`, like T2/T3 in `C16Raw.lean`; BIP327's infinity special cases (`nonce_agg` of
cancelling nonces, final nonce at infinity); and, now that cofactor one is PROVED for secp256k1
(`Btc.E2E.secpCofactorOne`, Proofs/E2E/CofactorOne.lean), T1–T4 about `Btc.EC.ops secp256k1` with NO curve-level
hypothesis left.
-/
namespace Btc.C16.Raw
open Btc Btc.Py Btc.C16 Btc.C01

section
variable {α β : Type} {o₁ : GroupOps α} {o₂ : GroupOps β} {f : α → β} (h : OpsHom o₁ o₂ f)
variable (H : Bytes → Bytes → Bytes)
include h

theorem aggS_hom (psigs : List Bytes) (s : SessionCtx) : aggS o₁ H psigs s = aggS o₂ H psigs s := by
  have hv := sessionValues_hom h H s
  unfold aggS
  cases h0 : sessionValues o₁ H s with
  | error e => rw [h0] at hv; simp only [Except.map] at hv; rw [← hv]
  | ok v =>
    rw [h0] at hv; simp only [Except.map] at hv; rw [← hv]
    simp only [h.n, mapSv, ← gOf_hom h, h.x]

theorem partialSigAggAdaptor_hom (psigs : List Bytes) (s : SessionCtx) :
    partialSigAggAdaptor o₁ H psigs s = partialSigAggAdaptor o₂ H psigs s := by
  unfold partialSigAggAdaptor; rw [aggS_hom h H]

theorem adapt_hom (pre : Int × Int) (t : Int) (s : SessionCtx) : adapt o₁ H pre t s = adapt o₂ H pre t s := by
  have hv := sessionValues_hom h H s
  unfold adapt
  cases h0 : sessionValues o₁ H s with
  | error e => rw [h0] at hv; simp only [Except.map] at hv; rw [← hv]
  | ok v =>
    rw [h0] at hv; simp only [Except.map] at hv; rw [← hv]
    have hl : (o₁.liftX pre.1).isNone = (o₂.liftX pre.1).isNone := by
      rw [← h.liftX pre.1]; cases o₁.liftX pre.1 <;> rfl
    simp only [scalarOk_hom h, h.n, mapSv, ← evenY_hom h, hl]

theorem extractAdaptor_hom (sig pre : Int × Int) (s : SessionCtx) :
    extractAdaptor o₁ H sig pre s = extractAdaptor o₂ H sig pre s := by
  have hv := sessionValues_hom h H s
  unfold extractAdaptor
  cases h0 : sessionValues o₁ H s with
  | error e => rw [h0] at hv; simp only [Except.map] at hv; rw [← hv]
  | ok v =>
    rw [h0] at hv; simp only [Except.map] at hv; rw [← hv]
    simp only [h.n, mapSv, ← evenY_hom h]

end
end Btc.C16.Raw

/-! ## BIP327's infinity special cases, over a lawful instance -/
namespace Btc.C16
open Btc Btc.Py
section
variable {α G : Type} [AddCommGroup G] {o : GroupOps α} (L : Lawful o G) (H : Bytes → Bytes → Bytes)

include L in
/-- `nonce_agg` of honest nonces that CANCEL: a half whose secret nonces sum to `0 mod n` is written as the 33 zero
bytes (`infBytes`, BIP327's encoding of infinity in an aggregate nonce) — `nonce_agg` answers, it does not fail — and
`cpoint_ext`, which the session parses aggregate nonces with, reads each half back as the point it encodes. -/
theorem nonceAgg_cancelling (hp : o.p ≤ 256 ^ 32) (l : List Signer) (hl : ∀ t ∈ l, t.ok o) :
    ∃ S1 S2, nonceAgg o (l.map (Signer.pubNonce o)) = .ok (cbytesExt o S1 ++ cbytesExt o S2) ∧
      ((l.map Signer.k1).sum % o.n = 0 → cbytesExt o S1 = infBytes) ∧
      ((l.map Signer.k2).sum % o.n = 0 → cbytesExt o S2 = infBytes) ∧
      (∃ Q1, cpointExt o (cbytesExt o S1) = .ok Q1 ∧ L.abs Q1 = ((l.map Signer.k1).sum) • L.abs o.gen) ∧
      (∃ Q2, cpointExt o (cbytesExt o S2) = .ok Q2 ∧ L.abs Q2 = ((l.map Signer.k2).sum) • L.abs o.gen) := by
  obtain ⟨S1, S2, hna, hS1, hS2⟩ := nonceAgg_honest L hp l hl
  have hz : ∀ (S : α) (k : Int), L.abs S = k • L.abs o.gen → k % o.n = 0 → cbytesExt o S = infBytes := by
    intro S k hS hk
    have : L.abs S = 0 := by
      have e := L.toLawfulGroup.zsmul_mod k o.gen
      rw [hk, zero_smul] at e
      rw [hS]; exact e.symm
    unfold cbytesExt
    rw [(L.isZero_iff S).mpr this]; rfl
  refine ⟨S1, S2, hna, hz S1 _ hS1, hz S2 _ hS2, ?_, ?_⟩
  · obtain ⟨Q, hQ, hQa⟩ := cpointExt_cbytesExt L hp S1; exact ⟨Q, hQ, hQa.trans hS1⟩
  · obtain ⟨Q, hQ, hQa⟩ := cpointExt_cbytesExt L hp S2; exact ⟨Q, hQ, hQa.trans hS2⟩

/-- the final nonce at infinity: when `R₁ + b·R₂` is the identity `session_values` goes on with the generator in its
place (`R = G`), the challenge being computed on `x(G)` — BIP327 lets the session complete (T2 still holds for every
partial signature: `musig2_partial_sig_verifies` has no hypothesis on the nonce), only the aggregate is invalid. -/
theorem sessionValues_final_nonce_infinity {s : SessionCtx} {v : SessionValues α}
    (hv : sessionValues o H s = .ok v) :
    ∃ kc R1 R2, sessionPoints o H s = .ok (kc, R1, R2) ∧
      (o.isZero (o.add R1 (o.mul v.b R2)) = true → v.R = o.gen ∧ v.e = challenge o H (o.x o.gen) (o.x v.Q) s.msg) ∧
      (o.isZero (o.add R1 (o.mul v.b R2)) = false → v.R = o.add R1 (o.mul v.b R2)) := by
  obtain ⟨kc, R1, R2, hsp, -, -, -, -, hvR, hve, -, -, -⟩ := sessionValues_inv H hv
  refine ⟨kc, R1, R2, hsp, ?_, ?_⟩
  · intro hz
    have : v.R = o.gen := by rw [hvR]; unfold finalNonce; simp [hz]
    exact ⟨this, by rw [hve, this]⟩
  · intro hz; rw [hvR]; unfold finalNonce; simp [hz]

end
end Btc.C16

/-! ## T1 and T4 over `Btc.EC.ops C` under cofactor one -/
namespace Btc.C16.Raw
open Btc Btc.EC Btc.Py Btc.C16 Btc.C01
section
variable {p : ℕ} [Fact p.Prime] {C : Curve}

/-- **C16-T1 over the RAW arithmetic**: after `key_agg` and any list of plain / x-only tweaks, computed by `Btc.EC.ops C`,
`Q ≠ ∞` and `Q == gacc·Q₀ + tacc·G` (the executed `mult` / `add` / point equality), `Q₀` the untweaked aggregate. -/
theorem musig2_tweak_invariant_raw (K : CurveOk p C) (h34 : p % 4 = 3)
    (hcof : ∀ g : Pt p C.toCurveGroup, C.n • g = 0) (hΔ : (curveOf p C.toCurveGroup).toAffine.Δ ≠ 0)
    (H : Bytes → Bytes → Bytes) (pks : List Bytes) (tweaks : List (Bytes × Bool)) (c : KeyAggCtx Point)
    (hc : keyAggAndTweak (EC.ops C) H pks tweaks = .ok c) :
    ∃ c0, keyAgg (EC.ops C) H pks = .ok c0 ∧ (EC.ops C).isZero c.Q = false ∧
      (EC.ops C).eq c.Q ((EC.ops C).add ((EC.ops C).mul c.gacc c0.Q) ((EC.ops C).mul c.tacc (EC.ops C).gen)) = true := by
  have hom := opsSub_hom K h34 hcof hΔ
  let L := lawful_ec K h34
  have hk := keyAggAndTweak_hom hom H pks tweaks
  rw [hc] at hk
  cases h0 : keyAggAndTweak (opsSub K) H pks tweaks with
  | error e => rw [h0] at hk; simp [Except.map] at hk
  | ok c' =>
    rw [h0] at hk
    simp only [Except.map, Except.ok.injEq] at hk
    obtain ⟨c0', hc0', hz, hinv⟩ := keyAggAndTweak_invariant L H h0
    have hk0 := keyAgg_hom hom H pks
    rw [hc0'] at hk0
    simp only [Except.map] at hk0
    refine ⟨mapKc Subtype.val c0', hk0.symm, ?_, ?_⟩
    · rw [← hk]; simp only [mapKc]; rw [← hom.isZero]; exact hz
    · have he : (opsSub K).eq c'.Q ((opsSub K).add ((opsSub K).mul c'.gacc c0'.Q)
          ((opsSub K).mul c'.tacc (opsSub K).gen)) = true := by
        rw [L.eq_iff, L.abs_add, L.abs_mul, L.abs_mul]; exact hinv
      rw [hom.eq, hom.add, hom.mul, hom.mul, hom.gen] at he
      rw [← hk]; exact he

/-- **C16-T4 over the RAW arithmetic**: the adaptor session, all computed by `Btc.EC.ops C`. -/
theorem musig2_adaptor_completes_raw (K : CurveOk p C) (h34 : p % 4 = 3)
    (hcof : ∀ g : Pt p C.toCurveGroup, C.n • g = 0) (hΔ : (curveOf p C.toCurveGroup).toAffine.Δ ≠ 0)
    (H : Bytes → Bytes → Bytes) (hp : C.p ≤ 256 ^ 32) (hn : C.n ≤ 256 ^ 32)
    (l : List Signer) (hl : ∀ t ∈ l, t.ok (EC.ops C)) (tweaks : List (Bytes × Bool)) (msg an : Bytes)
    (t : ℤ) (ht0 : 0 < t) (ht1 : t < C.n)
    (han : nonceAgg (EC.ops C) (l.map (Signer.pubNonce (EC.ops C))) = .ok an)
    (v : SessionValues Point)
    (hv : sessionValues (EC.ops C) H
      (honestCtx (EC.ops C) l an tweaks msg (some (cbytes (EC.ops C) ((EC.ops C).mul t (EC.ops C).gen)))) = .ok v)
    (hR : (((l.map Signer.k1).sum + t) + v.b * (l.map Signer.k2).sum) % C.n ≠ 0)
    (sigs : List ℤ)
    (hs : List.Forall₂ (fun u σ => sign (EC.ops C) H u.k1 u.k2 (u.pk (EC.ops C)) u.d
      (honestCtx (EC.ops C) l an tweaks msg (some (cbytes (EC.ops C) ((EC.ops C).mul t (EC.ops C).gen)))) = .ok σ)
      l sigs) :
    ∃ pre sig,
      partialSigAggAdaptor (EC.ops C) H (sigs.map sBytes)
        (honestCtx (EC.ops C) l an tweaks msg (some (cbytes (EC.ops C) ((EC.ops C).mul t (EC.ops C).gen)))) = .ok pre ∧
      adapt (EC.ops C) H pre t
        (honestCtx (EC.ops C) l an tweaks msg (some (cbytes (EC.ops C) ((EC.ops C).mul t (EC.ops C).gen)))) = .ok sig ∧
      bip340Verify (EC.ops C) H ((EC.ops C).x v.Q) msg sig.1 sig.2 = true ∧
      extractAdaptor (EC.ops C) H sig pre
        (honestCtx (EC.ops C) l an tweaks msg (some (cbytes (EC.ops C) ((EC.ops C).mul t (EC.ops C).gen)))) = .ok t := by
  have hom := opsSub_hom K h34 hcof hΔ
  have had : cbytes (opsSub K) ((opsSub K).mul t (opsSub K).gen) = cbytes (EC.ops C) ((EC.ops C).mul t (EC.ops C).gen) := by
    rw [cbytes_hom hom, hom.mul, hom.gen]
  have hctx := honestCtx_hom hom l an tweaks msg (some (cbytes (EC.ops C) ((EC.ops C).mul t (EC.ops C).gen)))
  have hpn : l.map (Signer.pubNonce (opsSub K)) = l.map (Signer.pubNonce (EC.ops C)) :=
    List.map_congr_left (fun t _ => signerPubNonce_hom hom t)
  have han' : nonceAgg (opsSub K) (l.map (Signer.pubNonce (opsSub K))) = .ok an := by
    rw [nonceAgg_hom hom, hpn]; exact han
  have hsv := sessionValues_hom hom H
    (honestCtx (opsSub K) l an tweaks msg (some (cbytes (EC.ops C) ((EC.ops C).mul t (EC.ops C).gen))))
  rw [hctx, hv] at hsv
  cases h0 : sessionValues (opsSub K) H
      (honestCtx (EC.ops C) l an tweaks msg (some (cbytes (EC.ops C) ((EC.ops C).mul t (EC.ops C).gen)))) with
  | error e => rw [h0] at hsv; simp [Except.map] at hsv
  | ok v' =>
    rw [h0] at hsv
    simp only [Except.map, Except.ok.injEq] at hsv
    have hvb : v'.b = v.b := by rw [← hsv]; rfl
    have hvQ : (EC.ops C).x v.Q = (opsSub K).x v'.Q := by rw [← hsv]; rfl
    have hl' : ∀ t ∈ l, t.ok (opsSub K) := hl
    have hs' : List.Forall₂ (fun u σ => sign (opsSub K) H u.k1 u.k2 (u.pk (opsSub K)) u.d
        (honestCtx (opsSub K) l an tweaks msg (some (cbytes (opsSub K) ((opsSub K).mul t (opsSub K).gen)))) = .ok σ)
        l sigs := by
      refine hs.imp (fun u σ hu => ?_)
      rw [sign_hom hom H, signerPk_hom hom, had, hctx]; exact hu
    obtain ⟨pre, sig, h1, h2, h3, h4⟩ := adaptor_completes (lawful_ec K h34) H hp hn l hl' tweaks msg an t ht0 ht1 han'
      (v := v') (by rw [had, hctx]; exact h0) (by rw [hvb]; exact hR) sigs hs'
    rw [had, hctx] at h1 h2 h4
    refine ⟨pre, sig, ?_, ?_, ?_, ?_⟩
    · rw [← partialSigAggAdaptor_hom hom H]; exact h1
    · rw [← adapt_hom hom H]; exact h2
    · rw [hvQ, ← bip340Verify_hom hom H]; exact h3
    · rw [← extractAdaptor_hom hom H]; exact h4

end
end Btc.C16.Raw

/-! ## secp256k1: NO curve-level hypothesis (cofactor one proved: `Btc.E2E.secpCofactorOne`) -/
namespace Btc.C16.Raw
open Btc Btc.EC Btc.Py Btc.C16 Btc.C01 Btc.E2E

/-- the lawful carrier and the raw arithmetic of secp256k1 run alike, `lift_x` included -/
theorem secpHom : OpsHom secpOps (EC.ops secp256k1) Subtype.val :=
  @opsSub_hom secp256k1_p ⟨secp256k1_p_prime⟩ secp256k1 secpOk secp256k1_h34 secpCofactorOne secp256k1_delta

theorem musig2_tweak_invariant_secp256k1 (H : Bytes → Bytes → Bytes) (pks : List Bytes)
    (tweaks : List (Bytes × Bool)) (c : KeyAggCtx Point)
    (hc : keyAggAndTweak (EC.ops secp256k1) H pks tweaks = .ok c) :
    ∃ c0, keyAgg (EC.ops secp256k1) H pks = .ok c0 ∧ (EC.ops secp256k1).isZero c.Q = false ∧
      (EC.ops secp256k1).eq c.Q ((EC.ops secp256k1).add ((EC.ops secp256k1).mul c.gacc c0.Q)
        ((EC.ops secp256k1).mul c.tacc (EC.ops secp256k1).gen)) = true :=
  @musig2_tweak_invariant_raw secp256k1_p ⟨secp256k1_p_prime⟩ secp256k1 secpOk secp256k1_h34 secpCofactorOne
    secp256k1_delta H pks tweaks c hc

theorem musig2_partial_sig_verifies_secp256k1_uncond
    (H : Bytes → Bytes → Bytes) (s : SessionCtx) (d k1 k2 σ : ℤ)
    (hs : sign (EC.ops secp256k1) H k1 k2 (individualPubKey (EC.ops secp256k1) d) d s = .ok σ) :
    partialSigVerify (EC.ops secp256k1) H (sBytes σ)
      (cbytes (EC.ops secp256k1) ((EC.ops secp256k1).mul k1 (EC.ops secp256k1).gen) ++
        cbytes (EC.ops secp256k1) ((EC.ops secp256k1).mul k2 (EC.ops secp256k1).gen))
      (individualPubKey (EC.ops secp256k1) d) s = .ok true :=
  musig2_partial_sig_verifies_secp256k1_raw secpCofactorOne H s d k1 k2 σ hs

theorem musig2_aggregate_verifies_secp256k1_uncond
    (H : Bytes → Bytes → Bytes) (l : List Signer) (hl : ∀ t ∈ l, t.ok (EC.ops secp256k1))
    (tweaks : List (Bytes × Bool)) (msg an : Bytes)
    (han : nonceAgg (EC.ops secp256k1) (l.map (Signer.pubNonce (EC.ops secp256k1))) = .ok an)
    (v : SessionValues Point)
    (hv : sessionValues (EC.ops secp256k1) H (honestCtx (EC.ops secp256k1) l an tweaks msg none) = .ok v)
    (hR : ((l.map Signer.k1).sum + v.b * (l.map Signer.k2).sum) % secp256k1.n ≠ 0)
    (sigs : List ℤ)
    (hs : List.Forall₂ (fun t σ => sign (EC.ops secp256k1) H t.k1 t.k2 (t.pk (EC.ops secp256k1)) t.d
      (honestCtx (EC.ops secp256k1) l an tweaks msg none) = .ok σ) l sigs) :
    ∃ r sg, partialSigAgg (EC.ops secp256k1) H (sigs.map sBytes)
        (honestCtx (EC.ops secp256k1) l an tweaks msg none) = .ok (r, sg) ∧
      bip340Verify (EC.ops secp256k1) H ((EC.ops secp256k1).x v.Q) msg r sg = true :=
  musig2_aggregate_verifies_secp256k1_raw secpCofactorOne H l hl tweaks msg an han v hv hR sigs hs

theorem musig2_adaptor_completes_secp256k1 (H : Bytes → Bytes → Bytes)
    (l : List Signer) (hl : ∀ t ∈ l, t.ok (EC.ops secp256k1)) (tweaks : List (Bytes × Bool)) (msg an : Bytes)
    (t : ℤ) (ht0 : 0 < t) (ht1 : t < secp256k1.n)
    (han : nonceAgg (EC.ops secp256k1) (l.map (Signer.pubNonce (EC.ops secp256k1))) = .ok an)
    (v : SessionValues Point)
    (hv : sessionValues (EC.ops secp256k1) H (honestCtx (EC.ops secp256k1) l an tweaks msg
      (some (cbytes (EC.ops secp256k1) ((EC.ops secp256k1).mul t (EC.ops secp256k1).gen)))) = .ok v)
    (hR : (((l.map Signer.k1).sum + t) + v.b * (l.map Signer.k2).sum) % secp256k1.n ≠ 0)
    (sigs : List ℤ)
    (hs : List.Forall₂ (fun u σ => sign (EC.ops secp256k1) H u.k1 u.k2 (u.pk (EC.ops secp256k1)) u.d
      (honestCtx (EC.ops secp256k1) l an tweaks msg
        (some (cbytes (EC.ops secp256k1) ((EC.ops secp256k1).mul t (EC.ops secp256k1).gen)))) = .ok σ) l sigs) :
    ∃ pre sig,
      partialSigAggAdaptor (EC.ops secp256k1) H (sigs.map sBytes) (honestCtx (EC.ops secp256k1) l an tweaks msg
        (some (cbytes (EC.ops secp256k1) ((EC.ops secp256k1).mul t (EC.ops secp256k1).gen)))) = .ok pre ∧
      adapt (EC.ops secp256k1) H pre t (honestCtx (EC.ops secp256k1) l an tweaks msg
        (some (cbytes (EC.ops secp256k1) ((EC.ops secp256k1).mul t (EC.ops secp256k1).gen)))) = .ok sig ∧
      bip340Verify (EC.ops secp256k1) H ((EC.ops secp256k1).x v.Q) msg sig.1 sig.2 = true ∧
      extractAdaptor (EC.ops secp256k1) H sig pre (honestCtx (EC.ops secp256k1) l an tweaks msg
        (some (cbytes (EC.ops secp256k1) ((EC.ops secp256k1).mul t (EC.ops secp256k1).gen)))) = .ok t :=
  @musig2_adaptor_completes_raw secp256k1_p ⟨secp256k1_p_prime⟩ secp256k1 secpOk secp256k1_h34 secpCofactorOne
    secp256k1_delta H secp_sizes.1 secp_sizes.2 l hl tweaks msg an t ht0 ht1 han v hv hR sigs hs

end Btc.C16.Raw
