import Proofs.E2E.C02
import Proofs.E2E.C03
import Proofs.C10.Checker
/-
End-to-end corollaries for C10: the composed signature checker of `Btc.Spend.secpCrypto` -- the EXECUTED instance
(`Btc.EC.ops secp256k1`, SHA-256 / RIPEMD-160 / SHA-1, BIP340's tagged hash, C12's `point_from_octets` as the key reader:
what `drv_c10` runs against btclib's engine) -- accepts what `sign` produces when run over that same arithmetic.
No `Lawful` hypothesis: C02-T1 / C03-T1 on `Btc.EC.ops secp256k1` are `ecdsa_sign_verifies_secp256k1` /
`sign_verifies_secp256k1` (C01 capstone; primality of p and n by Pratt certificates).
-/
namespace Btc.E2E
open Btc Btc.EC Btc.Spend Btc.Sighash
open Btc.Script.Core (SigVersion)

/-- ECDSA on secp256k1, executed arithmetic: DER(`_sign_recoverable_`(challenge of the digest the engine recomputes, q, k,
    low-s)) ‖ hash-type byte passes the composed `CheckECDSASignature` for octets `pk` that read as `q·G`. -/
theorem sign_passes_checkECDSA_secp256k1 (cx : TxCtx) (sc : Bytes) (sv : SigVersion) (ht : Nat) (hht : ht < 256)
    {q k r s kid : ℤ} (hk : 0 < k ∧ k < secp256k1.n) (pk : Bytes)
    (hp : secpParsePub pk = some ((EC.ops secp256k1).mul q secp256k1.G))
    (hsign : Ecdsa.signRecoverable (EC.ops secp256k1)
      (Rfc6979.challenge secp256k1.n (engineEcdsaDigest secpCrypto cx sc sv ht)) q k true = .ok (r, s, kid))
    (der : Bytes) (hder : Der.serialize r s = .ok der) (hmax : der.length ≤ Gen.VarInt.MAX_SIZE) :
    checkECDSA secpCrypto cx (der ++ [UInt8.ofNat ht]) pk sc sv = .ok true := by
  obtain ⟨hv, hlow⟩ := ecdsa_sign_verifies_secp256k1 hk hsign
  exact verified_passes_checkECDSA secpCrypto cx sc sv ht hht pk _ hp hv (hlow rfl) der hder hmax

/-- BIP340 on secp256k1, executed arithmetic: the 64 bytes of `ssa.sign_` (message the engine recomputes, key q), with the
    hash-type byte unless DEFAULT, pass the composed `CheckSchnorrSignature` for the 32-byte x-only key of `q·G`. -/
theorem sign_passes_checkSchnorr_secp256k1 (cx : TxCtx) (sv : SigVersion) (ht pos : Nat) (hht : ht < 256)
    (hdef : bip341Defined cx.tx cx.nIn cx.spent ht = true)
    (fuel : Nat) (q : ℤ) (aux : Bytes) (sg : Schnorr.Sig)
    (hsign : Schnorr.sign (EC.ops secp256k1) bip340Params fuel (engineTapDigest secpCrypto cx sv ht pos) q aux = .ok sg)
    (sig64 : Bytes) (hser : Schnorr.serialize (EC.ops secp256k1) bip340Params sg = .ok sig64)
    (pubkey : Bytes)
    (hpk : ((ofBE pubkey : Nat) : ℤ) = (EC.ops secp256k1).x ((EC.ops secp256k1).mul q secp256k1.G)) :
    checkSchnorr secpCrypto cx (sig64 ++ (if ht = 0 then [] else [UInt8.ofNat ht])) pubkey sv pos = none :=
  verified_passes_checkSchnorr secpCrypto rfl rfl secp_sizes.1 secp_sizes.2.1 cx sv ht pos hht hdef _ sg
    (sign_verifies_secp256k1 bip340Params fuel _ q aux sg hsign) sig64 hser pubkey hpk

end Btc.E2E
