import Proofs.E2E.Basic
import Proofs.C02.Ecdsa
/-
End-to-end corollaries for C02 (ECDSA): the theorems of `Props/C02.lean`, whose hypothesis `L : Lawful o G` is a named
assumption there, instantiated with the PROVED `lawful_ec` — so they speak about `Btc.EC.ops C` ITSELF, the raw integer
pairs the driver computes with and the correspondence ties to btclib.  Hypotheses left: `CurveOk p C` (p prime ≠ 2, n an
odd prime, generator reduced, on the curve, of order n) and `p ≡ 3 (mod 4)` (only because `Lawful` bundles `lift_x`).
`sign` / `verify` do not call `lift_x`: their runs over `opsSub K` ARE runs over `Btc.EC.ops C` (`rfl`).  `recover` calls
it once; what `opsSub K` recovers, `Btc.EC.ops C` recovers (`recover_opsSub`).
-/
namespace Btc.E2E
open Btc Btc.EC Btc.C01 Btc.Ecdsa

section
variable {p : ℕ} [Fact p.Prime] {C : Curve}

theorem signRecoverable_opsSub (K : CurveOk p C) (c q k : ℤ) (lowerS : Bool) :
    signRecoverable (opsSub K) c q k lowerS = signRecoverable (EC.ops C) c q k lowerS := rfl

theorem verify_opsSub (K : CurveOk p C) (c : ℤ) (P : SubPt p C) (r s : ℤ) :
    Ecdsa.verify (opsSub K) c P r s = Ecdsa.verify (EC.ops C) c P.1 r s := rfl

theorem verifyCore_opsSub (K : CurveOk p C) (c : ℤ) (P : SubPt p C) (r s : ℤ) (l : Bool) :
    verifyCore (opsSub K) c P r s l = verifyCore (EC.ops C) c P.1 r s l := rfl

theorem opsSub_n (K : CurveOk p C) : (opsSub K).n = C.n := rfl
theorem opsSub_p (K : CurveOk p C) : (opsSub K).p = C.p := rfl
theorem ops_n : (EC.ops C).n = C.n := rfl
theorem ops_p : (EC.ops C).p = C.p := rfl

/-- what `recover` answers over `opsSub K`, it answers over `Btc.EC.ops C` (same pair) -/
theorem recover_opsSub (K : CurveOk p C) (primeOrder : Bool) (kid c r s : ℤ) (lowerS : Bool) (Q : SubPt p C)
    (h : recover (opsSub K) primeOrder kid c r s lowerS = .ok Q) :
    recover (EC.ops C) primeOrder kid c r s lowerS = .ok Q.1 := by
  unfold recover at h ⊢
  generalize hn : (opsSub K).n = n at h
  generalize hq : (opsSub K).p = q at h
  rw [show (EC.ops C).n = n from hn, show (EC.ops C).p = q from hq]
  by_cases h1 : lowerS = true ∧ s > n / 2
  · rw [ite_pos' h1] at h; cases h
  rw [ite_neg' h1] at h ⊢
  by_cases h2 : primeOrder = true ∧ ¬(0 ≤ r + kid / 2 * n ∧ r + kid / 2 * n < q)
  · rw [ite_pos' h2] at h; cases h
  simp only [] at h ⊢
  rw [ite_neg' h2] at h ⊢
  cases hr1 : modInv r n with
  | none => simp only [hr1] at h; cases h
  | some r1 =>
  simp only [hr1] at h ⊢
  generalize (if primeOrder = true then r + kid / 2 * n else (r + kid / 2 * n) % q) = xK at h ⊢
  cases hKe : (opsSub K).liftX xK with
  | none => simp only [hKe] at h; cases h
  | some Ke =>
  simp only [hKe, opsSub_liftX K hKe] at h ⊢
  have hQ1 : ((opsSub K).dmul (r1 * s % n) (if kid % 2 = 1 then (opsSub K).neg Ke else Ke) (-r1 * c % n)
      (opsSub K).gen).1 = (EC.ops C).dmul (r1 * s % n) (if kid % 2 = 1 then (EC.ops C).neg Ke.1 else Ke.1)
      (-r1 * c % n) (EC.ops C).gen := by split <;> rfl
  rw [← hQ1]
  generalize (opsSub K).dmul (r1 * s % n) (if kid % 2 = 1 then (opsSub K).neg Ke else Ke) (-r1 * c % n)
      (opsSub K).gen = Qs at h ⊢
  rw [show (opsSub K).isZero Qs = (EC.ops C).isZero Qs.1 from rfl, verifyCore_opsSub] at h
  by_cases hz : (EC.ops C).isZero Qs.1 = true
  · rw [ite_pos' hz] at h; cases h
  rw [ite_neg' hz] at h ⊢
  by_cases hpo : primeOrder = true
  · rw [ite_pos' hpo] at h ⊢; cases h; rfl
  rw [ite_neg' hpo] at h ⊢
  cases hv : verifyCore (EC.ops C) c Qs.1 r s false with
  | error e => simp only [hv] at h; cases h
  | ok u => simp only [hv] at h ⊢; cases h; rfl

/-- **C02-T1 on btclib's arithmetic**: whatever `_sign_recoverable_` returns when run over `Btc.EC.ops C` is accepted
by the verifier run over `Btc.EC.ops C` under the public key `mult q G` (and is low-s on request) -/
theorem ecdsa_sign_verifies_ec (K : CurveOk p C) (h34 : p % 4 = 3) {c q k : ℤ} {lowerS : Bool} {r s kid : ℤ}
    (hk : 0 < k ∧ k < C.n) (h : signRecoverable (EC.ops C) c q k lowerS = .ok (r, s, kid)) :
    Ecdsa.verify (EC.ops C) c ((EC.ops C).mul q C.G) r s = true ∧ (lowerS = true → s ≤ C.n / 2) := by
  have L := lawful_ec K h34
  exact sign_verifies L (c := c) (q := q) (k := k) (lowerS := lowerS) (r := r) (s := s) (kid := kid) hk
    ((opsSub K).mul q (opsSub K).gen) (L.abs_mul q _) h

/-- **C02-T2 on btclib's arithmetic**: on every reduced valid pair `Q` of the `n`-torsion and all integers `c, r, s`,
the verifier run over `Btc.EC.ops C` answers `true` exactly when the SEC 1 relation holds in Mathlib's point group of the
curve over `ZMod p` (`absSub`: the point a pair denotes) -/
theorem ecdsa_verify_iff_sec1_ec (K : CurveOk p C) (h34 : p % 4 = 3) (c : ℤ) (Q : SubPt p C) (r s : ℤ) :
    Ecdsa.verify (EC.ops C) c Q.1 r s = true ↔ SEC1 (lawful_ec K h34) c Q r s :=
  verify_iff_SEC1 (lawful_ec K h34) c Q r s

/-- **C02-T3 on btclib's arithmetic**: with the `key_id` signing returned, `_recover_pub_key_` run over `Btc.EC.ops C`
answers the signer's key: a pair the code's `==` identifies with `mult q G` -/
theorem ecdsa_recover_signer_ec (K : CurveOk p C) (h34 : p % 4 = 3) {c q k : ℤ} {lowerS : Bool} {r s kid : ℤ}
    (hk : 0 < k ∧ k < C.n) (hq : 0 < q ∧ q < C.n)
    (h : signRecoverable (EC.ops C) c q k lowerS = .ok (r, s, kid))
    (primeOrder lowerS' : Bool) (hl' : lowerS' = true → lowerS = true) :
    ∃ Q', recover (EC.ops C) primeOrder kid c r s lowerS' = .ok Q' ∧
      (EC.ops C).eq Q' ((EC.ops C).mul q C.G) = true := by
  have L := lawful_ec K h34
  obtain ⟨Q', hQ', habs⟩ := recover_signer L (yParity L) (c := c) (q := q) (k := k) (lowerS := lowerS) (r := r)
    (s := s) (kid := kid) hk hq h primeOrder lowerS' hl'
  refine ⟨Q'.1, recover_opsSub K _ _ _ _ _ _ _ hQ', ?_⟩
  have : (opsSub K).eq Q' ((opsSub K).mul q (opsSub K).gen) = true :=
    (L.eq_iff _ _).mpr (by rw [habs, L.abs_mul])
  exact this

end

/-! ## secp256k1: no assumption (primality of `p`, `n`: `secp256k1_p_prime`, `secp256k1_n_prime`, Pratt certificates) -/

theorem ecdsa_sign_verifies_secp256k1
    {c q k : ℤ} {lowerS : Bool} {r s kid : ℤ} (hk : 0 < k ∧ k < secp256k1.n)
    (h : signRecoverable (EC.ops secp256k1) c q k lowerS = .ok (r, s, kid)) :
    Ecdsa.verify (EC.ops secp256k1) c ((EC.ops secp256k1).mul q secp256k1.G) r s = true ∧
      (lowerS = true → s ≤ secp256k1.n / 2) :=
  @ecdsa_sign_verifies_ec secp256k1_p ⟨secp256k1_p_prime⟩ secp256k1 secpOk secp256k1_h34 c q k lowerS r s kid hk h

theorem ecdsa_verify_iff_sec1_secp256k1
    (c : ℤ) (Q : SecpPt) (r s : ℤ) :
    Ecdsa.verify (EC.ops secp256k1) c Q.1 r s = true ↔ SEC1 secpLawful c Q r s :=
  @ecdsa_verify_iff_sec1_ec secp256k1_p ⟨secp256k1_p_prime⟩ secp256k1 secpOk secp256k1_h34 c Q r s

theorem ecdsa_recover_signer_secp256k1
    {c q k : ℤ} {lowerS : Bool} {r s kid : ℤ}
    (hk : 0 < k ∧ k < secp256k1.n) (hq : 0 < q ∧ q < secp256k1.n)
    (h : signRecoverable (EC.ops secp256k1) c q k lowerS = .ok (r, s, kid))
    (primeOrder lowerS' : Bool) (hl' : lowerS' = true → lowerS = true) :
    ∃ Q', recover (EC.ops secp256k1) primeOrder kid c r s lowerS' = .ok Q' ∧
      (EC.ops secp256k1).eq Q' ((EC.ops secp256k1).mul q secp256k1.G) = true :=
  @ecdsa_recover_signer_ec secp256k1_p ⟨secp256k1_p_prime⟩ secp256k1 secpOk secp256k1_h34 c q k lowerS r s kid hk hq h
    primeOrder lowerS' hl'

/-! ## the toy curve: an actual run, no hypothesis at all -/

theorem toy_ecdsa_sign : signRecoverable (EC.ops toyC) 3 5 2 true = .ok (7, 12, 0) := by decide +kernel

theorem toy_ecdsa_verifies : Ecdsa.verify (EC.ops toyC) 3 ((EC.ops toyC).mul 5 toyC.G) 7 12 = true :=
  (ecdsa_sign_verifies_ec toyOk (by decide) (by decide) toy_ecdsa_sign).1

theorem toy_ecdsa_recovers : ∃ Q', recover (EC.ops toyC) true 0 3 7 12 true = .ok Q' ∧
    (EC.ops toyC).eq Q' ((EC.ops toyC).mul 5 toyC.G) = true :=
  ecdsa_recover_signer_ec toyOk (by decide) (by decide) (by decide) toy_ecdsa_sign true true (fun h => h)

end Btc.E2E
