import Proofs.E2E.Basic
import Proofs.C02.Ecdsa
import Proofs.C02.Group
/-
End-to-end corollaries for C02 (ECDSA): the theorems of `Props/C02.lean`, whose hypothesis `L : Lawful o G` is a named
assumption there, instantiated with the PROVED `lawful_ec` — so they speak about `Btc.EC.ops C` ITSELF, the raw integer
pairs the driver computes with and the correspondence ties to btclib.  Hypotheses left: `CurveOk p C` (p prime ≠ 2, n an
odd prime, generator reduced, on the curve, of order n) and `p ≡ 3 (mod 4)` for the recovery theorems only (`lift_x`); sign / verify go through `lawfulGroup_ec` (no such hypothesis).
`sign` / `verify` do not call `lift_x`: their runs over `opsSub K` ARE runs over `Btc.EC.ops C` (`rfl`).  `recover` calls
it once; what `opsSub K` recovers, `Btc.EC.ops C` recovers (`recover_opsSub`).
-/
namespace Btc.E2E
open Btc Btc.EC Btc.C01 Btc.Ecdsa

section
variable {p : ℕ} [Fact p.Prime] {C : Curve}

theorem signRecoverable_opsSub (K : CurveOk p C) (c q k : ℤ) (lowerS : Bool) :
    signRecoverable (opsSub K) c q k lowerS = signRecoverable (EC.ops C) c q k lowerS := rfl

theorem verify_opsSub (K : CurveOk p C) (c : ℤ) (P : SubPt p C) (r s : ℤ) :
    Ecdsa.verify (opsSub K) c P r s = Ecdsa.verify (EC.ops C) c P.1 r s := rfl

theorem verifyCore_opsSub (K : CurveOk p C) (c : ℤ) (P : SubPt p C) (r s : ℤ) (l : Bool) :
    verifyCore (opsSub K) c P r s l = verifyCore (EC.ops C) c P.1 r s l := rfl

theorem opsSub_n (K : CurveOk p C) : (opsSub K).n = C.n := rfl
theorem opsSub_p (K : CurveOk p C) : (opsSub K).p = C.p := rfl
theorem ops_n : (EC.ops C).n = C.n := rfl
theorem ops_p : (EC.ops C).p = C.p := rfl

/-- what `recover` answers over `opsSub K`, it answers over `Btc.EC.ops C` (same pair) -/
theorem recover_opsSub (K : CurveOk p C) (primeOrder : Bool) (kid c r s : ℤ) (lowerS : Bool) (Q : SubPt p C)
    (h : recover (opsSub K) primeOrder kid c r s lowerS = .ok Q) :
    recover (EC.ops C) primeOrder kid c r s lowerS = .ok Q.1 := by
  unfold recover at h ⊢
  generalize hn : (opsSub K).n = n at h
  generalize hq : (opsSub K).p = q at h
  rw [show (EC.ops C).n = n from hn, show (EC.ops C).p = q from hq]
  by_cases h1 : lowerS = true ∧ s > n / 2
  · rw [ite_pos' h1] at h; cases h
  rw [ite_neg' h1] at h ⊢
  by_cases h2 : primeOrder = true ∧ ¬(0 ≤ r + kid / 2 * n ∧ r + kid / 2 * n < q)
  · rw [ite_pos' h2] at h; cases h
  simp only [] at h ⊢
  rw [ite_neg' h2] at h ⊢
  cases hr1 : modInv r n with
  | none => simp only [hr1] at h; cases h
  | some r1 =>
  simp only [hr1] at h ⊢
  generalize (if primeOrder = true then r + kid / 2 * n else (r + kid / 2 * n) % q) = xK at h ⊢
  cases hKe : (opsSub K).liftX xK with
  | none => simp only [hKe] at h; cases h
  | some Ke =>
  simp only [hKe, opsSub_liftX K hKe] at h ⊢
  have hQ1 : ((opsSub K).dmul (r1 * s % n) (if kid % 2 = 1 then (opsSub K).neg Ke else Ke) (-r1 * c % n)
      (opsSub K).gen).1 = (EC.ops C).dmul (r1 * s % n) (if kid % 2 = 1 then (EC.ops C).neg Ke.1 else Ke.1)
      (-r1 * c % n) (EC.ops C).gen := by split <;> rfl
  rw [← hQ1]
  generalize (opsSub K).dmul (r1 * s % n) (if kid % 2 = 1 then (opsSub K).neg Ke else Ke) (-r1 * c % n)
      (opsSub K).gen = Qs at h ⊢
  rw [show (opsSub K).isZero Qs = (EC.ops C).isZero Qs.1 from rfl, verifyCore_opsSub] at h
  by_cases hz : (EC.ops C).isZero Qs.1 = true
  · rw [ite_pos' hz] at h; cases h
  rw [ite_neg' hz] at h ⊢
  by_cases hpo : primeOrder = true
  · rw [ite_pos' hpo] at h ⊢; cases h; rfl
  rw [ite_neg' hpo] at h ⊢
  cases hv : verifyCore (EC.ops C) c Qs.1 r s false with
  | error e => simp only [hv] at h; cases h
  | ok u => simp only [hv] at h ⊢; cases h; rfl

/-- **C02-T1 on btclib's arithmetic**: whatever `_sign_recoverable_` returns when run over `Btc.EC.ops C` is accepted
by the verifier run over `Btc.EC.ops C` under the public key `mult q G` (and is low-s on request) -/
theorem ecdsa_sign_verifies_ec (K : CurveOk p C) {c q k : ℤ} {lowerS : Bool} {r s kid : ℤ}
    (hk : 0 < k ∧ k < C.n) (h : signRecoverable (EC.ops C) c q k lowerS = .ok (r, s, kid)) :
    Ecdsa.verify (EC.ops C) c ((EC.ops C).mul q C.G) r s = true ∧ (lowerS = true → s ≤ C.n / 2) := by
  have L := lawfulGroup_ec K
  exact Grp.sign_verifies L (c := c) (q := q) (k := k) (lowerS := lowerS) (r := r) (s := s) (kid := kid) hk
    ((opsSub K).mul q (opsSub K).gen) (L.abs_mul q _) h

/-- **C02-T2 on btclib's arithmetic**: on every reduced valid pair `Q` of the `n`-torsion and all integers `c, r, s`,
the verifier run over `Btc.EC.ops C` answers `true` exactly when the SEC 1 relation holds in Mathlib's point group of the
curve over `ZMod p` (`absSub`: the point a pair denotes) -/
theorem ecdsa_verify_iff_sec1_ec (K : CurveOk p C) (c : ℤ) (Q : SubPt p C) (r s : ℤ) :
    Ecdsa.verify (EC.ops C) c Q.1 r s = true ↔ Grp.SEC1 (lawfulGroup_ec K) c Q r s :=
  Grp.verify_iff_SEC1 (lawfulGroup_ec K) c Q r s

/-- **C02-T3 on btclib's arithmetic**: with the `key_id` signing returned, `_recover_pub_key_` run over `Btc.EC.ops C`
answers the signer's key: a pair the code's `==` identifies with `mult q G` -/
theorem ecdsa_recover_signer_ec (K : CurveOk p C) (h34 : p % 4 = 3) {c q k : ℤ} {lowerS : Bool} {r s kid : ℤ}
    (hk : 0 < k ∧ k < C.n) (hq : 0 < q ∧ q < C.n)
    (h : signRecoverable (EC.ops C) c q k lowerS = .ok (r, s, kid))
    (primeOrder lowerS' : Bool) (hl' : lowerS' = true → lowerS = true) :
    ∃ Q', recover (EC.ops C) primeOrder kid c r s lowerS' = .ok Q' ∧
      (EC.ops C).eq Q' ((EC.ops C).mul q C.G) = true := by
  have L := lawful_ec K h34
  obtain ⟨Q', hQ', habs⟩ := recover_signer L (yParity L) (c := c) (q := q) (k := k) (lowerS := lowerS) (r := r)
    (s := s) (kid := kid) hk hq h primeOrder lowerS' hl'
  refine ⟨Q'.1, recover_opsSub K _ _ _ _ _ _ _ hQ', ?_⟩
  have : (opsSub K).eq Q' ((opsSub K).mul q (opsSub K).gen) = true :=
    (L.eq_iff _ _).mpr (by rw [habs, L.abs_mul])
  exact this

end

/-! ## secp256k1: no assumption (primality of `p`, `n`: `secp256k1_p_prime`, `secp256k1_n_prime`, Pratt certificates) -/

theorem ecdsa_sign_verifies_secp256k1
    {c q k : ℤ} {lowerS : Bool} {r s kid : ℤ} (hk : 0 < k ∧ k < secp256k1.n)
    (h : signRecoverable (EC.ops secp256k1) c q k lowerS = .ok (r, s, kid)) :
    Ecdsa.verify (EC.ops secp256k1) c ((EC.ops secp256k1).mul q secp256k1.G) r s = true ∧
      (lowerS = true → s ≤ secp256k1.n / 2) :=
  @ecdsa_sign_verifies_ec secp256k1_p ⟨secp256k1_p_prime⟩ secp256k1 secpOk c q k lowerS r s kid hk h

theorem ecdsa_verify_iff_sec1_secp256k1
    (c : ℤ) (Q : SecpPt) (r s : ℤ) :
    Ecdsa.verify (EC.ops secp256k1) c Q.1 r s = true ↔ SEC1 secpLawful c Q r s :=
  verify_iff_SEC1 secpLawful c Q r s

theorem ecdsa_recover_signer_secp256k1
    {c q k : ℤ} {lowerS : Bool} {r s kid : ℤ}
    (hk : 0 < k ∧ k < secp256k1.n) (hq : 0 < q ∧ q < secp256k1.n)
    (h : signRecoverable (EC.ops secp256k1) c q k lowerS = .ok (r, s, kid))
    (primeOrder lowerS' : Bool) (hl' : lowerS' = true → lowerS = true) :
    ∃ Q', recover (EC.ops secp256k1) primeOrder kid c r s lowerS' = .ok Q' ∧
      (EC.ops secp256k1).eq Q' ((EC.ops secp256k1).mul q secp256k1.G) = true :=
  @ecdsa_recover_signer_ec secp256k1_p ⟨secp256k1_p_prime⟩ secp256k1 secpOk secp256k1_h34 c q k lowerS r s kid hk hq h
    primeOrder lowerS' hl'

/-! ## the toy curve: an actual run, no hypothesis at all -/

theorem toy_ecdsa_sign : signRecoverable (EC.ops toyC) 3 5 2 true = .ok (7, 12, 0) := by decide +kernel

theorem toy_ecdsa_verifies : Ecdsa.verify (EC.ops toyC) 3 ((EC.ops toyC).mul 5 toyC.G) 7 12 = true :=
  (ecdsa_sign_verifies_ec toyOk (by decide) toy_ecdsa_sign).1

theorem toy_ecdsa_recovers : ∃ Q', recover (EC.ops toyC) true 0 3 7 12 true = .ok Q' ∧
    (EC.ops toyC).eq Q' ((EC.ops toyC).mul 5 toyC.G) = true :=
  ecdsa_recover_signer_ec toyOk (by decide) (by decide) (by decide) toy_ecdsa_sign true true (fun h => h)

end Btc.E2E

/-! ## Audit follow-up: statements over the RAW `Btc.EC.ops C`, keys as the API takes them

`verify`/`verifyFull` never call `lift_x`, so their runs over `opsSub K` are runs over `Btc.EC.ops C` (`rfl`); what is
needed to speak about an ARBITRARY key a caller hands in (a pair `point_from_pub_key` accepts) is that it denotes a
point of the `n`-torsion: on a curve of cofactor one — the named hypothesis `hcof` — every point does.  `hcof` is the
one assumption left for secp256k1 (its group order `n` is not re-derived here: no point count). -/
namespace Btc.E2E
open Btc Btc.EC Btc.C01 Btc.Ecdsa WeierstrassCurve

section
variable {p : ℕ} [Fact p.Prime] {C : Curve}

theorem congruent_opsSub (K : CurveOk p C) (isX : ℤ → Bool) : ∀ (fuel : ℕ) (x : ℤ),
    congruent (opsSub K) isX fuel x = congruent (EC.ops C) isX fuel x
  | 0, _ => rfl
  | fuel + 1, x => by
    unfold congruent
    rw [congruent_opsSub K isX fuel]
    rfl

theorem verifyFull_opsSub (K : CurveOk p C) (isX : ℤ → Bool) (c : ℤ) (P : SubPt p C) (r s : ℤ) :
    verifyFull (opsSub K) isX c P r s = verifyFull (EC.ops C) isX c P.1 r s := by
  unfold verifyFull sigValid
  rw [congruent_opsSub K isX]
  rfl

/-- cofactor one ⇒ every reduced valid pair is in the lawful carrier -/
theorem inSubOf (hcof : ∀ g : Pt p C.toCurveGroup, C.n • g = 0) {P : Point}
    (hv : AValid p C.toCurveGroup P) (hr : RedA C.toCurveGroup P) : InSub p C P := ⟨hv, hr, hcof _⟩

/-- a pair `point_from_pub_key` accepts (coordinates in range, on the curve, `y ≠ 0`) is a reduced valid pair -/
theorem valid_of_pubKeyOk (K : CurveOk p C) {Q : Point} (h : pubKeyOk C Q = true) :
    AValid p C.toCurveGroup Q ∧ RedA C.toCurveGroup Q ∧ Q.2 ≠ 0 := by
  unfold pubKeyOk at h
  rw [Bool.and_eq_true, decide_eq_true_eq] at h
  obtain ⟨hx, h⟩ := h
  cases hoc : isOnCurve C.toCurveGroup Q with
  | none => simp [hoc] at h
  | some b =>
    cases b with
    | false => simp [hoc] at h
    | true =>
      simp only [hoc, bne_iff_ne, ne_eq] at h
      unfold isOnCurve at hoc
      rw [if_neg h] at hoc
      split at hoc
      · cases hoc
      · rename_i hyr
        have hyr' : 0 < Q.2 ∧ Q.2 < C.toCurveGroup.p := not_not.mp hyr
        simp only [Option.some.injEq, beq_iff_eq] at hoc
        have hC := K.hC
        have hyZ : ((Q.2 : ℤ) : ZMod p) ≠ 0 :=
          cast_ne_zero_of_red (c := C.toCurveGroup) hC ⟨le_of_lt hyr'.1, hyr'.2⟩ h
        have heqZ : (curveOf p C.toCurveGroup).toAffine.Equation (Q.1 : ZMod p) (Q.2 : ZMod p) := by
          rw [aff_equation_iff]
          have h1 := congrArg (fun z : ℤ => (z : ZMod p)) hoc
          simp only [y2_cast (c := C.toCurveGroup) hC] at h1
          rw [show C.toCurveGroup.p = (p : ℤ) from hC, ZMod.intCast_mod] at h1
          push_cast at h1
          rw [pow_two]; exact h1.symm
        have hns := aff_nonsingular_of_y_ne K.p_ne_two heqZ hyZ
        have e : castJ p (Q.1, Q.2, 1) = ![(Q.1 : ZMod p), (Q.2 : ZMod p), 1] := by simp [castJ]
        refine ⟨fun _ => ?_, ⟨⟨le_of_lt hyr'.1, hyr'.2⟩, fun _ => hx⟩, h⟩
        rw [e]; exact (Jacobian.nonsingular_some ..).mpr hns

/-- **`hX` discharged for the driver's x-coordinate test** (`Btc.Ecdsa.isXCoord`, Euler's criterion): it accepts the
x-coordinate of every non-identity element -/
theorem isXCoord_complete (K : CurveOk p C) (P : SubPt p C) (hP : absSub P ≠ 0) :
    isXCoord C ((opsSub K).x P) = true := by
  have hy : P.1.2 ≠ 0 := (absSub_ne_zero_iff P).mp hP
  have hxr : 0 ≤ P.1.1 ∧ P.1.1 < C.p := P.2.2.1.2 hy
  have hyr : 0 ≤ P.1.2 ∧ P.1.2 < C.p := P.2.2.1.1
  have hC := K.hC
  have hyZ : ((P.1.2 : ℤ) : ZMod p) ≠ 0 := cast_ne_zero_of_red (c := C.toCurveGroup) hC hyr hy
  have hpp := (Fact.out : p.Prime)
  show (decide (0 ≤ P.1.1 ∧ P.1.1 < C.p) && (modPow (y2 C.toCurveGroup P.1.1) ((C.p.toNat - 1) / 2) C.p != C.p - 1)) = true
  rw [Bool.and_eq_true, decide_eq_true_eq, bne_iff_ne]
  refine ⟨hxr, fun hbad => ?_⟩
  rw [show C.p = (p : ℤ) from hC] at hbad
  have h1 := congrArg (fun z : ℤ => (z : ZMod p)) hbad
  simp only [modPow_cast, y2_cast (c := C.toCurveGroup) hC, Int.toNat_natCast] at h1
  rw [← sub_equation P hy, ← pow_mul] at h1
  have hodd : 2 * ((p - 1) / 2) = p - 1 := by
    have := hpp.eq_two_or_odd'
    rcases this with h2 | h2
    · exact absurd h2 K.p_ne_two
    · obtain ⟨k, hk⟩ := h2; omega
  rw [hodd, ZMod.pow_card_sub_one_eq_one hyZ] at h1
  push_cast at h1
  simp only [CharP.cast_eq_zero, zero_sub] at h1
  have h2 : (2 : ZMod p) = 0 := by linear_combination h1
  have h3 : ((2 : ℕ) : ZMod p) = 0 := by exact_mod_cast h2
  have := (ZMod.natCast_eq_zero_iff 2 p).mp h3
  have := Nat.le_of_dvd (by norm_num) this
  have := hpp.two_le
  exact K.p_ne_two (by omega)

/-- **C02-T2 over the raw arithmetic, any key the API accepts** (cofactor one): for a pair `Q` that `point_from_pub_key`
accepts, with `x` reduced, the verifier run over `Btc.EC.ops C` answers `true` exactly when SEC 1 holds for the point
`Q` denotes -/
theorem ecdsa_verify_iff_sec1_raw (K : CurveOk p C)
    (hcof : ∀ g : Pt p C.toCurveGroup, C.n • g = 0) (c : ℤ) (Q : Point)
    (hv : AValid p C.toCurveGroup Q) (hr : RedA C.toCurveGroup Q) (r s : ℤ) :
    Ecdsa.verify (EC.ops C) c Q r s = true ↔
      Grp.SEC1 (lawfulGroup_ec K) c ⟨Q, inSubOf hcof hv hr⟩ r s :=
  Grp.verify_iff_SEC1 (lawfulGroup_ec K) c ⟨Q, inSubOf hcof hv hr⟩ r s

/-- **C02-T2′ over the raw arithmetic**: the PUBLIC boolean (`Sig.assert_valid`'s screens with the executed
x-coordinate test `isXCoord C`, refusals turned into `False`) is the SEC 1 predicate; `hX` is proved, not assumed -/
theorem ecdsa_verify_api_is_sec1_raw (K : CurveOk p C)
    (hcof : ∀ g : Pt p C.toCurveGroup, C.n • g = 0) (c : ℤ) (Q : Point)
    (hv : AValid p C.toCurveGroup Q) (hr : RedA C.toCurveGroup Q) (r s : ℤ) :
    verifyFull (EC.ops C) (isXCoord C) c Q r s = true ↔
      Grp.SEC1 (lawfulGroup_ec K) c ⟨Q, inSubOf hcof hv hr⟩ r s := by
  have h := Grp.verifyFull_eq_verify (lawfulGroup_ec K) (isXCoord C)
    (fun P hP => isXCoord_complete K P hP) c ⟨Q, inSubOf hcof hv hr⟩ r s
  rw [← Grp.verify_iff_SEC1 (lawfulGroup_ec K), ← h, verifyFull_opsSub]

/-- the same two, with key validity as the API decides it (`pubKeyOk`: `point_from_pub_key` on a tuple, range screens included) -/
theorem ecdsa_verify_api_is_sec1_key (K : CurveOk p C)
    (hcof : ∀ g : Pt p C.toCurveGroup, C.n • g = 0) (c : ℤ) (Q : Point)
    (hk : pubKeyOk C Q = true) (r s : ℤ) :
    (verifyFull (EC.ops C) (isXCoord C) c Q r s = true ↔ Ecdsa.verify (EC.ops C) c Q r s = true) ∧
    (Ecdsa.verify (EC.ops C) c Q r s = true ↔
      Grp.SEC1 (lawfulGroup_ec K) c ⟨Q, inSubOf hcof (valid_of_pubKeyOk K hk).1
        (valid_of_pubKeyOk K hk).2.1⟩ r s) := by
  obtain ⟨hv, hr, _⟩ := valid_of_pubKeyOk K hk
  exact ⟨by rw [ecdsa_verify_api_is_sec1_raw K hcof c Q hv hr, ecdsa_verify_iff_sec1_raw K hcof c Q hv hr],
    ecdsa_verify_iff_sec1_raw K hcof c Q hv hr r s⟩

end

/-- `secpOps` as a `LawfulGroup` (the group part of `secpLawful`) -/
noncomputable def secpLawfulG : LawfulGroup secpOps SecpGroup :=
  @lawfulGroup_ec secp256k1_p ⟨secp256k1_p_prime⟩ secp256k1 secpOk

/-- secp256k1, any key the API accepts.  `SecpCofactorOne` (Proofs/E2E/Basic.lean: every point of `y² = x³ + 7` over
`F_p` is killed by `n`, i.e. the curve has exactly `n` points) is NOT proved (no point count): the one named assumption. -/
theorem ecdsa_verify_api_is_sec1_secp256k1 (hcof : SecpCofactorOne) (c : ℤ) (Q : Point)
    (hk : pubKeyOk secp256k1 Q = true) (r s : ℤ) :
    (verifyFull (EC.ops secp256k1) (isXCoord secp256k1) c Q r s = true ↔
      Ecdsa.verify (EC.ops secp256k1) c Q r s = true) ∧
    (Ecdsa.verify (EC.ops secp256k1) c Q r s = true ↔
      Grp.SEC1 secpLawfulG c ⟨Q, @inSubOf secp256k1_p ⟨secp256k1_p_prime⟩ secp256k1 hcof _
        (@valid_of_pubKeyOk secp256k1_p ⟨secp256k1_p_prime⟩ secp256k1 secpOk Q hk).1
        (@valid_of_pubKeyOk secp256k1_p ⟨secp256k1_p_prime⟩ secp256k1 secpOk Q hk).2.1⟩ r s) :=
  @ecdsa_verify_api_is_sec1_key secp256k1_p ⟨secp256k1_p_prime⟩ secp256k1 secpOk hcof c Q hk r s

/-- **a fully discharged instance of a `_raw` theorem** (AUDIT2 item 6): on the toy curve `y² = x³ + 7` over `F₄₃`
cofactor one is PROVED (`Toy.toy_hcof`), so C02-T2 over the raw arithmetic holds there with no hypothesis left -/
example (c : ℤ) (Q : Point) (hv : AValid 43 Toy.toyC.toCurveGroup Q) (hr : RedA Toy.toyC.toCurveGroup Q) (r s : ℤ) :
    Ecdsa.verify (EC.ops Toy.toyC) c Q r s = true ↔
      Grp.SEC1 (lawfulGroup_ec Toy.toyOk) c ⟨Q, inSubOf Toy.toy_hcof hv hr⟩ r s :=
  ecdsa_verify_iff_sec1_raw Toy.toyOk Toy.toy_hcof c Q hv hr r s

end Btc.E2E
