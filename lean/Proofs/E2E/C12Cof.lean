import Proofs.E2E.C12
import Proofs.C01.CapstoneCofactor
import Proofs.C12.EC
/-
C12 end to end over the RAW arithmetic `Btc.EC.ops C` (what the driver executes), no `opsSub` left in a statement.
Wherever `lift_x` is involved this needs the restricted and the unrestricted `lift_x` to agree, which is C01's
`liftXSub_val_of_cofactor_one`: the explicit hypotheses `hcof` (every point has order dividing `n`: cofactor one)
and `hΔ` (non-zero discriminant).  `hΔ` is PROVED for secp256k1 below; `hcof` is not (no point count in Lean):
it is the one named assumption about secp256k1 that remains.
-/
open WeierstrassCurve

namespace Btc.E2E
open Btc Btc.EC Btc.C01 Btc.Taproot Gen.Taproot

section
variable {p : ℕ} [Fact p.Prime] {C : Curve}

/-- `point_from_octets` over the raw pairs is `point_from_octets` over the carrier, refusals included -/
theorem pointFromOctets_map_val (K : CurveOk p C) (hL : LiftAgree K) (sec : Bytes) :
    (pointFromOctets (opsSub K) sec).map Subtype.val = pointFromOctets (EC.ops C) sec := by
  unfold pointFromOctets
  cases sec with
  | nil => rfl
  | cons pre rest =>
    simp only []
    by_cases h23 : pre = 2 ∨ pre = 3
    · rw [ite_pos' h23, ite_pos' h23]
      by_cases hl : rest.length ≠ 32
      · rw [ite_pos' hl, ite_pos' hl]; rfl
      · rw [ite_neg' hl, ite_neg' hl]
        have hx := hL ((ofBE rest : ℕ) : ℤ)
        cases hs : (opsSub K).liftX ((ofBE rest : ℕ) : ℤ) with
        | none => rw [hs] at hx; rw [← hx]; rfl
        | some R =>
          rw [hs] at hx; rw [← hx]
          simp only [Option.map_some, Except.map]
          split <;> rfl
    · rw [ite_neg' h23, ite_neg' h23]
      by_cases h4 : pre = 4
      · rw [ite_pos' h4, ite_pos' h4]
        by_cases hl : rest.length ≠ 64
        · rw [ite_pos' hl, ite_pos' hl]; rfl
        · rw [ite_neg' hl, ite_neg' hl]
          have hx := hL ((ofBE (rest.take 32) : ℕ) : ℤ)
          cases hs : (opsSub K).liftX ((ofBE (rest.take 32) : ℕ) : ℤ) with
          | none => rw [hs] at hx; simp only [← hx]; rfl
          | some R =>
            rw [hs] at hx; simp only [← hx, Option.map_some]
            by_cases hy0 : ((ofBE (rest.drop 32) : ℕ) : ℤ) = 0
            · rw [ite_pos' hy0, ite_pos' hy0]; rfl
            · rw [ite_neg' hy0, ite_neg' hy0]
              by_cases hy1 : (EC.ops C).y R.1 = ((ofBE (rest.drop 32) : ℕ) : ℤ)
              · rw [ite_pos' (show (opsSub K).y R = _ from hy1), ite_pos' hy1]; rfl
              · rw [ite_neg' (show ¬ (opsSub K).y R = _ from hy1), ite_neg' hy1]
                by_cases hy2 : (EC.ops C).y ((EC.ops C).neg R.1) = ((ofBE (rest.drop 32) : ℕ) : ℤ)
                · rw [ite_pos' (show (opsSub K).y ((opsSub K).neg R) = _ from hy2), ite_pos' hy2]; rfl
                · rw [ite_neg' (show ¬ (opsSub K).y ((opsSub K).neg R) = _ from hy2), ite_neg' hy2]; rfl
      · rw [ite_neg' h4, ite_neg' h4]; rfl

theorem pointFromOctets_ec_ok (K : CurveOk p C) (hL : LiftAgree K) {sec : Bytes} {Q : Point}
    (h : pointFromOctets (EC.ops C) sec = .ok Q) :
    ∃ P : SubPt p C, pointFromOctets (opsSub K) sec = .ok P ∧ P.1 = Q := by
  have := pointFromOctets_map_val K hL sec
  rw [h] at this
  cases hs : pointFromOctets (opsSub K) sec with
  | error e => rw [hs] at this; cases this
  | ok P => rw [hs] at this; exact ⟨P, rfl, Except.ok.inj this⟩

/-- the public tweak over the raw pairs IS the public tweak over the carrier -/
theorem tweakedPubkey_raw_eq (K : CurveOk p C) (hL : LiftAgree K) (H : TagHash) (sec h : Bytes) :
    tweakedPubkey (opsSub K) H sec h = tweakedPubkey (EC.ops C) H sec h := by
  unfold tweakedPubkey
  rw [tapTweak_opsSub]
  cases tapTweak (EC.ops C) H (xOnly sec) h with
  | error e => rfl
  | ok t =>
    have := pointFromOctets_map_val K hL sec
    cases hs : pointFromOctets (opsSub K) sec with
    | error e => rw [hs] at this; rw [← this]; rfl
    | ok P =>
      rw [hs] at this; rw [← this]
      show Except.ok (outKey (opsSub K) (tweakPoint (opsSub K) P t)) = Except.ok _
      rw [outKey_tweakPoint_opsSub]

/-- T1 over the raw arithmetic, cofactor one: the key parses over `Btc.EC.ops C` itself -/
theorem completeness_raw_cofactor_one (K : CurveOk p C) (h34 : p % 4 = 3)
    (hcof : ∀ g : Pt p C.toCurveGroup, C.n • g = 0) (hΔ : (curveOf p C.toCurveGroup).toAffine.Δ ≠ 0)
    (hp : C.p ≤ 2 ^ 256) {H : TagHash} (h32 : Len32 H)
    (sec : Bytes) (tree : Tree) (Q : Point) (t : ℤ) (hdepth : tree.depth ≤ 128)
    (hP : pointFromOctets (EC.ops C) sec = .ok Q)
    (ht : tapTweak (EC.ops C) H (xOnly sec) (root H tree) = .ok t)
    (hQ : (EC.ops C).isZero (tweakPoint (EC.ops C) Q t) = false) :
    outputPubkey (EC.ops C) H (some sec) (some tree) = .ok (outKey (EC.ops C) (tweakPoint (EC.ops C) Q t)) ∧
    ∀ i : ℕ, i < (leaves H tree).length →
      ∃ s c, inputScriptSig (EC.ops C) H (some sec) tree i = .ok (s, c) ∧
        checkOutputPubkey (EC.ops C) H (outKey (EC.ops C) (tweakPoint (EC.ops C) Q t)).1 s c = .ok true := by
  obtain ⟨P, hPs, rfl⟩ := pointFromOctets_ec_ok K (liftAgree_of_cofactor_one K h34 hcof hΔ) hP
  exact (completeness_raw_ec K h34 hp h32 sec tree P t hdepth hPs ht hQ).2

/-- T2 over the raw arithmetic, cofactor one -/
theorem key_agreement_raw_cofactor_one (K : CurveOk p C) (h34 : p % 4 = 3)
    (hcof : ∀ g : Pt p C.toCurveGroup, C.n • g = 0) (hΔ : (curveOf p C.toCurveGroup).toAffine.Δ ≠ 0)
    {H : TagHash} (d : ℤ) (h0 : 0 < d) (h1 : d < C.n) (sec h : Bytes) (Q : Point)
    (hP : pointFromOctets (EC.ops C) sec = .ok Q)
    (hsame : (EC.ops C).eq Q ((EC.ops C).mul d C.G) = true ∨
      (EC.ops C).eq Q ((EC.ops C).neg ((EC.ops C).mul d C.G)) = true)
    (hx : xOnly sec = beBytes 32 ((EC.ops C).x ((EC.ops C).mul d C.G)).toNat) :
    (∀ e, tweakedPrvkey (EC.ops C) H d h = .error e ↔ tweakedPubkey (EC.ops C) H sec h = .error e) ∧
    (∀ d2, tweakedPrvkey (EC.ops C) H d h = .ok d2 →
      ∃ t, tapTweak (EC.ops C) H (xOnly sec) h = .ok t ∧ 0 ≤ d2 ∧ d2 < C.n ∧
        tweakedPubkey (EC.ops C) H sec h = .ok (outKey (EC.ops C) (tweakPoint (EC.ops C) Q t)) ∧
        (EC.ops C).eq ((EC.ops C).mul d2 C.G) (tweakPoint (EC.ops C) Q t) = true ∧
        ((EC.ops C).isZero (tweakPoint (EC.ops C) Q t) = false →
          outKey (EC.ops C) ((EC.ops C).mul d2 C.G) = outKey (EC.ops C) (tweakPoint (EC.ops C) Q t))) := by
  have hL := liftAgree_of_cofactor_one K h34 hcof hΔ
  obtain ⟨P, hPs, rfl⟩ := pointFromOctets_ec_ok K hL hP
  have := key_agreement_ec (H := H) K h34 d h0 h1 sec h P hPs hsame hx
  rw [tweakedPubkey_raw_eq K hL] at this
  exact this

end

/-! ## secp256k1: `hΔ` proved, `hcof` named -/

theorem secp256k1_disc : haveI : Fact (Nat.Prime secp256k1_p) := ⟨secp256k1_p_prime⟩
    (curveOf secp256k1_p secp256k1.toCurveGroup).toAffine.Δ ≠ 0 := by
  have : Fact (Nat.Prime secp256k1_p) := ⟨secp256k1_p_prime⟩
  have ha : secp256k1.toCurveGroup.a = 0 := by decide +kernel
  have hb : secp256k1.toCurveGroup.b = 7 := by decide +kernel
  unfold curveOf swc
  simp only [WeierstrassCurve.Δ, WeierstrassCurve.b₂, WeierstrassCurve.b₄, WeierstrassCurve.b₆, WeierstrassCurve.b₈, ha, hb]
  have e : ((-21168 : ℤ) : ZMod secp256k1_p) ≠ 0 := by
    rw [Ne, ZMod.intCast_zmod_eq_zero_iff_dvd]
    intro hd
    have h1 := Int.le_of_dvd (by norm_num) ((Int.dvd_neg).mp hd)
    have h2 : (2 : ℤ) ^ 200 < (secp256k1_p : ℤ) := by
      rw [secp256k1_p_val]; norm_num
    norm_num at h1 h2
    omega
  intro h
  apply e
  rw [← h]
  push_cast
  ring

theorem completeness_secp256k1_cofactor_one (hcof : SecpCofactorOne) {H : TagHash} (h32 : Len32 H)
    (sec : Bytes) (tree : Tree) (Q : Point) (t : ℤ) (hdepth : tree.depth ≤ 128)
    (hP : pointFromOctets (EC.ops secp256k1) sec = .ok Q)
    (ht : tapTweak (EC.ops secp256k1) H (xOnly sec) (root H tree) = .ok t)
    (hQ : (EC.ops secp256k1).isZero (tweakPoint (EC.ops secp256k1) Q t) = false) :
    outputPubkey (EC.ops secp256k1) H (some sec) (some tree) =
      .ok (outKey (EC.ops secp256k1) (tweakPoint (EC.ops secp256k1) Q t)) ∧
    ∀ i : ℕ, i < (leaves H tree).length →
      ∃ s c, inputScriptSig (EC.ops secp256k1) H (some sec) tree i = .ok (s, c) ∧
        checkOutputPubkey (EC.ops secp256k1) H
          (outKey (EC.ops secp256k1) (tweakPoint (EC.ops secp256k1) Q t)).1 s c = .ok true :=
  @completeness_raw_cofactor_one secp256k1_p ⟨secp256k1_p_prime⟩ secp256k1 secpOk secp256k1_h34 hcof secp256k1_disc
    secp_sizes.1 H h32 sec tree Q t hdepth hP ht hQ

theorem key_agreement_secp256k1_cofactor_one (hcof : SecpCofactorOne) {H : TagHash}
    (d : ℤ) (h0 : 0 < d) (h1 : d < secp256k1.n) (sec h : Bytes) (Q : Point)
    (hP : pointFromOctets (EC.ops secp256k1) sec = .ok Q)
    (hsame : (EC.ops secp256k1).eq Q ((EC.ops secp256k1).mul d secp256k1.G) = true ∨
      (EC.ops secp256k1).eq Q ((EC.ops secp256k1).neg ((EC.ops secp256k1).mul d secp256k1.G)) = true)
    (hx : xOnly sec = beBytes 32 ((EC.ops secp256k1).x ((EC.ops secp256k1).mul d secp256k1.G)).toNat) :
    (∀ e, tweakedPrvkey (EC.ops secp256k1) H d h = .error e ↔ tweakedPubkey (EC.ops secp256k1) H sec h = .error e) ∧
    (∀ d2, tweakedPrvkey (EC.ops secp256k1) H d h = .ok d2 →
      ∃ t, tapTweak (EC.ops secp256k1) H (xOnly sec) h = .ok t ∧ 0 ≤ d2 ∧ d2 < secp256k1.n ∧
        tweakedPubkey (EC.ops secp256k1) H sec h =
          .ok (outKey (EC.ops secp256k1) (tweakPoint (EC.ops secp256k1) Q t)) ∧
        (EC.ops secp256k1).eq ((EC.ops secp256k1).mul d2 secp256k1.G) (tweakPoint (EC.ops secp256k1) Q t) = true ∧
        ((EC.ops secp256k1).isZero (tweakPoint (EC.ops secp256k1) Q t) = false →
          outKey (EC.ops secp256k1) ((EC.ops secp256k1).mul d2 secp256k1.G) =
            outKey (EC.ops secp256k1) (tweakPoint (EC.ops secp256k1) Q t))) :=
  @key_agreement_raw_cofactor_one secp256k1_p ⟨secp256k1_p_prime⟩ secp256k1 secpOk secp256k1_h34 hcof secp256k1_disc
    H d h0 h1 sec h Q hP hsame hx

end Btc.E2E
