import Model.C15.Eval
/-!
C15 — the symbolic instruction list serializes to the compiled script, for every expression.
-/
namespace Btc.Miniscript
open Btc Gen.Miniscript

@[simp] theorem ser_nil : ser [] = [] := rfl
@[simp] theorem ser_cons (o : Op) (os : List Op) : ser (o :: os) = o.ser ++ ser os := rfl
@[simp] theorem ser_append (a b : List Op) : ser (a ++ b) = ser a ++ ser b := by
  simp [ser, List.flatMap_append]

theorem ser_map_push (keys : List Key) : ser (keys.map .push) = keys.flatMap pushData := by
  induction keys with
  | nil => rfl
  | cons k ks ih => simp [Op.ser, ih]

theorem ser_checksigadd (keys : List Key) :
    ser (keys.flatMap fun k => [.push k, .checksigadd]) =
      keys.flatMap fun k => pushData k ++ [OP_CHECKSIGADD] := by
  induction keys with
  | nil => rfl
  | cons k ks ih => simp [Op.ser, ih]

theorem ser_multiAOps (keys : List Key) : ser (multiAOps keys) = multiAKeys keys := by
  cases keys with
  | nil => rfl
  | cons k ks => simp [multiAOps, multiAKeys, Op.ser, ser_checksigadd]

mutual
theorem ser_opsOf (ctx : Ctx) (h160 : Bytes → Bytes) :
    ∀ (n : Ms) (verify : Bool), ser (opsOf ctx h160 verify n) = compile ctx h160 verify n
  | .f0, _ => by simp [opsOf, compile, Op.ser]
  | .f1, _ => by simp [opsOf, compile, Op.ser]
  | .pk_k _, _ => by simp [opsOf, compile, Op.ser]
  | .pk_h _, _ => by simp [opsOf, compile, Op.ser]
  | .older _, _ => by simp [opsOf, compile, Op.ser]
  | .after _, _ => by simp [opsOf, compile, Op.ser]
  | .hash _ _, v => by cases v <;> simp [opsOf, compile, Op.ser]
  | .multi _ _, v => by cases v <;> simp [opsOf, compile, Op.ser, ser_map_push]
  | .multi_a _ _, v => by cases v <;> simp [opsOf, compile, Op.ser, ser_multiAOps]
  | .wrap w x, v => by
    have H := fun b => ser_opsOf ctx h160 x b
    cases w <;> cases v <;>
      simp [opsOf, compile, Op.ser, H, instantiate, template, Wrap.frag, Wrap.verifyState,
        OP_TOALTSTACK, OP_FROMALTSTACK, OP_SWAP, OP_DUP, OP_IF, OP_ENDIF, OP_SIZE, OP_0NOTEQUAL] <;>
      (try (split <;> simp [Op.ser]))
  | .bin b x y, v => by
    have Hx := fun b => ser_opsOf ctx h160 x b
    have Hy := fun b => ser_opsOf ctx h160 y b
    cases b <;> cases v <;>
      simp [opsOf, compile, Op.ser, Hx, Hy, instantiate, template, Bin.frag, Bin.verifyState,
        OP_BOOLAND, OP_BOOLOR, OP_NOTIF, OP_ENDIF, OP_IFDUP, OP_IF, OP_ELSE]
  | .andor x y z, _ => by
    simp [opsOf, compile, Op.ser, ser_opsOf ctx h160 x false, ser_opsOf ctx h160 y false,
      ser_opsOf ctx h160 z false, instantiate, template, OP_NOTIF, OP_ENDIF, OP_ELSE]
  | .thresh k x xs, v => by
    cases v <;> simp [opsOf, compile, Op.ser, ser_opsOf ctx h160 x false, ser_opsRest ctx h160 xs]
theorem ser_opsRest (ctx : Ctx) (h160 : Bytes → Bytes) :
    ∀ (l : MsL), ser (opsRest ctx h160 l) = compileRest ctx h160 l
  | .nil => by simp [opsRest, compileRest]
  | .cons x xs => by
    simp [opsRest, compileRest, Op.ser, ser_opsOf ctx h160 x false, ser_opsRest ctx h160 xs]
end

end Btc.Miniscript
