import Init.Data.Nat.ToString
import Model.C15.Text
/-!
C15 — T2: the parser reads back what the writer wrote.
-/
namespace Btc.Miniscript
open Btc Gen.Miniscript

/-! ### characters -/

/-- a character that is neither a bracket, a comma nor a colon. -/
def Plain (c : Char) : Prop := c ≠ '(' ∧ c ≠ ')' ∧ c ≠ ',' ∧ c ≠ ':'

theorem plain_of_nameChar {c : Char} (h : isNameChar c = true) : Plain c := by
  refine ⟨?_, ?_, ?_, ?_⟩ <;> (intro hc; subst hc; revert h; decide)

theorem nameChar_of_isDigit {c : Char} (h : c.isDigit = true) : isNameChar c = true := by
  simp [isNameChar, h]

theorem hexChar_nameChar : ∀ n, n < 16 → isNameChar (hexChar n) = true := by decide

theorem hexVal_hexChar : ∀ n, n < 16 → hexVal? (hexChar n) = some n := by decide

theorem hexChars_nameChar (b : Bytes) : ∀ c ∈ hexChars b, isNameChar c = true := by
  intro c hc
  simp only [hexChars, List.mem_flatMap, List.mem_cons, List.not_mem_nil, or_false] at hc
  obtain ⟨x, _, rfl | rfl⟩ := hc
  · exact hexChar_nameChar _ (by have := x.toNat_lt; omega)
  · exact hexChar_nameChar _ (by omega)

theorem fromHexChars_hexChars (b : Bytes) : fromHexChars (hexChars b) = some b := by
  induction b with
  | nil => rfl
  | cons x xs ih =>
    have h1 : x.toNat / 16 < 16 := by have := x.toNat_lt; omega
    have h2 : x.toNat % 16 < 16 := by omega
    have hx : UInt8.ofNat (16 * (x.toNat / 16) + x.toNat % 16) = x := by
      rw [Nat.div_add_mod]; exact UInt8.ofNat_toNat
    simp only [hexChars, List.flatMap_cons, List.cons_append, List.nil_append] at ih ⊢
    simp only [fromHexChars, hexVal_hexChar _ h1, hexVal_hexChar _ h2, ih, hx, bind, Option.bind, pure]

theorem hexChar_notWs : ∀ n, n < 16 → isWs (hexChar n) = false := by decide

theorem fromHexWs_hexChars (b : Bytes) : fromHexWs (hexChars b) = some b := by
  induction b with
  | nil => rfl
  | cons x xs ih =>
    have h1 : x.toNat / 16 < 16 := by have := x.toNat_lt; omega
    have h2 : x.toNat % 16 < 16 := by omega
    have hx : UInt8.ofNat (16 * (x.toNat / 16) + x.toNat % 16) = x := by
      rw [Nat.div_add_mod]; exact UInt8.ofNat_toNat
    simp only [hexChars, List.flatMap_cons, List.cons_append, List.nil_append] at ih ⊢
    simp only [fromHexWs, hexChar_notWs _ h1, hexVal_hexChar _ h1, hexVal_hexChar _ h2, ih, hx,
      Bool.false_eq_true, if_false]

theorem hexChars_noWs (b : Bytes) : (hexChars b).any isWs = false := by
  rw [List.any_eq_false]
  intro c hc
  simp only [hexChars, List.mem_flatMap, List.mem_cons, List.not_mem_nil, or_false] at hc
  obtain ⟨x, _, rfl | rfl⟩ := hc
  · simp [hexChar_notWs _ (by have := x.toNat_lt; omega : x.toNat / 16 < 16)]
  · simp [hexChar_notWs _ (by omega : x.toNat % 16 < 16)]

theorem decChars_isDigit (n : Nat) : ∀ c ∈ decChars n, c.isDigit = true := fun _ hc =>
  Nat.isDigit_of_mem_toDigits (by omega) (by omega) hc

theorem decChars_ne_nil (n : Nat) : decChars n ≠ [] := by
  intro h
  have := @Nat.length_toDigits_pos 10 n
  simp [decChars] at h

theorem parseDec_decChars (n : Nat) (hlen : digitsOK n = true) : parseDec (decChars n) = some n := by
  have hlen' : ¬ (decChars n).length > 10 := by simpa [digitsOK] using hlen
  have h1 : (decChars n).isEmpty = false := by
    cases h : decChars n with
    | nil => exact absurd h (decChars_ne_nil n)
    | cons => rfl
  have h2 : (decChars n).all Char.isDigit = true := List.all_eq_true.mpr (decChars_isDigit n)
  unfold parseDec
  rw [h1, h2]
  simp [hlen', Nat.ofDigitChars_ten_toDigits]
  simp [decChars, Nat.ofDigitChars_ten_toDigits]

/-! ### scanning -/

/-- what may follow an expression: nothing, a comma or a closing bracket. -/
def StopRest : List Char → Prop
  | [] => True
  | c :: _ => c = ',' ∨ c = ')'

theorem span_name (p : Char → Bool) (l r : List Char) (hl : ∀ c ∈ l, p c = true)
    (hr : ∀ c t, r = c :: t → p c = false) :
    (l ++ r).takeWhile p = l ∧ (l ++ r).dropWhile p = r := by
  induction l with
  | nil =>
    cases r with
    | nil => simp
    | cons c t => simp [hr c t rfl]
  | cons a l ih =>
    have := ih (fun c hc => hl c (List.mem_cons_of_mem _ hc))
    simp [hl a (List.mem_cons_self), this]

theorem scanColon_letters (ls rest : List Char) (h : ∀ c ∈ ls, isNameChar c = true) :
    scanColon (ls ++ ':' :: rest) = some (ls, rest) := by
  induction ls with
  | nil => simp [scanColon]
  | cons a l ih =>
    have ha := h a (List.mem_cons_self)
    have hne : (a == ':') = false := by
      have := (plain_of_nameChar ha).2.2.2
      simpa using this
    simp [scanColon, hne, ha, ih (fun c hc => h c (List.mem_cons_of_mem _ hc))]

theorem scanColon_none (l r : List Char) (hl : ∀ c ∈ l, isNameChar c = true)
    (hr : ∀ c t, r = c :: t → isNameChar c = false ∧ c ≠ ':') :
    scanColon (l ++ r) = none := by
  induction l with
  | nil =>
    cases r with
    | nil => simp [scanColon]
    | cons c t =>
      obtain ⟨h1, h2⟩ := hr c t rfl
      have : (c == ':') = false := by simpa using h2
      simp [scanColon, this, h1]
  | cons a l ih =>
    have ha := hl a (List.mem_cons_self)
    have hne : (a == ':') = false := by
      have := (plain_of_nameChar ha).2.2.2
      simpa using this
    simp [scanColon, hne, ha, ih (fun c hc => hl c (List.mem_cons_of_mem _ hc))]

theorem argSpan_plain (a rest : List Char) (h : ∀ c ∈ a, c ≠ '(' ∧ c ≠ ')') :
    argSpan (a ++ ')' :: rest) = some (a, rest) := by
  induction a with
  | nil => simp [argSpan]
  | cons c l ih =>
    obtain ⟨h1, h2⟩ := h c (List.mem_cons_self)
    have e1 : (c == ')') = false := by simpa using h2
    have e2 : (c == '(') = false := by simpa using h1
    simp [argSpan, e1, e2, ih (fun c hc => h c (List.mem_cons_of_mem _ hc))]

theorem splitCommas_noComma (a : List Char) (h : ∀ c ∈ a, c ≠ ',') : splitCommas a = [a] := by
  induction a with
  | nil => rfl
  | cons c l ih =>
    have e : (c == ',') = false := by simpa using h c (List.mem_cons_self)
    simp [splitCommas, ih (fun c hc => h c (List.mem_cons_of_mem _ hc)), e]

theorem splitCommas_ne_nil (b : List Char) : ∃ x t, splitCommas b = x :: t := by
  cases b with
  | nil => exact ⟨[], [], rfl⟩
  | cons c cs =>
    simp only [splitCommas]
    split
    · exact ⟨_, _, rfl⟩
    · split <;> exact ⟨_, _, rfl⟩

theorem splitCommas_append (a b : List Char) (h : ∀ c ∈ a, c ≠ ',') :
    splitCommas (a ++ ',' :: b) = a :: splitCommas b := by
  induction a with
  | nil =>
    obtain ⟨x, t, hb⟩ := splitCommas_ne_nil b
    simp only [List.nil_append, splitCommas, hb]
    simp
  | cons c l ih =>
    have e : (c == ',') = false := by simpa using h c (List.mem_cons_self)
    simp [splitCommas, ih (fun c hc => h c (List.mem_cons_of_mem _ hc)), e]

/-! ### names -/

theorem kindOf_chars (k : NameKind) : kindOf k.chars = some k := by
  cases k with
  | bin b => cases b <;> rfl
  | hash h => cases h <;> rfl
  | _ => rfl

theorem chars_nameChar (k : NameKind) : ∀ c ∈ k.chars, isNameChar c = true := by
  cases k with
  | bin b => cases b <;> decide
  | hash h => cases h <;> decide
  | _ => decide

theorem chars_ne (k : NameKind) : k.chars ≠ [] ∧ k.chars ≠ ['0'] ∧ k.chars ≠ ['1'] := by
  cases k with
  | bin b => cases b <;> decide
  | hash h => cases h <;> decide
  | _ => decide

/-- the head of `call k body ++ rest` as `pExpr` splits it. -/
theorem span_call (k : NameKind) (body rest : List Char) :
    (call k body ++ rest).takeWhile isNameChar = k.chars ∧
    (call k body ++ rest).dropWhile isNameChar = '(' :: (body ++ ')' :: rest) := by
  have := span_name isNameChar k.chars ('(' :: (body ++ ')' :: rest)) (chars_nameChar k)
    (by intro c t h; cases h; decide)
  simpa [call] using this

theorem readWrappers_call (k : NameKind) (body rest : List Char) :
    readWrappers (call k body ++ rest) = ([], call k body ++ rest) := by
  obtain ⟨hne, _, _⟩ := chars_ne k
  cases hk : k.chars with
  | nil => exact absurd hk hne
  | cons c cs =>
    have hcs : ∀ x ∈ cs, isNameChar x = true := fun x hx =>
      chars_nameChar k x (by rw [hk]; exact List.mem_cons_of_mem _ hx)
    have : scanColon (cs ++ '(' :: (body ++ ')' :: rest)) = none :=
      scanColon_none cs _ hcs (by intro c t h; cases h; decide)
    simp [call, hk, readWrappers, this]

theorem readWrappers_const (c : Char) (rest : List Char) (hr : StopRest rest) :
    readWrappers (c :: rest) = ([], c :: rest) := by
  have : scanColon rest = none := by
    cases rest with
    | nil => rfl
    | cons d t =>
      have := scanColon_none [] (d :: t) (by simp) (by
        intro c' t' h; cases h
        rcases hr with rfl | rfl <;> decide)
      simpa using this
  simp [readWrappers, this]

theorem readWrappers_letters (c : Char) (ls rest : List Char)
    (h : ∀ x ∈ ls, isNameChar x = true) :
    readWrappers (c :: (ls ++ ':' :: rest)) = (c :: ls, rest) := by
  simp [readWrappers, scanColon_letters ls rest h]

/-- the ten wrapper letters. -/
def IsLetter (c : Char) : Prop :=
  c = 'a' ∨ c = 's' ∨ c = 'c' ∨ c = 'd' ∨ c = 'v' ∨ c = 'j' ∨ c = 'n' ∨ c = 't' ∨ c = 'l' ∨ c = 'u'

theorem letter_nameChar {c : Char} (h : IsLetter c) : isNameChar c = true := by
  rcases h with rfl | rfl | rfl | rfl | rfl | rfl | rfl | rfl | rfl | rfl <;> decide

theorem applyLetters_append (pre : List Char) (c : Char) (x : Ms) :
    applyLetters (pre ++ [c]) x = (applyLetter c x).bind (applyLetters pre) := by
  induction pre with
  | nil => simp [applyLetters]
  | cons a l ih =>
    simp only [List.cons_append, applyLetters, ih]
    cases applyLetter c x <;> simp

/-! ### leaves -/

theorem parseKey_hex (ctx : Ctx) (k : Key) (h : k.length = keySize ctx) :
    parseKey ctx (hexChars k) = some k := by
  unfold parseKey
  rw [fromHexWs_hexChars, hexChars_noWs]
  simp only [Bool.false_and, Bool.false_eq_true, if_false]
  cases ctx with
  | p2wsh => rfl
  | tapscript =>
    cases k with
    | nil => rfl
    | cons p rest =>
      have : rest.length ≠ 32 := by
        simp [keySize, PUB_KEY_SIZE_TAPSCRIPT] at h; omega
      simp [this]

theorem parseKeys_hex (ctx : Ctx) (keys : List Key)
    (h : keys.all (fun key => key.length == keySize ctx) = true) :
    parseKeys ctx (keys.map hexChars) = some keys := by
  induction keys with
  | nil => rfl
  | cons k ks ih =>
    simp only [List.all_cons, Bool.and_eq_true, beq_iff_eq] at h
    simp [parseKeys, parseKey_hex ctx k h.1, ih h.2]

theorem hexChars_noComma (b : Bytes) : ∀ c ∈ hexChars b, c ≠ ',' := fun c hc =>
  (plain_of_nameChar (hexChars_nameChar b c hc)).2.2.1

theorem decChars_plain (n : Nat) : ∀ c ∈ decChars n, Plain c := fun c hc =>
  plain_of_nameChar (nameChar_of_isDigit (decChars_isDigit n c hc))

theorem splitCommas_keyList (a : List Char) (ha : ∀ c ∈ a, c ≠ ',') (keys : List Key) :
    splitCommas (a ++ keyList keys) = a :: keys.map hexChars := by
  induction keys generalizing a with
  | nil => simpa [keyList] using splitCommas_noComma a ha
  | cons k ks ih =>
    have : keyList (k :: ks) = ',' :: (hexChars k ++ keyList ks) := by simp [keyList]
    rw [this, splitCommas_append a _ ha, ih (hexChars k) (hexChars_noComma k)]
    rfl

theorem keyList_noParen (keys : List Key) : ∀ c ∈ keyList keys, c ≠ '(' ∧ c ≠ ')' := by
  intro c hc
  simp only [keyList, List.mem_flatMap, List.mem_cons] at hc
  obtain ⟨k, _, rfl | hc⟩ := hc
  · decide
  · have := plain_of_nameChar (hexChars_nameChar k c hc)
    exact ⟨this.1, this.2.1⟩

/-- `pExpr` on a bracketed name: the dispatch on the name, with the text after the bracket. -/
theorem pExpr_call (ctx : Ctx) (fuel : Nat) (k : NameKind) (body rest : List Char) :
    pExpr ctx (fuel + 1) (call k body ++ rest) =
      (let r := body ++ ')' :: rest
       let pw := pWrappedWith (pExpr ctx fuel)
       match k with
        | .bin b =>
          (pw r).bind fun (x, r) => (expect ',' r).bind fun r => (pw r).bind fun (y, r) =>
            (expect ')' r).map fun r => (.bin b x y, r)
        | .andor =>
          (pw r).bind fun (x, r) => (expect ',' r).bind fun r => (pw r).bind fun (y, r) =>
            (expect ',' r).bind fun r => (pw r).bind fun (z, r) =>
              (expect ')' r).map fun r => (.andor x y z, r)
        | .and_n =>
          (pw r).bind fun (x, r) => (expect ',' r).bind fun r => (pw r).bind fun (y, r) =>
            (expect ')' r).map fun r => (.andor x y .f0, r)
        | .thresh =>
          let ds := r.takeWhile Char.isDigit
          (parseDec ds).bind fun k => (expect ',' (r.dropWhile Char.isDigit)).bind fun r =>
            (pw r).bind fun (x, r) => (pMoreWith pw r.length.succ r).map fun (xs, r) => (.thresh k x xs, r)
        | k => (argSpan r).bind fun (arg, r) => (pLeaf ctx k arg).map fun n => (n, r)) := by
  obtain ⟨h1, h2⟩ := span_call k body rest
  obtain ⟨n1, n2, n3⟩ := chars_ne k
  simp only [pExpr, h1, h2, n1, n2, n3, if_false, kindOf_chars]
  cases k <;> rfl

theorem pExpr_leaf (ctx : Ctx) (fuel : Nat) (k : NameKind) (arg rest : List Char) (n : Ms)
    (hk : (match k with | .bin _ | .andor | .and_n | .thresh => False | _ => True))
    (harg : ∀ c ∈ arg, c ≠ '(' ∧ c ≠ ')') (hl : pLeaf ctx k arg = some n) :
    pExpr ctx (fuel + 1) (call k arg ++ rest) = some (n, rest) := by
  rw [pExpr_call]
  cases k <;> simp at hk <;> simp [argSpan_plain arg rest harg, hl]

/-! ### the round trip -/

mutual
def depth : Ms → Nat
  | .wrap _ x => depth x + 1
  | .bin _ x y => max (depth x) (depth y) + 1
  | .andor x y z => max (depth x) (max (depth y) (depth z)) + 1
  | .thresh _ x xs => max (depth x) (depthL xs) + 1
  | _ => 0
def depthL : MsL → Nat
  | .nil => 0
  | .cons x xs => max (depth x) (depthL xs)
end

/-- what the induction carries for one expression: read back when written unwrapped, and when
    written behind a run of wrapper letters. -/
def Good (ctx : Ctx) (fuel : Nat) (n : Ms) : Prop :=
  ∀ rest, StopRest rest →
    pWrappedWith (pExpr ctx fuel) (printMs false n ++ rest) = some (n, rest) ∧
    ∀ (c : Char) (ls : List Char) (m : Ms), (∀ x ∈ ls, IsLetter x) →
      applyLetters (c :: ls) n = some m →
      pWrappedWith (pExpr ctx fuel) (c :: (ls ++ (printMs true n ++ rest))) = some (m, rest)

theorem good_of_core (ctx : Ctx) (fuel : Nat) (n : Ms)
    (hcolon : printMs true n = ':' :: printMs false n)
    (hrw : ∀ rest, StopRest rest →
      readWrappers (printMs false n ++ rest) = ([], printMs false n ++ rest))
    (hp : ∀ rest, StopRest rest → pExpr ctx fuel (printMs false n ++ rest) = some (n, rest)) :
    Good ctx fuel n := by
  intro rest hr
  refine ⟨?_, ?_⟩
  · simp [pWrappedWith, hrw rest hr, hp rest hr, applyLetters]
  · intro c ls m hls happ
    have := readWrappers_letters c ls (printMs false n ++ rest)
      (fun x hx => letter_nameChar (hls x hx))
    simp only [hcolon, List.cons_append]
    simp [pWrappedWith, this, hp rest hr, happ]

theorem good_of_letter (ctx : Ctx) (fuel : Nat) (n x : Ms) (c' : Char) (hl : IsLetter c')
    (hpt : ∀ w, printMs w n = c' :: printMs true x) (happ : applyLetter c' x = some n)
    (hx : Good ctx fuel x) : Good ctx fuel n := by
  intro rest hr
  refine ⟨?_, ?_⟩
  · have := (hx rest hr).2 c' [] n (by simp) (by simp [applyLetters, happ])
    simpa [hpt] using this
  · intro c ls m hls hm
    have h2 : applyLetters (c :: (ls ++ [c'])) x = some m := by
      have := applyLetters_append (c :: ls) c' x
      simp only [List.cons_append] at this
      rw [this, happ]
      exact hm
    have := (hx rest hr).2 c (ls ++ [c']) m
      (by intro y hy; simp at hy; rcases hy with hy | rfl; exact hls y hy; exact hl) h2
    simpa [hpt] using this

theorem stopRest_comma (l : List Char) : StopRest (',' :: l) := Or.inl rfl
theorem stopRest_close (l : List Char) : StopRest (')' :: l) := Or.inr rfl

theorem stopRest_printRest (xs : MsL) (rest : List Char) : StopRest (printRest xs ++ ')' :: rest) := by
  cases xs <;> simp [printRest, StopRest]

theorem length_printRest (xs : MsL) : xs.length ≤ (printRest xs).length := by
  induction xs using MsL.rec (motive_1 := fun _ => True) with
  | nil => simp [MsL.length]
  | cons x xs _ ih => simp [MsL.length, printRest]; omega
  | _ => trivial

theorem applyLetter_wrap (w : Wrap) (x : Ms) : applyLetter w.letter x = some (.wrap w x) := by
  cases w <;> rfl

theorem isLetter_wrap (w : Wrap) : IsLetter w.letter := by
  cases w <;> simp [IsLetter, Wrap.letter]

theorem good_call (ctx : Ctx) (fuel : Nat) (n : Ms) (k : NameKind) (body : List Char)
    (hpr : ∀ w, printMs w n = colon w ++ call k body)
    (hp : ∀ rest, StopRest rest → pExpr ctx fuel (call k body ++ rest) = some (n, rest)) :
    Good ctx fuel n := by
  apply good_of_core
  · simp [hpr, colon]
  · intro rest _; simp only [hpr, colon, if_false, List.nil_append, Bool.false_eq_true]
    exact readWrappers_call k body rest
  · intro rest hr; simpa [hpr, colon] using hp rest hr

theorem pExpr_const (ctx : Ctx) (fuel : Nat) (c : Char) (n : Ms) (rest : List Char)
    (hr : StopRest rest) (hc : (c = '0' ∧ n = .f0) ∨ (c = '1' ∧ n = .f1)) :
    pExpr ctx (fuel + 1) (c :: rest) = some (n, rest) := by
  have hsp := span_name isNameChar [c] rest
    (by intro x hx; simp at hx; subst hx; rcases hc with ⟨rfl, _⟩ | ⟨rfl, _⟩ <;> decide)
    (by intro d t h; subst h; rcases hr with rfl | rfl <;> decide)
  simp only [List.cons_append, List.nil_append] at hsp
  rcases hc with ⟨rfl, rfl⟩ | ⟨rfl, rfl⟩ <;> simp [pExpr, hsp.1, hsp.2]

mutual
theorem good_all (ctx : Ctx) : ∀ (n : Ms) (fuel : Nat), shaped ctx n = true → depth n < fuel →
    numsOK n = true →
    Good ctx fuel n
  | .f0, fuel + 1, _, _, hn => by
    apply good_of_core
    · simp [printMs, colon]
    · intro rest hr; simpa [printMs, colon] using readWrappers_const '0' rest hr
    · intro rest hr; simpa [printMs, colon] using pExpr_const ctx fuel '0' .f0 rest hr (Or.inl ⟨rfl, rfl⟩)
  | .f1, fuel + 1, _, _, hn => by
    apply good_of_core
    · simp [printMs, colon]
    · intro rest hr; simpa [printMs, colon] using readWrappers_const '1' rest hr
    · intro rest hr; simpa [printMs, colon] using pExpr_const ctx fuel '1' .f1 rest hr (Or.inr ⟨rfl, rfl⟩)
  | .pk_k k, fuel + 1, hs, _, hn => by
    simp only [shaped, beq_iff_eq] at hs
    refine good_call ctx _ _ .pk_k (hexChars k) (fun w => by simp [printMs]) (fun rest _ => ?_)
    exact pExpr_leaf ctx fuel .pk_k _ rest _ trivial
      (fun c hc => by have := plain_of_nameChar (hexChars_nameChar k c hc); exact ⟨this.1, this.2.1⟩)
      (by simp [pLeaf, parseKey_hex ctx k hs])
  | .pk_h k, fuel + 1, hs, _, hn => by
    simp only [shaped, beq_iff_eq] at hs
    refine good_call ctx _ _ .pk_h (hexChars k) (fun w => by simp [printMs]) (fun rest _ => ?_)
    exact pExpr_leaf ctx fuel .pk_h _ rest _ trivial
      (fun c hc => by have := plain_of_nameChar (hexChars_nameChar k c hc); exact ⟨this.1, this.2.1⟩)
      (by simp [pLeaf, parseKey_hex ctx k hs])
  | .older n, fuel + 1, _, _, hn => by
    refine good_call ctx _ _ .older (decChars n) (fun w => by simp [printMs]) (fun rest _ => ?_)
    exact pExpr_leaf ctx fuel .older _ rest _ trivial
      (fun c hc => by have := decChars_plain n c hc; exact ⟨this.1, this.2.1⟩)
      (by simp [pLeaf, parseDec_decChars _ (by simp only [numsOK, Bool.and_eq_true] at hn; first | exact hn | exact hn.1.1 | exact hn.1)])
  | .after n, fuel + 1, _, _, hn => by
    refine good_call ctx _ _ .after (decChars n) (fun w => by simp [printMs]) (fun rest _ => ?_)
    exact pExpr_leaf ctx fuel .after _ rest _ trivial
      (fun c hc => by have := decChars_plain n c hc; exact ⟨this.1, this.2.1⟩)
      (by simp [pLeaf, parseDec_decChars _ (by simp only [numsOK, Bool.and_eq_true] at hn; first | exact hn | exact hn.1.1 | exact hn.1)])
  | .hash h d, fuel + 1, _, _, hn => by
    refine good_call ctx _ _ (.hash h) (hexChars d) (fun w => by simp [printMs]) (fun rest _ => ?_)
    exact pExpr_leaf ctx fuel (.hash h) _ rest _ trivial
      (fun c hc => by have := plain_of_nameChar (hexChars_nameChar d c hc); exact ⟨this.1, this.2.1⟩)
      (by simp [pLeaf, fromHexWs_hexChars])
  | .multi k keys, fuel + 1, hs, _, hn => by
    simp only [shaped, Bool.and_eq_true, decide_eq_true_eq] at hs
    refine good_call ctx _ _ .multi (decChars k ++ keyList keys) (fun w => by simp [printMs]) (fun rest _ => ?_)
    refine pExpr_leaf ctx fuel .multi _ rest _ trivial ?_ ?_
    · intro c hc
      rcases List.mem_append.mp hc with hc | hc
      · have := decChars_plain k c hc; exact ⟨this.1, this.2.1⟩
      · exact keyList_noParen keys c hc
    · have hsplit := splitCommas_keyList (decChars k) (fun c hc => (decChars_plain k c hc).2.2.1) keys
      cases keys with
      | nil => simp at hs
      | cons k1 ks =>
        simp only [List.map_cons] at hsplit
        simp only [pLeaf, hsplit, parseDec_decChars _ (by simp only [numsOK, Bool.and_eq_true] at hn; first | exact hn | exact hn.1.1 | exact hn.1)]
        have := parseKeys_hex ctx (k1 :: ks) hs.2
        simp only [List.map_cons] at this
        simp [this]
  | .multi_a k keys, fuel + 1, hs, _, hn => by
    simp only [shaped, Bool.and_eq_true, decide_eq_true_eq] at hs
    refine good_call ctx _ _ .multi_a (decChars k ++ keyList keys) (fun w => by simp [printMs]) (fun rest _ => ?_)
    refine pExpr_leaf ctx fuel .multi_a _ rest _ trivial ?_ ?_
    · intro c hc
      rcases List.mem_append.mp hc with hc | hc
      · have := decChars_plain k c hc; exact ⟨this.1, this.2.1⟩
      · exact keyList_noParen keys c hc
    · have hsplit := splitCommas_keyList (decChars k) (fun c hc => (decChars_plain k c hc).2.2.1) keys
      cases keys with
      | nil => simp at hs
      | cons k1 ks =>
        simp only [List.map_cons] at hsplit
        simp only [pLeaf, hsplit, parseDec_decChars _ (by simp only [numsOK, Bool.and_eq_true] at hn; first | exact hn | exact hn.1.1 | exact hn.1)]
        have := parseKeys_hex ctx (k1 :: ks) hs.2
        simp only [List.map_cons] at this
        simp [this]
  | .wrap w x, fuel + 1, hs, hd, hn => by
    simp only [shaped] at hs
    simp only [depth] at hd
    by_cases h1 : w = .c ∧ ∃ k, x = .pk_k k
    · obtain ⟨rfl, k, rfl⟩ := h1
      simp only [shaped, beq_iff_eq] at hs
      refine good_call ctx _ _ .pk (hexChars k) (fun w => by simp [printMs]) (fun rest _ => ?_)
      exact pExpr_leaf ctx fuel .pk _ rest _ trivial
        (fun c hc => by have := plain_of_nameChar (hexChars_nameChar k c hc); exact ⟨this.1, this.2.1⟩)
        (by simp [pLeaf, parseKey_hex ctx k hs])
    · by_cases h2 : w = .c ∧ ∃ k, x = .pk_h k
      · obtain ⟨rfl, k, rfl⟩ := h2
        simp only [shaped, beq_iff_eq] at hs
        refine good_call ctx _ _ .pkh (hexChars k) (fun w => by simp [printMs]) (fun rest _ => ?_)
        exact pExpr_leaf ctx fuel .pkh _ rest _ trivial
          (fun c hc => by have := plain_of_nameChar (hexChars_nameChar k c hc); exact ⟨this.1, this.2.1⟩)
          (by simp [pLeaf, parseKey_hex ctx k hs])
      · have hx := good_all ctx x (fuel + 1) hs (by omega) (by simp only [numsOK, numsOKL, Bool.and_eq_true] at hn; simp [hn])
        refine good_of_letter ctx _ _ x w.letter (isLetter_wrap w) (fun wr => ?_) (applyLetter_wrap w x) hx
        rw [printMs]
        · intro k hw hxk; exact h1 ⟨hw, k, hxk⟩
        · intro k hw hxk; exact h2 ⟨hw, k, hxk⟩
  | .bin b x y, fuel + 1, hs, hd, hn => by
    simp only [shaped, Bool.and_eq_true] at hs
    simp only [depth] at hd
    by_cases h1 : b = .and_v ∧ y = .f1
    · obtain ⟨rfl, rfl⟩ := h1
      exact good_of_letter ctx _ _ x 't' (by simp [IsLetter]) (fun w => by simp [printMs]) rfl
        (good_all ctx x (fuel + 1) hs.1 (by omega) (by simp only [numsOK, numsOKL, Bool.and_eq_true] at hn; simp [hn]))
    · by_cases h2 : b = .or_i ∧ x = .f0
      · obtain ⟨rfl, rfl⟩ := h2
        exact good_of_letter ctx _ _ y 'l' (by simp [IsLetter]) (fun w => by simp [printMs]) rfl
          (good_all ctx y (fuel + 1) hs.2 (by omega) (by simp only [numsOK, numsOKL, Bool.and_eq_true] at hn; simp [hn]))
      · by_cases h3 : b = .or_i ∧ y = .f0
        · obtain ⟨rfl, rfl⟩ := h3
          refine good_of_letter ctx _ _ x 'u' (by simp [IsLetter]) (fun w => ?_) rfl
            (good_all ctx x (fuel + 1) hs.1 (by omega) (by simp only [numsOK, numsOKL, Bool.and_eq_true] at hn; simp [hn]))
          have : ¬ x = .f0 := fun h => h2 ⟨rfl, h⟩
          simp [printMs, this]
        · have gx := good_all ctx x fuel hs.1 (by omega) (by simp only [numsOK, numsOKL, Bool.and_eq_true] at hn; simp [hn])
          have gy := good_all ctx y fuel hs.2 (by omega) (by simp only [numsOK, numsOKL, Bool.and_eq_true] at hn; simp [hn])
          refine good_call ctx _ _ (.bin b) (printMs false x ++ ',' :: printMs false y)
            (fun w => by simp [printMs, h1, h2, h3]) (fun rest _ => ?_)
          rw [pExpr_call]
          have e1 := (gx (',' :: (printMs false y ++ ')' :: rest)) (stopRest_comma _)).1
          have e2 := (gy (')' :: rest) (stopRest_close _)).1
          simp only [List.append_assoc, List.cons_append] at e1 e2 ⊢
          simp [e1, e2, expect]
  | .andor x y z, fuel + 1, hs, hd, hn => by
    simp only [shaped, Bool.and_eq_true] at hs
    simp only [depth] at hd
    have gx := good_all ctx x fuel hs.1.1 (by omega) (by simp only [numsOK, numsOKL, Bool.and_eq_true] at hn; simp [hn])
    have gy := good_all ctx y fuel hs.1.2 (by omega) (by simp only [numsOK, numsOKL, Bool.and_eq_true] at hn; simp [hn])
    by_cases hz : z = .f0
    · subst hz
      refine good_call ctx _ _ .and_n (printMs false x ++ ',' :: printMs false y)
        (fun w => by simp [printMs]) (fun rest _ => ?_)
      rw [pExpr_call]
      have e1 := (gx (',' :: (printMs false y ++ ')' :: rest)) (stopRest_comma _)).1
      have e2 := (gy (')' :: rest) (stopRest_close _)).1
      simp only [List.append_assoc, List.cons_append] at e1 e2 ⊢
      simp [e1, e2, expect]
    · have gz := good_all ctx z fuel hs.2 (by omega) (by simp only [numsOK, numsOKL, Bool.and_eq_true] at hn; simp [hn])
      refine good_call ctx _ _ .andor
        (printMs false x ++ ',' :: (printMs false y ++ ',' :: printMs false z))
        (fun w => by simp [printMs, hz]) (fun rest _ => ?_)
      rw [pExpr_call]
      have e1 := (gx (',' :: (printMs false y ++ ',' :: (printMs false z ++ ')' :: rest)))
        (stopRest_comma _)).1
      have e2 := (gy (',' :: (printMs false z ++ ')' :: rest)) (stopRest_comma _)).1
      have e3 := (gz (')' :: rest) (stopRest_close _)).1
      simp only [List.append_assoc, List.cons_append] at e1 e2 e3 ⊢
      simp [e1, e2, e3, expect]
  | .thresh k x xs, fuel + 1, hs, hd, hn => by
    simp only [shaped, Bool.and_eq_true] at hs
    simp only [depth] at hd
    have gx := good_all ctx x fuel hs.1.2 (by omega) (by simp only [numsOK, numsOKL, Bool.and_eq_true] at hn; simp [hn])
    refine good_call ctx _ _ .thresh (decChars k ++ ',' :: (printMs false x ++ printRest xs))
      (fun w => by simp [printMs]) (fun rest _ => ?_)
    rw [pExpr_call]
    have hsp := span_name Char.isDigit (decChars k)
      (',' :: (printMs false x ++ (printRest xs ++ ')' :: rest))) (decChars_isDigit k)
      (by intro c t h; cases h; decide)
    have e1 := (gx (printRest xs ++ ')' :: rest) (stopRest_printRest xs rest)).1
    simp only [List.append_assoc, List.cons_append] at hsp e1 ⊢
    simp [hsp.1, hsp.2, parseDec_decChars _ (by simp only [numsOK, Bool.and_eq_true] at hn; first | exact hn | exact hn.1.1 | exact hn.1), expect, e1]
    exact good_rest ctx xs fuel hs.2 (by omega) (by simp only [numsOK, numsOKL, Bool.and_eq_true] at hn; simp [hn]) rest _ (by have := length_printRest xs; omega)
theorem good_rest (ctx : Ctx) : ∀ (xs : MsL) (fuel : Nat), shapedL ctx xs = true → depthL xs < fuel →
    numsOKL xs = true →
    ∀ (rest : List Char) (m : Nat), xs.length < m →
      pMoreWith (pWrappedWith (pExpr ctx fuel)) m (printRest xs ++ ')' :: rest) = some (xs, rest)
  | .nil, _, _, _, _, rest, m + 1, _ => by simp [printRest, pMoreWith]
  | .cons x xs, fuel, hs, hd, hn, rest, m + 1, hm => by
    simp only [shapedL, Bool.and_eq_true] at hs
    simp only [depthL] at hd
    simp only [MsL.length] at hm
    have gx := good_all ctx x fuel hs.1 (by omega) (by simp only [numsOK, numsOKL, Bool.and_eq_true] at hn; simp [hn])
    have e1 := (gx (printRest xs ++ ')' :: rest) (stopRest_printRest xs rest)).1
    have e2 := good_rest ctx xs fuel hs.2 (by omega) (by simp only [numsOK, numsOKL, Bool.and_eq_true] at hn; simp [hn]) rest m (by omega)
    simp only [printRest, List.append_assoc, List.cons_append] at e1 e2 ⊢
    simp [pMoreWith, e1, e2]
end

theorem call_length (k : NameKind) (body : List Char) : body.length + 2 ≤ (call k body).length := by
  simp [call]

mutual
theorem depth_lt_length : ∀ (n : Ms) (w : Bool), depth n < (printMs w n).length
  | .f0, _ => by simp [depth, printMs]
  | .f1, _ => by simp [depth, printMs]
  | .pk_k _, _ => by simp [depth, printMs, call]; omega
  | .pk_h _, _ => by simp [depth, printMs, call]; omega
  | .older _, _ => by simp [depth, printMs, call]; omega
  | .after _, _ => by simp [depth, printMs, call]; omega
  | .hash _ _, _ => by simp [depth, printMs, call]; omega
  | .multi _ _, _ => by simp [depth, printMs, call]; omega
  | .multi_a _ _, _ => by simp [depth, printMs, call]; omega
  | .wrap w x, wr => by
    have ih := depth_lt_length x true
    by_cases h1 : w = .c ∧ ∃ k, x = .pk_k k
    · obtain ⟨rfl, k, rfl⟩ := h1
      simp [depth, printMs, call, NameKind.chars]; omega
    · by_cases h2 : w = .c ∧ ∃ k, x = .pk_h k
      · obtain ⟨rfl, k, rfl⟩ := h2
        simp [depth, printMs, call, NameKind.chars]; omega
      · rw [printMs]
        · simp [depth]; omega
        · intro k hw hxk; exact h1 ⟨hw, k, hxk⟩
        · intro k hw hxk; exact h2 ⟨hw, k, hxk⟩
  | .bin b x y, wr => by
    have ihx := depth_lt_length x true
    have ihy := depth_lt_length y true
    have ihx' := depth_lt_length x false
    have ihy' := depth_lt_length y false
    have := call_length (.bin b) (printMs false x ++ ',' :: printMs false y)
    simp only [depth, printMs]
    split
    · rename_i h; obtain ⟨rfl, rfl⟩ := h; simp [depth] at ihy ⊢; omega
    · split
      · rename_i h; obtain ⟨rfl, rfl⟩ := h; simp [depth] at ihx ⊢; omega
      · split
        · rename_i h; obtain ⟨rfl, rfl⟩ := h; simp [depth] at ihy ⊢; omega
        · simp at this ⊢; omega
  | .andor x y z, wr => by
    have ihx := depth_lt_length x false
    have ihy := depth_lt_length y false
    have ihz := depth_lt_length z false
    have h1 := call_length .and_n (printMs false x ++ ',' :: printMs false y)
    have h2 := call_length .andor (printMs false x ++ ',' :: (printMs false y ++ ',' :: printMs false z))
    simp only [depth, printMs]
    split
    · rename_i h; subst h; simp [depth] at h1 ⊢; omega
    · simp at h2 ⊢; omega
  | .thresh k x xs, wr => by
    have ihx := depth_lt_length x false
    have ihl := depthL_le_length xs
    have h1 := call_length .thresh (decChars k ++ ',' :: (printMs false x ++ printRest xs))
    simp only [depth, printMs]
    simp at h1 ⊢; omega
theorem depthL_le_length : ∀ (xs : MsL), depthL xs ≤ (printRest xs).length
  | .nil => by simp [depthL]
  | .cons x xs => by
    have := depth_lt_length x false
    have := depthL_le_length xs
    simp [depthL, printRest]; omega
end

/-- the syntax round trip: `parseSyntax (toText n) = n` for every well-shaped expression. -/
theorem parseSyntax_toText (ctx : Ctx) (n : Ms) (hs : shaped ctx n = true)
    (hn : numsOK n = true) :
    parseSyntax ctx (toText n) = some n := by
  unfold parseSyntax toText
  have hd : depth n < (printMs false n).length.succ := by
    have := depth_lt_length n false; omega
  have := (good_all ctx n _ hs hd hn [] trivial).1
  simp only [List.append_nil] at this
  rw [this]

end Btc.Miniscript
