import Proofs.C15.Ops
import Proofs.C15.Num
/-!
C15 — T3 (partial): type soundness of the fragment set
  S1 = { 0, 1, pk_k, c:, v:, a:, and_v, and_b, or_b, or_i }
against the minimal stack semantics of `Model/C15/Eval.lean`.
-/
namespace Btc.Miniscript
open Btc Gen.Miniscript

/-! ### fields of the generated set algebra -/
@[simp] theorem or_B (a b : Props) : (a ||| b).B = (a.B || b.B) := rfl
@[simp] theorem or_V (a b : Props) : (a ||| b).V = (a.V || b.V) := rfl
@[simp] theorem or_K (a b : Props) : (a ||| b).K = (a.K || b.K) := rfl
@[simp] theorem or_W (a b : Props) : (a ||| b).W = (a.W || b.W) := rfl
@[simp] theorem or_x (a b : Props) : (a ||| b).x = (a.x || b.x) := rfl
@[simp] theorem and_B (a b : Props) : (a &&& b).B = (a.B && b.B) := rfl
@[simp] theorem and_V (a b : Props) : (a &&& b).V = (a.V && b.V) := rfl
@[simp] theorem and_K (a b : Props) : (a &&& b).K = (a.K && b.K) := rfl
@[simp] theorem and_W (a b : Props) : (a &&& b).W = (a.W && b.W) := rfl
@[simp] theorem and_x (a b : Props) : (a &&& b).x = (a.x && b.x) := rfl
@[simp] theorem when_B (c : Bool) (p : Props) : (Props.when c p).B = (c && p.B) := by cases c <;> rfl
@[simp] theorem when_V (c : Bool) (p : Props) : (Props.when c p).V = (c && p.V) := by cases c <;> rfl
@[simp] theorem when_K (c : Bool) (p : Props) : (Props.when c p).K = (c && p.K) := by cases c <;> rfl
@[simp] theorem when_W (c : Bool) (p : Props) : (Props.when c p).W = (c && p.W) := by cases c <;> rfl
@[simp] theorem when_x (c : Bool) (p : Props) : (Props.when c p).x = (c && p.x) := by cases c <;> rfl
@[simp] theorem or_u (a b : Props) : (a ||| b).u = (a.u || b.u) := rfl
@[simp] theorem and_u (a b : Props) : (a &&& b).u = (a.u && b.u) := rfl
@[simp] theorem when_u (c : Bool) (p : Props) : (Props.when c p).u = (c && p.u) := by cases c <;> rfl

/-- a typed expression: its type names exactly one basic type (`_sanitized` kept it). -/
def Typed (ctx : Ctx) (n : Ms) : Prop := (typeOf ctx n).basicCount = 1

theorem sanitized_eq (p : Props) (h : p.sanitized.basicCount = 1) : p.sanitized = p := by
  by_cases hp : p.basicCount = 1
  · simp [Props.sanitized, hp]
  · simp only [Props.sanitized, hp, if_false] at h
    exact absurd h (by decide)

/-! ### execution -/

@[simp] theorem exec_nil (E : EvalEnv) (s : St) : exec E [] s = some s := rfl

theorem exec_append (E : EvalEnv) (a b : List Op) (s : St) :
    exec E (a ++ b) s = (exec E a s).bind (exec E b) := by
  induction a generalizing s with
  | nil => simp [exec]
  | cons o os ih =>
    simp only [List.cons_append, exec]
    cases step E o s with
    | none => rfl
    | some s' => simpa using ih s'

mutual
/-- the fragment set covered by T3: since the quorums were added, every fragment (kept as a
    predicate so that a fragment added to the AST has to be placed). -/
def inS1 : Ms → Bool
  | .f0 | .f1 | .pk_k _ | .pk_h _ | .hash _ _ | .older _ | .after _ => true
  | .multi _ _ | .multi_a _ _ => true
  | .wrap w x => (w == .c || w == .v || w == .a || w == .n || w == .s || w == .d || w == .j) && inS1 x
  | .bin b x y =>
    (b == .and_v || b == .and_b || b == .or_b || b == .or_i || b == .or_c || b == .or_d) &&
      inS1 x && inS1 y
  | .andor x y z => inS1 x && inS1 y && inS1 z
  | .thresh _ x xs => inS1 x && inS1L xs
def inS1L : MsL → Bool
  | .nil => true
  | .cons x xs => inS1 x && inS1L xs
end

def Op.isControl : Op → Bool
  | .opif | .notif | .opelse | .endif => true
  | _ => false

theorem step_skip (E : EvalEnv) (o : Op) (s : St) (ho : o.isControl = false)
    (hc : executing s.conds = false) : step E o s = some s := by
  cases o <;> simp [Op.isControl] at ho <;> simp [step, hc]

theorem step_skip' (E : EvalEnv) (o : Op) (st al : List Bytes) (cs : List Bool)
    (ho : o.isControl = false) (hc : executing cs = false) :
    step E o ⟨st, al, cs⟩ = some ⟨st, al, cs⟩ := step_skip E o _ ho hc

theorem step_run' (E : EvalEnv) (o : Op) (st al : List Bytes) (cs : List Bool)
    (ho : o.isControl = false) (hc : executing cs = true) :
    step E o ⟨st, al, cs⟩ = stepExec E o ⟨st, al, cs⟩ := by
  cases o <;> simp [Op.isControl] at ho <;> simp [step, hc]

theorem step_run (E : EvalEnv) (o : Op) (s : St) (ho : o.isControl = false)
    (hc : executing s.conds = true) : step E o s = stepExec E o s := by
  cases o <;> simp [Op.isControl] at ho <;> simp [step, hc]

theorem executing_cons (c : Bool) (cs : List Bool) : executing (c :: cs) = (c && executing cs) := by
  simp [executing]

theorem exec_one_skip (E : EvalEnv) (o : Op) (st al : List Bytes) (cs : List Bool)
    (ho : o.isControl = false) (hc : executing cs = false) :
    exec E [o] ⟨st, al, cs⟩ = some ⟨st, al, cs⟩ := by
  simp [exec, step_skip' E o st al cs ho hc]

theorem exec_cons_skip (E : EvalEnv) (o : Op) (os : List Op) (st al : List Bytes)
    (cs : List Bool) (ho : o.isControl = false) (hc : executing cs = false) :
    exec E (o :: os) ⟨st, al, cs⟩ = exec E os ⟨st, al, cs⟩ := by
  simp [exec, step_skip' E o st al cs ho hc]

/-- an instruction list without IF/NOTIF/ELSE/ENDIF. -/
def plain (ops : List Op) : Bool := ops.all fun o => !o.isControl

theorem plain_append (a b : List Op) : plain (a ++ b) = (plain a && plain b) := by
  simp [plain, List.all_append]

theorem plain_cons (o : Op) (os : List Op) : plain (o :: os) = (!o.isControl && plain os) := by
  simp [plain]

theorem plain_nil : plain [] = true := rfl

theorem plain_map_push (keys : List Key) : plain (keys.map .push) = true := by
  simp [plain, Op.isControl]

theorem plain_checksigadd (keys : List Key) :
    plain (keys.flatMap fun k => [.push k, .checksigadd]) = true := by
  simp [plain, Op.isControl]

theorem plain_multiA (keys : List Key) : plain (multiAOps keys) = true := by
  cases keys with
  | nil => rfl
  | cons k ks =>
    simp only [multiAOps, plain_append, plain_checksigadd]
    rfl

/-- a list without conditionals, in a branch that is not executed, leaves the machine as it was. -/
theorem exec_skip_plain (E : EvalEnv) : ∀ (ops : List Op) (st al : List Bytes) (cs : List Bool),
    plain ops = true → executing cs = false → exec E ops ⟨st, al, cs⟩ = some ⟨st, al, cs⟩
  | [], _, _, _, _, _ => rfl
  | o :: os, st, al, cs, hp, hc => by
    simp only [plain, List.all_cons, Bool.and_eq_true, Bool.not_eq_true'] at hp
    rw [exec_cons_skip E o os st al cs hp.1 hc]
    exact exec_skip_plain E os st al cs (by simpa [plain] using hp.2) hc

mutual
/-- a branch that is not executed leaves the machine as it was. -/
theorem exec_skip (E : EvalEnv) (ctx : Ctx) (h160 : Bytes → Bytes) :
    ∀ (n : Ms) (v : Bool) (st al : List Bytes) (cs : List Bool), inS1 n = true →
      executing cs = false →
      exec E (opsOf ctx h160 v n) ⟨st, al, cs⟩ = some ⟨st, al, cs⟩
  | .f0, _, st, al, cs, _, hc => exec_one_skip E .op0 st al cs rfl hc
  | .f1, _, st, al, cs, _, hc => exec_one_skip E .op1 st al cs rfl hc
  | .pk_k k, _, st, al, cs, _, hc => exec_one_skip E (.push k) st al cs rfl hc
  | .pk_h k, _, st, al, cs, _, hc => by
    have hs := fun o ho os => exec_cons_skip E o os st al cs ho hc
    simp [opsOf, hs .dup rfl, hs .hash160 rfl, hs (.push (h160 k)) rfl, hs .equalverify rfl]
  | .older n, _, st, al, cs, _, hc => by
    have hs := fun o ho os => exec_cons_skip E o os st al cs ho hc
    simp [opsOf, hs (.pushnum n) rfl, hs .csv rfl]
  | .after n, _, st, al, cs, _, hc => by
    have hs := fun o ho os => exec_cons_skip E o os st al cs ho hc
    simp [opsOf, hs (.pushnum n) rfl, hs .cltv rfl]
  | .hash h d, v, st, al, cs, _, hc => by
    have hs := fun o ho os => exec_cons_skip E o os st al cs ho hc
    cases v <;> simp [opsOf, hs .size rfl, hs (.pushnum 32) rfl, hs .equalverify rfl, hs (.hashop h) rfl,
      hs (.push d) rfl, hs .equal rfl]
  | .wrap w x, v, st, al, cs, hin, hc => by
    simp only [inS1, Bool.and_eq_true, Bool.or_eq_true, beq_iff_eq] at hin
    have H := fun v => exec_skip E ctx h160 x v st al cs hin.2 hc
    have hs := fun o ho os => exec_cons_skip E o os st al cs ho hc
    rcases hin.1 with (((((rfl | rfl) | rfl) | rfl) | rfl) | rfl) | rfl
    · cases v <;> simp [opsOf, exec_append, H, hs .checksig rfl, hs .checksigverify rfl]
    · simp only [opsOf, exec_append, H]
      split <;> simp [hs .verify rfl]
    · simp [opsOf, exec_append, H, hs .toalt rfl, hs .fromalt rfl]
    · simp [opsOf, exec_append, H, hs .zeronotequal rfl]
    · simp [opsOf, exec_append, H, hs .swap rfl]
    · have H' := exec_skip E ctx h160 x false st al (false :: cs) hin.2 (by simp [executing_cons])
      simp [opsOf, exec_append, hs .dup rfl, exec, step, hc, H']
    · have H' := exec_skip E ctx h160 x false st al (false :: cs) hin.2 (by simp [executing_cons])
      simp [opsOf, exec_append, hs .size rfl, hs .zeronotequal rfl, exec, step, hc, H']
  | .bin b x y, v, st, al, cs, hin, hc => by
    simp only [inS1, Bool.and_eq_true, Bool.or_eq_true, beq_iff_eq] at hin
    have Hx := fun v => exec_skip E ctx h160 x v st al cs hin.1.2 hc
    have Hy := fun v => exec_skip E ctx h160 y v st al cs hin.2 hc
    have hs := fun o ho os => exec_cons_skip E o os st al cs ho hc
    have Hx' := exec_skip E ctx h160 x false st al (false :: cs) hin.1.2 (by simp [executing_cons])
    have Hy' := exec_skip E ctx h160 y false st al (true :: cs) hin.2 (by simp [executing_cons, hc])
    have Hy'' := exec_skip E ctx h160 y false st al (false :: cs) hin.2 (by simp [executing_cons])
    rcases hin.1.1 with ((((rfl | rfl) | rfl) | rfl) | rfl) | rfl
    · simp [opsOf, exec_append, Hx, Hy]
    · simp [opsOf, exec_append, Hx, Hy, hs .booland rfl]
    · simp [opsOf, exec_append, Hx, Hy, hs .boolor rfl]
    · simp [opsOf, exec_append, exec, step, hc, Hx', Hy']
    · simp [opsOf, exec_append, Hx, exec, step, hc, Hy'']
    · simp [opsOf, exec_append, Hx, hs .ifdup rfl, exec, step, hc, Hy'']
  | .andor x y z, v, st, al, cs, hin, hc => by
    simp only [inS1, Bool.and_eq_true] at hin
    have Hx := exec_skip E ctx h160 x false st al cs hin.1.1 hc
    have Hz := exec_skip E ctx h160 z false st al (false :: cs) hin.2 (by simp [executing_cons])
    have Hy := exec_skip E ctx h160 y false st al (true :: cs) hin.1.2 (by simp [executing_cons, hc])
    simp [opsOf, exec_append, Hx, exec, step, hc, Hz, Hy]
  | .multi k keys, v, st, al, cs, _, hc => by
    refine exec_skip_plain E _ st al cs ?_ hc
    cases v <;> simp [opsOf, plain_append, plain_cons, plain_nil, plain_map_push, Op.isControl]
  | .multi_a k keys, v, st, al, cs, _, hc => by
    refine exec_skip_plain E _ st al cs ?_ hc
    cases v <;> simp [opsOf, plain_append, plain_cons, plain_nil, plain_multiA, Op.isControl]
  | .thresh k x xs, v, st, al, cs, hin, hc => by
    simp only [inS1, Bool.and_eq_true] at hin
    have Hx := exec_skip E ctx h160 x false st al cs hin.1 hc
    have Hxs := exec_skipL E ctx h160 xs st al cs hin.2 hc
    have hs := fun o ho os => exec_cons_skip E o os st al cs ho hc
    cases v <;> simp [opsOf, exec_append, Hx, Hxs, hs (.pushnum k) rfl, hs .equal rfl, hs .equalverify rfl]
theorem exec_skipL (E : EvalEnv) (ctx : Ctx) (h160 : Bytes → Bytes) :
    ∀ (xs : MsL) (st al : List Bytes) (cs : List Bool), inS1L xs = true →
      executing cs = false →
      exec E (opsRest ctx h160 xs) ⟨st, al, cs⟩ = some ⟨st, al, cs⟩
  | .nil, _, _, _, _, _ => rfl
  | .cons x xs, st, al, cs, hin, hc => by
    simp only [inS1L, Bool.and_eq_true] at hin
    have Hx := exec_skip E ctx h160 x false st al cs hin.1 hc
    have Hxs := exec_skipL E ctx h160 xs st al cs hin.2 hc
    have hs := fun o ho os => exec_cons_skip E o os st al cs ho hc
    simp [opsRest, exec_append, Hx, Hxs, hs .add rfl]
end

/-! ### what satisfies and what dissatisfies (BIP379's tables, stack order: head = top) -/

/-- the elements a `multi_a(k, keys)` reads, top first: one per key, first key on top — empty, or a
    signature that verifies under that key; `c` counts the signatures. -/
inductive SigRow (E : EvalEnv) : List Key → List Bytes → Nat → Prop
  | nil : SigRow E [] [] 0
  | skip (k : Key) (ks : List Key) (s : List Bytes) (c : Nat) :
    SigRow E ks s c → SigRow E (k :: ks) ([] :: s) c
  | sign (k : Key) (ks : List Key) (σ : Bytes) (s : List Bytes) (c : Nat) :
    E.sigOK k σ = true → SigRow E ks s c → SigRow E (k :: ks) (σ :: s) (c + 1)

/-- the signatures an OP_CHECKMULTISIG reads: each verifies under a key of the list, in the order
    of the keys (keys may be left out). -/
inductive SigSub (E : EvalEnv) : List Key → List Bytes → Prop
  | nil : SigSub E [] []
  | skip (k : Key) (ks : List Key) (s : List Bytes) : SigSub E ks s → SigSub E (k :: ks) s
  | sign (k : Key) (ks : List Key) (σ : Bytes) (s : List Bytes) :
    E.sigOK k σ = true → SigSub E ks s → SigSub E (k :: ks) (σ :: s)

mutual
/-- `Sat E n s`: the stack segment `s` (top first) is a satisfaction of `n`: every candidate
    `_computed_input` lists under `sat` (the overcomplete ones included). -/
inductive Sat (E : EvalEnv) : Ms → List Bytes → Prop
  | multi (k : Nat) (keys : List Key) (sigs : List Bytes) :
    sigs.length = k → SigSub E keys.reverse sigs → Sat E (.multi k keys) (sigs ++ [[]])
  | multi_a (k : Nat) (keys : List Key) (s : List Bytes) :
    SigRow E keys s k → Sat E (.multi_a k keys) s
  | thresh (k : Nat) (x : Ms) (xs : MsL) (s : List Bytes) :
    SatL E (.cons x xs) s k → Sat E (.thresh k x xs) s
  | f1 : Sat E .f1 []
  | pk_k (k : Key) (σ : Bytes) : E.sigOK k σ = true → Sat E (.pk_k k) [σ]
  | pk_h (k : Key) (σ : Bytes) : E.sigOK k σ = true → Sat E (.pk_h k) [k, σ]
  | hash (h : HashKind) (d p : Bytes) : p.length = 32 → E.hashF h p = d → Sat E (.hash h d) [p]
  | older (n : Nat) : E.csvOK (encodeNum n) = true → Sat E (.older n) []
  | after (n : Nat) : E.cltvOK (encodeNum n) = true → Sat E (.after n) []
  | wrap (w : Wrap) (x : Ms) (s : List Bytes) : w ≠ .d → w ≠ .j → Sat E x s → Sat E (.wrap w x) s
  | wrap_d (x : Ms) (s : List Bytes) : Sat E x s → Sat E (.wrap .d x) ([1] :: s)
  | wrap_j (x : Ms) (s : List Bytes) : Sat E x s → (∀ e ∈ s, e.length ≤ 520) → Sat E (.wrap .j x) s
  | and_v (x y : Ms) (sx sy : List Bytes) :
    Sat E x sx → Sat E y sy → Sat E (.bin .and_v x y) (sx ++ sy)
  | and_b (x y : Ms) (sx sy : List Bytes) :
    Sat E x sx → Sat E y sy → Sat E (.bin .and_b x y) (sx ++ sy)
  | or_b_l (x y : Ms) (sx sy : List Bytes) :
    Sat E x sx → Dsat E y sy → Sat E (.bin .or_b x y) (sx ++ sy)
  | or_b_r (x y : Ms) (sx sy : List Bytes) :
    Dsat E x sx → Sat E y sy → Sat E (.bin .or_b x y) (sx ++ sy)
  | or_b_both (x y : Ms) (sx sy : List Bytes) :
    Sat E x sx → Sat E y sy → Sat E (.bin .or_b x y) (sx ++ sy)
  | or_i_l (x y : Ms) (sx : List Bytes) : Sat E x sx → Sat E (.bin .or_i x y) ([1] :: sx)
  | or_i_r (x y : Ms) (sy : List Bytes) : Sat E y sy → Sat E (.bin .or_i x y) ([] :: sy)
  | or_c_l (x y : Ms) (sx : List Bytes) : Sat E x sx → Sat E (.bin .or_c x y) sx
  | or_c_r (x y : Ms) (sx sy : List Bytes) :
    Dsat E x sx → Sat E y sy → Sat E (.bin .or_c x y) (sx ++ sy)
  | or_d_l (x y : Ms) (sx : List Bytes) : Sat E x sx → Sat E (.bin .or_d x y) sx
  | or_d_r (x y : Ms) (sx sy : List Bytes) :
    Dsat E x sx → Sat E y sy → Sat E (.bin .or_d x y) (sx ++ sy)
  | andor_l (x y z : Ms) (sx sy : List Bytes) :
    Sat E x sx → Sat E y sy → Sat E (.andor x y z) (sx ++ sy)
  | andor_r (x y z : Ms) (sx sz : List Bytes) :
    Dsat E x sx → Sat E z sz → Sat E (.andor x y z) (sx ++ sz)
/-- `Dsat E n s`: a dissatisfaction. -/
inductive Dsat (E : EvalEnv) : Ms → List Bytes → Prop
  | multi (k : Nat) (keys : List Key) : Dsat E (.multi k keys) (List.replicate (k + 1) [])
  | multi_a (k : Nat) (keys : List Key) (s : List Bytes) (c : Nat) :
    SigRow E keys s c → c ≠ k → Dsat E (.multi_a k keys) s
  | thresh (k : Nat) (x : Ms) (xs : MsL) (s : List Bytes) (c : Nat) :
    SatL E (.cons x xs) s c → c ≠ k → Dsat E (.thresh k x xs) s
  | f0 : Dsat E .f0 []
  | pk_k (k : Key) : Dsat E (.pk_k k) [[]]
  | pk_h (k : Key) : Dsat E (.pk_h k) [k, []]
  | hash (h : HashKind) (d p : Bytes) : p.length = 32 → E.hashF h p ≠ d → Dsat E (.hash h d) [p]
  | wrap_c (x : Ms) (s : List Bytes) : Dsat E x s → Dsat E (.wrap .c x) s
  | wrap_a (x : Ms) (s : List Bytes) : Dsat E x s → Dsat E (.wrap .a x) s
  | and_v_d (x y : Ms) (sx sy : List Bytes) :
    Sat E x sx → Dsat E y sy → Dsat E (.bin .and_v x y) (sx ++ sy)
  | and_b (x y : Ms) (sx sy : List Bytes) :
    Dsat E x sx → Dsat E y sy → Dsat E (.bin .and_b x y) (sx ++ sy)
  | and_b_l (x y : Ms) (sx sy : List Bytes) :
    Sat E x sx → Dsat E y sy → Dsat E (.bin .and_b x y) (sx ++ sy)
  | and_b_r (x y : Ms) (sx sy : List Bytes) :
    Dsat E x sx → Sat E y sy → Dsat E (.bin .and_b x y) (sx ++ sy)
  | or_b (x y : Ms) (sx sy : List Bytes) :
    Dsat E x sx → Dsat E y sy → Dsat E (.bin .or_b x y) (sx ++ sy)
  | or_i_l (x y : Ms) (sx : List Bytes) : Dsat E x sx → Dsat E (.bin .or_i x y) ([1] :: sx)
  | or_i_r (x y : Ms) (sy : List Bytes) : Dsat E y sy → Dsat E (.bin .or_i x y) ([] :: sy)
  | wrap_n (x : Ms) (s : List Bytes) : Dsat E x s → Dsat E (.wrap .n x) s
  | wrap_s (x : Ms) (s : List Bytes) : Dsat E x s → Dsat E (.wrap .s x) s
  | wrap_d (x : Ms) : Dsat E (.wrap .d x) [[]]
  | wrap_j (x : Ms) : Dsat E (.wrap .j x) [[]]
  | or_d (x y : Ms) (sx sy : List Bytes) :
    Dsat E x sx → Dsat E y sy → Dsat E (.bin .or_d x y) (sx ++ sy)
  | andor (x y z : Ms) (sx sz : List Bytes) :
    Dsat E x sx → Dsat E z sz → Dsat E (.andor x y z) (sx ++ sz)
  | andor_y (x y z : Ms) (sx sy : List Bytes) :
    Sat E x sx → Dsat E y sy → Dsat E (.andor x y z) (sx ++ sy)
/-- `SatL E xs s c`: `s` is, top first, one satisfaction or dissatisfaction per argument of a
    `thresh()`, first argument on top; `c` of them are satisfactions. -/
inductive SatL (E : EvalEnv) : MsL → List Bytes → Nat → Prop
  | nil : SatL E .nil [] 0
  | sat (x : Ms) (xs : MsL) (sx s : List Bytes) (c : Nat) :
    Sat E x sx → SatL E xs s c → SatL E (.cons x xs) (sx ++ s) (c + 1)
  | dsat (x : Ms) (xs : MsL) (sx s : List Bytes) (c : Nat) :
    Dsat E x sx → SatL E xs s c → SatL E (.cons x xs) (sx ++ s) c
end

section
variable (E : EvalEnv) (ctx : Ctx) (h160 : Bytes → Bytes)

/-- a true value that the numeric op codes can read: at most four bytes, `CastToBool`. -/
def Truthy (v : Bytes) : Prop := numTruth v = some true

theorem truthy_one : Truthy [1] := by unfold Truthy; decide

theorem numTruth_nil : numTruth [] = some false := by decide

theorem truthy_cast {v : Bytes} (h : Truthy v) : castToBool v = true := by
  unfold Truthy numTruth at h
  split at h <;> simp_all

/-- what type "B" promises: a satisfaction leaves a true value on the stack — exactly 0x01 when the
    type has "u" —, a dissatisfaction the empty vector, nothing else is touched; and verified
    (`v:`), a satisfaction leaves nothing. -/
def SoundB (n : Ms) : Prop :=
  (∀ s stk al cs, executing cs = true → Sat E n s → ∃ v, Truthy v ∧ ((typeOf ctx n).u = true → v = [1]) ∧
    exec E (opsOf ctx h160 false n) ⟨s ++ stk, al, cs⟩ = some ⟨v :: stk, al, cs⟩) ∧
  (∀ s stk al cs, executing cs = true → Dsat E n s →
    exec E (opsOf ctx h160 false n) ⟨s ++ stk, al, cs⟩ = some ⟨[] :: stk, al, cs⟩) ∧
  (∀ s stk al cs, executing cs = true → Sat E n s →
    exec E (opsOf ctx h160 true n ++ if (typeOf ctx n).x then [.verify] else [])
      ⟨s ++ stk, al, cs⟩ = some ⟨stk, al, cs⟩)

/-- type "V": a satisfaction is consumed and nothing is left. -/
def SoundV (n : Ms) : Prop :=
  ∀ s stk al cs, executing cs = true → Sat E n s →
    exec E (opsOf ctx h160 false n) ⟨s ++ stk, al, cs⟩ = some ⟨stk, al, cs⟩

/-- type "K": a key is left on top of a signature that verifies (satisfaction) or does not. -/
def SoundK (n : Ms) : Prop :=
  (∀ s stk al cs, executing cs = true → Sat E n s → ∃ k σ, E.sigOK k σ = true ∧
    exec E (opsOf ctx h160 false n) ⟨s ++ stk, al, cs⟩ = some ⟨k :: σ :: stk, al, cs⟩) ∧
  (∀ s stk al cs, executing cs = true → Dsat E n s → ∃ k σ, (E.sigOK k σ = false ∧ σ = []) ∧
    exec E (opsOf ctx h160 false n) ⟨s ++ stk, al, cs⟩ = some ⟨k :: σ :: stk, al, cs⟩)

/-- type "W": the same as "B", reading from under the top element and writing next to it. -/
def SoundW (n : Ms) : Prop :=
  (∀ top s stk al cs, executing cs = true → Sat E n s → ∃ v r, Truthy v ∧
    ((typeOf ctx n).u = true → v = [1]) ∧
    exec E (opsOf ctx h160 false n) ⟨top :: (s ++ stk), al, cs⟩ = some ⟨r, al, cs⟩ ∧
    (r = v :: top :: stk ∨ r = top :: v :: stk)) ∧
  (∀ top s stk al cs, executing cs = true → Dsat E n s → ∃ r,
    exec E (opsOf ctx h160 false n) ⟨top :: (s ++ stk), al, cs⟩ = some ⟨r, al, cs⟩ ∧
    (r = [] :: top :: stk ∨ r = top :: [] :: stk))

def Sound (n : Ms) : Prop :=
  ((typeOf ctx n).B = true → SoundB E ctx h160 n) ∧
  ((typeOf ctx n).V = true → SoundV E ctx h160 n) ∧
  ((typeOf ctx n).K = true → SoundK E ctx h160 n) ∧
  ((typeOf ctx n).W = true → SoundW E ctx h160 n)

end

theorem basic_excl (p : Props) (h : p.basicCount = 1) :
    (p.B = true → p.V = false ∧ p.K = false ∧ p.W = false) ∧
    (p.V = true → p.B = false ∧ p.K = false ∧ p.W = false) ∧
    (p.K = true → p.B = false ∧ p.V = false ∧ p.W = false) ∧
    (p.W = true → p.B = false ∧ p.V = false ∧ p.K = false) := by
  unfold Props.basicCount at h
  cases hB : p.B <;> cases hV : p.V <;> cases hK : p.K <;> cases hW : p.W <;> simp_all

/-! ### what the (generated) type tables say about S1 -/

section
variable (ctx : Ctx)

theorem ty_c (x : Ms) (h : Typed ctx (.wrap .c x)) :
    (typeOf ctx x).K = true ∧ (typeOf ctx (.wrap .c x)).B = true ∧
      (typeOf ctx (.wrap .c x)).x = false := by
  unfold Typed at h
  simp only [typeOf] at h ⊢
  rw [sanitized_eq _ h]
  rw [sanitized_eq _ h] at h
  simp [wrapperProperties, Props.basicCount, Props.has] at h ⊢
  exact h

theorem ty_v (x : Ms) (h : Typed ctx (.wrap .v x)) :
    (typeOf ctx x).B = true ∧ (typeOf ctx (.wrap .v x)).V = true := by
  unfold Typed at h
  simp only [typeOf] at h ⊢
  rw [sanitized_eq _ h]
  rw [sanitized_eq _ h] at h
  simp [wrapperProperties, Props.basicCount, Props.has] at h ⊢
  exact h

theorem ty_a (x : Ms) (h : Typed ctx (.wrap .a x)) :
    (typeOf ctx x).B = true ∧ (typeOf ctx (.wrap .a x)).W = true := by
  unfold Typed at h
  simp only [typeOf] at h ⊢
  rw [sanitized_eq _ h]
  rw [sanitized_eq _ h] at h
  simp [wrapperProperties, Props.basicCount, Props.has] at h ⊢
  exact h

theorem ty_and_v (x y : Ms) (h : Typed ctx (.bin .and_v x y)) :
    (typeOf ctx x).V = true ∧
    (typeOf ctx (.bin .and_v x y)).B = (typeOf ctx y).B ∧
    (typeOf ctx (.bin .and_v x y)).V = (typeOf ctx y).V ∧
    (typeOf ctx (.bin .and_v x y)).K = (typeOf ctx y).K ∧
    (typeOf ctx (.bin .and_v x y)).x = (typeOf ctx y).x ∧
    (typeOf ctx (.bin .and_v x y)).W = false := by
  unfold Typed at h
  simp only [typeOf, Bin.isAnd, if_true] at h ⊢
  rw [sanitized_eq _ h]
  rw [sanitized_eq _ h] at h
  simp [andProperties, Props.basicCount, Props.has] at h ⊢
  cases hV : (typeOf ctx x).V <;> simp_all

theorem ty_and_b (x y : Ms) (h : Typed ctx (.bin .and_b x y)) :
    (typeOf ctx x).B = true ∧ (typeOf ctx y).W = true ∧
    (typeOf ctx (.bin .and_b x y)).B = true ∧ (typeOf ctx (.bin .and_b x y)).x = true := by
  unfold Typed at h
  simp only [typeOf, Bin.isAnd, if_true] at h ⊢
  rw [sanitized_eq _ h]
  rw [sanitized_eq _ h] at h
  simp [andProperties, Props.basicCount, Props.has] at h ⊢
  cases hB : (typeOf ctx x).B <;> cases hW : (typeOf ctx y).W <;> simp_all

theorem ty_or_b (x y : Ms) (h : Typed ctx (.bin .or_b x y)) :
    (typeOf ctx x).B = true ∧ (typeOf ctx y).W = true ∧
    (typeOf ctx (.bin .or_b x y)).B = true ∧ (typeOf ctx (.bin .or_b x y)).x = true := by
  unfold Typed at h
  simp only [typeOf, Bin.isAnd] at h ⊢
  rw [sanitized_eq _ h]
  rw [sanitized_eq _ h] at h
  simp [orProperties, Props.basicCount, Props.has] at h ⊢
  cases hB : (typeOf ctx x).B <;> cases hW : (typeOf ctx y).W <;> simp_all

theorem ty_or_i (x y : Ms) (h : Typed ctx (.bin .or_i x y)) :
    (typeOf ctx (.bin .or_i x y)).B = ((typeOf ctx x).B && (typeOf ctx y).B) ∧
    (typeOf ctx (.bin .or_i x y)).V = ((typeOf ctx x).V && (typeOf ctx y).V) ∧
    (typeOf ctx (.bin .or_i x y)).K = ((typeOf ctx x).K && (typeOf ctx y).K) ∧
    (typeOf ctx (.bin .or_i x y)).W = false ∧
    (typeOf ctx (.bin .or_i x y)).x = true := by
  unfold Typed at h
  simp only [typeOf, Bin.isAnd] at h ⊢
  rw [sanitized_eq _ h]
  simp [orProperties, Props.has]

theorem ty_n (x : Ms) (h : Typed ctx (.wrap .n x)) :
    (typeOf ctx x).B = true ∧ (typeOf ctx (.wrap .n x)).B = true ∧
      (typeOf ctx (.wrap .n x)).x = true := by
  unfold Typed at h
  simp only [typeOf] at h ⊢
  rw [sanitized_eq _ h]
  rw [sanitized_eq _ h] at h
  simp [wrapperProperties, Props.basicCount, Props.has] at h ⊢
  exact h

theorem ty_or_d (x y : Ms) (h : Typed ctx (.bin .or_d x y)) :
    (typeOf ctx x).B = true ∧ (typeOf ctx y).B = true ∧
    (typeOf ctx (.bin .or_d x y)).B = true ∧ (typeOf ctx (.bin .or_d x y)).x = true := by
  unfold Typed at h
  simp only [typeOf, Bin.isAnd] at h ⊢
  rw [sanitized_eq _ h]
  rw [sanitized_eq _ h] at h
  simp [orProperties, Props.basicCount, Props.has] at h ⊢
  cases hB : (typeOf ctx x).B <;> cases hB' : (typeOf ctx y).B <;> simp_all

theorem ty_or_c (x y : Ms) (h : Typed ctx (.bin .or_c x y)) :
    (typeOf ctx x).B = true ∧ (typeOf ctx y).V = true ∧
    (typeOf ctx (.bin .or_c x y)).V = true := by
  unfold Typed at h
  simp only [typeOf, Bin.isAnd] at h ⊢
  rw [sanitized_eq _ h]
  rw [sanitized_eq _ h] at h
  simp [orProperties, Props.basicCount, Props.has] at h ⊢
  cases hB : (typeOf ctx x).B <;> cases hB' : (typeOf ctx y).V <;> simp_all

theorem ty_andor (x y z : Ms) (h : Typed ctx (.andor x y z)) :
    (typeOf ctx x).B = true ∧
    (typeOf ctx (.andor x y z)).B = ((typeOf ctx y).B && (typeOf ctx z).B) ∧
    (typeOf ctx (.andor x y z)).V = ((typeOf ctx y).V && (typeOf ctx z).V) ∧
    (typeOf ctx (.andor x y z)).K = ((typeOf ctx y).K && (typeOf ctx z).K) ∧
    (typeOf ctx (.andor x y z)).W = false ∧
    (typeOf ctx (.andor x y z)).x = true := by
  unfold Typed at h
  simp only [typeOf] at h ⊢
  rw [sanitized_eq _ h]
  rw [sanitized_eq _ h] at h
  simp [andorProperties, Props.basicCount, Props.has] at h ⊢
  cases hB : (typeOf ctx x).B <;> cases hd : (typeOf ctx x).d <;> cases hu : (typeOf ctx x).u <;>
    simp_all

@[simp] theorem or_z (a b : Props) : (a ||| b).z = (a.z || b.z) := rfl
@[simp] theorem or_o (a b : Props) : (a ||| b).o = (a.o || b.o) := rfl
@[simp] theorem and_z (a b : Props) : (a &&& b).z = (a.z && b.z) := rfl
@[simp] theorem and_o (a b : Props) : (a &&& b).o = (a.o && b.o) := rfl
@[simp] theorem when_z (c : Bool) (p : Props) : (Props.when c p).z = (c && p.z) := by cases c <;> rfl
@[simp] theorem when_o (c : Bool) (p : Props) : (Props.when c p).o = (c && p.o) := by cases c <;> rfl

theorem zo_wrap (w : Wrap) (x : Ms) (h : Typed ctx (.wrap w x)) :
    (typeOf ctx (.wrap w x)).z = (match w with | .v | .n => (typeOf ctx x).z | _ => false) ∧
    (typeOf ctx (.wrap w x)).o = (match w with | .c | .v | .n | .j => (typeOf ctx x).o | .d => (typeOf ctx x).z | _ => false) := by
  unfold Typed at h
  simp only [typeOf] at h ⊢
  rw [sanitized_eq _ h]
  cases w <;> simp [wrapperProperties, Props.has]

theorem zo_bin (b : Bin) (x y : Ms) (h : Typed ctx (.bin b x y)) :
    (typeOf ctx (.bin b x y)).z = (match b with | .or_i => false | _ => (typeOf ctx x).z && (typeOf ctx y).z) ∧
    (typeOf ctx (.bin b x y)).o = (match b with
      | .or_i => (typeOf ctx x).z && (typeOf ctx y).z
      | .or_c | .or_d => (typeOf ctx y).z && (typeOf ctx x).o
      | _ => ((typeOf ctx x).z || (typeOf ctx y).z) && ((typeOf ctx x).o || (typeOf ctx y).o)) := by
  unfold Typed at h
  simp only [typeOf] at h ⊢
  cases b <;> simp only [Bin.isAnd, if_true, Bool.false_eq_true, if_false] at h ⊢ <;> rw [sanitized_eq _ h] <;>
    simp [andProperties, orProperties, Props.has]

theorem zo_andor (x y z : Ms) (h : Typed ctx (.andor x y z)) :
    (typeOf ctx (.andor x y z)).z = ((typeOf ctx x).z && (typeOf ctx y).z && (typeOf ctx z).z) ∧
    (typeOf ctx (.andor x y z)).o = (((typeOf ctx x).z || ((typeOf ctx y).z && (typeOf ctx z).z)) &&
      ((typeOf ctx x).o || ((typeOf ctx y).o && (typeOf ctx z).o))) := by
  unfold Typed at h
  simp only [typeOf] at h ⊢
  rw [sanitized_eq _ h]
  simp [andorProperties, Props.has]

theorem ty_s (x : Ms) (h : Typed ctx (.wrap .s x)) :
    (typeOf ctx x).B = true ∧ (typeOf ctx x).o = true ∧ (typeOf ctx (.wrap .s x)).W = true := by
  unfold Typed at h
  simp only [typeOf] at h ⊢
  rw [sanitized_eq _ h]
  rw [sanitized_eq _ h] at h
  simp [wrapperProperties, Props.basicCount, Props.has] at h ⊢
  exact ⟨h.1, h.2, h⟩

theorem ty_d (x : Ms) (h : Typed ctx (.wrap .d x)) :
    (typeOf ctx x).V = true ∧ (typeOf ctx x).z = true ∧ (typeOf ctx (.wrap .d x)).B = true ∧
      (typeOf ctx (.wrap .d x)).x = true := by
  unfold Typed at h
  simp only [typeOf] at h ⊢
  rw [sanitized_eq _ h]
  rw [sanitized_eq _ h] at h
  simp [wrapperProperties, Props.basicCount, Props.has] at h ⊢
  exact ⟨h.1, h.2, h⟩

theorem u_wrap_as (w : Wrap) (hw : w = .a ∨ w = .s) (x : Ms) (h : Typed ctx (.wrap w x)) :
    (typeOf ctx (.wrap w x)).u = (typeOf ctx x).u := by
  unfold Typed at h
  simp only [typeOf] at h ⊢
  rw [sanitized_eq _ h]
  rcases hw with rfl | rfl <;> simp [wrapperProperties, Props.has]

@[simp] theorem or_n (a b : Props) : (a ||| b).n = (a.n || b.n) := rfl
@[simp] theorem and_n' (a b : Props) : (a &&& b).n = (a.n && b.n) := rfl
@[simp] theorem when_n (c : Bool) (p : Props) : (Props.when c p).n = (c && p.n) := by cases c <;> rfl

theorem n_wrap (w : Wrap) (x : Ms) (h : Typed ctx (.wrap w x)) :
    (typeOf ctx (.wrap w x)).n = (match w with | .c | .v | .n => (typeOf ctx x).n | .d | .j => true | _ => false) := by
  unfold Typed at h
  simp only [typeOf] at h ⊢
  rw [sanitized_eq _ h]
  cases w <;> simp [wrapperProperties, Props.has]

theorem n_bin (b : Bin) (x y : Ms) (h : Typed ctx (.bin b x y)) :
    (typeOf ctx (.bin b x y)).n = (match b with
      | .and_v | .and_b => (typeOf ctx x).n || ((typeOf ctx x).z && (typeOf ctx y).n)
      | _ => false) := by
  unfold Typed at h
  simp only [typeOf] at h ⊢
  cases b <;> simp only [Bin.isAnd, if_true, Bool.false_eq_true, if_false] at h ⊢ <;> rw [sanitized_eq _ h] <;>
    simp [andProperties, orProperties, Props.has]

theorem n_andor (x y z : Ms) (h : Typed ctx (.andor x y z)) :
    (typeOf ctx (.andor x y z)).n = false := by
  unfold Typed at h
  simp only [typeOf] at h ⊢
  rw [sanitized_eq _ h]
  simp [andorProperties, Props.has]

theorem ty_j (x : Ms) (h : Typed ctx (.wrap .j x)) :
    (typeOf ctx x).B = true ∧ (typeOf ctx x).n = true ∧ (typeOf ctx (.wrap .j x)).B = true ∧
      (typeOf ctx (.wrap .j x)).x = true ∧ (typeOf ctx (.wrap .j x)).u = (typeOf ctx x).u := by
  unfold Typed at h
  simp only [typeOf] at h ⊢
  rw [sanitized_eq _ h]
  rw [sanitized_eq _ h] at h
  simp [wrapperProperties, Props.basicCount, Props.has] at h ⊢
  exact ⟨h.1, h.2, h⟩

theorem u_and_v (x y : Ms) (h : Typed ctx (.bin .and_v x y)) :
    (typeOf ctx (.bin .and_v x y)).u = (typeOf ctx y).u := by
  unfold Typed at h
  simp only [typeOf, Bin.isAnd, if_true] at h ⊢
  rw [sanitized_eq _ h]
  simp [andProperties, Props.has]

theorem u_or_i (x y : Ms) (h : Typed ctx (.bin .or_i x y)) :
    (typeOf ctx (.bin .or_i x y)).u = ((typeOf ctx x).u && (typeOf ctx y).u) := by
  unfold Typed at h
  simp only [typeOf, Bin.isAnd] at h ⊢
  rw [sanitized_eq _ h]
  simp [orProperties, Props.has]

theorem u_or_d (x y : Ms) (h : Typed ctx (.bin .or_d x y)) :
    (typeOf ctx x).u = true ∧ (typeOf ctx (.bin .or_d x y)).u = (typeOf ctx y).u := by
  unfold Typed at h
  simp only [typeOf, Bin.isAnd] at h ⊢
  rw [sanitized_eq _ h]
  rw [sanitized_eq _ h] at h
  simp [orProperties, Props.basicCount, Props.has] at h ⊢
  cases hu : (typeOf ctx x).u <;> simp_all

theorem u_or_c (x y : Ms) (h : Typed ctx (.bin .or_c x y)) : (typeOf ctx x).u = true := by
  unfold Typed at h
  simp only [typeOf, Bin.isAnd] at h ⊢
  rw [sanitized_eq _ h] at h
  simp [orProperties, Props.basicCount, Props.has] at h
  cases hu : (typeOf ctx x).u <;> simp_all

theorem u_andor (x y z : Ms) (h : Typed ctx (.andor x y z)) :
    (typeOf ctx x).u = true ∧
    (typeOf ctx (.andor x y z)).u = ((typeOf ctx y).u && (typeOf ctx z).u) := by
  unfold Typed at h
  simp only [typeOf] at h ⊢
  rw [sanitized_eq _ h]
  rw [sanitized_eq _ h] at h
  simp [andorProperties, Props.basicCount, Props.has] at h ⊢
  cases hu : (typeOf ctx x).u <;> simp_all

end

/-! ### the induction -/

mutual
/-- covered, and typed at every node (with what `_assert_shape` asks of the numbers the theorems
    read: lock times, key counts and thresholds in range). -/
def s1Typed (ctx : Ctx) : Ms → Bool
  | .f0 | .f1 | .pk_k _ | .hash _ _ => true
  | .pk_h k => !k.isEmpty
  | .older n | .after n => decide (1 ≤ n) && decide (n < 2 ^ 31)
  | .multi k keys =>
    decide (1 ≤ k) && decide (k ≤ keys.length) && decide (keys.length ≤ MAX_PUBKEYS_PER_MULTISIG)
  | .multi_a k keys =>
    decide (1 ≤ k) && decide (k ≤ keys.length) && decide (keys.length ≤ MAX_PUBKEYS_PER_MULTI_A)
  | .wrap w x =>
    (w == .c || w == .v || w == .a || w == .n || w == .s || w == .d || w == .j) &&
      decide ((typeOf ctx (.wrap w x)).basicCount = 1) && s1Typed ctx x
  | .bin b x y =>
    (b == .and_v || b == .and_b || b == .or_b || b == .or_i || b == .or_c || b == .or_d) &&
      decide ((typeOf ctx (.bin b x y)).basicCount = 1) && s1Typed ctx x && s1Typed ctx y
  | .andor x y z =>
    decide ((typeOf ctx (.andor x y z)).basicCount = 1) && s1Typed ctx x && s1Typed ctx y &&
      s1Typed ctx z
  | .thresh k x xs =>
    decide ((typeOf ctx (.thresh k x xs)).basicCount = 1) && decide (1 ≤ k) &&
      decide (k ≤ xs.length + 1) && decide (xs.length + 1 < 2 ^ 31) && s1Typed ctx x && s1TypedL ctx xs
def s1TypedL (ctx : Ctx) : MsL → Bool
  | .nil => true
  | .cons x xs => s1Typed ctx x && s1TypedL ctx xs
end

mutual
theorem inS1_of_s1Typed (ctx : Ctx) : ∀ n, s1Typed ctx n = true → inS1 n = true
  | .f0, _ | .f1, _ | .pk_k _, _ | .pk_h _, _ | .hash _ _, _ | .older _, _ | .after _, _ => rfl
  | .multi _ _, _ | .multi_a _ _, _ => rfl
  | .wrap w x, h => by
    simp only [s1Typed, Bool.and_eq_true] at h
    simp [inS1, h.1.1, inS1_of_s1Typed ctx x h.2]
  | .bin b x y, h => by
    simp only [s1Typed, Bool.and_eq_true] at h
    simp [inS1, h.1.1.1, inS1_of_s1Typed ctx x h.1.2, inS1_of_s1Typed ctx y h.2]
  | .andor x y z, h => by
    simp only [s1Typed, Bool.and_eq_true] at h
    simp [inS1, inS1_of_s1Typed ctx x h.1.1.2, inS1_of_s1Typed ctx y h.1.2, inS1_of_s1Typed ctx z h.2]
  | .thresh k x xs, h => by
    simp only [s1Typed, Bool.and_eq_true] at h
    simp [inS1, inS1_of_s1Typed ctx x h.1.2, inS1L_of_s1TypedL ctx xs h.2]
theorem inS1L_of_s1TypedL (ctx : Ctx) : ∀ xs, s1TypedL ctx xs = true → inS1L xs = true
  | .nil, _ => rfl
  | .cons x xs, h => by
    simp only [s1TypedL, Bool.and_eq_true] at h
    simp [inS1L, inS1_of_s1Typed ctx x h.1, inS1L_of_s1TypedL ctx xs h.2]
end

theorem exec_cons_run (E : EvalEnv) (o : Op) (os : List Op) (st al : List Bytes)
    (cs : List Bool) (ho : o.isControl = false) (hc : executing cs = true) :
    exec E (o :: os) ⟨st, al, cs⟩ = (stepExec E o ⟨st, al, cs⟩).bind (exec E os) := by
  simp [exec, step_run' E o st al cs ho hc]

section
variable (E : EvalEnv) (ctx : Ctx) (h160 : Bytes → Bytes)

theorem sound_of_B (n : Ms) (ht : Typed ctx n) (hB : (typeOf ctx n).B = true)
    (h : SoundB E ctx h160 n) : Sound E ctx h160 n := by
  obtain ⟨e, _, _, _⟩ := basic_excl _ ht
  obtain ⟨hV, hK, hW⟩ := e hB
  exact ⟨fun _ => h, fun c => by simp [hV] at c, fun c => by simp [hK] at c, fun c => by simp [hW] at c⟩

theorem sound_of_V (n : Ms) (ht : Typed ctx n) (hV : (typeOf ctx n).V = true)
    (h : SoundV E ctx h160 n) : Sound E ctx h160 n := by
  obtain ⟨_, e, _, _⟩ := basic_excl _ ht
  obtain ⟨hB, hK, hW⟩ := e hV
  exact ⟨fun c => by simp [hB] at c, fun _ => h, fun c => by simp [hK] at c, fun c => by simp [hW] at c⟩

theorem sound_of_K (n : Ms) (ht : Typed ctx n) (hK : (typeOf ctx n).K = true)
    (h : SoundK E ctx h160 n) : Sound E ctx h160 n := by
  obtain ⟨_, _, e, _⟩ := basic_excl _ ht
  obtain ⟨hB, hV, hW⟩ := e hK
  exact ⟨fun c => by simp [hB] at c, fun c => by simp [hV] at c, fun _ => h, fun c => by simp [hW] at c⟩

theorem sound_of_W (n : Ms) (ht : Typed ctx n) (hW : (typeOf ctx n).W = true)
    (h : SoundW E ctx h160 n) : Sound E ctx h160 n := by
  obtain ⟨_, _, _, e⟩ := basic_excl _ ht
  obtain ⟨hB, hV, hK⟩ := e hW
  exact ⟨fun c => by simp [hB] at c, fun c => by simp [hV] at c, fun c => by simp [hK] at c, fun _ => h⟩

/-- when the last op code has no VERIFY form ("x") and the fragment ignores the flag, the verified
    run is the plain run followed by OP_VERIFY. -/
theorem bVer_of_x' (n : Ms) (hx : (typeOf ctx n).x = true)
    (hops : opsOf ctx h160 true n = opsOf ctx h160 false n)
    (hsat : ∀ s stk al cs, executing cs = true → Sat E n s → ∃ v, Truthy v ∧
      ((typeOf ctx n).u = true → v = [1]) ∧
      exec E (opsOf ctx h160 false n) ⟨s ++ stk, al, cs⟩ = some ⟨v :: stk, al, cs⟩) :
    ∀ s stk al cs, executing cs = true → Sat E n s →
      exec E (opsOf ctx h160 true n ++ if (typeOf ctx n).x then [.verify] else [])
        ⟨s ++ stk, al, cs⟩ = some ⟨stk, al, cs⟩ := by
  intro s stk al cs hc hs
  obtain ⟨v, hv, _, e⟩ := hsat s stk al cs hc hs
  rw [hops, hx, exec_append, e]
  simp [exec_cons_run E .verify [] _ al cs rfl hc, stepExec, truthy_cast hv]

/-- a satisfaction that leaves exactly 0x01, in the form `SoundB` asks for. -/
theorem bSat_of_one (n : Ms)
    (hsat : ∀ s stk al cs, executing cs = true → Sat E n s →
      exec E (opsOf ctx h160 false n) ⟨s ++ stk, al, cs⟩ = some ⟨[1] :: stk, al, cs⟩) :
    ∀ s stk al cs, executing cs = true → Sat E n s → ∃ v, Truthy v ∧
      ((typeOf ctx n).u = true → v = [1]) ∧
      exec E (opsOf ctx h160 false n) ⟨s ++ stk, al, cs⟩ = some ⟨v :: stk, al, cs⟩ :=
  fun s stk al cs hc hs => ⟨[1], truthy_one, fun _ => rfl, hsat s stk al cs hc hs⟩

theorem bVer_of_x (n : Ms) (hx : (typeOf ctx n).x = true)
    (hops : opsOf ctx h160 true n = opsOf ctx h160 false n)
    (hsat : ∀ s stk al cs, executing cs = true → Sat E n s →
      exec E (opsOf ctx h160 false n) ⟨s ++ stk, al, cs⟩ = some ⟨[1] :: stk, al, cs⟩) :
    ∀ s stk al cs, executing cs = true → Sat E n s →
      exec E (opsOf ctx h160 true n ++ if (typeOf ctx n).x then [.verify] else [])
        ⟨s ++ stk, al, cs⟩ = some ⟨stk, al, cs⟩ :=
  bVer_of_x' E ctx h160 n hx hops (bSat_of_one E ctx h160 n hsat)

theorem sound_f0 : Sound E ctx h160 .f0 := by
  refine sound_of_B E ctx h160 _ rfl rfl ⟨bSat_of_one E ctx h160 _ ?_, ?_, ?_⟩
  · intro s stk al cs _ hs; cases hs
  · intro s stk al cs hc hs; cases hs
    simp [opsOf, exec_cons_run E .op0 [] _ al cs rfl hc, stepExec]
  · intro s stk al cs _ hs; cases hs

theorem sound_f1 : Sound E ctx h160 .f1 := by
  have hsat : ∀ s stk al cs, executing cs = true → Sat E .f1 s →
      exec E (opsOf ctx h160 false .f1) ⟨s ++ stk, al, cs⟩ = some ⟨[1] :: stk, al, cs⟩ := by
    intro s stk al cs hc hs; cases hs
    simp [opsOf, exec_cons_run E .op1 [] _ al cs rfl hc, stepExec]
  refine sound_of_B E ctx h160 _ rfl rfl ⟨bSat_of_one E ctx h160 _ hsat, ?_, bVer_of_x E ctx h160 _ rfl rfl hsat⟩
  intro s stk al cs _ hs; cases hs

theorem sound_pk_k (hsig0 : ∀ k, E.sigOK k [] = false) (k : Key) : Sound E ctx h160 (.pk_k k) := by
  refine sound_of_K E ctx h160 _ rfl rfl ⟨?_, ?_⟩
  · intro s stk al cs hc hs; cases hs with
    | pk_k _ σ hσ =>
      exact ⟨k, σ, hσ, by simp [opsOf, exec_cons_run E (.push k) [] _ al cs rfl hc, stepExec]⟩
  · intro s stk al cs hc hs; cases hs
    exact ⟨k, [], ⟨hsig0 k, rfl⟩, by simp [opsOf, exec_cons_run E (.push k) [] _ al cs rfl hc, stepExec]⟩

theorem sound_pk_h (hsig0 : ∀ k, E.sigOK k [] = false) (hH : ∀ k, E.hashF .hash160 k = h160 k)
    (k : Key) : Sound E ctx h160 (.pk_h k) := by
  have run : ∀ σ stk al cs, executing cs = true →
      exec E (opsOf ctx h160 false (.pk_h k)) ⟨[k, σ] ++ stk, al, cs⟩ = some ⟨k :: σ :: stk, al, cs⟩ := by
    intro σ stk al cs hc
    simp [opsOf, exec_cons_run E .dup _ _ al cs rfl hc, exec_cons_run E .hash160 _ _ al cs rfl hc,
      exec_cons_run E (.push (h160 k)) _ _ al cs rfl hc, exec_cons_run E .equalverify _ _ al cs rfl hc,
      stepExec, hH]
  refine sound_of_K E ctx h160 _ rfl rfl ⟨?_, ?_⟩
  · intro s stk al cs hc hs; cases hs with
    | pk_h _ σ hσ => exact ⟨k, σ, hσ, run σ stk al cs hc⟩
  · intro s stk al cs hc hs; cases hs
    exact ⟨k, [], ⟨hsig0 k, rfl⟩, run [] stk al cs hc⟩

theorem encodeNum_32 : encodeNum 32 = [32] := by decide

theorem sound_hash (h : HashKind) (d : Bytes) : Sound E ctx h160 (.hash h d) := by
  have run : ∀ (v : Bool) p stk al cs, executing cs = true → p.length = 32 →
      exec E [.size, .pushnum 32, .equalverify, .hashop h, .push d] ⟨[p] ++ stk, al, cs⟩ =
        some ⟨d :: E.hashF h p :: stk, al, cs⟩ := by
    intro _ p stk al cs hc hp
    simp [exec_cons_run E .size _ _ al cs rfl hc, exec_cons_run E (.pushnum 32) _ _ al cs rfl hc,
      exec_cons_run E .equalverify _ _ al cs rfl hc, exec_cons_run E (.hashop h) _ _ al cs rfl hc,
      exec_cons_run E (.push d) _ _ al cs rfl hc, stepExec, hp]
  have hops : ∀ v, opsOf ctx h160 v (.hash h d) =
      [.size, .pushnum 32, .equalverify, .hashop h, .push d] ++ [if v then .equalverify else .equal] := by
    intro v; simp [opsOf]
  have hx : (typeOf ctx (.hash h d)).x = false := rfl
  refine sound_of_B E ctx h160 _ rfl rfl ⟨bSat_of_one E ctx h160 _ ?_, ?_, ?_⟩
  · intro s stk al cs hc hs; cases hs with
    | hash _ _ p hp hd =>
      rw [hops, exec_append, run false p stk al cs hc hp, Option.bind_some]
      simp [exec_cons_run E .equal [] _ al cs rfl hc, stepExec, hd, boolBytes]
  · intro s stk al cs hc hs; cases hs with
    | hash _ _ p hp hd =>
      rw [hops, exec_append, run false p stk al cs hc hp, Option.bind_some]
      simp [exec_cons_run E .equal [] _ al cs rfl hc, stepExec, hd, boolBytes]
  · intro s stk al cs hc hs; cases hs with
    | hash _ _ p hp hd =>
      rw [hx, hops]
      simp only [if_true, Bool.false_eq_true, if_false, List.append_nil]
      rw [exec_append, run true p stk al cs hc hp, Option.bind_some]
      simp [exec_cons_run E .equalverify [] _ al cs rfl hc, stepExec, hd]

theorem lock_props (a b : Bool) (p q : Props) (hpq : (p = { g := true } ∧ q = { h := true }) ∨ (p = { i := true } ∧ q = { j := true })) :
    let r := (Props.when a p ||| Props.when b q) |||
      ({ B := true, z := true, f := true, m := true, x := true, k := true } : Props)
    r.basicCount = 1 ∧ r.B = true ∧ r.x = true ∧ r.u = false ∧ r.z = true ∧ r.o = false := by
  rcases hpq with ⟨rfl, rfl⟩ | ⟨rfl, rfl⟩ <;> cases a <;> cases b <;> decide

theorem ty_older (n : Nat) : Typed ctx (.older n) ∧ (typeOf ctx (.older n)).B = true ∧
    (typeOf ctx (.older n)).x = true ∧ (typeOf ctx (.older n)).u = false ∧
    (typeOf ctx (.older n)).z = true ∧ (typeOf ctx (.older n)).o = false := by
  have key := lock_props (Nat.land n SEQUENCE_LOCKTIME_TYPE_FLAG != 0)
    (Nat.land n SEQUENCE_LOCKTIME_TYPE_FLAG == 0) ({ g := true } : Props) ({ h := true } : Props)
    (Or.inl ⟨rfl, rfl⟩)
  have e : (olderProperties n).sanitized = olderProperties n := by
    simp only [Props.sanitized]; rw [if_pos]; exact key.1
  unfold Typed
  simp only [typeOf, e]
  exact key

theorem ty_after (n : Nat) : Typed ctx (.after n) ∧ (typeOf ctx (.after n)).B = true ∧
    (typeOf ctx (.after n)).x = true ∧ (typeOf ctx (.after n)).u = false ∧
    (typeOf ctx (.after n)).z = true ∧ (typeOf ctx (.after n)).o = false := by
  have key := lock_props (decide (n ≥ LOCKTIME_THRESHOLD)) (decide (n < LOCKTIME_THRESHOLD))
    ({ i := true } : Props) ({ j := true } : Props) (Or.inr ⟨rfl, rfl⟩)
  have e : (afterProperties n).sanitized = afterProperties n := by
    simp only [Props.sanitized]; rw [if_pos]; exact key.1
  unfold Typed
  simp only [typeOf, e]
  exact key

theorem ty_older_n (n : Nat) : (typeOf ctx (.older n)).n = false := by
  have key : ∀ a b : Bool, ((Props.when a ({ g := true } : Props) ||| Props.when b ({ h := true } : Props)) |||
      ({ B := true, z := true, f := true, m := true, x := true, k := true } : Props)).sanitized.n = false := by
    intro a b; cases a <;> cases b <;> decide
  exact key _ _

theorem ty_after_n (n : Nat) : (typeOf ctx (.after n)).n = false := by
  have key : ∀ a b : Bool, ((Props.when a ({ i := true } : Props) ||| Props.when b ({ j := true } : Props)) |||
      ({ B := true, z := true, f := true, m := true, x := true, k := true } : Props)).sanitized.n = false := by
    intro a b; cases a <;> cases b <;> decide
  exact key _ _

theorem truthy_encodeNum (n : Nat) (h1 : 1 ≤ n) (h2 : n < 2 ^ 31) : Truthy (encodeNum n) := by
  unfold Truthy numTruth
  simp [encodeNum_length_le n h2, castToBool_encodeNum n (by omega)]

theorem sound_older (n : Nat) (h1 : 1 ≤ n) (h2 : n < 2 ^ 31) : Sound E ctx h160 (.older n) := by
  obtain ⟨ht, hB, hx, hu, _, _⟩ := ty_older ctx n
  have hsat : ∀ s stk al cs, executing cs = true → Sat E (.older n) s → ∃ v, Truthy v ∧
      ((typeOf ctx (.older n)).u = true → v = [1]) ∧
      exec E (opsOf ctx h160 false (.older n)) ⟨s ++ stk, al, cs⟩ = some ⟨v :: stk, al, cs⟩ := by
    intro s stk al cs hc hs
    cases hs with
    | older _ hok =>
      refine ⟨encodeNum n, truthy_encodeNum n h1 h2, (fun h => by rw [hu] at h; cases h), ?_⟩
      simp [opsOf, exec_cons_run E (.pushnum n) _ _ al cs rfl hc,
        exec_cons_run E .csv [] _ al cs rfl hc, stepExec, hok]
  refine sound_of_B E ctx h160 _ ht hB ⟨hsat, ?_, bVer_of_x' E ctx h160 _ hx rfl hsat⟩
  intro s stk al cs _ hs; cases hs

theorem sound_after (n : Nat) (h1 : 1 ≤ n) (h2 : n < 2 ^ 31) : Sound E ctx h160 (.after n) := by
  obtain ⟨ht, hB, hx, hu, _, _⟩ := ty_after ctx n
  have hsat : ∀ s stk al cs, executing cs = true → Sat E (.after n) s → ∃ v, Truthy v ∧
      ((typeOf ctx (.after n)).u = true → v = [1]) ∧
      exec E (opsOf ctx h160 false (.after n)) ⟨s ++ stk, al, cs⟩ = some ⟨v :: stk, al, cs⟩ := by
    intro s stk al cs hc hs
    cases hs with
    | after _ hok =>
      refine ⟨encodeNum n, truthy_encodeNum n h1 h2, (fun h => by rw [hu] at h; cases h), ?_⟩
      simp [opsOf, exec_cons_run E (.pushnum n) _ _ al cs rfl hc,
        exec_cons_run E .cltv [] _ al cs rfl hc, stepExec, hok]
  refine sound_of_B E ctx h160 _ ht hB ⟨hsat, ?_, bVer_of_x' E ctx h160 _ hx rfl hsat⟩
  intro s stk al cs _ hs; cases hs

theorem sound_c (x : Ms) (ht : Typed ctx (.wrap .c x)) (ih : Sound E ctx h160 x) :
    Sound E ctx h160 (.wrap .c x) := by
  obtain ⟨hK, hB, hx⟩ := ty_c ctx x ht
  obtain ⟨ks, kd⟩ := ih.2.2.1 hK
  refine sound_of_B E ctx h160 _ ht hB ⟨bSat_of_one E ctx h160 _ ?_, ?_, ?_⟩
  · intro s stk al cs hc hs
    cases hs with
    | wrap _ _ _ _ _ hs =>
      obtain ⟨k, σ, hσ, e⟩ := ks s stk al cs hc hs
      simp [opsOf, exec_append, e, exec_cons_run E .checksig [] _ al cs rfl hc, stepExec, hσ, boolBytes]
  · intro s stk al cs hc hs
    cases hs with
    | wrap_c _ _ hs =>
      obtain ⟨k, σ, ⟨hσ, rfl⟩, e⟩ := kd s stk al cs hc hs
      simp [opsOf, exec_append, e, exec_cons_run E .checksig [] _ al cs rfl hc, stepExec, hσ, boolBytes]
  · intro s stk al cs hc hs
    cases hs with
    | wrap _ _ _ _ _ hs =>
      obtain ⟨k, σ, hσ, e⟩ := ks s stk al cs hc hs
      simp [opsOf, hx, exec_append, e, exec_cons_run E .checksigverify [] _ al cs rfl hc, stepExec, hσ]

theorem sound_v (x : Ms) (ht : Typed ctx (.wrap .v x)) (ih : Sound E ctx h160 x) :
    Sound E ctx h160 (.wrap .v x) := by
  obtain ⟨hB, hV⟩ := ty_v ctx x ht
  obtain ⟨_, _, bv⟩ := ih.1 hB
  refine sound_of_V E ctx h160 _ ht hV ?_
  intro s stk al cs hc hs
  cases hs with
  | wrap _ _ _ _ _ hs => simpa [opsOf] using bv s stk al cs hc hs

theorem sound_a (x : Ms) (ht : Typed ctx (.wrap .a x)) (ih : Sound E ctx h160 x) :
    Sound E ctx h160 (.wrap .a x) := by
  obtain ⟨hB, hW⟩ := ty_a ctx x ht
  obtain ⟨bs, bd, _⟩ := ih.1 hB
  refine sound_of_W E ctx h160 _ ht hW ⟨?_, ?_⟩
  · intro top s stk al cs hc hs
    cases hs with
    | wrap _ _ _ _ _ hs =>
      obtain ⟨v, hv, hu, e⟩ := bs s stk (top :: al) cs hc hs
      refine ⟨v, top :: v :: stk, hv, fun h => hu (by rw [← u_wrap_as ctx .a (Or.inl rfl) x ht]; exact h), ?_, Or.inr rfl⟩
      simp [opsOf, exec_append, exec_cons_run E .toalt _ _ al cs rfl hc, stepExec,
        e, exec_cons_run E .fromalt [] _ (top :: al) cs rfl hc]
  · intro top s stk al cs hc hs
    cases hs with
    | wrap_a _ _ hs =>
      refine ⟨top :: [] :: stk, ?_, Or.inr rfl⟩
      simp [opsOf, exec_append, exec_cons_run E .toalt _ _ al cs rfl hc, stepExec,
        bd s stk (top :: al) cs hc hs, exec_cons_run E .fromalt [] _ (top :: al) cs rfl hc]

theorem sound_and_v (x y : Ms) (ht : Typed ctx (.bin .and_v x y)) (ihx : Sound E ctx h160 x)
    (ihy : Sound E ctx h160 y) : Sound E ctx h160 (.bin .and_v x y) := by
  obtain ⟨hV, eB, eV, eK, ex, eW⟩ := ty_and_v ctx x y ht
  have vx := ihx.2.1 hV
  have hW : (typeOf ctx (.bin .and_v x y)).W = true → False := by
    intro hW; rw [eW] at hW; cases hW
  refine ⟨?_, ?_, ?_, fun h => (hW h).elim⟩
  · intro hB
    rw [eB] at hB
    obtain ⟨bs, bd, bv⟩ := ihy.1 hB
    refine ⟨?_, ?_, ?_⟩
    · intro s stk al cs hc hs
      cases hs with
      | and_v _ _ sx sy hsx hsy =>
        have := vx sx (sy ++ stk) al cs hc hsx
        obtain ⟨v, hv, hu, e⟩ := bs sy stk al cs hc hsy
        refine ⟨v, hv, fun h => hu (by rw [← u_and_v ctx x y ht]; exact h), ?_⟩
        simp only [List.append_assoc]
        simp [opsOf, exec_append, this, e]
    · intro s stk al cs hc hs
      cases hs with
      | and_v_d _ _ sx sy hsx hsy =>
        have := vx sx (sy ++ stk) al cs hc hsx
        simp only [List.append_assoc]
        simp [opsOf, exec_append, this, bd sy stk al cs hc hsy]
    · intro s stk al cs hc hs
      cases hs with
      | and_v _ _ sx sy hsx hsy =>
        have h1 := vx sx (sy ++ stk) al cs hc hsx
        have h2 := bv sy stk al cs hc hsy
        rw [ex]
        simp only [opsOf, List.append_assoc]
        rw [exec_append, h1]
        exact h2
  · intro hV'
    rw [eV] at hV'
    have vy := ihy.2.1 hV'
    intro s stk al cs hc hs
    cases hs with
    | and_v _ _ sx sy hsx hsy =>
      have := vx sx (sy ++ stk) al cs hc hsx
      simp only [List.append_assoc]
      simp [opsOf, exec_append, this, vy sy stk al cs hc hsy]
  · intro hK
    rw [eK] at hK
    obtain ⟨ks, kd⟩ := ihy.2.2.1 hK
    refine ⟨?_, ?_⟩
    · intro s stk al cs hc hs
      cases hs with
      | and_v _ _ sx sy hsx hsy =>
        obtain ⟨k, σ, hσ, e⟩ := ks sy stk al cs hc hsy
        have := vx sx (sy ++ stk) al cs hc hsx
        refine ⟨k, σ, hσ, ?_⟩
        simp only [List.append_assoc]
        simp [opsOf, exec_append, this, e]
    · intro s stk al cs hc hs
      cases hs with
      | and_v_d _ _ sx sy hsx hsy =>
        obtain ⟨k, σ, hσ, e⟩ := kd sy stk al cs hc hsy
        have := vx sx (sy ++ stk) al cs hc hsx
        refine ⟨k, σ, hσ, ?_⟩
        simp only [List.append_assoc]
        simp [opsOf, exec_append, this, e]

theorem sound_and_b (x y : Ms) (ht : Typed ctx (.bin .and_b x y)) (ihx : Sound E ctx h160 x)
    (ihy : Sound E ctx h160 y) : Sound E ctx h160 (.bin .and_b x y) := by
  obtain ⟨hB, hW, tB, tx⟩ := ty_and_b ctx x y ht
  obtain ⟨xs, xd, _⟩ := ihx.1 hB
  obtain ⟨ws, wd⟩ := ihy.2.2.2 hW
  have hsat : ∀ s stk al cs, executing cs = true → Sat E (.bin .and_b x y) s →
      exec E (opsOf ctx h160 false (.bin .and_b x y)) ⟨s ++ stk, al, cs⟩ =
        some ⟨[1] :: stk, al, cs⟩ := by
    intro s stk al cs hc hs
    cases hs with
    | and_b _ _ sx sy hsx hsy =>
      obtain ⟨v1, hv1, _, h1⟩ := xs sx (sy ++ stk) al cs hc hsx
      have e1 : numTruth v1 = some true := hv1
      obtain ⟨v2, r, hv2, _, h2, hr⟩ := ws v1 sy stk al cs hc hsy
      have e2 : numTruth v2 = some true := hv2
      simp only [opsOf, List.append_assoc]
      rw [exec_append, h1, Option.bind_some, exec_append, h2, Option.bind_some]
      rcases hr with rfl | rfl <;>
        simp [exec_cons_run E .booland [] _ al cs rfl hc, stepExec, numTruth_nil, boolBytes, e1, e2]
  refine sound_of_B E ctx h160 _ ht tB ⟨bSat_of_one E ctx h160 _ hsat, ?_, bVer_of_x E ctx h160 _ tx rfl hsat⟩
  intro s stk al cs hc hs
  cases hs with
    | and_b _ _ sx sy hsx hsy =>
      have h1 := xd sx (sy ++ stk) al cs hc hsx
      obtain ⟨r, h2, hr⟩ := wd [] sy stk al cs hc hsy
      simp only [opsOf, List.append_assoc]
      rw [exec_append, h1, Option.bind_some, exec_append, h2, Option.bind_some]
      rcases hr with rfl | rfl <;>
        simp [exec_cons_run E .booland [] _ al cs rfl hc, stepExec, numTruth_nil, boolBytes]
    | and_b_l _ _ sx sy hsx hsy =>
      obtain ⟨v1, hv1, _, h1⟩ := xs sx (sy ++ stk) al cs hc hsx
      have e1 : numTruth v1 = some true := hv1
      obtain ⟨r, h2, hr⟩ := wd v1 sy stk al cs hc hsy
      simp only [opsOf, List.append_assoc]
      rw [exec_append, h1, Option.bind_some, exec_append, h2, Option.bind_some]
      rcases hr with rfl | rfl <;>
        simp [exec_cons_run E .booland [] _ al cs rfl hc, stepExec, numTruth_nil, boolBytes, e1]
    | and_b_r _ _ sx sy hsx hsy =>
      have h1 := xd sx (sy ++ stk) al cs hc hsx
      obtain ⟨v2, r, hv2, _, h2, hr⟩ := ws [] sy stk al cs hc hsy
      have e2 : numTruth v2 = some true := hv2
      simp only [opsOf, List.append_assoc]
      rw [exec_append, h1, Option.bind_some, exec_append, h2, Option.bind_some]
      rcases hr with rfl | rfl <;>
        simp [exec_cons_run E .booland [] _ al cs rfl hc, stepExec, numTruth_nil, boolBytes, e2]

theorem sound_or_b (x y : Ms) (ht : Typed ctx (.bin .or_b x y)) (ihx : Sound E ctx h160 x)
    (ihy : Sound E ctx h160 y) : Sound E ctx h160 (.bin .or_b x y) := by
  obtain ⟨hB, hW, tB, tx⟩ := ty_or_b ctx x y ht
  obtain ⟨xs, xd, _⟩ := ihx.1 hB
  obtain ⟨ws, wd⟩ := ihy.2.2.2 hW
  have hsat : ∀ s stk al cs, executing cs = true → Sat E (.bin .or_b x y) s →
      exec E (opsOf ctx h160 false (.bin .or_b x y)) ⟨s ++ stk, al, cs⟩ =
        some ⟨[1] :: stk, al, cs⟩ := by
    intro s stk al cs hc hs
    cases hs with
    | or_b_l _ _ sx sy hsx hsy =>
      obtain ⟨v1, hv1, _, h1⟩ := xs sx (sy ++ stk) al cs hc hsx
      have e1 : numTruth v1 = some true := hv1
      obtain ⟨r, h2, hr⟩ := wd v1 sy stk al cs hc hsy
      simp only [opsOf, List.append_assoc]
      rw [exec_append, h1, Option.bind_some, exec_append, h2, Option.bind_some]
      rcases hr with rfl | rfl <;>
        simp [exec_cons_run E .boolor [] _ al cs rfl hc, stepExec, numTruth_nil, boolBytes, e1]
    | or_b_r _ _ sx sy hsx hsy =>
      have h1 := xd sx (sy ++ stk) al cs hc hsx
      obtain ⟨v2, r, hv2, _, h2, hr⟩ := ws [] sy stk al cs hc hsy
      have e2 : numTruth v2 = some true := hv2
      simp only [opsOf, List.append_assoc]
      rw [exec_append, h1, Option.bind_some, exec_append, h2, Option.bind_some]
      rcases hr with rfl | rfl <;>
        simp [exec_cons_run E .boolor [] _ al cs rfl hc, stepExec, numTruth_nil, boolBytes, e2]
    | or_b_both _ _ sx sy hsx hsy =>
      obtain ⟨v1, hv1, _, h1⟩ := xs sx (sy ++ stk) al cs hc hsx
      have e1 : numTruth v1 = some true := hv1
      obtain ⟨v2, r, hv2, _, h2, hr⟩ := ws v1 sy stk al cs hc hsy
      have e2 : numTruth v2 = some true := hv2
      simp only [opsOf, List.append_assoc]
      rw [exec_append, h1, Option.bind_some, exec_append, h2, Option.bind_some]
      rcases hr with rfl | rfl <;>
        simp [exec_cons_run E .boolor [] _ al cs rfl hc, stepExec, numTruth_nil, boolBytes, e1, e2]
  refine sound_of_B E ctx h160 _ ht tB ⟨bSat_of_one E ctx h160 _ hsat, ?_, bVer_of_x E ctx h160 _ tx rfl hsat⟩
  intro s stk al cs hc hs
  cases hs with
    | or_b _ _ sx sy hsx hsy =>
      have h1 := xd sx (sy ++ stk) al cs hc hsx
      obtain ⟨r, h2, hr⟩ := wd [] sy stk al cs hc hsy
      simp only [opsOf, List.append_assoc]
      rw [exec_append, h1, Option.bind_some, exec_append, h2, Option.bind_some]
      rcases hr with rfl | rfl <;>
        simp [exec_cons_run E .boolor [] _ al cs rfl hc, stepExec, numTruth_nil, boolBytes]

theorem exec_or_i_l (x y : Ms) (v : Bool) (hy : inS1 y = true) (st st' al al' : List Bytes)
    (cs : List Bool) (hc : executing cs = true)
    (hx : exec E (opsOf ctx h160 false x) ⟨st, al, true :: cs⟩ = some ⟨st', al', true :: cs⟩) :
    exec E (opsOf ctx h160 v (.bin .or_i x y)) ⟨[1] :: st, al, cs⟩ = some ⟨st', al', cs⟩ := by
  have e0 : step E .opif ⟨[1] :: st, al, cs⟩ = some ⟨st, al, true :: cs⟩ := by
    simp [step, hc, castToBool]
  have e1 : step E .opelse ⟨st', al', true :: cs⟩ = some ⟨st', al', false :: cs⟩ := by
    simp [step]
  have e2 := exec_skip E ctx h160 y false st' al' (false :: cs) hy (by simp [executing_cons])
  have e3 : step E .endif ⟨st', al', false :: cs⟩ = some ⟨st', al', cs⟩ := by simp [step]
  simp only [opsOf, List.append_assoc, List.cons_append, List.nil_append,
    exec, e0, Option.bind_some, exec_append, hx, e1, e2, e3]

theorem exec_or_i_r (x y : Ms) (v : Bool) (hx : inS1 x = true) (st st' al al' : List Bytes)
    (cs : List Bool) (hc : executing cs = true)
    (hy : exec E (opsOf ctx h160 false y) ⟨st, al, true :: cs⟩ = some ⟨st', al', true :: cs⟩) :
    exec E (opsOf ctx h160 v (.bin .or_i x y)) ⟨[] :: st, al, cs⟩ = some ⟨st', al', cs⟩ := by
  have e0 : step E .opif ⟨[] :: st, al, cs⟩ = some ⟨st, al, false :: cs⟩ := by
    simp [step, hc, castToBool]
  have e1 : step E .opelse ⟨st, al, false :: cs⟩ = some ⟨st, al, true :: cs⟩ := by
    simp [step]
  have e2 := exec_skip E ctx h160 x false st al (false :: cs) hx (by simp [executing_cons])
  have e3 : step E .endif ⟨st', al', true :: cs⟩ = some ⟨st', al', cs⟩ := by simp [step]
  simp only [opsOf, List.append_assoc, List.cons_append, List.nil_append,
    exec, e0, Option.bind_some, exec_append, hy, e1, e2, e3]

theorem sound_or_i (x y : Ms) (ht : Typed ctx (.bin .or_i x y)) (hix : inS1 x = true)
    (hiy : inS1 y = true) (ihx : Sound E ctx h160 x) (ihy : Sound E ctx h160 y) :
    Sound E ctx h160 (.bin .or_i x y) := by
  obtain ⟨eB, eV, eK, eW, ex⟩ := ty_or_i ctx x y ht
  have hcs : ∀ cs, executing cs = true → executing (true :: cs) = true := by
    intro cs h; simp [executing_cons, h]
  refine ⟨?_, ?_, ?_, fun h => by rw [eW] at h; cases h⟩
  · intro hB
    rw [eB, Bool.and_eq_true] at hB
    obtain ⟨xs, xd, _⟩ := ihx.1 hB.1
    obtain ⟨ys, yd, _⟩ := ihy.1 hB.2
    have hu := u_or_i ctx x y ht
    have hsat : ∀ s stk al cs, executing cs = true → Sat E (.bin .or_i x y) s → ∃ v, Truthy v ∧
        ((typeOf ctx (.bin .or_i x y)).u = true → v = [1]) ∧
        exec E (opsOf ctx h160 false (.bin .or_i x y)) ⟨s ++ stk, al, cs⟩ =
          some ⟨v :: stk, al, cs⟩ := by
      intro s stk al cs hc hs
      cases hs with
      | or_i_l _ _ sx hsx =>
        obtain ⟨v, hv, hvu, e⟩ := xs sx stk al _ (hcs cs hc) hsx
        exact ⟨v, hv, fun h => hvu (by rw [hu, Bool.and_eq_true] at h; exact h.1),
          exec_or_i_l E ctx h160 x y false hiy _ _ al al cs hc e⟩
      | or_i_r _ _ sy hsy =>
        obtain ⟨v, hv, hvu, e⟩ := ys sy stk al _ (hcs cs hc) hsy
        exact ⟨v, hv, fun h => hvu (by rw [hu, Bool.and_eq_true] at h; exact h.2),
          exec_or_i_r E ctx h160 x y false hix _ _ al al cs hc e⟩
    refine ⟨hsat, ?_, bVer_of_x' E ctx h160 _ ex rfl hsat⟩
    intro s stk al cs hc hs
    cases hs with
    | or_i_l _ _ sx hsx =>
      exact exec_or_i_l E ctx h160 x y false hiy _ _ al al cs hc (xd sx stk al _ (hcs cs hc) hsx)
    | or_i_r _ _ sy hsy =>
      exact exec_or_i_r E ctx h160 x y false hix _ _ al al cs hc (yd sy stk al _ (hcs cs hc) hsy)
  · intro hV
    rw [eV, Bool.and_eq_true] at hV
    have vx := ihx.2.1 hV.1
    have vy := ihy.2.1 hV.2
    intro s stk al cs hc hs
    cases hs with
    | or_i_l _ _ sx hsx =>
      exact exec_or_i_l E ctx h160 x y false hiy _ _ al al cs hc (vx sx stk al _ (hcs cs hc) hsx)
    | or_i_r _ _ sy hsy =>
      exact exec_or_i_r E ctx h160 x y false hix _ _ al al cs hc (vy sy stk al _ (hcs cs hc) hsy)
  · intro hK
    rw [eK, Bool.and_eq_true] at hK
    obtain ⟨xs, xd⟩ := ihx.2.2.1 hK.1
    obtain ⟨ys, yd⟩ := ihy.2.2.1 hK.2
    refine ⟨?_, ?_⟩
    · intro s stk al cs hc hs
      cases hs with
      | or_i_l _ _ sx hsx =>
        obtain ⟨k, σ, hσ, e⟩ := xs sx stk al _ (hcs cs hc) hsx
        exact ⟨k, σ, hσ, exec_or_i_l E ctx h160 x y false hiy _ _ al al cs hc e⟩
      | or_i_r _ _ sy hsy =>
        obtain ⟨k, σ, hσ, e⟩ := ys sy stk al _ (hcs cs hc) hsy
        exact ⟨k, σ, hσ, exec_or_i_r E ctx h160 x y false hix _ _ al al cs hc e⟩
    · intro s stk al cs hc hs
      cases hs with
      | or_i_l _ _ sx hsx =>
        obtain ⟨k, σ, hσ, e⟩ := xd sx stk al _ (hcs cs hc) hsx
        exact ⟨k, σ, hσ, exec_or_i_l E ctx h160 x y false hiy _ _ al al cs hc e⟩
      | or_i_r _ _ sy hsy =>
        obtain ⟨k, σ, hσ, e⟩ := yd sy stk al _ (hcs cs hc) hsy
        exact ⟨k, σ, hσ, exec_or_i_r E ctx h160 x y false hix _ _ al al cs hc e⟩

theorem sound_n (x : Ms) (ht : Typed ctx (.wrap .n x)) (ih : Sound E ctx h160 x) :
    Sound E ctx h160 (.wrap .n x) := by
  obtain ⟨hB, tB, tx⟩ := ty_n ctx x ht
  obtain ⟨bs, bd, _⟩ := ih.1 hB
  have hsat : ∀ s stk al cs, executing cs = true → Sat E (.wrap .n x) s →
      exec E (opsOf ctx h160 false (.wrap .n x)) ⟨s ++ stk, al, cs⟩ =
        some ⟨[1] :: stk, al, cs⟩ := by
    intro s stk al cs hc hs
    cases hs with
    | wrap _ _ _ _ _ hs =>
      obtain ⟨v, hv, _, e⟩ := bs s stk al cs hc hs
      have e1 : numTruth v = some true := hv
      simp [opsOf, exec_append, e, exec_cons_run E .zeronotequal [] _ al cs rfl hc, stepExec, e1, boolBytes]
  refine sound_of_B E ctx h160 _ ht tB ⟨bSat_of_one E ctx h160 _ hsat, ?_, bVer_of_x E ctx h160 _ tx rfl hsat⟩
  intro s stk al cs hc hs
  cases hs with
  | wrap_n _ _ hs =>
    simp [opsOf, exec_append, bd s stk al cs hc hs,
      exec_cons_run E .zeronotequal [] _ al cs rfl hc, stepExec, numTruth, castToBool, boolBytes]

/-- `NOTIF [Y] ENDIF` after a true value: Y is skipped. -/
theorem notif_tail_l (y : Ms) (hy : inS1 y = true) (st al : List Bytes) (cs : List Bool)
    (hc : executing cs = true) :
    exec E ([.notif] ++ opsOf ctx h160 false y ++ [.endif]) ⟨[1] :: st, al, cs⟩ =
      some ⟨st, al, cs⟩ := by
  have e0 : step E .notif ⟨[1] :: st, al, cs⟩ = some ⟨st, al, false :: cs⟩ := by
    simp [step, hc, castToBool]
  have e2 := exec_skip E ctx h160 y false st al (false :: cs) hy (by simp [executing_cons])
  have e3 : step E .endif ⟨st, al, false :: cs⟩ = some ⟨st, al, cs⟩ := by simp [step]
  simp only [List.append_assoc, List.cons_append, List.nil_append, exec, e0, Option.bind_some,
    exec_append, e2, e3]

/-- `NOTIF [Y] ENDIF` after the empty vector: Y runs. -/
theorem notif_tail_r (y : Ms) (st st' al al' : List Bytes) (cs : List Bool)
    (hc : executing cs = true)
    (hy : exec E (opsOf ctx h160 false y) ⟨st, al, true :: cs⟩ = some ⟨st', al', true :: cs⟩) :
    exec E ([.notif] ++ opsOf ctx h160 false y ++ [.endif]) ⟨[] :: st, al, cs⟩ =
      some ⟨st', al', cs⟩ := by
  have e0 : step E .notif ⟨[] :: st, al, cs⟩ = some ⟨st, al, true :: cs⟩ := by
    simp [step, hc, castToBool]
  have e3 : step E .endif ⟨st', al', true :: cs⟩ = some ⟨st', al', cs⟩ := by simp [step]
  simp only [List.append_assoc, List.cons_append, List.nil_append, exec, e0, Option.bind_some,
    exec_append, hy, e3]

theorem sound_or_c (x y : Ms) (ht : Typed ctx (.bin .or_c x y)) (hiy : inS1 y = true)
    (ihx : Sound E ctx h160 x) (ihy : Sound E ctx h160 y) :
    Sound E ctx h160 (.bin .or_c x y) := by
  obtain ⟨hB, hV, tV⟩ := ty_or_c ctx x y ht
  obtain ⟨xs, xd, _⟩ := ihx.1 hB
  have hxu := u_or_c ctx x y ht
  have xs1 : ∀ s stk al cs, executing cs = true → Sat E x s →
      exec E (opsOf ctx h160 false x) ⟨s ++ stk, al, cs⟩ = some ⟨[1] :: stk, al, cs⟩ := by
    intro s stk al cs hc hs
    obtain ⟨v, _, hvu, e⟩ := xs s stk al cs hc hs
    rw [hvu hxu] at e; exact e
  have vy := ihy.2.1 hV
  refine sound_of_V E ctx h160 _ ht tV ?_
  intro s stk al cs hc hs
  have hops : opsOf ctx h160 false (.bin .or_c x y) =
      opsOf ctx h160 false x ++ ([.notif] ++ opsOf ctx h160 false y ++ [.endif]) := by
    simp [opsOf]
  rw [hops, exec_append]
  cases hs with
  | or_c_l _ _ _ hsx =>
    rw [xs1 _ stk al cs hc hsx, Option.bind_some]
    exact notif_tail_l E ctx h160 y hiy stk al cs hc
  | or_c_r _ _ sx sy hsx hsy =>
    rw [List.append_assoc, xd sx (sy ++ stk) al cs hc hsx, Option.bind_some]
    exact notif_tail_r E ctx h160 y _ _ al al cs hc
      (vy sy stk al _ (by simp [executing_cons, hc]) hsy)

theorem sound_or_d (x y : Ms) (ht : Typed ctx (.bin .or_d x y)) (hiy : inS1 y = true)
    (ihx : Sound E ctx h160 x) (ihy : Sound E ctx h160 y) :
    Sound E ctx h160 (.bin .or_d x y) := by
  obtain ⟨hB, hB', tB, tx⟩ := ty_or_d ctx x y ht
  obtain ⟨xs, xd, _⟩ := ihx.1 hB
  obtain ⟨hxu, hu⟩ := u_or_d ctx x y ht
  have xs1 : ∀ s stk al cs, executing cs = true → Sat E x s →
      exec E (opsOf ctx h160 false x) ⟨s ++ stk, al, cs⟩ = some ⟨[1] :: stk, al, cs⟩ := by
    intro s stk al cs hc hs
    obtain ⟨v, _, hvu, e⟩ := xs s stk al cs hc hs
    rw [hvu hxu] at e; exact e
  obtain ⟨ys, yd, _⟩ := ihy.1 hB'
  have hops : opsOf ctx h160 false (.bin .or_d x y) =
      opsOf ctx h160 false x ++ ([.ifdup] ++ ([.notif] ++ opsOf ctx h160 false y ++ [.endif])) := by
    simp [opsOf]
  have dupT : ∀ stk al cs, executing cs = true →
      exec E ([.ifdup] ++ ([.notif] ++ opsOf ctx h160 false y ++ [.endif])) ⟨[1] :: stk, al, cs⟩ =
        some ⟨[1] :: stk, al, cs⟩ := by
    intro stk al cs hc
    rw [List.singleton_append, exec_cons_run E .ifdup _ _ al cs rfl hc]
    simp only [stepExec, castToBool]
    exact notif_tail_l E ctx h160 y hiy ([1] :: stk) al cs hc
  have dupF : ∀ stk st' al cs, executing cs = true →
      exec E (opsOf ctx h160 false y) ⟨stk, al, true :: cs⟩ = some ⟨st', al, true :: cs⟩ →
      exec E ([.ifdup] ++ ([.notif] ++ opsOf ctx h160 false y ++ [.endif])) ⟨[] :: stk, al, cs⟩ =
        some ⟨st', al, cs⟩ := by
    intro stk st' al cs hc hy
    rw [List.singleton_append, exec_cons_run E .ifdup _ _ al cs rfl hc]
    simp only [stepExec, castToBool]
    exact notif_tail_r E ctx h160 y stk st' al al cs hc hy
  have hcs : ∀ cs, executing cs = true → executing (true :: cs) = true := by
    intro cs h; simp [executing_cons, h]
  have hsat : ∀ s stk al cs, executing cs = true → Sat E (.bin .or_d x y) s → ∃ v, Truthy v ∧
      ((typeOf ctx (.bin .or_d x y)).u = true → v = [1]) ∧
      exec E (opsOf ctx h160 false (.bin .or_d x y)) ⟨s ++ stk, al, cs⟩ =
        some ⟨v :: stk, al, cs⟩ := by
    intro s stk al cs hc hs
    rw [hops]
    cases hs with
    | or_d_l _ _ _ hsx =>
      refine ⟨[1], truthy_one, fun _ => rfl, ?_⟩
      rw [exec_append, xs1 _ stk al cs hc hsx, Option.bind_some]
      exact dupT stk al cs hc
    | or_d_r _ _ sx sy hsx hsy =>
      obtain ⟨v, hv, hvu, e⟩ := ys sy stk al _ (hcs cs hc) hsy
      refine ⟨v, hv, fun h => hvu (by rw [hu] at h; exact h), ?_⟩
      rw [exec_append, List.append_assoc, xd sx (sy ++ stk) al cs hc hsx, Option.bind_some]
      exact dupF _ _ al cs hc e
  refine sound_of_B E ctx h160 _ ht tB ⟨hsat, ?_, bVer_of_x' E ctx h160 _ tx rfl hsat⟩
  intro s stk al cs hc hs
  rw [hops, exec_append]
  cases hs with
  | or_d _ _ sx sy hsx hsy =>
    rw [List.append_assoc, xd sx (sy ++ stk) al cs hc hsx, Option.bind_some]
    exact dupF _ _ al cs hc (yd sy stk al _ (hcs cs hc) hsy)

/-- `NOTIF [Z] ELSE [Y] ENDIF` after a true value: Y runs, Z is skipped. -/
theorem andor_tail_l (y z : Ms) (hz : inS1 z = true) (st st' al al' : List Bytes) (cs : List Bool)
    (hc : executing cs = true)
    (hy : exec E (opsOf ctx h160 false y) ⟨st, al, true :: cs⟩ = some ⟨st', al', true :: cs⟩) :
    exec E ([.notif] ++ opsOf ctx h160 false z ++ [.opelse] ++ opsOf ctx h160 false y ++ [.endif])
      ⟨[1] :: st, al, cs⟩ = some ⟨st', al', cs⟩ := by
  have e0 : step E .notif ⟨[1] :: st, al, cs⟩ = some ⟨st, al, false :: cs⟩ := by
    simp [step, hc, castToBool]
  have e1 := exec_skip E ctx h160 z false st al (false :: cs) hz (by simp [executing_cons])
  have e2 : step E .opelse ⟨st, al, false :: cs⟩ = some ⟨st, al, true :: cs⟩ := by simp [step]
  have e3 : step E .endif ⟨st', al', true :: cs⟩ = some ⟨st', al', cs⟩ := by simp [step]
  simp only [List.append_assoc, List.cons_append, List.nil_append, exec, e0, Option.bind_some,
    exec_append, e1, e2, hy, e3]

/-- `NOTIF [Z] ELSE [Y] ENDIF` after the empty vector: Z runs, Y is skipped. -/
theorem andor_tail_r (y z : Ms) (hy : inS1 y = true) (st st' al al' : List Bytes) (cs : List Bool)
    (hc : executing cs = true)
    (hz : exec E (opsOf ctx h160 false z) ⟨st, al, true :: cs⟩ = some ⟨st', al', true :: cs⟩) :
    exec E ([.notif] ++ opsOf ctx h160 false z ++ [.opelse] ++ opsOf ctx h160 false y ++ [.endif])
      ⟨[] :: st, al, cs⟩ = some ⟨st', al', cs⟩ := by
  have e0 : step E .notif ⟨[] :: st, al, cs⟩ = some ⟨st, al, true :: cs⟩ := by
    simp [step, hc, castToBool]
  have e2 : step E .opelse ⟨st', al', true :: cs⟩ = some ⟨st', al', false :: cs⟩ := by
    simp [step]
  have e1 := exec_skip E ctx h160 y false st' al' (false :: cs) hy (by simp [executing_cons])
  have e3 : step E .endif ⟨st', al', false :: cs⟩ = some ⟨st', al', cs⟩ := by simp [step]
  simp only [List.append_assoc, List.cons_append, List.nil_append, exec, e0, Option.bind_some,
    exec_append, hz, e2, e1, e3]

theorem sound_andor (x y z : Ms) (ht : Typed ctx (.andor x y z)) (hiy : inS1 y = true)
    (hiz : inS1 z = true) (ihx : Sound E ctx h160 x) (ihy : Sound E ctx h160 y)
    (ihz : Sound E ctx h160 z) : Sound E ctx h160 (.andor x y z) := by
  obtain ⟨hB, eB, eV, eK, eW, ex⟩ := ty_andor ctx x y z ht
  obtain ⟨xs, xd, _⟩ := ihx.1 hB
  obtain ⟨hxu, hu⟩ := u_andor ctx x y z ht
  have xs1 : ∀ s stk al cs, executing cs = true → Sat E x s →
      exec E (opsOf ctx h160 false x) ⟨s ++ stk, al, cs⟩ = some ⟨[1] :: stk, al, cs⟩ := by
    intro s stk al cs hc hs
    obtain ⟨v, _, hvu, e⟩ := xs s stk al cs hc hs
    rw [hvu hxu] at e; exact e
  have hops : opsOf ctx h160 false (.andor x y z) = opsOf ctx h160 false x ++
      ([.notif] ++ opsOf ctx h160 false z ++ [.opelse] ++ opsOf ctx h160 false y ++ [.endif]) := by
    simp [opsOf]
  have hcs : ∀ cs, executing cs = true → executing (true :: cs) = true := by
    intro cs h; simp [executing_cons, h]
  -- the two ways through: X satisfied then Y; X dissatisfied then Z
  have viaY : ∀ sx sy stk st' al cs, executing cs = true → Sat E x sx →
      exec E (opsOf ctx h160 false y) ⟨sy ++ stk, al, true :: cs⟩ = some ⟨st', al, true :: cs⟩ →
      exec E (opsOf ctx h160 false (.andor x y z)) ⟨(sx ++ sy) ++ stk, al, cs⟩ =
        some ⟨st', al, cs⟩ := by
    intro sx sy stk st' al cs hc hsx hy
    rw [hops, exec_append, List.append_assoc, xs1 sx (sy ++ stk) al cs hc hsx, Option.bind_some]
    exact andor_tail_l E ctx h160 y z hiz _ _ al al cs hc hy
  have viaZ : ∀ sx sz stk st' al cs, executing cs = true → Dsat E x sx →
      exec E (opsOf ctx h160 false z) ⟨sz ++ stk, al, true :: cs⟩ = some ⟨st', al, true :: cs⟩ →
      exec E (opsOf ctx h160 false (.andor x y z)) ⟨(sx ++ sz) ++ stk, al, cs⟩ =
        some ⟨st', al, cs⟩ := by
    intro sx sz stk st' al cs hc hsx hz
    rw [hops, exec_append, List.append_assoc, xd sx (sz ++ stk) al cs hc hsx, Option.bind_some]
    exact andor_tail_r E ctx h160 y z hiy _ _ al al cs hc hz
  refine ⟨?_, ?_, ?_, fun h => by rw [eW] at h; cases h⟩
  · intro hB'
    rw [eB, Bool.and_eq_true] at hB'
    obtain ⟨ys, yd, _⟩ := ihy.1 hB'.1
    obtain ⟨zs, zd, _⟩ := ihz.1 hB'.2
    have hsat : ∀ s stk al cs, executing cs = true → Sat E (.andor x y z) s → ∃ v, Truthy v ∧
        ((typeOf ctx (.andor x y z)).u = true → v = [1]) ∧
        exec E (opsOf ctx h160 false (.andor x y z)) ⟨s ++ stk, al, cs⟩ =
          some ⟨v :: stk, al, cs⟩ := by
      intro s stk al cs hc hs
      cases hs with
      | andor_l _ _ _ sx sy hsx hsy =>
        obtain ⟨v, hv, hvu, e⟩ := ys sy stk al _ (hcs cs hc) hsy
        exact ⟨v, hv, fun h => hvu (by rw [hu, Bool.and_eq_true] at h; exact h.1),
          viaY sx sy stk _ al cs hc hsx e⟩
      | andor_r _ _ _ sx sz hsx hsz =>
        obtain ⟨v, hv, hvu, e⟩ := zs sz stk al _ (hcs cs hc) hsz
        exact ⟨v, hv, fun h => hvu (by rw [hu, Bool.and_eq_true] at h; exact h.2),
          viaZ sx sz stk _ al cs hc hsx e⟩
    refine ⟨hsat, ?_, bVer_of_x' E ctx h160 _ ex rfl hsat⟩
    intro s stk al cs hc hs
    cases hs with
    | andor _ _ _ sx sz hsx hsz => exact viaZ sx sz stk _ al cs hc hsx (zd sz stk al _ (hcs cs hc) hsz)
    | andor_y _ _ _ sx sy hsx hsy => exact viaY sx sy stk _ al cs hc hsx (yd sy stk al _ (hcs cs hc) hsy)
  · intro hV
    rw [eV, Bool.and_eq_true] at hV
    have vy := ihy.2.1 hV.1
    have vz := ihz.2.1 hV.2
    intro s stk al cs hc hs
    cases hs with
    | andor_l _ _ _ sx sy hsx hsy => exact viaY sx sy stk _ al cs hc hsx (vy sy stk al _ (hcs cs hc) hsy)
    | andor_r _ _ _ sx sz hsx hsz => exact viaZ sx sz stk _ al cs hc hsx (vz sz stk al _ (hcs cs hc) hsz)
  · intro hK
    rw [eK, Bool.and_eq_true] at hK
    obtain ⟨ys, yd⟩ := ihy.2.2.1 hK.1
    obtain ⟨zs, zd⟩ := ihz.2.2.1 hK.2
    refine ⟨?_, ?_⟩
    · intro s stk al cs hc hs
      cases hs with
      | andor_l _ _ _ sx sy hsx hsy =>
        obtain ⟨k, σ, hσ, e⟩ := ys sy stk al _ (hcs cs hc) hsy
        exact ⟨k, σ, hσ, viaY sx sy stk _ al cs hc hsx e⟩
      | andor_r _ _ _ sx sz hsx hsz =>
        obtain ⟨k, σ, hσ, e⟩ := zs sz stk al _ (hcs cs hc) hsz
        exact ⟨k, σ, hσ, viaZ sx sz stk _ al cs hc hsx e⟩
    · intro s stk al cs hc hs
      cases hs with
      | andor _ _ _ sx sz hsx hsz =>
        obtain ⟨k, σ, hσ, e⟩ := zd sz stk al _ (hcs cs hc) hsz
        exact ⟨k, σ, hσ, viaZ sx sz stk _ al cs hc hsx e⟩
      | andor_y _ _ _ sx sy hsx hsy =>
        obtain ⟨k, σ, hσ, e⟩ := yd sy stk al _ (hcs cs hc) hsy
        exact ⟨k, σ, hσ, viaY sx sy stk _ al cs hc hsx e⟩

/-! ### "z" and "o": how many elements a (dis)satisfaction has -/

/-- what "z" and "o" promise of a satisfaction or dissatisfaction: no element, exactly one. -/
def Len (p : Props) (s : List Bytes) : Prop :=
  (p.z = true → s.length = 0) ∧ (p.o = true → s.length = 1)

theorem len_and_nat (xz xo yz yo : Bool) (a b : Nat) (hx : (xz = true → a = 0) ∧ (xo = true → a = 1))
    (hy : (yz = true → b = 0) ∧ (yo = true → b = 1)) :
    ((xz && yz) = true → a + b = 0) ∧ (((xz || yz) && (xo || yo)) = true → a + b = 1) := by
  cases xz <;> cases xo <;> cases yz <;> cases yo <;> simp at hx hy ⊢ <;> omega

theorem len_and {t tx ty : Props} {sx sy : List Bytes} (hz : t.z = (tx.z && ty.z))
    (ho : t.o = ((tx.z || ty.z) && (tx.o || ty.o))) (hx : Len tx sx) (hy : Len ty sy) :
    Len t (sx ++ sy) := by
  unfold Len at *
  rw [hz, ho, List.length_append]
  exact len_and_nat _ _ _ _ _ _ hx hy

theorem len_orc_nat (xz xo yz yo : Bool) (a b : Nat) (hx : (xz = true → a = 0) ∧ (xo = true → a = 1))
    (hy : (yz = true → b = 0) ∧ (yo = true → b = 1)) :
    (((xz && yz) = true → a = 0) ∧ ((yz && xo) = true → a = 1)) ∧
    (((xz && yz) = true → a + b = 0) ∧ ((yz && xo) = true → a + b = 1)) := by
  cases xz <;> cases xo <;> cases yz <;> cases yo <;> simp at hx hy ⊢ <;> omega

theorem len_orc_l {t tx ty : Props} {sx : List Bytes} (hz : t.z = (tx.z && ty.z))
    (ho : t.o = (ty.z && tx.o)) (hx : Len tx sx) : Len t sx := by
  unfold Len at *
  rw [hz, ho]
  exact (len_orc_nat _ _ _ false _ 0 hx (by simp)).1

theorem len_orc_r {t tx ty : Props} {sx sy : List Bytes} (hz : t.z = (tx.z && ty.z))
    (ho : t.o = (ty.z && tx.o)) (hx : Len tx sx) (hy : Len ty sy) : Len t (sx ++ sy) := by
  unfold Len at *
  rw [hz, ho, List.length_append]
  exact (len_orc_nat _ _ _ _ _ _ hx hy).2

theorem len_ori_nat (xz yz : Bool) (a : Nat) (h : (xz = true → a = 0) ∨ (yz = true → a = 0)) :
    (xz && yz) = true → a + 1 = 1 := by
  cases xz <;> cases yz <;> simp at h ⊢ <;> omega

theorem len_ori {t tx ty : Props} {s : List Bytes} (v : Bytes) (hz : t.z = false)
    (ho : t.o = (tx.z && ty.z)) (h : Len tx s ∨ Len ty s) : Len t (v :: s) := by
  unfold Len at *
  rw [hz, ho, List.length_cons]
  refine ⟨by simp, len_ori_nat _ _ _ ?_⟩
  rcases h with h | h
  · exact Or.inl h.1
  · exact Or.inr h.1

theorem len_andor_nat (xz xo yz yo zz zo : Bool) (a b : Nat)
    (hx : (xz = true → a = 0) ∧ (xo = true → a = 1))
    (h2 : ((yz = true → b = 0) ∧ (yo = true → b = 1)) ∨ ((zz = true → b = 0) ∧ (zo = true → b = 1))) :
    ((xz && yz && zz) = true → a + b = 0) ∧
    (((xz || (yz && zz)) && (xo || (yo && zo))) = true → a + b = 1) := by
  cases xz <;> cases xo <;> cases yz <;> cases yo <;> cases zz <;> cases zo <;>
    rcases h2 with h2 | h2 <;> simp at hx h2 ⊢ <;> omega

theorem len_andor {t tx ty tz : Props} {sx s2 : List Bytes}
    (hz : t.z = (tx.z && ty.z && tz.z))
    (ho : t.o = ((tx.z || (ty.z && tz.z)) && (tx.o || (ty.o && tz.o)))) (hx : Len tx sx)
    (h2 : Len ty s2 ∨ Len tz s2) : Len t (sx ++ s2) := by
  unfold Len at *
  rw [hz, ho, List.length_append]
  exact len_andor_nat _ _ _ _ _ _ _ _ hx h2

theorem sound_s (x : Ms) (ht : Typed ctx (.wrap .s x)) (ih : Sound E ctx h160 x)
    (hlen : ∀ s, (Sat E x s ∨ Dsat E x s) → Len (typeOf ctx x) s) :
    Sound E ctx h160 (.wrap .s x) := by
  obtain ⟨hB, ho, hW⟩ := ty_s ctx x ht
  obtain ⟨bs, bd, _⟩ := ih.1 hB
  refine sound_of_W E ctx h160 _ ht hW ⟨?_, ?_⟩
  · intro top s stk al cs hc hs
    cases hs with
    | wrap _ _ _ _ _ hs =>
      have hl := (hlen s (Or.inl hs)).2 ho
      match s, hl with
      | [e], _ =>
        obtain ⟨v, hv, hvu, this⟩ := bs [e] (top :: stk) al cs hc hs
        refine ⟨v, v :: top :: stk, hv,
          fun h => hvu (by rw [← u_wrap_as ctx .s (Or.inr rfl) x ht]; exact h), ?_, Or.inl rfl⟩
        simp only [List.cons_append, List.nil_append] at this
        simp [opsOf, exec_cons_run E .swap _ _ al cs rfl hc, stepExec, this]
  · intro top s stk al cs hc hs
    cases hs with
    | wrap_s _ _ hs =>
      have hl := (hlen s (Or.inr hs)).2 ho
      match s, hl with
      | [e], _ =>
        refine ⟨[] :: top :: stk, ?_, Or.inl rfl⟩
        have := bd [e] (top :: stk) al cs hc hs
        simp only [List.cons_append, List.nil_append] at this
        simp [opsOf, exec_cons_run E .swap _ _ al cs rfl hc, stepExec, this]

theorem sound_d (x : Ms) (ht : Typed ctx (.wrap .d x)) (hix : inS1 x = true)
    (ih : Sound E ctx h160 x)
    (hlen : ∀ s, (Sat E x s ∨ Dsat E x s) → Len (typeOf ctx x) s) :
    Sound E ctx h160 (.wrap .d x) := by
  obtain ⟨hV, hz, tB, tx⟩ := ty_d ctx x ht
  have vx := ih.2.1 hV
  have hsat : ∀ s stk al cs, executing cs = true → Sat E (.wrap .d x) s →
      exec E (opsOf ctx h160 false (.wrap .d x)) ⟨s ++ stk, al, cs⟩ = some ⟨[1] :: stk, al, cs⟩ := by
    intro s stk al cs hc hs
    cases hs with
    | wrap _ _ _ hd _ _ => exact absurd rfl hd
    | wrap_d _ sx hsx =>
      have hl := (hlen sx (Or.inl hsx)).1 hz
      match sx, hl with
      | [], _ =>
        have e0 : step E .opif ⟨[1] :: [1] :: stk, al, cs⟩ = some ⟨[1] :: stk, al, true :: cs⟩ := by
          simp [step, hc, castToBool]
        have e1 := vx [] ([1] :: stk) al (true :: cs) (by simp [executing_cons, hc]) hsx
        have e2 : step E .endif ⟨[1] :: stk, al, true :: cs⟩ = some ⟨[1] :: stk, al, cs⟩ := by
          simp [step]
        simp only [List.nil_append] at e1
        simp only [opsOf, List.append_assoc, List.cons_append, List.nil_append]
        rw [exec_cons_run E .dup _ _ al cs rfl hc]
        simp only [stepExec, Option.bind_some, exec, e0, exec_append, e1, e2]
  refine sound_of_B E ctx h160 _ ht tB ⟨bSat_of_one E ctx h160 _ hsat, ?_, bVer_of_x E ctx h160 _ tx rfl hsat⟩
  intro s stk al cs hc hs
  cases hs with
  | wrap_d _ =>
    have e0 : step E .opif ⟨[] :: [] :: stk, al, cs⟩ = some ⟨[] :: stk, al, false :: cs⟩ := by
      simp [step, hc, castToBool]
    have e1 := exec_skip E ctx h160 x false ([] :: stk) al (false :: cs) hix (by simp [executing_cons])
    have e2 : step E .endif ⟨[] :: stk, al, false :: cs⟩ = some ⟨[] :: stk, al, cs⟩ := by simp [step]
    simp only [opsOf, List.append_assoc, List.cons_append, List.nil_append]
    rw [exec_cons_run E .dup _ _ al cs rfl hc]
    simp only [stepExec, Option.bind_some, exec, e0, exec_append, e1, e2]

/-! ### "n": the top element of a satisfaction is not empty -/

theorem encodeNum_zero : encodeNum 0 = [] := by decide

theorem sound_j (x : Ms) (ht : Typed ctx (.wrap .j x)) (hix : inS1 x = true)
    (ih : Sound E ctx h160 x)
    (hn : ∀ s, Sat E x s → ∃ e rest, s = e :: rest ∧ e ≠ []) :
    Sound E ctx h160 (.wrap .j x) := by
  obtain ⟨hB, _, tB, tx, hu⟩ := ty_j ctx x ht
  obtain ⟨bs, _, _⟩ := ih.1 hB
  have hsat : ∀ s stk al cs, executing cs = true → Sat E (.wrap .j x) s → ∃ v, Truthy v ∧
      ((typeOf ctx (.wrap .j x)).u = true → v = [1]) ∧
      exec E (opsOf ctx h160 false (.wrap .j x)) ⟨s ++ stk, al, cs⟩ = some ⟨v :: stk, al, cs⟩ := by
    intro s stk al cs hc hs
    cases hs with
    | wrap _ _ _ _ hj _ => exact absurd rfl hj
    | wrap_j _ _ hsx hsz =>
      obtain ⟨e, rest, rfl, he⟩ := hn s hsx
      obtain ⟨v, hv, hvu, ex⟩ := bs (e :: rest) stk al (true :: cs) (by simp [executing_cons, hc]) hsx
      refine ⟨v, hv, fun h => hvu (by rw [← hu]; exact h), ?_⟩
      have hlen : 1 ≤ e.length := by
        cases e with
        | nil => exact absurd rfl he
        | cons _ _ => simp
      have h520 : e.length < 2 ^ 31 := by
        have := hsz e (by simp); omega
      have e1 : numTruth (encodeNum e.length) = some true := truthy_encodeNum e.length hlen h520
      have e0 : step E .opif ⟨[1] :: e :: (rest ++ stk), al, cs⟩ =
          some ⟨e :: (rest ++ stk), al, true :: cs⟩ := by simp [step, hc, castToBool]
      have e2 : step E .endif ⟨v :: stk, al, true :: cs⟩ = some ⟨v :: stk, al, cs⟩ := by simp [step]
      simp only [List.cons_append] at ex
      simp only [opsOf, List.append_assoc, List.cons_append, List.nil_append]
      rw [exec_cons_run E .size _ _ al cs rfl hc]
      simp only [stepExec, Option.bind_some]
      rw [exec_cons_run E .zeronotequal _ _ al cs rfl hc]
      simp only [stepExec, e1, boolBytes, if_true, Option.bind_some, exec, e0, exec_append, ex, e2]
  refine sound_of_B E ctx h160 _ ht tB ⟨hsat, ?_, bVer_of_x' E ctx h160 _ tx rfl hsat⟩
  intro s stk al cs hc hs
  cases hs with
  | wrap_j _ =>
    have e0 : step E .opif ⟨[] :: [] :: stk, al, cs⟩ = some ⟨[] :: stk, al, false :: cs⟩ := by
      simp [step, hc, castToBool]
    have e1 := exec_skip E ctx h160 x false ([] :: stk) al (false :: cs) hix (by simp [executing_cons])
    have e2 : step E .endif ⟨[] :: stk, al, false :: cs⟩ = some ⟨[] :: stk, al, cs⟩ := by simp [step]
    simp only [opsOf, List.append_assoc, List.cons_append, List.nil_append]
    rw [exec_cons_run E .size _ _ al cs rfl hc]
    simp only [stepExec, Option.bind_some, List.length_nil, encodeNum_zero]
    rw [exec_cons_run E .zeronotequal _ _ al cs rfl hc]
    simp only [stepExec, numTruth_nil, boolBytes, Bool.false_eq_true, if_false, Option.bind_some,
      exec, e0, exec_append, e1, e2]

end

end Btc.Miniscript
