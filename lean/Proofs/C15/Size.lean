import Model.C15.Compile
/-!
C15 — T1: the static script size is the length of the compiled script.
-/
namespace Btc.Miniscript
open Btc Gen.Miniscript

theorem pushData_length_small (d : Bytes) (h : d.length < 76) :
    (pushData d).length = d.length + 1 := by
  simp [pushData, h]

theorem pushNum32_length : (pushNum 32).length = 2 := by decide

theorem flatMap_pushData_length (n : Nat) (hn : n < 76) (keys : List Key)
    (h : keys.all (fun key => key.length == n) = true) :
    (keys.flatMap pushData).length = (n + 1) * keys.length := by
  induction keys with
  | nil => simp
  | cons k ks ih =>
    simp only [List.all_cons, Bool.and_eq_true, beq_iff_eq] at h
    have hk : k.length < 76 := by omega
    simp only [List.flatMap_cons, List.length_append, pushData_length_small k hk, ih h.2,
      List.length_cons, h.1]
    rw [Nat.mul_add]; omega

theorem flatMap_checksigadd_length (n : Nat) (hn : n < 76) (keys : List Key)
    (h : keys.all (fun key => key.length == n) = true) :
    (keys.flatMap fun k => pushData k ++ [OP_CHECKSIGADD]).length = (n + 2) * keys.length := by
  induction keys with
  | nil => simp
  | cons k ks ih =>
    simp only [List.all_cons, Bool.and_eq_true, beq_iff_eq] at h
    have hk : k.length < 76 := by omega
    simp only [List.flatMap_cons, List.length_append, pushData_length_small k hk, ih h.2,
      List.length_cons, List.length_nil, h.1]
    rw [Nat.mul_add]; omega

theorem multiAKeys_length (n : Nat) (hn : n < 76) (keys : List Key)
    (h : keys.all (fun key => key.length == n) = true) :
    (multiAKeys keys).length = (n + 2) * keys.length := by
  cases keys with
  | nil => simp [multiAKeys]
  | cons k ks =>
    simp only [List.all_cons, Bool.and_eq_true, beq_iff_eq] at h
    have hk : k.length < 76 := by omega
    simp only [multiAKeys, List.length_append, pushData_length_small k hk,
      flatMap_checksigadd_length n hn ks h.2, List.length_cons, List.length_nil, h.1]
    rw [Nat.mul_add]; omega

mutual
theorem scriptSize_eq_length (ctx : Ctx) (h160 : Bytes → Bytes) (hh : ∀ b, (h160 b).length = 20) :
    ∀ (n : Ms) (verify : Bool), shaped ctx n = true →
      scriptSize ctx n = (compile ctx h160 verify n).length
  | .f0, _, _ => by simp [scriptSize, compile]
  | .f1, _, _ => by simp [scriptSize, compile]
  | .pk_k k, _, h => by
    simp only [shaped, beq_iff_eq] at h
    cases ctx <;> simp [keySize, PUB_KEY_SIZE_P2WSH, PUB_KEY_SIZE_TAPSCRIPT] at h <;>
      simp [scriptSize, compile, pushData, h]
  | .pk_h k, _, _ => by
    simp [scriptSize, compile, pushData, hh]
  | .older n, _, _ => by simp [scriptSize, compile, pushedSize]; omega
  | .after n, _, _ => by simp [scriptSize, compile, pushedSize]; omega
  | .hash hk d, _, h => by
    simp only [shaped, beq_iff_eq] at h
    cases hk <;> simp [dataSize] at h <;>
      simp [scriptSize, compile, pushData, h, dataSize, pushNum32_length]
  | .multi k keys, _, h => by
    simp only [shaped, Bool.and_eq_true] at h
    have hc : ctx = .p2wsh := by simpa using h.1.1.1.1.1
    subst hc
    have := flatMap_pushData_length 33 (by omega) keys (by simpa [keySize, PUB_KEY_SIZE_P2WSH] using h.2)
    simp [scriptSize, compile, pushedSize, this]; omega
  | .multi_a k keys, _, h => by
    simp only [shaped, Bool.and_eq_true] at h
    have hc : ctx = .tapscript := by simpa using h.1.1.1.1.1
    subst hc
    have := multiAKeys_length 32 (by omega) keys (by simpa [keySize, PUB_KEY_SIZE_TAPSCRIPT] using h.2)
    simp [scriptSize, compile, pushedSize, this]; omega
  | .wrap w x, verify, h => by
    simp only [shaped] at h
    have H := fun b => scriptSize_eq_length ctx h160 hh x b h
    cases w
    case c =>
      simp [scriptSize, compile, overhead, Wrap.frag, H false]
    case v =>
      simp only [scriptSize, compile, H true, List.length_append]
      cases (typeOf ctx x).x <;> simp
    all_goals
      have H1 := H true
      have H2 := H false
      have H3 := H verify
      simp [scriptSize, compile, overhead, template, instantiate, Wrap.frag, Wrap.verifyState] at H1 H2 H3 ⊢
      omega
  | .bin b x y, verify, h => by
    simp only [shaped, Bool.and_eq_true] at h
    have hx := scriptSize_eq_length ctx h160 hh x (b.verifyState verify 0) h.1
    have hy := scriptSize_eq_length ctx h160 hh y (b.verifyState verify 1) h.2
    cases b <;>
      simp [scriptSize, compile, overhead, template, instantiate, Bin.frag] at hx hy ⊢ <;> omega
  | .andor x y z, _, h => by
    simp only [shaped, Bool.and_eq_true] at h
    have hx := scriptSize_eq_length ctx h160 hh x false h.1.1
    have hy := scriptSize_eq_length ctx h160 hh y false h.1.2
    have hz := scriptSize_eq_length ctx h160 hh z false h.2
    simp [scriptSize, compile, overhead, template, instantiate] at hx hy hz ⊢
    omega
  | .thresh k x xs, _, h => by
    simp only [shaped, Bool.and_eq_true] at h
    have hx := scriptSize_eq_length ctx h160 hh x false h.1.2
    have hl := scriptSizeL_eq_length ctx h160 hh xs h.2
    simp [scriptSize, compile, pushedSize] at hx hl ⊢
    omega
theorem scriptSizeL_eq_length (ctx : Ctx) (h160 : Bytes → Bytes) (hh : ∀ b, (h160 b).length = 20) :
    ∀ (l : MsL), shapedL ctx l = true →
      scriptSizeL ctx l + l.length = (compileRest ctx h160 l).length
  | .nil, _ => by simp [scriptSizeL, compileRest, MsL.length]
  | .cons x xs, h => by
    simp only [shapedL, Bool.and_eq_true] at h
    have hx := scriptSize_eq_length ctx h160 hh x false h.1
    have hl := scriptSizeL_eq_length ctx h160 hh xs h.2
    simp [scriptSizeL, compileRest, MsL.length] at hx hl ⊢
    omega
end

end Btc.Miniscript
