import Proofs.C15.Sound
/-!
C15 — T3 for the three quorum fragments `multi_a` (CHECKSIG / CHECKSIGADD chain, NUMEQUAL),
`multi` (OP_CHECKMULTISIG) and `thresh` (ADD chain, EQUAL), against the same minimal semantics.
-/
namespace Btc.Miniscript
open Btc Gen.Miniscript Btc.Script

/-! ### script numbers the quorum op codes read -/

theorem numVal_encodeNum (n : Nat) (h : n < 2 ^ 31) : numVal (encodeNum n) = some (n : Int) := by
  have hl := encodeNum_length_le n h
  unfold numVal
  unfold encodeNum at hl ⊢
  simp [decodeNum_encodeNumRaw, hl]

theorem encodeNum_one : encodeNum 1 = [1] := by decide

theorem encodeNumRaw_nat_add (a b : Nat) : encodeNumRaw ((a : Int) + (b : Int)) = encodeNum (a + b) := by
  unfold encodeNum
  rw [Int.natCast_add]

theorem encodeNum_inj {a b : Nat} (h : encodeNum a = encodeNum b) : a = b := by
  have := congrArg decodeNum h
  unfold encodeNum at this
  rw [decodeNum_encodeNumRaw, decodeNum_encodeNumRaw] at this
  exact Int.ofNat_inj.mp this

/-! ### multi_a -/

theorem SigRow_count_le {E : EvalEnv} : ∀ {ks : List Key} {s : List Bytes} {c : Nat},
    SigRow E ks s c → c ≤ ks.length ∧ s.length = ks.length
  | _, _, _, .nil => ⟨Nat.le_refl _, rfl⟩
  | _, _, _, .skip k ks s c h => by
    have := SigRow_count_le h; simp only [List.length_cons]; omega
  | _, _, _, .sign k ks σ s c _ h => by
    have := SigRow_count_le h; simp only [List.length_cons]; omega

section
variable (E : EvalEnv) (ctx : Ctx) (h160 : Bytes → Bytes)

/-- the `<key> OP_CHECKSIGADD` chain adds one per signature to the count on top. -/
theorem exec_checksigadd (hsig0 : ∀ k, E.sigOK k [] = false) (al : List Bytes) (cs : List Bool)
    (hc : executing cs = true) :
    ∀ (ks : List Key) (s : List Bytes) (c c0 : Nat) (stk : List Bytes), SigRow E ks s c →
      c0 + ks.length < 2 ^ 31 →
      exec E (ks.flatMap fun k => [.push k, .checksigadd]) ⟨encodeNum c0 :: (s ++ stk), al, cs⟩ =
        some ⟨encodeNum (c0 + c) :: stk, al, cs⟩ := by
  intro ks
  induction ks with
  | nil => intro s c c0 stk h _; cases h; rfl
  | cons k ks ih =>
    intro s c c0 stk h hb
    simp only [List.length_cons] at hb
    have h31 : c0 < 2 ^ 31 := by omega
    have hn : numVal (encodeNum c0) = some (c0 : Int) := numVal_encodeNum c0 h31
    cases h with
    | skip _ _ s' _ h' =>
      have := ih s' c c0 stk h' (by omega)
      simp only [List.flatMap_cons, List.cons_append, List.nil_append]
      rw [exec_cons_run E (.push k) _ _ al cs rfl hc]
      simp only [stepExec, Option.bind_some]
      rw [exec_cons_run E .checksigadd _ _ al cs rfl hc]
      simp only [stepExec, hn, if_true, Option.bind_some]
      exact this
    | sign _ _ σ s' c' hσ h' =>
      have hne : σ ≠ [] := fun e => by rw [e, hsig0] at hσ; cases hσ
      have := ih s' c' (c0 + 1) stk h' (by omega)
      simp only [List.flatMap_cons, List.cons_append, List.nil_append]
      rw [exec_cons_run E (.push k) _ _ al cs rfl hc]
      simp only [stepExec, Option.bind_some]
      rw [exec_cons_run E .checksigadd _ _ al cs rfl hc]
      simp only [stepExec, hn, hne, if_false, hσ, if_true, Option.bind_some]
      have e1 : encodeNumRaw ((c0 : Int) + 1) = encodeNum (c0 + 1) := encodeNumRaw_nat_add c0 1
      have e2 : c0 + 1 + c' = c0 + (c' + 1) := by omega
      rw [e1, this, e2]

/-- `<k1> CHECKSIG <k2> CHECKSIGADD … <kn> CHECKSIGADD` leaves the number of signatures. -/
theorem exec_multiAOps (hsig0 : ∀ k, E.sigOK k [] = false) (al : List Bytes) (cs : List Bool)
    (hc : executing cs = true) (ks : List Key) (hks : ks ≠ []) (s : List Bytes) (c : Nat)
    (stk : List Bytes) (h : SigRow E ks s c) (hb : ks.length < 2 ^ 31) :
    exec E (multiAOps ks) ⟨s ++ stk, al, cs⟩ = some ⟨encodeNum c :: stk, al, cs⟩ := by
  cases ks with
  | nil => exact absurd rfl hks
  | cons k ks =>
    simp only [List.length_cons] at hb
    have hb0 : 0 + ks.length < 2 ^ 31 := by omega
    have hb1 : 1 + ks.length < 2 ^ 31 := by omega
    simp only [multiAOps, List.cons_append, List.nil_append]
    cases h with
    | skip _ _ s' _ h' =>
      have := exec_checksigadd E hsig0 al cs hc ks s' c 0 stk h' hb0
      simp only [List.cons_append]
      rw [exec_cons_run E (.push k) _ _ al cs rfl hc]
      simp only [stepExec, Option.bind_some]
      rw [exec_cons_run E .checksig _ _ al cs rfl hc]
      simp only [stepExec, hsig0, Bool.false_eq_true, if_false, if_true, Option.bind_some, boolBytes]
      rw [← encodeNum_zero, this]
      simp
    | sign _ _ σ s' c' hσ h' =>
      have := exec_checksigadd E hsig0 al cs hc ks s' c' 1 stk h' hb1
      simp only [List.cons_append]
      rw [exec_cons_run E (.push k) _ _ al cs rfl hc]
      simp only [stepExec, Option.bind_some]
      rw [exec_cons_run E .checksig _ _ al cs rfl hc]
      simp only [stepExec, hσ, if_true, Option.bind_some, boolBytes]
      have e2 : 1 + c' = c' + 1 := by omega
      rw [← encodeNum_one, this, e2]

theorem ty_multi_a (k : Nat) (keys : List Key) : Typed ctx (.multi_a k keys) ∧
    (typeOf ctx (.multi_a k keys)).B = true ∧ (typeOf ctx (.multi_a k keys)).x = false ∧
    (typeOf ctx (.multi_a k keys)).z = false ∧ (typeOf ctx (.multi_a k keys)).o = false ∧
    (typeOf ctx (.multi_a k keys)).n = false := by
  refine ⟨?_, ?_, ?_, ?_, ?_, ?_⟩ <;> rfl

theorem ty_multi (k : Nat) (keys : List Key) : Typed ctx (.multi k keys) ∧
    (typeOf ctx (.multi k keys)).B = true ∧ (typeOf ctx (.multi k keys)).x = false ∧
    (typeOf ctx (.multi k keys)).z = false ∧ (typeOf ctx (.multi k keys)).o = false := by
  refine ⟨?_, ?_, ?_, ?_, ?_⟩ <;> rfl

theorem sound_multi_a (hsig0 : ∀ k, E.sigOK k [] = false) (k : Nat) (keys : List Key)
    (hk : k ≤ keys.length) (hks : 1 ≤ keys.length) (hb : keys.length < 2 ^ 31) :
    Sound E ctx h160 (.multi_a k keys) := by
  obtain ⟨ht, hB, hx, _⟩ := ty_multi_a ctx k keys
  have hne : keys ≠ [] := fun e => by rw [e] at hks; simp at hks
  have hnk : numVal (encodeNum k) = some (k : Int) := numVal_encodeNum k (by omega)
  have run : ∀ (v : Bool) s c stk al cs, executing cs = true → SigRow E keys s c →
      exec E (opsOf ctx h160 v (.multi_a k keys)) ⟨s ++ stk, al, cs⟩ =
        (if v then (if c = k then some ⟨stk, al, cs⟩ else none)
         else some ⟨boolBytes (decide (c = k)) :: stk, al, cs⟩) := by
    intro v s c stk al cs hc h
    have hcl := (SigRow_count_le h).1
    have hnc : numVal (encodeNum c) = some (c : Int) := numVal_encodeNum c (by omega)
    simp only [opsOf]
    rw [exec_append, exec_multiAOps E hsig0 al cs hc keys hne s c stk h hb, Option.bind_some]
    rw [exec_cons_run E (.pushnum k) _ _ al cs rfl hc]
    simp only [stepExec, Option.bind_some]
    cases v
    · simp only [Bool.false_eq_true, if_false]
      rw [exec_cons_run E .numequal _ _ al cs rfl hc]
      simp only [stepExec, hnk, hnc, Option.bind_some, exec_nil]
      by_cases e : c = k
      · simp [e]
      · have : ((c : Int) == (k : Int)) = false := by
          simp only [beq_eq_false_iff_ne, ne_eq]; omega
        simp [e, this]
    · simp only [if_true]
      rw [exec_cons_run E .numequalverify _ _ al cs rfl hc]
      simp only [stepExec, hnk, hnc]
      by_cases e : c = k
      · simp [e]
      · have : ¬ ((c : Int) = (k : Int)) := by omega
        simp [e, this]
  have hsat : ∀ s stk al cs, executing cs = true → Sat E (.multi_a k keys) s →
      exec E (opsOf ctx h160 false (.multi_a k keys)) ⟨s ++ stk, al, cs⟩ = some ⟨[1] :: stk, al, cs⟩ := by
    intro s stk al cs hc hs
    cases hs with
    | multi_a _ _ _ h =>
      rw [run false s k stk al cs hc h]
      simp [boolBytes]
  refine sound_of_B E ctx h160 _ ht hB ⟨bSat_of_one E ctx h160 _ hsat, ?_, ?_⟩
  · intro s stk al cs hc hs
    cases hs with
    | multi_a _ _ _ c h hck =>
      rw [run false s c stk al cs hc h]
      simp [boolBytes, hck]
  · intro s stk al cs hc hs
    cases hs with
    | multi_a _ _ _ h =>
      rw [hx]
      simp only [Bool.false_eq_true, if_false, List.append_nil]
      rw [run true s k stk al cs hc h]
      simp

/-! ### multi -/

theorem SigSub_tail {E : EvalEnv} : ∀ {ks : List Key} {σ : Bytes} {s : List Bytes},
    SigSub E ks (σ :: s) → SigSub E ks s
  | _, _, _, .skip k ks _ h => .skip k ks _ (SigSub_tail h)
  | _, _, _, .sign k ks _ _ _ h => .skip k ks _ h

/-- OP_CHECKMULTISIG's greedy walk finds the signatures. -/
theorem matchSigs_of_SigSub {E : EvalEnv} : ∀ (ks : List Key) (s : List Bytes), SigSub E ks s →
    matchSigs E s ks = true
  | [], _, h => by cases h; rfl
  | k :: ks, [], _ => rfl
  | k :: ks, σ :: s, h => by
    simp only [matchSigs]
    cases hk : E.sigOK k σ with
    | true =>
      simp only [if_true]
      cases h with
      | skip _ _ _ h' => exact matchSigs_of_SigSub ks s (SigSub_tail h')
      | sign _ _ _ _ _ h' => exact matchSigs_of_SigSub ks s h'
    | false =>
      simp only [Bool.false_eq_true, if_false]
      cases h with
      | skip _ _ _ h' => exact matchSigs_of_SigSub ks (σ :: s) h'
      | sign _ _ _ _ hσ _ => rw [hk] at hσ; cases hσ

theorem SigSub_head_ok {E : EvalEnv} : ∀ {ks : List Key} {σ : Bytes} {s : List Bytes},
    SigSub E ks (σ :: s) → ∃ k, E.sigOK k σ = true
  | _, _, _, .skip _ _ _ h => SigSub_head_ok h
  | _, _, _, .sign k _ _ _ hσ _ => ⟨k, hσ⟩

theorem SigSub_length_le {E : EvalEnv} : ∀ {ks : List Key} {s : List Bytes},
    SigSub E ks s → s.length ≤ ks.length
  | _, _, .nil => Nat.le_refl _
  | _, _, .skip _ _ _ h => by have := SigSub_length_le h; simp only [List.length_cons]; omega
  | _, _, .sign _ _ _ _ _ h => by have := SigSub_length_le h; simp only [List.length_cons]; omega

/-- empty signatures match no key. -/
theorem matchSigs_empty (hsig0 : ∀ k, E.sigOK k [] = false) : ∀ (ks : List Key) (m : Nat),
    matchSigs E (List.replicate (m + 1) []) ks = false
  | [], _ => rfl
  | k :: ks, m => by
    simp only [List.replicate_succ, matchSigs, hsig0, Bool.false_eq_true, if_false]
    exact matchSigs_empty hsig0 ks m

theorem exec_pushes (al : List Bytes) (cs : List Bool) (hc : executing cs = true) :
    ∀ (ks : List Key) (stk : List Bytes),
      exec E (ks.map .push) ⟨stk, al, cs⟩ = some ⟨ks.reverse ++ stk, al, cs⟩
  | [], _ => rfl
  | k :: ks, stk => by
    simp only [List.map_cons]
    rw [exec_cons_run E (.push k) _ _ al cs rfl hc]
    simp only [stepExec, Option.bind_some]
    rw [exec_pushes al cs hc ks (k :: stk)]
    simp

/-- `<k> <keys…> <n> OP_CHECKMULTISIG(VERIFY)` on `sigs ++ [dummy]`: what `checkMultisig` does. -/
theorem exec_multi (k : Nat) (keys : List Key) (hk : k ≤ keys.length) (hn : keys.length ≤ 20)
    (v : Bool) (sigs : List Bytes) (hl : sigs.length = k) (stk al : List Bytes) (cs : List Bool)
    (hc : executing cs = true) :
    exec E (opsOf ctx h160 v (.multi k keys)) ⟨(sigs ++ [[]]) ++ stk, al, cs⟩ =
      (if matchSigs E sigs keys.reverse then
        some ⟨if v then stk else boolBytes true :: stk, al, cs⟩
      else if sigs.all (·.isEmpty) && !v then some ⟨boolBytes false :: stk, al, cs⟩ else none) := by
  have hnk : numVal (encodeNum k) = some (k : Int) := numVal_encodeNum k (by omega)
  have hnn : numVal (encodeNum keys.length) = some (keys.length : Int) :=
    numVal_encodeNum keys.length (by omega)
  have hcm : ∀ vb, checkMultisig E vb
      ⟨encodeNum keys.length :: (keys.reverse ++ encodeNum k :: ((sigs ++ [[]]) ++ stk)), al, cs⟩ =
      (if matchSigs E sigs keys.reverse then
        some ⟨if vb then stk else boolBytes true :: stk, al, cs⟩
      else if sigs.all (·.isEmpty) && !vb then some ⟨boolBytes false :: stk, al, cs⟩ else none) := by
    intro vb
    have hlen : (keys.reverse ++ encodeNum k :: ((sigs ++ [[]]) ++ stk)).length ≥ keys.length := by
      simp only [List.length_append, List.length_reverse]; omega
    have ht : (keys.reverse ++ encodeNum k :: ((sigs ++ [[]]) ++ stk)).take keys.length = keys.reverse :=
      List.take_left' (by simp)
    have hd : (keys.reverse ++ encodeNum k :: ((sigs ++ [[]]) ++ stk)).drop keys.length =
        encodeNum k :: ((sigs ++ [[]]) ++ stk) := List.drop_left' (by simp)
    have ht2 : ((sigs ++ [[]]) ++ stk).take k = sigs := by
      rw [List.append_assoc]; exact List.take_left' hl
    have hd2 : ((sigs ++ [[]]) ++ stk).drop k = [] :: stk := by
      rw [List.append_assoc]; exact List.drop_left' hl
    have hlen2 : ((sigs ++ [[]]) ++ stk).length ≥ k := by
      simp only [List.length_append]; omega
    unfold checkMultisig
    simp only [hnn, Int.toNat_natCast, ht, hd, hnk, ht2, hd2]
    have c1 : ¬ ((keys.length : Int) < 0 ∨ (keys.length : Int) > 20 ∨
        (keys.reverse ++ encodeNum k :: ((sigs ++ [[]]) ++ stk)).length < keys.length) := by omega
    have c2 : ¬ ((k : Int) < 0 ∨ (k : Int) > (keys.length : Int) ∨
        ((sigs ++ [[]]) ++ stk).length < k) := by omega
    simp only [c1, c2, if_false, ne_eq, not_true_eq_false]
  simp only [opsOf, List.append_assoc, List.cons_append, List.nil_append]
  rw [exec_cons_run E (.pushnum k) _ _ al cs rfl hc]
  simp only [stepExec, Option.bind_some]
  rw [exec_append, exec_pushes E al cs hc, Option.bind_some]
  rw [exec_cons_run E (.pushnum keys.length) _ _ al cs rfl hc]
  simp only [stepExec, Option.bind_some]
  have := hcm v
  simp only [List.append_assoc, List.cons_append, List.nil_append] at this
  cases v
  · simp only [Bool.false_eq_true, if_false] at this ⊢
    rw [exec_cons_run E .checkmultisig _ _ al cs rfl hc]
    simp only [stepExec]
    rw [this]
    split
    · simp
    · split <;> simp
  · simp only [if_true] at this ⊢
    rw [exec_cons_run E .checkmultisigverify _ _ al cs rfl hc]
    simp only [stepExec]
    rw [this]
    split
    · simp
    · split <;> simp

theorem sound_multi (hsig0 : ∀ k, E.sigOK k [] = false) (k : Nat) (keys : List Key)
    (hk1 : 1 ≤ k) (hk : k ≤ keys.length) (hn : keys.length ≤ 20) :
    Sound E ctx h160 (.multi k keys) := by
  obtain ⟨ht, hB, hx, _⟩ := ty_multi ctx k keys
  have hsat : ∀ s stk al cs, executing cs = true → Sat E (.multi k keys) s →
      exec E (opsOf ctx h160 false (.multi k keys)) ⟨s ++ stk, al, cs⟩ = some ⟨[1] :: stk, al, cs⟩ := by
    intro s stk al cs hc hs
    cases hs with
    | multi _ _ sigs hl hsub =>
      rw [exec_multi E ctx h160 k keys hk hn false sigs hl stk al cs hc,
        matchSigs_of_SigSub _ _ hsub]
      simp [boolBytes]
  refine sound_of_B E ctx h160 _ ht hB ⟨bSat_of_one E ctx h160 _ hsat, ?_, ?_⟩
  · intro s stk al cs hc hs
    cases hs with
    | multi _ _ =>
      obtain ⟨m, rfl⟩ : ∃ m, k = m + 1 := ⟨k - 1, by omega⟩
      have e : List.replicate (m + 1 + 1) ([] : Bytes) = List.replicate (m + 1) [] ++ [[]] := by
        rw [List.replicate_succ']
      rw [e, exec_multi E ctx h160 (m + 1) keys hk hn false _ (by simp) stk al cs hc,
        matchSigs_empty E hsig0]
      simp [boolBytes]
  · intro s stk al cs hc hs
    cases hs with
    | multi _ _ sigs hl hsub =>
      rw [hx]
      simp only [Bool.false_eq_true, if_false, List.append_nil]
      rw [exec_multi E ctx h160 k keys hk hn true sigs hl stk al cs hc,
        matchSigs_of_SigSub _ _ hsub]
      simp

end

/-! ### thresh: what the type rule (a loop) says -/

/-- the "arguments" summand of `_thresh_properties`: 0 for "z", 1 for "o", 2 otherwise. -/
def argsOf (p : Props) : Nat := if p.z then 0 else if p.o then 1 else 2

def argSum (ctx : Ctx) : MsL → Nat
  | .nil => 0
  | .cons x xs => argsOf (typeOf ctx x) + argSum ctx xs

/-- every further argument of a typed thresh() is a "W" with "u". -/
def allWu (ctx : Ctx) : MsL → Prop
  | .nil => True
  | .cons x xs => ((typeOf ctx x).W = true ∧ (typeOf ctx x).u = true) ∧ allWu ctx xs

/-- the time-lock set carried by the loop holds none of the letters the theorems read. -/
def TlClean (t : Props) : Prop := t.x = false ∧ t.n = false ∧ t.z = false ∧ t.o = false

theorem nat_beq_decide (a b : Nat) : (a == b) = decide (a = b) := by
  by_cases h : a = b <;> simp [h]

theorem typesL_nil (ctx : Ctx) : typesL ctx .nil = [] := by rw [typesL]
theorem typesL_cons (ctx : Ctx) (x : Ms) (xs : MsL) :
    typesL ctx (.cons x xs) = typeOf ctx x :: typesL ctx xs := by rw [typesL]

/- (Lean's own equation lemmas for `threshLoop` do not generate within the heartbeat limit.) -/
theorem threshLoop_nil (k : Nat) (acc : ThreshAcc) : threshLoop k acc [] = some acc := rfl
theorem threshLoop_cons (k : Nat) (acc : ThreshAcc) (s : Props) (rest : List Props) :
    threshLoop k acc (s :: rest) = (threshStep k acc s).bind fun a => threshLoop k a rest := by
  show (match threshStep k acc s with | none => none | some a => threshLoop k a rest) = _
  cases threshStep k acc s <;> rfl

theorem threshStep_some {k : Nat} {acc a : ThreshAcc} {sub : Props} (h : threshStep k acc sub = some a) :
    sub.has (if acc.count = 0 then { B := true, d := true, u := true }
             else { W := true, d := true, u := true }) = true ∧
    a.count = acc.count + 1 ∧ a.arguments = acc.arguments + argsOf sub ∧
    (TlClean acc.timelocks → TlClean a.timelocks) := by
  unfold threshStep at h
  cases hreq : sub.has (if acc.count = 0 then { B := true, d := true, u := true }
      else { W := true, d := true, u := true }) with
  | false => simp [hreq] at h
  | true =>
    simp only [hreq, Bool.not_true, Bool.false_eq_true, if_false, Option.some.injEq] at h
    subst h
    refine ⟨rfl, rfl, ?_, ?_⟩
    · cases hz : sub.z <;> cases ho : sub.o <;> simp [argsOf, Props.has, hz, ho]
    · intro ⟨h1, h2, h3, h4⟩
      refine ⟨?_, ?_, ?_, ?_⟩ <;> simp [h1, h2, h3, h4]

theorem threshLoop_rest (ctx : Ctx) (k : Nat) : ∀ (xs : MsL) (acc a : ThreshAcc), acc.count ≠ 0 →
    threshLoop k acc (typesL ctx xs) = some a →
    allWu ctx xs ∧ a.arguments = acc.arguments + argSum ctx xs ∧
      (TlClean acc.timelocks → TlClean a.timelocks)
  | .nil, acc, a, _, h => by
    rw [typesL_nil, threshLoop_nil] at h
    have := Option.some.inj h
    subst this
    exact ⟨trivial, by simp [argSum], id⟩
  | .cons x xs, acc, a, hc, h => by
    rw [typesL_cons, threshLoop_cons] at h
    cases hs : threshStep k acc (typeOf ctx x) with
    | none => rw [hs] at h; cases h
    | some a' =>
      rw [hs, Option.bind_some] at h
      obtain ⟨hreq, hcnt, harg, htl⟩ := threshStep_some hs
      obtain ⟨hw, harg', htl'⟩ := threshLoop_rest ctx k xs a' a (by omega) h
      rw [if_neg hc] at hreq
      simp only [Props.has, Bool.not_true, Bool.false_or, Bool.not_false, Bool.true_or,
        Bool.and_true, Bool.true_and, Bool.and_eq_true] at hreq
      refine ⟨⟨⟨hreq.1.1, hreq.2⟩, hw⟩, ?_, fun t => htl' (htl t)⟩
      simp only [argSum]; omega

/-- what `Typed (thresh k x xs)` gives. -/
theorem ty_thresh (ctx : Ctx) (k : Nat) (x : Ms) (xs : MsL) (ht : Typed ctx (.thresh k x xs)) :
    ((typeOf ctx x).B = true ∧ (typeOf ctx x).u = true) ∧ allWu ctx xs ∧
    (typeOf ctx (.thresh k x xs)).B = true ∧ (typeOf ctx (.thresh k x xs)).u = true ∧
    (typeOf ctx (.thresh k x xs)).x = false ∧ (typeOf ctx (.thresh k x xs)).n = false ∧
    (typeOf ctx (.thresh k x xs)).z = decide (argSum ctx (.cons x xs) = 0) ∧
    (typeOf ctx (.thresh k x xs)).o = decide (argSum ctx (.cons x xs) = 1) := by
  unfold Typed at ht
  simp only [typeOf] at ht ⊢
  rw [sanitized_eq _ ht]
  rw [sanitized_eq _ ht] at ht
  unfold threshProperties at ht ⊢
  cases hl : threshLoop k {} (typeOf ctx x :: typesL ctx xs) with
  | none => rw [hl] at ht; simp only [] at ht; exact absurd ht (by decide)
  | some a =>
    simp only [hl]
    rw [threshLoop_cons] at hl
    cases hs : threshStep k {} (typeOf ctx x) with
    | none => rw [hs] at hl; cases hl
    | some a' =>
      rw [hs, Option.bind_some] at hl
      obtain ⟨hreq, hcnt, harg, htl⟩ := threshStep_some hs
      obtain ⟨hw, harg', htl'⟩ := threshLoop_rest ctx k xs a' a (by omega) hl
      have hclean : TlClean a.timelocks := htl' (htl ⟨rfl, rfl, rfl, rfl⟩)
      obtain ⟨c1, c2, c3, c4⟩ := hclean
      have h0 : ({} : ThreshAcc).count = 0 := rfl
      rw [if_pos h0] at hreq
      simp only [Props.has, Bool.not_true, Bool.false_or, Bool.not_false, Bool.true_or,
        Bool.and_true, Bool.true_and, Bool.and_eq_true] at hreq
      have hsum : a.arguments = argSum ctx (.cons x xs) := by
        have : ({} : ThreshAcc).arguments = 0 := rfl
        simp only [argSum]; omega
      refine ⟨⟨hreq.1.1, hreq.2⟩, hw, ?_, ?_, ?_, ?_, ?_, ?_⟩
      · simp
      · simp
      · simp [c1]
      · simp [c2]
      · simp only [or_z, when_z, c3, hsum, Bool.or_false, Bool.and_true, Bool.false_or, Bool.and_false]
        exact nat_beq_decide _ _
      · simp only [or_o, when_o, c4, hsum, Bool.or_false, Bool.and_true, Bool.false_or, Bool.and_false]
        exact nat_beq_decide _ _

section
variable (E : EvalEnv) (ctx : Ctx) (h160 : Bytes → Bytes)

/-- every argument of the list is sound. -/
def SoundAll : MsL → Prop
  | .nil => True
  | .cons x xs => Sound E ctx h160 x ∧ SoundAll xs

theorem numVal_nil : numVal [] = some 0 := by decide
theorem numVal_one : numVal [1] = some 1 := by decide

/-- `[X2] ADD … [Xn] ADD` adds one per satisfied argument to the count on top. -/
theorem exec_opsRest : ∀ (xs : MsL), SoundAll E ctx h160 xs → allWu ctx xs →
    ∀ (s : List Bytes) (c c0 : Nat) (stk al : List Bytes) (cs : List Bool), executing cs = true →
      SatL E xs s c → c0 + xs.length < 2 ^ 31 →
      exec E (opsRest ctx h160 xs) ⟨encodeNum c0 :: (s ++ stk), al, cs⟩ =
        some ⟨encodeNum (c0 + c) :: stk, al, cs⟩
  | .nil, _, _, s, c, c0, stk, al, cs, _, h, _ => by cases h; rfl
  | .cons x xs, hS, hW, s, c, c0, stk, al, cs, hc, h, hb => by
    simp only [MsL.length] at hb
    have h31 : c0 < 2 ^ 31 := by omega
    have hn : numVal (encodeNum c0) = some (c0 : Int) := numVal_encodeNum c0 h31
    obtain ⟨ws, wd⟩ := hS.1.2.2.2 hW.1.1
    simp only [opsRest, List.append_assoc]
    cases h with
    | sat _ _ sx s' c' hsx hrest =>
      obtain ⟨v, r, _, hvu, hrun, hr⟩ := ws (encodeNum c0) sx (s' ++ stk) al cs hc hsx
      have hv : v = [1] := hvu hW.1.2
      subst hv
      have ih := exec_opsRest xs hS.2 hW.2 s' c' (c0 + 1) stk al cs hc hrest (by omega)
      have e2 : c0 + 1 + c' = c0 + (c' + 1) := by omega
      rw [List.append_assoc, exec_append, hrun, Option.bind_some]
      rcases hr with rfl | rfl
      · rw [List.singleton_append, exec_cons_run E .add _ _ al cs rfl hc]
        simp only [stepExec, hn, numVal_one, Option.bind_some]
        rw [show ((c0 : Int) + 1) = ((c0 : Int) + ((1 : Nat) : Int)) from rfl, encodeNumRaw_nat_add,
          ih, e2]
      · rw [List.singleton_append, exec_cons_run E .add _ _ al cs rfl hc]
        simp only [stepExec, hn, numVal_one, Option.bind_some]
        rw [show ((1 : Int) + (c0 : Int)) = (((1 : Nat) : Int) + (c0 : Int)) from rfl,
          encodeNumRaw_nat_add, Nat.add_comm 1 c0, ih, e2]
    | dsat _ _ sx s' _ hsx hrest =>
      obtain ⟨r, hrun, hr⟩ := wd (encodeNum c0) sx (s' ++ stk) al cs hc hsx
      have ih := exec_opsRest xs hS.2 hW.2 s' c c0 stk al cs hc hrest (by omega)
      rw [List.append_assoc, exec_append, hrun, Option.bind_some]
      rcases hr with rfl | rfl
      · rw [List.singleton_append, exec_cons_run E .add _ _ al cs rfl hc]
        simp only [stepExec, hn, numVal_nil, Option.bind_some]
        rw [show ((c0 : Int) + 0) = ((c0 : Int) + ((0 : Nat) : Int)) from rfl, encodeNumRaw_nat_add,
          Nat.add_zero, ih]
      · rw [List.singleton_append, exec_cons_run E .add _ _ al cs rfl hc]
        simp only [stepExec, hn, numVal_nil, Option.bind_some]
        rw [show ((0 : Int) + (c0 : Int)) = (((0 : Nat) : Int) + (c0 : Int)) from rfl,
          encodeNumRaw_nat_add, Nat.zero_add, ih]

theorem SatL_count_le {E : EvalEnv} : ∀ {xs : MsL} {s : List Bytes} {c : Nat},
    SatL E xs s c → c ≤ xs.length
  | _, _, _, .nil => Nat.le_refl _
  | _, _, _, .sat _ _ _ _ _ _ h => by have := SatL_count_le h; simp only [MsL.length]; omega
  | _, _, _, .dsat _ _ _ _ _ _ h => by have := SatL_count_le h; simp only [MsL.length]; omega

theorem sound_thresh (k : Nat) (x : Ms) (xs : MsL) (ht : Typed ctx (.thresh k x xs))
    (hk : k ≤ xs.length + 1) (hb : xs.length + 1 < 2 ^ 31) (ihx : Sound E ctx h160 x)
    (ihxs : SoundAll E ctx h160 xs) : Sound E ctx h160 (.thresh k x xs) := by
  obtain ⟨⟨hxB, hxu⟩, hW, hB, _, hx, _⟩ := ty_thresh ctx k x xs ht
  obtain ⟨bs, bd, _⟩ := ihx.1 hxB
  have hnk : numVal (encodeNum k) = some (k : Int) := numVal_encodeNum k (by omega)
  -- the run up to the count
  have count : ∀ s c stk al cs, executing cs = true → SatL E (.cons x xs) s c →
      exec E (opsOf ctx h160 false x ++ opsRest ctx h160 xs) ⟨s ++ stk, al, cs⟩ =
        some ⟨encodeNum c :: stk, al, cs⟩ := by
    intro s c stk al cs hc h
    cases h with
    | sat _ _ sx s' c' hsx hrest =>
      obtain ⟨v, _, hvu, hrun⟩ := bs sx (s' ++ stk) al cs hc hsx
      have hv : v = [1] := hvu hxu
      subst hv
      have := exec_opsRest E ctx h160 xs ihxs hW s' c' 1 stk al cs hc hrest (by omega)
      rw [List.append_assoc, exec_append, hrun, Option.bind_some, ← encodeNum_one, this,
        Nat.add_comm 1 c']
    | dsat _ _ sx s' _ hsx hrest =>
      have hrun := bd sx (s' ++ stk) al cs hc hsx
      have := exec_opsRest E ctx h160 xs ihxs hW s' c 0 stk al cs hc hrest (by omega)
      rw [List.append_assoc, exec_append, hrun, Option.bind_some, ← encodeNum_zero, this,
        Nat.zero_add]
  have run : ∀ (v : Bool) s c stk al cs, executing cs = true → SatL E (.cons x xs) s c →
      exec E (opsOf ctx h160 v (.thresh k x xs)) ⟨s ++ stk, al, cs⟩ =
        (if v then (if c = k then some ⟨stk, al, cs⟩ else none)
         else some ⟨boolBytes (decide (c = k)) :: stk, al, cs⟩) := by
    intro v s c stk al cs hc h
    have e : (encodeNum c = encodeNum k) ↔ c = k := ⟨encodeNum_inj, fun e => by rw [e]⟩
    simp only [opsOf]
    rw [exec_append, count s c stk al cs hc h, Option.bind_some]
    rw [exec_cons_run E (.pushnum k) _ _ al cs rfl hc]
    simp only [stepExec, Option.bind_some]
    cases v
    · simp only [Bool.false_eq_true, if_false]
      rw [exec_cons_run E .equal _ _ al cs rfl hc]
      simp only [stepExec, Option.bind_some, exec_nil]
      by_cases ec : c = k
      · simp [ec]
      · have : (encodeNum c == encodeNum k) = false := by
          simp only [beq_eq_false_iff_ne, ne_eq]; exact fun h => ec (encodeNum_inj h)
        simp [ec, this]
    · simp only [if_true]
      rw [exec_cons_run E .equalverify _ _ al cs rfl hc]
      simp only [stepExec]
      by_cases ec : c = k
      · simp [ec]
      · have : ¬ (encodeNum c = encodeNum k) := fun h => ec (encodeNum_inj h)
        simp [ec, this]
  have hsat : ∀ s stk al cs, executing cs = true → Sat E (.thresh k x xs) s →
      exec E (opsOf ctx h160 false (.thresh k x xs)) ⟨s ++ stk, al, cs⟩ = some ⟨[1] :: stk, al, cs⟩ := by
    intro s stk al cs hc hs
    cases hs with
    | thresh _ _ _ _ h =>
      rw [run false s k stk al cs hc h]
      simp [boolBytes]
  refine sound_of_B E ctx h160 _ ht hB ⟨bSat_of_one E ctx h160 _ hsat, ?_, ?_⟩
  · intro s stk al cs hc hs
    cases hs with
    | thresh _ _ _ _ c h hck =>
      rw [run false s c stk al cs hc h]
      simp [boolBytes, hck]
  · intro s stk al cs hc hs
    cases hs with
    | thresh _ _ _ _ h =>
      rw [hx]
      simp only [Bool.false_eq_true, if_false, List.append_nil]
      rw [run true s k stk al cs hc h]
      simp

/-! ### thresh: "z" and "o" -/

/-- every argument of the list keeps the "z"/"o" promise, satisfied or not. -/
def LenAll : MsL → Prop
  | .nil => True
  | .cons x xs => (∀ s, (Sat E x s ∨ Dsat E x s) → Len (typeOf ctx x) s) ∧ LenAll xs

theorem len_args {p : Props} {s : List Bytes} (h : Len p s) (ha : argsOf p ≤ 1) : s.length = argsOf p := by
  unfold Len at h
  unfold argsOf at ha ⊢
  cases hz : p.z <;> cases ho : p.o <;> simp_all

theorem argsOf_le (p : Props) : argsOf p ≤ 2 := by
  unfold argsOf
  split
  · omega
  · split <;> omega

theorem lenL : ∀ (xs : MsL), LenAll E ctx xs → ∀ (s : List Bytes) (c : Nat), SatL E xs s c →
    argSum ctx xs ≤ 1 → s.length = argSum ctx xs
  | .nil, _, s, c, h, _ => by cases h; rfl
  | .cons x xs, hL, s, c, h, ha => by
    simp only [argSum] at ha ⊢
    cases h with
    | sat _ _ sx s' c' hsx hrest =>
      have h1 := len_args (hL.1 sx (Or.inl hsx)) (by omega)
      have h2 := lenL xs hL.2 s' c' hrest (by omega)
      simp only [List.length_append]; omega
    | dsat _ _ sx s' _ hsx hrest =>
      have h1 := len_args (hL.1 sx (Or.inr hsx)) (by omega)
      have h2 := lenL xs hL.2 s' c hrest (by omega)
      simp only [List.length_append]; omega

theorem len_thresh (k : Nat) (x : Ms) (xs : MsL) (ht : Typed ctx (.thresh k x xs))
    (hL : LenAll E ctx (.cons x xs)) (s : List Bytes) (c : Nat) (h : SatL E (.cons x xs) s c) :
    Len (typeOf ctx (.thresh k x xs)) s := by
  obtain ⟨_, _, _, _, _, _, hz, ho⟩ := ty_thresh ctx k x xs ht
  unfold Len
  rw [hz, ho]
  constructor
  · intro e
    have e' : argSum ctx (.cons x xs) = 0 := by simpa using e
    rw [lenL E ctx _ hL s c h (by omega), e']
  · intro e
    have e' : argSum ctx (.cons x xs) = 1 := by simpa using e
    rw [lenL E ctx _ hL s c h (by omega), e']

end

end Btc.Miniscript
