import Proofs.C15.Quorum
/-!
C15 — the inductions over the whole fragment set: "z"/"o" arity (`len_s1`), the "n" invariant
(`ntop_s1`) and T3 (`sound_s1`), each mutual with its `thresh()` argument-list form.
-/
namespace Btc.Miniscript
open Btc Gen.Miniscript

section
variable (E : EvalEnv) (ctx : Ctx) (h160 : Bytes → Bytes)

mutual
theorem len_s1 : ∀ (n : Ms), s1Typed ctx n = true →
    (∀ s, Sat E n s → Len (typeOf ctx n) s) ∧ (∀ s, Dsat E n s → Len (typeOf ctx n) s)
  | .f0, _ => by
    have hz : (typeOf ctx .f0).o = false := rfl
    constructor <;> intro s hs <;> cases hs <;> simp [Len, hz]
  | .f1, _ => by
    have hz : (typeOf ctx .f1).o = false := rfl
    constructor <;> intro s hs <;> cases hs <;> simp [Len, hz]
  | .pk_k k, _ => by
    have hz : (typeOf ctx (.pk_k k)).z = false := rfl
    constructor <;> intro s hs <;> cases hs <;> simp [Len, hz]
  | .pk_h k, _ => by
    have hz : (typeOf ctx (.pk_h k)).z = false := rfl
    have ho : (typeOf ctx (.pk_h k)).o = false := rfl
    constructor <;> intro s hs <;> cases hs <;> simp [Len, hz, ho]
  | .hash hk d, _ => by
    have hz : (typeOf ctx (.hash hk d)).z = false := rfl
    constructor <;> intro s hs <;> cases hs <;> simp [Len, hz]
  | .older n, _ => by
    obtain ⟨_, _, _, _, _, ho⟩ := ty_older ctx n
    constructor <;> intro s hs <;> cases hs <;> simp [Len, ho]
  | .after n, _ => by
    obtain ⟨_, _, _, _, _, ho⟩ := ty_after ctx n
    constructor <;> intro s hs <;> cases hs <;> simp [Len, ho]
  | .wrap w x, h => by
    simp only [s1Typed, Bool.and_eq_true, Bool.or_eq_true, beq_iff_eq, decide_eq_true_eq] at h
    obtain ⟨ihs, ihd⟩ := len_s1 x h.2
    obtain ⟨hz, ho⟩ := zo_wrap ctx w x h.1.2
    constructor
    · intro s hs
      cases hs with
      | wrap _ _ _ _ _ hs =>
        have := ihs s hs
        unfold Len at *
        rw [hz, ho]
        cases w <;> simp_all
      | wrap_d _ sx hs =>
        have := ihs sx hs
        unfold Len at *
        rw [hz, ho]
        simp_all
      | wrap_j _ _ hs _ =>
        have := ihs s hs
        unfold Len at *
        rw [hz, ho]
        simp_all
    · intro s hs
      unfold Len
      rw [hz, ho]
      cases hs with
      | wrap_c _ _ hs => have := ihd s hs; unfold Len at this; simp_all
      | wrap_a _ _ hs => simp
      | wrap_n _ _ hs => have := ihd s hs; unfold Len at this; simp_all
      | wrap_s _ _ hs => simp
      | wrap_d _ => simp
      | wrap_j _ => simp
  | .bin b x y, h => by
    simp only [s1Typed, Bool.and_eq_true, Bool.or_eq_true, beq_iff_eq, decide_eq_true_eq] at h
    obtain ⟨xs, xd⟩ := len_s1 x h.1.2
    obtain ⟨ys, yd⟩ := len_s1 y h.2
    obtain ⟨hz, ho⟩ := zo_bin ctx b x y h.1.1.2
    constructor
    · intro s hs
      cases hs with
      | and_v _ _ sx sy hsx hsy => exact len_and hz ho (xs _ hsx) (ys _ hsy)
      | and_b _ _ sx sy hsx hsy => exact len_and hz ho (xs _ hsx) (ys _ hsy)
      | or_b_l _ _ sx sy hsx hsy => exact len_and hz ho (xs _ hsx) (yd _ hsy)
      | or_b_r _ _ sx sy hsx hsy => exact len_and hz ho (xd _ hsx) (ys _ hsy)
      | or_b_both _ _ sx sy hsx hsy => exact len_and hz ho (xs _ hsx) (ys _ hsy)
      | or_i_l _ _ sx hsx => exact len_ori _ hz ho (Or.inl (xs _ hsx))
      | or_i_r _ _ sy hsy => exact len_ori _ hz ho (Or.inr (ys _ hsy))
      | or_c_l _ _ _ hsx => exact len_orc_l hz ho (xs _ hsx)
      | or_c_r _ _ sx sy hsx hsy => exact len_orc_r hz ho (xd _ hsx) (ys _ hsy)
      | or_d_l _ _ _ hsx => exact len_orc_l hz ho (xs _ hsx)
      | or_d_r _ _ sx sy hsx hsy => exact len_orc_r hz ho (xd _ hsx) (ys _ hsy)
    · intro s hs
      cases hs with
      | and_v_d _ _ sx sy hsx hsy => exact len_and hz ho (xs _ hsx) (yd _ hsy)
      | and_b _ _ sx sy hsx hsy => exact len_and hz ho (xd _ hsx) (yd _ hsy)
      | and_b_l _ _ sx sy hsx hsy => exact len_and hz ho (xs _ hsx) (yd _ hsy)
      | and_b_r _ _ sx sy hsx hsy => exact len_and hz ho (xd _ hsx) (ys _ hsy)
      | or_b _ _ sx sy hsx hsy => exact len_and hz ho (xd _ hsx) (yd _ hsy)
      | or_i_l _ _ sx hsx => exact len_ori _ hz ho (Or.inl (xd _ hsx))
      | or_i_r _ _ sy hsy => exact len_ori _ hz ho (Or.inr (yd _ hsy))
      | or_d _ _ sx sy hsx hsy => exact len_orc_r hz ho (xd _ hsx) (yd _ hsy)
  | .andor x y z, h => by
    simp only [s1Typed, Bool.and_eq_true, decide_eq_true_eq] at h
    obtain ⟨xs, xd⟩ := len_s1 x h.1.1.2
    obtain ⟨ys, yd⟩ := len_s1 y h.1.2
    obtain ⟨zs, zd⟩ := len_s1 z h.2
    obtain ⟨hz, ho⟩ := zo_andor ctx x y z h.1.1.1
    constructor
    · intro s hs
      cases hs with
      | andor_l _ _ _ sx sy hsx hsy => exact len_andor hz ho (xs _ hsx) (Or.inl (ys _ hsy))
      | andor_r _ _ _ sx sz hsx hsz => exact len_andor hz ho (xd _ hsx) (Or.inr (zs _ hsz))
    · intro s hs
      cases hs with
      | andor _ _ _ sx sz hsx hsz => exact len_andor hz ho (xd _ hsx) (Or.inr (zd _ hsz))
      | andor_y _ _ _ sx sy hsx hsy => exact len_andor hz ho (xs _ hsx) (Or.inl (yd _ hsy))
  | .multi k keys, _ => by
    obtain ⟨_, _, _, hz, ho⟩ := ty_multi ctx k keys
    constructor <;> intro s _ <;> simp [Len, hz, ho]
  | .multi_a k keys, _ => by
    obtain ⟨_, _, _, hz, ho, _⟩ := ty_multi_a ctx k keys
    constructor <;> intro s _ <;> simp [Len, hz, ho]
  | .thresh k x xs, h => by
    simp only [s1Typed, Bool.and_eq_true, decide_eq_true_eq] at h
    have hL : LenAll E ctx (.cons x xs) :=
      ⟨fun s hs => hs.elim ((len_s1 x h.1.2).1 s) ((len_s1 x h.1.2).2 s), len_s1L xs h.2⟩
    constructor
    · intro s hs
      cases hs with
      | thresh _ _ _ _ hl => exact len_thresh E ctx k x xs h.1.1.1.1.1 hL s k hl
    · intro s hs
      cases hs with
      | thresh _ _ _ _ c hl _ => exact len_thresh E ctx k x xs h.1.1.1.1.1 hL s c hl
theorem len_s1L : ∀ (xs : MsL), s1TypedL ctx xs = true → LenAll E ctx xs
  | .nil, _ => trivial
  | .cons x xs, h => by
    simp only [s1TypedL, Bool.and_eq_true] at h
    exact ⟨fun s hs => hs.elim ((len_s1 x h.1).1 s) ((len_s1 x h.1).2 s), len_s1L xs h.2⟩
end


theorem ntop_s1 (hsig0 : ∀ k, E.sigOK k [] = false) : ∀ (n : Ms), s1Typed ctx n = true →
    ∀ s, Sat E n s → (typeOf ctx n).n = true → ∃ e rest, s = e :: rest ∧ e ≠ []
  | .f0, _, s, hs, _ => by cases hs
  | .f1, _, s, hs, hn => by
    have : (typeOf ctx .f1).n = false := rfl
    rw [this] at hn; cases hn
  | .pk_k k, _, s, hs, _ => by
    cases hs with
    | pk_k _ σ hσ => exact ⟨σ, [], rfl, fun h => by rw [h, hsig0] at hσ; cases hσ⟩
  | .pk_h k, h, s, hs, _ => by
    cases hs with
    | pk_h _ σ hσ =>
      refine ⟨k, [σ], rfl, fun hk => ?_⟩
      simp [s1Typed, hk] at h
  | .hash hk d, _, s, hs, _ => by
    cases hs with
    | hash _ _ p hp _ => exact ⟨p, [], rfl, fun h => by rw [h] at hp; cases hp⟩
  | .older n, _, s, hs, hn => by
    rw [(ty_older_n ctx n)] at hn; cases hn
  | .after n, _, s, hs, hn => by
    rw [(ty_after_n ctx n)] at hn; cases hn
  | .wrap w x, h, s, hs, hn => by
    simp only [s1Typed, Bool.and_eq_true, Bool.or_eq_true, beq_iff_eq, decide_eq_true_eq] at h
    rw [n_wrap ctx w x h.1.2] at hn
    cases hs with
    | wrap _ _ _ hd hj hs =>
      cases w <;> simp at hn hd hj
      all_goals exact ntop_s1 hsig0 x h.2 s hs hn
    | wrap_d _ sx hs => exact ⟨[1], sx, rfl, by decide⟩
    | wrap_j _ _ hs _ => exact ntop_s1 hsig0 x h.2 s hs (ty_j ctx x h.1.2).2.1
  | .bin b x y, h, s, hs, hn => by
    simp only [s1Typed, Bool.and_eq_true, Bool.or_eq_true, beq_iff_eq, decide_eq_true_eq] at h
    rw [n_bin ctx b x y h.1.1.2] at hn
    have key : ∀ sx sy, Sat E x sx → Sat E y sy →
        ((typeOf ctx x).n || ((typeOf ctx x).z && (typeOf ctx y).n)) = true →
        ∃ e rest, sx ++ sy = e :: rest ∧ e ≠ [] := by
      intro sx sy hsx hsy hn
      rcases Bool.or_eq_true_iff.mp hn with h1 | h1
      · obtain ⟨e, rest, rfl, he⟩ := ntop_s1 hsig0 x h.1.2 sx hsx h1
        exact ⟨e, rest ++ sy, rfl, he⟩
      · rw [Bool.and_eq_true] at h1
        have hl := ((len_s1 E ctx x h.1.2).1 sx hsx).1 h1.1
        have : sx = [] := List.length_eq_zero_iff.mp hl
        subst this
        simpa using ntop_s1 hsig0 y h.2 sy hsy h1.2
    cases hs with
    | and_v _ _ sx sy hsx hsy => exact key sx sy hsx hsy hn
    | and_b _ _ sx sy hsx hsy => exact key sx sy hsx hsy hn
    | or_b_l _ _ sx sy hsx hsy => cases hn
    | or_b_r _ _ sx sy hsx hsy => cases hn
    | or_b_both _ _ sx sy hsx hsy => cases hn
    | or_i_l _ _ sx hsx => cases hn
    | or_i_r _ _ sy hsy => cases hn
    | or_c_l _ _ _ hsx => cases hn
    | or_c_r _ _ sx sy hsx hsy => cases hn
    | or_d_l _ _ _ hsx => cases hn
    | or_d_r _ _ sx sy hsx hsy => cases hn
  | .andor x y z, h, s, hs, hn => by
    simp only [s1Typed, Bool.and_eq_true, decide_eq_true_eq] at h
    rw [n_andor ctx x y z h.1.1.1] at hn; cases hn
  | .multi k keys, h, s, hs, _ => by
    simp only [s1Typed, Bool.and_eq_true, decide_eq_true_eq] at h
    cases hs with
    | multi _ _ sigs hl hsub =>
      cases sigs with
      | nil => simp at hl; omega
      | cons σ rest =>
        obtain ⟨k', hk'⟩ := SigSub_head_ok hsub
        exact ⟨σ, rest ++ [[]], rfl, fun e => by rw [e, hsig0] at hk'; cases hk'⟩
  | .multi_a k keys, _, s, _, hn => by
    rw [(ty_multi_a ctx k keys).2.2.2.2.2] at hn; cases hn
  | .thresh k x xs, h, s, _, hn => by
    simp only [s1Typed, Bool.and_eq_true, decide_eq_true_eq] at h
    rw [(ty_thresh ctx k x xs h.1.1.1.1.1).2.2.2.2.2.1] at hn; cases hn


mutual
/-- T3 for the covered set (every fragment): every typed expression of the fragment set does to the stack what its type says. -/
theorem sound_s1 (hsig0 : ∀ k, E.sigOK k [] = false) (hH : ∀ k, E.hashF .hash160 k = h160 k) :
    ∀ (n : Ms), s1Typed ctx n = true → Sound E ctx h160 n
  | .f0, _ => sound_f0 E ctx h160
  | .f1, _ => sound_f1 E ctx h160
  | .pk_k k, _ => sound_pk_k E ctx h160 hsig0 k
  | .pk_h k, _ => sound_pk_h E ctx h160 hsig0 hH k
  | .hash h d, _ => sound_hash E ctx h160 h d
  | .older n, h => by
    simp only [s1Typed, Bool.and_eq_true, decide_eq_true_eq] at h
    exact sound_older E ctx h160 n h.1 h.2
  | .after n, h => by
    simp only [s1Typed, Bool.and_eq_true, decide_eq_true_eq] at h
    exact sound_after E ctx h160 n h.1 h.2
  | .wrap w x, h => by
    simp only [s1Typed, Bool.and_eq_true, Bool.or_eq_true, beq_iff_eq, decide_eq_true_eq] at h
    have ih := sound_s1 hsig0 hH x h.2
    have hlen : ∀ s, (Sat E x s ∨ Dsat E x s) → Len (typeOf ctx x) s := by
      intro s hs
      rcases hs with hs | hs
      · exact (len_s1 E ctx x h.2).1 s hs
      · exact (len_s1 E ctx x h.2).2 s hs
    rcases h.1.1 with (((((rfl | rfl) | rfl) | rfl) | rfl) | rfl) | rfl
    · exact sound_c E ctx h160 x h.1.2 ih
    · exact sound_v E ctx h160 x h.1.2 ih
    · exact sound_a E ctx h160 x h.1.2 ih
    · exact sound_n E ctx h160 x h.1.2 ih
    · exact sound_s E ctx h160 x h.1.2 ih hlen
    · exact sound_d E ctx h160 x h.1.2 (inS1_of_s1Typed ctx x h.2) ih hlen
    · exact sound_j E ctx h160 x h.1.2 (inS1_of_s1Typed ctx x h.2) ih
        (fun s hs => ntop_s1 E ctx hsig0 x h.2 s hs (ty_j ctx x h.1.2).2.1)
  | .bin b x y, h => by
    simp only [s1Typed, Bool.and_eq_true, Bool.or_eq_true, beq_iff_eq, decide_eq_true_eq] at h
    have ihx := sound_s1 hsig0 hH x h.1.2
    have ihy := sound_s1 hsig0 hH y h.2
    rcases h.1.1.1 with ((((rfl | rfl) | rfl) | rfl) | rfl) | rfl
    · exact sound_and_v E ctx h160 x y h.1.1.2 ihx ihy
    · exact sound_and_b E ctx h160 x y h.1.1.2 ihx ihy
    · exact sound_or_b E ctx h160 x y h.1.1.2 ihx ihy
    · exact sound_or_i E ctx h160 x y h.1.1.2 (inS1_of_s1Typed ctx x h.1.2)
        (inS1_of_s1Typed ctx y h.2) ihx ihy
    · exact sound_or_c E ctx h160 x y h.1.1.2 (inS1_of_s1Typed ctx y h.2) ihx ihy
    · exact sound_or_d E ctx h160 x y h.1.1.2 (inS1_of_s1Typed ctx y h.2) ihx ihy
  | .andor x y z, h => by
    simp only [s1Typed, Bool.and_eq_true, decide_eq_true_eq] at h
    exact sound_andor E ctx h160 x y z h.1.1.1 (inS1_of_s1Typed ctx y h.1.2)
      (inS1_of_s1Typed ctx z h.2) (sound_s1 hsig0 hH x h.1.1.2) (sound_s1 hsig0 hH y h.1.2)
      (sound_s1 hsig0 hH z h.2)
  | .multi k keys, h => by
    simp only [s1Typed, Bool.and_eq_true, decide_eq_true_eq] at h
    exact sound_multi E ctx h160 hsig0 k keys h.1.1 h.1.2 h.2
  | .multi_a k keys, h => by
    simp only [s1Typed, Bool.and_eq_true, decide_eq_true_eq] at h
    have : MAX_PUBKEYS_PER_MULTI_A = 999 := rfl
    exact sound_multi_a E ctx h160 hsig0 k keys h.1.2 (by omega) (by omega)
  | .thresh k x xs, h => by
    simp only [s1Typed, Bool.and_eq_true, decide_eq_true_eq] at h
    exact sound_thresh E ctx h160 k x xs h.1.1.1.1.1 h.1.1.1.2 h.1.1.2 (sound_s1 hsig0 hH x h.1.2)
      (sound_s1L hsig0 hH xs h.2)
theorem sound_s1L (hsig0 : ∀ k, E.sigOK k [] = false) (hH : ∀ k, E.hashF .hash160 k = h160 k) :
    ∀ (xs : MsL), s1TypedL ctx xs = true → SoundAll E ctx h160 xs
  | .nil, _ => trivial
  | .cons x xs, h => by
    simp only [s1TypedL, Bool.and_eq_true] at h
    exact ⟨sound_s1 hsig0 hH x h.1, sound_s1L hsig0 hH xs h.2⟩
end


end

end Btc.Miniscript
