import Model.C15.Decode
/-!
C15 — read-back: the `_Decoder` state machine (`Model/C15/Decode.lean`), run on the entry list
`_decomposed` gives for a compiled expression, rebuilds the expression.  Stated as reachability of
machine configurations (`Reach`: turns of the `while self.to_parse` loop, each with its `is_valid`
check of the last node built), then for `run` with enough fuel.
-/
namespace Btc.Miniscript.Decode
open Btc Btc.Miniscript Gen.Miniscript

/-- one turn of the loop of `decode`: the check of the last node built, the state popped, `step`. -/
def turn (ctx : Ctx) (keyOfHash : Bytes → Option Key) (m : Machine) : Option Machine :=
  match m.toParse with
  | [] => none
  | st :: tp => if !topValid ctx m.built then none else step ctx keyOfHash st { m with toParse := tp }

/-- configurations reached by turns of the loop. -/
inductive Reach (ctx : Ctx) (koh : Bytes → Option Key) : Machine → Machine → Prop
  | refl (m : Machine) : Reach ctx koh m m
  | head (m m' m'' : Machine) : turn ctx koh m = some m' → Reach ctx koh m' m'' → Reach ctx koh m m''

theorem Reach.trans {ctx : Ctx} {koh : Bytes → Option Key} {a b c : Machine}
    (h1 : Reach ctx koh a b) (h2 : Reach ctx koh b c) : Reach ctx koh a c := by
  induction h1 with
  | refl _ => exact h2
  | head m m' _ ht _ ih => exact .head m m' _ ht (ih h2)

theorem Reach.one {ctx : Ctx} {koh : Bytes → Option Key} {a b : Machine}
    (h : turn ctx koh a = some b) : Reach ctx koh a b := .head a b b h (.refl b)

/-- `run` follows the turns: with enough fuel it stops where they lead, once no state is left. -/
theorem run_of_reach {ctx : Ctx} {koh : Bytes → Option Key} {a b : Machine} (h : Reach ctx koh a b)
    (hb : b.toParse = []) : ∃ k, ∀ fuel, k ≤ fuel → run ctx koh fuel a = some b := by
  induction h with
  | refl m =>
    refine ⟨0, fun fuel _ => ?_⟩
    cases fuel with
    | zero => simp [run, hb]
    | succ f => simp [run, hb]
  | head m m' m'' ht _ ih =>
    obtain ⟨k, hk⟩ := ih hb
    refine ⟨k + 1, fun fuel hf => ?_⟩
    obtain ⟨f, rfl⟩ : ∃ f, fuel = f + 1 := ⟨fuel - 1, by omega⟩
    unfold turn at ht
    unfold run
    cases htp : m.toParse with
    | nil => rw [htp] at ht; cases ht
    | cons st tp =>
      rw [htp] at ht
      simp only [] at ht ⊢
      split at ht
      · cases ht
      · rename_i hv
        simp only [hv, if_false, ht]
        exact hk f (by omega)

/-! ### the readers of `_single` on an op code that starts no leaf -/

/-- an op code none of the six leaf readers answers to. -/
def passOp (op : UInt8) : Bool :=
  op != OP_1 && op != OP_0 && op != OP_VERIFY && op != OP_CHECKSEQUENCEVERIFY &&
    op != OP_CHECKLOCKTIMEVERIFY && op != OP_EQUAL && op != OP_CHECKMULTISIG && op != OP_NUMEQUAL

theorem readLeaf_pass (ctx : Ctx) (koh : Bytes → Option Key) (op : UInt8) (rest : List Entry)
    (h : passOp op = true) : readLeaf ctx koh ((op, []) :: rest) = .pass := by
  simp only [passOp, Bool.and_eq_true, bne_iff_ne, ne_eq] at h
  obtain ⟨⟨⟨⟨⟨⟨⟨h1, h0⟩, hv⟩, hcsv⟩, hcltv⟩, heq⟩, hcms⟩, hne⟩ := h
  have e1 : readConstant ((op, []) :: rest) = .pass := by simp [readConstant, h1, h0]
  have e2 : readKey ctx koh ((op, []) :: rest) = .pass := by
    unfold readKey
    simp only [List.length_nil]
    split
    · rename_i hc; simp at hc
    · split
      · simp [hv]
      · rfl
  have e3 : readTimelock ((op, []) :: rest) = .pass := by
    unfold readTimelock
    split
    · rename_i heq'; cases heq'; simp [hcsv, hcltv]
    · rfl
  have e4 : readHash ((op, []) :: rest) = .pass := by
    unfold readHash
    split
    · rename_i heq'; cases heq'; simp [heq]
    · rfl
  have e5 : readMulti ctx ((op, []) :: rest) = .pass := by
    unfold readMulti
    split
    · rename_i heq'; cases heq'; simp [hcms]
    · rfl
  have e6 : readMultiA ctx ((op, []) :: rest) = .pass := by
    unfold readMultiA
    split
    · rename_i heq'; cases heq'; simp [hne]
    · rfl
  simp [readLeaf, e1, e2, e3, e4, e5, e6, Read.orElse]

/-! ### single turns -/

theorem turn_eq (ctx : Ctx) (koh : Bytes → Option Key) (es : List Entry) (st : DState)
    (tp : List DState) (built : List Ms) (hv : topValid ctx built = true) :
    turn ctx koh ⟨es, st :: tp, built⟩ = step ctx koh st ⟨es, tp, built⟩ := by
  simp [turn, hv]

theorem comb_checksig (rest : List Entry) (tp : List DState) :
    combinator ((OP_CHECKSIG, []) :: rest) tp = some (rest, .single :: .wrap .c :: tp) := rfl
theorem comb_0ne (rest : List Entry) (tp : List DState) :
    combinator ((OP_0NOTEQUAL, []) :: rest) tp = some (rest, .single :: .wrap .n :: tp) := rfl
theorem comb_endif (rest : List Entry) (tp : List DState) :
    combinator ((OP_ENDIF, []) :: rest) tp = some (rest, .single :: .maybeAndV :: .endif :: tp) := rfl
theorem comb_booland (rest : List Entry) (tp : List DState) :
    combinator ((OP_BOOLAND, []) :: rest) tp = some (rest, .wExpr :: .single :: .bin .and_b :: tp) := rfl
theorem comb_boolor (rest : List Entry) (tp : List DState) :
    combinator ((OP_BOOLOR, []) :: rest) tp = some (rest, .wExpr :: .single :: .bin .or_b :: tp) := rfl

/-- `_single` on a combinator's closing op code. -/
theorem step_single_comb (ctx : Ctx) (koh : Bytes → Option Key) (op : UInt8) (rest : List Entry)
    (tp tp' : List DState) (built : List Ms) (hp : passOp op = true)
    (hc : combinator ((op, []) :: rest) tp = some (rest, tp')) :
    step ctx koh .single ⟨(op, []) :: rest, tp, built⟩ = some ⟨rest, tp', built⟩ := by
  simp [step, readLeaf_pass ctx koh op rest hp, hc]

/-- the op codes `_maybe_and_v` stops at. -/
def stopOp (op : UInt8) : Bool :=
  op == OP_IF || op == OP_ELSE || op == OP_NOTIF || op == OP_TOALTSTACK || op == OP_SWAP

/-- the entries left start with nothing, or with an op code `_maybe_and_v` stops at. -/
def stops : List Entry → Bool
  | [] => true
  | (op, _) :: _ => stopOp op

theorem step_maybe_stop (ctx : Ctx) (koh : Bytes → Option Key) (es : List Entry) (tp : List DState)
    (built : List Ms) (h : stops es = true) :
    step ctx koh .maybeAndV ⟨es, tp, built⟩ = some ⟨es, tp, built⟩ := by
  cases es with
  | nil => rfl
  | cons e es =>
    obtain ⟨op, d⟩ := e
    simp only [stops, stopOp] at h
    simp [step, h]

/-! ### the fragment set and the induction -/

theorem comb_verify (rest : List Entry) (tp : List DState) :
    combinator ((OP_VERIFY, []) :: rest) tp = some (rest, .single :: .wrap .v :: tp) := rfl

/-- `_single` on the OP_VERIFY of a `v:` whose argument does not end in OP_EQUAL(VERIFY): no reader
    answers (the only one that looks at an OP_VERIFY is `_key`, for the hash of a pk_h). -/
theorem step_single_verify (ctx : Ctx) (koh : Bytes → Option Key) (op1 : UInt8) (d1 : Bytes)
    (r : List Entry) (tp : List DState) (built : List Ms) (h1 : (op1 == OP_EQUAL) = false) :
    step ctx koh .single ⟨(OP_VERIFY, []) :: (op1, d1) :: r, tp, built⟩ =
      some ⟨(op1, d1) :: r, .single :: .wrap .v :: tp, built⟩ := by
  have e1 : readConstant ((OP_VERIFY, []) :: (op1, d1) :: r) = .pass := rfl
  have e2 : readKey ctx koh ((OP_VERIFY, []) :: (op1, d1) :: r) = .pass := by
    unfold readKey
    simp only [List.length_nil]
    split
    · rename_i hc; simp at hc
    · split
      · rename_i heq; cases heq; simp [h1]
      · rfl
  have e3 : readTimelock ((OP_VERIFY, []) :: (op1, d1) :: r) = .pass := by
    unfold readTimelock
    split
    · rename_i heq'; cases heq'; rfl
    · rfl
  have e4 : readHash ((OP_VERIFY, []) :: (op1, d1) :: r) = .pass := by
    unfold readHash
    split
    · rename_i heq'; cases heq'; rfl
    · rfl
  have e5 : readMulti ctx ((OP_VERIFY, []) :: (op1, d1) :: r) = .pass := by
    unfold readMulti
    split
    · rename_i heq'; cases heq'; rfl
    · rfl
  have e6 : readMultiA ctx ((OP_VERIFY, []) :: (op1, d1) :: r) = .pass := by
    unfold readMultiA
    split
    · rename_i heq'; cases heq'; rfl
    · rfl
  simp [step, readLeaf, e1, e2, e3, e4, e5, e6, Read.orElse, comb_verify]

theorem isValid_of_allTyped (ctx : Ctx) (n : Ms) (h : allTyped ctx n = true) : isValid ctx n = true := by
  cases n <;> simp only [allTyped, Bool.and_eq_true] at h <;> first | exact h | exact h.1 | exact h.1.1 | exact h.1.1.1

theorem reach_step {ctx : Ctx} {koh : Bytes → Option Key} {es : List Entry} {st : DState}
    {tp : List DState} {built : List Ms} {m' m'' : Machine} (hv : topValid ctx built = true)
    (hs : step ctx koh st ⟨es, tp, built⟩ = some m') (hr : Reach ctx koh m' m'') :
    Reach ctx koh ⟨es, st :: tp, built⟩ m'' :=
  .head _ m' _ (by rw [turn_eq ctx koh es st tp built hv]; exact hs) hr

/-- an op code that starts (from its end) an expression read by `_single`: none of those the
    decoder's look-aheads ask about. -/
def plainOp (op : UInt8) : Bool :=
  op != OP_FROMALTSTACK && op != OP_EQUAL && op != OP_IFDUP && !stopOp op

section
variable (ctx : Ctx) (koh : Bytes → Option Key) (h160 : Bytes → Bytes)

theorem rents_head : ∀ (m : Mode) (n : Ms), m ≠ .w → rd m n = true → shaped ctx n = true →
    ∃ op d r, rents h160 n = (op, d) :: r ∧ plainOp op = true
  | _, .f0, _, _, _ => ⟨_, _, _, rfl, by decide⟩
  | _, .f1, _, _, _ => ⟨_, _, _, rfl, by decide⟩
  | _, .pk_h _, _, _, _ => ⟨_, _, _, rfl, by decide⟩
  | _, .pk_k k, _, _, hs => by
    simp only [shaped, beq_iff_eq] at hs
    refine ⟨_, _, _, rfl, ?_⟩
    rw [hs]; cases ctx <;> decide
  | m, .wrap w x, hm, h, _ => by
    cases w <;> simp only [rd, Bool.and_eq_true, bne_iff_ne, ne_eq, beq_iff_eq] at h
    · exact absurd h.1 hm
    · exact absurd h.1 hm
    all_goals exact ⟨_, _, _, rfl, by decide⟩
  | m, .bin b x y, hm, h, hs => by
    simp only [shaped, Bool.and_eq_true] at hs
    cases b <;> simp only [rd, Bool.and_eq_true, bne_iff_ne, ne_eq, beq_iff_eq] at h
    · obtain ⟨op, d, r, hr, hp⟩ := rents_head .unit y (by decide) h.2 hs.2
      exact ⟨op, d, r ++ rents h160 x, by simp [rents, hr], hp⟩
    all_goals exact ⟨_, _, _, rfl, by decide⟩
  | _, .andor x y z, _, _, _ => ⟨_, _, _, rfl, by decide⟩
  | _, .older _, _, h, _ | _, .after _, _, h, _ | _, .hash _ _, _, h, _ | _, .multi _ _, _, h, _
  | _, .multi_a _ _, _, h, _ | _, .thresh _ _ _, _, h, _ => by simp [rd] at h

theorem step_f0 (es : List Entry) (tp : List DState) (built : List Ms) :
    step ctx koh .single ⟨(OP_0, []) :: es, tp, built⟩ = some ⟨es, tp, .f0 :: built⟩ := rfl

theorem step_f1 (es : List Entry) (tp : List DState) (built : List Ms) :
    step ctx koh .single ⟨(OP_1, [1]) :: es, tp, built⟩ = some ⟨es, tp, .f1 :: built⟩ := rfl

theorem step_pk_k (k : Key) (hk : k.length = keySize ctx)
    (es : List Entry) (tp : List DState) (built : List Ms) :
    step ctx koh .single ⟨(UInt8.ofNat k.length, k) :: es, tp, built⟩ =
      some ⟨es, tp, .pk_k k :: built⟩ := by
  have hc : readConstant ((UInt8.ofNat k.length, k) :: es) = .pass := by
    rw [hk]; cases ctx <;> rfl
  have hr : readKey ctx koh ((UInt8.ofNat k.length, k) :: es) = .node (.pk_k k) es := by
    unfold readKey
    cases ctx <;> simp [keySize, PUB_KEY_SIZE_P2WSH, PUB_KEY_SIZE_TAPSCRIPT] at hk <;> simp [hk]
  simp [step, readLeaf, hc, hr, Read.orElse]

theorem step_pk_h (k : Key) (hh : (h160 k).length = 20) (hk : koh (h160 k) = some k)
    (es : List Entry) (tp : List DState) (built : List Ms) :
    step ctx koh .single ⟨rents h160 (.pk_h k) ++ es, tp, built⟩ = some ⟨es, tp, .pk_h k :: built⟩ := by
  have hr : readKey ctx koh (rents h160 (.pk_h k) ++ es) = .node (.pk_h k) es := by
    simp only [rents, List.cons_append, List.nil_append]
    unfold readKey
    simp [hh, hk]
  have hc : readConstant (rents h160 (.pk_h k) ++ es) = .pass := rfl
  have hne : (rents h160 (.pk_h k) ++ es).isEmpty = false := rfl
  simp [step, readLeaf, hc, hr, hne, Read.orElse]

/-- what the induction proves of an expression, by the way it is read. -/
def Back (n : Ms) : Prop :=
  (rd .unit n = true → ∀ (tp : List DState) (built : List Ms) (es : List Entry),
    topValid ctx built = true →
    Reach ctx koh ⟨rents h160 n ++ es, .single :: tp, built⟩ ⟨es, tp, n :: built⟩) ∧
  (rd .seq n = true → ∀ (tp : List DState) (built : List Ms) (es : List Entry),
    topValid ctx built = true → stops es = true →
    Reach ctx koh ⟨rents h160 n ++ es, .single :: .maybeAndV :: tp, built⟩ ⟨es, tp, n :: built⟩) ∧
  (rd .w n = true → ∀ (tp : List DState) (built : List Ms) (es : List Entry),
    topValid ctx built = true →
    Reach ctx koh ⟨rents h160 n ++ es, .wExpr :: tp, built⟩ ⟨es, tp, n :: built⟩)

/-- an expression read by `_single`, where an and_v chain could stand and what follows stops it. -/
theorem seq_of_unit {n : Ms}
    (hu : ∀ (tp : List DState) (built : List Ms) (es : List Entry), topValid ctx built = true →
      Reach ctx koh ⟨rents h160 n ++ es, .single :: tp, built⟩ ⟨es, tp, n :: built⟩)
    (hvn : isValid ctx n = true) (tp : List DState) (built : List Ms) (es : List Entry)
    (hv : topValid ctx built = true) (hst : stops es = true) :
    Reach ctx koh ⟨rents h160 n ++ es, .single :: .maybeAndV :: tp, built⟩ ⟨es, tp, n :: built⟩ :=
  (hu (.maybeAndV :: tp) built es hv).trans
    (reach_step (show topValid ctx (n :: built) = true from hvn)
      (step_maybe_stop ctx koh es tp (n :: built) hst) (.refl _))

/-- the three forms from the one for `_single`, for a fragment that is no and_v, `a:` or `s:`. -/
theorem back_of_unit {n : Ms} (hseq : rd .seq n = rd .unit n) (hw : rd .w n = false)
    (hvn : isValid ctx n = true)
    (hu : rd .unit n = true → ∀ (tp : List DState) (built : List Ms) (es : List Entry),
      topValid ctx built = true →
      Reach ctx koh ⟨rents h160 n ++ es, .single :: tp, built⟩ ⟨es, tp, n :: built⟩) :
    Back ctx koh h160 n :=
  ⟨hu, fun h tp built es hv hst => seq_of_unit ctx koh h160 (hu (hseq ▸ h)) hvn tp built es hv hst,
   fun h => by rw [hw] at h; cases h⟩

/-- read-back at the machine: from the entries of `n` (then `es`) and the state(s) that read `n`
    on top, the loop reaches the configuration where `n` is built and `es` is left. -/
theorem back (hh : ∀ k, (h160 k).length = 20) (hkoh : ∀ k, koh (h160 k) = some k) :
    ∀ (n : Ms), shaped ctx n = true → allTyped ctx n = true → Back ctx koh h160 n
  | .f0, _, ht => back_of_unit ctx koh h160 rfl rfl (isValid_of_allTyped ctx _ ht)
      fun _ tp built es hv => reach_step hv (step_f0 ctx koh es tp built) (.refl _)
  | .f1, _, ht => back_of_unit ctx koh h160 rfl rfl (isValid_of_allTyped ctx _ ht)
      fun _ tp built es hv => reach_step hv (step_f1 ctx koh es tp built) (.refl _)
  | .pk_k k, hs, ht => back_of_unit ctx koh h160 rfl rfl (isValid_of_allTyped ctx _ ht)
      fun _ tp built es hv => by
        simp only [shaped, beq_iff_eq] at hs
        exact reach_step hv (step_pk_k ctx koh k hs es tp built) (.refl _)
  | .pk_h k, _, ht => back_of_unit ctx koh h160 rfl rfl (isValid_of_allTyped ctx _ ht)
      fun _ tp built es hv =>
        reach_step hv (step_pk_h ctx koh h160 k (hh k) (hkoh k) es tp built) (.refl _)
  | .wrap w x, hs, ht => by
    have hvn := isValid_of_allTyped ctx _ ht
    simp only [shaped] at hs
    simp only [allTyped, Bool.and_eq_true] at ht
    obtain ⟨ihu, ihs, _⟩ := back hh hkoh x hs ht.2
    have vx : ∀ built, topValid ctx (x :: built) = true := fun _ => isValid_of_allTyped ctx x ht.2
    cases w
    · -- a:X  TOALTSTACK [X] FROMALTSTACK
      refine ⟨fun h => by simp [rd] at h, fun h => by simp [rd] at h, fun h tp built es hv => ?_⟩
      simp only [rd, Bool.and_eq_true] at h
      have e : rents h160 (.wrap .a x) ++ es =
          (OP_FROMALTSTACK, []) :: (rents h160 x ++ (OP_TOALTSTACK, []) :: es) := by simp [rents]
      rw [e]
      refine reach_step hv rfl ?_
      exact (ihs h.2 (.wrap .a :: tp) built _ hv rfl).trans (reach_step (vx _) rfl (.refl _))
    · -- s:X  SWAP [X]
      refine ⟨fun h => by simp [rd] at h, fun h => by simp [rd] at h, fun h tp built es hv => ?_⟩
      simp only [rd, Bool.and_eq_true] at h
      obtain ⟨op, d, r, hr, hop⟩ := rents_head ctx h160 .seq x (by decide) h.2 hs
      simp only [plainOp, Bool.and_eq_true, bne_iff_ne, ne_eq] at hop
      have e : rents h160 (.wrap .s x) ++ es = rents h160 x ++ (OP_SWAP, []) :: es := by simp [rents]
      rw [e]
      have s1 : step ctx koh .wExpr ⟨rents h160 x ++ (OP_SWAP, []) :: es, tp, built⟩ =
          some ⟨rents h160 x ++ (OP_SWAP, []) :: es, .single :: .maybeAndV :: .wrap .s :: tp, built⟩ := by
        rw [hr]; simp [step, hop.1.1.1]
      refine reach_step hv s1 ?_
      exact (ihs h.2 (.wrap .s :: tp) built _ hv rfl).trans (reach_step (vx _) rfl (.refl _))
    · -- c:X
      refine back_of_unit ctx koh h160 rfl rfl hvn fun h tp built es hv => ?_
      simp only [rd, Bool.and_eq_true] at h
      refine reach_step hv (step_single_comb ctx koh _ _ tp _ built (by decide) (comb_checksig _ tp)) ?_
      exact (ihu h.2 (.wrap .c :: tp) built es hv).trans (reach_step (vx _) rfl (.refl _))
    · -- d:X  DUP IF [X] ENDIF
      refine back_of_unit ctx koh h160 rfl rfl hvn fun h tp built es hv => ?_
      simp only [rd, Bool.and_eq_true] at h
      have e : rents h160 (.wrap .d x) ++ es =
          (OP_ENDIF, []) :: (rents h160 x ++ (OP_IF, []) :: (OP_DUP, []) :: es) := by simp [rents]
      rw [e]
      refine reach_step hv (step_single_comb ctx koh _ _ tp _ built (by decide) (comb_endif _ tp)) ?_
      refine (ihs h.2 (.endif :: tp) built _ hv rfl).trans ?_
      exact reach_step (vx _) rfl (reach_step (vx _) rfl (.refl _))
    · -- v:X
      refine back_of_unit ctx koh h160 rfl rfl hvn fun h tp built es hv => ?_
      simp only [rd, Bool.and_eq_true] at h
      obtain ⟨op, d, r, hr, hop⟩ := rents_head ctx h160 .unit x (by decide) h.2 hs
      simp only [plainOp, Bool.and_eq_true, bne_iff_ne, ne_eq] at hop
      have ih := ihu h.2 (.wrap .v :: tp) built es hv
      have e : rents h160 (.wrap .v x) ++ es = (OP_VERIFY, []) :: (rents h160 x ++ es) := by simp [rents]
      rw [e]
      have s1 : step ctx koh .single ⟨(OP_VERIFY, []) :: (rents h160 x ++ es), tp, built⟩ =
          some ⟨rents h160 x ++ es, .single :: .wrap .v :: tp, built⟩ := by
        rw [hr]
        exact step_single_verify ctx koh op d (r ++ es) tp built (by simpa using hop.1.1.2)
      refine reach_step hv s1 ?_
      exact ih.trans (reach_step (vx _) rfl (.refl _))
    · -- j:X  SIZE 0NOTEQUAL IF [X] ENDIF
      refine back_of_unit ctx koh h160 rfl rfl hvn fun h tp built es hv => ?_
      simp only [rd, Bool.and_eq_true] at h
      have e : rents h160 (.wrap .j x) ++ es =
          (OP_ENDIF, []) :: (rents h160 x ++ (OP_IF, []) :: (OP_0NOTEQUAL, []) :: (OP_SIZE, []) :: es) := by
        simp [rents]
      rw [e]
      refine reach_step hv (step_single_comb ctx koh _ _ tp _ built (by decide) (comb_endif _ tp)) ?_
      refine (ihs h.2 (.endif :: tp) built _ hv rfl).trans ?_
      exact reach_step (vx _) rfl (reach_step (vx _) rfl (.refl _))
    · -- n:X
      refine back_of_unit ctx koh h160 rfl rfl hvn fun h tp built es hv => ?_
      simp only [rd, Bool.and_eq_true] at h
      refine reach_step hv (step_single_comb ctx koh _ _ tp _ built (by decide) (comb_0ne _ tp)) ?_
      exact (ihu h.2 (.wrap .n :: tp) built es hv).trans (reach_step (vx _) rfl (.refl _))
  | .bin b x y, hs, ht => by
    have hvn := isValid_of_allTyped ctx _ ht
    simp only [shaped, Bool.and_eq_true] at hs
    simp only [allTyped, Bool.and_eq_true] at ht
    obtain ⟨xu, xs, _⟩ := back hh hkoh x hs.1 ht.1.2
    obtain ⟨yu, ys, yw⟩ := back hh hkoh y hs.2 ht.2
    have vy : ∀ built, topValid ctx (y :: built) = true := fun _ => isValid_of_allTyped ctx y ht.2
    have vx : ∀ built, topValid ctx (x :: built) = true := fun _ => isValid_of_allTyped ctx x ht.1.2
    cases b
    · -- and_v(X,Y): [X] [Y], X itself a chain
      refine ⟨fun h => by simp [rd] at h, fun h tp built es hv hst => ?_, fun h => by simp [rd] at h⟩
      simp only [rd, Bool.and_eq_true] at h
      obtain ⟨op, d, r, hr, hop⟩ := rents_head ctx h160 .seq x (by decide) h.1.2 hs.1
      simp only [plainOp, Bool.and_eq_true, bne_iff_ne, ne_eq, Bool.not_eq_true'] at hop
      have e : rents h160 (.bin .and_v x y) ++ es = rents h160 y ++ (rents h160 x ++ es) := by
        simp [rents]
      rw [e]
      refine (yu h.2 (.maybeAndV :: tp) built _ hv).trans ?_
      have s1 : step ctx koh .maybeAndV ⟨rents h160 x ++ es, tp, y :: built⟩ =
          some ⟨rents h160 x ++ es, .single :: .maybeAndV :: .bin .and_v :: tp, y :: built⟩ := by
        have := hop.2
        simp only [stopOp] at this
        rw [hr]; simp [step, this]
      refine reach_step (vy _) s1 ?_
      exact (xs h.1.2 (.bin .and_v :: tp) (y :: built) es (vy _) hst).trans
        (reach_step (vx _) rfl (.refl _))
    · -- and_b(X,W): [X] [W] BOOLAND
      refine back_of_unit ctx koh h160 rfl rfl hvn fun h tp built es hv => ?_
      simp only [rd, Bool.and_eq_true] at h
      have e : rents h160 (.bin .and_b x y) ++ es =
          (OP_BOOLAND, []) :: (rents h160 y ++ (rents h160 x ++ es)) := by simp [rents]
      rw [e]
      refine reach_step hv (step_single_comb ctx koh _ _ tp _ built (by decide) (comb_booland _ tp)) ?_
      exact (yw h.2 _ built _ hv).trans ((xu h.1.2 _ (y :: built) es (vy _)).trans
        (reach_step (vx _) rfl (.refl _)))
    · -- or_b(X,W): [X] [W] BOOLOR
      refine back_of_unit ctx koh h160 rfl rfl hvn fun h tp built es hv => ?_
      simp only [rd, Bool.and_eq_true] at h
      have e : rents h160 (.bin .or_b x y) ++ es =
          (OP_BOOLOR, []) :: (rents h160 y ++ (rents h160 x ++ es)) := by simp [rents]
      rw [e]
      refine reach_step hv (step_single_comb ctx koh _ _ tp _ built (by decide) (comb_boolor _ tp)) ?_
      exact (yw h.2 _ built _ hv).trans ((xu h.1.2 _ (y :: built) es (vy _)).trans
        (reach_step (vx _) rfl (.refl _)))
    · -- or_c(X,Z): [X] NOTIF [Z] ENDIF
      refine back_of_unit ctx koh h160 rfl rfl hvn fun h tp built es hv => ?_
      simp only [rd, Bool.and_eq_true] at h
      obtain ⟨op, d, r, hr, hop⟩ := rents_head ctx h160 .unit x (by decide) h.1.2 hs.1
      simp only [plainOp, Bool.and_eq_true, bne_iff_ne, ne_eq] at hop
      have e : rents h160 (.bin .or_c x y) ++ es =
          (OP_ENDIF, []) :: (rents h160 y ++ (OP_NOTIF, []) :: (rents h160 x ++ es)) := by simp [rents]
      rw [e]
      refine reach_step hv (step_single_comb ctx koh _ _ tp _ built (by decide) (comb_endif _ tp)) ?_
      refine (ys h.2 (.endif :: tp) built _ hv rfl).trans ?_
      refine reach_step (vy _) rfl ?_
      have s1 : step ctx koh .endifNotif ⟨rents h160 x ++ es, tp, y :: built⟩ =
          some ⟨rents h160 x ++ es, .single :: .bin .or_c :: tp, y :: built⟩ := by
        rw [hr]; simp [step, hop.1.2]
      refine reach_step (vy _) s1 ?_
      exact (xu h.1.2 _ (y :: built) es (vy _)).trans (reach_step (vx _) rfl (.refl _))
    · -- or_d(X,Z): [X] IFDUP NOTIF [Z] ENDIF
      refine back_of_unit ctx koh h160 rfl rfl hvn fun h tp built es hv => ?_
      simp only [rd, Bool.and_eq_true] at h
      have e : rents h160 (.bin .or_d x y) ++ es =
          (OP_ENDIF, []) :: (rents h160 y ++ (OP_NOTIF, []) :: (OP_IFDUP, []) :: (rents h160 x ++ es)) := by
        simp [rents]
      rw [e]
      refine reach_step hv (step_single_comb ctx koh _ _ tp _ built (by decide) (comb_endif _ tp)) ?_
      refine (ys h.2 (.endif :: tp) built _ hv rfl).trans ?_
      refine reach_step (vy _) rfl (reach_step (vy _) rfl ?_)
      exact (xu h.1.2 _ (y :: built) es (vy _)).trans (reach_step (vx _) rfl (.refl _))
    · -- or_i(X,Z): IF [X] ELSE [Z] ENDIF
      refine back_of_unit ctx koh h160 rfl rfl hvn fun h tp built es hv => ?_
      simp only [rd, Bool.and_eq_true] at h
      have e : rents h160 (.bin .or_i x y) ++ es =
          (OP_ENDIF, []) :: (rents h160 y ++ (OP_ELSE, []) :: (rents h160 x ++ (OP_IF, []) :: es)) := by
        simp [rents]
      rw [e]
      refine reach_step hv (step_single_comb ctx koh _ _ tp _ built (by decide) (comb_endif _ tp)) ?_
      refine (ys h.2 (.endif :: tp) built _ hv rfl).trans ?_
      refine reach_step (vy _) rfl ?_
      refine (xs h.1.2 (.endifElse :: tp) (y :: built) _ (vy _) rfl).trans ?_
      exact reach_step (vx _) rfl (.refl _)
  | .andor x y z, hs, ht => by
    have hvn := isValid_of_allTyped ctx _ ht
    simp only [shaped, Bool.and_eq_true] at hs
    simp only [allTyped, Bool.and_eq_true] at ht
    obtain ⟨xu, _, _⟩ := back hh hkoh x hs.1.1 ht.1.1.2
    obtain ⟨_, ys, _⟩ := back hh hkoh y hs.1.2 ht.1.2
    obtain ⟨_, zs, _⟩ := back hh hkoh z hs.2 ht.2
    have vy : ∀ built, topValid ctx (y :: built) = true := fun _ => isValid_of_allTyped ctx y ht.1.2
    have vz : ∀ built, topValid ctx (z :: built) = true := fun _ => isValid_of_allTyped ctx z ht.2
    have vx : ∀ built, topValid ctx (x :: built) = true := fun _ => isValid_of_allTyped ctx x ht.1.1.2
    refine back_of_unit ctx koh h160 rfl rfl hvn fun h tp built es hv => ?_
    simp only [rd, Bool.and_eq_true] at h
    have e : rents h160 (.andor x y z) ++ es =
        (OP_ENDIF, []) :: (rents h160 y ++ (OP_ELSE, []) ::
          (rents h160 z ++ (OP_NOTIF, []) :: (rents h160 x ++ es))) := by simp [rents]
    rw [e]
    refine reach_step hv (step_single_comb ctx koh _ _ tp _ built (by decide) (comb_endif _ tp)) ?_
    refine (ys h.1.2 (.endif :: tp) built _ hv rfl).trans ?_
    refine reach_step (vy _) rfl ?_
    refine (zs h.2 (.endifElse :: tp) (y :: built) _ (vy _) rfl).trans ?_
    refine reach_step (vz _) rfl ?_
    exact (xu h.1.1.2 (.andor :: tp) (z :: y :: built) es (vz _)).trans (reach_step (vx _) rfl (.refl _))
  | .older _, _, _ | .after _, _, _ | .hash _ _, _, _ | .multi _ _, _, _ | .multi_a _ _, _, _
  | .thresh _ _ _, _, _ =>
    ⟨fun h => by simp [rd] at h, fun h => by simp [rd] at h, fun h => by simp [rd] at h⟩

/-- the loop of `_Decoder.decode`, started on the entries of a covered expression, stops with that
    expression built and no entry left — for every fuel from some point on. -/
theorem run_back (hh : ∀ k, (h160 k).length = 20) (hkoh : ∀ k, koh (h160 k) = some k) (n : Ms)
    (hr : rd .seq n = true) (hs : shaped ctx n = true) (ht : allTyped ctx n = true) :
    ∃ k, ∀ fuel, k ≤ fuel → run ctx koh fuel (start (rents h160 n)) = some ⟨[], [], [n]⟩ := by
  have h := (back ctx koh h160 hh hkoh n hs ht).2.1 hr [] [] [] rfl rfl
  rw [List.append_nil] at h
  exact run_of_reach h rfl

end

end Btc.Miniscript.Decode
