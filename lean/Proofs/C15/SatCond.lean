import Model.C15.Satisfy
/-!
C15 — the satisfier produces nothing when the spending condition is false.
-/
namespace Btc.Miniscript
open Btc Gen.Miniscript

/-- the spending condition of an expression under what a spender has: keys that sign, preimages,
    and the lock times the transaction carries.  A quorum (`multi`, `multi_a`, `thresh`) is answered
    "possibly true": the theorem below claims nothing of it (not covered yet). -/
def cond (ctx : Ctx) (env : SatEnv) : Ms → Bool
  | .f0 => false
  | .f1 => true
  | .pk_k k | .pk_h k => (offered ctx env k).isSome
  | .older n => olderMet env n
  | .after n => afterMet env n
  | .hash h d => (preimageOf env h d).isSome
  | .wrap _ x => cond ctx env x
  | .bin b x y => if b.isAnd then cond ctx env x && cond ctx env y else cond ctx env x || cond ctx env y
  | .andor x y z => (cond ctx env x && cond ctx env y) || cond ctx env z
  | _ => true

theorem both_none_l (a b : Input) (h : a.stack = none) : (both a b).stack = none := by
  simp [both, h, noWitness]

theorem both_none_r (a b : Input) (h : b.stack = none) : (both a b).stack = none := by
  unfold both
  cases a.stack <;> simp [h, noWitness]

theorem better_none (a b : Input) (ha : a.stack = none) (hb : b.stack = none) :
    (better a b).stack = none := by
  simp [better, ha, hb]

@[simp] theorem overcomplete_stack (i : Input) : (overcomplete i).stack = i.stack := rfl
@[simp] theorem nonCanon_stack (i : Input) : (nonCanon i).stack = i.stack := rfl

theorem sat_none_of_cond_false (ctx : Ctx) (env : SatEnv) :
    ∀ (n : Ms), cond ctx env n = false → (inputs ctx env n).sat.stack = none
  | .f0, _ => by simp [inputs, noWitness]
  | .f1, h => by simp [cond] at h
  | .pk_k k, h => by
    simp only [cond, Option.isSome_eq_false_iff, Option.isNone_iff_eq_none] at h
    simp [inputs, keyInput, sigInput, h, noWitness]
  | .pk_h k, h => by
    simp only [cond, Option.isSome_eq_false_iff, Option.isNone_iff_eq_none] at h
    simp [inputs, keyInput, sigInput, h, both_none_l, noWitness]
  | .older n, h => by simp only [cond] at h; simp [inputs, h, noWitness]
  | .after n, h => by simp only [cond] at h; simp [inputs, h, noWitness]
  | .hash hk d, h => by
    simp only [cond, Option.isSome_eq_false_iff, Option.isNone_iff_eq_none] at h
    simp [inputs, h, noWitness]
  | .multi _ _, h | .multi_a _ _, h | .thresh _ _ _, h => by simp [cond] at h
  | .wrap w x, h => by
    simp only [cond] at h
    have ih := sat_none_of_cond_false ctx env x h
    cases w <;> simp [inputs, wrapperInput, ih, both_none_l]
  | .bin b x y, h => by
    simp only [cond] at h
    cases b <;> simp only [Bin.isAnd, if_true, Bool.false_eq_true, if_false, Bool.and_eq_false_iff,
      Bool.or_eq_false_iff] at h
    · rcases h with h | h
      · simp [inputs, binInput, both_none_r, sat_none_of_cond_false ctx env x h]
      · simp [inputs, binInput, both_none_l, sat_none_of_cond_false ctx env y h]
    · rcases h with h | h
      · simp [inputs, binInput, both_none_r, sat_none_of_cond_false ctx env x h]
      · simp [inputs, binInput, both_none_l, sat_none_of_cond_false ctx env y h]
    · have hx := sat_none_of_cond_false ctx env x h.1
      have hy := sat_none_of_cond_false ctx env y h.2
      simp only [inputs, binInput]
      exact better_none _ _ (better_none _ _ (both_none_r _ _ hx) (both_none_l _ _ hy))
        (by simp [both_none_l, hy])
    · have hx := sat_none_of_cond_false ctx env x h.1
      have hy := sat_none_of_cond_false ctx env y h.2
      simp only [inputs, binInput]
      exact better_none _ _ hx (both_none_l _ _ hy)
    · have hx := sat_none_of_cond_false ctx env x h.1
      have hy := sat_none_of_cond_false ctx env y h.2
      simp only [inputs, binInput]
      exact better_none _ _ hx (both_none_l _ _ hy)
    · have hx := sat_none_of_cond_false ctx env x h.1
      have hy := sat_none_of_cond_false ctx env y h.2
      simp only [inputs, binInput]
      exact better_none _ _ (both_none_l _ _ hx) (both_none_l _ _ hy)
  | .andor x y z, h => by
    simp only [cond, Bool.or_eq_false_iff, Bool.and_eq_false_iff] at h
    have hz := sat_none_of_cond_false ctx env z h.2
    simp only [inputs, andorInput]
    refine better_none _ _ ?_ (both_none_l _ _ hz)
    rcases h.1 with h1 | h1
    · exact both_none_r _ _ (sat_none_of_cond_false ctx env x h1)
    · exact both_none_l _ _ (sat_none_of_cond_false ctx env y h1)

/-- `satisfy` refuses ("no satisfaction") whenever the spending condition is false. -/
theorem satisfy_none_of_cond_false (ctx : Ctx) (env : SatEnv) (n : Ms) (h : cond ctx env n = false) :
    satisfy ctx env n = .error .none := by
  simp [satisfy, sat_none_of_cond_false ctx env n h]

end Btc.Miniscript
