import Model.C15.Satisfy
/-!
C15 — the satisfier produces nothing when the spending condition is false.
-/
namespace Btc.Miniscript
open Btc Gen.Miniscript

/-- how many of the keys have a signature offered. -/
def availCount (ctx : Ctx) (env : SatEnv) : List Key → Nat
  | [] => 0
  | k :: ks => (if (offered ctx env k).isSome then 1 else 0) + availCount ctx env ks

mutual
/-- the spending condition of an expression under what a spender has: keys that sign, preimages,
    the lock times the transaction carries; a quorum holds when at least `k` of its keys sign
    (`multi`, `multi_a`) or at least `k` of its subexpressions hold (`thresh`). -/
def cond (ctx : Ctx) (env : SatEnv) : Ms → Bool
  | .f0 => false
  | .f1 => true
  | .pk_k k | .pk_h k => (offered ctx env k).isSome
  | .older n => olderMet env n
  | .after n => afterMet env n
  | .hash h d => (preimageOf env h d).isSome
  | .multi k keys | .multi_a k keys => decide (k ≤ availCount ctx env keys)
  | .wrap _ x => cond ctx env x
  | .bin b x y => if b.isAnd then cond ctx env x && cond ctx env y else cond ctx env x || cond ctx env y
  | .andor x y z => (cond ctx env x && cond ctx env y) || cond ctx env z
  | .thresh k x xs => decide (k ≤ (if cond ctx env x then 1 else 0) + condCount ctx env xs)
/-- how many of the subexpressions hold. -/
def condCount (ctx : Ctx) (env : SatEnv) : MsL → Nat
  | .nil => 0
  | .cons x xs => (if cond ctx env x then 1 else 0) + condCount ctx env xs
end

theorem both_none_l (a b : Input) (h : a.stack = none) : (both a b).stack = none := by
  simp [both, h, noWitness]

theorem both_none_r (a b : Input) (h : b.stack = none) : (both a b).stack = none := by
  unfold both
  cases a.stack <;> simp [h, noWitness]

theorem better_none (a b : Input) (ha : a.stack = none) (hb : b.stack = none) :
    (better a b).stack = none := by
  simp [better, ha, hb]

@[simp] theorem overcomplete_stack (i : Input) : (overcomplete i).stack = i.stack := rfl
@[simp] theorem nonCanon_stack (i : Input) : (nonCanon i).stack = i.stack := rfl

/-! ### the reached[] recurrences -/

/-- every entry from index `c` on satisfies `P`. -/
def AllFrom {α : Type} (P : α → Prop) : Nat → List α → Prop
  | _, [] => True
  | 0, x :: r => P x ∧ AllFrom P 0 r
  | c + 1, _ :: r => AllFrom P c r

theorem AllFrom_zero {α : Type} {P : α → Prop} : ∀ (r : List α), AllFrom P 0 r → ∀ y ∈ r, P y
  | [], _, y, hy => by simp at hy
  | x :: r, h, y, hy => by
    simp only [List.mem_cons] at hy
    rcases hy with rfl | hy
    · exact h.1
    · exact AllFrom_zero r h.2 y hy

theorem AllFrom_of_all {α : Type} {P : α → Prop} : ∀ (r : List α), (∀ y ∈ r, P y) → AllFrom P 0 r
  | [], _ => trivial
  | x :: r, h => ⟨h x (by simp), AllFrom_of_all r fun y hy => h y (by simp [hy])⟩

theorem AllFrom_getD {α : Type} {P : α → Prop} (d : α) (hd : P d) :
    ∀ (c : Nat) (r : List α) (j : Nat), AllFrom P c r → c ≤ j → P (r.getD j d)
  | _, [], _, _, _ => by simpa using hd
  | 0, x :: r, 0, h, _ => by simpa using h.1
  | 0, x :: r, j + 1, h, _ => by simpa using AllFrom_getD d hd 0 r j h.2 (Nat.zero_le _)
  | c + 1, x :: r, 0, _, hj => by omega
  | c + 1, x :: r, j + 1, h, hj => by simpa using AllFrom_getD d hd c r j h (by omega)

section
variable {α : Type} (P : α → Prop) (mid : α → α → α) (last : α → α)

theorem dpGo_all (hmid : ∀ p c, P p → P c → P (mid p c)) (hlast : ∀ l, P l → P (last l)) :
    ∀ (prev : α) (rest : List α), P prev → (∀ y ∈ rest, P y) → ∀ y ∈ dpGo mid last prev rest, P y
  | prev, [], hp, _, y, hy => by simp [dpGo] at hy; subst hy; exact hlast _ hp
  | prev, cur :: rest, hp, hr, y, hy => by
    simp only [dpGo, List.mem_cons] at hy
    rcases hy with rfl | hy
    · exact hmid _ _ hp (hr cur (by simp))
    · exact dpGo_all hmid hlast cur rest (hr cur (by simp)) (fun z hz => hr z (by simp [hz])) y hy

/-- a step whose `signature` is absent: the frontier stays. -/
theorem dpGo_stay (hmid : ∀ p c, P c → P (mid p c)) (hlast : ∀ l, P (last l)) :
    ∀ (prev : α) (rest : List α) (c : Nat), AllFrom P c rest → AllFrom P c (dpGo mid last prev rest)
  | prev, [], 0, _ => ⟨hlast _, trivial⟩
  | prev, [], c + 1, _ => trivial
  | prev, cur :: rest, 0, h => ⟨hmid _ _ h.1, dpGo_stay hmid hlast cur rest 0 h.2⟩
  | prev, cur :: rest, c + 1, h => dpGo_stay hmid hlast cur rest c h

/-- a step whose `signature` may be present: the frontier moves by one. -/
theorem dpGo_move (hmid : ∀ p c, P p → P c → P (mid p c)) (hlast : ∀ l, P l → P (last l)) :
    ∀ (prev : α) (rest : List α) (c : Nat), AllFrom P c rest → AllFrom P (c + 1) (dpGo mid last prev rest)
  | prev, [], c, _ => trivial
  | prev, cur :: rest, 0, h =>
    AllFrom_of_all _ (dpGo_all P mid last hmid hlast cur rest h.1 (AllFrom_zero rest h.2))
  | prev, cur :: rest, c + 1, h => dpGo_move hmid hlast cur rest c h

theorem dpStep_stay (first : α → α) (hmid : ∀ p c, P c → P (mid p c)) (hlast : ∀ l, P (last l)) :
    ∀ (r : List α) (c : Nat), AllFrom P (c + 1) r → AllFrom P (c + 1) (dpStep first mid last r)
  | [], _, _ => trivial
  | r0 :: rest, c, h => dpGo_stay P mid last hmid hlast r0 rest c h

theorem dpStep_move (first : α → α) (hmid : ∀ p c, P p → P c → P (mid p c))
    (hlast : ∀ l, P l → P (last l)) :
    ∀ (r : List α) (c : Nat), AllFrom P (c + 1) r → AllFrom P (c + 2) (dpStep first mid last r)
  | [], _, _ => trivial
  | r0 :: rest, c, h => dpGo_move P mid last hmid hlast r0 rest c h
end

theorem AllFrom_cast {α : Type} {P : α → Prop} {a b : Nat} {r : List α} (h : a = b) :
    AllFrom P a r → AllFrom P b r := h ▸ id

def NoStack (i : Input) : Prop := i.stack = none

theorem multiStep_stay (unused sig : Input) (hs : sig.stack = none) (r : List Input) (c : Nat)
    (h : AllFrom NoStack (c + 1) r) : AllFrom NoStack (c + 1) (multiStep unused r sig) :=
  dpStep_stay NoStack _ _ _ (fun p cur hc => better_none _ _ (both_none_l _ _ hc) (both_none_r _ _ hs))
    (fun l => both_none_r _ _ hs) r c h

theorem multiStep_move (unused sig : Input) (r : List Input) (c : Nat)
    (h : AllFrom NoStack (c + 1) r) : AllFrom NoStack (c + 2) (multiStep unused r sig) :=
  dpStep_move NoStack _ _ _ (fun p cur hp hc => better_none _ _ (both_none_l _ _ hc) (both_none_l _ _ hp))
    (fun l hl => both_none_l _ _ hl) r c h

theorem sigInput_none {ctx : Ctx} {env : SatEnv} {k : Key} (h : (offered ctx env k).isSome = false) :
    (sigInput ctx env k).stack = none := by
  simp only [Option.isSome_eq_false_iff, Option.isNone_iff_eq_none] at h
  simp [sigInput, h, noWitness]

theorem multi_foldr (ctx : Ctx) (env : SatEnv) (unused init : Input) : ∀ (keys : List Key),
    AllFrom NoStack (availCount ctx env keys + 1)
      (keys.foldr (fun key r => multiStep unused r (sigInput ctx env key)) [init])
  | [] => trivial
  | k :: ks => by
    have ih := multi_foldr ctx env unused init ks
    simp only [List.foldr_cons, availCount]
    cases ho : (offered ctx env k).isSome with
    | false => exact AllFrom_cast (by simp) (multiStep_stay unused _ (sigInput_none ho) _ _ ih)
    | true =>
      have := multiStep_move unused (sigInput ctx env k) _ _ ih
      exact AllFrom_cast (by simp <;> omega) this

theorem multi_foldl (ctx : Ctx) (env : SatEnv) (unused : Input) : ∀ (keys : List Key) (r : List Input)
    (c : Nat), AllFrom NoStack (c + 1) r →
    AllFrom NoStack (c + availCount ctx env keys + 1)
      (keys.foldl (fun r key => multiStep unused r (sigInput ctx env key)) r)
  | [], r, c, h => by simpa [availCount] using h
  | k :: ks, r, c, h => by
    simp only [List.foldl_cons, availCount]
    cases ho : (offered ctx env k).isSome with
    | false =>
      have := multi_foldl ctx env unused ks _ c (multiStep_stay unused _ (sigInput_none ho) r c h)
      exact AllFrom_cast (by simp <;> omega) this
    | true =>
      have := multi_foldl ctx env unused ks _ (c + 1) (multiStep_move unused (sigInput ctx env k) r c h)
      exact AllFrom_cast (by simp <;> omega) this

theorem threshStep_stay (sub : Inputs) (hs : sub.sat.stack = none) (r : List Input) (c : Nat)
    (h : AllFrom NoStack (c + 1) r) : AllFrom NoStack (c + 1) (threshStepIn r sub) :=
  dpStep_stay NoStack _ _ _ (fun p cur hc => better_none _ _ (both_none_l _ _ hc) (both_none_r _ _ hs))
    (fun l => both_none_r _ _ hs) r c h

theorem threshStep_move (sub : Inputs) (r : List Input) (c : Nat)
    (h : AllFrom NoStack (c + 1) r) : AllFrom NoStack (c + 2) (threshStepIn r sub) :=
  dpStep_move NoStack _ _ _ (fun p cur hp hc => better_none _ _ (both_none_l _ _ hc) (both_none_l _ _ hp))
    (fun l hl => both_none_l _ _ hl) r c h

mutual
theorem sat_none_of_cond_false (ctx : Ctx) (env : SatEnv) :
    ∀ (n : Ms), cond ctx env n = false → (inputs ctx env n).sat.stack = none
  | .f0, _ => by simp [inputs, noWitness]
  | .f1, h => by simp [cond] at h
  | .pk_k k, h => by
    simp only [cond, Option.isSome_eq_false_iff, Option.isNone_iff_eq_none] at h
    simp [inputs, keyInput, sigInput, h, noWitness]
  | .pk_h k, h => by
    simp only [cond, Option.isSome_eq_false_iff, Option.isNone_iff_eq_none] at h
    simp [inputs, keyInput, sigInput, h, both_none_l, noWitness]
  | .older n, h => by simp only [cond] at h; simp [inputs, h, noWitness]
  | .after n, h => by simp only [cond] at h; simp [inputs, h, noWitness]
  | .hash hk d, h => by
    simp only [cond, Option.isSome_eq_false_iff, Option.isNone_iff_eq_none] at h
    simp [inputs, h, noWitness]
  | .multi k keys, h => by
    simp only [cond, decide_eq_false_iff_not, Nat.not_le] at h
    have := multi_foldl ctx env noPushes keys [zeroPush] 0 trivial
    simp only [inputs, multiInput, Bool.false_eq_true, if_false]
    exact AllFrom_getD (P := NoStack) noWitness rfl _ _ k this (by omega)
  | .multi_a k keys, h => by
    simp only [cond, decide_eq_false_iff_not, Nat.not_le] at h
    have := multi_foldr ctx env zeroPush noPushes keys
    simp only [inputs, multiInput, if_true]
    exact AllFrom_getD (P := NoStack) noWitness rfl _ _ k this (by omega)
  | .thresh k x xs, h => by
    simp only [cond, decide_eq_false_iff_not, Nat.not_le] at h
    have ih := thresh_foldr ctx env xs
    simp only [inputs, threshInput, List.foldr_cons]
    have step : AllFrom NoStack ((if cond ctx env x then 1 else 0) + condCount ctx env xs + 1)
        (threshStepIn ((inputsL ctx env xs).foldr (fun sub r => threshStepIn r sub) [noPushes])
          (inputs ctx env x)) := by
      cases hc : cond ctx env x with
      | false =>
        exact AllFrom_cast (by simp) (threshStep_stay _ (sat_none_of_cond_false ctx env x hc) _ _ ih)
      | true => exact AllFrom_cast (by simp <;> omega) (threshStep_move (inputs ctx env x) _ _ ih)
    exact AllFrom_getD (P := NoStack) noWitness rfl _ _ k step (by omega)
  | .wrap w x, h => by
    simp only [cond] at h
    have ih := sat_none_of_cond_false ctx env x h
    cases w <;> simp [inputs, wrapperInput, ih, both_none_l]
  | .bin b x y, h => by
    simp only [cond] at h
    cases b <;> simp only [Bin.isAnd, if_true, Bool.false_eq_true, if_false, Bool.and_eq_false_iff,
      Bool.or_eq_false_iff] at h
    · rcases h with h | h
      · simp [inputs, binInput, both_none_r, sat_none_of_cond_false ctx env x h]
      · simp [inputs, binInput, both_none_l, sat_none_of_cond_false ctx env y h]
    · rcases h with h | h
      · simp [inputs, binInput, both_none_r, sat_none_of_cond_false ctx env x h]
      · simp [inputs, binInput, both_none_l, sat_none_of_cond_false ctx env y h]
    · have hx := sat_none_of_cond_false ctx env x h.1
      have hy := sat_none_of_cond_false ctx env y h.2
      simp only [inputs, binInput]
      exact better_none _ _ (better_none _ _ (both_none_r _ _ hx) (both_none_l _ _ hy))
        (by simp [both_none_l, hy])
    · have hx := sat_none_of_cond_false ctx env x h.1
      have hy := sat_none_of_cond_false ctx env y h.2
      simp only [inputs, binInput]
      exact better_none _ _ hx (both_none_l _ _ hy)
    · have hx := sat_none_of_cond_false ctx env x h.1
      have hy := sat_none_of_cond_false ctx env y h.2
      simp only [inputs, binInput]
      exact better_none _ _ hx (both_none_l _ _ hy)
    · have hx := sat_none_of_cond_false ctx env x h.1
      have hy := sat_none_of_cond_false ctx env y h.2
      simp only [inputs, binInput]
      exact better_none _ _ (both_none_l _ _ hx) (both_none_l _ _ hy)
  | .andor x y z, h => by
    simp only [cond, Bool.or_eq_false_iff, Bool.and_eq_false_iff] at h
    have hz := sat_none_of_cond_false ctx env z h.2
    simp only [inputs, andorInput]
    refine better_none _ _ ?_ (both_none_l _ _ hz)
    rcases h.1 with h1 | h1
    · exact both_none_r _ _ (sat_none_of_cond_false ctx env x h1)
    · exact both_none_l _ _ (sat_none_of_cond_false ctx env y h1)

theorem thresh_foldr (ctx : Ctx) (env : SatEnv) : ∀ (xs : MsL),
    AllFrom NoStack (condCount ctx env xs + 1)
      ((inputsL ctx env xs).foldr (fun sub r => threshStepIn r sub) [noPushes])
  | .nil => trivial
  | .cons x xs => by
    have ih := thresh_foldr ctx env xs
    simp only [inputsL, List.foldr_cons, condCount]
    cases hc : cond ctx env x with
    | false =>
      exact AllFrom_cast (by simp) (threshStep_stay _ (sat_none_of_cond_false ctx env x hc) _ _ ih)
    | true => exact AllFrom_cast (by simp <;> omega) (threshStep_move (inputs ctx env x) _ _ ih)
end

/-- `satisfy` refuses ("no satisfaction") whenever the spending condition is false. -/
theorem satisfy_none_of_cond_false (ctx : Ctx) (env : SatEnv) (n : Ms) (h : cond ctx env n = false) :
    satisfy ctx env n = .error .none := by
  simp [satisfy, sat_none_of_cond_false ctx env n h]

end Btc.Miniscript
