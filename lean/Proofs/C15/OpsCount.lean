import Proofs.C15.Ops
import Model.C15.Bounds
/-!
C15 — the static op count (`_static_ops`, from `_LEAF_OPS` and `_OVERHEAD`) is the number of
non-push op codes of the script, for every expression.
-/
namespace Btc.Miniscript
open Btc Gen.Miniscript

@[simp] theorem countNP_nil : countNP [] = 0 := rfl
@[simp] theorem countNP_cons (o : Op) (os : List Op) :
    countNP (o :: os) = o.nonPush.toNat + countNP os := by
  cases h : o.nonPush <;> simp [countNP, List.filter, h] <;> omega
@[simp] theorem countNP_append (a b : List Op) : countNP (a ++ b) = countNP a + countNP b := by
  simp [countNP]

theorem countNP_map_push (keys : List Key) : countNP (keys.map .push) = 0 := by
  induction keys with
  | nil => rfl
  | cons k ks ih => simp [Op.nonPush, ih]

theorem countNP_checksigadd (keys : List Key) :
    countNP (keys.flatMap fun k => [.push k, .checksigadd]) = keys.length := by
  induction keys with
  | nil => rfl
  | cons k ks ih => simp [Op.nonPush, ih]; omega

theorem countNP_multiA (keys : List Key) : countNP (multiAOps keys) = keys.length := by
  cases keys with
  | nil => rfl
  | cons k ks => simp [multiAOps, Op.nonPush, countNP_checksigadd]; omega

theorem foldl_static (l : List Info) (a : Nat) :
    l.foldl (fun acc i => acc + i.staticOps + 1) a = a + (l.map fun i => i.staticOps + 1).sum := by
  induction l generalizing a with
  | nil => simp
  | cons i l ih => simp [ih]; omega

mutual
theorem countNP_opsOf (ctx : Ctx) (h160 : Bytes → Bytes) :
    ∀ (n : Ms) (v : Bool), countNP (opsOf ctx h160 v n) = (info ctx n).staticOps
  | .f0, _ => by simp [opsOf, info, Op.nonPush, leafOps0]
  | .f1, _ => by simp [opsOf, info, Op.nonPush, leafOps1]
  | .pk_k _, _ => by simp [opsOf, info, Op.nonPush, leafOpsPkK]
  | .pk_h _, _ => by simp [opsOf, info, Op.nonPush, leafOpsPkH]
  | .older _, _ => by simp [opsOf, info, Op.nonPush, leafOpsLock]
  | .after _, _ => by simp [opsOf, info, Op.nonPush, leafOpsLock]
  | .hash _ _, v => by cases v <;> simp [opsOf, info, Op.nonPush, leafOpsHash]
  | .multi _ _, v => by cases v <;> simp [opsOf, info, Op.nonPush, countNP_map_push]
  | .multi_a _ _, v => by cases v <;> simp [opsOf, info, Op.nonPush, countNP_multiA]
  | .wrap w x, v => by
    have H := fun b => countNP_opsOf ctx h160 x b
    cases w <;> cases v <;> simp [opsOf, info, Op.nonPush, H, overhead, Wrap.frag] <;>
      (try (cases (typeOf ctx x).x <;> simp [Op.nonPush])) <;> omega
  | .bin b x y, v => by
    have Hx := fun b => countNP_opsOf ctx h160 x b
    have Hy := fun b => countNP_opsOf ctx h160 y b
    cases b <;> simp [opsOf, info, Op.nonPush, Hx, Hy, overhead, Bin.frag] <;> omega
  | .andor x y z, _ => by
    simp [opsOf, info, Op.nonPush, countNP_opsOf ctx h160 x false, countNP_opsOf ctx h160 y false,
      countNP_opsOf ctx h160 z false, overhead]
    omega
  | .thresh k x xs, v => by
    have Hx := countNP_opsOf ctx h160 x false
    have Hl := countNP_opsRest ctx h160 xs
    cases v <;> simp [opsOf, info, Op.nonPush, Hx, Hl, foldl_static] <;> omega
theorem countNP_opsRest (ctx : Ctx) (h160 : Bytes → Bytes) :
    ∀ (l : MsL), countNP (opsRest ctx h160 l) = ((infoL ctx l).map fun i => i.staticOps + 1).sum
  | .nil => by simp [opsRest, infoL]
  | .cons x xs => by
    simp [opsRest, infoL, Op.nonPush, countNP_opsOf ctx h160 x false, countNP_opsRest ctx h160 xs]
    omega
end

end Btc.Miniscript
