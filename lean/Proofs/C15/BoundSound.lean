import Proofs.C15.SatSound
import Proofs.C15.Quorum
import Model.C15.Bounds
/-!
C15 — soundness of the static witness bounds for the satisfier: what `satisfy` returns has at most
`max_stack_items` elements and `max_witness_size` bytes (covered fragment set).
-/
namespace Btc.Miniscript
open Btc Gen.Miniscript

/-- the bytes a witness takes as `_Input.size` and `max_witness_size` count them: each element
    and one byte for its length. -/
def wsum (w : List Bytes) : Nat := (w.map fun e => e.length + 1).sum

@[simp] theorem wsum_nil : wsum [] = 0 := rfl
@[simp] theorem wsum_cons (e : Bytes) (w : List Bytes) : wsum (e :: w) = e.length + 1 + wsum w := by
  simp [wsum]
@[simp] theorem wsum_append (a b : List Bytes) : wsum (a ++ b) = wsum a + wsum b := by
  simp [wsum]

/-- a candidate is one of BIP379's listed (canonical, non-malleable) options. -/
def Input.clean (i : Input) : Bool := !i.malleable && !i.nonCanonical

/-- a candidate stack is measured exactly, and — unless marked malleable or non-canonical — is within
    a byte bound `W` and an element bound `T.net + lv` (`lv`: the values the expression leaves). -/
def Bd (inp : Input) (W : OB) (T : OT) (lv : Int) : Prop :=
  ∀ w, inp.stack = some w → inp.size = wsum w ∧
    (inp.clean = true →
      (∃ b, W = some b ∧ inp.size ≤ b) ∧ (∃ t, T = some t ∧ (w.length : Int) ≤ t.net + lv))

theorem Bd_none (W : OB) (T : OT) (lv : Int) : Bd noWitness W T lv := by
  intro w h; simp [noWitness] at h

theorem better_pick (a b : Input) :
    ∃ c, (c = a ∨ c = b) ∧ (better a b).stack = c.stack ∧ (better a b).size = c.size ∧
      ((better a b).clean = true → c.clean = true) := by
  unfold better
  repeat' split
  all_goals first
    | exact ⟨a, Or.inl rfl, rfl, rfl, id⟩
    | exact ⟨b, Or.inr rfl, rfl, rfl, id⟩
    | exact ⟨a, Or.inl rfl, rfl, rfl, by simp [Input.clean]⟩
    | exact ⟨b, Or.inr rfl, rfl, rfl, by simp [Input.clean]⟩

theorem Bd_better {a b : Input} {W : OB} {T : OT} {lv : Int} (ha : Bd a W T lv) (hb : Bd b W T lv) :
    Bd (better a b) W T lv := by
  obtain ⟨c, hc, hs, hz, hm⟩ := better_pick a b
  intro w hw
  rw [hs] at hw
  rw [hz]
  rcases hc with rfl | rfl
  · exact ⟨(ha w hw).1, fun h => (ha w hw).2 (hm h)⟩
  · exact ⟨(hb w hw).1, fun h => (hb w hw).2 (hm h)⟩

theorem worstO_mono_l (a b : OB) (x : Nat) (h : ∃ v, a = some v ∧ x ≤ v) : ∃ v, worstO a b = some v ∧ x ≤ v := by
  obtain ⟨v, rfl, hv⟩ := h
  cases b with
  | none => exact ⟨v, rfl, hv⟩
  | some u => exact ⟨max v u, rfl, by omega⟩

theorem worstO_mono_r (a b : OB) (x : Nat) (h : ∃ v, b = some v ∧ x ≤ v) : ∃ v, worstO a b = some v ∧ x ≤ v := by
  obtain ⟨v, rfl, hv⟩ := h
  cases a with
  | none => exact ⟨v, rfl, hv⟩
  | some u => exact ⟨max u v, rfl, by omega⟩

theorem unionT_mono_l (a b : OT) (x : Int) (h : ∃ t, a = some t ∧ x ≤ t.net) : ∃ t, unionT a b = some t ∧ x ≤ t.net := by
  obtain ⟨t, rfl, ht⟩ := h
  cases b with
  | none => exact ⟨t, rfl, ht⟩
  | some u => exact ⟨_, rfl, by simp; omega⟩

theorem unionT_mono_r (a b : OT) (x : Int) (h : ∃ t, b = some t ∧ x ≤ t.net) : ∃ t, unionT a b = some t ∧ x ≤ t.net := by
  obtain ⟨t, rfl, ht⟩ := h
  cases a with
  | none => exact ⟨t, rfl, ht⟩
  | some u => exact ⟨_, rfl, by simp; omega⟩

/-- weakening the bounds. -/
theorem Bd_weaken {inp : Input} {W W' : OB} {T T' : OT} {lv : Int} (h : Bd inp W T lv)
    (hW : ∀ x, (∃ v, W = some v ∧ x ≤ v) → ∃ v, W' = some v ∧ x ≤ v)
    (hT : ∀ x, (∃ t, T = some t ∧ x ≤ t.net) → ∃ t, T' = some t ∧ x ≤ t.net) : Bd inp W' T' lv := by
  intro w hw
  obtain ⟨h1, h2⟩ := h w hw
  refine ⟨h1, fun hm => ?_⟩
  obtain ⟨hb, ⟨t, ht, hl⟩⟩ := h2 hm
  refine ⟨hW _ hb, ?_⟩
  obtain ⟨t', ht', hl'⟩ := hT ((w.length : Int) - lv) ⟨t, ht, by omega⟩
  exact ⟨t', ht', by omega⟩

/-- two candidates put together: bytes add, and the element bound is whatever trace `T` the
    fragment's table gives as long as it dominates the two (`hT`). -/
theorem Bd_both {a b : Input} {Wa Wb : OB} {Ta Tb T : OT} {la lb lv : Int}
    (ha : Bd a Wa Ta la) (hb : Bd b Wb Tb lb)
    (hT : ∀ ta tb, Ta = some ta → Tb = some tb → ∃ t, T = some t ∧ ta.net + la + (tb.net + lb) ≤ t.net + lv) :
    Bd (both a b) (addO Wa Wb) T lv := by
  intro w hw
  obtain ⟨s, t, hs, ht, rfl⟩ := both_some hw
  obtain ⟨ha1, ha2⟩ := ha s hs
  obtain ⟨hb1, hb2⟩ := hb t ht
  have hsz : (both a b).size = a.size + b.size := by simp [both, hs, ht]
  have hml : (both a b).clean = (a.clean && b.clean) := by
    simp [both, hs, ht, Input.clean]
    cases a.malleable <;> cases a.nonCanonical <;> cases b.malleable <;> cases b.nonCanonical <;> rfl
  refine ⟨by rw [hsz, ha1, hb1, wsum_append], fun hm => ?_⟩
  rw [hml, Bool.and_eq_true] at hm
  obtain ⟨⟨ba, hWa, hba⟩, ⟨ta, hTa, hla⟩⟩ := ha2 hm.1
  obtain ⟨⟨bb, hWb, hbb⟩, ⟨tb, hTb, hlb⟩⟩ := hb2 hm.2
  refine ⟨⟨ba + bb, by simp [hWa, hWb, addO], by rw [hsz]; omega⟩, ?_⟩
  obtain ⟨tt, htt, hle⟩ := hT ta tb hTa hTb
  refine ⟨tt, htt, ?_⟩
  simp only [List.length_append, Int.natCast_add]
  omega

/-- the general form: any bounds that dominate the two parts'. -/
theorem Bd_both' {a b : Input} {Wa Wb W : OB} {Ta Tb T : OT} {la lb lv : Int}
    (ha : Bd a Wa Ta la) (hb : Bd b Wb Tb lb)
    (hW : ∀ ba bb, Wa = some ba → Wb = some bb → ∃ v, W = some v ∧ ba + bb ≤ v)
    (hT : ∀ ta tb, Ta = some ta → Tb = some tb → ∃ t, T = some t ∧ ta.net + la + (tb.net + lb) ≤ t.net + lv) :
    Bd (both a b) W T lv := by
  have h := Bd_both (lv := lv) ha hb hT
  intro w hw
  obtain ⟨h1, h2⟩ := h w hw
  refine ⟨h1, fun hc => ?_⟩
  obtain ⟨⟨v, hv, hle⟩, ht⟩ := h2 hc
  refine ⟨?_, ht⟩
  cases hWa : Wa with
  | none => simp [hWa, addO] at hv
  | some ba =>
    cases hWb : Wb with
    | none => simp [hWa, hWb, addO] at hv
    | some bb =>
      simp [hWa, hWb, addO] at hv
      obtain ⟨v', hv', hle'⟩ := hW ba bb hWa hWb
      exact ⟨v', hv', by omega⟩

/-- a change of bounds that dominates the old ones (the element bound may trade trace for `lv`). -/
theorem Bd_map {inp : Input} {W W' : OB} {T T' : OT} {lv lv' : Int} (h : Bd inp W T lv)
    (hW : ∀ b, W = some b → ∃ v, W' = some v ∧ b ≤ v)
    (hT : ∀ t, T = some t → ∃ t', T' = some t' ∧ t.net + lv ≤ t'.net + lv') : Bd inp W' T' lv' := by
  intro w hw
  obtain ⟨h1, h2⟩ := h w hw
  refine ⟨h1, fun hc => ?_⟩
  obtain ⟨⟨b, hb, hle⟩, ⟨t, ht, hl⟩⟩ := h2 hc
  obtain ⟨v, hv, hbv⟩ := hW b hb
  obtain ⟨t', ht', hl'⟩ := hT t ht
  exact ⟨⟨v, hv, by omega⟩, ⟨t', ht', by omega⟩⟩

def SizeExact (inp : Input) : Prop := ∀ w, inp.stack = some w → inp.size = wsum w

theorem SizeExact_both {a b : Input} (ha : SizeExact a) (hb : SizeExact b) : SizeExact (both a b) := by
  intro w hw
  obtain ⟨s, t, hs, ht, rfl⟩ := both_some hw
  simp [both, hs, ht, ha s hs, hb t ht]

theorem SizeExact_better {a b : Input} (ha : SizeExact a) (hb : SizeExact b) : SizeExact (better a b) := by
  obtain ⟨c, hc, hs, hz, _⟩ := better_pick a b
  intro w hw
  rw [hs] at hw; rw [hz]
  rcases hc with rfl | rfl
  · exact ha w hw
  · exact hb w hw

theorem Bd_unclean {inp : Input} (W : OB) (T : OT) (lv : Int) (hm : inp.clean = false)
    (hs : ∀ w, inp.stack = some w → inp.size = wsum w) : Bd inp W T lv := by
  intro w hw
  exact ⟨hs w hw, fun h => by simp [hm] at h⟩

/-- the size of any candidate is exact, whatever the bounds. -/
theorem Bd_size {inp : Input} {W : OB} {T : OT} {lv : Int} (h : Bd inp W T lv) :
    ∀ w, inp.stack = some w → inp.size = wsum w := fun w hw => (h w hw).1

theorem Bd_intro {inp : Input} {W : OB} {T : OT} {lv : Int} (w0 : List Bytes)
    (hst : inp.stack = some w0) (hsz : inp.size = wsum w0)
    (hb : (∃ b, W = some b ∧ wsum w0 ≤ b) ∧ (∃ t, T = some t ∧ (w0.length : Int) ≤ t.net + lv)) :
    Bd inp W T lv := by
  intro w hw
  rw [hst] at hw; cases hw
  exact ⟨hsz, fun _ => by rw [hsz]; exact hb⟩

theorem addO_comm (a b : OB) : addO a b = addO b a := by
  cases a <;> cases b <;> simp [addO, Nat.add_comm]

/-- the values an expression leaves on the stack: a key over a signature for "K", one for "B" and
    "W", none for "V". -/
def lvOf (p : Props) : Int := if p.K then 2 else if p.B || p.W then 1 else 0

theorem lvOf_B {p : Props} (h : p.basicCount = 1) (hB : p.B = true) : lvOf p = 1 := by
  have := ((basic_excl p h).1 hB).2.1; simp [lvOf, this, hB]
theorem lvOf_V {p : Props} (h : p.basicCount = 1) (hV : p.V = true) : lvOf p = 0 := by
  obtain ⟨h1, h2, h3⟩ := (basic_excl p h).2.1 hV; simp [lvOf, h1, h2, h3]
theorem lvOf_K {p : Props} (hK : p.K = true) : lvOf p = 2 := by simp [lvOf, hK]
theorem lvOf_W {p : Props} (h : p.basicCount = 1) (hW : p.W = true) : lvOf p = 1 := by
  have := ((basic_excl p h).2.2.2 hW).2.2; simp [lvOf, this, hW]

section
variable (ctx : Ctx) (env : SatEnv)

/-- both candidates of a node are within the node's static bounds. -/
def BdN (n : Ms) : Prop :=
  Bd (inputs ctx env n).sat (info ctx n).witness.sat (info ctx n).stack.1 (lvOf (typeOf ctx n)) ∧
  Bd (inputs ctx env n).dsat (info ctx n).witness.dsat (info ctx n).stack.2 (lvOf (typeOf ctx n))

theorem bd_f0 : BdN ctx env .f0 := by
  have hl : lvOf (typeOf ctx .f0) = 1 := rfl
  refine ⟨by simpa [inputs] using Bd_none _ _ _, ?_⟩
  rw [hl]
  exact Bd_intro [] rfl rfl ⟨⟨0, rfl, by simp⟩, ⟨⟨-1, 0⟩, rfl, by simp⟩⟩

theorem bd_f1 : BdN ctx env .f1 := by
  have hl : lvOf (typeOf ctx .f1) = 1 := rfl
  refine ⟨?_, by simpa [inputs] using Bd_none _ _ _⟩
  rw [hl]
  exact Bd_intro [] rfl rfl ⟨⟨0, rfl, by simp⟩, ⟨⟨-1, 0⟩, rfl, by simp⟩⟩

theorem bd_pk_k (hS : SigsSmall ctx env) (k : Key) : BdN ctx env (.pk_k k) := by
  have hl : lvOf (typeOf ctx (.pk_k k)) = 2 := rfl
  unfold BdN
  rw [hl]
  constructor
  · simp only [inputs, keyInput, sigInput, Bool.not_false, if_true]
    cases ho : offered ctx env k with
    | none => exact Bd_none _ _ _
    | some σ =>
      refine Bd_intro [σ] rfl (by simp [element]) ⟨⟨1 + sigSize ctx, by simp [info], ?_⟩, ⟨⟨-1, 0⟩, by simp [info, tPUSH], by simp⟩⟩
      have := hS k σ ho
      simp; omega
  · simp only [inputs, keyInput, Bool.not_false, if_true]
    exact Bd_intro [[]] rfl (by simp [zeroPush, element]) ⟨⟨1, by simp [info], by simp⟩, ⟨⟨-1, 0⟩, by simp [info, tPUSH], by simp⟩⟩

theorem bd_older (n : Nat) : BdN ctx env (.older n) := by
  obtain ⟨ht, hB, _⟩ := ty_older ctx n
  unfold BdN
  rw [lvOf_B ht hB]
  constructor
  · simp only [inputs]
    split
    · exact Bd_intro [] rfl rfl ⟨⟨0, by simp [info, leafOpsRow], by simp⟩, ⟨_, rfl, by simp [info, concatT, tPUSH, tNOP]⟩⟩
    · exact Bd_none _ _ _
  · simpa [inputs] using Bd_none _ _ _

theorem bd_after (n : Nat) : BdN ctx env (.after n) := by
  obtain ⟨ht, hB, _⟩ := ty_after ctx n
  unfold BdN
  rw [lvOf_B ht hB]
  constructor
  · simp only [inputs]
    split
    · exact Bd_intro [] rfl rfl ⟨⟨0, by simp [info, leafOpsRow], by simp⟩, ⟨_, rfl, by simp [info, concatT, tPUSH, tNOP]⟩⟩
    · exact Bd_none _ _ _
  · simpa [inputs] using Bd_none _ _ _

theorem SizeExact_of_Bd {inp : Input} {W : OB} {T : OT} {lv : Int} (h : Bd inp W T lv) :
    SizeExact inp := fun w hw => (h w hw).1

theorem bd_pk_h (hS : SigsSmall ctx env) (k : Key) (hk : k.length = keySize ctx) :
    BdN ctx env (.pk_h k) := by
  have hl : lvOf (typeOf ctx (.pk_h k)) = 2 := rfl
  unfold BdN
  rw [hl]
  constructor
  · simp only [inputs, keyInput, sigInput, Bool.not_true, Bool.false_eq_true, if_false]
    cases ho : offered ctx env k with
    | none => simpa [both, noWitness] using Bd_none _ _ _
    | some σ =>
      refine Bd_intro [σ, k] (by simp [both, element]) (by simp [both, element])
        ⟨⟨1 + sigSize ctx + (1 + keySize ctx), by simp [info], ?_⟩,
         ⟨_, rfl, by simp [info, concatT, tPUSH, tNOP, tEQUALVERIFY]⟩⟩
      have := hS k σ ho
      simp [hk]; omega
  · simp only [inputs, keyInput, Bool.not_true, Bool.false_eq_true, if_false]
    exact Bd_intro [[], k] (by simp [both, zeroPush, element]) (by simp [both, zeroPush, element])
      ⟨⟨1 + (1 + keySize ctx), by simp [info], by simp [hk]; omega⟩,
       ⟨_, rfl, by simp [info, concatT, tPUSH, tNOP, tEQUALVERIFY]⟩⟩

theorem bd_hash (h : HashKind) (d : Bytes) : BdN ctx env (.hash h d) := by
  have hl : lvOf (typeOf ctx (.hash h d)) = 1 := rfl
  unfold BdN
  rw [hl]
  constructor
  · simp only [inputs]
    cases hp : preimageOf env h d with
    | none => exact Bd_none _ _ _
    | some p =>
      have := preimageOf_len hp
      exact Bd_intro [p] rfl (by simp [element])
        ⟨⟨1 + 32, by simp [info], by simp [this]⟩,
         ⟨_, rfl, by simp [info, hashTrace, concatT, tPUSH, tNOP, tEQUALVERIFY, tONEARG]⟩⟩
  · simp only [inputs]
    exact Bd_unclean _ _ _ (by simp [zero32Push, Input.clean]) (by intro w hw; simp [zero32Push] at hw ⊢; subst hw; simp)

theorem bd_wrap (w : Wrap) (x : Ms) (hw : w = .c ∨ w = .v ∨ w = .a ∨ w = .n ∨ w = .s ∨ w = .d ∨ w = .j)
    (ht : Typed ctx (.wrap w x)) (hx : Typed ctx x) (ih : BdN ctx env x) :
    BdN ctx env (.wrap w x) := by
  unfold BdN at *
  rcases hw with rfl | rfl | rfl | rfl | rfl | rfl | rfl
  · obtain ⟨hK, hB, _⟩ := ty_c ctx x ht
    rw [lvOf_K hK] at ih; rw [lvOf_B ht hB]
    constructor
    · refine Bd_map ih.1 (fun b hb => ⟨b, by simpa [info] using hb, Nat.le_refl _⟩) ?_
      intro t h; simp [info, h, concatT, tONEARG]; omega
    · refine Bd_map ih.2 (fun b hb => ⟨b, by simpa [info] using hb, Nat.le_refl _⟩) ?_
      intro t h; simp [info, h, concatT, tONEARG]; omega
  · obtain ⟨hB, hV⟩ := ty_v ctx x ht
    rw [lvOf_B hx hB] at ih; rw [lvOf_V ht hV]
    constructor
    · refine Bd_map ih.1 (fun b hb => ⟨b, by simpa [info] using hb, Nat.le_refl _⟩) ?_
      intro t h; simp [info, h, concatT, tONEARG]
    · simpa [inputs, wrapperInput] using Bd_none _ _ _
  · obtain ⟨hB, hW⟩ := ty_a ctx x ht
    rw [lvOf_B hx hB] at ih; rw [lvOf_W ht hW]
    exact ⟨Bd_map ih.1 (fun b hb => ⟨b, by simpa [info] using hb, Nat.le_refl _⟩)
        (fun t h => ⟨t, by simpa [info] using h, Int.le_refl _⟩),
      Bd_map ih.2 (fun b hb => ⟨b, by simpa [info] using hb, Nat.le_refl _⟩)
        (fun t h => ⟨t, by simpa [info] using h, Int.le_refl _⟩)⟩
  · obtain ⟨hB, tB, _⟩ := ty_n ctx x ht
    rw [lvOf_B hx hB] at ih; rw [lvOf_B ht tB]
    exact ⟨Bd_map ih.1 (fun b hb => ⟨b, by simpa [info] using hb, Nat.le_refl _⟩)
        (fun t h => ⟨t, by simpa [info] using h, Int.le_refl _⟩),
      Bd_map ih.2 (fun b hb => ⟨b, by simpa [info] using hb, Nat.le_refl _⟩)
        (fun t h => ⟨t, by simpa [info] using h, Int.le_refl _⟩)⟩
  · obtain ⟨hB, _, hW⟩ := ty_s ctx x ht
    rw [lvOf_B hx hB] at ih; rw [lvOf_W ht hW]
    exact ⟨Bd_map ih.1 (fun b hb => ⟨b, by simpa [info] using hb, Nat.le_refl _⟩)
        (fun t h => ⟨t, by simpa [info] using h, Int.le_refl _⟩),
      Bd_map ih.2 (fun b hb => ⟨b, by simpa [info] using hb, Nat.le_refl _⟩)
        (fun t h => ⟨t, by simpa [info] using h, Int.le_refl _⟩)⟩
  · obtain ⟨hV, _, tB, _⟩ := ty_d ctx x ht
    rw [lvOf_V hx hV] at ih; rw [lvOf_B ht tB]
    have one : Bd onePush (some 2) (some ⟨0, 0⟩) 1 :=
      Bd_intro [[1]] rfl (by simp [onePush, element]) ⟨⟨2, rfl, by simp⟩, ⟨⟨0, 0⟩, rfl, by simp⟩⟩
    constructor
    · simp only [inputs, wrapperInput]
      refine Bd_both' ih.1 one ?_ ?_
      · intro ba bb h1 h2; cases h2
        exact ⟨2 + ba, by simp [info, h1, addO], by omega⟩
      · intro ta tb h1 h2; cases h2
        simp [info, h1, concatT, tPUSH, tIF]
    · simp only [inputs, wrapperInput]
      exact Bd_intro [[]] rfl (by simp [zeroPush, element])
        ⟨⟨1, by simp [info], by simp⟩, ⟨_, rfl, by simp [info, concatT, tPUSH, tIF]⟩⟩
  · obtain ⟨hB, _, tB, _⟩ := ty_j ctx x ht
    rw [lvOf_B hx hB] at ih; rw [lvOf_B ht tB]
    constructor
    · refine Bd_map ih.1 (fun b hb => ⟨b, by simpa [info] using hb, Nat.le_refl _⟩) ?_
      intro t h; simp [info, h, concatT, tPUSH, tNOP, tIF]
    · simp only [inputs, wrapperInput]
      exact Bd_intro [[]] rfl (by simp [zeroPush, element])
        ⟨⟨1, by simp [info], by simp⟩, ⟨_, rfl, by simp [info, concatT, tPUSH, tNOP, tIF]⟩⟩

theorem Bd_one : Bd onePush (some 2) (some ⟨0, 0⟩) 1 :=
  Bd_intro [[1]] rfl (by simp [onePush, element]) ⟨⟨2, rfl, by simp⟩, ⟨⟨0, 0⟩, rfl, by simp⟩⟩
theorem Bd_zero : Bd zeroPush (some 1) (some ⟨0, 0⟩) 1 :=
  Bd_intro [[]] rfl (by simp [zeroPush, element]) ⟨⟨1, rfl, by simp⟩, ⟨⟨0, 0⟩, rfl, by simp⟩⟩

theorem SizeExact_oc {i : Input} (h : SizeExact i) : SizeExact (overcomplete i) := h
theorem SizeExact_nc {i : Input} (h : SizeExact i) : SizeExact (nonCanon i) := h

theorem bd_and_v (x y : Ms) (ht : Typed ctx (.bin .and_v x y)) (hx : Typed ctx x) (hy : Typed ctx y)
    (ix : BdN ctx env x) (iy : BdN ctx env y) : BdN ctx env (.bin .and_v x y) := by
  obtain ⟨hV, eB, eV, eK, _, eW⟩ := ty_and_v ctx x y ht
  have lx := lvOf_V hx hV
  have lv : lvOf (typeOf ctx (.bin .and_v x y)) = lvOf (typeOf ctx y) := by
    have hyW : (typeOf ctx y).W = false := by
      unfold Typed Props.basicCount at ht hy
      rw [eB, eV, eK, eW] at ht
      cases h : (typeOf ctx y).W <;> simp_all
    simp [lvOf, eB, eK, eW, hyW]
  unfold BdN at *
  rw [lx] at ix; rw [lv]
  constructor
  · simp only [inputs, binInput]
    refine Bd_both' iy.1 ix.1 ?_ ?_
    · intro ba bb h1 h2; exact ⟨bb + ba, by simp [info, h1, h2, addO], by omega⟩
    · intro ta tb h1 h2; simp [info, h1, h2, concatT]; omega
  · simp only [inputs, binInput]
    exact Bd_unclean _ _ _ (by simp [nonCanon, Input.clean])
      (SizeExact_nc (SizeExact_both (SizeExact_of_Bd iy.2) (SizeExact_of_Bd ix.1)))

theorem bd_and_b (x y : Ms) (ht : Typed ctx (.bin .and_b x y)) (hx : Typed ctx x) (hy : Typed ctx y)
    (ix : BdN ctx env x) (iy : BdN ctx env y) : BdN ctx env (.bin .and_b x y) := by
  obtain ⟨hB, hW, tB, _⟩ := ty_and_b ctx x y ht
  unfold BdN at *
  rw [lvOf_B hx hB] at ix; rw [lvOf_W hy hW] at iy; rw [lvOf_B ht tB]
  constructor
  · simp only [inputs, binInput]
    refine Bd_both' iy.1 ix.1 ?_ ?_
    · intro ba bb h1 h2; exact ⟨bb + ba, by simp [info, h1, h2, addO], by omega⟩
    · intro ta tb h1 h2; simp [info, h1, h2, concatT, tBINARY]; omega
  · simp only [inputs, binInput]
    refine Bd_better (Bd_both' iy.2 ix.2 ?_ ?_) (Bd_better ?_ ?_)
    · intro ba bb h1 h2; exact ⟨bb + ba, by simp [info, h1, h2, addO], by omega⟩
    · intro ta tb h1 h2; simp [info, h1, h2, concatT, tBINARY]; omega
    · exact Bd_unclean _ _ _ (by simp [overcomplete, Input.clean])
        (SizeExact_oc (SizeExact_both (SizeExact_of_Bd iy.1) (SizeExact_of_Bd ix.2)))
    · exact Bd_unclean _ _ _ (by simp [overcomplete, Input.clean])
        (SizeExact_oc (SizeExact_both (SizeExact_of_Bd iy.2) (SizeExact_of_Bd ix.1)))

theorem bd_or_b (x y : Ms) (ht : Typed ctx (.bin .or_b x y)) (hx : Typed ctx x) (hy : Typed ctx y)
    (ix : BdN ctx env x) (iy : BdN ctx env y) : BdN ctx env (.bin .or_b x y) := by
  obtain ⟨hB, hW, tB, _⟩ := ty_or_b ctx x y ht
  unfold BdN at *
  rw [lvOf_B hx hB] at ix; rw [lvOf_W hy hW] at iy; rw [lvOf_B ht tB]
  constructor
  · simp only [inputs, binInput]
    refine Bd_better (Bd_better (Bd_both' iy.2 ix.1 ?_ ?_) (Bd_both' iy.1 ix.2 ?_ ?_)) ?_
    · intro ba bb h1 h2
      rcases hA : (info ctx x).witness.dsat with _ | a <;> rcases hB' : (info ctx y).witness.sat with _ | b <;>
        simp [info, h1, h2, hA, hB', worstO, addO] <;> omega
    · intro ta tb h1 h2
      rcases hA : (info ctx x).stack.2 with _ | a <;> rcases hB' : (info ctx y).stack.1 with _ | b <;>
        simp [info, h1, h2, hA, hB', concatT, unionT, tBINARY] <;> omega
    · intro ba bb h1 h2
      rcases hA : (info ctx x).witness.sat with _ | a <;> rcases hB' : (info ctx y).witness.dsat with _ | b <;>
        simp [info, h1, h2, hA, hB', worstO, addO] <;> omega
    · intro ta tb h1 h2
      rcases hA : (info ctx x).stack.1 with _ | a <;> rcases hB' : (info ctx y).stack.2 with _ | b <;>
        simp [info, h1, h2, hA, hB', concatT, unionT, tBINARY] <;> omega
    · exact Bd_unclean _ _ _ (by simp [overcomplete, Input.clean])
        (SizeExact_oc (SizeExact_both (SizeExact_of_Bd iy.1) (SizeExact_of_Bd ix.1)))
  · simp only [inputs, binInput]
    refine Bd_both' iy.2 ix.2 ?_ ?_
    · intro ba bb h1 h2; exact ⟨bb + ba, by simp [info, h1, h2, addO], by omega⟩
    · intro ta tb h1 h2; simp [info, h1, h2, concatT, tBINARY]; omega

theorem bd_or_c (x y : Ms) (ht : Typed ctx (.bin .or_c x y)) (hx : Typed ctx x) (hy : Typed ctx y)
    (ix : BdN ctx env x) (iy : BdN ctx env y) : BdN ctx env (.bin .or_c x y) := by
  obtain ⟨hB, hV, tV⟩ := ty_or_c ctx x y ht
  unfold BdN at *
  rw [lvOf_B hx hB] at ix; rw [lvOf_V hy hV] at iy; rw [lvOf_V ht tV]
  constructor
  · simp only [inputs, binInput]
    refine Bd_better (Bd_map ix.1 ?_ ?_) (Bd_both' iy.1 ix.2 ?_ ?_)
    · intro b h1
      rcases hA : (info ctx x).witness.dsat with _ | a <;> rcases hB' : (info ctx y).witness.sat with _ | c <;>
        simp [info, h1, hA, hB', worstO, addO] <;> omega
    · intro t h1
      rcases hA : (info ctx x).stack.2 with _ | a <;> rcases hB' : (info ctx y).stack.1 with _ | c <;>
        simp [info, h1, hA, hB', concatT, unionT, tIF] <;> omega
    · intro ba bb h1 h2
      rcases hA : (info ctx x).witness.sat with _ | a <;>
        simp [info, h1, h2, hA, worstO, addO] <;> omega
    · intro ta tb h1 h2
      rcases hA : (info ctx x).stack.1 with _ | a <;>
        simp [info, h1, h2, hA, concatT, unionT, tIF] <;> omega
  · simpa [inputs, binInput] using Bd_none _ _ _

theorem bd_or_d (x y : Ms) (ht : Typed ctx (.bin .or_d x y)) (hx : Typed ctx x) (hy : Typed ctx y)
    (ix : BdN ctx env x) (iy : BdN ctx env y) : BdN ctx env (.bin .or_d x y) := by
  obtain ⟨hB, hB', tB, _⟩ := ty_or_d ctx x y ht
  unfold BdN at *
  rw [lvOf_B hx hB] at ix; rw [lvOf_B hy hB'] at iy; rw [lvOf_B ht tB]
  constructor
  · simp only [inputs, binInput]
    refine Bd_better (Bd_map ix.1 ?_ ?_) (Bd_both' iy.1 ix.2 ?_ ?_)
    · intro b h1
      rcases hA : (info ctx x).witness.dsat with _ | a <;> rcases hC : (info ctx y).witness.sat with _ | c <;>
        simp [info, h1, hA, hC, worstO, addO] <;> omega
    · intro t h1
      rcases hA : (info ctx x).stack.2 with _ | a <;> rcases hC : (info ctx y).stack.1 with _ | c <;>
        simp [info, h1, hA, hC, concatT, unionT, tIF, tPUSH, tEMPTY] <;> omega
    · intro ba bb h1 h2
      rcases hA : (info ctx x).witness.sat with _ | a <;>
        simp [info, h1, h2, hA, worstO, addO] <;> omega
    · intro ta tb h1 h2
      rcases hA : (info ctx x).stack.1 with _ | a <;>
        simp [info, h1, h2, hA, concatT, unionT, tIF, tPUSH, tEMPTY] <;> omega
  · simp only [inputs, binInput]
    refine Bd_both' iy.2 ix.2 ?_ ?_
    · intro ba bb h1 h2; exact ⟨bb + ba, by simp [info, h1, h2, addO], by omega⟩
    · intro ta tb h1 h2; simp [info, h1, h2, concatT, tIF, tEMPTY]; omega

theorem lv_or_i (x y : Ms) (ht : Typed ctx (.bin .or_i x y)) (hx : Typed ctx x) (hy : Typed ctx y) :
    lvOf (typeOf ctx (.bin .or_i x y)) = lvOf (typeOf ctx x) ∧
    lvOf (typeOf ctx (.bin .or_i x y)) = lvOf (typeOf ctx y) := by
  obtain ⟨eB, eV, eK, eW, _⟩ := ty_or_i ctx x y ht
  have h3 : (typeOf ctx (.bin .or_i x y)).B = true ∨ (typeOf ctx (.bin .or_i x y)).V = true ∨
      (typeOf ctx (.bin .or_i x y)).K = true := by
    have := ht
    unfold Typed Props.basicCount at this
    rw [eW] at this
    cases hb : (typeOf ctx (.bin .or_i x y)).B <;> cases hv : (typeOf ctx (.bin .or_i x y)).V <;>
      cases hk : (typeOf ctx (.bin .or_i x y)).K <;> simp_all
  rcases h3 with h | h | h
  · have h' := h; rw [eB, Bool.and_eq_true] at h'
    rw [lvOf_B ht h, lvOf_B hx h'.1, lvOf_B hy h'.2]; exact ⟨rfl, rfl⟩
  · have h' := h; rw [eV, Bool.and_eq_true] at h'
    rw [lvOf_V ht h, lvOf_V hx h'.1, lvOf_V hy h'.2]; exact ⟨rfl, rfl⟩
  · have h' := h; rw [eK, Bool.and_eq_true] at h'
    rw [lvOf_K h, lvOf_K h'.1, lvOf_K h'.2]; exact ⟨rfl, rfl⟩

theorem bd_or_i (x y : Ms) (ht : Typed ctx (.bin .or_i x y)) (hx : Typed ctx x) (hy : Typed ctx y)
    (ix : BdN ctx env x) (iy : BdN ctx env y) : BdN ctx env (.bin .or_i x y) := by
  obtain ⟨l1, l2⟩ := lv_or_i ctx x y ht hx hy
  unfold BdN at *
  rw [← l1] at ix; rw [← l2] at iy
  constructor
  · simp only [inputs, binInput]
    refine Bd_better (Bd_both' ix.1 Bd_one ?_ ?_) (Bd_both' iy.1 Bd_zero ?_ ?_)
    · intro ba bb h1 h2; cases h2
      rcases hA : (info ctx y).witness.sat with _ | a <;> simp [info, h1, hA, worstO, addO] <;> omega
    · intro ta tb h1 h2; cases h2
      rcases hA : (info ctx y).stack.1 with _ | a <;> simp [info, h1, hA, concatT, unionT, tIF] <;> omega
    · intro ba bb h1 h2; cases h2
      rcases hA : (info ctx x).witness.sat with _ | a <;> simp [info, h1, hA, worstO, addO] <;> omega
    · intro ta tb h1 h2; cases h2
      rcases hA : (info ctx x).stack.1 with _ | a <;> simp [info, h1, hA, concatT, unionT, tIF] <;> omega
  · simp only [inputs, binInput]
    refine Bd_better (Bd_both' ix.2 Bd_one ?_ ?_) (Bd_both' iy.2 Bd_zero ?_ ?_)
    · intro ba bb h1 h2; cases h2
      rcases hA : (info ctx y).witness.dsat with _ | a <;> simp [info, h1, hA, worstO, addO] <;> omega
    · intro ta tb h1 h2; cases h2
      rcases hA : (info ctx y).stack.2 with _ | a <;> simp [info, h1, hA, concatT, unionT, tIF] <;> omega
    · intro ba bb h1 h2; cases h2
      rcases hA : (info ctx x).witness.dsat with _ | a <;> simp [info, h1, hA, worstO, addO] <;> omega
    · intro ta tb h1 h2; cases h2
      rcases hA : (info ctx x).stack.2 with _ | a <;> simp [info, h1, hA, concatT, unionT, tIF] <;> omega

theorem lv_andor (x y z : Ms) (ht : Typed ctx (.andor x y z)) (hy : Typed ctx y) (hz : Typed ctx z) :
    lvOf (typeOf ctx (.andor x y z)) = lvOf (typeOf ctx y) ∧
    lvOf (typeOf ctx (.andor x y z)) = lvOf (typeOf ctx z) := by
  obtain ⟨_, eB, eV, eK, eW, _⟩ := ty_andor ctx x y z ht
  have h3 : (typeOf ctx (.andor x y z)).B = true ∨ (typeOf ctx (.andor x y z)).V = true ∨
      (typeOf ctx (.andor x y z)).K = true := by
    have := ht
    unfold Typed Props.basicCount at this
    rw [eW] at this
    cases hb : (typeOf ctx (.andor x y z)).B <;> cases hv : (typeOf ctx (.andor x y z)).V <;>
      cases hk : (typeOf ctx (.andor x y z)).K <;> simp_all
  rcases h3 with h | h | h
  · have h' := h; rw [eB, Bool.and_eq_true] at h'
    rw [lvOf_B ht h, lvOf_B hy h'.1, lvOf_B hz h'.2]; exact ⟨rfl, rfl⟩
  · have h' := h; rw [eV, Bool.and_eq_true] at h'
    rw [lvOf_V ht h, lvOf_V hy h'.1, lvOf_V hz h'.2]; exact ⟨rfl, rfl⟩
  · have h' := h; rw [eK, Bool.and_eq_true] at h'
    rw [lvOf_K h, lvOf_K h'.1, lvOf_K h'.2]; exact ⟨rfl, rfl⟩

theorem bd_andor (x y z : Ms) (ht : Typed ctx (.andor x y z)) (hx : Typed ctx x) (hy : Typed ctx y)
    (hz : Typed ctx z) (ix : BdN ctx env x) (iy : BdN ctx env y) (iz : BdN ctx env z) :
    BdN ctx env (.andor x y z) := by
  obtain ⟨l1, l2⟩ := lv_andor ctx x y z ht hy hz
  obtain ⟨hB, _⟩ := ty_andor ctx x y z ht
  unfold BdN at *
  rw [lvOf_B hx hB] at ix; rw [← l1] at iy; rw [← l2] at iz
  constructor
  · simp only [inputs, andorInput]
    refine Bd_better (Bd_both' iy.1 ix.1 ?_ ?_) (Bd_both' iz.1 ix.2 ?_ ?_)
    · intro ba bb h1 h2
      rcases hA : (info ctx x).witness.dsat with _ | a <;> rcases hC : (info ctx z).witness.sat with _ | c <;>
        simp [info, h1, h2, hA, hC, worstO, addO] <;> omega
    · intro ta tb h1 h2
      rcases hA : (info ctx x).stack.2 with _ | a <;> rcases hC : (info ctx z).stack.1 with _ | c <;>
        simp [info, h1, h2, hA, hC, concatT, unionT, tIF] <;> omega
    · intro ba bb h1 h2
      rcases hA : (info ctx x).witness.sat with _ | a <;> rcases hC : (info ctx y).witness.sat with _ | c <;>
        simp [info, h1, h2, hA, hC, worstO, addO] <;> omega
    · intro ta tb h1 h2
      rcases hA : (info ctx x).stack.1 with _ | a <;> rcases hC : (info ctx y).stack.1 with _ | c <;>
        simp [info, h1, h2, hA, hC, concatT, unionT, tIF] <;> omega
  · simp only [inputs, andorInput]
    refine Bd_better ?_ (Bd_both' iz.2 ix.2 ?_ ?_)
    · exact Bd_unclean _ _ _ (by simp [nonCanon, Input.clean])
        (SizeExact_nc (SizeExact_both (SizeExact_of_Bd iy.2) (SizeExact_of_Bd ix.1)))
    · intro ba bb h1 h2; exact ⟨bb + ba, by simp [info, h1, h2, addO], by omega⟩
    · intro ta tb h1 h2; simp [info, h1, h2, concatT, tIF]; omega

/-! ### the key quorums: `reached[j]` is measured exactly -/

/-- a candidate whose stack, if any, takes at most `B` bytes and has exactly `L` elements. -/
def Meas (B L : Nat) (i : Input) : Prop :=
  ∀ w, i.stack = some w → i.size = wsum w ∧ wsum w ≤ B ∧ w.length = L

theorem Meas_none (B L : Nat) : Meas B L noWitness := by intro w h; simp [noWitness] at h

theorem Meas_both {a b : Input} {B1 B2 L1 L2 : Nat} (ha : Meas B1 L1 a) (hb : Meas B2 L2 b) :
    Meas (B1 + B2) (L1 + L2) (both a b) := by
  intro w hw
  obtain ⟨s, t, hs, ht, rfl⟩ := both_some hw
  obtain ⟨a1, a2, a3⟩ := ha s hs
  obtain ⟨b1, b2, b3⟩ := hb t ht
  refine ⟨by simp [both, hs, ht, a1, b1], by rw [wsum_append]; omega, by simp [a3, b3]⟩

theorem Meas_better {a b : Input} {B L : Nat} (ha : Meas B L a) (hb : Meas B L b) :
    Meas B L (better a b) := by
  obtain ⟨c, hc, hs, hz, _⟩ := better_pick a b
  intro w hw
  rw [hs] at hw; rw [hz]
  rcases hc with rfl | rfl
  · exact ha w hw
  · exact hb w hw

theorem Meas_mono {i : Input} {B B' L L' : Nat} (h : Meas B L i) (hB : B ≤ B') (hL : L = L') :
    Meas B' L' i := by
  intro w hw
  obtain ⟨h1, h2, h3⟩ := h w hw
  exact ⟨h1, by omega, by omega⟩

theorem Meas_zero : Meas 1 1 zeroPush := by
  intro w h; simp [zeroPush, element] at h; subst h; simp [zeroPush, element]
theorem Meas_noPushes : Meas 0 0 noPushes := by
  intro w h; simp [noPushes] at h; subst h; simp [noPushes]

theorem Meas_sig (hS : SigsSmall ctx env) (k : Key) : Meas (1 + sigSize ctx) 1 (sigInput ctx env k) := by
  unfold sigInput
  cases ho : offered ctx env k with
  | none => exact Meas_none _ _
  | some σ =>
    have := hS k σ ho
    intro w h; simp [element] at h; subst h; simp [element]; omega

/-- from an exact measure to the bound form of the induction. -/
theorem Bd_of_Meas {i : Input} {B L : Nat} {W : OB} {T : OT} {lv : Int} (h : Meas B L i)
    (hW : ∃ b, W = some b ∧ B ≤ b) (hT : ∃ t, T = some t ∧ (L : Int) ≤ t.net + lv) : Bd i W T lv := by
  intro w hw
  obtain ⟨h1, h2, h3⟩ := h w hw
  obtain ⟨b, hb, hle⟩ := hW
  obtain ⟨t, ht, hl⟩ := hT
  exact ⟨h1, fun _ => ⟨⟨b, hb, by omega⟩, ⟨t, ht, by rw [h3]; exact hl⟩⟩⟩

/-- `reached[j]` of a `multi()`: the dummy and `j` signatures. -/
def MultiMeas (j : Nat) (i : Input) : Prop := Meas (1 + j * (1 + sigSize ctx)) (j + 1) i

theorem multiMeas_step (hS : SigsSmall ctx env) (k : Key) (r : List Input)
    (h : AllIdx (MultiMeas ctx) 0 r) :
    AllIdx (MultiMeas ctx) 0 (multiStep noPushes r (sigInput ctx env k)) := by
  have skip : ∀ j i, MultiMeas ctx j i → MultiMeas ctx j (both i noPushes) := fun j i hi =>
    Meas_mono (Meas_both hi Meas_noPushes) (by omega) (by omega)
  have sign : ∀ j i, MultiMeas ctx j i → MultiMeas ctx (j + 1) (both i (sigInput ctx env k)) := by
    intro j i hi
    refine Meas_mono (Meas_both hi (Meas_sig ctx env hS k)) ?_ (by omega)
    rw [Nat.succ_mul]; omega
  exact dpStep_idx (MultiMeas ctx) (MultiMeas ctx) _ _ _ (fun a h => skip 0 a h)
    (fun i p c hp hc => Meas_better (skip (i + 1) c hc) (sign i p hp)) (fun i l h => sign i l h) r h

theorem multiDsat_meas : ∀ k, Meas (k + 1) (k + 1) (multiDsat k)
  | 0 => Meas_zero
  | k + 1 => Meas_both (multiDsat_meas k) Meas_zero

theorem bd_multi (hS : SigsSmall ctx env) (k : Nat) (keys : List Key) : BdN ctx env (.multi k keys) := by
  have hl : lvOf (typeOf ctx (.multi k keys)) = 1 := rfl
  have hall : ∀ (ks : List Key) (r : List Input), AllIdx (MultiMeas ctx) 0 r →
      AllIdx (MultiMeas ctx) 0 (ks.foldl (fun r key => multiStep noPushes r (sigInput ctx env key)) r) := by
    intro ks
    induction ks with
    | nil => intro r h; exact h
    | cons key ks ih => intro r h; exact ih _ (multiMeas_step ctx env hS key r h)
  have h0 : AllIdx (MultiMeas ctx) 0 [zeroPush] :=
    ⟨Meas_mono Meas_zero (by omega) (by omega), trivial⟩
  have hk := AllIdx_getD (MultiMeas ctx) noWitness (fun _ => Meas_none _ _) 0 _ k (hall keys _ h0)
  simp only [Nat.zero_add] at hk
  unfold BdN
  rw [hl]
  simp only [inputs, multiInput, Bool.false_eq_true, if_false, info]
  constructor
  · exact Bd_of_Meas hk ⟨_, rfl, by omega⟩ ⟨_, rfl, by simp⟩
  · exact Bd_of_Meas (multiDsat_meas k) ⟨_, rfl, by omega⟩ ⟨_, rfl, by simp⟩

/-- `reached[j]` of a `multi_a()` after `m` keys: `j` signatures and `m - j` empty elements. -/
def MultiAMeas (m j : Nat) (i : Input) : Prop :=
  ∀ w, i.stack = some w →
    j ≤ m ∧ i.size = wsum w ∧ wsum w ≤ j * (1 + sigSize ctx) + (m - j) ∧ w.length = m

theorem multiAMeas_step (hS : SigsSmall ctx env) (k : Key) (m : Nat) (r : List Input)
    (h : AllIdx (MultiAMeas ctx m) 0 r) :
    AllIdx (MultiAMeas ctx (m + 1)) 0 (multiStep zeroPush r (sigInput ctx env k)) := by
  have skip : ∀ j i, MultiAMeas ctx m j i → MultiAMeas ctx (m + 1) j (both i zeroPush) := by
    intro j i hi w hw
    obtain ⟨s, t, hs, ht, rfl⟩ := both_some hw
    obtain ⟨h0, h1, h2, h3⟩ := hi s hs
    obtain ⟨z1, z2, z3⟩ := Meas_zero t ht
    refine ⟨by omega, by simp [both, hs, ht, h1, z1], by rw [wsum_append]; omega, by simp [h3, z3]⟩
  have sign : ∀ j i, MultiAMeas ctx m j i →
      MultiAMeas ctx (m + 1) (j + 1) (both i (sigInput ctx env k)) := by
    intro j i hi w hw
    obtain ⟨s, t, hs, ht, rfl⟩ := both_some hw
    obtain ⟨h0, h1, h2, h3⟩ := hi s hs
    obtain ⟨z1, z2, z3⟩ := Meas_sig ctx env hS k t ht
    refine ⟨by omega, by simp [both, hs, ht, h1, z1], ?_, by simp [h3, z3]⟩
    rw [wsum_append, Nat.succ_mul]; omega
  refine dpStep_idx (MultiAMeas ctx m) (MultiAMeas ctx (m + 1)) _ _ _ (fun a h => skip 0 a h) ?_
    (fun i l h => sign i l h) r h
  intro i p c hp hc w hw
  obtain ⟨d, hd, hs, hz, _⟩ := better_pick (both c zeroPush) (both p (sigInput ctx env k))
  rw [hs] at hw; rw [hz]
  rcases hd with rfl | rfl
  · exact skip (i + 1) c hc w hw
  · exact sign i p hp w hw

theorem bd_multi_a (hS : SigsSmall ctx env) (k : Nat) (keys : List Key) (hk1 : 1 ≤ keys.length) :
    BdN ctx env (.multi_a k keys) := by
  have hl : lvOf (typeOf ctx (.multi_a k keys)) = 1 := rfl
  have hall : ∀ (ks : List Key), AllIdx (MultiAMeas ctx ks.length) 0
      (ks.foldr (fun key r => multiStep zeroPush r (sigInput ctx env key)) [noPushes]) := by
    intro ks
    induction ks with
    | nil =>
      refine ⟨?_, trivial⟩
      intro w h; simp [noPushes] at h; subst h; simp [noPushes]
    | cons key ks ih => exact multiAMeas_step ctx env hS key ks.length _ ih
  have hget := fun j => AllIdx_getD (MultiAMeas ctx keys.length) noWitness
    (fun _ w h => by simp [noWitness] at h) 0 _ j (hall keys)
  unfold BdN
  rw [hl]
  simp only [inputs, multiInput, if_true, info]
  constructor
  · intro w hw
    have := hget k w hw
    simp only [Nat.zero_add] at this
    obtain ⟨h0, h1, h2, h3⟩ := this
    refine ⟨h1, fun _ => ⟨⟨_, rfl, by omega⟩, ⟨_, rfl, ?_⟩⟩⟩
    simp only [h3]; omega
  · intro w hw
    have := hget 0 w hw
    simp only [Nat.zero_add] at this
    obtain ⟨h0, h1, h2, h3⟩ := this
    refine ⟨h1, fun _ => ⟨⟨_, rfl, by omega⟩, ⟨_, rfl, ?_⟩⟩⟩
    simp only [h3]; omega

/-- no `thresh` in the expression. -/
def noThresh : Ms → Bool
  | .thresh _ _ _ => false
  | .wrap _ x => noThresh x
  | .bin _ x y => noThresh x && noThresh y
  | .andor x y z => noThresh x && noThresh y && noThresh z
  | _ => true

theorem typed_of_s1Typed_wrap {w : Wrap} {x : Ms} (h : s1Typed ctx (.wrap w x) = true) :
    Typed ctx (.wrap w x) := by
  simp only [s1Typed, Bool.and_eq_true, decide_eq_true_eq] at h; exact h.1.2

/-- every node of a typed expression of the covered set is typed. -/
theorem typed_of_s1Typed : ∀ (n : Ms), s1Typed ctx n = true → Typed ctx n
  | .f0, _ | .f1, _ | .pk_k _, _ | .pk_h _, _ | .hash _ _, _ => rfl
  | .older n, _ => (ty_older ctx n).1
  | .after n, _ => (ty_after ctx n).1
  | .wrap _ _, h => by simp only [s1Typed, Bool.and_eq_true, decide_eq_true_eq] at h; exact h.1.2
  | .bin _ _ _, h => by simp only [s1Typed, Bool.and_eq_true, decide_eq_true_eq] at h; exact h.1.1.2
  | .andor _ _ _, h => by simp only [s1Typed, Bool.and_eq_true, decide_eq_true_eq] at h; exact h.1.1.1
  | .multi k keys, _ => (ty_multi ctx k keys).1
  | .multi_a k keys, _ => (ty_multi_a ctx k keys).1
  | .thresh _ _ _, h => by
    simp only [s1Typed, Bool.and_eq_true, decide_eq_true_eq] at h; exact h.1.1.1.1.1

/-- the satisfier's candidates are within the static bounds, for the expressions without a
    `thresh` (whose bound soundness is not proved). -/
theorem bd_s1 (hS : SigsSmall ctx env) : ∀ (n : Ms), s1Typed ctx n = true → shaped ctx n = true →
    noThresh n = true → BdN ctx env n
  | .f0, _, _, _ => bd_f0 ctx env
  | .f1, _, _, _ => bd_f1 ctx env
  | .pk_k k, _, _, _ => bd_pk_k ctx env hS k
  | .pk_h k, _, hs, _ => bd_pk_h ctx env hS k (by simpa [shaped] using hs)
  | .hash h d, _, _, _ => bd_hash ctx env h d
  | .older n, _, _, _ => bd_older ctx env n
  | .after n, _, _, _ => bd_after ctx env n
  | .wrap w x, h, hs, hq => by
    simp only [noThresh] at hq
    have ht := typed_of_s1Typed ctx _ h
    simp only [s1Typed, Bool.and_eq_true, Bool.or_eq_true, beq_iff_eq, decide_eq_true_eq] at h
    simp only [shaped] at hs
    refine bd_wrap ctx env w x ?_ ht (typed_of_s1Typed ctx x h.2) (bd_s1 hS x h.2 hs hq)
    rcases h.1.1 with (((((h | h) | h) | h) | h) | h) | h <;> simp [h]
  | .bin b x y, h, hs, hq => by
    simp only [noThresh, Bool.and_eq_true] at hq
    have ht := typed_of_s1Typed ctx _ h
    simp only [s1Typed, Bool.and_eq_true, Bool.or_eq_true, beq_iff_eq, decide_eq_true_eq] at h
    simp only [shaped, Bool.and_eq_true] at hs
    have hx := typed_of_s1Typed ctx x h.1.2
    have hy := typed_of_s1Typed ctx y h.2
    have ix := bd_s1 hS x h.1.2 hs.1 hq.1
    have iy := bd_s1 hS y h.2 hs.2 hq.2
    rcases h.1.1.1 with ((((rfl | rfl) | rfl) | rfl) | rfl) | rfl
    · exact bd_and_v ctx env x y ht hx hy ix iy
    · exact bd_and_b ctx env x y ht hx hy ix iy
    · exact bd_or_b ctx env x y ht hx hy ix iy
    · exact bd_or_i ctx env x y ht hx hy ix iy
    · exact bd_or_c ctx env x y ht hx hy ix iy
    · exact bd_or_d ctx env x y ht hx hy ix iy
  | .andor x y z, h, hs, hq => by
    simp only [noThresh, Bool.and_eq_true] at hq
    have ht := typed_of_s1Typed ctx _ h
    simp only [s1Typed, Bool.and_eq_true, decide_eq_true_eq] at h
    simp only [shaped, Bool.and_eq_true] at hs
    exact bd_andor ctx env x y z ht (typed_of_s1Typed ctx x h.1.1.2) (typed_of_s1Typed ctx y h.1.2)
      (typed_of_s1Typed ctx z h.2) (bd_s1 hS x h.1.1.2 hs.1.1 hq.1.1) (bd_s1 hS y h.1.2 hs.1.2 hq.1.2)
      (bd_s1 hS z h.2 hs.2 hq.2)
  | .multi k keys, _, _, _ => bd_multi ctx env hS k keys
  | .multi_a k keys, h, _, _ => by
    simp only [s1Typed, Bool.and_eq_true, decide_eq_true_eq] at h
    exact bd_multi_a ctx env hS k keys (by omega)
  | .thresh _ _ _, _, _, hq => by simp [noThresh] at hq

/-- what `satisfy` returns, when its candidate is canonical, has at most `max_stack_items` elements
    and `max_witness_size` bytes (each element counted with one length byte). -/
theorem satisfy_within_bounds (hS : SigsSmall ctx env) (n : Ms) (h : s1Typed ctx n = true)
    (hs : shaped ctx n = true) (hq : noThresh n = true) (hB : (typeOf ctx n).B = true) (w : List Bytes)
    (hsat : satisfy ctx env n = .ok w) (hcan : (inputs ctx env n).sat.nonCanonical = false) :
    (∃ b, maxWitnessSize ctx n = some b ∧ wsum w ≤ b) ∧
    (∃ m, maxStackItems ctx n = some m ∧ (w.length : Int) ≤ m) := by
  have hbd := (bd_s1 ctx env hS n h hs hq).1
  unfold satisfy at hsat
  cases hst : (inputs ctx env n).sat.stack with
  | none => simp [hst] at hsat
  | some v =>
    simp only [hst] at hsat
    split at hsat
    · cases hsat
    · rename_i hm
      cases hsat
      simp only [Bool.or_eq_true, Bool.not_eq_true', not_or, Bool.not_eq_true,
        Bool.not_eq_false] at hm
      obtain ⟨hsz, hb⟩ := hbd _ hst
      obtain ⟨⟨b, hb1, hb2⟩, ⟨t, ht1, ht2⟩⟩ := hb (by simp [Input.clean, hm.1, hcan])
      rw [lvOf_B (typed_of_s1Typed ctx n h) hB] at ht2
      refine ⟨⟨b, hb1, by omega⟩, ⟨t.net + 1, ?_, ht2⟩⟩
      simp [maxStackItems, ht1, leavesValue, hB]

end

end Btc.Miniscript
