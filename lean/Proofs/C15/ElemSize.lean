import Proofs.C15.SatBase
/-!
C15 — every element of a stack the satisfier proposes is small (a signature, a key, a preimage,
0x01 or empty): at most 73 bytes, well under the interpreter's 520.
-/
namespace Btc.Miniscript
open Btc Gen.Miniscript

def Small (i : Input) : Prop := ∀ w, i.stack = some w → ∀ e ∈ w, e.length ≤ 73

theorem Small_none : Small noWitness := by intro w h; simp [noWitness] at h

theorem Small_both {a b : Input} (ha : Small a) (hb : Small b) : Small (both a b) := by
  intro w hw e he
  obtain ⟨s, t, hs, ht, rfl⟩ := both_some hw
  rcases List.mem_append.mp he with h | h
  · exact ha s hs e h
  · exact hb t ht e h

theorem Small_better {a b : Input} (ha : Small a) (hb : Small b) : Small (better a b) := by
  intro w hw
  rcases better_some hw with h | h
  · exact ha w h
  · exact hb w h

theorem Small_lit (d : Bytes) (h : d.length ≤ 73) (f : Input) (hf : f.stack = some [d]) : Small f := by
  intro w hw e he
  rw [hf] at hw; cases hw
  simp at he; subst he; exact h

theorem sigSize_le (ctx : Ctx) : sigSize ctx ≤ 73 := by cases ctx <;> decide

section
variable (ctx : Ctx) (env : SatEnv)

def SmallN (n : Ms) : Prop := Small (inputs ctx env n).sat ∧ Small (inputs ctx env n).dsat

theorem small_sig (hS : SigsSmall ctx env) (k : Key) : Small (sigInput ctx env k) := by
  unfold sigInput
  cases ho : offered ctx env k with
  | none => exact Small_none
  | some σ =>
    exact Small_lit σ (Nat.le_trans (hS k σ ho) (sigSize_le ctx)) _ rfl

theorem small_s1 (hS : SigsSmall ctx env) : ∀ (n : Ms), inS1 n = true → shaped ctx n = true →
    SmallN ctx env n
  | .f0, _, _ => ⟨Small_none, fun w h e he => by simp [inputs, noPushes] at h; subst h; simp at he⟩
  | .f1, _, _ => ⟨fun w h e he => by simp [inputs, noPushes] at h; subst h; simp at he, Small_none⟩
  | .pk_k k, _, _ => by
    constructor
    · simpa [inputs, keyInput] using small_sig ctx env hS k
    · simpa [inputs, keyInput] using Small_lit [] (by simp) zeroPush rfl
  | .pk_h k, _, hs => by
    have hk : k.length ≤ 73 := by
      simp only [shaped, beq_iff_eq] at hs
      rw [hs]; cases ctx <;> decide
    have hkey : Small (element k) := Small_lit k hk _ rfl
    constructor
    · simpa [inputs, keyInput] using Small_both (small_sig ctx env hS k) hkey
    · simpa [inputs, keyInput] using Small_both (Small_lit [] (by simp) zeroPush rfl) hkey
  | .older n, _, _ => by
    constructor
    · simp only [inputs]; split
      · intro w h e he; simp [noPushes] at h; subst h; simp at he
      · exact Small_none
    · exact Small_none
  | .after n, _, _ => by
    constructor
    · simp only [inputs]; split
      · intro w h e he; simp [noPushes] at h; subst h; simp at he
      · exact Small_none
    · exact Small_none
  | .hash h d, _, _ => by
    constructor
    · simp only [inputs]
      cases hp : preimageOf env h d with
      | none => exact Small_none
      | some p => exact Small_lit p (by rw [preimageOf_len hp]; omega) _ rfl
    · simpa [inputs] using Small_lit (List.replicate 32 0) (by simp) zero32Push rfl
  | .wrap w x, hin, hs => by
    simp only [inS1, Bool.and_eq_true] at hin
    simp only [shaped] at hs
    obtain ⟨ihs, ihd⟩ := small_s1 hS x hin.2 hs
    have one : Small onePush := Small_lit [1] (by simp) _ rfl
    have zero : Small zeroPush := Small_lit [] (by simp) _ rfl
    cases w <;> simp only [SmallN, inputs, wrapperInput]
    · exact ⟨ihs, ihd⟩
    · exact ⟨ihs, ihd⟩
    · exact ⟨ihs, ihd⟩
    · exact ⟨Small_both ihs one, zero⟩
    · exact ⟨ihs, Small_none⟩
    · exact ⟨ihs, fun w h => zero w (by simpa using h)⟩
    · exact ⟨ihs, ihd⟩
  | .bin b x y, hin, hs => by
    simp only [inS1, Bool.and_eq_true] at hin
    simp only [shaped, Bool.and_eq_true] at hs
    obtain ⟨xs, xd⟩ := small_s1 hS x hin.1.2 hs.1
    obtain ⟨ys, yd⟩ := small_s1 hS y hin.2 hs.2
    have one : Small onePush := Small_lit [1] (by simp) _ rfl
    have zero : Small zeroPush := Small_lit [] (by simp) _ rfl
    cases b <;> simp only [SmallN, inputs, binInput]
    · exact ⟨Small_both ys xs, fun w h => Small_both yd xs w (by simpa using h)⟩
    · exact ⟨Small_both ys xs, Small_better (Small_both yd xd)
        (Small_better (fun w h => Small_both ys xd w (by simpa using h))
          (fun w h => Small_both yd xs w (by simpa using h)))⟩
    · exact ⟨Small_better (Small_better (Small_both yd xs) (Small_both ys xd))
        (fun w h => Small_both ys xs w (by simpa using h)), Small_both yd xd⟩
    · exact ⟨Small_better xs (Small_both ys xd), Small_none⟩
    · exact ⟨Small_better xs (Small_both ys xd), Small_both yd xd⟩
    · exact ⟨Small_better (Small_both xs one) (Small_both ys zero),
        Small_better (Small_both xd one) (Small_both yd zero)⟩
  | .andor x y z, hin, hs => by
    simp only [inS1, Bool.and_eq_true] at hin
    simp only [shaped, Bool.and_eq_true] at hs
    obtain ⟨xs, xd⟩ := small_s1 hS x hin.1.1 hs.1.1
    obtain ⟨ys, yd⟩ := small_s1 hS y hin.1.2 hs.1.2
    obtain ⟨zs, zd⟩ := small_s1 hS z hin.2 hs.2
    simp only [SmallN, inputs, andorInput]
    exact ⟨Small_better (Small_both ys xs) (Small_both zs xd),
      Small_better (fun w h => Small_both yd xs w (by simpa using h)) (Small_both zd xd)⟩
  | .multi _ _, h, _ | .multi_a _ _, h, _ | .thresh _ _ _, h, _ => by simp [inS1] at h

end

end Btc.Miniscript
