import Proofs.C15.SatBase
import Proofs.C15.Dp
/-!
C15 — every element of a stack the satisfier proposes is small (a signature, a key, a preimage,
0x01 or empty): at most 73 bytes, well under the interpreter's 520.
-/
namespace Btc.Miniscript
open Btc Gen.Miniscript

def Small (i : Input) : Prop := ∀ w, i.stack = some w → ∀ e ∈ w, e.length ≤ 73

theorem Small_none : Small noWitness := by intro w h; simp [noWitness] at h

theorem Small_both {a b : Input} (ha : Small a) (hb : Small b) : Small (both a b) := by
  intro w hw e he
  obtain ⟨s, t, hs, ht, rfl⟩ := both_some hw
  rcases List.mem_append.mp he with h | h
  · exact ha s hs e h
  · exact hb t ht e h

theorem Small_better {a b : Input} (ha : Small a) (hb : Small b) : Small (better a b) := by
  intro w hw
  rcases better_some hw with h | h
  · exact ha w h
  · exact hb w h

theorem Small_lit (d : Bytes) (h : d.length ≤ 73) (f : Input) (hf : f.stack = some [d]) : Small f := by
  intro w hw e he
  rw [hf] at hw; cases hw
  simp at he; subst he; exact h

theorem sigSize_le (ctx : Ctx) : sigSize ctx ≤ 73 := by cases ctx <;> decide

section
variable (ctx : Ctx) (env : SatEnv)

def SmallN (n : Ms) : Prop := Small (inputs ctx env n).sat ∧ Small (inputs ctx env n).dsat

theorem small_sig (hS : SigsSmall ctx env) (k : Key) : Small (sigInput ctx env k) := by
  unfold sigInput
  cases ho : offered ctx env k with
  | none => exact Small_none
  | some σ =>
    exact Small_lit σ (Nat.le_trans (hS k σ ho) (sigSize_le ctx)) _ rfl

/-- every entry of a `reached` list is small. -/
def SmallAll (r : List Input) : Prop := AllIdx (fun _ i => Small i) 0 r

theorem SmallAll_getD {r : List Input} (h : SmallAll r) (j : Nat) : Small (r.getD j noWitness) := by
  have := AllIdx_getD (fun _ i => Small i) noWitness (fun _ => Small_none) 0 r j h
  simpa using this

theorem small_multiStep {unused sig : Input} {r : List Input} (hu : Small unused) (hs : Small sig)
    (hr : SmallAll r) : SmallAll (multiStep unused r sig) :=
  dpStep_idx (fun _ i => Small i) (fun _ i => Small i) _ _ _
    (fun _ h => Small_both h hu)
    (fun _ _ _ hp hc => Small_better (Small_both hc hu) (Small_both hp hs))
    (fun _ _ hl => Small_both hl hs) r hr

theorem small_threshStep {sub : Inputs} {r : List Input} (hs : Small sub.sat) (hd : Small sub.dsat)
    (hr : SmallAll r) : SmallAll (threshStepIn r sub) :=
  dpStep_idx (fun _ i => Small i) (fun _ i => Small i) _ _ _
    (fun _ h => Small_both h hd)
    (fun _ _ _ hp hc => Small_better (Small_both hc hd) (Small_both hp hs))
    (fun _ _ hl => Small_both hl hs) r hr

theorem small_multiDsat : ∀ k, Small (multiDsat k)
  | 0 => Small_lit [] (by simp) zeroPush rfl
  | k + 1 => Small_both (small_multiDsat k) (Small_lit [] (by simp) zeroPush rfl)

theorem small_threshDsat (k : Nat) : ∀ (r : List Input) (c i : Nat) (acc : Input),
    AllIdx (fun _ i => Small i) i r → Small acc → Small (threshDsat k c r acc)
  | [], _, _, acc, _, ha => ha
  | x :: r, c, i, acc, hr, ha => by
    simp only [threshDsat]
    refine small_threshDsat k r (c + 1) (i + 1) _ hr.2 ?_
    split
    · exact ha
    · refine Small_better ha ?_
      split
      · exact hr.1
      · exact fun w h => hr.1 w (by simpa using h)

theorem small_noPushes : Small noPushes := by
  intro w h e he; simp [noPushes] at h; subst h; simp at he

/-- every argument's candidates are small. -/
def SmallL : List Inputs → Prop
  | [] => True
  | i :: rest => (Small i.sat ∧ Small i.dsat) ∧ SmallL rest

theorem small_thresh_foldr : ∀ (subs : List Inputs), SmallL subs →
    SmallAll (subs.foldr (fun sub r => threshStepIn r sub) [noPushes])
  | [], _ => ⟨small_noPushes, trivial⟩
  | i :: rest, h => small_threshStep h.1.1 h.1.2 (small_thresh_foldr rest h.2)

mutual
theorem small_s1 (hS : SigsSmall ctx env) : ∀ (n : Ms), inS1 n = true → shaped ctx n = true →
    SmallN ctx env n
  | .f0, _, _ => ⟨Small_none, fun w h e he => by simp [inputs, noPushes] at h; subst h; simp at he⟩
  | .f1, _, _ => ⟨fun w h e he => by simp [inputs, noPushes] at h; subst h; simp at he, Small_none⟩
  | .pk_k k, _, _ => by
    constructor
    · simpa [inputs, keyInput] using small_sig ctx env hS k
    · simpa [inputs, keyInput] using Small_lit [] (by simp) zeroPush rfl
  | .pk_h k, _, hs => by
    have hk : k.length ≤ 73 := by
      simp only [shaped, beq_iff_eq] at hs
      rw [hs]; cases ctx <;> decide
    have hkey : Small (element k) := Small_lit k hk _ rfl
    constructor
    · simpa [inputs, keyInput] using Small_both (small_sig ctx env hS k) hkey
    · simpa [inputs, keyInput] using Small_both (Small_lit [] (by simp) zeroPush rfl) hkey
  | .older n, _, _ => by
    constructor
    · simp only [inputs]; split
      · intro w h e he; simp [noPushes] at h; subst h; simp at he
      · exact Small_none
    · exact Small_none
  | .after n, _, _ => by
    constructor
    · simp only [inputs]; split
      · intro w h e he; simp [noPushes] at h; subst h; simp at he
      · exact Small_none
    · exact Small_none
  | .hash h d, _, _ => by
    constructor
    · simp only [inputs]
      cases hp : preimageOf env h d with
      | none => exact Small_none
      | some p => exact Small_lit p (by rw [preimageOf_len hp]; omega) _ rfl
    · simpa [inputs] using Small_lit (List.replicate 32 0) (by simp) zero32Push rfl
  | .wrap w x, hin, hs => by
    simp only [inS1, Bool.and_eq_true] at hin
    simp only [shaped] at hs
    obtain ⟨ihs, ihd⟩ := small_s1 hS x hin.2 hs
    have one : Small onePush := Small_lit [1] (by simp) _ rfl
    have zero : Small zeroPush := Small_lit [] (by simp) _ rfl
    cases w <;> simp only [SmallN, inputs, wrapperInput]
    · exact ⟨ihs, ihd⟩
    · exact ⟨ihs, ihd⟩
    · exact ⟨ihs, ihd⟩
    · exact ⟨Small_both ihs one, zero⟩
    · exact ⟨ihs, Small_none⟩
    · exact ⟨ihs, fun w h => zero w (by simpa using h)⟩
    · exact ⟨ihs, ihd⟩
  | .bin b x y, hin, hs => by
    simp only [inS1, Bool.and_eq_true] at hin
    simp only [shaped, Bool.and_eq_true] at hs
    obtain ⟨xs, xd⟩ := small_s1 hS x hin.1.2 hs.1
    obtain ⟨ys, yd⟩ := small_s1 hS y hin.2 hs.2
    have one : Small onePush := Small_lit [1] (by simp) _ rfl
    have zero : Small zeroPush := Small_lit [] (by simp) _ rfl
    cases b <;> simp only [SmallN, inputs, binInput]
    · exact ⟨Small_both ys xs, fun w h => Small_both yd xs w (by simpa using h)⟩
    · exact ⟨Small_both ys xs, Small_better (Small_both yd xd)
        (Small_better (fun w h => Small_both ys xd w (by simpa using h))
          (fun w h => Small_both yd xs w (by simpa using h)))⟩
    · exact ⟨Small_better (Small_better (Small_both yd xs) (Small_both ys xd))
        (fun w h => Small_both ys xs w (by simpa using h)), Small_both yd xd⟩
    · exact ⟨Small_better xs (Small_both ys xd), Small_none⟩
    · exact ⟨Small_better xs (Small_both ys xd), Small_both yd xd⟩
    · exact ⟨Small_better (Small_both xs one) (Small_both ys zero),
        Small_better (Small_both xd one) (Small_both yd zero)⟩
  | .andor x y z, hin, hs => by
    simp only [inS1, Bool.and_eq_true] at hin
    simp only [shaped, Bool.and_eq_true] at hs
    obtain ⟨xs, xd⟩ := small_s1 hS x hin.1.1 hs.1.1
    obtain ⟨ys, yd⟩ := small_s1 hS y hin.1.2 hs.1.2
    obtain ⟨zs, zd⟩ := small_s1 hS z hin.2 hs.2
    simp only [SmallN, inputs, andorInput]
    exact ⟨Small_better (Small_both ys xs) (Small_both zs xd),
      Small_better (fun w h => Small_both yd xs w (by simpa using h)) (Small_both zd xd)⟩
  | .multi k keys, _, _ => by
    have hall : ∀ (ks : List Key) (r : List Input), SmallAll r →
        SmallAll (ks.foldl (fun r key => multiStep noPushes r (sigInput ctx env key)) r) := by
      intro ks
      induction ks with
      | nil => intro r h; exact h
      | cons key ks ih =>
        intro r h
        exact ih _ (small_multiStep small_noPushes (small_sig ctx env hS key) h)
    have h0 : SmallAll [zeroPush] := ⟨Small_lit [] (by simp) zeroPush rfl, trivial⟩
    simp only [SmallN, inputs, multiInput, Bool.false_eq_true, if_false]
    exact ⟨SmallAll_getD (hall keys _ h0) k, small_multiDsat k⟩
  | .multi_a k keys, _, _ => by
    have hall : ∀ (ks : List Key),
        SmallAll (ks.foldr (fun key r => multiStep zeroPush r (sigInput ctx env key)) [noPushes]) := by
      intro ks
      induction ks with
      | nil => exact ⟨small_noPushes, trivial⟩
      | cons key ks ih =>
        exact small_multiStep (Small_lit [] (by simp) zeroPush rfl) (small_sig ctx env hS key) ih
    simp only [SmallN, inputs, multiInput, if_true]
    exact ⟨SmallAll_getD (hall keys) k, SmallAll_getD (hall keys) 0⟩
  | .thresh k x xs, hin, hs => by
    simp only [inS1, Bool.and_eq_true] at hin
    simp only [shaped, Bool.and_eq_true] at hs
    have hx := small_s1 hS x hin.1 hs.1.2
    have hxs := small_s1L hS xs hin.2 hs.2
    have hall := small_thresh_foldr (inputs ctx env x :: inputsL ctx env xs) ⟨hx, hxs⟩
    simp only [SmallN, inputs, threshInput]
    exact ⟨SmallAll_getD hall k, small_threshDsat k _ 0 0 _ hall Small_none⟩
theorem small_s1L (hS : SigsSmall ctx env) : ∀ (xs : MsL), inS1L xs = true → shapedL ctx xs = true →
    SmallL (inputsL ctx env xs)
  | .nil, _, _ => trivial
  | .cons x xs, hin, hs => by
    simp only [inS1L, Bool.and_eq_true] at hin
    simp only [shapedL, Bool.and_eq_true] at hs
    exact ⟨small_s1 hS x hin.1 hs.1, small_s1L hS xs hin.2 hs.2⟩
end

end

end Btc.Miniscript
