import Proofs.C15.Sound
import Model.C15.Satisfy
import Model.C15.Bounds
/-!
C15 — basic facts about the satisfier's candidate algebra (`_both`, `_better`).
-/
namespace Btc.Miniscript
open Btc Gen.Miniscript

/-- the signatures a spender offers are no longer than the context's largest. -/
def SigsSmall (ctx : Ctx) (env : SatEnv) : Prop :=
  ∀ k σ, offered ctx env k = some σ → σ.length ≤ sigSize ctx

theorem both_some {a b : Input} {w : List Bytes} (h : (both a b).stack = some w) :
    ∃ s t, a.stack = some s ∧ b.stack = some t ∧ w = s ++ t := by
  unfold both at h
  cases ha : a.stack with
  | none => simp [ha, noWitness] at h
  | some s =>
    cases hb : b.stack with
    | none => simp [ha, hb, noWitness] at h
    | some t => simp [ha, hb] at h; exact ⟨s, t, rfl, rfl, h.symm⟩

theorem better_some {a b : Input} {w : List Bytes} (h : (better a b).stack = some w) :
    a.stack = some w ∨ b.stack = some w := by
  unfold better at h
  repeat' split at h
  all_goals first | exact Or.inl h | exact Or.inr h | (simp at h; first | exact Or.inl h | exact Or.inr h)

@[simp] theorem overcomplete_stack' (i : Input) : (overcomplete i).stack = i.stack := rfl
@[simp] theorem nonCanon_stack' (i : Input) : (nonCanon i).stack = i.stack := rfl

theorem preimageOf_len {env : SatEnv} {h : HashKind} {d p : Bytes} (hp : preimageOf env h d = some p) :
    p.length = 32 := by
  unfold preimageOf at hp
  split at hp
  · split at hp
    · cases hp; assumption
    · cases hp
  · cases hp

end Btc.Miniscript
