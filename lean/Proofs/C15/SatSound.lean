import Proofs.C15.Sound
import Model.C15.Satisfy
/-!
C15 — what the (modelled) satisfier returns is one of the stacks the satisfaction tables list:
`satisfy ⊆ Sat` for the covered fragment set.
-/
namespace Btc.Miniscript
open Btc Gen.Miniscript

/-- the spender's signatures verify and the preimages hash to their digests, in the evaluator's
    environment. -/
def EnvOK (E : EvalEnv) (ctx : Ctx) (env : SatEnv) : Prop :=
  (∀ k σ, offered ctx env k = some σ → E.sigOK k σ = true) ∧
  (∀ h d p, preimageOf env h d = some p → E.hashF h p = d) ∧
  (∀ n, olderMet env n = true → E.csvOK (encodeNum n) = true) ∧
  (∀ n, afterMet env n = true → E.cltvOK (encodeNum n) = true)

/-- no digest of the expression is the hash of 32 zero bytes (the satisfier's dissatisfaction of
    a hash fragment). -/
def zeroOK (E : EvalEnv) : Ms → Bool
  | .hash h d => E.hashF h (List.replicate 32 0) != d
  | .wrap _ x => zeroOK E x
  | .bin _ x y => zeroOK E x && zeroOK E y
  | .andor x y z => zeroOK E x && zeroOK E y && zeroOK E z
  | _ => true

theorem both_some {a b : Input} {w : List Bytes} (h : (both a b).stack = some w) :
    ∃ s t, a.stack = some s ∧ b.stack = some t ∧ w = s ++ t := by
  unfold both at h
  cases ha : a.stack with
  | none => simp [ha, noWitness] at h
  | some s =>
    cases hb : b.stack with
    | none => simp [ha, hb, noWitness] at h
    | some t => simp [ha, hb] at h; exact ⟨s, t, rfl, rfl, h.symm⟩

theorem better_some {a b : Input} {w : List Bytes} (h : (better a b).stack = some w) :
    a.stack = some w ∨ b.stack = some w := by
  unfold better at h
  repeat' split at h
  all_goals first | exact Or.inl h | exact Or.inr h | (simp at h; first | exact Or.inl h | exact Or.inr h)

@[simp] theorem overcomplete_stack' (i : Input) : (overcomplete i).stack = i.stack := rfl
@[simp] theorem nonCanon_stack' (i : Input) : (nonCanon i).stack = i.stack := rfl

theorem preimageOf_len {env : SatEnv} {h : HashKind} {d p : Bytes} (hp : preimageOf env h d = some p) :
    p.length = 32 := by
  unfold preimageOf at hp
  split at hp
  · split at hp
    · cases hp; assumption
    · cases hp
  · cases hp

section
variable (E : EvalEnv) (ctx : Ctx) (env : SatEnv)

/-- the satisfier's candidates are table entries. -/
def SatInv (n : Ms) : Prop :=
  (∀ w, (inputs ctx env n).sat.stack = some w → Sat E n w.reverse) ∧
  (∀ w, (inputs ctx env n).dsat.stack = some w → Dsat E n w.reverse)

theorem satInv (hE : EnvOK E ctx env) : ∀ (n : Ms), inS1 n = true → zeroOK E n = true →
    SatInv E ctx env n
  | .f0, _, _ => by
    constructor <;> intro w h <;> simp [inputs, noWitness, noPushes] at h
    subst h; exact .f0
  | .f1, _, _ => by
    constructor <;> intro w h <;> simp [inputs, noWitness, noPushes] at h
    subst h; exact .f1
  | .pk_k k, _, _ => by
    constructor
    · intro w h
      simp only [inputs, keyInput, sigInput] at h
      cases ho : offered ctx env k with
      | none => simp [ho, noWitness] at h
      | some σ =>
        simp [ho, element] at h
        subst h
        exact .pk_k k σ (hE.1 k σ ho)
    · intro w h
      simp [inputs, keyInput, zeroPush, element] at h
      subst h; exact .pk_k k
  | .pk_h k, _, _ => by
    constructor
    · intro w h
      simp only [inputs, keyInput, sigInput] at h
      cases ho : offered ctx env k with
      | none => simp [ho, both, noWitness] at h
      | some σ =>
        simp [ho, both, element] at h
        subst h
        exact .pk_h k σ (hE.1 k σ ho)
    · intro w h
      simp [inputs, keyInput, both, zeroPush, element] at h
      subst h; exact .pk_h k
  | .hash hk d, _, hz => by
    simp only [zeroOK, bne_iff_ne, ne_eq] at hz
    constructor
    · intro w h
      simp only [inputs] at h
      cases hp : preimageOf env hk d with
      | none => simp [hp, noWitness] at h
      | some p =>
        simp [hp, element] at h
        subst h
        exact .hash hk d p (preimageOf_len hp) (hE.2.1 hk d p hp)
    · intro w h
      simp [inputs, zero32Push] at h
      subst h
      exact .hash hk d _ (by simp) hz
  | .older n, _, _ => by
    constructor
    · intro w h
      simp only [inputs] at h
      cases hm : olderMet env n with
      | false => simp [hm, noWitness] at h
      | true => simp [hm, noPushes] at h; subst h; exact .older n (hE.2.2.1 n hm)
    · intro w h; simp [inputs, noWitness] at h
  | .after n, _, _ => by
    constructor
    · intro w h
      simp only [inputs] at h
      cases hm : afterMet env n with
      | false => simp [hm, noWitness] at h
      | true => simp [hm, noPushes] at h; subst h; exact .after n (hE.2.2.2 n hm)
    · intro w h; simp [inputs, noWitness] at h
  | .wrap w x, hin, hz => by
    simp only [inS1, Bool.and_eq_true, Bool.or_eq_true, beq_iff_eq] at hin
    simp only [zeroOK] at hz
    obtain ⟨ihs, ihd⟩ := satInv hE x hin.2 hz
    rcases hin.1 with ((((rfl | rfl) | rfl) | rfl) | rfl) | rfl
    · exact ⟨fun v h => .wrap _ _ _ (by decide) (by decide) (ihs v (by simpa [inputs, wrapperInput] using h)),
        fun v h => .wrap_c _ _ (ihd v (by simpa [inputs, wrapperInput] using h))⟩
    · exact ⟨fun v h => .wrap _ _ _ (by decide) (by decide) (ihs v (by simpa [inputs, wrapperInput] using h)),
        fun v h => by simp [inputs, wrapperInput, noWitness] at h⟩
    · exact ⟨fun v h => .wrap _ _ _ (by decide) (by decide) (ihs v (by simpa [inputs, wrapperInput] using h)),
        fun v h => .wrap_a _ _ (ihd v (by simpa [inputs, wrapperInput] using h))⟩
    · exact ⟨fun v h => .wrap _ _ _ (by decide) (by decide) (ihs v (by simpa [inputs, wrapperInput] using h)),
        fun v h => .wrap_n _ _ (ihd v (by simpa [inputs, wrapperInput] using h))⟩
    · exact ⟨fun v h => .wrap _ _ _ (by decide) (by decide) (ihs v (by simpa [inputs, wrapperInput] using h)),
        fun v h => .wrap_s _ _ (ihd v (by simpa [inputs, wrapperInput] using h))⟩
    · constructor
      · intro v h
        simp only [inputs, wrapperInput] at h
        obtain ⟨s, t, hs, ht, rfl⟩ := both_some h
        simp [onePush, element] at ht
        subst ht
        simpa using Sat.wrap_d x _ (ihs s hs)
      · intro v h
        simp [inputs, wrapperInput, zeroPush, element] at h
        subst h; exact .wrap_d x
  | .bin b x y, hin, hz => by
    simp only [inS1, Bool.and_eq_true, Bool.or_eq_true, beq_iff_eq] at hin
    simp only [zeroOK, Bool.and_eq_true] at hz
    obtain ⟨xs, xd⟩ := satInv hE x hin.1.2 hz.1
    obtain ⟨ys, yd⟩ := satInv hE y hin.2 hz.2
    rcases hin.1.1 with ((((rfl | rfl) | rfl) | rfl) | rfl) | rfl
    · -- and_v
      constructor
      · intro v h
        simp only [inputs, binInput] at h
        obtain ⟨s, t, hs, ht, rfl⟩ := both_some h
        simpa using Sat.and_v x y _ _ (xs t ht) (ys s hs)
      · intro v h
        simp only [inputs, binInput, nonCanon_stack'] at h
        obtain ⟨s, t, hs, ht, rfl⟩ := both_some h
        simpa using Dsat.and_v_d x y _ _ (xs t ht) (yd s hs)
    · -- and_b
      constructor
      · intro v h
        simp only [inputs, binInput] at h
        obtain ⟨s, t, hs, ht, rfl⟩ := both_some h
        simpa using Sat.and_b x y _ _ (xs t ht) (ys s hs)
      · intro v h
        simp only [inputs, binInput] at h
        rcases better_some h with h | h
        · obtain ⟨s, t, hs, ht, rfl⟩ := both_some h
          simpa using Dsat.and_b x y _ _ (xd t ht) (yd s hs)
        · rcases better_some h with h | h
          · simp only [overcomplete_stack'] at h
            obtain ⟨s, t, hs, ht, rfl⟩ := both_some h
            simpa using Dsat.and_b_r x y _ _ (xd t ht) (ys s hs)
          · simp only [overcomplete_stack'] at h
            obtain ⟨s, t, hs, ht, rfl⟩ := both_some h
            simpa using Dsat.and_b_l x y _ _ (xs t ht) (yd s hs)
    · -- or_b
      constructor
      · intro v h
        simp only [inputs, binInput] at h
        rcases better_some h with h | h
        · rcases better_some h with h | h
          · obtain ⟨s, t, hs, ht, rfl⟩ := both_some h
            simpa using Sat.or_b_l x y _ _ (xs t ht) (yd s hs)
          · obtain ⟨s, t, hs, ht, rfl⟩ := both_some h
            simpa using Sat.or_b_r x y _ _ (xd t ht) (ys s hs)
        · simp only [overcomplete_stack'] at h
          obtain ⟨s, t, hs, ht, rfl⟩ := both_some h
          simpa using Sat.or_b_both x y _ _ (xs t ht) (ys s hs)
      · intro v h
        simp only [inputs, binInput] at h
        obtain ⟨s, t, hs, ht, rfl⟩ := both_some h
        simpa using Dsat.or_b x y _ _ (xd t ht) (yd s hs)
    · -- or_i
      constructor
      · intro v h
        simp only [inputs, binInput] at h
        rcases better_some h with h | h
        · obtain ⟨s, t, hs, ht, rfl⟩ := both_some h
          simp [onePush, element] at ht; subst ht
          simpa using Sat.or_i_l x y _ (xs s hs)
        · obtain ⟨s, t, hs, ht, rfl⟩ := both_some h
          simp [zeroPush, element] at ht; subst ht
          simpa using Sat.or_i_r x y _ (ys s hs)
      · intro v h
        simp only [inputs, binInput] at h
        rcases better_some h with h | h
        · obtain ⟨s, t, hs, ht, rfl⟩ := both_some h
          simp [onePush, element] at ht; subst ht
          simpa using Dsat.or_i_l x y _ (xd s hs)
        · obtain ⟨s, t, hs, ht, rfl⟩ := both_some h
          simp [zeroPush, element] at ht; subst ht
          simpa using Dsat.or_i_r x y _ (yd s hs)
    · -- or_c
      constructor
      · intro v h
        simp only [inputs, binInput] at h
        rcases better_some h with h | h
        · exact .or_c_l x y _ (xs v h)
        · obtain ⟨s, t, hs, ht, rfl⟩ := both_some h
          simpa using Sat.or_c_r x y _ _ (xd t ht) (ys s hs)
      · intro v h
        simp [inputs, binInput, noWitness] at h
    · -- or_d
      constructor
      · intro v h
        simp only [inputs, binInput] at h
        rcases better_some h with h | h
        · exact .or_d_l x y _ (xs v h)
        · obtain ⟨s, t, hs, ht, rfl⟩ := both_some h
          simpa using Sat.or_d_r x y _ _ (xd t ht) (ys s hs)
      · intro v h
        simp only [inputs, binInput] at h
        obtain ⟨s, t, hs, ht, rfl⟩ := both_some h
        simpa using Dsat.or_d x y _ _ (xd t ht) (yd s hs)
  | .andor x y z, hin, hz => by
    simp only [inS1, Bool.and_eq_true] at hin
    simp only [zeroOK, Bool.and_eq_true] at hz
    obtain ⟨xs, xd⟩ := satInv hE x hin.1.1 hz.1.1
    obtain ⟨ys, yd⟩ := satInv hE y hin.1.2 hz.1.2
    obtain ⟨zs, zd⟩ := satInv hE z hin.2 hz.2
    constructor
    · intro v h
      simp only [inputs, andorInput] at h
      rcases better_some h with h | h
      · obtain ⟨s, t, hs, ht, rfl⟩ := both_some h
        simpa using Sat.andor_l x y z _ _ (xs t ht) (ys s hs)
      · obtain ⟨s, t, hs, ht, rfl⟩ := both_some h
        simpa using Sat.andor_r x y z _ _ (xd t ht) (zs s hs)
    · intro v h
      simp only [inputs, andorInput] at h
      rcases better_some h with h | h
      · simp only [nonCanon_stack'] at h
        obtain ⟨s, t, hs, ht, rfl⟩ := both_some h
        simpa using Dsat.andor_y x y z _ _ (xs t ht) (yd s hs)
      · obtain ⟨s, t, hs, ht, rfl⟩ := both_some h
        simpa using Dsat.andor x y z _ _ (xd t ht) (zd s hs)
  | .multi _ _, h, _ | .multi_a _ _, h, _ | .thresh _ _ _, h, _ => by simp [inS1] at h

/-- `satisfy ⊆ Sat`: the witness the satisfier returns, read top first, is a listed satisfaction. -/
theorem satisfy_in_Sat (hE : EnvOK E ctx env) (n : Ms) (hin : inS1 n = true)
    (hz : zeroOK E n = true) (w : List Bytes) (h : satisfy ctx env n = .ok w) :
    Sat E n w.reverse := by
  unfold satisfy at h
  cases hs : (inputs ctx env n).sat.stack with
  | none => simp [hs] at h
  | some v =>
    simp only [hs] at h
    split at h
    · cases h
    · cases h
      exact (satInv E ctx env hE n hin hz).1 _ hs

end

end Btc.Miniscript
