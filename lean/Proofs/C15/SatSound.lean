import Proofs.C15.ElemSize
/-!
C15 — what the (modelled) satisfier returns is one of the stacks the satisfaction tables list:
`satisfy ⊆ Sat` for the covered fragment set.
-/
namespace Btc.Miniscript
open Btc Gen.Miniscript

/-- the spender's signatures verify and the preimages hash to their digests, in the evaluator's
    environment. -/
def EnvOK (E : EvalEnv) (ctx : Ctx) (env : SatEnv) : Prop :=
  (∀ k σ, offered ctx env k = some σ → E.sigOK k σ = true) ∧
  (∀ h d p, preimageOf env h d = some p → E.hashF h p = d) ∧
  (∀ n, olderMet env n = true → E.csvOK (encodeNum n) = true) ∧
  (∀ n, afterMet env n = true → E.cltvOK (encodeNum n) = true)

/-- no digest of the expression is the hash of 32 zero bytes (the satisfier's dissatisfaction of
    a hash fragment). -/
def zeroOK (E : EvalEnv) : Ms → Bool
  | .hash h d => E.hashF h (List.replicate 32 0) != d
  | .wrap _ x => zeroOK E x
  | .bin _ x y => zeroOK E x && zeroOK E y
  | .andor x y z => zeroOK E x && zeroOK E y && zeroOK E z
  | _ => true

section
variable (E : EvalEnv) (ctx : Ctx) (env : SatEnv)

/-- the satisfier's candidates are table entries. -/
def SatInv (n : Ms) : Prop :=
  (∀ w, (inputs ctx env n).sat.stack = some w → Sat E n w.reverse) ∧
  (∀ w, (inputs ctx env n).dsat.stack = some w → Dsat E n w.reverse)

theorem satInv (hE : EnvOK E ctx env) (hS : SigsSmall ctx env) : ∀ (n : Ms), inS1 n = true →
    shaped ctx n = true → zeroOK E n = true → SatInv E ctx env n
  | .f0, _, _, _ => by
    constructor <;> intro w h <;> simp [inputs, noWitness, noPushes] at h
    subst h; exact .f0
  | .f1, _, _, _ => by
    constructor <;> intro w h <;> simp [inputs, noWitness, noPushes] at h
    subst h; exact .f1
  | .pk_k k, _, _, _ => by
    constructor
    · intro w h
      simp only [inputs, keyInput, sigInput] at h
      cases ho : offered ctx env k with
      | none => simp [ho, noWitness] at h
      | some σ =>
        simp [ho, element] at h
        subst h
        exact .pk_k k σ (hE.1 k σ ho)
    · intro w h
      simp [inputs, keyInput, zeroPush, element] at h
      subst h; exact .pk_k k
  | .pk_h k, _, _, _ => by
    constructor
    · intro w h
      simp only [inputs, keyInput, sigInput] at h
      cases ho : offered ctx env k with
      | none => simp [ho, both, noWitness] at h
      | some σ =>
        simp [ho, both, element] at h
        subst h
        exact .pk_h k σ (hE.1 k σ ho)
    · intro w h
      simp [inputs, keyInput, both, zeroPush, element] at h
      subst h; exact .pk_h k
  | .hash hk d, _, _, hz => by
    simp only [zeroOK, bne_iff_ne, ne_eq] at hz
    constructor
    · intro w h
      simp only [inputs] at h
      cases hp : preimageOf env hk d with
      | none => simp [hp, noWitness] at h
      | some p =>
        simp [hp, element] at h
        subst h
        exact .hash hk d p (preimageOf_len hp) (hE.2.1 hk d p hp)
    · intro w h
      simp [inputs, zero32Push] at h
      subst h
      exact .hash hk d _ (by simp) hz
  | .older n, _, _, _ => by
    constructor
    · intro w h
      simp only [inputs] at h
      cases hm : olderMet env n with
      | false => simp [hm, noWitness] at h
      | true => simp [hm, noPushes] at h; subst h; exact .older n (hE.2.2.1 n hm)
    · intro w h; simp [inputs, noWitness] at h
  | .after n, _, _, _ => by
    constructor
    · intro w h
      simp only [inputs] at h
      cases hm : afterMet env n with
      | false => simp [hm, noWitness] at h
      | true => simp [hm, noPushes] at h; subst h; exact .after n (hE.2.2.2 n hm)
    · intro w h; simp [inputs, noWitness] at h
  | .wrap w x, hin, hsh, hz => by
    simp only [inS1, Bool.and_eq_true, Bool.or_eq_true, beq_iff_eq] at hin
    simp only [zeroOK] at hz
    simp only [shaped] at hsh
    obtain ⟨ihs, ihd⟩ := satInv hE hS x hin.2 hsh hz
    rcases hin.1 with (((((rfl | rfl) | rfl) | rfl) | rfl) | rfl) | rfl
    · exact ⟨fun v h => .wrap _ _ _ (by decide) (by decide) (ihs v (by simpa [inputs, wrapperInput] using h)),
        fun v h => .wrap_c _ _ (ihd v (by simpa [inputs, wrapperInput] using h))⟩
    · exact ⟨fun v h => .wrap _ _ _ (by decide) (by decide) (ihs v (by simpa [inputs, wrapperInput] using h)),
        fun v h => by simp [inputs, wrapperInput, noWitness] at h⟩
    · exact ⟨fun v h => .wrap _ _ _ (by decide) (by decide) (ihs v (by simpa [inputs, wrapperInput] using h)),
        fun v h => .wrap_a _ _ (ihd v (by simpa [inputs, wrapperInput] using h))⟩
    · exact ⟨fun v h => .wrap _ _ _ (by decide) (by decide) (ihs v (by simpa [inputs, wrapperInput] using h)),
        fun v h => .wrap_n _ _ (ihd v (by simpa [inputs, wrapperInput] using h))⟩
    · exact ⟨fun v h => .wrap _ _ _ (by decide) (by decide) (ihs v (by simpa [inputs, wrapperInput] using h)),
        fun v h => .wrap_s _ _ (ihd v (by simpa [inputs, wrapperInput] using h))⟩
    · constructor
      · intro v h
        simp only [inputs, wrapperInput] at h
        obtain ⟨s, t, hs, ht, rfl⟩ := both_some h
        simp [onePush, element] at ht
        subst ht
        simpa using Sat.wrap_d x _ (ihs s hs)
      · intro v h
        simp [inputs, wrapperInput, zeroPush, element] at h
        subst h; exact .wrap_d x
    · constructor
      · intro v h
        simp only [inputs, wrapperInput] at h
        refine .wrap_j x _ (ihs v h) ?_
        intro e he
        have := (small_s1 ctx env hS x hin.2 hsh).1 v h e (List.mem_reverse.mp he)
        omega
      · intro v h
        simp [inputs, wrapperInput, zeroPush, element] at h
        subst h; exact .wrap_j x
  | .bin b x y, hin, hsh, hz => by
    simp only [inS1, Bool.and_eq_true, Bool.or_eq_true, beq_iff_eq] at hin
    simp only [zeroOK, Bool.and_eq_true] at hz
    simp only [shaped, Bool.and_eq_true] at hsh
    obtain ⟨xs, xd⟩ := satInv hE hS x hin.1.2 hsh.1 hz.1
    obtain ⟨ys, yd⟩ := satInv hE hS y hin.2 hsh.2 hz.2
    rcases hin.1.1 with ((((rfl | rfl) | rfl) | rfl) | rfl) | rfl
    · -- and_v
      constructor
      · intro v h
        simp only [inputs, binInput] at h
        obtain ⟨s, t, hs, ht, rfl⟩ := both_some h
        simpa using Sat.and_v x y _ _ (xs t ht) (ys s hs)
      · intro v h
        simp only [inputs, binInput, nonCanon_stack'] at h
        obtain ⟨s, t, hs, ht, rfl⟩ := both_some h
        simpa using Dsat.and_v_d x y _ _ (xs t ht) (yd s hs)
    · -- and_b
      constructor
      · intro v h
        simp only [inputs, binInput] at h
        obtain ⟨s, t, hs, ht, rfl⟩ := both_some h
        simpa using Sat.and_b x y _ _ (xs t ht) (ys s hs)
      · intro v h
        simp only [inputs, binInput] at h
        rcases better_some h with h | h
        · obtain ⟨s, t, hs, ht, rfl⟩ := both_some h
          simpa using Dsat.and_b x y _ _ (xd t ht) (yd s hs)
        · rcases better_some h with h | h
          · simp only [overcomplete_stack'] at h
            obtain ⟨s, t, hs, ht, rfl⟩ := both_some h
            simpa using Dsat.and_b_r x y _ _ (xd t ht) (ys s hs)
          · simp only [overcomplete_stack'] at h
            obtain ⟨s, t, hs, ht, rfl⟩ := both_some h
            simpa using Dsat.and_b_l x y _ _ (xs t ht) (yd s hs)
    · -- or_b
      constructor
      · intro v h
        simp only [inputs, binInput] at h
        rcases better_some h with h | h
        · rcases better_some h with h | h
          · obtain ⟨s, t, hs, ht, rfl⟩ := both_some h
            simpa using Sat.or_b_l x y _ _ (xs t ht) (yd s hs)
          · obtain ⟨s, t, hs, ht, rfl⟩ := both_some h
            simpa using Sat.or_b_r x y _ _ (xd t ht) (ys s hs)
        · simp only [overcomplete_stack'] at h
          obtain ⟨s, t, hs, ht, rfl⟩ := both_some h
          simpa using Sat.or_b_both x y _ _ (xs t ht) (ys s hs)
      · intro v h
        simp only [inputs, binInput] at h
        obtain ⟨s, t, hs, ht, rfl⟩ := both_some h
        simpa using Dsat.or_b x y _ _ (xd t ht) (yd s hs)
    · -- or_i
      constructor
      · intro v h
        simp only [inputs, binInput] at h
        rcases better_some h with h | h
        · obtain ⟨s, t, hs, ht, rfl⟩ := both_some h
          simp [onePush, element] at ht; subst ht
          simpa using Sat.or_i_l x y _ (xs s hs)
        · obtain ⟨s, t, hs, ht, rfl⟩ := both_some h
          simp [zeroPush, element] at ht; subst ht
          simpa using Sat.or_i_r x y _ (ys s hs)
      · intro v h
        simp only [inputs, binInput] at h
        rcases better_some h with h | h
        · obtain ⟨s, t, hs, ht, rfl⟩ := both_some h
          simp [onePush, element] at ht; subst ht
          simpa using Dsat.or_i_l x y _ (xd s hs)
        · obtain ⟨s, t, hs, ht, rfl⟩ := both_some h
          simp [zeroPush, element] at ht; subst ht
          simpa using Dsat.or_i_r x y _ (yd s hs)
    · -- or_c
      constructor
      · intro v h
        simp only [inputs, binInput] at h
        rcases better_some h with h | h
        · exact .or_c_l x y _ (xs v h)
        · obtain ⟨s, t, hs, ht, rfl⟩ := both_some h
          simpa using Sat.or_c_r x y _ _ (xd t ht) (ys s hs)
      · intro v h
        simp [inputs, binInput, noWitness] at h
    · -- or_d
      constructor
      · intro v h
        simp only [inputs, binInput] at h
        rcases better_some h with h | h
        · exact .or_d_l x y _ (xs v h)
        · obtain ⟨s, t, hs, ht, rfl⟩ := both_some h
          simpa using Sat.or_d_r x y _ _ (xd t ht) (ys s hs)
      · intro v h
        simp only [inputs, binInput] at h
        obtain ⟨s, t, hs, ht, rfl⟩ := both_some h
        simpa using Dsat.or_d x y _ _ (xd t ht) (yd s hs)
  | .andor x y z, hin, hsh, hz => by
    simp only [inS1, Bool.and_eq_true] at hin
    simp only [zeroOK, Bool.and_eq_true] at hz
    simp only [shaped, Bool.and_eq_true] at hsh
    obtain ⟨xs, xd⟩ := satInv hE hS x hin.1.1 hsh.1.1 hz.1.1
    obtain ⟨ys, yd⟩ := satInv hE hS y hin.1.2 hsh.1.2 hz.1.2
    obtain ⟨zs, zd⟩ := satInv hE hS z hin.2 hsh.2 hz.2
    constructor
    · intro v h
      simp only [inputs, andorInput] at h
      rcases better_some h with h | h
      · obtain ⟨s, t, hs, ht, rfl⟩ := both_some h
        simpa using Sat.andor_l x y z _ _ (xs t ht) (ys s hs)
      · obtain ⟨s, t, hs, ht, rfl⟩ := both_some h
        simpa using Sat.andor_r x y z _ _ (xd t ht) (zs s hs)
    · intro v h
      simp only [inputs, andorInput] at h
      rcases better_some h with h | h
      · simp only [nonCanon_stack'] at h
        obtain ⟨s, t, hs, ht, rfl⟩ := both_some h
        simpa using Dsat.andor_y x y z _ _ (xs t ht) (yd s hs)
      · obtain ⟨s, t, hs, ht, rfl⟩ := both_some h
        simpa using Dsat.andor x y z _ _ (xd t ht) (zd s hs)
  | .multi _ _, h, _, _ | .multi_a _ _, h, _, _ | .thresh _ _ _, h, _, _ => by simp [inS1] at h

/-- `satisfy ⊆ Sat`: the witness the satisfier returns, read top first, is a listed satisfaction. -/
theorem satisfy_in_Sat (hE : EnvOK E ctx env) (hS : SigsSmall ctx env) (n : Ms)
    (hin : inS1 n = true) (hsh : shaped ctx n = true) (hz : zeroOK E n = true) (w : List Bytes) (h : satisfy ctx env n = .ok w) :
    Sat E n w.reverse := by
  unfold satisfy at h
  cases hs : (inputs ctx env n).sat.stack with
  | none => simp [hs] at h
  | some v =>
    simp only [hs] at h
    split at h
    · cases h
    · cases h
      exact (satInv E ctx env hE hS n hin hsh hz).1 _ hs

end

end Btc.Miniscript
